#!/usr/bin/env python3
"""Fails if the Coq development contains an escape hatch: Admitted / admit, an Axiom / Parameter /
Conjecture declaration, a Variable / Hypothesis / Context outside a section, a disabled kernel check,
or Admit Obligations. Comments are stripped first (nested (* *) aware)."""
import os, re, sys

def strip_comments(src):
    out, depth, i, instr = [], 0, 0, False
    while i < len(src):
        if not instr and src.startswith("(*", i):
            depth += 1; i += 2; continue
        if not instr and depth > 0 and src.startswith("*)", i):
            depth -= 1; i += 2; continue
        c = src[i]
        if depth == 0:
            if c == '"':
                instr = not instr
            out.append(c)
        elif c == "\n":
            out.append(c)
        i += 1
    return "".join(out)

bad = []
root = sys.argv[1] if len(sys.argv) > 1 else "."
for dp, dn, fn in os.walk(root):
    for f in fn:
        if not f.endswith(".v"):
            continue
        path = os.path.join(dp, f)
        if "/Extract/" in path + "/":
            continue
        src = strip_comments(open(path).read())
        depth = 0
        for ln, line in enumerate(src.split("\n"), 1):
            t = line.strip()
            if re.match(r"(Section|Module)\s+\w+", t) and ":=" not in t:
                depth += 1
            elif re.match(r"End\s+\w+\s*\.", t):
                depth = max(0, depth - 1)
            if re.search(r"\bAdmitted\b|\badmit\b|Admit Obligations|Unset Guard Checking|Unset Positivity Checking|Unset Universe Checking|bypass_check|type-in-type|impredicative-set", t):
                bad.append("%s:%d: %s" % (path, ln, t[:100]))
            if re.match(r"(Local\s+|Global\s+|#\[[^\]]*\]\s*)?(Axiom|Axioms|Parameter|Parameters|Conjecture)\b", t):
                bad.append("%s:%d: %s" % (path, ln, t[:100]))
            if depth == 0 and re.match(r"(Variable|Variables|Hypothesis|Hypotheses|Context)\b", t):
                bad.append("%s:%d: outside a section: %s" % (path, ln, t[:100]))
if bad:
    print("\n".join(bad)); print("ESCAPE HATCH FOUND"); sys.exit(1)
print("no escape hatches in %s" % root)
