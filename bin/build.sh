#!/bin/bash
# Builds the whole framework from files on disk: Coq development (full .vo build), the OCaml
# reference interpreter extracted from it, and the Go harness against /repo's working tree.
set -euo pipefail
cd "$(dirname "$0")/.."
export GOFLAGS=-mod=mod GOPROXY=off
mkdir -p build
(
  cd coq
  coq_makefile -f _CoqProject -o Makefile >/dev/null
  timeout 3000 make -j16 2>&1 | grep -v '^COQ\(C\|DEP\)' || true
  # make's status is lost by the pipe: check the targets
  for f in $(grep '\.v$' _CoqProject); do
    test -f "${f%.v}.vo" || { echo "BUILD FAILED: ${f%.v}.vo missing"; exit 1; }
  done
  # no escape hatches anywhere in the development (Admitted, axioms, Variables outside sections, ...)
  python3 ../bin/no_escape.py . || { echo "BUILD FAILED: escape hatch in the Coq development"; exit 1; }
  cd Extract
  timeout 600 coqc -Q .. Ark Extract.v >/dev/null
  ocamlfind ocamlopt -O3 -w -a arkmodel.mli arkmodel.ml driver.ml -o ../../build/arkmodel 2>/dev/null \
    || ocamlfind ocamlopt -w -a arkmodel.mli arkmodel.ml driver.ml -o ../../build/arkmodel
)
bin/build_harness.sh
echo "build ok"
