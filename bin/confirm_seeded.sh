#!/bin/bash
# Usage: confirm_seeded.sh <agent worktree> <name> 
# Confirms a seeded change in a fresh scratch worktree of /repo: the demonstration passes on the
# unchanged tree; with the patch the library builds, the existing suite passes, the demonstration
# fails. On success copies patch.diff and the demo to /verif/seeded/<name>/ .
set -u
src="$1"; name="$2"
export GOFLAGS=-mod=mod GOPROXY=off
wt=/tmp/confirm_$name
git -C /repo worktree remove --force "$wt" 2>/dev/null
git -C /repo worktree add -q --detach "$wt" HEAD || exit 2
demo="$src/ecs/zz_seeded_demo_test.go"; [ -f "$demo" ] || demo="$src/zz_seeded_demo_test.go"
cp "$demo" "$wt/ecs/"
cd "$wt"
r1=$(go test -count=1 -run TestSeeded ./ecs 2>&1 | tail -1)
git apply "$src/patch.diff" || { echo "patch does not apply"; exit 2; }
b=$(go build ./... 2>&1 && go vet ./ecs 2>&1 | tail -2)
mv ecs/zz_seeded_demo_test.go /tmp/zz_demo_$name.txt
r2=$(go test -count=1 ./... 2>&1 | grep -v "no test files" | tr '\n' ' ')
mv /tmp/zz_demo_$name.txt ecs/zz_seeded_demo_test.go
r3=$(go test -count=1 -run TestSeeded ./ecs 2>&1 | tail -1)
echo "unchanged+demo: $r1"; echo "build/vet: ${b:-ok}"; echo "patched suite: $r2"; echo "patched+demo: $r3"
ok=1
[[ "$r1" == ok* ]] || ok=0
[[ "$r2" == *FAIL* ]] && ok=0
[[ "$r3" == FAIL* ]] || ok=0
cd /
git -C /repo worktree remove --force "$wt"
if [ $ok = 1 ]; then
  mkdir -p /verif/seeded/$name
  cp "$src/patch.diff" /verif/seeded/$name/patch.diff
  cp "$demo" /verif/seeded/$name/zz_seeded_demo_test.go
  echo "CONFIRMED $name"
else
  echo "NOT CONFIRMED $name"
fi
