#!/bin/bash
# Applies every seeded change under /verif/seeded to /repo in turn, runs the quick check of the
# property it targets (plus the checks listed in meta.json "detected_by"), undoes it, and prints one
# line per (change, check). /repo must be clean; it is left clean.
set -u
cd /verif
export GOFLAGS=-mod=mod GOPROXY=off
for d in seeded/*/; do
  name=$(basename "$d")
  prop=${name%%-*}
  extra=$(python3 -c "
import json,sys
try:
    m=json.load(open('$d/meta.json')); print(' '.join(k for k in m.get('detected_by',{}) if k != '$prop'))
except Exception: pass")
  if ! git -C /repo diff --quiet; then echo "/repo dirty"; exit 2; fi
  git -C /repo apply "/verif/$d/patch.diff" || { echo "$name: patch does not apply"; continue; }
  for id in $prop $extra; do
    r=$(timeout 1800 bin/check "$id" quick 2>&1 | grep -E "VIOLATION|quick:" | tr '\n' ' ')
    echo "$name $id: $r"
  done
  git -C /repo checkout -- .
done
git -C /repo status --short | head -3
