"""Property-specific parts of the checks: replay mode, coqchk, determinism across processes (C12),
build-tag equivalence (C20), race detector runs (C13), codec / dump-load (C17), registries (C18),
typed-vs-ID twin worlds (C14)."""
import json, os, re, subprocess, sys, filecmp, shutil
import checklib as L


def coqchk(files):
    mods = ["Ark." + f[:-2].replace("/", ".") for f in files]
    rc, out = L.sh(["timeout", "3000", "coqchk", "-silent", "-o", "-Q", ".", "Ark"] + mods, cwd=L.COQ, timeout=3100)
    axioms = re.findall(r"^\s*\*\s+(.*)$", out, re.M)
    ok = rc == 0
    return dict(ok=ok, summary=("coqchk rc=%d; " % rc) + " ".join(out.split())[-1500:])


def replay(pid, cfg, path, arkh, tmp):
    data = json.load(open(path))
    kind = data.get("kind")
    if kind == "witness":
        ok, out, ran = L.run_witnesses(pid, race=cfg.get("special") == "race")
        print(out[-2000:])
        if not ok:
            print("VIOLATION property=%s replay=%s" % (pid, path)); return 1
        print("witness passes"); return 0
    if kind in ("script", "unshown") and data.get("script"):
        lines = data["script"]
        m, o = L.replay_script(arkh, lines, tmp)
        ops = [[int(x) for x in l.split()] for l in lines[2:]]
        bad = None
        pm = [L.parse_obs(l) for l in m]
        po = [L.parse_obs(l) for l in o]
        for k in range(min(len(pm), len(po), len(ops))):
            if cfg["proj"](pm[k], ops[k]) != cfg["proj"](po[k], ops[k]):
                bad = (k, "projection differs: model %r impl %r" % (cfg["proj"](pm[k], ops[k]), cfg["proj"](po[k], ops[k])))
                break
        if bad is None:
            for orc in cfg["oracles"]:
                r = orc(ops, po)
                if r:
                    bad = (r[0], r[1]); break
        if bad is None and len(o) < len(m) and len(o) < len(ops):
            print("the implementation died while executing step %d (%s); the model completes the script" % (len(o), L.OP_NAMES.get(ops[len(o)][0], "?")))
            print("VIOLATION property=%s replay=%s" % (pid, path)); return 1
        if bad is None and m != o:
            print("traces differ outside the property's projection (step %d)" % next((k for k in range(min(len(m), len(o))) if m[k] != o[k]), -1))
            print("VIOLATION property=%s replay=%s no-failing-input-found" % (pid, path)); return 1
        if bad:
            print("step %d (%s): %s" % (bad[0], L.OP_NAMES.get(ops[bad[0]][0], "?"), bad[1][:1500]))
            print("VIOLATION property=%s replay=%s" % (pid, path)); return 1
        print("replay: implementation agrees with the model on this script (%d steps)" % len(o)); return 0
    # replays that do not carry a script (Go-side test, theorem over regenerated data, per-call probe,
    # source scan, broken stream): re-run the property's quick check, which reproduces that part
    print("replay file of kind %r: %s" % (kind, data.get("detail", "")[:2000]))
    print("re-running the quick check of %s" % pid)
    return L.run_check(pid, "quick", int(os.environ.get("VERIF_SEED", "20260930")), None)


def shrink_twin(pid, out, tier, seed, arkh, tmp):
    """C15 read off the implementation alone: the same history with and without its Shrink calls has the
    same outcome at every step (up to iteration order), see reset_twin for what is compared."""
    reset_twin(pid, out, tier, seed, arkh, tmp, mode="shrink")


def reset_twin(pid, out, tier, seed, arkh, tmp, mode="reset"):
    """C16, second sentence, read off the implementation alone: after Reset every history has the same
    outcome as on a new world, up to the identity of entity handles and iteration order. `arkh twin`
    runs a random history on world A, resets it, then generates a second history online against A and
    mirrors every line on a brand-new world B. Compared per step: which calls panic, results (entities
    mapped to the index of the handle in issue order; whole-query results as multisets; results that
    depend on iteration order or on capacities - EntityAt, Entity, Shrink, Stats - only by their
    failure flag), the callback log as a multiset, liveness/components/values/targets of every issued
    handle, the number of used entities and the lock flag."""
    n = 60 if tier == "quick" else 800
    wd = os.path.join(tmp, "twin")
    os.makedirs(wd, exist_ok=True)
    rc, o = L.sh([arkh, "twin", "-mode", mode, "-seed", str(seed + 5), "-n", str(n), "-out", wd], timeout=1800)
    if rc != 0:
        p = L.write_replay(pid, "stream", dict(detail="arkh twin failed: " + o[-1500:]))
        out["violations"].append((p, "no-failing-input-found")); return
    scripts = L.read_blocks(os.path.join(wd, "twin_scripts.txt"))
    ta = L.read_blocks(os.path.join(wd, "twin_a.txt"))
    tb = L.read_blocks(os.path.join(wd, "twin_b.txt"))
    steps = 0
    for si in range(min(len(scripts), len(ta), len(tb))):
        ops = [[int(x) for x in l.split()] for l in scripts[si][1:]]
        ia, ib = {}, {}          # (id, gen) -> index in issue order, per world
        na = nb = 0
        filt, qrys = [], []      # filter ids; per query (filter index, relation components named per query)
        foreign = 0              # handles issued before the last Reset of this history no longer belong to the world
        for k in range(min(len(ops), len(ta[si]), len(tb[si]))):
            a, b = L.parse_obs(ta[si][k]), L.parse_obs(tb[si][k])
            steps += 1
            # handles issued by this step: creation results and batch-callback log entries
            def issue(st, idx, cnt, op):
                new = []
                if st["err"] == 0 and op[0] in (0, 1, 2, 4) and len(st["res"]) >= 2:
                    new = [tuple(st["res"][:2])]
                elif st["err"] == 0 and op[0] in (3, 30):
                    new = [tuple(l[1:3]) for l in st["log"] if l and l[0] == 101]
                for h in new:
                    idx[h] = cnt; cnt += 1
                return cnt
            na = issue(a, ia, na, ops[k]); nb = issue(b, ib, nb, ops[k])

            def ent(idx, i, g):
                if i == 0 and g == 0:
                    return -1
                return idx.get((i, g), "anon")    # created by a callback-free batch: no handle was handed out

            def snap(idx, t):
                return tuple((t[j], t[j + 1], ent(idx, t[j + 2], t[j + 3])) for j in range(0, len(t) - 3, 4))

            def view(st, idx, op):
                res = ()
                if st["err"] == 0:
                    c = op[0]
                    if c in (0, 1, 2, 4):
                        res = (ent(idx, *st["res"][:2]),)
                    elif c == 18 and len(st["res"]) >= 2:
                        r = st["res"]
                        res = (r[0], r[1], tuple(sorted(str(ent(idx, i, g)) for i, g in zip(r[2::2], r[3::2]))))
                    elif c == 35 and len(st["res"]) >= 2:
                        res = (ent(idx, *st["res"][:2]),)
                    elif c in (14, 38, 23, 24, 20):
                        res = ()
                    else:
                        res = tuple(st["res"])
                logs = []
                for l in st["log"]:
                    if l and l[0] == 100 and len(l) >= 7:
                        # reported entity: own snapshot; then the whole world as the callback sees it (entity, n, 4n
                        # numbers per listed row) - compared as a multiset: iteration order may differ between twins
                        q, own = 7, ()
                        if l[5] == 1 and len(l) > 7:
                            own = snap(idx, l[8:8 + 4 * l[7]]); q = 8 + 4 * l[7]
                        rows = []
                        while q + 3 <= len(l):
                            n = l[q + 2]
                            rows.append((str(ent(idx, l[q], l[q + 1])), snap(idx, l[q + 3:q + 3 + 4 * n])))
                            q += 3 + 4 * n
                        logs.append(str((100, l[1], ent(idx, l[2], l[3]), l[4], l[5], l[6], own, tuple(sorted(rows)))))
                    elif l and l[0] == 101:
                        logs.append(str((101, ent(idx, l[1], l[2]))))
                    else:
                        logs.append(str(l))
                hs = tuple((f, snap(idx, t) if f == 1 else ()) for f, t in st["handles"][foreign:])
                return (st["err"], res, tuple(sorted(logs)), hs, st["used"], st["locked"])
            try:
                o = ops[k]
                if o[0] == 15:
                    filt.append(set(o[3:3 + o[2]]))
                elif o[0] in (18, 19):
                    qrys.append((o[1], set(o[3:3 + 2 * o[2]:2])))
            except IndexError:
                pass
            if ops[k][0] == 13 and a["err"] == 0 and b["err"] == 0:
                foreign = len(a["handles"])
                ia, ib = {}, {}
            va, vb = view(a, ia, ops[k]), view(b, ib, ops[k])
            if mode == "shrink" and ops[k][0] == 14:
                # world B executed Stats instead of Shrink: compare the world, not the call
                va, vb = (0, (), ()) + va[3:], (0, (), ()) + vb[3:]
            if va != vb and ops[k][0] in (18, 19, 20, 22, 23, 24):
                # former known finding "query-relation-on-foreign-component" (repaired by 69d7fda; the rule is inert unless the
                # entry is listed under "known" again): a query naming a relation target for a
                # component its filter does not require panics or not depending on which archetypes exist
                qi = (len(qrys) - 1) if ops[k][0] in (18, 19) else (ops[k][1] if len(ops[k]) > 1 else -1)
                if 0 <= qi < len(qrys) and 0 <= qrys[qi][0] < len(filt) and not qrys[qi][1] <= filt[qrys[qi][0]]:
                    kf = [x for x in L.known_findings().get("known", []) if x.get("id") == "query-relation-on-foreign-component"]
                    if kf:
                        out.setdefault("known_lines", [])
                        line = "KNOWN-FINDING: property=%s %s [%s]" % (kf[0].get("property", pid), kf[0]["id"], kf[0]["what"][:200])
                        if line not in out["known_lines"]:
                            out["known_lines"].append(line)
                        break      # the two worlds may differ from here on: next script
            if va != vb:
                names = ["failure flag", "result", "callback log", "issued handles (alive, components, values, targets)", "used entities", "lock flag"]
                which = [names[i] for i in range(6) if va[i] != vb[i]]
                p = L.write_replay(pid, "twin", dict(
                    detail=("a world that was used and Reset behaves differently from a new world at step %d of the second history (%s): %s differ" if mode == "reset" else
                            "the history with its Shrink calls behaves differently from the same history without them at step %d (%s): %s differ") % (
                        k, L.OP_NAMES.get(ops[k][0], ops[k][0]), ", ".join(which)),
                    config=scripts[si][0], second_history=scripts[si][1:k + 2], reset_world=str(va)[:1500], new_world=str(vb)[:1500],
                    how_to_run="build/arkh twin -mode %s -seed %d -n %d -out <dir>  (script %d)" % (mode, seed + 5, n, si)))
                out["violations"].append((p, "")); 
                out["coverage"][mode + "_twin"] = dict(scripts=si + 1, steps_compared=steps)
                return
    out["coverage"][mode + "_twin"] = dict(scripts=min(len(scripts), len(ta), len(tb)), steps_compared=steps)


def rewrite_cfg(lines, bits, debug):
    head = lines[0].split()
    head[2] = str(bits); head[3] = "1" if debug else "0"
    return [" ".join(head)] + lines[1:]


def run(pid, cfg, tier, seed, arkh, tmp):
    sp = cfg.get("special")
    if sp == "determinism":
        return determinism(pid, cfg, tier, seed, arkh, tmp)
    if sp == "builds":
        return builds(pid, cfg, tier, seed, arkh, tmp)
    if sp == "typed":
        out = gotests(pid, sp, tier, seed)
        wiring(pid, out, tmp)
        return out
    if sp == "resettwin":
        out = dict(coverage={}, samples=[], violations=[])
        reset_twin(pid, out, tier, seed, arkh, tmp)
        world_probes(pid, out)
        return out
    if sp == "shrinktwin":
        out = dict(coverage={}, samples=[], violations=[])
        shrink_twin(pid, out, tier, seed, arkh, tmp)
        return out
    if sp in ("race", "codec", "registry", "gcsafe"):
        return gotests(pid, sp, tier, seed)
    return None


def wiring(pid, out, tmp):
    """C14: translate the generated generic API of /repo's current source into Coq data and compile
    the consistency theorem against it. The typed twin tests (already run) are the search for a
    failing input; if they passed, an inconsistent wiring is reported with no-failing-input-found."""
    wd = os.path.join(tmp, "wiringcoq")
    os.makedirs(wd, exist_ok=True)
    rc, o = L.sh("cd %s && go build -o %s ./cmd/wiring" % (L.HARNESS, os.path.join(L.BUILD, "wiring")), timeout=600)
    if rc != 0:
        p = L.write_replay(pid, "translator", dict(detail="wiring translator does not build", output=o[-1500:]))
        out["violations"].append((p, "no-failing-input-found")); return
    rc, o = L.sh([os.path.join(L.BUILD, "wiring"), "-dir", "/repo/ecs", "-out", os.path.join(wd, "WiringData.v")], timeout=600)
    m = re.search(r"wiring: (\d+) generic functions, (\d+) units, (\d+) inconsistent", o)
    findings = [l for l in o.splitlines() if l.startswith("WIRING ")]
    shutil.copy(os.path.join(L.COQ, "Generated", "C14Generated.v"), wd)
    rc2, o2 = L.sh("coqc -Q %s Ark -Q . ArkGen WiringData.v && coqc -Q %s Ark -Q . ArkGen C14Generated.v" % (L.COQ, L.COQ), cwd=wd, timeout=1200)
    out["coverage"]["wiring_translation"] = dict(generic_functions=int(m.group(1)) if m else 0, units=int(m.group(2)) if m else 0,
                                                 inconsistent=findings[:10], theorem="extracted_wiring_consistent",
                                                 coq="Closed under the global context" in o2 and rc2 == 0)
    if rc2 != 0 or rc != 0 or not m:
        already = any(True for _ in out["violations"])
        p = L.write_replay(pid, "theorem", dict(
            detail="the wiring extracted from /repo/ecs/*_gen.go is not consistent: theorem extracted_wiring_consistent (coq/Generated/C14Generated.v) does not check",
            theorem="extracted_wiring_consistent", units=findings[:20], coq_output=o2[-1500:], translator_output=o[-1500:],
            how_to_run="build/wiring -dir /repo/ecs (prints the inconsistent units)"))
        out["violations"].append((p, "" if already else "no-failing-input-found"))


def determinism(pid, cfg, tier, seed, arkh, tmp):
    """C12: the same seeded scripts executed in separate processes (fresh map hash seeds, Go map
    iteration randomised per range) give byte-identical scripts and traces."""
    out = dict(coverage={}, samples=[], violations=[])
    n = 40 if tier == "quick" else 300
    reps = 3 if tier == "quick" else 6
    compared = 0
    for stream, _ in cfg["streams"]:
        dirs = []
        for r in range(reps):
            wd = os.path.join(tmp, "det-%s-%d" % (stream, r))
            run = L.run_stream(arkh, stream, seed + 17, n, wd)
            if not run["ok"]:
                p = L.write_replay(pid, "stream", dict(detail=run["error"]))
                out["violations"].append((p, "no-failing-input-found")); return out
            dirs.append(wd)
        for r in range(1, reps):
            for fn in ("scripts.txt", "observed.txt"):
                if not filecmp.cmp(os.path.join(dirs[0], fn), os.path.join(dirs[r], fn), shallow=False):
                    a = L.read_blocks(os.path.join(dirs[0], "observed.txt"))
                    b = L.read_blocks(os.path.join(dirs[r], "observed.txt"))
                    sa = L.read_blocks(os.path.join(dirs[0], "scripts.txt"))
                    si = next((i for i in range(min(len(a), len(b))) if a[i] != b[i]), 0)
                    k = next((j for j in range(min(len(a[si]), len(b[si]))) if a[si][j] != b[si][j]), 0)
                    p = L.write_replay(pid, "script", dict(detail="two processes executing the same operations produced different %s (stream %s, script %d, step %d)" % (fn, stream, si, k),
                                                            script=sa[si][:k + 3], run_a=a[si][k][:600], run_b=b[si][k][:600]))
                    out["violations"].append((p, "")); return out
            compared += n
    out["coverage"]["determinism_runs"] = dict(processes=reps, scripts_per_process=n, scripts_compared=compared)
    # "... whether they live in the same process or in different processes": worlds living in ONE process
    # (several worlds loaded from one dump, the source world evolving afterwards) must not influence each other
    g = gotests(pid, "codec", tier, seed)
    out["coverage"].update(g["coverage"]); out["violations"] += g["violations"]
    # Source side: every construct through which package ecs could observe something else than the
    # operation history must be covered by a theorem (bin/srcscan_allow.json). The twin-process runs
    # above are the search for a failing input; an uncovered construct that they do not expose is
    # still a violation (the property is no longer shown to hold).
    scan = srcscan()
    out["coverage"]["source_scan"] = dict(configurations=scan["configs"], constructs=scan["found"], uncovered=scan["uncovered"])
    if scan["error"]:
        p = L.write_replay(pid, "srcscan", dict(detail="source scan failed: " + scan["error"]))
        out["violations"].append((p, "no-failing-input-found"))
    elif scan["uncovered"]:
        p = L.write_replay(pid, "theorem", dict(
            detail="package ecs contains a source of non-determinism that no theorem of Properties/C12.v covers",
            constructs=scan["uncovered"], theorem="Properties/C12.v: C12_free_table_map_order / C12_shrink_budget_invisible do not apply to these constructs",
            searched="%d scripts in %d separate processes: traces byte-identical" % (compared, reps)))
        out["violations"].append((p, "no-failing-input-found"))
    return out


def srcscan():
    """Runs harness/cmd/srcscan on /repo/ecs for the four build configurations."""
    res = dict(configs=[], found=[], uncovered=[], error="")
    rc, o = L.sh("cd %s && go build -o %s ./cmd/srcscan" % (os.path.join(L.ROOT, "harness"), os.path.join(L.BUILD, "srcscan")), timeout=600)
    if rc != 0:
        res["error"] = o[-1500:]; return res
    allow = json.load(open(os.path.join(L.ROOT, "bin", "srcscan_allow.json")))["entries"]
    allowed = set((a["kind"], a["file"], a["func"], a["detail"]) for a in allow)
    seen = set()
    for tags in ("", "ark_tiny", "ark_debug", "ark_tiny,ark_debug"):
        rc, o = L.sh([os.path.join(L.BUILD, "srcscan"), "-dir", "/repo/ecs", "-tags", tags], cwd="/repo", timeout=600)
        if rc != 0:
            res["error"] = "tags=%s: %s" % (tags, o[-1500:]); return res
        res["configs"].append(tags or "default")
        for line in o.splitlines():
            parts = line.split("\t")
            if len(parts) == 4:
                seen.add(tuple(parts))
    res["found"] = ["%s %s %s %s" % t for t in sorted(seen)]
    res["uncovered"] = ["%s in %s (%s): %s" % t for t in sorted(seen) if t not in allowed]
    return res


def builds(pid, cfg, tier, seed, arkh, tmp):
    """C20: the same scripts (at most 64 component types) under the four tag combinations give the
    same trace, and each equals the model run with the corresponding flags."""
    out = dict(coverage={}, samples=[], violations=[])
    n = 50 if tier == "quick" else 400
    variants = [("ark_debug", 256, True), ("ark_tiny", 64, False), ("ark_tiny,ark_debug", 64, True)]
    bins = {}
    for tags, bits, dbg in variants:
        ok, o, b = L.build_harness(tags)
        if not ok:
            p = L.write_replay(pid, "build", dict(detail="harness does not build with tags " + tags, output=o[-2000:]))
            out["violations"].append((p, "no-failing-input-found")); return out
        bins[tags] = b
    total = 0
    for stream, _ in cfg["streams"]:
        wd = os.path.join(tmp, "builds-" + stream)
        run = L.run_stream(arkh, stream, seed + 31, n, wd)
        if not run["ok"]:
            p = L.write_replay(pid, "stream", dict(detail=run["error"]))
            out["violations"].append((p, "no-failing-input-found")); return out
        scripts, model, impl = L.load_run(run)
        keep = [i for i, sc in enumerate(scripts) if int(sc[0].split()[4]) <= 64]
        for tags, bits, dbg in variants:
            sp = os.path.join(wd, "scripts-%s.txt" % tags.replace(",", "-"))
            with open(sp, "w") as f:
                for i in keep:
                    f.write("\n".join(rewrite_cfg(scripts[i], bits, dbg)) + "\n#\n")
            rc, o = L.sh([bins[tags], "replay", "-script", sp], timeout=1800)
            if rc != 0:
                p = L.write_replay(pid, "stream", dict(detail="replay under tags %s failed: %s" % (tags, o[-1500:])))
                out["violations"].append((p, "no-failing-input-found")); return out
            var_impl = []
            cur = []
            for line in o.splitlines():
                if line.startswith("#"):
                    var_impl.append(cur); cur = []
                elif line and not line.startswith("GOCHECK"):
                    cur.append(line)
            with open(sp) as f:
                pr = subprocess.run([os.path.join(L.BUILD, "arkmodel")], stdin=f, stdout=subprocess.PIPE, timeout=1800)
            var_model = []
            cur = []
            for line in pr.stdout.decode().splitlines():
                if line.startswith("#"):
                    var_model.append(cur); cur = []
                elif line:
                    cur.append(line)
            for j, i in enumerate(keep):
                total += 1
                base = impl[i]
                if j >= len(var_impl):
                    break
                if var_impl[j] != base:
                    k = next((x for x in range(min(len(base), len(var_impl[j]))) if base[x] != var_impl[j][x]), min(len(base), len(var_impl[j])))
                    p = L.write_replay(pid, "script", dict(detail="build with tags '%s' behaves differently from the default build at step %d of this script" % (tags, k),
                                                            script=scripts[i][:k + 3], tags=tags, default=base[k][:500] if k < len(base) else "", variant=var_impl[j][k][:500] if k < len(var_impl[j]) else ""))
                    out["violations"].append((p, "")); return out
                if j < len(var_model) and var_model[j] != var_impl[j]:
                    k = next((x for x in range(min(len(var_model[j]), len(var_impl[j]))) if var_model[j][x] != var_impl[j][x]), 0)
                    p = L.write_replay(pid, "unshown", dict(detail="model(flags %s) and implementation differ at step %d" % (tags, k), script=rewrite_cfg(scripts[i], bits, dbg)[:k + 3]))
                    out["violations"].append((p, "no-failing-input-found")); out["broken"] = True; return out
    out["coverage"]["build_variants"] = dict(variants=[v[0] for v in variants] + ["(none)"], scripts_per_variant=total // max(1, len(variants)))
    probes(pid, out, ["", "ark_debug", "ark_tiny", "ark_tiny,ark_debug"])
    return out


def world_probes(pid, out):
    """C16: harness/findings runs the same calls on a used-and-Reset world and on a new world and prints
    whether each call panicked. A divergence listed in known_findings.json is reported as KNOWN-FINDING,
    any other one is a violation."""
    rc, o = L.sh(["go", "test", "-count=1", "-tags", "verif", "-run", "TestFinding_" + pid, "-v", "./findings"], cwd=L.HARNESS, timeout=1200)
    if rc != 0:
        p = L.write_replay(pid, "gotest", dict(detail="finding probes failed", output=o[-2000:]))
        out["violations"].append((p, "")); return
    res = {}
    for world, call, pv in re.findall(r"FINDING-PROBE %s (reset-world|new-world) (.*): panicked=(true|false)" % pid, o):
        res.setdefault(call, {})[world] = pv
    known = [k for k in L.known_findings().get("known", []) if k.get("property") == pid]
    observed = []
    for call, r in sorted(res.items()):
        if r.get("reset-world") != r.get("new-world"):
            hit = [k for k in known if re.search(k.get("match", {}).get("probe_calls_regex", "$^"), call)]
            if hit:
                observed.append((hit[0], call))
            else:
                p = L.write_replay(pid, "call", dict(detail="a used-and-Reset world and a new world disagree on whether this call panics", call=call, panicked=r,
                                                      how_to_run="cd /verif/harness && GOFLAGS=-mod=mod GOPROXY=off go test -count=1 -tags verif -run TestFinding_%s -v ./findings" % pid))
                out["violations"].append((p, ""))
    out["coverage"]["world_probes"] = dict(calls=len(res), known_divergences=[c for _, c in observed])
    for k, call in observed:
        line = "KNOWN-FINDING: property=%s %s [%s] observed on: %s" % (pid, k["id"], k["what"][:200], call)
        out.setdefault("known_lines", [])
        if not any(k["id"] in x for x in out["known_lines"]):
            out["known_lines"].append(line)


def probes(pid, out, tag_sets):
    """Runs the finding probes of harness/findings under each build configuration and compares, call
    by call, whether the call panicked. A divergence that matches an entry of known_findings.json
    ("known") is reported as KNOWN-FINDING (the check prints the line, exit status unaffected); any
    other divergence is a violation with the call as the replay."""
    res = {}
    for tags in tag_sets:
        t = "verif" + ("," + tags if tags else "")
        rc, o = L.sh(["go", "test", "-count=1", "-tags", t, "-run", "TestFinding_" + pid, "-v", "./findings"], cwd=L.HARNESS, timeout=1200)
        if rc != 0:
            p = L.write_replay(pid, "gotest", dict(detail="finding probes failed under tags '%s'" % tags, output=o[-2000:],
                                                    how_to_run="cd /verif/harness && GOFLAGS=-mod=mod GOPROXY=off go test -count=1 -tags %s -run TestFinding_%s -v ./findings" % (t, pid)))
            out["violations"].append((p, "")); return
        res[tags] = dict(re.findall(r"FINDING-PROBE %s (.*): panicked=(true|false)" % pid, o))
    base = res[tag_sets[0]]
    known = [k for k in L.known_findings().get("known", []) if k.get("property") == pid]
    observed, unexpected = {}, []
    for call, pv in base.items():
        outcomes = dict((tags or "default", res[tags].get(call)) for tags in tag_sets)
        if len(set(outcomes.values())) > 1:
            hit = None
            for k in known:
                m = k.get("match", {})
                if re.search(m.get("calls_regex", "$^"), call):
                    ok = all((v == ("true" if m.get("debug_panics") else "false")) if "ark_debug" in t_ else (v == ("true" if m.get("default_panics") else "false"))
                             for t_, v in outcomes.items())
                    if ok:
                        hit = k
            if hit:
                observed.setdefault(hit["id"], []).append(call)
            else:
                unexpected.append((call, outcomes))
    out["coverage"]["finding_probes"] = dict(calls=len(base), configurations=[t or "default" for t in tag_sets], known_divergences=observed)
    for k in known:
        if k["id"] in observed:
            out.setdefault("known_lines", []).append("KNOWN-FINDING: property=%s %s [%s] observed on: %s" % (pid, k["id"], k["what"][:200], "; ".join(observed[k["id"]])))
    for call, outcomes in unexpected:
        p = L.write_replay(pid, "call", dict(detail="the build configurations disagree on whether this call panics", call=call, panicked=outcomes,
                                              how_to_run="cd /verif/harness && GOFLAGS=-mod=mod GOPROXY=off go test -count=1 -tags verif[,ark_debug|,ark_tiny] -run TestFinding_%s -v ./findings" % pid))
        out["violations"].append((p, ""))


def gotests(pid, sp, tier, seed):
    """Go-side differential / oracle tests that live in /verif/harness/<pkg> (rebuilt against /repo)."""
    out = dict(coverage={}, samples=[], violations=[])
    pkg = {"race": "./conc", "codec": "./codec", "registry": "./registry", "typed": "./typed", "gcsafe": "./gcsafe"}[sp]
    if not os.path.isdir(os.path.join(L.HARNESS, pkg[2:])):
        return out
    env = dict(L.ENV, VERIF_SEED=str(seed), VERIF_TIER=tier)
    runs = [[]]
    if sp == "race":
        runs = [["-race"]]
    if sp == "registry":
        runs = [[], ["-tags", "ark_tiny"]]
    for extra in runs:
        cmd = ["go", "test", "-count=1", "-tags", "verif"] + extra + ["-v", pkg]
        if "-tags" in extra:
            i = extra.index("-tags")
            cmd = ["go", "test", "-count=1", "-tags", "verif," + extra[i + 1], "-v", pkg]
        rc, o = L.sh(cmd, cwd=L.HARNESS, timeout=3000, env=env)
        stats = re.findall(r"VERIF-STAT (\{.*\})", o)
        for s in stats:
            try:
                out["coverage"].setdefault("go_" + sp, []).append(json.loads(s))
            except ValueError:
                pass
        if rc != 0:
            fails = re.findall(r"--- FAIL: (\S+)", o)
            reps = re.findall(r"VERIF-REPLAY (.*)", o)
            p = L.write_replay(pid, "gotest", dict(detail="Go-side check failed: %s" % (", ".join(fails) or "build/run error"), tests=fails, replay_inputs=reps[:5],
                                                    how_to_run="cd /verif/harness && GOFLAGS=-mod=mod GOPROXY=off VERIF_SEED=%d %s" % (seed, " ".join(cmd)), output=o[-3000:]))
            race = "DATA RACE" in o
            out["violations"].append((p, "" if (fails or race) else "no-failing-input-found"))
            return out
    return out
