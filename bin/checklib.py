"""Library behind bin/check: builds, stream runs, trace parsing, projections, oracles, search,
shrinking, evidence. See bin/check for the protocol."""
import json, os, re, subprocess, sys, time, shutil, tempfile, hashlib, concurrent.futures

ROOT = os.path.dirname(os.path.dirname(os.path.abspath(__file__)))
BUILD = os.path.join(ROOT, "build")
COQ = os.path.join(ROOT, "coq")
HARNESS = os.path.join(ROOT, "harness")
ENV = dict(os.environ, GOFLAGS="-mod=mod", GOPROXY="off")
ENV.pop("GOTOOLCHAIN", None)
ENV.pop("GOSUMDB", None)

CREATE_OPS = {0, 1, 2, 3, 4, 30}
OP_NAMES = {0: "NewEntity", 1: "Unsafe.NewEntity", 2: "Unsafe.NewEntityRel", 3: "NewEntities", 4: "CopyEntity",
            5: "Unsafe.Add", 6: "Unsafe.AddRel", 7: "Unsafe.Remove", 8: "Unsafe.Exchange", 9: "write via Unsafe.Get",
            10: "Unsafe.SetRelations", 11: "RemoveEntity", 12: "RemoveEntities", 13: "Reset", 14: "Shrink",
            15: "new filter", 16: "Filter.Register", 17: "Filter.Unregister", 18: "query: iterate all",
            19: "Filter.Query", 20: "Query.Next", 21: "Query.Close", 22: "Query.Count", 23: "Query.EntityAt",
            24: "Query.Entity", 25: "new observer", 26: "Observer.Register", 27: "Observer.Unregister",
            28: "Event.Emit", 29: "Map.Set", 30: "MapN.NewBatchFn", 31: "Add/Remove/ExchangeBatch",
            32: "SetRelationsBatch", 33: "Alive", 34: "Unsafe.Has", 35: "Unsafe.GetRelation", 36: "Unsafe.IDs",
            37: "Unsafe.Get", 38: "Stats"}


def sh(cmd, cwd=None, timeout=3600, env=None, inp=None):
    p = subprocess.run(cmd, cwd=cwd, env=env or ENV, stdout=subprocess.PIPE, stderr=subprocess.STDOUT,
                       timeout=timeout, input=inp, text=True, shell=isinstance(cmd, str))
    return p.returncode, p.stdout


# ---------------------------------------------------------------- builds

def build_harness(tags=""):
    """go build of the harness against /repo's working tree. Returns (ok, output, binary)."""
    os.makedirs(BUILD, exist_ok=True)
    rc, out = sh([os.path.join(ROOT, "bin", "build_harness.sh")] + ([tags] if tags else []), timeout=900)
    suffix = ("-" + tags.replace(",", "-")) if tags else ""
    return rc == 0, out, os.path.join(BUILD, "arkh" + suffix)


def ensure_model():
    """Make sure the Coq development and the extracted interpreter are built (setup_cmd does this;
    a quick check only verifies it is up to date, which `make` decides by timestamps)."""
    rc, out = sh("coq_makefile -f _CoqProject -o Makefile >/dev/null && timeout 3000 make -j16 2>&1 | grep -v '^COQ' ; exit ${PIPESTATUS[0]}",
                 cwd=COQ, timeout=3100, env=dict(ENV, SHELL="/bin/bash"))
    # shell=True uses /bin/sh where PIPESTATUS is not available; verify targets instead
    missing = []
    for line in open(os.path.join(COQ, "_CoqProject")):
        line = line.strip()
        if line.endswith(".v") and not os.path.exists(os.path.join(COQ, line[:-2] + ".vo")):
            missing.append(line)
    ok = not missing
    if ok and not os.path.exists(os.path.join(BUILD, "arkmodel")):
        rc2, out2 = sh([os.path.join(ROOT, "bin", "build.sh")], timeout=3600)
        ok = rc2 == 0
        out += out2
    elif ok:
        # re-extract if the model is newer than the binary
        newest = max(os.path.getmtime(os.path.join(COQ, "Model", f)) for f in os.listdir(os.path.join(COQ, "Model")) if f.endswith(".vo"))
        if newest > os.path.getmtime(os.path.join(BUILD, "arkmodel")):
            rc2, out2 = sh([os.path.join(ROOT, "bin", "build.sh")], timeout=3600)
            ok = rc2 == 0
            out += out2
    return ok, out, missing


def check_theorems(pid, files):
    """Re-check the property's theorem file(s) with coqc (they only contain statements closed by
    `exact`, plus Print Assumptions) and count the obligations in their dependency closure."""
    res = {"files": files, "ok": True, "assumptions": [], "obligations": 0, "discharged": 0, "output": "", "theorems": []}
    if not files:
        return res
    stmt = re.compile(r"^\s*(Theorem|Lemma|Corollary|Example|Fact|Proposition|Remark)\s+([A-Za-z0-9_']+)", re.M)
    seen = set()

    def closure(f):
        if f in seen:
            return
        seen.add(f)
        path = os.path.join(COQ, f)
        if not os.path.exists(path):
            return
        txt = open(path).read()
        for line in txt.splitlines():
            line = line.strip()
            m = re.match(r"From Ark Require (?:Import |Export )?(.*)$", line)
            if not m:
                continue
            mods = m.group(1).rstrip()
            if mods.endswith("."):
                mods = mods[:-1]
            for mod in mods.split():
                if re.fullmatch(r"[A-Za-z0-9_.]+", mod):
                    closure(mod.strip(".").replace(".", "/") + ".v")
    for f in files:
        closure(f)
    forbidden = re.compile(r"\b(Admitted|admit|Axiom|Parameter|Conjecture|Unset Guard|bypass_check|Admit Obligations)\b")
    for f in sorted(seen):
        path = os.path.join(COQ, f)
        if not os.path.exists(path):
            continue
        txt = open(path).read()
        txt_nc = re.sub(r"\(\*.*?\*\)", "", txt, flags=re.S)
        n = len(stmt.findall(txt_nc))
        res["obligations"] += n
        if os.path.exists(path[:-2] + ".vo"):
            res["discharged"] += n
        else:
            res["ok"] = False
            res["output"] += "not compiled: %s\n" % f
        bad = forbidden.findall(txt_nc)
        if bad:
            res["ok"] = False
            res["output"] += "forbidden %s in %s\n" % (sorted(set(bad)), f)
    for f in files:
        rc, out = sh(["coqc", "-Q", ".", "Ark", f], cwd=COQ, timeout=1200)
        res["output"] += out[-4000:]
        if rc != 0:
            res["ok"] = False
            res["discharged"] = max(0, res["discharged"] - 1)
        txt = open(os.path.join(COQ, f)).read()
        res["theorems"] += [m[1] for m in stmt.findall(re.sub(r"\(\*.*?\*\)", "", txt, flags=re.S))]
        # Print Assumptions output
        for blk in re.split(r"\n(?=Closed under|Axioms:)", out):
            if blk.startswith("Closed under"):
                res["assumptions"].append("Closed under the global context")
            elif blk.startswith("Axioms:"):
                res["assumptions"].append(" ".join(blk.split())[:400])
    return res


# ---------------------------------------------------------------- traces

def read_blocks(path):
    blocks, cur = [], []
    with open(path) as f:
        for line in f:
            line = line.strip()
            if line.startswith("#"):
                blocks.append(cur); cur = []
            elif line:
                cur.append(line)
    if cur:
        blocks.append(cur)
    return blocks


def parse_obs(line):
    a = [int(x) for x in line.split()]
    d = {"gocheck": False, "raw": a}
    if a and a[-1] == -999:
        d["gocheck"] = True
        a = a[:-1]
    if len(a) < 2 or a[0] < 0:
        d.update(err=-1, res=[], log=[], handles=[], used=-1, locked=-1, dump=[])
        return d
    try:
        d["err"] = a[0]
        nres = a[1]
        d["res"] = a[2:2 + nres]
        p = 2 + nres
        nlog = a[p]; p += 1
        log = []
        for _ in range(nlog):
            n = a[p]
            log.append(tuple(a[p + 1:p + 1 + n])); p += 1 + n
        d["log"] = log
        nh = a[p]; p += 1
        hs = []
        for _ in range(nh):
            f = a[p]; p += 1
            if f == 1:
                n = a[p]
                hs.append((1, tuple(a[p + 1:p + 1 + 4 * n]))); p += 1 + 4 * n
            else:
                hs.append((f, ()))
        d["handles"] = hs
        d["used"] = a[p]; d["locked"] = a[p + 1]; p += 2
        d["dump"] = a[p:]
    except IndexError:
        d.update(err=-1, res=[], log=[], handles=[], used=-1, locked=-1, dump=[])
    return d


def parse_dump_tables(dump):
    """Parse the pool / index / tables sections of an internal dump. Returns dict or None."""
    try:
        p = 0
        n, nxt, avail = dump[0], dump[1], dump[2]; p = 3
        pool = [(dump[p + 2 * i], dump[p + 2 * i + 1]) for i in range(n)]; p += 2 * n
        m = dump[p]; p += 1
        index = [(dump[p + 2 * i], dump[p + 2 * i + 1]) for i in range(m)]; p += 2 * m
        k = dump[p]; p += 1
        istarget = dump[p:p + k]; p += k
        nt = dump[p]; p += 1
        tables = []
        for _ in range(nt):
            arch, ln, cap, free = dump[p:p + 4]; p += 4
            nr = dump[p]; p += 1
            rels = [tuple(dump[p + 3 * i:p + 3 * i + 3]) for i in range(nr)]; p += 3 * nr
            nc = dump[p]; p += 1
            targets = [tuple(dump[p + 2 * i:p + 2 * i + 2]) for i in range(nc)]; p += 2 * nc
            rows = [tuple(dump[p + 2 * i:p + 2 * i + 2]) for i in range(ln)]; p += 2 * ln
            cols = []
            for _c in range(nc):
                cols.append(dump[p:p + cap]); p += cap
            tables.append(dict(arch=arch, len=ln, cap=cap, free=free, rels=rels, targets=targets, rows=rows, cols=cols))
        return dict(pool=pool, next=nxt, avail=avail, index=index, istarget=istarget, tables=tables, rest=dump[p:])
    except (IndexError, ValueError):
        return None


# ---------------------------------------------------------------- projections (what a property talks about)

def proj_all_api(step, op):
    return (step["err"], tuple(step["res"]), tuple(step["log"]), tuple(step["handles"]), step["used"], step["locked"])

def proj_store(step, op):       # C01: components and values of every alive entity, value reads
    return (tuple(h if h[0] != 1 else (1, tuple(x for i, x in enumerate(h[1]) if i % 4 in (0, 1))) for h in step["handles"]),
            tuple(step["res"]) if op[0] in (36, 37, 34) else ())

def proj_handles(step, op):     # C02: returned handles, liveness of every issued handle, counts
    return (tuple(h[0] for h in step["handles"]), step["used"],
            tuple(step["res"]) if op[0] in CREATE_OPS or op[0] == 33 else (),
            tuple(l for l in step["log"] if l and l[0] == 101) if op[0] in (3, 30) else ())

def proj_query(step, op):       # C03: what queries return (entities as a multiset for full iterations)
    if op[0] == 18 and step["err"] == 0 and len(step["res"]) >= 2:
        r = step["res"]
        ents = sorted(zip(r[2::2], r[3::2]))
        return (r[0], r[1], tuple(ents))
    if op[0] in (19, 20, 21, 22, 23, 24):
        return (step["err"], tuple(step["res"]))
    if op[0] == 18:
        return (step["err"],)
    return ()

def proj_relations(step, op):   # C04: relation targets of every alive entity, success of relation ops
    return (tuple(h if h[0] != 1 else (1, tuple(x for i, x in enumerate(h[1]) if i % 4 in (0, 2, 3))) for h in step["handles"]),
            step["err"] if op[0] in (2, 6, 10, 11, 12, 32, 35) else 0, tuple(step["res"]) if op[0] == 35 else ())

def proj_batch(step, op):       # C06: callback entities (multiset) and resulting world
    if op[0] in (3, 12, 30, 31, 32):
        return (step["err"], tuple(sorted(l for l in step["log"] if l and l[0] == 101)), tuple(step["handles"]), step["used"])
    return ()

def proj_lock(step, op):        # C07: which calls panic, the lock state
    return (step["err"], step["locked"])

def proj_observers(step, op):   # C08: which observers fire for which entity (multiset per operation)
    return tuple(sorted(l[1:4] for l in step["log"] if l and l[0] == 100))

def proj_callbacks(step, op):   # C09: what callbacks see, in order
    return tuple(l for l in step["log"] if l and l[0] == 100)

def proj_err_state(step, op):   # C10: panic or not, and the whole API view
    return (step["err"], tuple(step["handles"]), step["used"], step["locked"])

def proj_cells(step, op):       # C11: raw cells (dump) and values
    t = parse_dump_tables(step["dump"])
    return tuple(tuple(tuple(c) for c in tb["cols"]) for tb in t["tables"]) if t else ("unparsed",)

def proj_stats(step, op):       # C19
    return tuple(step["res"]) if op[0] == 38 else ()


# ---------------------------------------------------------------- independent oracles on the implementation trace

def oracle_go_checks(script, obs):
    """Harness-side consistency checks (Map.Get vs Unsafe.Get addresses, column shortcut)."""
    for k, st in enumerate(obs):
        if st["gocheck"]:
            return k, "access paths disagree inside the implementation (Map.Get vs Unsafe.Get)"
    return None

def oracle_handles(script, obs):
    """C02 read off the implementation alone: handles returned by creations are pairwise distinct
    within a reset epoch, Alive is true from creation until removal and never again, used count =
    creations - removals."""
    issued = []       # (handle, epoch)
    epoch = 0
    untracked = 0     # entities created by callback-free batch creations: no handle is handed out
    for k, (op, st) in enumerate(zip(script, obs)):
        if st["err"] == 0 and op[0] in (3, 30) and nofn_flag(op) % 2 == 1:
            untracked += op[1]
        if st["err"] == 0 and op[0] == 13:
            untracked = 0
        if st["err"] != 0 or st["err"] == -1:
            new = []
        else:
            new = []
            if op[0] in (0, 1, 2, 4):
                new = [tuple(st["res"][:2])]
            elif op[0] in (3, 30):
                new = [tuple(l[1:3]) for l in st["log"] if l and l[0] == 101]
        for h in new:
            if any(h == x and e == epoch for x, e in issued):
                return k, "handle %s returned twice since the last reset" % (h,)
            issued.append((h, epoch))
        if op[0] == 13 and st["err"] == 0:
            epoch += 1
        cur = [h for h, e in issued if e == epoch]
        flags = [f for f, _ in st["handles"]]
        if len(flags) != len(issued):
            continue
        alive_now = sum(1 for (h, e), f in zip(issued, flags) if e == epoch and f != 0)
        distinct_alive = len(set(h for (h, e), f in zip(issued, flags) if e == epoch and f != 0))
        if op[0] == 12 and untracked > 0:
            # a batch removal may also remove entities nobody holds a handle of
            left = st["used"] - distinct_alive
            if not (0 <= left <= untracked):
                return k, "world reports %d used entities, %d issued handles are alive, at most %d handle-less entities exist" % (st["used"], distinct_alive, untracked)
            untracked = left
        if st["used"] != distinct_alive + untracked:
            return k, "world reports %d used entities, %d issued handles are alive (+%d created without handing out a handle)" % (st["used"], distinct_alive, untracked)
    return None


def nofn_flag(op):
    """The optional trailing flag of ops 3, 12, 30 (absent = 0; odd = no callback passed)."""
    try:
        if op[0] == 3:
            return op[2] if len(op) > 2 else 0
        if op[0] == 12:
            i = 2
            i += 1 + 2 * op[i]
            return op[i] if len(op) > i else 0
        if op[0] == 30:
            i = 2
            i += 1 + op[i]
            i += 1 + 2 * op[i]
            i += 1 + 2 * op[i]
            return op[i] if len(op) > i else 0
    except IndexError:
        pass
    return 0

def oracle_alive_monotone(script, obs):
    """Once a handle is dead it never becomes alive again within its reset epoch."""
    dead = set()
    foreign = 0     # handles issued before the last Reset do not belong to the world any more
    for k, (op, st) in enumerate(zip(script, obs)):
        if op[0] == 13 and st["err"] == 0:
            dead = set(); foreign = len(st["handles"]); continue
        for i, (f, _) in enumerate(st["handles"]):
            if i < foreign:
                continue
            if f == 0:
                dead.add(i)
            elif i in dead:
                return k, "handle #%d is alive again after having been dead" % i
    return None

def oracle_unchanged_on_error(script, obs, classes=None):
    """C10 read off the implementation: a call that panicked left the API view unchanged."""
    prev = None
    for k, (op, st) in enumerate(zip(script, obs)):
        cur = (tuple(st["handles"]), st["used"], st["locked"])
        # single-entity operations, creations, and the batch forms whose checks precede every change
        if st["err"] == 1 and prev is not None and op[0] in (0, 1, 2, 3, 4, 5, 6, 7, 8, 9, 10, 11, 29, 30, 31, 33, 34, 35, 36, 37, 28):
            if cur != prev:
                return k, "%s panicked but changed the world" % OP_NAMES.get(op[0], op[0])
        # whatever panicked: the lock state is as before the call (op 18 is a composite of the harness:
        # Query + Next... + Close; if Next panics the query is still open and rightly holds its lock bit)
        if st["err"] == 1 and prev is not None and cur[2] != prev[2] and op[0] != 18:
            return k, "%s panicked and left the world %s" % (OP_NAMES.get(op[0], op[0]), "locked" if cur[2] else "unlocked")
        prev = cur
    return None

STRUCTURAL_OPS = {0, 1, 2, 3, 4, 5, 6, 7, 8, 10, 11, 12, 13, 14, 30, 31, 32}

def oracle_locked_rejects(script, obs):
    """C07 read off the implementation: on a locked world every structure-changing call (Shrink included)
    panics and leaves entities, components, values, relations and the lock state as they were."""
    prev = None
    for k, (op, st) in enumerate(zip(script, obs)):
        if st["err"] == -1:
            return None
        cur = (tuple(st["handles"]), st["used"], st["locked"])
        if prev is not None and prev[2] == 1 and op[0] in STRUCTURAL_OPS:
            if st["err"] != 1:
                return k, "%s went through on a locked world" % OP_NAMES.get(op[0], op[0])
            if cur != prev:
                return k, "%s was rejected on a locked world but changed it" % OP_NAMES.get(op[0], op[0])
        prev = cur
    return None

def oracle_shrink_invisible(script, obs):
    """C15: Shrink leaves the API view unchanged; afterwards len <= cap for every table."""
    prev = None
    for k, (op, st) in enumerate(zip(script, obs)):
        cur = (tuple(st["handles"]), st["used"], st["locked"])
        if op[0] == 14 and prev is not None:
            if st["err"] == 1 and prev[2] == 1:
                # rejected on a locked world (since the repair "Shrink panics on a locked world"): no effect
                if cur != prev:
                    return k, "Shrink was rejected on a locked world but changed the world"
                prev = cur
                continue
            if st["err"] != 0:
                return k, "Shrink panicked on an unlocked world"
            if cur != prev:
                return k, "Shrink changed entities, components, values or relations"
            t = parse_dump_tables(st["dump"]) if st["dump"] else None
            if t:
                for ti, tb in enumerate(t["tables"]):
                    if tb["len"] > tb["cap"]:
                        return k, "table %d has len %d > cap %d after Shrink" % (ti, tb["len"], tb["cap"])
        prev = cur
    return None

def oracle_zero_beyond_len(script, obs):
    """C11: every cell at a row >= len is zero."""
    for k, st in enumerate(obs):
        if not st["dump"]:
            continue
        t = parse_dump_tables(st["dump"])
        if not t:
            continue
        for ti, tb in enumerate(t["tables"]):
            for ci, col in enumerate(tb["cols"]):
                if any(v != 0 for v in col[tb["len"]:]):
                    return k, "table %d column %d holds a non-zero cell beyond len %d" % (ti, ci, tb["len"])
    return None

def oracle_targets_alive(script, obs):
    """C04: every relation target of an alive entity is zero or an alive issued handle."""
    for k, st in enumerate(obs):
        alive = set()
        hs = st["handles"]
        # reconstruct handle values from creation results is not needed: targets are compared
        # against the ids/gens found in the snapshots of alive entities plus the dump pool
        t = parse_dump_tables(st["dump"]) if st["dump"] else None
        if not t:
            continue
        pool = t["pool"]
        for f, snap in hs:
            if f != 1:
                continue
            for i in range(0, len(snap), 4):
                tid, tgen = snap[i + 2], snap[i + 3]
                if tid == 0 and tgen == 0:
                    continue
                if tid >= len(pool) or pool[tid][1] != tgen or t["index"][tid][0] == -1:
                    return k, "an alive entity has the dead relation target (%d,%d)" % (tid, tgen)
    return None

def oracle_reset_empty(script, obs):
    """C16: after Reset nothing is alive, nothing is used, the world is unlocked."""
    for k, (op, st) in enumerate(zip(script, obs)):
        if op[0] == 13 and st["err"] == 0:
            if any(f != 0 for f, _ in st["handles"]):
                return k, "a handle is alive right after Reset"
            if st["used"] != 0 or st["locked"] != 0:
                return k, "world not empty/unlocked after Reset (used=%d locked=%d)" % (st["used"], st["locked"])
    return None

def oracle_stats_consistent(script, obs):
    """C19 internal consistency of the reported statistics."""
    for k, (op, st) in enumerate(zip(script, obs)):
        if op[0] != 38 or st["err"] != 0:
            continue
        r = st["res"]
        used, total, recycled, locked, nf, no, na = r[:7]
        if total != used + recycled:
            return k, "Stats: total %d != used %d + recycled %d" % (total, used, recycled)
        p = 7
        size_sum = 0
        for _ in range(na):
            ncomp, nrel, nfree, size, cap, nt = r[p:p + 6]; p += 6
            ts = 0; tc = 0
            for _t in range(nt):
                s, c = r[p], r[p + 1]; p += 2
                if s > c:
                    return k, "Stats: table size %d > capacity %d" % (s, c)
                ts += s; tc += c
            if ts != size:
                return k, "Stats: archetype size %d != sum of table sizes %d" % (size, ts)
            if cap < tc:
                return k, "Stats: archetype capacity %d < sum of active table capacities %d" % (cap, tc)
            size_sum += size
        if size_sum != used:
            return k, "Stats: used entities %d != sum of archetype sizes %d" % (used, size_sum)
        if used != st["used"] or locked != st["locked"]:
            return k, "Stats disagree with the world (used/locked)"
    return None

def oracle_query_once(script, obs):
    """C03: a full iteration visits no entity twice and Count equals the number visited."""
    for k, (op, st) in enumerate(zip(script, obs)):
        if op[0] == 18 and st["err"] == 0 and len(st["res"]) >= 2:
            r = st["res"]
            ents = list(zip(r[2::2], r[3::2]))
            if len(set(ents)) != len(ents):
                return k, "query visited an entity twice"
            if r[0] != r[1]:
                return k, "Count()=%d but iteration visited %d entities" % (r[0], r[1])
    return None

def oracle_callback_view(script, obs):
    """C09: inside a callback the entity is alive and appears exactly once in a query."""
    for k, (op, st) in enumerate(zip(script, obs)):
        for l in st["log"]:
            if l and l[0] == 100:
                oi, eid, egen, locked, alive, cnt = l[1:7]
                if eid == 0 and op[0] == 28:
                    continue   # custom event for the zero entity
                if alive != 1:
                    return k, "callback of observer %d got the dead entity (%d,%d)" % (oi, eid, egen)
                if cnt != 1:
                    return k, "entity (%d,%d) appears %d times in a query inside the callback of observer %d" % (eid, egen, cnt, oi)
    return None


def _cb_world_view(l):
    """the part of a callback log entry after the reported entity's snapshot: the whole world as the callback sees it"""
    p = 7
    if l[5] == 1 and len(l) > 7:
        p = 8 + 4 * l[7]
    return tuple(l[p:])

REMOVAL_EVENTS = {250, 252, 255}      # OnRemoveEntity, OnRemoveComponents, OnRemoveRelations

def oracle_batch_timing(script, obs):
    """C09, last sentence, read off the implementation alone: within one batch operation every removal
    callback sees the same world (nothing of the batch changed yet), every other callback sees the same
    world (everything changed), and no removal callback comes after another one."""
    evt = []                              # event type per observer object, from the script
    for k, (op, st) in enumerate(zip(script, obs)):
        if op[0] == 25 and st["err"] == 0:
            evt.append(op[1])
        if op[0] not in (3, 12, 30, 31, 32) or st["err"] != 0:
            continue
        pre, post, seen_other = None, None, False
        for l in st["log"]:
            if not l or l[0] != 100 or l[1] >= len(evt):
                continue
            v = _cb_world_view(l)
            if evt[l[1]] in REMOVAL_EVENTS:
                if seen_other:
                    return k, "%s: a removal callback (observer %d) runs after a callback of another kind" % (OP_NAMES.get(op[0], op[0]), l[1])
                if pre is None:
                    pre = v
                elif v != pre:
                    return k, "%s: the removal callback of observer %d for entity (%d,%d) sees a world in which part of the batch is already changed" % (OP_NAMES.get(op[0], op[0]), l[1], l[2], l[3])
            else:
                seen_other = True
                if post is None:
                    post = v
                elif v != post:
                    return k, "%s: the callback of observer %d for entity (%d,%d) sees a world in which part of the batch is not yet changed" % (OP_NAMES.get(op[0], op[0]), l[1], l[2], l[3])
    return None


# ---------------------------------------------------------------- per-property configuration

# properties whose checks also evaluate the relation-tier invariant on every stream state
INV_PROPS = {"C01", "C04", "C05", "C10", "C15", "C16"}

PROPS = {
    "C01": dict(streams=[("store", 120), ("batch", 60), ("relations", 60)], proj=proj_store, theorems=["Properties/C01.v"],
                oracles=[oracle_go_checks], key_ops={5, 6, 7, 8, 9, 4, 31}),
    "C02": dict(streams=[("store", 100), ("shrink", 50)], proj=proj_handles, theorems=["Properties/C02.v"],
                oracles=[oracle_handles, oracle_alive_monotone], key_ops={0, 1, 3, 4, 11, 12, 30}, special="codec"),
    "C03": dict(streams=[("query", 150), ("relations", 50)], proj=proj_query, theorems=["Properties/C03.v"],
                oracles=[oracle_query_once], key_ops={18, 20, 22, 23}),
    "C04": dict(streams=[("relations", 180)], proj=proj_relations, theorems=["Properties/C04.v"],
                oracles=[oracle_targets_alive], key_ops={2, 6, 10, 11, 12, 32}),
    "C05": dict(streams=[("cache", 180)], proj=proj_query, theorems=["Properties/C05.v"],
                oracles=[oracle_query_once], key_ops={16, 17, 18}),
    "C06": dict(streams=[("batch", 180)], proj=proj_batch, theorems=["Properties/C06.v"],
                oracles=[oracle_batch_timing], key_ops={3, 12, 30, 31, 32}),
    "C07": dict(streams=[("lock", 150)], proj=proj_lock, theorems=["Properties/C07.v"],
                oracles=[oracle_locked_rejects], key_ops={19, 20, 21}),
    "C08": dict(streams=[("observers", 180)], proj=proj_observers, theorems=["Properties/C08.v"],
                oracles=[], key_ops={26, 27, 28}),
    "C09": dict(streams=[("observers", 180)], proj=proj_callbacks, theorems=["Properties/C09.v"],
                oracles=[oracle_callback_view, oracle_batch_timing], key_ops={26}),
    "C10": dict(streams=[("misuse", 180)], proj=proj_err_state, theorems=["Properties/C10.v"],
                oracles=[oracle_unchanged_on_error], key_ops=set(range(0, 38))),
    "C11": dict(streams=[("store", 100), ("shrink", 60)], proj=proj_cells, theorems=["Properties/C11.v"],
                oracles=[oracle_zero_beyond_len], key_ops={5, 7, 8, 11, 13, 14}, special="gcsafe"),
    "C12": dict(streams=[("store", 60), ("relations", 60)], proj=proj_all_api, theorems=["Properties/C12.v"],
                oracles=[], key_ops=set(range(0, 39)), special="determinism"),
    "C13": dict(streams=[("lock", 60)], proj=proj_lock, theorems=["Properties/C13.v"], oracles=[], key_ops={19, 20, 21},
                special="race"),
    "C14": dict(streams=[("batch", 60)], proj=proj_all_api, theorems=["Properties/C14.v"], oracles=[oracle_go_checks],
                key_ops={29, 30, 31, 32}, special="typed"),
    "C15": dict(streams=[("shrink", 180)], proj=proj_all_api, theorems=["Properties/C15.v"],
                oracles=[oracle_shrink_invisible, oracle_locked_rejects], key_ops={14}, special="shrinktwin"),
    "C16": dict(streams=[("reset", 150)], proj=proj_all_api, theorems=["Properties/C16.v"],
                oracles=[oracle_reset_empty], key_ops={13}, special="resettwin"),
    "C17": dict(streams=[("store", 40)], proj=proj_handles, theorems=["Properties/C17.v"], oracles=[], key_ops={0, 11},
                special="codec"),
    "C18": dict(streams=[("store", 40)], proj=proj_all_api, theorems=["Properties/C18.v"], oracles=[], key_ops={1},
                special="registry"),
    "C19": dict(streams=[("stats", 180)], proj=proj_stats, theorems=["Properties/C19.v"],
                oracles=[oracle_stats_consistent], key_ops={38}),
    "C20": dict(streams=[("query", 60), ("misuse", 60)], proj=proj_all_api, theorems=["Properties/C20.v"], oracles=[],
                key_ops={20, 24, 37}, special="builds"),
}


# ---------------------------------------------------------------- running streams

def run_stream(arkh, stream, seed, n, workdir, extra=()):
    os.makedirs(workdir, exist_ok=True)
    rc, out = sh([arkh, "gen", "-stream", stream, "-seed", str(seed), "-n", str(n), "-out", workdir] + list(extra), timeout=1800)
    if rc != 0:
        # The harness died (a fatal runtime error is not a recoverable panic). Run again flushing every
        # operation before it is executed: the last, incomplete script is the failing input.
        crash = None
        try:
            sh([arkh, "gen", "-stream", stream, "-seed", str(seed), "-n", str(n), "-out", workdir] + list(extra), timeout=1800,
               env=dict(ENV, ARKH_TRACE="1"))
            blocks = read_blocks(os.path.join(workdir, "scripts.txt"))
            if blocks:
                crash = blocks[-1]
        except Exception:
            pass
        m = re.search(r"(fatal error: [^\n]*|panic: [^\n]*|unexpected signal[^\n]*)", out)
        return dict(ok=False, error="harness failed on stream %s: %s" % (stream, out[-2000:]), workdir=workdir, crash_script=crash,
                    crash_reason=m.group(1) if m else "harness exited abnormally", stream=stream, seed=seed)
    summary = {}
    for line in out.splitlines():
        if line.startswith("{"):
            try:
                summary = json.loads(line)
            except ValueError:
                pass
    with open(os.path.join(workdir, "scripts.txt")) as f, open(os.path.join(workdir, "model.txt"), "w") as g:
        p = subprocess.run([os.path.join(BUILD, "arkmodel")], stdin=f, stdout=g, stderr=subprocess.PIPE, timeout=3600)
    if p.returncode != 0:
        return dict(ok=False, error="model interpreter failed: %s" % p.stderr.decode()[-1000:], workdir=workdir)
    return dict(ok=True, summary=summary, workdir=workdir, stream=stream, seed=seed, n=n)


def load_run(run):
    wd = run["workdir"]
    scripts = read_blocks(os.path.join(wd, "scripts.txt"))
    model = read_blocks(os.path.join(wd, "model.txt"))
    impl = read_blocks(os.path.join(wd, "observed.txt"))
    return scripts, model, impl


def compare_run(run, proj, oracles):
    """Returns a report: raw mismatches (any part of the trace), projection mismatches (the property's
    view), oracle failures, and coverage counters."""
    scripts, model, impl = load_run(run)
    rep = dict(scripts=len(scripts), steps=0, raw_mismatch=[], proj_mismatch=[], oracle_fail=[], sigs=set(), panics=0)
    if not (len(scripts) == len(model) == len(impl)):
        rep["raw_mismatch"].append(dict(script=-1, step=-1, detail="trace block counts differ (%d scripts, %d model, %d impl)" % (len(scripts), len(model), len(impl))))
    for si in range(min(len(scripts), len(model), len(impl))):
        ops = [[int(x) for x in l.split()] for l in scripts[si][2:]]
        m, o = model[si], impl[si]
        rep["steps"] += len(o)
        first_raw = None
        for k in range(max(len(m), len(o))):
            if k >= len(m) or k >= len(o) or m[k] != o[k]:
                first_raw = k
                break
        pobs = None
        if first_raw is not None:
            rep["raw_mismatch"].append(dict(script=si, step=first_raw))
            # does the property's own projection differ (from the first raw mismatch on)?
            pm = [parse_obs(l) for l in m]
            pobs = [parse_obs(l) for l in o]
            for k in range(first_raw, min(len(pm), len(pobs), len(ops))):
                a, b = proj(pm[k], ops[k]), proj(pobs[k], ops[k])
                if a != b:
                    rep["proj_mismatch"].append(dict(script=si, step=k, model=repr(a)[:600], impl=repr(b)[:600]))
                    break
        if oracles:
            if pobs is None:
                pobs = [parse_obs(l) for l in o]
            for orc in oracles:
                r = orc(ops, pobs)
                if r is not None:
                    rep["oracle_fail"].append(dict(script=si, step=r[0], oracle=orc.__name__, detail=r[1]))
        rep["panics"] += sum(1 for l in o if l.startswith("1 "))
        rep["sigs"].add(hashlib.sha1("\n".join(scripts[si]).encode()).hexdigest())
    return rep


def script_lines(run, si):
    scripts, _, _ = load_run(run)
    return scripts[si]


def replay_script(arkh, lines, workdir):
    """Run one script on implementation and model; returns (model_lines, impl_lines)."""
    os.makedirs(workdir, exist_ok=True)
    sp = os.path.join(workdir, "replay_script.txt")
    with open(sp, "w") as f:
        f.write("\n".join(lines) + "\n#\n")
    rc, out = sh([arkh, "replay", "-script", sp], timeout=600)
    # keep observation lines only (integers): a harness that dies on a malformed candidate script
    # (shrinking can make one) or on a fatal runtime error prints a Go stack trace
    impl = [l for l in out.splitlines() if l and re.fullmatch(r"-?\d+( -?\d+)*", l.strip())]
    with open(sp) as f:
        p = subprocess.run([os.path.join(BUILD, "arkmodel")], stdin=f, stdout=subprocess.PIPE, stderr=subprocess.PIPE, timeout=600)
    model = [l for l in p.stdout.decode().splitlines() if l and not l.startswith("#")]
    return model, impl


def shrink(arkh, lines, step, failing, workdir, budget=120):
    """Greedy shrinking: cut the script after the failing step, then drop single operations that do
    not hand out handles while `failing(model, impl, ops)` still holds for the last step."""
    head, ops = lines[:2], lines[2:step + 3]
    best = head + ops
    tries = 0
    i = len(ops) - 2
    while i >= 0 and tries < budget:
        code = int(ops[i].split()[0])
        if code not in CREATE_OPS and code not in (15, 19, 25, 18):
            cand = ops[:i] + ops[i + 1:]
            tries += 1
            m, o = replay_script(arkh, head + cand, workdir)
            try:
                still = failing(m, o, cand)
            except (ValueError, IndexError, KeyError):
                still = False       # a candidate that cannot be evaluated is not kept
            if still:
                ops = cand
                best = head + ops
        i -= 1
    return best


# ---------------------------------------------------------------- evidence and main protocol

def write_evidence(pid, tier, seed, level, coverage, assumptions, wall, violations):
    os.makedirs(os.path.join(ROOT, "evidence"), exist_ok=True)
    ev = dict(property_id=pid, tier=tier, seed=seed, level=level, coverage=coverage, assumptions=assumptions,
              wall_s=round(wall, 2), violations=violations)
    with open(os.path.join(ROOT, "evidence", pid + ".json"), "w") as f:
        json.dump(ev, f, indent=1, sort_keys=True)


def write_replay(pid, kind, payload):
    os.makedirs(os.path.join(ROOT, "replays"), exist_ok=True)
    h = hashlib.sha1(json.dumps(payload, sort_keys=True).encode()).hexdigest()[:10]
    path = os.path.join(ROOT, "replays", "%s-%s-%s.json" % (pid, kind, h))
    with open(path, "w") as f:
        json.dump(dict(property=pid, kind=kind, **payload), f, indent=1)
    return path


def known_findings():
    try:
        return json.load(open(os.path.join(ROOT, "known_findings.json")))
    except (OSError, ValueError):
        return {"fixed": [], "known": []}


def run_witnesses(pid, tags="", race=False):
    pat = "TestWitness_%s_" % pid
    cmd = ["go", "test", "-count=1", "-run", pat]
    if tags:
        cmd += ["-tags", tags]
    if race:
        cmd += ["-race"]
    cmd += ["./witness"]
    rc, out = sh(cmd, cwd=HARNESS, timeout=1200)
    ran = "no tests to run" not in out
    return rc == 0, out, ran


TRUSTED = [
    "Coq 8.16.1 kernel (coqc); vm_compute only for finite sweeps inside proofs; no native_compute",
    "axioms: none declared by the development; Print Assumptions output per theorem is listed in 'assumptions_per_theorem'",
    "extraction: Require Extraction + ExtrOcamlBasic only (bool, option, list, prod, unit, sumbool mapped to OCaml); nat/positive/N/Z stay inductive; no Extract Constant; coq/Extract/driver.ml (integer line parser/printer) is trusted glue",
    "correspondence check: Go harness in /verif/harness (script generators, executor, callback installed on observers, trace printer) and the add-only hook file /repo/ecs/zz_verif_hooks.go (build tag verif) that dumps internal state",
    "modelled rather than verified: everything in /repo/ecs; abstractions: component value = one Z cell, pointers = (table,column,row), Go maps = association lists, archetype graph = lookup by mask, reflect/unsafe/GC/time not modelled",
]


def run_check(pid, tier, seed, replay):
    t0 = time.time()
    if pid not in PROPS:
        print("unknown property", pid); return 2
    cfg = PROPS[pid]
    mult = 1 if tier == "quick" else 12
    violations = []      # (replay_path, suffix)
    notes = []
    tmp = tempfile.mkdtemp(prefix="verif-%s-" % pid)
    try:
        return _run(pid, tier, seed, replay, cfg, mult, violations, notes, tmp, t0)
    finally:
        shutil.rmtree(tmp, ignore_errors=True)


def _finish(pid, tier, seed, t0, coverage, assumptions, violations):
    for path, suffix in violations:
        print("VIOLATION property=%s replay=%s%s" % (pid, path, (" " + suffix) if suffix else ""))
    level = coverage.pop("_level", "proof")
    write_evidence(pid, tier, seed, level, coverage, assumptions, time.time() - t0, len(violations))
    print("%s %s: %s (%.1fs)" % (pid, tier, "VIOLATIONS: %d" % len(violations) if violations else "ok", time.time() - t0))
    return 1 if violations else 0


def _run(pid, tier, seed, replay, cfg, mult, violations, notes, tmp, t0):
    import special
    coverage = dict(evaluations=0, distinct_nontrivial=0, rule="", samples=[], obligations=0, discharged=0,
                    checker_cmd="", trusted_base=list(TRUSTED), traces_validated_against_impl=0)
    assumptions = ["the Coq model (coq/Model) describes /repo/ecs: checked by the correspondence streams of this run, not proved",
                   "Go toolchain go1.24.0 from the module cache, GOFLAGS=-mod=mod GOPROXY=off"]

    # 1. builds
    ok, out, arkh = build_harness()
    if not ok:
        path = write_replay(pid, "build", dict(detail="the harness does not build against /repo's working tree with -tags verif, so the correspondence between the Coq model and the code cannot be checked", output=out[-3000:]))
        violations.append((path, "no-failing-input-found"))
        coverage.update(evaluations=1, distinct_nontrivial=0, rule="harness build failed", samples=["go build failed"], _level="proof")
        return _finish(pid, tier, seed, t0, coverage, assumptions, violations)
    ok, out, missing = ensure_model()
    if not ok:
        path = write_replay(pid, "theorem", dict(detail="the Coq development does not build", missing=missing, output=out[-3000:]))
        violations.append((path, "no-failing-input-found"))
        coverage.update(evaluations=1, distinct_nontrivial=0, rule="coq build failed", samples=["make failed"], _level="proof")
        return _finish(pid, tier, seed, t0, coverage, assumptions, violations)

    # replay mode
    if replay:
        return special.replay(pid, cfg, replay, arkh, tmp)

    # 2. theorems
    thm_files = [f for f in cfg["theorems"] if os.path.exists(os.path.join(COQ, f))]
    thm = check_theorems(pid, thm_files)
    coverage["obligations"] = thm["obligations"]
    coverage["discharged"] = thm["discharged"]
    coverage["checker_cmd"] = "cd /verif/coq && make -j16 (coq_makefile, full .vo build) && coqc -Q . Ark " + " ".join(thm_files)
    coverage["theorems"] = thm["theorems"]
    coverage["assumptions_per_theorem"] = thm["assumptions"]
    proof_broken = not thm["ok"]
    if tier == "thorough" and thm_files:
        ck = special.coqchk(thm_files)
        coverage["coqchk"] = ck["summary"]
        if not ck["ok"]:
            proof_broken = True
            thm["output"] += ck["summary"]

    # 3. witnesses of repaired defects
    race = cfg.get("special") == "race"
    # (for the build-configuration property the witnesses run under all four tag combinations)
    wtags = ["", "ark_debug", "ark_tiny", "ark_tiny,ark_debug"] if cfg.get("special") == "builds" else [""]
    for wt in wtags:
        okw, outw, ran = run_witnesses(pid, tags=wt, race=race)
        coverage["witnesses_run"] = ran
        if not okw:
            fails = re.findall(r"--- FAIL: (\S+)", outw)
            path = write_replay(pid, "witness", dict(detail="a repaired defect is back: witness program fails" + (" (build tags %s)" % wt if wt else ""), tests=fails,
                                                       how_to_run="cd /verif/harness && GOFLAGS=-mod=mod GOPROXY=off go test -count=1 %s%s-run '%s' ./witness" % (
                                                           "-race " if race else "", "-tags %s " % wt if wt else "", "|".join(fails) or "TestWitness_" + pid),
                                                       output=outw[-3000:]))
            violations.append((path, ""))
            break

    # 4. correspondence streams
    runs = []
    jobs = []
    with concurrent.futures.ThreadPoolExecutor(max_workers=14) as ex:
        for si, (stream, n) in enumerate(cfg["streams"]):
            shards = 1 if mult == 1 else 12
            for sh_i in range(shards):
                wd = os.path.join(tmp, "%s-%d-%d" % (stream, si, sh_i))
                nn = n if mult == 1 else n * mult // shards
                jobs.append(ex.submit(run_stream, arkh, stream, seed + 7919 * sh_i + si, nn, wd))
        for j in jobs:
            runs.append(j.result())
    reports = []
    corr_broken = False
    samples = []
    op_hist = {}
    for run in runs:
        if not run["ok"]:
            if run.get("crash_script"):
                path = write_replay(pid, "script", dict(
                    detail="the implementation dies with '%s' while executing the last operation of this script (stream %s, seed %d); the model executes it" % (
                        run["crash_reason"], run["stream"], run["seed"]),
                    script=run["crash_script"], how_to_run="bin/check %s --replay <this file>" % pid, output=run["error"][-1500:]))
                violations.append((path, ""))
            else:
                path = write_replay(pid, "stream", dict(detail=run["error"]))
                violations.append((path, "no-failing-input-found"))
            corr_broken = True
            continue
        rep = compare_run(run, cfg["proj"], cfg["oracles"])
        rep["run"] = run
        reports.append(rep)
        coverage["evaluations"] += rep["scripts"]
        coverage["traces_validated_against_impl"] += rep["scripts"] - len(set(m["script"] for m in rep["raw_mismatch"]))
        for k, v in run["summary"].get("op_hist", {}).items():
            op_hist[k] = op_hist.get(k, 0) + v
        for gc in run["summary"].get("go_checks", []):
            notes.append(gc)
        if rep["raw_mismatch"]:
            corr_broken = True
    # 4b. the relation-tier invariant (Rel2Defs.st2_b, sound for St2) on every state these scripts reach
    if pid in INV_PROPS:
        import invrun
        inv_states, inv_bad = 0, None
        for rep in reports:
            r = invrun.run(BUILD, rep["run"]["workdir"])
            if r["error"]:
                path = write_replay(pid, "stream", dict(detail="invariant evaluation failed: " + r["error"]))
                violations.append((path, "no-failing-input-found")); corr_broken = True
                continue
            inv_states += r["states"]
            if r["violating"] and inv_bad is None:
                inv_bad = (rep, r["violating"][0])
        coverage["invariant_states_checked"] = inv_states
        coverage["invariant"] = "St2 = WF /\\ RelInv /\\ CacheInv (coq/Proofs/Rel2Defs.v), evaluated by the extracted checker after every operation of every script (also at recovered panics)"
        if inv_bad:
            rep, (si, k, idx) = inv_bad
            sc = script_lines(rep["run"], si)[:k + 3]
            path = write_replay(pid, "script", dict(
                detail="after this script the world violates the storage/relation invariant St2 (failing check indices %s: 0-17 WF, 18-32 relation bookkeeping and targets, last = cache); the model's state equals the implementation's internal dump at this point" % idx,
                step=k, script=sc, how_to_run="bin/check %s --replay <this file>" % pid))
            violations.append((path, ""))

    # coverage: distinct non-trivial scripts
    distinct = 0
    sample_script = None
    for rep in reports:
        scripts, _, impl = load_run(rep["run"])
        for si, sc in enumerate(scripts):
            ops = [[int(x) for x in l.split()] for l in sc[2:]]
            okops = sum(1 for l in impl[si] if l.startswith("0 ")) if si < len(impl) else 0
            keyhit = any(o[0] in cfg["key_ops"] and impl[si][k].startswith("0 ") for k, o in enumerate(ops) if si < len(impl) and k < len(impl[si]))
            if okops >= 10 and keyhit:
                distinct += 1
                if sample_script is None:
                    sample_script = dict(stream=rep["run"]["stream"], config=sc[0][:80], ops=[OP_NAMES.get(o[0], str(o[0])) + " " + " ".join(map(str, o[1:8])) for o in ops[:25]])
    coverage["distinct_nontrivial"] = distinct
    coverage["rule"] = ("seeded scripts (SplitMix64, VERIF_SEED) generated online against the real library by harness/sim streams %s, "
                        "executed on /repo (tag verif) and replayed by the extracted Coq model; after every operation the result, callback log, "
                        "API view of every issued handle and the internal dump are compared. A script counts as non-trivial if >= 10 of its operations "
                        "succeeded and at least one successful operation is in the property's key set %s; scripts are distinct by SHA-1 of their text.") % (
                            [s for s, _ in cfg["streams"]], sorted(cfg["key_ops"]))
    coverage["op_histogram"] = {OP_NAMES.get(int(k), k): v for k, v in sorted(op_hist.items(), key=lambda kv: int(kv[0]))}
    coverage["steps_compared"] = sum(r["steps"] for r in reports)
    coverage["panicking_calls"] = sum(r["panics"] for r in reports)
    if sample_script:
        samples.append(sample_script)

    # oracle failures are concrete violations on the implementation's own trace
    for rep in reports:
        for of in rep["oracle_fail"][:1]:
            lines = script_lines(rep["run"], of["script"])
            path = write_replay(pid, "script", dict(detail=of["detail"], oracle=of["oracle"], step=of["step"], script=lines[:of["step"] + 3],
                                                      how_to_run="bin/check %s --replay <this file>" % pid))
            violations.append((path, ""))

    # 5. special parts (determinism, builds, race, codec, registry, typed)
    sp = special.run(pid, cfg, tier, seed, arkh, tmp)
    if sp:
        coverage.update(sp.get("coverage", {}))
        coverage["_known_lines"] = sp.get("known_lines", [])
        samples += sp.get("samples", [])
        for v in sp.get("violations", []):
            violations.append(v)
        if sp.get("broken"):
            corr_broken = True

    # 6. broken proof or correspondence: search for a concrete failing input
    if (proof_broken or corr_broken) and not any(s == "" for _, s in violations):
        found = None
        for rep in reports:
            if rep["proj_mismatch"]:
                pm = rep["proj_mismatch"][0]
                found = (rep, pm)
                break
        if found is None and tier != "replay":
            # wider search: ten times the volume on the property's streams
            extra = []
            with concurrent.futures.ThreadPoolExecutor(max_workers=14) as ex:
                jobs = []
                for si, (stream, n) in enumerate(cfg["streams"]):
                    for sh_i in range(10):
                        wd = os.path.join(tmp, "search-%s-%d-%d" % (stream, si, sh_i))
                        jobs.append(ex.submit(run_stream, arkh, stream, seed + 104729 * (sh_i + 1) + si, n, wd))
                for j in jobs:
                    extra.append(j.result())
            for run in extra:
                if not run["ok"]:
                    continue
                rep = compare_run(run, cfg["proj"], [])
                rep["run"] = run
                coverage["evaluations"] += rep["scripts"]
                if rep["proj_mismatch"]:
                    found = (rep, rep["proj_mismatch"][0])
                    break
        if found:
            rep, pm = found
            lines = script_lines(rep["run"], pm["script"])
            proj = cfg["proj"]

            def failing(m, o, ops):
                if not m or not o or len(m) != len(o):
                    return bool(m) != bool(o)
                k = len(ops) - 1
                if k >= len(m) or k >= len(o):
                    return False
                op = [int(x) for x in ops[k].split()]
                return proj(parse_obs(m[k]), op) != proj(parse_obs(o[k]), op)
            small = shrink(arkh, lines, pm["step"], failing, tmp)
            path = write_replay(pid, "script", dict(
                detail="the implementation's %s differs from what the property demands (the Coq model, for which the property is proved)" % cfg["proj"].__doc__ if cfg["proj"].__doc__ else
                       "on this script the implementation's behaviour (the property's projection of the trace) differs from the Coq model for which the property is proved",
                step=len(small) - 3, script=small, model=pm["model"], impl=pm["impl"], how_to_run="bin/check %s --replay <this file>" % pid))
            violations.append((path, ""))
        else:
            what = []
            if proof_broken:
                what.append("theorem file(s) %s no longer check: %s" % (thm_files, thm["output"][-1500:]))
            for rep in reports:
                if rep["raw_mismatch"]:
                    rm = rep["raw_mismatch"][0]
                    what.append("correspondence stream '%s' (seed %d): model and implementation traces differ first at script %d step %d (outside this property's projection)" % (
                        rep["run"]["stream"], rep["run"]["seed"], rm["script"], rm["step"]))
                    break
            if not what:
                what.append("correspondence broken (see earlier replay files)")
            sc = None
            for rep in reports:
                if rep["raw_mismatch"] and rep["raw_mismatch"][0]["script"] >= 0:
                    rm = rep["raw_mismatch"][0]
                    sc = script_lines(rep["run"], rm["script"])[:rm["step"] + 3]
                    break
            path = write_replay(pid, "unshown", dict(detail="; ".join(what), script=sc))
            violations.append((path, "no-failing-input-found"))

    coverage["samples"] = samples or ["no sample"]
    coverage["notes"] = notes[:10]
    # known (recorded, not repaired) findings are reported when the run observed them (special.probes)
    for line in coverage.pop("_known_lines", []):
        print(line)
    coverage["_level"] = "proof" if thm_files else "other"
    if not thm_files:
        coverage["explanation"] = "no theorem file yet for this property: correspondence and oracles only"
    return _finish(pid, tier, seed, t0, coverage, assumptions, violations)
