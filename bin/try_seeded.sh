#!/bin/bash
# Usage: try_seeded.sh <patch.diff> <property ids...>
# Applies a seeded change to /repo, runs the given checks, and undoes the change.
set -u
patch="$1"; shift
cd /repo
if ! git diff --quiet; then echo "/repo has uncommitted changes"; exit 2; fi
git apply "$patch" || { echo "patch does not apply"; exit 2; }
export GOFLAGS=-mod=mod GOPROXY=off
( cd /repo && go build ./... ) || echo "BUILD FAILS"
for id in "$@"; do
  ( cd /verif && timeout 1800 bin/check "$id" --tier quick 2>&1 | grep -E "VIOLATION|quick:" )
done
git -C /repo checkout -- .
git -C /repo status --short | head -3
