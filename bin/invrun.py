"""Evaluates the relation-tier invariant (coq/Proofs/Rel2Defs.v: st2_b, proved sound for St2; wired
through coq/Proofs/InvRun.v: inv_script) on every state that the correspondence scripts of a run
reach, by running the extracted model in ARKMODEL_MODE=inv on the same scripts.txt. Because the model's
trace (which includes the complete internal dump) was compared with the implementation's after every
step, a state that violates the invariant is a state of the real library: the script prefix is a
concrete failing input. This is testing in support of the invariant's validation, not a proof."""
import os, subprocess

CLAUSES = (["wf:%d" % i for i in range(0, 18)])


def run(build_dir, workdir):
    """Returns dict(states, violating=[(script_index, step, [check indices])])."""
    sp = os.path.join(workdir, "scripts.txt")
    out = os.path.join(workdir, "inv.txt")
    env = dict(os.environ, ARKMODEL_MODE="inv")
    with open(sp) as f, open(out, "w") as g:
        p = subprocess.run([os.path.join(build_dir, "arkmodel")], stdin=f, stdout=g, stderr=subprocess.PIPE, env=env, timeout=3600)
    if p.returncode != 0:
        return dict(states=0, violating=[], error=p.stderr.decode()[-500:])
    states = 0
    bad = []
    si, k = 0, 0
    with open(out) as f:
        for line in f:
            line = line.strip()
            if line.startswith("#"):
                si += 1; k = 0; continue
            if not line:
                continue
            parts = line.split()
            states += 1
            if len(parts) > 1:
                bad.append((si, k, [int(x) for x in parts[1:]]))
            k += 1
    return dict(states=states, violating=bad, error="")
