#!/usr/bin/env python3
"""Writes /verif/MANIFEST.json from the table below (kept in one place so that the level texts
follow what is actually proved)."""
import json, os
ROOT = os.path.dirname(os.path.dirname(os.path.abspath(__file__)))

CLAIMS = json.load(open(os.path.join(ROOT, "bin", "claims.json")))

checks = []
for pid in sorted(CLAIMS):
    c = CLAIMS[pid]
    checks.append({
        "property_id": pid,
        "quick_cmd": "bin/check %s --tier quick" % pid,
        "thorough_cmd": "bin/check %s --tier thorough" % pid,
        "evidence_file": "/verif/evidence/%s.json" % pid,
        "replay_cmd_template": "bin/check %s --replay {path}" % pid,
        "engine": "coq-model+correspondence",
        "level_claimed": {"category": c["category"], "text": c["text"], "design_ref": c.get("design_ref", "DESIGN.md section 5")},
        "level_note": c["note"],
        "technique": c["technique"],
    })

manifest = {
    "version": 1,
    "setup_cmd": "bin/build.sh",
    "hooks": {
        "guard": "verif",
        "enable": "go build -tags verif (the harness module /verif/harness replaces github.com/mlange-42/ark by /repo)",
        "baseline_off_cmd": "cd /repo && GOFLAGS=-mod=mod GOPROXY=off go test -json -vet=off -count=1 -timeout 25m ./...",
        "source_commits": ["5039b12", "9feaaec"],
        "add_only": True,
    },
    "engines": [
        {"name": "coq-model+correspondence", "path": "/verif/coq, /verif/harness, /verif/bin/check",
         "serves_properties": sorted(CLAIMS),
         "kind_free_text": "Coq 8.16 development (executable model of package ecs, theorems per property), model extracted to OCaml and run against the real library on seeded operation scripts with full internal-state comparison after every step"},
    ],
    "checks": checks,
    "not_applicable": [],
    "notes": "All checks rebuild the Go harness against /repo's working tree. Fixed upstream defects are listed in known_findings.json; their witnesses run first in the check of their property.",
}
json.dump(manifest, open(os.path.join(ROOT, "MANIFEST.json"), "w"), indent=1)
print("MANIFEST.json written with %d checks" % len(checks))
