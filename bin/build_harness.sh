#!/bin/bash
# (Re)builds the Go harness against /repo's current working tree with the verif hooks enabled.
# Usage: build_harness.sh [extra,tags]  -> build/arkh[-<tags>]
set -euo pipefail
cd "$(dirname "$0")/../harness"
export GOFLAGS=-mod=mod GOPROXY=off
tags="verif"
suffix=""
if [ "${1:-}" != "" ]; then tags="verif,$1"; suffix="-$(echo "$1" | tr ',' '-')"; fi
go build -tags "$tags" -o "../build/arkh$suffix" ./cmd/arkh
