#!/usr/bin/env python3
"""Compare model and implementation traces (files of integer lines, scripts separated by '#').
Prints one JSON object: number of scripts/steps compared and the mismatches (script index,
step index, operation line, first differing position, both lines truncated)."""
import sys, json

def read_blocks(path):
    blocks, cur = [], []
    with open(path) as f:
        for line in f:
            line = line.strip()
            if line.startswith('#'):
                blocks.append(cur); cur = []
            elif line:
                cur.append(line)
    if cur:
        blocks.append(cur)
    return blocks

def main():
    scripts = read_blocks(sys.argv[1]); model = read_blocks(sys.argv[2]); impl = read_blocks(sys.argv[3])
    maxrep = int(sys.argv[4]) if len(sys.argv) > 4 else 5
    out = {"scripts": len(scripts), "steps": 0, "mismatches": [], "mismatching_scripts": 0}
    if not (len(scripts) == len(model) == len(impl)):
        out["error"] = "block count differs: %d scripts, %d model, %d impl" % (len(scripts), len(model), len(impl))
    for si in range(min(len(scripts), len(model), len(impl))):
        ops = scripts[si][2:]
        m, o = model[si], impl[si]
        bad = None
        for k in range(max(len(m), len(o))):
            out["steps"] += 1
            ml = m[k] if k < len(m) else "<missing>"
            ol = o[k] if k < len(o) else "<missing>"
            if ml != ol:
                a, b = ml.split(), ol.split()
                pos = next((i for i in range(min(len(a), len(b))) if a[i] != b[i]), min(len(a), len(b)))
                bad = {"script": si, "step": k, "op": ops[k] if k < len(ops) else "?", "pos": pos,
                       "model": " ".join(a[max(0, pos - 8):pos + 8]), "impl": " ".join(b[max(0, pos - 8):pos + 8]),
                       "model_head": " ".join(a[:12]), "impl_head": " ".join(b[:12])}
                break
        if bad:
            out["mismatching_scripts"] += 1
            if len(out["mismatches"]) < maxrep:
                out["mismatches"].append(bad)
    print(json.dumps(out))
    sys.exit(1 if out["mismatching_scripts"] or "error" in out else 0)

main()
