(** * C19 — Statistics agree with the world.

    Proved here (relation-free tier, every state satisfying the storage invariant, hence every
    reachable state of the core histories):
    - used entities (pool length - reserved - recycled) = total number of table rows;
    - total = used + recycled;
    - every table's size is at most its capacity (tbl_ok, C11);
    - no two archetypes have the same component set (WF: masks pairwise distinct, component list =
      ascending bits of the mask);
    - the per-archetype sizes sum to at most the number of rows, and to exactly the number of rows
      when every table is listed by its archetype (clause not yet carried by [St]).
    The statistics vector of the model ([stats_vec]) is computed fresh from the state, while the
    implementation updates its object in place between calls: the `stats` correspondence stream
    compares both after Stats calls at random positions (so an incremental-update slip shows as a
    mismatch), and an oracle checks the internal consistency of the implementation's own figures.
    Memory figures (products with type sizes) and the append-growth capacity are not modelled. *)
From Ark Require Import Model.Base Model.Mask Model.Pool Model.Util Model.World Model.Run.
From Ark Require Import Proofs.TableProofs Proofs.WF Proofs.StorageA Proofs.ViewProofs Properties.Common.
From Ark Require Import Proofs.StorageD.

Theorem C19_used_equals_rows : forall s, St s -> pool_len (w_pool s) = total_rows s.
Proof. exact used_equals_rows. Qed.

Theorem C19_total_is_used_plus_recycled : forall s, St s ->
  pool_cap (w_pool s) = pool_len (w_pool s) + pavail (w_pool s).
Proof. exact total_is_used_plus_recycled. Qed.

Theorem C19_size_le_capacity : forall s tid t, WF s -> nth_error (w_tables s) tid = Some t -> t_len t <= t_cap t.
Proof.
  intros s tid t HW Ht. pose proof (wf_tables _ HW) as HF. rewrite Forall_forall in HF.
  destruct (HF t (nth_error_In _ _ Ht)) as [[Hle _] _]. exact Hle.
Qed.

Theorem C19_archetypes_distinct : forall s i j a b, WF s ->
  nth_error (w_archs s) i = Some a -> nth_error (w_archs s) j = Some b -> a_comps a = a_comps b -> i = j.
Proof.
  intros s i j a b HW Ha Hb Hc. apply (wf_arch_unique _ HW i j a b Ha Hb).
  destruct (wf_arch_comps _ HW i a Ha) as (Ca & Ba & _). destruct (wf_arch_comps _ HW j b Hb) as (Cb & Bb & _).
  apply Proofs.MaskProofs.mk_eq_ext. intros k.
  destruct (mk_get (a_mask a) k) eqn:Ea, (mk_get (a_mask b) k) eqn:Eb; try reflexivity; exfalso.
  - assert (In k (a_comps a)) by (rewrite Ca; apply Proofs.MaskProofs.mk_to_list_spec; split; [apply Ba; exact Ea | exact Ea]).
    rewrite Hc, Cb in H. apply Proofs.MaskProofs.mk_to_list_spec in H. destruct H as [_ H]. congruence.
  - assert (In k (a_comps b)) by (rewrite Cb; apply Proofs.MaskProofs.mk_to_list_spec; split; [apply Bb; exact Eb | exact Eb]).
    rewrite <- Hc, Ca in H. apply Proofs.MaskProofs.mk_to_list_spec in H. destruct H as [_ H]. congruence.
Qed.

Theorem C19_archetype_sizes_le_rows : forall s, St s ->
  fold_left (fun acc a => acc + fold_left (fun acc tid => acc + match nth_error (w_tables s) tid with Some t => t_len t | None => 0 end) (a_tables a) 0) (w_archs s) 0
  <= total_rows s.
Proof. exact stats_sizes_le. Qed.

Theorem C19_archetype_sizes_sum_partial : forall s, St s -> v_tables_listed s ->
  fold_left (fun acc a => acc + fold_left (fun acc tid => acc + match nth_error (w_tables s) tid with Some t => t_len t | None => 0 end) (a_tables a) 0) (w_archs s) 0
  = total_rows s.
Proof. exact stats_sizes_sum_partial. Qed.

(** Non-vacuity: the statistics vector of a small world: 2 used, 3 total, 1 recycled, unlocked,
    no filters, no observers, 3 archetypes. *)
Example C19_stats_vector :
  firstn 7 (stats_vec (exec small_cfg [[1; 1; 0]; [1; 2; 0; 1]; [0]; [11; 0]]%Z)) = [2; 3; 1; 0; 0; 0; 3]%Z.
Proof. vm_compute. reflexivity. Qed.

(** Over histories (StorageD.v): the sum of the archetype sizes equals the number of rows (= used
    entities) in every state reachable by the core operations, queries and filter creation: the
    hypothesis [v_tables_listed] of the partial theorem is an invariant. *)
Definition C19_sizes_sum_after_every_history := reachable_sizes_sum.

(** ** Relation worlds, every figure of the vector, histories, Shrink (Proofs/StatsProofs.v).

    For every state satisfying the relation invariant [St2]: *)
From Ark Require Import Proofs.Rel2Defs Proofs.Rel2Maint Proofs.Rel2Hist Proofs.Rel2HistQ Proofs.Rel2HistQL Proofs.StatsProofs.
From Ark Require Proofs.ObsProofs Proofs.ObsSpec.

(** used = rows of all tables = rows of the non-free tables; total = used + recycled (WF suffices). *)
Definition C19_rel_used_equals_rows := used_equals_rows2.
Definition C19_rel_total_is_used_plus_recycled := total_is_used_plus_recycled_WF.
(** every table is in exactly one of the two lists of exactly its archetype; free tables are empty. *)
Definition C19_rel_table_in_one_list := sp_table_place.
Definition C19_rel_lists_partition := sp_lists_partition.
Definition C19_rel_archetype_lists := sp_arch_lists_perm.
(** a full query counts a live entity once, a dead one never. *)
Definition C19_rel_live_counted_once := live_counted_once2.
Definition C19_rel_dead_counted_zero := dead_counted_zero2.
(** the live entities as a duplicate-free list whose length is the used figure. *)
Definition C19_live_rows := (sp_live_rows_NoDup, sp_live_rows_length, sp_live_rows_in).
(** shape of the vector; what each header figure and each archetype block is. *)
Definition C19_vector_shape := stats_vec_shape.
Definition C19_header_meaning := sp_header_meaning.
Definition C19_block_meaning := sp_arch_block_meaning.
Definition C19_table_counts := stats_table_counts.
Definition C19_block_size_live := stats_block_size_live.
Definition C19_rel_sizes_sum := stats_sizes_sum2.
Definition C19_rel_sizes_sum_fold := stats_sizes_sum2_C19.
Definition C19_rel_caps_sum := stats_caps_sum2.
Definition C19_size_le_capacity_block := stats_size_le_cap2.
Definition C19_recycled_meaning := stats_recycled_meaning.
Definition C19_filters_meaning := stats_filters_meaning.
(** the observer figure under the manager invariant, over manager histories; refuted for raw histories. *)
Definition C19_observers_registered := stats_observers_registered.
Definition C19_observers_after_every_obs_history := stats_observers_after_every_obs_history.
Definition C19_observers_registered_refuted := stats_observers_registered_refuted.
Definition C19_observers_registered_needs_MInv := stats_observers_registered_needs_MInv.
(** Stats is total and read-only; Shrink under every clock keeps the stable part of the vector. *)
Definition C19_stats_total_readonly := stats_total_readonly.
Definition C19_stats_step := stats_step.
Definition C19_shrink_every_clock := stats_shrink_clock.
Definition C19_shrink_tables_exact := stats_shrink_tables_exact.
Definition C19_shrink_op := stats_shrink_op.
(** over histories: relation tier (Rel2HistQ histories, locked states included) ... *)
Definition C19_rel_used_after_every_history := C19r_used_after_every_history.
Definition C19_rel_counted_once_after_every_history := C19r_counted_once_after_every_history.
Definition C19_rel_tables_after_every_history := C19r_tables_after_every_history.
Definition C19_rel_sizes_sum_after_every_history := C19r_sizes_sum_after_every_history.
Definition C19_rel_header_after_every_history := C19r_header_after_every_history.
Definition C19_rel_block_after_every_history := C19r_block_after_every_history.
Definition C19_rel_block_size_after_every_history := C19r_block_size_after_every_history.
Definition C19_rel_stats_after_every_history := C19r_stats_after_every_history.
Definition C19_rel_shrink_after_every_history := C19r_shrink_after_every_history.
Definition C19_rel_no_observers_after_every_history := reachable_quiet_obs.
(** ... and Tier 1 (StorageD histories with observers, filters, registration, queries). *)
Definition C19_t1_block_after_every_history := C19t_block_after_every_history.
Definition C19_t1_tables_after_every_history := C19t_tables_after_every_history.
Definition C19_t1_used_after_every_history := C19t_used_after_every_history.
Definition C19_t1_header_after_every_history := C19t_header_after_every_history.

(** Non-vacuity: a relation world with three archetypes, a freed relation table, a registered filter and an
    open query; its vector. *)
Example C19_rel_stats_vector :
  stats_vec sp_world =
    [4; 6; 2; 1; 1; 0; 3;  0; 0; 0; 1; 2; 1;  1; 2;  2; 1; 1; 2; 5; 2;  0; 1;  2; 2;  1; 0; 0; 1; 2; 1;  1; 2]%Z.
Proof. exact (proj1 sp_world_vector). Qed.

Definition C19_all := (C19_sizes_sum_after_every_history, C19_used_equals_rows, C19_total_is_used_plus_recycled, C19_size_le_capacity,
  C19_archetypes_distinct, C19_archetype_sizes_le_rows, C19_archetype_sizes_sum_partial,
  C19_rel_used_equals_rows, C19_rel_total_is_used_plus_recycled, C19_rel_table_in_one_list, C19_rel_lists_partition,
  C19_rel_archetype_lists, C19_rel_live_counted_once, C19_rel_dead_counted_zero, C19_live_rows,
  C19_vector_shape, C19_header_meaning, C19_block_meaning, C19_table_counts, C19_block_size_live, C19_rel_sizes_sum, C19_rel_sizes_sum_fold,
  C19_rel_caps_sum, C19_size_le_capacity_block, C19_recycled_meaning, C19_filters_meaning,
  C19_observers_registered, C19_observers_after_every_obs_history, C19_observers_registered_refuted,
  C19_observers_registered_needs_MInv,
  C19_stats_total_readonly, C19_stats_step, C19_shrink_every_clock, C19_shrink_tables_exact, C19_shrink_op,
  C19_rel_used_after_every_history, C19_rel_counted_once_after_every_history, C19_rel_tables_after_every_history,
  C19_rel_sizes_sum_after_every_history, C19_rel_header_after_every_history, C19_rel_block_after_every_history,
  C19_rel_block_size_after_every_history, C19_rel_stats_after_every_history, C19_rel_shrink_after_every_history, C19_rel_no_observers_after_every_history,
  C19_t1_block_after_every_history, C19_t1_tables_after_every_history, C19_t1_used_after_every_history,
  C19_t1_header_after_every_history, C19_rel_stats_vector).
Print Assumptions C19_all.
