(** * C19 — Statistics agree with the world.

    Proved here (relation-free tier, every state satisfying the storage invariant, hence every
    reachable state of the core histories):
    - used entities (pool length - reserved - recycled) = total number of table rows;
    - total = used + recycled;
    - every table's size is at most its capacity (tbl_ok, C11);
    - no two archetypes have the same component set (WF: masks pairwise distinct, component list =
      ascending bits of the mask);
    - the per-archetype sizes sum to at most the number of rows, and to exactly the number of rows
      when every table is listed by its archetype (clause not yet carried by [St]).
    The statistics vector of the model ([stats_vec]) is computed fresh from the state, while the
    implementation updates its object in place between calls: the `stats` correspondence stream
    compares both after Stats calls at random positions (so an incremental-update slip shows as a
    mismatch), and an oracle checks the internal consistency of the implementation's own figures.
    Memory figures (products with type sizes) and the append-growth capacity are not modelled. *)
From Ark Require Import Model.Base Model.Mask Model.Pool Model.Util Model.World Model.Run.
From Ark Require Import Proofs.TableProofs Proofs.WF Proofs.StorageA Proofs.ViewProofs Properties.Common.
From Ark Require Import Proofs.StorageD.

Theorem C19_used_equals_rows : forall s, St s -> pool_len (w_pool s) = total_rows s.
Proof. exact used_equals_rows. Qed.

Theorem C19_total_is_used_plus_recycled : forall s, St s ->
  pool_cap (w_pool s) = pool_len (w_pool s) + pavail (w_pool s).
Proof. exact total_is_used_plus_recycled. Qed.

Theorem C19_size_le_capacity : forall s tid t, WF s -> nth_error (w_tables s) tid = Some t -> t_len t <= t_cap t.
Proof.
  intros s tid t HW Ht. pose proof (wf_tables _ HW) as HF. rewrite Forall_forall in HF.
  destruct (HF t (nth_error_In _ _ Ht)) as [[Hle _] _]. exact Hle.
Qed.

Theorem C19_archetypes_distinct : forall s i j a b, WF s ->
  nth_error (w_archs s) i = Some a -> nth_error (w_archs s) j = Some b -> a_comps a = a_comps b -> i = j.
Proof.
  intros s i j a b HW Ha Hb Hc. apply (wf_arch_unique _ HW i j a b Ha Hb).
  destruct (wf_arch_comps _ HW i a Ha) as (Ca & Ba & _). destruct (wf_arch_comps _ HW j b Hb) as (Cb & Bb & _).
  apply Proofs.MaskProofs.mk_eq_ext. intros k.
  destruct (mk_get (a_mask a) k) eqn:Ea, (mk_get (a_mask b) k) eqn:Eb; try reflexivity; exfalso.
  - assert (In k (a_comps a)) by (rewrite Ca; apply Proofs.MaskProofs.mk_to_list_spec; split; [apply Ba; exact Ea | exact Ea]).
    rewrite Hc, Cb in H. apply Proofs.MaskProofs.mk_to_list_spec in H. destruct H as [_ H]. congruence.
  - assert (In k (a_comps b)) by (rewrite Cb; apply Proofs.MaskProofs.mk_to_list_spec; split; [apply Bb; exact Eb | exact Eb]).
    rewrite <- Hc, Ca in H. apply Proofs.MaskProofs.mk_to_list_spec in H. destruct H as [_ H]. congruence.
Qed.

Theorem C19_archetype_sizes_le_rows : forall s, St s ->
  fold_left (fun acc a => acc + fold_left (fun acc tid => acc + match nth_error (w_tables s) tid with Some t => t_len t | None => 0 end) (a_tables a) 0) (w_archs s) 0
  <= total_rows s.
Proof. exact stats_sizes_le. Qed.

Theorem C19_archetype_sizes_sum_partial : forall s, St s -> v_tables_listed s ->
  fold_left (fun acc a => acc + fold_left (fun acc tid => acc + match nth_error (w_tables s) tid with Some t => t_len t | None => 0 end) (a_tables a) 0) (w_archs s) 0
  = total_rows s.
Proof. exact stats_sizes_sum_partial. Qed.

(** Non-vacuity: the statistics vector of a small world: 2 used, 3 total, 1 recycled, unlocked,
    no filters, no observers, 3 archetypes. *)
Example C19_stats_vector :
  firstn 7 (stats_vec (exec small_cfg [[1; 1; 0]; [1; 2; 0; 1]; [0]; [11; 0]]%Z)) = [2; 3; 1; 0; 0; 0; 3]%Z.
Proof. vm_compute. reflexivity. Qed.

(** Over histories (StorageD.v): the sum of the archetype sizes equals the number of rows (= used
    entities) in every state reachable by the core operations, queries and filter creation: the
    hypothesis [v_tables_listed] of the partial theorem is an invariant. *)
Definition C19_sizes_sum_after_every_history := reachable_sizes_sum.

Definition C19_all := (C19_sizes_sum_after_every_history, C19_used_equals_rows, C19_total_is_used_plus_recycled, C19_size_le_capacity,
  C19_archetypes_distinct, C19_archetype_sizes_le_rows, C19_archetype_sizes_sum_partial).
Print Assumptions C19_all.
