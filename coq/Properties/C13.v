(** * C13 — Concurrent query execution is race-free and exact.  (PARTIAL by nature: see the end)

    In Go every query operation touches its own query object, reads the storage (which cannot change
    while queries are open: the world is locked, C07) and takes or releases a lock bit inside a
    mutex. An execution of several goroutines is therefore an interleaving of ATOMIC query
    operations on distinct query objects. Proved here for ALL interleavings (lists of (query,
    operation) pairs of any length, any number of queries, operations continue after panics):
    - NON-INTERFERENCE ([C13_interleaving_noninterference]): the results each query observes in
      the interleaving (values returned and panics, in order) are exactly those of running that
      query's operations alone from the same state; its final view is the same too;
    - EXACTNESS ([C13_interleaved_iteration_is_the_walk]): a fresh query drained by Next/Entity
      while other queries run yields exactly the rows of the tables its walk selects (the C03
      theorem, composed with non-interference): "every query gets exactly its matching entities";
    - no operation on one query changes anything outside that query object and the lock
      ([C13_frame], [C13_operations_preserve_others]); read-only operations (Entity, Count,
      EntityAt) depend on nothing but the storage and the query object
      ([C13_reads_depend_only_on_view]); the only dependence on the lock is whether the query's
      own bit is set ([C13_depends_only_on_view_and_own_bit]; the variant without that premise is
      refuted, [C13_lock_bit_premise_needed]: an exhausting Next releases the bit);
    - UNLOCKED AT THE END ([C13_all_finished_unlocked]): if every query was closed, is closed by
      the interleaving, or had a Next return false, the world is unlocked afterwards;
    - the side conditions (open queries hold pairwise distinct lock bits, the lock mask is exactly
      the set of bits of open queries, the bit pool is consistent) are an invariant
      ([C13_side_conditions_invariant]) of [init_world], of [query_open] in any order - including
      the failing 65th open - and of every query operation.
    Lock-level facts for every history of lock/unlock steps (mask exact, bits distinct, unlocked
    iff nothing held, at most 64, unbalanced unlock rejected) are C07's theorems (LockProofs).

    What no Gallina model can show: that the Go code really is atomic per operation under the Go
    memory model. That half is decided on the implementation: `go test -race` over goroutines
    creating, iterating, counting and closing queries (shared and separate filters, cached or not,
    per-goroutine relation targets on a shared filter after a Batch, first use after new
    archetypes, 64 simultaneously open queries), compared with the sequential result. The shared
    mutable state outside the query object is the filter's rare-component hint (read and written
    under the filter mutex since fix 1da7615) and the lock (mutex). *)
From Ark Require Import Model.Base Model.Mask Model.Pool Model.Util Model.World Model.Run.
From Ark Require Import Proofs.WF Proofs.StorageA Proofs.Hoare Proofs.QueryProofs Proofs.ConcProofs Properties.Common.

Theorem C13_interleaving_noninterference : forall d tr s qi,
  cc_distinct s ->
  cc_of qi (fst (cc_run d tr s)) = fst (cc_run d (cc_tr_of qi tr) s) /\
  qview qi (snd (cc_run d tr s)) = qview qi (snd (cc_run d (cc_tr_of qi tr) s)).
Proof. exact interleaving_noninterference. Qed.

Theorem C13_interleaved_iteration_is_the_walk : forall d tr s qi q w,
  WF s -> cc_distinct s -> nth_error (w_queries s) qi = Some q ->
  q_arch q = 1 -> q_tab q = 1 -> q_max q = None -> q_index q = 0 -> q_table q = None -> q_tables q = [] ->
  mk_get (lk_mask (w_lock s)) (q_lock q) = true -> query_walk qi s = Ok w s ->
  cc_tr_of qi tr = cc_drain_ops qi (length (walk_rows s w)) ->
  cc_of qi (fst (cc_run d tr s)) = cc_drain_events qi (walk_rows s w).
Proof. exact interleaved_drain_is_walk. Qed.

Theorem C13_frame : forall d tr s,
  query_frame s (snd (cc_run d tr s)) /\ length (w_queries (snd (cc_run d tr s))) = length (w_queries s).
Proof. exact interleaving_frame. Qed.

Theorem C13_operations_preserve_others : forall d qi o s, let s' := state_of (run_qop d qi o s) in
  query_frame s s' /\ length (w_queries s') = length (w_queries s) /\ forall qj, qj <> qi -> qview qj s' = qview qj s.
Proof. exact qop_preserves_others. Qed.

Theorem C13_reads_depend_only_on_view : forall d qi o s1 s2,
  cc_reads o = true -> qview qi s1 = qview qi s2 ->
  cc_obs (run_qop d qi o s1) = cc_obs (run_qop d qi o s2) /\
  state_of (run_qop d qi o s1) = s1 /\ state_of (run_qop d qi o s2) = s2.
Proof. exact qop_read_depends_only_on_view. Qed.

Theorem C13_depends_only_on_view_and_own_bit : forall d qi o s1 s2,
  qview qi s1 = qview qi s2 -> cc_bit qi s1 = cc_bit qi s2 ->
  let r1 := run_qop d qi o s1 in let r2 := run_qop d qi o s2 in
  cc_obs r1 = cc_obs r2 /\
  qview qi (state_of r1) = qview qi (state_of r2) /\ cc_bit qi (state_of r1) = cc_bit qi (state_of r2).
Proof. exact qop_depends_only_on_view_partial. Qed.

Definition C13_lock_bit_premise_needed := qop_depends_only_on_view_refuted.

Theorem C13_all_finished_unlocked : forall d tr s, cc_distinct s -> cc_mask_exact s ->
  (forall k, k < length (w_queries s) ->
     cc_closed_at k s \/ In (k, QClose) tr \/ In (k, QNext, inl [Zb false]) (fst (cc_run d tr s))) ->
  is_locked (snd (cc_run d tr s)) = false.
Proof. exact all_finished_unlocked_trace. Qed.

Theorem C13_side_conditions_invariant :
  (forall c, cc_inv (init_world c)) /\
  (forall fi rels, hoare cc_inv (query_open fi rels) (fun _ => cc_inv) cc_inv) /\
  (forall d qj o s, cc_inv s -> cc_inv (state_of (run_qop d qj o s))) /\
  (forall d tr s, cc_inv s -> cc_inv (snd (cc_run d tr s))) /\
  (forall s, cc_inv s -> cc_distinct s /\ cc_mask_exact s).
Proof.
  split; [exact cc_inv_init|]. split; [exact cc_inv_open|]. split; [exact cc_inv_step|].
  split; [exact cc_inv_run | exact cc_inv_side_conditions].
Qed.

(** Non-vacuity: a reachable world with four open queries (two sharing a filter), a 21-step
    interleaving including calls after Close, per-query results equal to the solo runs, world
    locked before and unlocked after. *)
Definition C13_examples := (cc_w_reachable, cc_w_inv, cc_example_equal, cc_example_by_theorem).

Definition C13_all := (C13_interleaving_noninterference, C13_interleaved_iteration_is_the_walk, C13_frame,
  C13_operations_preserve_others, C13_reads_depend_only_on_view, C13_depends_only_on_view_and_own_bit,
  C13_lock_bit_premise_needed, C13_all_finished_unlocked, C13_side_conditions_invariant, C13_examples).
Print Assumptions C13_all.
