(** * C03 — Queries return exactly the matching entities, once, with their data.

    Proved here:
    - filter matching is set inclusion / disjointness on component sets for all mask bits; an
      exclusive filter matches exactly its own component set;
    - for EVERY world state satisfying the storage invariant and every freshly opened query (typed
      Filter-based with rare-component preselection, cached, or unsafe; any per-query relation
      targets; relation archetypes with several tables included): iterating with Next/Entity until
      Next returns false yields exactly the rows of the tables selected by the query's walk, in walk
      order, each row once, then the query is closed and its lock bit released ([drain_is_walk]);
    - Count is the sum of the walked table lengths and therefore the number of entities visited;
      EntityAt(i) is the i-th visited entity and fails exactly beyond Count;
    - Count, EntityAt, Entity never change the state; Next/Close/Query only change the query
      objects and the lock.
    Together with C01 (rows = live entities with their data; [val] reads the same cell that
    random access reads) this gives: exactly the entities in the selected tables are visited.
    That the walk selects exactly the tables of matching archetypes/targets is the definition of
    the walk (mask match + per-table target match incl. generations: RelProofs).
    - THE RARE-COMPONENT PRESELECTION IS COMPLETE (StorageD.v): in every state in which the component
      index is exact - an invariant of all histories of the core operations, queries and filter
      creation ([C03_preselection_complete_after_every_history]) - a typed query that preselects the
      archetypes of its rarest component walks exactly the same matching archetypes, in the same
      order, as the walk over all archetypes: same walk, same Count, same rows, also when the walk
      panics ([C03_preselection_complete]).
    - END TO END, WORLDS WITH RELATION COMPONENTS (QueryExactIdx.v, QueryExact.v): in every state of a history
      with entity operations, relations, filters, registration and queries (locked states included) the
      relation-tier invariant holds, the component index is exact and the filter cache is linked
      ([C03_index_exact_after_every_history]); and for every filter object and every accepted Query(rels...)
      - typed with rare-component preselection, registered (cached), or unsafe - the visited entities are,
      each once, exactly those characterised ON THE ABSTRACT WORLD ([live], [comps_of], [tgt] with
      generations): [matches_spec] for typed filters ([C03_query_exact_typed_after_every_history]) and
      whenever the relations name relation components of the mask ([C03_query_exact_ok_after_every_history]);
      [qx_model] in general ([C03_query_exact_after_every_history]: an UnsafeFilter query with arbitrary
      relations also lists the entities WITHOUT relation components, and needs a relation component in first
      position - [C03_unsafe_natural_refuted]). Count = the number visited, EntityAt i = the i-th visited,
      the visited list is a permutation of the filtered list of all rows; OQueryAll reports exactly that
      ([C03_query_all_exact]). The same in every state of a history WITH OBSERVERS (QueryExactO.v, class of
      Rel2HistO) and of a history WITH RESETS (QueryExactR.v, class of Rel2HistR): [C03_query_exact_with_observers],
      [C03_query_exact_with_resets]. *)
From Ark Require Import Model.Base Model.Mask Model.Pool Model.Util Model.World Model.Run.
From Ark Require Import Proofs.ObsDoc Proofs.WF Proofs.StorageA Proofs.QueryProofs Proofs.RelProofs Proofs.StorageD Properties.Common.
From Ark Require Proofs.QueryExactIdx Proofs.QueryExact Proofs.QueryExactO Proofs.QueryExactR.
From Ark Require Import Proofs.Rel2Defs Proofs.Rel2Hist Proofs.Rel2HistQ Proofs.Rel2Cache Proofs.QueryExactIdx Proofs.QueryExact.

Theorem C03_filter_matches_sets : forall f m,
  filter_matches f m = true <->
  subset (f_mask f) m /\ (f_haswithout f = true -> disjoint m (f_without f)).
Proof. exact filter_matches_spec. Qed.

Theorem C03_exclusive_exact : forall bits f m,
  f_haswithout f = true -> f_without f = mk_not bits (f_mask f) ->
  (forall j, mk_get m j = true -> j < bits) -> (forall j, mk_get (f_mask f) j = true -> j < bits) ->
  (filter_matches f m = true <-> m = f_mask f).
Proof. exact filter_exclusive_exact. Qed.

Theorem C03_iteration_is_the_walk : forall d qi s q w,
  WF s -> nth_error (w_queries s) qi = Some q ->
  q_arch q = 1 -> q_tab q = 1 -> q_max q = None -> q_index q = 0 -> q_table q = None -> q_tables q = [] ->
  mk_get (lk_mask (w_lock s)) (q_lock q) = true ->
  query_walk qi s = Ok w s ->
  forall fuel, length (walk_rows s w) < fuel ->
  match drain d fuel qi s with
  | Ok es s' => es = walk_rows s w /\ query_frame s s' /\
                (exists q', nth_error (w_queries s') qi = Some q' /\ q_tab q' = 0) /\
                mk_get (lk_mask (w_lock s')) (q_lock q) = false
  | Err _ _ => False
  end.
Proof. exact drain_is_walk. Qed.

Theorem C03_count_is_visited : forall qi s w s',
  query_walk qi s = Ok w s' -> query_count qi s = Ok (fold_left (fun acc p => acc + snd p) w 0) s'.
Proof. exact query_count_is_walk_sum. Qed.

Theorem C03_entity_at : forall qi s w i,
  query_walk qi s = Ok w s ->
  (forall p, In p w -> exists t, nth_error (w_tables s) (fst p) = Some t /\ snd p = t_len t /\ t_len t <= length (t_ents t)) ->
  match query_entity_at qi i s with
  | Ok e s' => s' = s /\ nth_error (walk_rows s w) i = Some e
  | Err _ s' => s' = s /\ length (walk_rows s w) <= i
  end.
Proof. exact query_entity_at_spec. Qed.

Theorem C03_queries_do_not_write : forall d qi s, query_frame s (state_of (query_next d qi s)).
Proof. exact query_next_frame. Qed.

(** Relation targets are compared including the generation: a query naming a stale handle never
    selects the table of a newer incarnation of the same ID. *)
Theorem C03_targets_compare_generations : forall t c i tg1 tg2 rels,
  tbl_colidx t c = Some i -> nth_error (t_targets t) i = Some tg1 -> fst tg1 = fst tg2 -> snd tg1 <> snd tg2 ->
  In (c, tg2) rels -> t_rels t <> [] ->
  tbl_matches t rels <> Some true.
Proof. exact matches_compares_generations. Qed.

(** Non-vacuity: a world with three archetypes; an open query over component 0; draining it. *)
Definition query_world : W :=
  exec small_cfg [[1; 1; 0]; [1; 2; 0; 1]; [1; 1; 1]; [1; 2; 0; 1]; [15; 0; 1; 0; 0; 0; 0]; [19; 0; 0]]%Z.
Example C03_drain_example :
  match drain false 10 0 query_world with Ok es _ => es | Err _ _ => [] end = [(2, 0%N); (3, 0%N); (5, 0%N)].
Proof. vm_compute. reflexivity. Qed.

Definition C03_preselection_complete := preselection_complete.
Definition C03_preselection_complete_after_every_history := reachable_queries_preselection_complete.
Definition C03_preselection_examples := (sd_world_inv5, sd_world_shape, sd_world_preselection).

(** ** Worlds with relation components: the query specification, end to end *)
Definition C03_index_exact_after_every_history := (QueryExactIdx.reachable_inv2QC, QueryExactIdx.reachable_inv2QF).
Definition C03_index_step := (QueryExactIdx.step_inv2QC, QueryExactIdx.step_inv2QF).
Definition C03_model_is_spec := (QueryExact.qx_model_natural, QueryExact.qx_exclusive_exact).
Definition C03_model_is_rows := (QueryExact.qx_model_table, QueryExact.qx_rows_spec, QueryExact.qx_all_rows_spec).
Definition C03_spec_executable := (QueryExact.qx_model_b_spec, QueryExact.matches_spec_b_spec).
Definition C03_query_exact := (QueryExact.qx_query_exact, QueryExact.qx_query_exact_typed, QueryExact.qx_query_exact_ok).
Definition C03_query_exact_after_every_history := QueryExact.reachable_query_exact.
Definition C03_query_exact_typed_after_every_history := QueryExact.reachable_query_exact_typed.
Definition C03_query_exact_ok_after_every_history := QueryExact.reachable_query_exact_ok.
Definition C03_query_all_exact := QueryExact.qx_query_all_exact.
Definition C03_unsafe_natural_refuted := (QueryExact.qx_unsafe_natural_refuted, QueryExact.qx_unsafe_natural_refuted_prop).
Definition C03_query_exact_examples :=
  (QueryExactIdx.qx_script_inv, QueryExactIdx.qx_mid_inv, QueryExact.qx_ex_inv, QueryExact.qx_ex_shape,
   QueryExact.qx_ex_typed_recycled, QueryExact.qx_ex_typed_first, QueryExact.qx_ex_typed_stale_rejected,
   QueryExact.qx_ex_registered, QueryExact.qx_ex_unsafe_model, QueryExact.qx_ex_query_all).

Definition C03_query_exact_with_observers :=
  (QueryExactO.step_inv2OF, QueryExactO.reachable_inv2OF, QueryExactO.reachable_query_exact_O,
   QueryExactO.reachable_query_exact_typed_O, QueryExactO.reachable_query_exact_ok_O, QueryExactO.qxo_script_inv).
Definition C03_query_exact_with_resets :=
  (QueryExactR.qxr_keep_reset, QueryExactR.step_inv2RF, QueryExactR.qxr_run_inv, QueryExactR.reachable_inv2RF,
   QueryExactR.reachable_query_exact_R, QueryExactR.reachable_query_exact_typed_R, QueryExactR.reachable_query_exact_ok_R,
   QueryExactR.qxr_script_inv, QueryExactR.qxr_after_reset).

(** ** Every query the operation language accepts - typed, registered or ID-based - visits exactly the entities that
    match in the NATURAL sense ([matches_spec]: alive, has the required components, none of the excluded ones, and for
    every relation given in the filter or per query the entity's target of that component is exactly the given entity,
    generation included), each once. UnsafeFilter.Query validates its relation arguments since the repair of the
    defect "an ID-based query with a relation on a component outside its filter lists entities that do not have that
    relation" ([C03_unsafe_natural_refuted] shows what [query_open] does with unvalidated lists). *)
Theorem C03_accepted_queries_obey_the_natural_specification :
  forall (d : bool) (s : W) (fi : nat) (f : fobj) (hrels : list hrel) (out : list Z) (s2 : W),
         St2 s ->
         archs_tabled_norel s ->
         r2k_cidx_ok s ->
         qx_FL s ->
         r2q_filters_ok s ->
         nth_error (w_filters s) fi = Some f ->
         step_op d (OQueryAll fi hrels) s = Ok out s2 ->
         exists (rels : list rel) (vis : list ent),
           out = Zn (length vis) :: Zn (length vis) :: flat_map Zent vis /\
           NoDup vis /\ (forall e : ent, In e vis <-> matches_spec s f (f_rels f ++ rels) e).
Proof. exact qx_query_all_natural. Qed.

Theorem C03_unsafe_query_relations_are_validated :
  forall (s : wstate) (fi : nat) (f : fobj) (rels : list rel),
         nth_error (w_filters s) fi = Some f ->
         f_unsafe f = true -> check_unsafe_rels fi rels s = Ok tt s -> r2k_rels_ok s (f_mask f) rels.
Proof. exact qx_check_unsafe_ok. Qed.

Definition C03_all := (C03_accepted_queries_obey_the_natural_specification, C03_unsafe_query_relations_are_validated, C03_preselection_complete, C03_preselection_complete_after_every_history, C03_preselection_examples, C03_filter_matches_sets, C03_exclusive_exact, C03_iteration_is_the_walk, C03_count_is_visited,
  C03_entity_at, C03_queries_do_not_write, C03_targets_compare_generations,
  C03_index_exact_after_every_history, C03_index_step, C03_model_is_spec, C03_model_is_rows, C03_spec_executable,
  C03_query_exact, C03_query_exact_after_every_history, C03_query_exact_typed_after_every_history,
  C03_query_exact_ok_after_every_history, C03_query_all_exact, C03_unsafe_natural_refuted, C03_query_exact_examples,
  C03_query_exact_with_observers, C03_query_exact_with_resets).
Print Assumptions C03_all.
