(** * C12 — Behaviour is deterministic.  (formerly PARTIAL for Shrink budgets other than the two extremes: now covered for every clock, see below)

    What determinism means for the model: the model is a total Gallina FUNCTION of the
    configuration and the operation history ([run_lines], [exec]); it has no access to a clock, to
    addresses or to an unordered collection. So every observable of the model (handles issued,
    iteration order of every query, statistics) is a function of the history by construction, and
    the correspondence streams (which compare handles, query order, statistics and the internal
    dump after every step) tie that function to the code.

    What remains to be shown is that the CODE has no source of variation the model ignores. The
    C12 check re-derives from /repo's current source, on every run, the list of constructs through
    which a Go package can observe something else than its inputs (range over a map, goroutines,
    select, clock, random sources, pointer formatting, environment; tool harness/cmd/srcscan, a
    go/types pass over package ecs in all four build configurations) and requires every entry to
    be justified by a theorem of this file; an entry without justification is a violation (the
    theorem that no longer covers the code is named in the replay). The entries on the pinned tree:
    - archetype.FreeTable ranges over the two lookup maps (relationTables[i], targetTables) to
      delete the freed table's ID from every value: [C12_free_table_map_order] — the model keeps
      these maps as association lists, and FreeTable on two lists with the same key/value content
      (in ANY order, with shadowed duplicates or not) yields lists with the same content; all other
      fields are equal. Lookups by key ([afind]) are the only way the rest of the model reads these
      lists (the dump printers sort by key, as the Go hook does).
    - storage.Shrink reads the clock for its time budget: [C12_shrink_budget_invisible] — for both
      extreme budgets (stop after the first table that shrank / never stop) — and
      [C12_shrink_any_budget_invisible] — for EVERY budget and EVERY clock: the model's loop takes the
      clock as a function [clock : nat -> bool] ("has the budget expired when table idx has just been
      processed"), nothing is assumed about it, and for every such function Shrink changes no
      entity, component, value, handle, query result, only capacities (intermediate budgets stop
      after some prefix of the same table order). What the clock CAN influence is how many tables
      are brought to their target capacity per call, i.e. the reported memory statistics and the
      boolean result, which may legitimately differ between runs: the documented meaning of a
      time-limited Shrink; the result is nevertheless exact for the state reached and the calls
      converge whatever the clocks do (C15, [..._any_budget]). The clock itself is the only thing
      left unmodelled; it is quantified over.
    Handles: the pool is a LIFO free list threaded through the slots, so consecutive creations
    return the same handles in two worlds with the same history (C02/C17 theorems).
    The cross-process half of the property (same binary, two processes; same history in the four
    build configurations) is decided by the `determinism` part of the check: the harness is run
    twice in separate processes and the complete traces must be byte-identical. *)
From Ark Require Import Model.Base Model.Mask Model.Pool Model.Util Model.World Model.Run.
From Ark Require Import Proofs.WF Proofs.StorageA Proofs.RelProofs Proofs.ResetShrinkProofs Properties.Common.
From RecordUpdate Require Import RecordSet.
Import RecordSetNotations.

(** Two association lists with the same content under lookup. *)
Definition lookup_eq (m m' : list (nat * list nat)) : Prop := forall k, afind k m = afind k m'.

Definition arch_lookup_eq (a a' : arch) : Prop :=
  a_mask a = a_mask a' /\ a_comps a = a_comps a' /\ a_isrel a = a_isrel a' /\ a_tables a = a_tables a' /\
  a_free a = a_free a' /\ a_numrel a = a_numrel a' /\ lookup_eq (a_tgttabs a) (a_tgttabs a') /\
  Forall2 lookup_eq (a_reltabs a) (a_reltabs a').

Lemma c12_forall2_map : forall (f : list (nat * list nat) -> list (nat * list nat)) l l',
  (forall m m', lookup_eq m m' -> lookup_eq (f m) (f m')) ->
  Forall2 lookup_eq l l' -> Forall2 lookup_eq (map f l) (map f l').
Proof. intros f l l' Hf H. induction H as [|m m' l l' Hm _ IH]; cbn [map]; constructor; auto. Qed.

Theorem C12_free_table_map_order : forall a a' tid,
  arch_lookup_eq a a' -> arch_lookup_eq (arch_free_table a tid) (arch_free_table a' tid).
Proof.
  intros a a' tid (H1 & H2 & H3 & H4 & H5 & H6 & H7 & H8). unfold arch_free_table. rewrite H6.
  assert (Hm : forall m m', lookup_eq m m' -> lookup_eq (amap_vals (tids_remove tid) m) (amap_vals (tids_remove tid) m')).
  { intros m m' H k. apply free_table_order_independent. exact H. }
  destruct (Nat.leb (a_numrel a') 1); unfold arch_lookup_eq; cbn [a_mask a_comps a_isrel a_tables a_free a_numrel a_tgttabs a_reltabs set];
    cbn; rewrite ?H1, ?H2, ?H3, ?H4, ?H5, ?H6.
  - repeat split; auto.
  - split; [reflexivity|]. split; [reflexivity|]. split; [reflexivity|]. split; [reflexivity|].
    split; [reflexivity|]. split; [reflexivity|]. split.
    + apply (Hm _ _ H7).
    + apply c12_forall2_map; assumption.
Qed.

(** Lookup-equivalence is what a permutation of distinct keys gives. *)
Theorem C12_permutation_is_lookup_eq : forall (m m' : list (nat * list nat)),
  NoDup (map fst m) -> Permutation.Permutation m m' -> lookup_eq m m'.
Proof.
  intros m m' Hnd Hp k.
  assert (Hnd' : NoDup (map fst m')) by (eapply Permutation.Permutation_NoDup; [apply Permutation.Permutation_map; exact Hp | exact Hnd]).
  assert (Hchar : forall (l : list (nat * list nat)), NoDup (map fst l) -> forall v, afind k l = Some v <-> In (k, v) l).
  { induction l as [|[k' v'] l IH]; intros Hl v; cbn [afind].
    - split; [discriminate | intros []].
    - cbn [map fst] in Hl. inversion Hl as [|x xs Hnotin Hl']; subst.
      destruct (Nat.eqb_spec k' k) as [->|Hne].
      + split.
        * intros E; inversion E; subst; left; reflexivity.
        * intros [E|Hin]; [inversion E; reflexivity|].
          exfalso. apply Hnotin. apply (in_map fst) in Hin. exact Hin.
      + rewrite IH by exact Hl'. split; [intros Hin; right; exact Hin|].
        intros [E|Hin]; [inversion E; subst; congruence | exact Hin]. }
  destruct (afind k m) as [v|] eqn:E.
  - apply (Hchar m Hnd) in E. symmetry. apply (Hchar m' Hnd'). eapply Permutation.Permutation_in; eassumption.
  - destruct (afind k m') as [v'|] eqn:E'; [|reflexivity].
    apply (Hchar m' Hnd') in E'. apply Permutation.Permutation_sym in Hp.
    pose proof (Permutation.Permutation_in _ Hp E') as Hin. apply (Hchar m Hnd) in Hin. congruence.
Qed.

(** Shrink with either extreme budget changes no observable content (see C15 for the full
    statement); what the clock can influence is only how much capacity is released per call. *)
Theorem C12_shrink_budget_invisible : forall s stop0, St s -> is_locked s = false ->
  exists b s', w_shrink stop0 s = Ok b s' /\ St s' /\ content_same s s' /\ w_pool s' = w_pool s /\
               w_index s' = w_index s /\ side_same s s' /\ frame_user s s' /\ w_archs s' = w_archs s /\
               length (w_tables s') = length (w_tables s).
Proof. exact shrink_invisible_w. Qed.

(** Every budget, every clock: [w_shrink_timed clock] asks [clock idx] whether the budget has expired when
    table [idx] has just been processed; [w_shrink stop0 = w_shrink_timed (fun _ => stop0)]. Whatever function
    the clock is, the observable content is untouched (non-vacuity: C15_any_budget_example). *)
Theorem C12_shrink_any_budget_invisible : forall s clock, St s -> is_locked s = false ->
  exists b s', w_shrink_timed clock s = Ok b s' /\ St s' /\ content_same s s' /\ w_pool s' = w_pool s /\
               w_index s' = w_index s /\ side_same s s' /\ frame_user s s' /\ w_archs s' = w_archs s /\
               length (w_tables s') = length (w_tables s).
Proof. exact shrink_invisible_clock_w. Qed.

(** Non-vacuity: an archetype with two relation components whose lookup lists are stored in two
    different orders; freeing a table gives lookup-equal results. *)
Definition c12_a : arch :=
  {| a_mask := 3%N; a_comps := [0; 1]; a_isrel := [true; true]; a_tables := [4; 5]; a_free := [];
     a_reltabs := [[(2, [4]); (3, [5])]; [(2, [4; 5])]]; a_tgttabs := [(2, [4; 5]); (3, [5])]; a_numrel := 2 |}.
Definition c12_a' : arch := c12_a <| a_tgttabs := [(3, [5]); (2, [4; 5])] |> <| a_reltabs := [[(3, [5]); (2, [4])]; [(2, [4; 5])]] |>.
Example C12_example : arch_lookup_eq c12_a c12_a' /\ a_tgttabs (arch_free_table c12_a 5) <> a_tgttabs (arch_free_table c12_a' 5).
Proof.
  split.
  - unfold arch_lookup_eq; repeat split; try reflexivity.
    + intros k. cbn. destruct k as [|[|[|[|k]]]]; reflexivity.
    + repeat constructor; intros k; cbn; destruct k as [|[|[|[|k]]]]; reflexivity.
  - vm_compute. discriminate.
Qed.

Definition C12_all := (C12_free_table_map_order, C12_permutation_is_lookup_eq, C12_shrink_budget_invisible,
  C12_shrink_any_budget_invisible).
Print Assumptions C12_all.
