(** * C16 — Reset returns the world to a reusable empty state.

    Proved here (relation-free tier):
    - on a locked world Reset fails without effect;
    - on an unlocked world satisfying the storage invariant and four consistency conditions
      (A: every archetype has its table, B: every non-empty table is listed by an archetype,
      C: every registered filter has its cache entry, D: the observer manager is consistent —
      D holds for every manager state reachable by register/unregister/Reset histories, see
      ObsProofs [MInv]), Reset succeeds and afterwards: no handle is live, the pool consists of
      the two reserved slots, the filter cache is empty and every filter is unregistered, no
      observer is registered for any event type (0..255), the world is unlocked, resources are
      gone, every table is empty, registry and capacities are unchanged, and the storage invariant
      holds again — so every later history behaves as the storage theorems (C01...) say for a world
      with the same component registry.
    - Condition A is necessary: [reset_fails_without_table] shows Reset panics when an archetype
      without table exists. Such a state was reachable (a creation rejected between createArchetype and
      createTable, e.g. a relation named for a non-relation component, left the archetype without
      table; a later Reset then panicked half-way and corrupted the world): a genuine defect, found by
      a proof attempt and REPAIRED in /repo (createArchetype creates the table of an archetype without
      relation components itself). Since the repair conditions A and B hold in every reachable state
      ([archs_tabled_norel]; StorageD [inv4_reset_empty], Rel2Hist [reachable_reset_succeeds]).
    - RELATION WORLDS (Rel2Maint.v), for every unlocked state satisfying St2 in which every
      relation-free archetype has its table: Reset succeeds and yields a world satisfying St2 with no
      live entity, every table empty, every relation table freed, all relation lookups empty, the
      filter cache empty, the pool reset, registry and capacities unchanged ([C16_reset_relation_worlds]).
    Not covered by theorems: (relation-free statement only:) relation archetypes (tables freed, lookups dropped) and the twin-world
    comparison against a fresh world — `reset` correspondence stream: after Reset the complete
    internal dump must equal the model's, and histories continue on the reset world. *)
From Ark Require Import Model.Base Model.Mask Model.Pool Model.Util Model.World Model.Run.
From Ark Require Import Proofs.WF Proofs.StorageA Proofs.ResetShrinkProofs Proofs.ObsSpec Proofs.Rel2Defs Proofs.Rel2Maint Proofs.StorageD Proofs.Rel2Hist Properties.Common.
From Ark Require Proofs.ObsProofs.
From Ark Require Import Proofs.Rel2HistQ.
From Ark Require Import Proofs.ObsErase Proofs.Rel2HistO Proofs.Rel2HistR.

Theorem C16_reset_empty : forall s, St s -> is_locked s = false ->
  (forall aid a, nth_error (w_archs s) aid = Some a -> a_tables a <> []) ->
  (forall tid t, nth_error (w_tables s) tid = Some t -> 0 < t_len t ->
     exists aid a, nth_error (w_archs s) aid = Some a /\ In tid (a_tables a)) ->
  (forall fi f, nth_error (w_filters s) fi = Some f -> f_cache f <> None ->
     exists addr e, In addr (w_centries s) /\ nth_error (w_cheap s) addr = Some e /\ ce_filter e = fi) ->
  (forall evt, (w_ototal s = 0 \/ w_omax s < evt) -> olist s evt = [] \/ has_obs s evt = false) ->
  exists s', w_reset s = Ok tt s' /\ St s' /\ (forall e, live s' e = false) /\
             pe (w_pool s') = [(0, max_u32); (1, max_u32)] /\ pavail (w_pool s') = 0 /\
             w_centries s' = [] /\ (forall f, In f (w_filters s') -> f_cache f = None) /\
             w_ototal s' = 0 /\ (forall evt, olist s' evt = [] \/ has_obs s' evt = false) /\
             is_locked s' = false /\ Forall (fun b => b = false) (w_res s') /\
             w_reg s' = w_reg s /\ w_cfg s' = w_cfg s /\ length (w_archs s') = length (w_archs s) /\
             (forall tid t, nth_error (w_tables s') tid = Some t -> t_len t = 0).
Proof. exact reset_empty_partial. Qed.

Theorem C16_reset_locked_rejected : forall s, is_locked s = true -> w_reset s = Err ELocked s.
Proof. exact reset_locked_rejected. Qed.

Theorem C16_reset_needs_every_archetype_to_have_a_table : forall s aid a, St s -> is_locked s = false ->
  nth_error (w_archs s) aid = Some a -> a_tables a = [] ->
  exists s', w_reset s = Err EIndex s'.
Proof. exact reset_fails_without_table. Qed.

(** Observer part for every manager history (independent of the storage): Reset clears every event
    type including 255. *)
Theorem C16_reset_clears_observers : forall s0 ops evt, obs_init s0 ->
  let s := ostep (fold_left ostep ops s0) OResetObs in
  olist s evt = [] /\ has_obs s evt = false /\ w_ototal s = 0.
Proof. exact Proofs.ObsProofs.reset_clears_all. Qed.

(** Non-vacuity: a world with entities, a registered filter, an observer of event 255 and a recycled
    ID; Reset; the result. *)
Definition busy_world : W :=
  exec small_cfg [[1; 1; 0]; [1; 2; 0; 1]; [11; 0]; [15; 0; 1; 0; 0; 0; 0]; [16; 0];
                  [25; 255; 0; 0; 0; 0; 0]; [26; 0]; [25; 249; 0; 0; 0; 0; 0]; [26; 1]]%Z.
Example C16_reset_example :
  match w_reset busy_world with
  | Ok _ s' => (pool_len (w_pool s'), length (w_centries s'), w_ototal s', olist s' 255, olist s' 249,
                map t_len (w_tables s'), map f_cache (w_filters s'))
  | Err _ _ => (1, 1, 1, [], [], [], [])
  end = (0, 0, 0, [], [], [0; 0; 0], [None]).
Proof. vm_compute. reflexivity. Qed.

Theorem C16_reset_relation_worlds : forall s, St2 s -> is_locked s = false ->
  (forall aid a, nth_error (w_archs s) aid = Some a -> a_numrel a = 0 -> a_tables a <> []) ->
  exists s', w_reset s = Ok tt s' /\ St2 s' /\ r2d_KeysLive s' /\ (forall e, live s' e = false) /\
    pe (w_pool s') = [(0, max_u32); (1, max_u32)] /\ pavail (w_pool s') = 0 /\
    w_centries s' = [] /\ is_locked s' = false /\ w_ototal s' = 0 /\ Forall (fun b => b = false) (w_res s') /\
    w_reg s' = w_reg s /\ w_cfg s' = w_cfg s /\
    length (w_archs s') = length (w_archs s) /\ length (w_tables s') = length (w_tables s) /\
    w_istarget s' = firstn 2 (w_istarget s) /\
    (forall tid t, nth_error (w_tables s') tid = Some t -> t_len t = 0 /\ (t_rels t <> [] -> t_free t = true)) /\
    (forall aid a, nth_error (w_archs s') aid = Some a ->
       a_tgttabs a = [] /\ Forall (fun m : list (nat * list nat) => m = []) (a_reltabs a) /\ (0 < a_numrel a -> a_tables a = [])).
Proof. exact D_reset_spec. Qed.
Definition C16_relation_example := r2d_ex_reset_by_theorem.

(** Reset succeeds in EVERY state of the covered histories, in both tiers: conditions A/B of the
    relation-free statement and hypothesis "(every relation-free archetype has its table)" of the
    relation-world statement are invariants since the repair of createArchetype (7abff66). *)
Definition C16_reset_succeeds_relation_histories := reachable_reset_succeeds.
Definition C16_reset_conditions_AB_are_invariants := inv4_reset_empty.
Definition C16_archetypes_always_have_their_table := (reachable_archs_tabled, reachable_inv2T).


(** ** Over histories with filters, registrations and queries (Rel2HistQ): in every UNLOCKED reachable state Reset
    succeeds and yields an empty, unlocked world satisfying the invariant with the registry kept; in every LOCKED
    reachable state it is rejected without effect. *)
Theorem C16_reset_succeeds_histories_with_queries : forall c lines,
  cfg_ok2 c -> Forall (rel_q_line (sc_kinds c)) lines -> length lines + 4 < Nat.pow 2 31 ->
  is_locked (Properties.Common.exec c lines) = false ->
  exists s', step_op (sc_debug c) OReset (Properties.Common.exec c lines) = Ok [] s' /\ St2 s' /\ r2d_KeysLive s' /\
    is_locked s' = false /\ (forall e, live s' e = false) /\ w_reg s' = w_reg (Properties.Common.exec c lines).
Proof. exact reachable_unlocked_reset_succeeds. Qed.

Theorem C16_reset_rejected_when_locked : forall c lines,
  Forall (rel_q_line (sc_kinds c)) lines -> is_locked (Properties.Common.exec c lines) = true ->
  exists er, step_op (sc_debug c) OReset (Properties.Common.exec c lines) = Err er (Properties.Common.exec c lines).
Proof. exact reachable_locked_reset_rejected. Qed.

(** ** "From then on every history has the same outcome as on a new world", as far as it can be stated on the model
    alone (Rel2HistR): the world after a successful Reset is FRESH ([r2r_fresh]: unlocked, no live entity, pool =
    new pool, no cache entry, every table empty and every relation table free, no lookup entry, the invariant with a
    fresh epoch and a fresh step counter) - and so is the initial world of every configuration; from a fresh world
    every covered history keeps the invariant, all earlier handles being foreign. Reset succeeds in every unlocked
    state of a history that itself contains Resets, and of a history with observers. A bisimulation between the reset
    world and a new world is NOT proved (the reset world keeps empty archetypes / tables, filter and query objects
    and the issued-handle list): that sentence is decided by the reset twin on the implementation. *)
Theorem C16_reset_succeeds_histories_with_observers :
  forall (c : script_cfg) (lines : list (list Z)),
         cfg_ok2 c ->
         Forall (rel_o_line (sc_kinds c)) lines ->
         length lines + 4 < 2 ^ 31 ->
         is_locked (exec c lines) = false ->
         exists s' : W,
           step_op (sc_debug c) OReset (exec c lines) = Ok [] s' /\
           St2 s' /\
           r2d_KeysLive s' /\
           is_locked s' = false /\ (forall e : ent, live s' e = false) /\ w_reg s' = w_reg (exec c lines).
Proof. exact reachable_unlocked_reset_succeeds_O. Qed.

Theorem C16_reset_yields_a_fresh_world :
  forall (debug : bool) (s : W) (n k : nat),
         Inv2R s n k ->
         is_locked s = false ->
         exists s' : W,
           step_op debug OReset s = Ok [] s' /\
           r2r_fresh s' /\
           w_reg s' = w_reg s /\
           w_cfg s' = w_cfg s /\
           w_issued s' = w_issued s /\
           length (w_archs s') = length (w_archs s) /\ length (w_tables s') = length (w_tables s).
Proof. exact r2r_reset_unlocked. Qed.

Theorem C16_new_world_is_fresh :
  forall c : script_cfg, cfg_ok2 c -> r2r_fresh (init_world c).
Proof. exact r2r_fresh_init. Qed.

Theorem C16_every_history_from_a_fresh_world_keeps_the_invariant :
  forall (debug : bool) (lines : list (list Z)) (s : W),
         r2r_fresh s ->
         rel_r_hist debug (w_reg s) (s, length (w_issued s)) lines ->
         length lines + 4 < 2 ^ 31 ->
         Inv2R (fst (r2r_run_from debug (s, length (w_issued s)) lines)) (length lines)
           (snd (r2r_run_from debug (s, length (w_issued s)) lines)).
Proof. exact fresh_start_inv2R. Qed.

Theorem C16_reset_in_every_state_of_a_history_with_resets :
  forall (c : script_cfg) (lines : list (list Z)),
         cfg_ok2 c ->
         rel_r_hist (sc_debug c) (sc_kinds c) (init_world c, 0) lines ->
         length lines + 4 < 2 ^ 31 ->
         let s := exec c lines in
         (is_locked s = false ->
          exists s' : W,
            step_op (sc_debug c) OReset s = Ok [] s' /\
            r2r_fresh s' /\ w_reg s' = w_reg s /\ w_cfg s' = w_cfg s /\ w_issued s' = w_issued s) /\
         (is_locked s = true -> exists er : err, step_op (sc_debug c) OReset s = Err er s).
Proof. exact reachable_reset_R. Qed.

Theorem C16_invariant_after_every_history_with_resets :
  forall (c : script_cfg) (lines : list (list Z)),
         cfg_ok2 c ->
         rel_r_hist (sc_debug c) (sc_kinds c) (init_world c, 0) lines ->
         length lines + 4 < 2 ^ 31 -> Inv2R (exec c lines) (length lines) (r2r_epoch_of c lines).
Proof. exact reachable_inv2R. Qed.

(** ** Second sentence of C16: after Reset every history has the same outcome as on a new world (ResetBisim) *)
From Ark Require Proofs.ResetBisim.

Theorem C16_after_reset_every_core_history_as_on_a_new_world :
  forall debug c s n k os1 os2,
  Inv2R s n k -> is_locked s = false -> cfg_ok2 c -> w_reg s = sc_kinds c ->
  let s' := state_of (step_op debug OReset s) in
  ResetBisim.rb_hist debug s' (init_world c) os1 os2 ->
  ResetBisim.Sim (fst (ResetBisim.rb_run debug s' os1)) (fst (ResetBisim.rb_run debug (init_world c) os2)) /\
  snd (ResetBisim.rb_run debug s' os1) = snd (ResetBisim.rb_run debug (init_world c) os2).
Proof. exact ResetBisim.rb_C16_after_reset_as_new. Qed.

Theorem C16_reset_world_similar_to_new_world :
  forall debug c s n k, Inv2R s n k -> is_locked s = false -> cfg_ok2 c -> w_reg s = sc_kinds c ->
  exists s', step_op debug OReset s = Ok [] s' /\ w_issued s' = w_issued s /\ ResetBisim.Sim s' (init_world c).
Proof. exact ResetBisim.rb_reset_sim_new. Qed.

Definition C16_bisim_step := (ResetBisim.rb_step_strong, ResetBisim.rb_step_sim, ResetBisim.rb_hist_sim, ResetBisim.rb_shift_handle).
Definition C16_bisim_example := (ResetBisim.rb_example_sim, ResetBisim.rb_example_hist, ResetBisim.rb_example_outputs).
Definition C16_stats_not_preserved_refuted := ResetBisim.rb_stats_refuted.

(** ** The bisimulation widened (ResetBisim2): Has / GetRelation / IDs compared, side conditions in the Reset world only,
       filters, registration and complete queries *)
From Ark Require Proofs.ResetBisim2 Proofs.QueryExactR.

Theorem C16_after_reset_every_core_history_as_on_a_new_world_all_results :
  forall debug c s n k os1 os2,
  Inv2R s n k -> is_locked s = false -> cfg_ok2 c -> w_reg s = sc_kinds c ->
  let s' := state_of (step_op debug OReset s) in
  ResetBisim2.rb2_hist debug s' (init_world c) os1 os2 ->
  ResetBisim.Sim (fst (ResetBisim2.rb2_run debug s' os1)) (fst (ResetBisim2.rb2_run debug (init_world c) os2)) /\
  snd (ResetBisim2.rb2_run debug s' os1) = snd (ResetBisim2.rb2_run debug (init_world c) os2).
Proof. exact ResetBisim2.rb2_C16_core. Qed.

Theorem C16_after_reset_histories_with_filters_and_queries_as_on_a_new_world :
  forall debug c s n k os1 os2,
  QueryExactR.Inv2RF s n k -> is_locked s = false -> cfg_ok2 c -> w_reg s = sc_kinds c ->
  let s' := state_of (step_op debug OReset s) in
  let kf := length (w_filters s') in
  ResetBisim2.rb2w_hist debug kf s' (init_world c) os1 os2 ->
  ResetBisim2.Sim2 kf (fst (ResetBisim2.rb2_run debug s' os1)) (fst (ResetBisim2.rb2_run debug (init_world c) os2)) /\
  ResetBisim2.rb2w_outs debug kf s' (init_world c) os1 os2.
Proof. exact ResetBisim2.rb2_C16_wide. Qed.

Theorem C16_reset_world_similar_to_new_world_with_filters :
  forall debug c s n k, QueryExactR.Inv2RF s n k -> is_locked s = false -> cfg_ok2 c -> w_reg s = sc_kinds c ->
  exists s', step_op debug OReset s = Ok [] s' /\ w_issued s' = w_issued s /\
             ResetBisim2.Sim2 (length (w_filters s')) s' (init_world c).
Proof. exact ResetBisim2.rb2_reset_sim2. Qed.

Definition C16_bisim2_step := (ResetBisim2.rb2_step_strong, ResetBisim2.rb2_args_transfer, ResetBisim2.rb2_step_sim, ResetBisim2.rb2_hist_sim,
  ResetBisim2.rb2_comps_eq, ResetBisim2.rb2_matches_eq, ResetBisim2.rb2_query_open_perm, ResetBisim2.rb2_query_count_eq,
  ResetBisim2.rb2_s_OQueryAll, ResetBisim2.rb2_s_OQueryOpen, ResetBisim2.rb2_s_OFilterNew, ResetBisim2.rb2_wide_step, ResetBisim2.rb2w_hist_sim).
Definition C16_bisim2_example := (ResetBisim2.rb2_example_core_hist, ResetBisim2.rb2_example_core_outputs, ResetBisim2.rb2_example_sim2,
  ResetBisim2.rb2_example_hist, ResetBisim2.rb2_example_outputs, ResetBisim2.rb2_malformed_sample).

Definition C16_all := (C16_after_reset_every_core_history_as_on_a_new_world_all_results, C16_after_reset_histories_with_filters_and_queries_as_on_a_new_world, C16_reset_world_similar_to_new_world_with_filters, C16_bisim2_step, C16_bisim2_example, C16_after_reset_every_core_history_as_on_a_new_world, C16_reset_world_similar_to_new_world, C16_bisim_step, C16_bisim_example, C16_stats_not_preserved_refuted, C16_reset_succeeds_histories_with_observers, C16_reset_yields_a_fresh_world, C16_new_world_is_fresh, C16_every_history_from_a_fresh_world_keeps_the_invariant, C16_reset_in_every_state_of_a_history_with_resets, C16_invariant_after_every_history_with_resets, C16_reset_succeeds_histories_with_queries, C16_reset_rejected_when_locked, C16_reset_succeeds_relation_histories, C16_reset_conditions_AB_are_invariants, C16_archetypes_always_have_their_table,
  C16_reset_relation_worlds, C16_relation_example, C16_reset_empty, C16_reset_locked_rejected, C16_reset_needs_every_archetype_to_have_a_table,
  C16_reset_clears_observers).
Print Assumptions C16_all.
