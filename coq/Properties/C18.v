(** * C18 — Type registries are stable and the documented capacity is usable.

    Proved here, for every registration order and count, parametric in the mask width [bits]:
    IDs are sequential, stable and injective; [bits] types can be registered, the next registration
    panics and changes nothing; registering a new type on a locked world panics and consumes no ID
    while known types still resolve; both mask implementations represent exactly the sets of
    component IDs below their width (all four 64-bit words and their boundaries), and the repaired
    mask-to-component-list conversion returns the ascending list of set bits for every registered
    count up to and including 256 (the count at which the unrepaired code indexed out of range);
    resources behave as a map from resource ID to value.
    The use of the highest IDs in entities, filters and queries is exercised on the real code by
    harness/registry (both widths) and the wide-layout correspondence streams. *)
From Ark Require Import Model.Base Model.Mask Model.Registry Proofs.MaskProofs Proofs.RegistryProofs.

Theorem C18_ids_stable : forall bits r tp id later,
  index_of tp r = Some id -> index_of tp (fold_left (reg_step bits) later r) = Some id.
Proof. exact ids_stable. Qed.

Theorem C18_ids_sequential : forall bits r tp,
  ~ In tp r -> length r < bits ->
  reg_component_id bits r tp = Some (length r, true, r ++ [tp]) /\ index_of tp (r ++ [tp]) = Some (length r).
Proof. exact ids_sequential. Qed.

Theorem C18_ids_injective : forall bits tps a b i,
  index_of a (reg_run bits tps) = Some i -> index_of b (reg_run bits tps) = Some i -> a = b.
Proof. exact ids_injective. Qed.

Theorem C18_limit : forall bits r tp,
  length r = bits -> ~ In tp r -> reg_component_id bits r tp = None /\ reg_step bits r tp = r.
Proof. exact limit_reached. Qed.

Theorem C18_capacity_usable : forall bits r tp,
  length r < bits -> ~ In tp r -> exists id r', reg_component_id bits r tp = Some (id, true, r') /\ id < bits.
Proof. exact full_capacity_usable. Qed.

Theorem C18_locked_rollback : forall bits r tp,
  ~ In tp r -> world_component_id bits true r tp = (None, r).
Proof. exact locked_rollback. Qed.

Theorem C18_locked_known_ok : forall bits r tp id,
  index_of tp r = Some id -> world_component_id bits true r tp = (Some id, r).
Proof. exact locked_known_ok. Qed.

(** Masks: every bit position of the 256-bit mask, word boundaries included. *)
Theorem C18_mask256_get : forall b i, m256_ok b -> i < 256 ->
  m256_get b (N.of_nat i) = mk_get (m256_to_N b) i.
Proof. exact m256_get_refines. Qed.

Theorem C18_mask256_set : forall b i, m256_ok b -> i < 256 ->
  m256_ok (m256_set b (N.of_nat i)) /\ m256_to_N (m256_set b (N.of_nat i)) = mk_set (m256_to_N b) i.
Proof. exact m256_set_refines. Qed.

Theorem C18_mask256_clear : forall b i, m256_ok b -> i < 256 ->
  m256_ok (m256_clear b (N.of_nat i)) /\ m256_to_N (m256_clear b (N.of_nat i)) = mk_clear (m256_to_N b) i.
Proof. exact m256_clear_refines. Qed.

Theorem C18_to_types_256 : forall b total, m256_ok b -> total <= 256 ->
  (forall j, mk_get (m256_to_N b) j = true -> j < total) ->
  m256_to_types b total = mk_to_list (m256_to_N b) total.
Proof. exact m256_to_types_spec. Qed.

Theorem C18_to_types_64 : forall b total, word_ok b -> total <= 64 ->
  (forall j, mk_get b j = true -> j < total) ->
  m64_to_types b total = mk_to_list b total.
Proof. exact m64_to_types_spec. Qed.

Theorem C18_to_list_exact : forall m n j, In j (mk_to_list m n) <-> (j < n /\ mk_get m j = true).
Proof. exact mk_to_list_spec. Qed.

Theorem C18_resources_add : forall rs id v, id < length rs ->
  match res_add rs id v with
  | Some rs' => res_abs rs id = None /\ res_abs rs' id = Some v /\ (forall j, j <> id -> res_abs rs' j = res_abs rs j)
  | None => res_abs rs id <> None
  end.
Proof. exact res_add_spec. Qed.

Theorem C18_resources_remove : forall rs id,
  match res_remove rs id with
  | Some rs' => res_abs rs id <> None /\ res_abs rs' id = None /\ (forall j, j <> id -> res_abs rs' j = res_abs rs j)
  | None => res_abs rs id = None
  end.
Proof. exact res_remove_spec. Qed.

Theorem C18_resources_has : forall rs id, res_has rs id = true <-> res_abs rs id <> None.
Proof. exact res_has_spec. Qed.

(** Non-vacuity: the full 256-type registry and a mask using the highest ID of every word. *)
Example C18_full_registry :
  length (reg_run 256 (seq 0 300)) = 256 /\ index_of 255 (reg_run 256 (seq 0 300)) = Some 255 /\
  reg_component_id 256 (reg_run 256 (seq 0 300)) 1000 = None.
Proof. vm_compute. repeat split; reflexivity. Qed.
Example C18_to_types_full :
  let b := m256_set (m256_set (m256_set (m256_set (m256_set m256_zero 0) 63) 64) 191) 255 in
  m256_to_types b 256 = [0; 63; 64; 191; 255].
Proof. vm_compute. reflexivity. Qed.

(** One traversal of the dependency graph for all theorems of this file. *)
Definition C18_all := (C18_ids_stable, C18_ids_sequential, C18_ids_injective, C18_limit, C18_locked_rollback, C18_mask256_get, C18_mask256_set, C18_to_types_256, C18_to_types_64, C18_resources_add, C18_resources_remove).
Print Assumptions C18_all.
