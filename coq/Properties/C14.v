(** * C14 — The typed generic API and the ID-based API are equivalent at every arity.

    The generated API (Map1..12, Filter0..8/Query0..8, Exchange1..8, Observer1..4 in *_gen.go) is
    the ID-based machinery plus WIRING: which type parameter each lettered field, local, type
    argument and literal index refers to. This property is decided by a TRANSLATOR, re-run on
    /repo's current source by every check:
    - harness/cmd/wiring parses every *_gen.go file with go/ast and emits one [wunit] per lettered
      assignment, multi-valued return / composite literal, and call with several lettered arguments
      (695 units from 527 generic functions on the pinned tree) as Coq data (WiringData.v);
    - Properties/C14Generated.v (compiled against that data in the same run) proves
      [forallb unit_ok extracted_units = true] by computation: no assignment mixes two parameters
      (columnPtrF / itemSizeF / storageF are only ever fed from component F = components[5] =
      ids[5]), and every return / element list hands its lettered pieces out in parameter order;
    - the theorems below say what that buys: an accessor whose lettered elements are strictly
      ascending, one per parameter, IS the ID-based accessor applied to ids[0], ids[1], ... position
      by position ([C14_consistent_wiring_is_id_based]); an assignment that passes the check never
      mixes two parameters ([C14_assign_same_parameter]).
    Not covered by the translator (it sees wiring, not the shared non-lettered logic, which is the
    same code path as the ID-based API modelled in World.v): behaviour of the typed wrappers around
    the wiring (relation index resolution, batch callbacks). Those are exercised by the generated
    twin-world tests (harness/typed, every arity, types of pairwise different sizes) and by the
    `batch` correspondence stream, whose operations run through Map1..3 / Exchange1..2 / Map[T]. *)
From Coq Require Import List Arith Bool.
Import ListNotations.
From Ark Require Import Model.Wiring Proofs.WiringProofs.

Theorem C14_identity_wiring : forall V (get : nat -> V) ids,
  typed_get get ids (seq 0 (length ids)) = id_get get ids.
Proof. exact typed_get_identity. Qed.

Theorem C14_consistent_wiring_is_id_based : forall V (get : nat -> V) ids w,
  sascending None w = true -> length w = length ids -> (forall t, In t w -> t < length ids) ->
  typed_get get ids w = id_get get ids.
Proof. exact consistent_wiring_is_id_based. Qed.

Theorem C14_checker_is_sascending : forall w p, ascending p (map (fun t => [t]) w) = sascending p w.
Proof. exact ascending_singletons. Qed.

Theorem C14_assign_same_parameter : forall line k elems,
  unit_ok (mk_wunit WAssign line [k] elems) = true -> forall e t, In e elems -> In t e -> t = k.
Proof. exact assign_ok_same_parameter. Qed.

(** Non-vacuity and sensitivity: the units of Query3.setTable / Query3.Get pass; the seeded
    mis-wiring (itemSizeC fed from columnB) and a swapped return list fail. *)
Example C14_units_example :
  forallb unit_ok [mk_wunit WAssign 10 [2] [[2]]; mk_wunit WList 20 [] [[0]; [1]; [2]];
                   mk_wunit WArgs 30 [] [[1]; [1]]; mk_wunit WArgs 31 [] [[]; [0]; [1]]] = true /\
  unit_ok (mk_wunit WAssign 11 [2] [[1]]) = false /\
  unit_ok (mk_wunit WList 21 [] [[0]; [2]; [1]]) = false /\
  unit_ok (mk_wunit WList 22 [] [[0]; [0]; [2]]) = false.
Proof. vm_compute. repeat split. Qed.

Example C14_swapped_wiring_differs :
  typed_get (fun c => c * 10) [4; 7; 9] [0; 2; 1] <> id_get (fun c => c * 10) [4; 7; 9].
Proof. vm_compute. discriminate. Qed.

Definition C14_all := (C14_identity_wiring, C14_consistent_wiring_is_id_based, C14_checker_is_sascending, C14_assign_same_parameter).
Print Assumptions C14_all.
