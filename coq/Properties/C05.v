(** * C05 — Registered (cached) filters are indistinguishable from unregistered ones.

    Proved here (relation-free tier for the invariant; the maintenance steps in general):
    - registration fills the cache entry with exactly the table list an unregistered filter walks
      at that moment;
    - the maintenance step on table creation appends the new table to exactly the entries whose
      filter matches its archetype (entries are distinct: NoDup of the entry list is required, and
      shown necessary by a refutation without it), and leaves every other entry alone;
    - creating structure (get-or-create of a table, the only way tables appear in relation-free
      worlds) preserves the invariant "every registered entry lists exactly the tables the
      unregistered walk selects" (tolerant form that survives the window between the creation of an
      archetype record and of its table inside createArchetype), hence a cached and an uncached query walk the same set of tables;
    - unregistering removes exactly that entry, leaves the heap object intact (open queries of that
      filter keep iterating their own entry: the repaired pointer semantics) and marks the filter
      unregistered.
    - OVER HISTORIES (StorageD.v, relation-free tier): for every history of the core operations,
      queries, filter creation, registration and unregistration the cache is exact in every
      reachable state ([C05_cache_exact_after_every_history]);
    - WORLDS WITH RELATION COMPONENTS (Rel2Cache.v), for EVERY state satisfying the relation-tier
      invariant St2 (freed and recycled tables, targets that died, included): a registered filter
      and an identical unregistered one, with the same fixed relation targets and any extra targets
      passed per query, select the same tables (the cached walk skips empty tables, the uncached one
      lists them), have the same Count, yield the same entities by iteration (as a multiset) and
      by EntityAt (same set; indices may differ because the table order differs), and the same
      batch selection ([C05_rel_*]). Hypotheses beyond St2: the component index is exact (an
      invariant: StorageD / Rel2Cache [r2k_cidx_*]), every relation-free archetype matching the
      filter has its table (an invariant since the repair of createArchetype: [archs_tabled_norel];
      shown necessary on the unrepaired model), and the fixed relations name relation components
      (guaranteed by the Go API; refuted without it on a model-only script).
    Not covered by theorems: preservation of St2 by registration/unregistration in relation worlds
    and by the batch operations (see C04) — `cache` correspondence stream, which compares every cache
    entry's table list with the model after every step and runs registered and unregistered twins
    through the same queries; the invariant (incl. its cache clause) is executed on every stream state. *)
From Ark Require Import Model.Base Model.Mask Model.Pool Model.Util Model.World Model.Run.
From Ark Require Import Proofs.WF Proofs.StorageA Proofs.CacheProofs Proofs.StorageC Proofs.StorageD Proofs.Rel2Defs Proofs.Rel2Cache Properties.Common.
From Ark Require Import Proofs.Rel2Hist Proofs.Rel2HistQ.

Theorem C05_register_fills_exact : forall s fi f, St s -> nth_error (w_filters s) fi = Some f -> f_cache f = None ->
  match filter_register fi s with
  | Ok _ s' =>
      exists addr e tabs, w_centries s' = w_centries s ++ [addr] /\ nth_error (w_cheap s') addr = Some e /\
        ce_filter e = fi /\ ce_rels e = f_rels f /\ ce_tables e = tabs /\
        uncached_tables f (f_rels f) s = Ok tabs s /\ w_tables s' = w_tables s /\ w_archs s' = w_archs s
  | Err _ s' => True
  end.
Proof. exact register_fills_exact. Qed.

Theorem C05_table_creation_step_exact : forall s tid t am, St s -> nth_error (w_tables s) tid = Some t -> t_rels t = [] ->
  NoDup (w_centries s) ->
  exists s', cache_add_table tid t am s = Ok tt s' /\
    w_centries s' = w_centries s /\ length (w_cheap s') = length (w_cheap s) /\
    (forall addr e, nth_error (w_cheap s) addr = Some e ->
       exists e', nth_error (w_cheap s') addr = Some e' /\ ce_id e' = ce_id e /\ ce_filter e' = ce_filter e /\ ce_rels e' = ce_rels e /\
         ce_tables e' = if (memb addr (w_centries s) &&
                            match nth_error (w_filters s) (ce_filter e) with Some f => filter_matches f am | None => false end)%bool
                        then ce_tables e ++ [tid] else ce_tables e).
Proof. exact cache_add_table_exact_partial. Qed.

Theorem C05_cache_invariant_preserved_by_table_creation : forall s aid a,
  St s -> k_cache_exact_tol s -> nth_error (w_archs s) aid = Some a -> NoDup (w_centries s) ->
  match get_or_create_table aid [] s with
  | Ok _ s' => k_cache_exact_tol s'
  | Err _ s' => True
  end.
Proof. exact k_get_or_create_table_cache_exact_tol. Qed.

Theorem C05_tolerant_invariant_is_exact : forall s, NoRel s ->
  (forall aid a, nth_error (w_archs s) aid = Some a -> a_tables a <> []) ->
  k_cache_exact_tol s -> cache_exact s.
Proof. exact k_cache_exact_tol_exact. Qed.

Theorem C05_cached_and_uncached_walk_same_tables : forall s fi f cid addr e,
  St s -> cache_exact s -> nth_error (w_filters s) fi = Some f -> f_cache f = Some cid ->
  entry_addr s cid = Some addr -> nth_error (w_cheap s) addr = Some e -> ce_filter e = fi ->
  In addr (w_centries s) ->
  exists l, uncached_tables f (ce_rels e) s = Ok l s /\ (forall t, In t l <-> In t (ce_tables e)).
Proof. exact cached_walk_same_tables. Qed.

Theorem C05_unregister_exact : forall s fi f cid, nth_error (w_filters s) fi = Some f -> f_cache f = Some cid ->
  match filter_unregister fi s with
  | Ok _ s' =>
      w_cheap s' = w_cheap s /\ (forall f', nth_error (w_filters s') fi = Some f' -> f_cache f' = None) /\
      (forall addr, In addr (w_centries s') -> In addr (w_centries s)) /\
      length (w_centries s') = length (w_centries s) - 1
  | Err _ s' => s' = s
  end.
Proof. exact unregister_exact. Qed.

(** Non-vacuity: a world with a registered filter whose entry lists two tables created after
    registration and one before. *)
Definition cache_world : W :=
  exec small_cfg [[1; 1; 0]; [15; 0; 1; 0; 0; 0; 0]; [16; 0]; [1; 2; 0; 1]; [1; 2; 0; 2]; [1; 1; 1]]%Z.
Example C05_cache_world : map ce_tables (w_cheap cache_world) = [[1; 2; 3]].
Proof. vm_compute. reflexivity. Qed.

(** Over histories (relation-free tier) and for every St2 state (relation worlds): statements in
    StorageD.v / Rel2Cache.v. *)
Definition C05_cache_exact_after_every_history := reachable_cache_exact.
Definition C05_rel_cached_tables_exact := r2k_cached_tables_exact.
Definition C05_rel_batch_selection_same := r2k_batch_selection_same.
Definition C05_rel_count_same := r2k_count_same.
Definition C05_rel_entities_same := r2k_entities_same.
Definition C05_rel_iteration_same := r2k_iteration_same.
Definition C05_rel_entity_at_same := r2k_entity_at_same.
Definition C05_rel_only_difference_is_a_missing_table := r2k_count_same_gen.
Theorem C05_rel_tabled_is_an_invariant : forall s f, archs_tabled_norel s -> r2k_tabled s f.
Proof. intros s f H aid a Ha _ Hn. exact (H aid a Ha Hn). Qed.
Definition C05_rel_examples := (r2k_ex_values, r2k_ex_shapes, r2k_ex_apply, r2k_fuzz_1, r2k_untabled_refutes, r2k_nonrel_refutes).


(** ** The hypotheses of the cached = uncached theorems hold in every reachable state (Rel2HistQ): after every
    history of the class with filters, Register / Unregister, queries, table creation, freeing (Shrink, target
    removal) and recycling, the invariant St2 - which contains the exactness of every cache entry, [CacheInv] -
    holds, and every filter object satisfies the side conditions of [C05_rel_cached_tables_exact]. *)
Theorem C05_rel_cache_exact_after_every_history : forall c lines,
  cfg_ok2 c -> Forall (rel_q_line (sc_kinds c)) lines -> length lines + 4 < Nat.pow 2 31 ->
  St2 (Properties.Common.exec c lines) /\ CacheInv (Properties.Common.exec c lines).
Proof.
  intros c lines Hc Hl Hb. destruct (reachable_inv2Q c lines Hc Hl Hb) as (HS & _).
  split; [exact HS|exact (proj2 (proj2 HS))].
Qed.

Theorem C05_rel_filters_ok_after_every_history : forall c lines fi f,
  cfg_ok2 c -> Forall (rel_q_line (sc_kinds c)) lines -> length lines + 4 < Nat.pow 2 31 ->
  nth_error (w_filters (Properties.Common.exec c lines)) fi = Some f ->
  r2k_rels_ok (Properties.Common.exec c lines) (f_mask f) (f_rels f) /\ r2k_tabled (Properties.Common.exec c lines) f.
Proof. exact reachable_filters_ok. Qed.

Definition C05_all := (C05_rel_cache_exact_after_every_history, C05_rel_filters_ok_after_every_history, C05_cache_exact_after_every_history, C05_rel_cached_tables_exact, C05_rel_batch_selection_same, C05_rel_count_same,
  C05_rel_entities_same, C05_rel_iteration_same, C05_rel_entity_at_same, C05_rel_only_difference_is_a_missing_table,
  C05_rel_tabled_is_an_invariant, C05_rel_examples,
  C05_register_fills_exact, C05_table_creation_step_exact, C05_cache_invariant_preserved_by_table_creation,
  C05_tolerant_invariant_is_exact, C05_cached_and_uncached_walk_same_tables, C05_unregister_exact).
Print Assumptions C05_all.
