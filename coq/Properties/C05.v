(** * C05 — Registered (cached) filters are indistinguishable from unregistered ones.

    Proved here (relation-free tier for the invariant; the maintenance steps in general):
    - registration fills the cache entry with exactly the table list an unregistered filter walks
      at that moment;
    - the maintenance step on table creation appends the new table to exactly the entries whose
      filter matches its archetype (entries are distinct: NoDup of the entry list is required, and
      shown necessary by a refutation without it), and leaves every other entry alone;
    - creating structure (get-or-create of a table, the only way tables appear in relation-free
      worlds) preserves the invariant "every registered entry lists exactly the tables the
      unregistered walk selects" (tolerant form that survives the window between createArchetype and
      createTable), hence a cached and an uncached query walk the same set of tables;
    - unregistering removes exactly that entry, leaves the heap object intact (open queries of that
      filter keep iterating their own entry: the repaired pointer semantics) and marks the filter
      unregistered.
    Not covered by theorems: relation tables (freeing / recycling / per-query targets), Reset,
    Shrink — `cache` correspondence stream, which compares every cache entry's table list with the
    model after every step, and runs registered and unregistered twins through the same queries. *)
From Ark Require Import Model.Base Model.Mask Model.Pool Model.Util Model.World Model.Run.
From Ark Require Import Proofs.WF Proofs.StorageA Proofs.CacheProofs Properties.Common.

Theorem C05_register_fills_exact : forall s fi f, St s -> nth_error (w_filters s) fi = Some f -> f_cache f = None ->
  match filter_register fi s with
  | Ok _ s' =>
      exists addr e tabs, w_centries s' = w_centries s ++ [addr] /\ nth_error (w_cheap s') addr = Some e /\
        ce_filter e = fi /\ ce_rels e = f_rels f /\ ce_tables e = tabs /\
        uncached_tables f (f_rels f) s = Ok tabs s /\ w_tables s' = w_tables s /\ w_archs s' = w_archs s
  | Err _ s' => True
  end.
Proof. exact register_fills_exact. Qed.

Theorem C05_table_creation_step_exact : forall s tid t am, St s -> nth_error (w_tables s) tid = Some t -> t_rels t = [] ->
  NoDup (w_centries s) ->
  exists s', cache_add_table tid t am s = Ok tt s' /\
    w_centries s' = w_centries s /\ length (w_cheap s') = length (w_cheap s) /\
    (forall addr e, nth_error (w_cheap s) addr = Some e ->
       exists e', nth_error (w_cheap s') addr = Some e' /\ ce_id e' = ce_id e /\ ce_filter e' = ce_filter e /\ ce_rels e' = ce_rels e /\
         ce_tables e' = if (memb addr (w_centries s) &&
                            match nth_error (w_filters s) (ce_filter e) with Some f => filter_matches f am | None => false end)%bool
                        then ce_tables e ++ [tid] else ce_tables e).
Proof. exact cache_add_table_exact_partial. Qed.

Theorem C05_cache_invariant_preserved_by_table_creation : forall s aid a,
  St s -> k_cache_exact_tol s -> nth_error (w_archs s) aid = Some a -> NoDup (w_centries s) ->
  match get_or_create_table aid [] s with
  | Ok _ s' => k_cache_exact_tol s'
  | Err _ s' => True
  end.
Proof. exact k_get_or_create_table_cache_exact_tol. Qed.

Theorem C05_tolerant_invariant_is_exact : forall s, NoRel s ->
  (forall aid a, nth_error (w_archs s) aid = Some a -> a_tables a <> []) ->
  k_cache_exact_tol s -> cache_exact s.
Proof. exact k_cache_exact_tol_exact. Qed.

Theorem C05_cached_and_uncached_walk_same_tables : forall s fi f cid addr e,
  St s -> cache_exact s -> nth_error (w_filters s) fi = Some f -> f_cache f = Some cid ->
  entry_addr s cid = Some addr -> nth_error (w_cheap s) addr = Some e -> ce_filter e = fi ->
  In addr (w_centries s) ->
  exists l, uncached_tables f (ce_rels e) s = Ok l s /\ (forall t, In t l <-> In t (ce_tables e)).
Proof. exact cached_walk_same_tables. Qed.

Theorem C05_unregister_exact : forall s fi f cid, nth_error (w_filters s) fi = Some f -> f_cache f = Some cid ->
  match filter_unregister fi s with
  | Ok _ s' =>
      w_cheap s' = w_cheap s /\ (forall f', nth_error (w_filters s') fi = Some f' -> f_cache f' = None) /\
      (forall addr, In addr (w_centries s') -> In addr (w_centries s)) /\
      length (w_centries s') = length (w_centries s) - 1
  | Err _ s' => s' = s
  end.
Proof. exact unregister_exact. Qed.

(** Non-vacuity: a world with a registered filter whose entry lists two tables created after
    registration and one before. *)
Definition cache_world : W :=
  exec small_cfg [[1; 1; 0]; [15; 0; 1; 0; 0; 0; 0]; [16; 0]; [1; 2; 0; 1]; [1; 2; 0; 2]; [1; 1; 1]]%Z.
Example C05_cache_world : map ce_tables (w_cheap cache_world) = [[1; 2; 3]].
Proof. vm_compute. reflexivity. Qed.

Definition C05_all := (C05_register_fills_exact, C05_table_creation_step_exact, C05_cache_invariant_preserved_by_table_creation,
  C05_tolerant_invariant_is_exact, C05_cached_and_uncached_walk_same_tables, C05_unregister_exact).
Print Assumptions C05_all.
