(** * C07 — World lock discipline.

    Proved here, for ALL histories:
    - lock bits (lock.go / bitPool): the lock mask holds exactly the bits handed out and not yet
      returned; Lock returns a bit that is not held, and fails exactly when all 64 are held;
      Unlock of a bit that is not held is rejected and changes nothing; the world is locked iff
      at least one bit is held (so it is unlocked exactly when the last holder released) — for every
      interleaving of lock/unlock and every recycle order of bits;
    - world level: on a locked world every structural operation of every API path fails and
      leaves the entire state unchanged; pure reads never change the state.
    Not proved (covered by the correspondence stream `lock` only): that every query holds exactly
    one bit from creation until exhaustion/Close (the cursor automaton), and that the internal
    lock/unlock pairs around callbacks are balanced on every path. *)
From Ark Require Import Model.Base Model.Mask Model.Pool Model.World Model.Run.
From Ark Require Import Proofs.LockSpec Proofs.LockProofs Proofs.LockWorld Properties.Common.

Theorem C07_mask_exact :
  forall ops b, let g := lrun ops in mk_get (lk_mask (lg_lock g)) b = true <-> In b (lg_held g).
Proof. exact lock_mask_exact. Qed.

Theorem C07_held_distinct_below_64 :
  forall ops, let g := lrun ops in NoDup (lg_held g) /\ (forall b, In b (lg_held g) -> b < 64).
Proof. exact lock_held_nodup. Qed.

Theorem C07_locked_iff_held :
  forall ops, let g := lrun ops in lock_is_locked (lg_lock g) = true <-> lg_held g <> [].
Proof. exact lock_is_locked_iff. Qed.

Theorem C07_lock_fresh_or_exhausted :
  forall ops, let g := lrun ops in
  match lock_lock (lg_lock g) with
  | Some (b, _) => ~ In b (lg_held g) /\ b < 64 /\ length (lg_held g) < 64
  | None => length (lg_held g) = 64
  end.
Proof. exact lock_lock_fresh. Qed.

Theorem C07_unlock_balanced :
  forall ops b, let g := lrun ops in
  (In b (lg_held g) -> lock_unlock (lg_lock g) b <> None) /\
  (~ In b (lg_held g) -> lock_unlock (lg_lock g) b = None).
Proof. exact lock_unlock_balanced. Qed.

Theorem C07_structural_blocked :
  forall debug o s, structural o = true -> is_locked s = true ->
  exists e, step_op debug o s = Err e s.
Proof. exact structural_blocked. Qed.

Theorem C07_reads_do_not_change_state :
  forall debug o s, reading o = true -> state_of (step_op debug o s) = s.
Proof. exact reads_do_not_change_state. Qed.

(** Non-vacuity: a reachable locked state (one entity, a filter, an open query), on which creating
    an entity is rejected; and a lock history with two bits held and one recycled. *)
Definition locked_state : W := exec small_cfg [[1; 1; 0]; [15; 0; 1; 0; 0; 0; 0]; [19; 0; 0]]%Z.
Example C07_locked_state_is_locked : is_locked locked_state = true /\ structural ONewEntity = true.
Proof. vm_compute. split; reflexivity. Qed.
Example C07_lock_history :
  lg_held (lrun [LLock; LLock; LLock; LUnlock 1; LLock; LUnlock 5]) = [1; 2; 0] /\
  lg_errs (lrun [LLock; LLock; LLock; LUnlock 1; LLock; LUnlock 5]) = 1.
Proof. vm_compute. split; reflexivity. Qed.

(** One traversal of the dependency graph for all theorems of this file. *)
Definition C07_all := (C07_mask_exact, C07_held_distinct_below_64, C07_locked_iff_held, C07_lock_fresh_or_exhausted, C07_unlock_balanced, C07_structural_blocked, C07_reads_do_not_change_state).
Print Assumptions C07_all.
