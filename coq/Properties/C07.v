(** * C07 — World lock discipline.

    Proved here, for ALL histories:
    - lock bits (lock.go / bitPool): the lock mask holds exactly the bits handed out and not yet
      returned; Lock returns a bit that is not held, and fails exactly when all 64 are held;
      Unlock of a bit that is not held is rejected and changes nothing; the world is locked iff
      at least one bit is held (so it is unlocked exactly when the last holder released) — for every
      interleaving of lock/unlock and every recycle order of bits;
    - world level: on a locked world every structural operation of every API path fails and
      leaves the entire state unchanged; pure reads never change the state.
    Not proved (covered by the correspondence stream `lock` only): that every query holds exactly
    one bit from creation until exhaustion/Close (the cursor automaton), and that the internal
    lock/unlock pairs around callbacks are balanced on every path. *)
From Ark Require Import Model.Base Model.Mask Model.Pool Model.World Model.Run.
From Ark Require Import Proofs.LockSpec Proofs.LockProofs Proofs.LockWorld Properties.Common.
From Ark Require Import Model.Util Proofs.Rel2Defs Proofs.Rel2Hist Proofs.Rel2HistQ Proofs.Rel2HistQL.
From Ark Require Import Proofs.ObsErase Proofs.Rel2HistO.
From Ark Require Import Proofs.ObsLockInv Proofs.Rel2HistOL.

Theorem C07_mask_exact :
  forall ops b, let g := lrun ops in mk_get (lk_mask (lg_lock g)) b = true <-> In b (lg_held g).
Proof. exact lock_mask_exact. Qed.

Theorem C07_held_distinct_below_64 :
  forall ops, let g := lrun ops in NoDup (lg_held g) /\ (forall b, In b (lg_held g) -> b < 64).
Proof. exact lock_held_nodup. Qed.

Theorem C07_locked_iff_held :
  forall ops, let g := lrun ops in lock_is_locked (lg_lock g) = true <-> lg_held g <> [].
Proof. exact lock_is_locked_iff. Qed.

Theorem C07_lock_fresh_or_exhausted :
  forall ops, let g := lrun ops in
  match lock_lock (lg_lock g) with
  | Some (b, _) => ~ In b (lg_held g) /\ b < 64 /\ length (lg_held g) < 64
  | None => length (lg_held g) = 64
  end.
Proof. exact lock_lock_fresh. Qed.

Theorem C07_unlock_balanced :
  forall ops b, let g := lrun ops in
  (In b (lg_held g) -> lock_unlock (lg_lock g) b <> None) /\
  (~ In b (lg_held g) -> lock_unlock (lg_lock g) b = None).
Proof. exact lock_unlock_balanced. Qed.

Theorem C07_structural_blocked :
  forall debug o s, structural o = true -> is_locked s = true ->
  exists e, step_op debug o s = Err e s.
Proof. exact structural_blocked. Qed.

Theorem C07_reads_do_not_change_state :
  forall debug o s, reading o = true -> state_of (step_op debug o s) = s.
Proof. exact reads_do_not_change_state. Qed.

(** Non-vacuity: a reachable locked state (one entity, a filter, an open query), on which creating
    an entity is rejected; and a lock history with two bits held and one recycled. *)
Definition locked_state : W := exec small_cfg [[1; 1; 0]; [15; 0; 1; 0; 0; 0; 0]; [19; 0; 0]]%Z.
Example C07_locked_state_is_locked : is_locked locked_state = true /\ structural ONewEntity = true.
Proof. vm_compute. split; reflexivity. Qed.
Example C07_lock_history :
  lg_held (lrun [LLock; LLock; LLock; LUnlock 1; LLock; LUnlock 5]) = [1; 2; 0] /\
  lg_errs (lrun [LLock; LLock; LLock; LUnlock 1; LLock; LUnlock 5]) = 1.
Proof. vm_compute. split; reflexivity. Qed.

(** One traversal of the dependency graph for all theorems of this file. *)

(** ** World level, over HISTORIES (Rel2HistQ / Rel2HistQL): every state reachable from a new world - relation
    components included - by a history of the single-entity operations, Shrink, reads, filter creation,
    Register / Unregister and the query operations (open, Next, Close, Count, EntityAt, Entity, iterate-all),
    with ARBITRARY arguments (unknown or closed queries, malformed relation lists, stale handles), states at
    recovered panics included. [rel_q_line] is the syntactic class of script lines; its only semantic side
    conditions are that added component ids are registered and that the relations fixed in an UnsafeFilter
    name relation components of the filter (shown necessary: [r2q_register_unsafe_refuted_*]). *)

(** The world is locked exactly when some query is open (created, not yet exhausted or closed). *)
Theorem C07_locked_iff_some_query_open : forall c lines,
  cfg_ok2 c -> Forall (rel_q_line (sc_kinds c)) lines -> length lines + 4 < Nat.pow 2 31 ->
  let s := Properties.Common.exec c lines in
  is_locked s = true <-> exists qi q, nth_error (w_queries s) qi = Some q /\ 1 <= q_tab q.
Proof. exact reachable_locked_iff_open. Qed.

(** Every open query holds its own lock bit: the bit is set, no two open queries share one, and every set
    bit belongs to an open query (no leaked bit, no double release, whatever the recycle order). *)
Theorem C07_open_queries_hold_distinct_bits : forall c lines,
  cfg_ok2 c -> Forall (rel_q_line (sc_kinds c)) lines -> length lines + 4 < Nat.pow 2 31 ->
  let s := Properties.Common.exec c lines in
  (forall qi q, nth_error (w_queries s) qi = Some q -> 1 <= q_tab q -> mk_get (lk_mask (w_lock s)) (q_lock q) = true) /\
  (forall qi qj q q', nth_error (w_queries s) qi = Some q -> nth_error (w_queries s) qj = Some q' ->
     1 <= q_tab q -> 1 <= q_tab q' -> q_lock q = q_lock q' -> qi = qj) /\
  (forall b, mk_get (lk_mask (w_lock s)) b = true ->
     exists qi q, nth_error (w_queries s) qi = Some q /\ 1 <= q_tab q /\ q_lock q = b).
Proof. exact reachable_open_bits. Qed.

(** Closing any query object - open, exhausted or already closed - succeeds (closing again is harmless). *)
Theorem C07_close_always_succeeds : forall c lines qi q,
  cfg_ok2 c -> Forall (rel_q_line (sc_kinds c)) lines -> length lines + 4 < Nat.pow 2 31 ->
  nth_error (w_queries (Properties.Common.exec c lines)) qi = Some q ->
  exists s', step_op (sc_debug c) (OQueryClose qi) (Properties.Common.exec c lines) = Ok [] s' /\ LQ s' /\
    (exists q', nth_error (w_queries s') qi = Some q' /\ q_tab q' = 0).
Proof. exact reachable_close_ok. Qed.

(** In every reachable LOCKED state a structure-changing operation (Shrink and Reset included) fails and the
    next state is EXACTLY the state before. *)
Theorem C07_reachable_locked_structural_unchanged : forall c lines wd line o,
  Forall (rel_q_line (sc_kinds c)) lines ->
  is_locked (Properties.Common.exec c lines) = true -> decode_op line = Some o -> structural o = true ->
  (exists er, step_op (sc_debug c) o (Properties.Common.exec c lines) = Err er (Properties.Common.exec c lines)) /\
  fst (step (sc_debug c) wd (Properties.Common.exec c lines) line) = Properties.Common.exec c lines.
Proof. exact reachable_locked_structural_unchanged. Qed.

(** Non-vacuity: a script with a relation component, a registered filter, two open queries, rejected structural
    calls inside the locked window; the lock bits and cursors at five points of it. *)
Definition C07_history_examples := (r2q_script_inv, r2q_mid_inv, r2q_mid_shape, r2q_mid_blocked, r2l_mid_LQ, r2l_script_locks, r2l_mid_close).

(** ... and the same in every reachable locked state of histories WITH observers (Rel2HistO). *)
Theorem C07_reachable_locked_structural_unchanged_with_observers :
  forall (c : script_cfg) (lines : list (list Z)) (wd : bool) (line : list Z) (o : op),
         Forall (rel_o_line (sc_kinds c)) lines ->
         is_locked (exec c lines) = true ->
         decode_op line = Some o ->
         structural o = true ->
         (exists er : err, step_op (sc_debug c) o (exec c lines) = Err er (exec c lines)) /\
         fst (step (sc_debug c) wd (exec c lines) line) = exec c lines.
Proof. exact reachable_locked_structural_unchanged_O. Qed.

(** ** Lock bits, open queries and the observer manager over histories WITH callbacks (ObsLockInv / Rel2HistOL).
    The class is [rel_o_line] of Rel2HistO: everything above plus observer creation, Register, Unregister and Emit, with
    arbitrary arguments and callbacks of any kind (passive, unregistering themselves, unregistering another observer). *)

(** Every reachable state satisfies the storage invariant [Inv2O], the lock / query clause [LQ] (unchanged: between two
    operations no callback bit is held) and the manager invariant [MInvO]. *)
Theorem C07_lock_queries_manager_invariant_with_callbacks : forall c lines,
  cfg_ok2 c -> Forall (rel_o_line (sc_kinds c)) lines -> length lines + 4 < Nat.pow 2 31 ->
  Inv2OL (Properties.Common.exec c lines) (length lines).
Proof. exact reachable_inv2OL. Qed.

Theorem C07_locked_iff_some_query_open_with_callbacks : forall c lines,
  cfg_ok2 c -> Forall (rel_o_line (sc_kinds c)) lines -> length lines + 4 < Nat.pow 2 31 ->
  let s := Properties.Common.exec c lines in
  is_locked s = true <-> exists qi q, nth_error (w_queries s) qi = Some q /\ 1 <= q_tab q.
Proof. exact reachable_locked_iff_open_O. Qed.

Theorem C07_open_queries_hold_distinct_bits_with_callbacks : forall c lines,
  cfg_ok2 c -> Forall (rel_o_line (sc_kinds c)) lines -> length lines + 4 < Nat.pow 2 31 ->
  let s := Properties.Common.exec c lines in
  (forall qi q, nth_error (w_queries s) qi = Some q -> 1 <= q_tab q -> mk_get (lk_mask (w_lock s)) (q_lock q) = true) /\
  (forall qi qj q q', nth_error (w_queries s) qi = Some q -> nth_error (w_queries s) qj = Some q' ->
     1 <= q_tab q -> 1 <= q_tab q' -> q_lock q = q_lock q' -> qi = qj) /\
  (forall b, mk_get (lk_mask (w_lock s)) b = true ->
     exists qi q, nth_error (w_queries s) qi = Some q /\ 1 <= q_tab q /\ q_lock q = b).
Proof. exact reachable_open_bits_O. Qed.

Theorem C07_close_always_succeeds_with_callbacks : forall c lines qi q,
  cfg_ok2 c -> Forall (rel_o_line (sc_kinds c)) lines -> length lines + 4 < Nat.pow 2 31 ->
  nth_error (w_queries (Properties.Common.exec c lines)) qi = Some q ->
  exists s', step_op (sc_debug c) (OQueryClose qi) (Properties.Common.exec c lines) = Ok [] s' /\ LQ s' /\
    (exists q', nth_error (w_queries s') qi = Some q' /\ q_tab q' = 0).
Proof. exact reachable_close_ok_O. Qed.

(** At most 64 queries are open (one lock bit each). *)
Theorem C07_at_most_64_open_queries : forall c lines,
  cfg_ok2 c -> Forall (rel_o_line (sc_kinds c)) lines -> length lines + 4 < Nat.pow 2 31 ->
  r2ol_open_count (Properties.Common.exec c lines) <= 64.
Proof. exact reachable_held_count_O. Qed.

(** In every reachable UNLOCKED state a structural operation with observers has exactly the outcome of the same operation
    on the world without observers: no callback fails, and the lock bit taken around the removal events of Remove /
    Exchange / SetRelations / RemoveEntity is released ([LQ] holds afterwards, in both outcomes). *)
Theorem C07_structural_operations_release_their_lock_bit : forall c lines o,
  cfg_ok2 c -> Forall (rel_o_line (sc_kinds c)) lines -> length lines + 4 < Nat.pow 2 31 ->
  let s := Properties.Common.exec c lines in
  oe_struct_op o = true -> is_locked s = false -> (forall c0, In c0 (rel_op_ids o) -> c0 < length (sc_kinds c)) ->
  step_op (sc_debug c) o (oe_E s) = oe_rmap (step_op (sc_debug c) o s) /\ LQ (state_of (step_op (sc_debug c) o s)) /\
  MInvO (state_of (step_op (sc_debug c) o s)).
Proof. exact reachable_struct_exact. Qed.

(** Emit (callbacks while queries may be open) fails only if its arguments are rejected, or with EBits when all 64 lock bits
    are held by open queries; the state is untouched then. *)
Theorem C07_emit_fails_only_when_rejected_or_64_queries_open : forall c lines evt h comps er s',
  cfg_ok2 c -> Forall (rel_o_line (sc_kinds c)) lines -> length lines + 4 < Nat.pow 2 31 ->
  let s := Properties.Common.exec c lines in
  step_op (sc_debug c) (OEmit evt h comps) s = Err er s' ->
  s' = s /\ (r2ol_emit_args evt h comps s = Err er s \/
             (er = EBits /\ r2ol_open_count s = 64 /\ exists a, r2ol_emit_args evt h comps s = Ok (Some a) s)).
Proof. exact reachable_emit_err. Qed.

Definition C07_callback_examples := (r2ol_script_inv, r2ol_mid_inv, r2ol_mid_shape, r2ol_remove_example, r2ol_erasure_example, r2ol_full_emit, r2ol_63_emit).

Definition C07_all := (C07_lock_queries_manager_invariant_with_callbacks, C07_locked_iff_some_query_open_with_callbacks, C07_open_queries_hold_distinct_bits_with_callbacks, C07_close_always_succeeds_with_callbacks, C07_at_most_64_open_queries, C07_structural_operations_release_their_lock_bit, C07_emit_fails_only_when_rejected_or_64_queries_open, C07_callback_examples, C07_reachable_locked_structural_unchanged_with_observers, C07_locked_iff_some_query_open, C07_open_queries_hold_distinct_bits, C07_close_always_succeeds, C07_reachable_locked_structural_unchanged, C07_history_examples, C07_mask_exact, C07_held_distinct_below_64, C07_locked_iff_held, C07_lock_fresh_or_exhausted, C07_unlock_balanced, C07_structural_blocked, C07_reads_do_not_change_state).
Print Assumptions C07_all.
