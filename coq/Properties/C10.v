(** * C10 — Precondition violations are rejected, not absorbed.

    Proved here (relation-free tier, every state reachable by any history of the core operations,
    see C01 / StorageC):
    - STALE HANDLES: in every reachable state, a handle that the world issued and that has been
      removed since — whether or not its ID has been recycled and is alive again under a newer
      generation — and the zero entity, used in any checked single-entity operation of the model
      (copy, add, add with relations, remove, exchange, write/get through a pointer, Map.Set,
      has, get relation, IDs, set relations, remove entity), makes the call fail with the ENTIRE
      state unchanged. Underlying invariant: a dead issued handle carries a generation strictly
      below its slot's generation, so Alive is false; no uint32 wrap in histories < 2^31 steps.
    - LOCKED WORLD: every structural operation fails with the entire state unchanged (C07).
    - DUPLICATE / MISSING / EMPTY COMPONENT LISTS and every other panic of add / remove / exchange
      / create / remove entity / copy: the call fails and the content of the world (which handles
      are live, their components, their values), the entity pool and the user-side objects are
      unchanged ([rejected]); the finders fail exactly on duplicate-or-present (add) and
      duplicate-or-missing (remove) components.
    Not covered by theorems: relation-target misuse (dead or missing targets) and the typed API
    paths — `misuse` correspondence stream and the unchanged-after-panic oracle. *)
From Ark Require Import Model.Base Model.Mask Model.Pool Model.Util Model.World Model.Run.
From Ark Require Import Proofs.WF Proofs.StorageA Proofs.StorageBDefs Proofs.StorageB_sb1 Proofs.StorageB_sb2 Proofs.StorageB_sb3.
From Ark Require Import Proofs.StorageC Proofs.LockWorld Properties.Common.
From Ark Require Import Proofs.Rel2Defs Proofs.Rel2Remove Proofs.Rel2SetRel Proofs.Rel2Ops.
From Ark Require Import Proofs.Rel2Defs Proofs.Rel2Hist Proofs.Rel2HistQ Proofs.Rel2HistR.

Theorem C10_stale_handle_rejected : forall debug s n o h e,
  Inv s n -> uses_handle o h -> handle s h = Some e -> live s e = false ->
  exists er, step_op debug o s = Err er s.
Proof. exact stale_handle_rejected. Qed.

Theorem C10_reachable : forall c lines,
  cfg_ok c -> Forall (core_line (length (sc_kinds c))) lines -> length lines + 4 < Nat.pow 2 31 ->
  Inv (run_core c lines) (length lines).
Proof. exact reachable_inv. Qed.

Theorem C10_dead_handle_operations : forall s e, alive s e = false ->
  (forall add, exists er, w_add e add [] s = Err er s) /\
  (forall rem, exists er, w_remove e rem s = Err er s) /\
  (forall add rem, exists er, w_exchange e add rem [] s = Err er s) /\
  (exists er, storage_remove_entity e s = Err er s) /\
  (exists er, w_copy_entity e s = Err er s) /\
  (forall rels, exists er, w_set_relations e rels s = Err er s) /\
  (forall debug c, exists er, cell_of debug e c s = Err er s).
Proof. exact dead_rejected. Qed.

Theorem C10_locked_world : forall debug o s, structural o = true -> is_locked s = true ->
  exists e, step_op debug o s = Err e s.
Proof. exact structural_blocked. Qed.

(** Add: fails exactly on a duplicate or already present component (besides lock / dead / empty
    list), and then nothing has changed. *)
Theorem C10_add_rejected_keeps_content : forall s e add, St s -> room s -> registered s add ->
  match w_add e add [] s with
  | Ok _ s' => NoDup add /\ add <> [] /\ (forall c, In c add -> val s e c = None) /\ live s e = true
  | Err _ s' => rejected s s'
  end.
Proof.
  intros s e add HS HR Hreg. pose proof (w_add_spec s e add HS HR Hreg) as H.
  destruct (w_add e add [] s) as [[om nm] s'|er s']; [|exact (proj1 H)].
  destruct H as (_ & _ & Hl & Hne & Hnd & Hv & _). repeat split; assumption.
Qed.

Theorem C10_remove_rejected_keeps_content : forall s e rem, St s -> room s -> registered s rem ->
  match w_remove e rem s with
  | Ok _ s' => NoDup rem /\ rem <> [] /\ (forall c, In c rem -> val s e c <> None) /\ live s e = true
  | Err _ s' => rejected s s'
  end.
Proof.
  intros s e rem HS HR Hreg. pose proof (w_remove_spec s e rem HS HR Hreg) as H.
  destruct (w_remove e rem s) as [u s'|er s']; [|exact H].
  destruct H as (_ & _ & Hl & Hne & Hnd & Hv & _). repeat split; assumption.
Qed.

(** Non-vacuity: a reachable state with a removed-and-recycled ID: the stale handle #0 = (2,0) is dead
    while (2,1) is alive; adding a component through the stale handle is rejected. *)
Definition norel_cfg_c10 : script_cfg :=
  {| sc_cap := 1; sc_caprel := 1; sc_bits := 256; sc_debug := false; sc_kinds := map kind_of_code [0; 1; 2]%Z |}.
Definition recycled_world : W := exec norel_cfg_c10 [[1; 1; 0]; [11; 0]; [1; 1; 1]]%Z.
Example C10_recycled_world :
  handle recycled_world 0 = Some (2, 0%N) /\ handle recycled_world 1 = Some (2, 1%N) /\
  live recycled_world (2, 0%N) = false /\ live recycled_world (2, 1%N) = true /\
  is_err (step_op false (OUAdd 0 [2]) recycled_world) = true.
Proof. vm_compute. repeat split; reflexivity. Qed.

(** ** Worlds with relation components (relation tier, every state satisfying St2): every failing
    NewEntity/Add/Remove/Exchange with relations, RemoveEntity and SetRelations leaves liveness,
    components, values and relation targets of every entity, the pool and the user-side objects
    unchanged ([r2c_rejected]; SetRelations: the state is literally unchanged), and the failure causes
    are exactly the documented ones: locked world, dead handle, no components, component already
    present / missing, relation target omitted (relation component among the added ones not named),
    relation component named twice, non-relation component named in SetRelations, dead target. These are the [Err]
    branches of the theorems below (see Rel2Ops.v, Rel2Remove.v, Rel2SetRel.v for the statements). *)
Definition C10_rel_new_entity := r2a_new_entity_spec.
Definition C10_rel_add := r2a_add_spec.
Definition C10_rel_remove := r2a_remove_spec.
Definition C10_rel_exchange := r2a_exchange_spec.
Definition C10_rel_remove_entity := r2c_remove_entity_spec.
Definition C10_rel_set_relations := r2b_set_relations_spec_noobs.

(** Histories with Reset (Rel2HistR): a handle of the current epoch whose entity was removed is rejected with the
    state unchanged; any handle failing the generation check is rejected in EVERY state (no invariant needed). *)
Theorem C10_stale_handle_rejected_in_histories_with_resets :
  forall (debug : bool) (s : W) (n k : nat) (o : op) (h : Z) (e : ent),
         Inv2R s n k ->
         uses_handle o h ->
         (h <? 0)%Z = true \/ k <= Z.to_nat h ->
         handle s h = Some e -> live s e = false -> exists er : err, step_op debug o s = Err er s.
Proof. exact stale_handle_rejected_R. Qed.

Theorem C10_dead_handle_rejected_in_every_state :
  forall (debug : bool) (s : W) (o : op) (h : Z) (e : ent),
         uses_handle o h ->
         handle s h = Some e -> alive s e = false -> exists er : err, step_op debug o s = Err er s.
Proof. exact r2r_dead_rejected. Qed.

Definition C10_all := (C10_stale_handle_rejected_in_histories_with_resets, C10_dead_handle_rejected_in_every_state, C10_rel_new_entity, C10_rel_add, C10_rel_remove, C10_rel_exchange, C10_rel_remove_entity, C10_rel_set_relations,
  C10_stale_handle_rejected, C10_reachable, C10_dead_handle_operations, C10_locked_world,
  C10_add_rejected_keeps_content, C10_remove_rejected_keeps_content).
Print Assumptions C10_all.
