(** * C11 — Component memory is clean, GC-safe and released.  (PARTIAL by nature.)

    Proved here (table layer, columns modelled up to their full capacity):
    - every table operation keeps the invariant "all cells at rows >= len are zero" (tbl_ok): growth
      and shrinking (fresh arrays, len rows copied), Add/Alloc, swap-remove (the vacated last row is
      zeroed), Reset (both zeroing strategies), bulk append, cell writes inside the used rows;
    - therefore a row obtained by Add/Alloc reads as zero in every column, whatever occupied that
      storage before (a component added without an initial value is its zero value);
    - the two zeroing strategies of column.Reset agree, so isTrivial and the 64-row threshold never
      affect values; isTrivial is exactly "contains no pointer, slice, map, chan, interface, string".
    World level: that every operation only touches tables through these functions, at rows below
    len, is tied by the correspondence (the hook dumps raw cells up to the capacity, compared with
    the model after every step) and by the oracle "no non-zero cell beyond len" on the
    implementation's own dump.
    NOT modellable (exercised only): that pointer-bearing components keep their referents alive across
    moves/growth/GC and that data held only by removed components becomes collectable — facts
    about the Go garbage collector scanning reflect-allocated arrays. *)
From Ark Require Import Model.Base Model.Mask Model.Pool Model.Util Model.World Model.GoType.
From Ark Require Import Proofs.TableProofs Proofs.GoTypeProofs.
From RecordUpdate Require Import RecordSet.
Import RecordSetNotations.

Theorem C11_fresh_row_reads_zero : forall t e, tbl_ok t -> t_len t < Nat.pow 2 31 ->
  let '(idx, t') := tbl_add t e in
  idx = t_len t /\ t_len t' = S (t_len t) /\ row_ent t' idx = e /\
  (forall ci, cell t' ci idx = 0%Z) /\
  (forall ci r, r < t_len t -> cell t' ci r = cell t ci r) /\
  (forall r, r < t_len t -> row_ent t' r = row_ent t r) /\
  t_ids t' = t_ids t /\ t_kinds t' = t_kinds t /\ t_arch t' = t_arch t /\ t_rels t' = t_rels t /\
  t_targets t' = t_targets t /\ t_free t' = t_free t.
Proof. exact tbl_add_spec. Qed.

Theorem C11_add_keeps_clean : forall t e, tbl_ok t -> t_len t < Nat.pow 2 31 -> tbl_ok (snd (tbl_add t e)).
Proof. exact tbl_add_ok. Qed.

Theorem C11_alloc_rows_zero : forall t n, tbl_ok t -> t_len t + n <= Nat.pow 2 31 ->
  t_len (tbl_alloc t n) = t_len t + n /\
  (forall ci r, t_len t <= r -> cell (tbl_alloc t n) ci r = 0%Z) /\
  (forall ci r, r < t_len t -> cell (tbl_alloc t n) ci r = cell t ci r) /\
  (forall r, r < t_len t -> row_ent (tbl_alloc t n) r = row_ent t r).
Proof. exact tbl_alloc_spec. Qed.

Theorem C11_swap_remove_keeps_clean : forall t index, tbl_ok t -> index < t_len t -> tbl_ok (snd (tbl_remove t index)).
Proof. exact tbl_remove_ok. Qed.

Theorem C11_capacity_change_keeps_clean : forall t c, tbl_ok t -> t_len t <= c -> tbl_ok (tbl_adjust t c).
Proof. exact tbl_adjust_ok. Qed.

Theorem C11_capacity_change_keeps_rows : forall t c ci r, tbl_ok t -> t_len t <= c -> r < t_len t ->
  cell (tbl_adjust t c) ci r = cell t ci r /\ row_ent (tbl_adjust t c) r = row_ent t r.
Proof. exact tbl_adjust_rows. Qed.

Theorem C11_reset_zeroes_everything : forall t, tbl_ok t ->
  t_len (tbl_reset t) = 0 /\ (forall ci r, cell (tbl_reset t) ci r = 0%Z) /\ t_cap (tbl_reset t) = t_cap t.
Proof. exact tbl_reset_spec. Qed.

Theorem C11_reset_keeps_clean : forall t, tbl_ok t -> tbl_ok (tbl_reset t).
Proof. exact tbl_reset_ok. Qed.

Theorem C11_bulk_append_keeps_clean : forall dst src count, tbl_ok dst -> tbl_ok src ->
  t_kinds dst = t_kinds src -> t_ids dst = t_ids src -> count <= t_len src ->
  t_len dst + count <= Nat.pow 2 31 -> tbl_ok (tbl_add_all dst src count).
Proof. exact tbl_add_all_ok. Qed.

Theorem C11_write_keeps_clean : forall t ci row v k, tbl_ok t -> row < t_len t ->
  nth_error (t_kinds t) ci = Some k -> ck_zs k = false ->
  tbl_ok (t <| t_cols ::= updf ci (upd row v) |>).
Proof. exact col_write_ok. Qed.

Theorem C11_zeroing_strategies_agree : forall k1 k2 col len,
  ck_zs k1 = ck_zs k2 -> (forall r, len <= r -> nth r col 0%Z = 0%Z) -> len <= length col ->
  (ck_zs k1 = true -> forall r, nth r col 0%Z = 0%Z) ->
  forall r, nth r (col_reset k1 col len) 0%Z = nth r (col_reset k2 col len) 0%Z.
Proof. exact col_reset_paths_agree. Qed.

Theorem C11_is_trivial_exact : forall t, is_trivial t = true <-> ~ pointerish t.
Proof. exact is_trivial_spec. Qed.

(** Non-vacuity: a table with stale data pattern: add, write, swap-remove, add again reads zero. *)
Example C11_reuse_reads_zero :
  let k := {| ck_rel := false; ck_zs := false; ck_triv := true |} in
  let a := {| a_mask := 1%N; a_comps := [0]; a_isrel := [false]; a_tables := [0]; a_free := [];
              a_reltabs := [[]]; a_tgttabs := []; a_numrel := 0 |} in
  let t0 := new_table 0 a [k] 1 [zero_ent] [] in
  let t1 := snd (tbl_add t0 (2, 0%N)) in
  let t2 := t1 <| t_cols ::= updf 0 (upd 0 77%Z) |> in
  let t3 := snd (tbl_add t2 (3, 0%N)) in
  let t4 := t3 <| t_cols ::= updf 0 (upd 1 88%Z) |> in
  let t5 := snd (tbl_remove t4 0) in
  let t6 := snd (tbl_add t5 (4, 0%N)) in
  (cell t4 0 0, cell t4 0 1, cell t5 0 0, cell t5 0 1, cell t6 0 1, Z.of_nat (t_cap t6)) = (77, 88, 88, 0, 0, 2)%Z.
Proof. vm_compute. reflexivity. Qed.

(** The sample shapes of harness/gcsafe TestIsTrivialClassification, in the same order: the Go test compares
    ecs.isTrivial on Go types of these shapes with this vector (and with an oracle that enumerates every
    reflect.Kind). A component holding only a closure or an unsafe pointer is NOT trivial (repaired defect 65b60f3). *)
Example C11_classification_samples :
  let inner := TStruct [TScalar; TArray 2 TScalar] in
  map is_trivial
    [TScalar; TPtr; TSlice; TMap; TChan; TStruct [TIface]; TString; TFunc; TUnsafePtr; TStruct [TFunc];
     TStruct [TUnsafePtr]; inner; TArray 3 inner; TArray 2 (TStruct [TScalar; TFunc]);
     TStruct [inner; TStruct [TSlice]]; TStruct []; TScalar; TArray 0 TPtr]
  = [true; false; false; false; false; false; false; false; false; false;
     false; true; true; false; false; true; true; false].
Proof. vm_compute. reflexivity. Qed.

Theorem C11_func_and_unsafe_pointer_components_are_not_trivial :
  is_trivial (TStruct [TFunc]) = false /\ is_trivial (TStruct [TScalar; TUnsafePtr]) = false /\
  pointerish (TStruct [TFunc]) /\ pointerish (TStruct [TScalar; TUnsafePtr]).
Proof.
  split; [reflexivity|]. split; [reflexivity|]. split.
  - apply (P_field [TFunc] TFunc); [left; reflexivity|constructor].
  - apply (P_field [TScalar; TUnsafePtr] TUnsafePtr); [right; left; reflexivity|constructor].
Qed.

(** One traversal of the dependency graph for all theorems of this file. *)
Definition C11_all := (C11_fresh_row_reads_zero, C11_swap_remove_keeps_clean, C11_capacity_change_keeps_clean, C11_reset_zeroes_everything, C11_bulk_append_keeps_clean, C11_zeroing_strategies_agree, C11_is_trivial_exact, C11_classification_samples, C11_func_and_unsafe_pointer_components_are_not_trivial).
Print Assumptions C11_all.
