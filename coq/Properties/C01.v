(** * C01 — Component store is faithful to the operation history.

    Tier proved here: worlds WITHOUT relation components ([St s] = storage invariant [WF] +
    [NoRel]); any registered component kinds (plain, pointer-bearing = reflection copy path,
    zero-size), any initial capacities >= 1, any component-ID placement (masks are arbitrary-
    precision; the 4-word implementation refines them for all 256 bits, see C18), fewer than 2^31
    entities. The content of a world is [live s e] (is [e] the current incarnation of a stored
    entity) and [val s e c] (the value of component [c] of [e], [None] if absent): a finite map
    handle -> (component -> value), i.e. the Spec-level state.
    For every single-entity operation the theorems give, from ANY state satisfying the invariant:
      - the new content of the entity exactly (which components it has, their values: old values
        kept, added components zero, written value stored),
      - that every other entity keeps its content ([others_same]),
      - that the invariant is re-established (so the statement composes over every history:
        C01_invariant_reachable),
      - that a call which panics leaves the content of the world unchanged ([rejected]).
    Not covered by theorems (correspondence streams store/batch/relations + oracles only): worlds
    with relation components (need exactness of the relation lookups as a further invariant), the
    batch forms, Reset and Shrink at world level (Shrink/Reset: see C15/C16 for the relation-free tier),
    the typed API paths (see C14). *)
From Ark Require Import Model.Base Model.Mask Model.Pool Model.Util Model.World Model.Run.
From Ark Require Import Proofs.TableProofs Proofs.WF Proofs.StorageA Proofs.StorageBDefs.
From Ark Require Import Proofs.StorageB_sb1 Proofs.StorageB_sb2 Proofs.StorageB_sb3 Proofs.StorageC Properties.Common.
From Ark Require Import Proofs.Rel2Defs Proofs.Rel2Struct Proofs.Rel2Remove Proofs.Rel2SetRel Proofs.Rel2Ops Proofs.Rel2Maint.

Theorem C01_initial_world : forall c,
  1 <= sc_cap c -> 1 <= sc_caprel c -> length (sc_kinds c) <= sc_bits c ->
  Forall (fun k => ck_rel k = false) (sc_kinds c) -> St (init_world c).
Proof. exact St_init. Qed.

Theorem C01_create_empty : forall s, St s -> room s ->
  exists e s', create_entity 0 s = Ok e s' /\ St s' /\
    live s e = false /\ live s' e = true /\ alive s' e = true /\ (forall c, val s' e c = None) /\
    others_same s s' e /\ side_same s s' /\ frame_user s s' /\
    length (pe (w_pool s')) <= S (length (pe (w_pool s))).
Proof. exact create_entity_spec. Qed.

Theorem C01_create_with_components : forall s ids, St s -> room s -> registered s ids ->
  match new_entity ids [] s with
  | Ok (e, m) s' =>
      St s' /\ is_locked s = false /\ NoDup ids /\ m = mk_of_list ids /\
      live s e = false /\ live s' e = true /\ alive s' e = true /\
      (forall c, val s' e c = if memb c ids then Some 0%Z else None) /\
      others_same s s' e /\ side_same s s' /\ frame_user s s' /\
      length (pe (w_pool s')) <= S (length (pe (w_pool s)))
  | Err _ s' => rejected s s' /\ side_same s s' /\ (is_locked s = true \/ ~ NoDup ids)
  end.
Proof. exact new_entity_spec. Qed.

Theorem C01_add : forall s e add, St s -> room s -> registered s add ->
  match w_add e add [] s with
  | Ok (om, nm) s' =>
      St s' /\ is_locked s = false /\ live s e = true /\ add <> [] /\ NoDup add /\
      (forall c, In c add -> val s e c = None) /\
      live s' e = true /\
      (forall c, val s' e c = if memb c add then Some 0%Z else val s e c) /\
      (forall c, mk_get om c = true <-> val s e c <> None) /\ (forall c, mk_get nm c = true <-> val s' e c <> None) /\
      others_same s s' e /\ w_pool s' = w_pool s /\ side_same s s' /\ frame_user s s'
  | Err _ s' => rejected s s' /\ side_same s s'
  end.
Proof. exact w_add_spec. Qed.

Theorem C01_remove : forall s e rem, St s -> room s -> registered s rem ->
  match w_remove e rem s with
  | Ok _ s' =>
      St s' /\ is_locked s = false /\ live s e = true /\ rem <> [] /\ NoDup rem /\
      (forall c, In c rem -> val s e c <> None) /\
      live s' e = true /\
      (forall c, val s' e c = if memb c rem then None else val s e c) /\
      others_same s s' e /\ w_pool s' = w_pool s /\ frame_user s s'
  | Err _ s' => rejected s s'
  end.
Proof. exact w_remove_spec. Qed.

Theorem C01_exchange : forall s e add rem, St s -> room s -> registered s add -> registered s rem ->
  match w_exchange e add rem [] s with
  | Ok _ s' =>
      St s' /\ is_locked s = false /\ live s e = true /\ NoDup add /\ NoDup rem /\
      (forall c, In c rem -> val s e c <> None) /\ (forall c, In c add -> val s e c = None) /\
      live s' e = true /\
      (forall c, val s' e c = if memb c add then Some 0%Z else if memb c rem then None else val s e c) /\
      others_same s s' e /\ w_pool s' = w_pool s /\ frame_user s s'
  | Err _ s' => rejected s s'
  end.
Proof. exact w_exchange_spec. Qed.

Theorem C01_write_through_pointer : forall s debug e c v, St s ->
  match (a <- cell_of debug e c ;; let '(tid, ci, row) := a in write_cell tid ci row v) s with
  | Ok _ s' =>
      St s' /\ live s e = true /\ val s e c <> None /\ live s' e = true /\
      (forall c', val s' e c' = if Nat.eqb c' c then (if ck_zs (kind_of s c) then val s e c else Some v) else val s e c') /\
      others_same s s' e /\ w_pool s' = w_pool s /\ side_same s s' /\ frame_user s s'
  | Err _ s' => s' = s
  end.
Proof. exact write_spec. Qed.

Theorem C01_remove_entity : forall s e, St s ->
  match storage_remove_entity e s with
  | Ok _ s' =>
      St s' /\ live s e = true /\ live s' e = false /\ alive s' e = false /\
      (forall c, val s' e c = None) /\ others_same s s' e /\ frame_user s s' /\
      length (pe (w_pool s')) = length (pe (w_pool s))
  | Err _ s' => rejected s s'
  end.
Proof. exact remove_entity_spec. Qed.

(** CopyEntity. The hypothesis [alive -> live] holds for every handle the world has issued (see
    C02/C10: [issued_ok]); it only excludes fabricated handles such as (0, 2^32-1). *)
Theorem C01_copy_entity : forall s e, St s -> room s -> (alive s e = true -> live s e = true) ->
  match w_copy_entity e s with
  | Ok ne s' =>
      St s' /\ is_locked s = false /\ live s e = true /\ ne <> e /\
      live s ne = false /\ live s' ne = true /\ alive s' ne = true /\
      (forall c, val s' ne c = val s e c) /\
      others_same s s' ne /\ frame_user s s' /\
      length (pe (w_pool s')) <= S (length (pe (w_pool s)))
  | Err _ s' => rejected s s' \/ (has_obs s EvCreateEntity = true /\ exists ne, sb1_copy_post s e ne s')
  end.
Proof. exact copy_entity_spec_partial_obs. Qed.

(** The invariant holds in every state reachable by ANY history of the core operations (creation,
    copy, add, remove, exchange, writes, entity removal, reads, observer management with callbacks
    that may unregister observers) from any relation-free configuration, for histories shorter
    than 2^31 - 4 operations; so the per-operation statements above apply at every step. *)
Theorem C01_invariant_reachable : forall c lines,
  cfg_ok c -> Forall (core_line (length (sc_kinds c))) lines -> length lines + 4 < Nat.pow 2 31 ->
  Inv (run_core c lines) (length lines).
Proof. exact reachable_inv. Qed.

Theorem C01_step_preserves_invariant : forall debug wd s n line o,
  Inv s n -> n + 4 < Nat.pow 2 31 -> decode_op line = Some o -> core_op o = true ->
  (forall c, In c (op_ids o) -> c < length (w_reg s)) ->
  Inv (fst (step debug wd s line)) (S n) /\ w_reg (fst (step debug wd s line)) = w_reg s.
Proof. exact step_inv. Qed.

(** Structure creation (archetypes, tables), event dispatch and callbacks never change content. *)
Theorem C01_structure_creation_keeps_content : forall s s', WF s -> same_rows s s' -> content_same s s'.
Proof. exact same_rows_content. Qed.

(** The component set of a live entity is exactly the mask of its archetype. *)
Theorem C01_components_are_the_mask : forall s e tid r t a, WF s -> live s e = true -> loc s e = Some (tid, r) ->
  nth_error (w_tables s) tid = Some t -> nth_error (w_archs s) (t_arch t) = Some a ->
  forall c, (val s e c <> None <-> mk_get (a_mask a) c = true).
Proof. exact val_defined_iff_mask. Qed.

(** Non-vacuity: a reachable relation-free world with several archetypes, a swap-removed row and a
    recycled ID; the entity contents read through [val]. *)
Definition norel_cfg : script_cfg :=
  {| sc_cap := 1; sc_caprel := 1; sc_bits := 256; sc_debug := false; sc_kinds := map kind_of_code [0; 1; 2; 4; 6]%Z |}.
Definition store_world : W :=
  exec norel_cfg [[1; 2; 0; 1]; [1; 2; 0; 1]; [1; 1; 2]; [9; 0; 0; 11]; [9; 1; 1; 22]; [5; 1; 1; 3];
                  [7; 0; 1; 0]; [11; 2]; [1; 1; 4]; [9; 1; 3; 33]]%Z.
Example C01_store_world_content :
  (live store_world (2, 0%N), val store_world (2, 0%N) 0, val store_world (2, 0%N) 1,
   val store_world (3, 0%N) 0, val store_world (3, 0%N) 1, val store_world (3, 0%N) 3,
   live store_world (4, 0%N), live store_world (4, 1%N), val store_world (4, 1%N) 4)
  = (true, None, Some 0, Some 0, Some 22, Some 33, false, true, Some 0)%Z.
Proof. vm_compute. reflexivity. Qed.

(** ** Worlds WITH relation components (relation tier): per-operation theorems for EVERY state
    satisfying [St2] (storage + relation + cache invariant, Rel2Defs). Each says: the invariant is
    preserved; the entity gets exactly the expected components, kept values, zeroed new components and
    the relation targets assigned by the call; every other entity keeps its liveness, components,
    values and relation targets ([r2c_others_same]); a failing call leaves all observables unchanged
    ([r2c_rejected]) and fails only for the listed causes; a call meeting the documented preconditions
    never fails. The statements are those of Rel2Ops.v / Rel2Maint.v / Rel2Remove.v / Rel2SetRel.v
    (see there; too long to restate). What is still missing for "after any sequence of operations"
    in relation worlds is the induction over histories (batch forms, filters and observers in
    relation worlds are not yet covered), see C04. *)
Definition C01_rel_new_entity := r2a_new_entity_spec.
Definition C01_rel_add := r2a_add_spec.
Definition C01_rel_remove := r2a_remove_spec.
Definition C01_rel_exchange := r2a_exchange_spec.
Definition C01_rel_create_entity := L_create_entity_spec2.
Definition C01_rel_copy_entity := L_copy_entity_spec2_partial.
Definition C01_rel_write := L_write_spec2.
Definition C01_rel_remove_entity := r2c_remove_entity_spec.
Definition C01_rel_set_relations := r2b_set_relations_spec_noobs.
Definition C01_rel_never_fails := (r2a_new_entity_ok, r2a_add_ok, r2a_exchange_add_ok, r2a_remove_ok_noobs, r2a_exchange_ok_noobs,
  r2c_remove_never_fails_noobs, r2b_set_relations_ok_noobs).
Definition C01_rel_examples := (r2a_ex_by_theorem, r2c_ex_by_theorem, r2b_ex_by_theorem, r2d_ex_copy_by_theorem, r2d_ex_create_by_theorem).

Definition C01_all := (C01_rel_new_entity, C01_rel_add, C01_rel_remove, C01_rel_exchange, C01_rel_create_entity, C01_rel_copy_entity,
  C01_rel_write, C01_rel_remove_entity, C01_rel_set_relations, C01_rel_never_fails, C01_rel_examples,
  C01_invariant_reachable, C01_step_preserves_invariant, C01_initial_world, C01_create_empty, C01_create_with_components, C01_add, C01_remove,
  C01_exchange, C01_write_through_pointer, C01_remove_entity, C01_copy_entity,
  C01_structure_creation_keeps_content, C01_components_are_the_mask).
Print Assumptions C01_all.
