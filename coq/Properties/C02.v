(** * C02 — Entity handles are unique and liveness is exact.

    Statements over ALL histories of the entity pool (pool.go): any interleaving of Get (every
    creation path of the world takes exactly one handle per new entity from it), Recycle of any alive
    handle (every removal path) and Reset, in any recycle order and for any pool size.
    Hypothesis [never_wrapped]: no slot's uint32 generation reached 2^32-1 (a slot was recycled fewer
    than 2^32-1 times); [pool_len_count_false] shows the hypothesis is necessary: after 2^32
    recycles of one ID the first handle is "alive" again and can be removed twice.
    World level (which handle goes where, that creation paths call Get once and removal paths
    Recycle once) is tied by the correspondence streams and the handle oracles of bin/check. *)
From Ark Require Import Model.Base Model.Mask Model.Pool Proofs.PoolSpec Proofs.PoolProofs.

Theorem C02_handles_unique :
  forall ops, never_wrapped ops -> NoDup (g_issued (grun ops)).
Proof. exact pool_get_fresh. Qed.

Theorem C02_alive_exact :
  forall ops e, never_wrapped ops -> In e (g_issued (grun ops)) ->
  pool_alive (g_pool (grun ops)) e = negb (ent_in e (g_removed (grun ops))).
Proof. exact pool_alive_exact. Qed.

Theorem C02_removed_stays_dead :
  forall ops e, never_wrapped ops -> In e (g_removed (grun ops)) ->
  pool_alive (g_pool (grun ops)) e = false.
Proof. exact pool_removed_stays_dead. Qed.

Theorem C02_zero_entity_dead_and_ids_not_reserved :
  forall ops, pool_alive (g_pool (grun ops)) zero_ent = false /\
              (forall e, In e (g_issued (grun ops)) -> 2 <= fst e).
Proof. exact pool_reserved_dead. Qed.

Theorem C02_count :
  forall ops, never_wrapped ops ->
  pool_len (g_pool (grun ops)) = length (g_issued (grun ops)) - length (g_removed (grun ops)) /\
  length (g_removed (grun ops)) <= length (g_issued (grun ops)).
Proof. exact pool_len_count_partial. Qed.

(** The boundary of the claim: without the no-wrap hypothesis the count statement is false. *)
Theorem C02_count_needs_no_wrap :
  exists ops, ~ (length (g_removed (grun ops)) <= length (g_issued (grun ops))).
Proof. exact pool_len_count_false. Qed.

(** Non-vacuity: a history with recycling in LIFO and FIFO order; its handles, liveness and count. *)
Example C02_history :
  let ops := [PGet; PGet; PGet; PRecycle 1; PRecycle 0; PGet; PGet; PGet; PRecycle 3] in
  g_issued (grun ops) = [(2, 0%N); (3, 0%N); (4, 0%N); (2, 1%N); (3, 1%N); (5, 0%N)] /\
  map (pool_alive (g_pool (grun ops))) (g_issued (grun ops)) = [false; false; true; false; true; true] /\
  pool_len (g_pool (grun ops)) = 3.
Proof. vm_compute. repeat split; reflexivity. Qed.

Print Assumptions C02_handles_unique.
Print Assumptions C02_alive_exact.
Print Assumptions C02_removed_stays_dead.
Print Assumptions C02_zero_entity_dead_and_ids_not_reserved.
Print Assumptions C02_count.
Print Assumptions C02_count_needs_no_wrap.
