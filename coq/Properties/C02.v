(** * C02 — Entity handles are unique and liveness is exact.

    Statements over ALL histories of the entity pool (pool.go): any interleaving of Get (every
    creation path of the world takes exactly one handle per new entity from it), Recycle of any alive
    handle (every removal path) and Reset, in any recycle order and for any pool size.
    Hypothesis [never_wrapped]: no slot's uint32 generation reached 2^32-1 (a slot was recycled fewer
    than 2^32-1 times); [pool_len_count_false] shows the hypothesis is necessary: after 2^32
    recycles of one ID the first handle is "alive" again and can be removed twice.
    World level (which handle goes where, that creation paths call Get once and removal paths
    Recycle once) is tied by the correspondence streams and the handle oracles of bin/check. *)
From Ark Require Import Model.Base Model.Mask Model.Pool Model.World Model.Run Proofs.PoolSpec Proofs.PoolProofs.
From Ark Require Import Proofs.WF Proofs.StorageA Proofs.StorageC.
From Ark Require Import Proofs.Rel2Defs Proofs.Rel2Hist Proofs.Rel2HistQ Proofs.Rel2HistR.

Theorem C02_handles_unique :
  forall ops, never_wrapped ops -> NoDup (g_issued (grun ops)).
Proof. exact pool_get_fresh. Qed.

Theorem C02_alive_exact :
  forall ops e, never_wrapped ops -> In e (g_issued (grun ops)) ->
  pool_alive (g_pool (grun ops)) e = negb (ent_in e (g_removed (grun ops))).
Proof. exact pool_alive_exact. Qed.

Theorem C02_removed_stays_dead :
  forall ops e, never_wrapped ops -> In e (g_removed (grun ops)) ->
  pool_alive (g_pool (grun ops)) e = false.
Proof. exact pool_removed_stays_dead. Qed.

Theorem C02_zero_entity_dead_and_ids_not_reserved :
  forall ops, pool_alive (g_pool (grun ops)) zero_ent = false /\
              (forall e, In e (g_issued (grun ops)) -> 2 <= fst e).
Proof. exact pool_reserved_dead. Qed.

Theorem C02_count :
  forall ops, never_wrapped ops ->
  pool_len (g_pool (grun ops)) = length (g_issued (grun ops)) - length (g_removed (grun ops)) /\
  length (g_removed (grun ops)) <= length (g_issued (grun ops)).
Proof. exact pool_len_count_partial. Qed.

(** The boundary of the claim: without the no-wrap hypothesis the count statement is false. *)
Theorem C02_count_needs_no_wrap :
  exists ops, ~ (length (g_removed (grun ops)) <= length (g_issued (grun ops))).
Proof. exact pool_len_count_false. Qed.

(** World level (relation-free tier): in every state reachable by any history of the core operations,
    a handle issued by a step (NewEntity, Unsafe.NewEntity, CopyEntity) is alive afterwards and
    differs from every handle issued before, whether alive, removed, or removed with its ID reused. *)
Theorem C02_world_creation_fresh : forall debug wd s n line o e,
  Inv s n -> n + 4 < Nat.pow 2 31 -> decode_op line = Some o -> core_op o = true ->
  (forall c, In c (op_ids o) -> c < length (w_reg s)) ->
  w_issued (fst (step debug wd s line)) = w_issued s ++ [e] ->
  ~ In e (w_issued s) /\ live (fst (step debug wd s line)) e = true /\ alive (fst (step debug wd s line)) e = true.
Proof. exact creation_fresh. Qed.

Theorem C02_world_invariant_reachable : forall c lines,
  cfg_ok c -> Forall (core_line (length (sc_kinds c))) lines -> length lines + 4 < Nat.pow 2 31 ->
  Inv (run_core c lines) (length lines).
Proof. exact reachable_inv. Qed.

(** Non-vacuity: a history with recycling in LIFO and FIFO order; its handles, liveness and count. *)
Example C02_history :
  let ops := [PGet; PGet; PGet; PRecycle 1; PRecycle 0; PGet; PGet; PGet; PRecycle 3] in
  g_issued (grun ops) = [(2, 0%N); (3, 0%N); (4, 0%N); (2, 1%N); (3, 1%N); (5, 0%N)] /\
  map (pool_alive (g_pool (grun ops))) (g_issued (grun ops)) = [false; false; true; false; true; true] /\
  pool_len (g_pool (grun ops)) = 3.
Proof. vm_compute. repeat split; reflexivity. Qed.

(** One traversal of the dependency graph for all theorems of this file. *)
(** In histories that contain Reset (relation worlds, Rel2HistR): a handle issued by a step differs from every
    handle of the CURRENT epoch and denotes a stored entity (it may equal a handle issued before the last Reset:
    the documented contract of Reset). *)
Theorem C02_creation_fresh_in_histories_with_resets :
  forall (debug wd : bool) (s : World.W) (n k : nat) (line : list Z) (o : op) (e : ent),
         Inv2R s n k ->
         n + 4 < 2 ^ 31 ->
         decode_op line = Some o ->
         rel_r_op o = true ->
         (forall c : nat, In c (rel_op_ids o) -> c < length (w_reg s)) ->
         rel_q_flt_ok (w_reg s) o ->
         (is_locked s = false -> r2r_foreign_ok k s o) ->
         w_issued (fst (step debug wd s line)) = w_issued s ++ [e] ->
         ~ In e (skipn k (w_issued s)) /\ live (fst (step debug wd s line)) e = true /\ live s e = false.
Proof. exact creation_fresh_R. Qed.

Definition C02_all := (C02_creation_fresh_in_histories_with_resets, C02_world_creation_fresh, C02_world_invariant_reachable, C02_handles_unique, C02_alive_exact, C02_removed_stays_dead, C02_zero_entity_dead_and_ids_not_reserved, C02_count, C02_count_needs_no_wrap).
Print Assumptions C02_all.
