(** * C08 — Observers fire exactly per their declared filter, whatever else is registered.

    Proved here, for EVERY observer-manager state reachable by any history of register / unregister
    / Reset (any observer specifications, any order, including re-registration), every event
    context (old/new/changed component sets as arbitrary masks), both values of earlyOut and every
    callback that leaves the manager alone:
      dispatch = "call the callback of exactly the registered observers of that event type whose
      documented predicate holds, once each, in list order"
    — in particular the aggregate early-out never suppresses a matching observer, so whether an
    observer fires does not depend on which other observers are or were registered. The model's
    predicates are restated as the documented set conditions (ObsDoc). Also: if nothing fires for
    the first entity of a table nothing fires for any (batch early-out idiom), Reset clears every
    event type (including 255), the observer count is exact.
    Not proved: (a) which event contexts each operation emits (call sites; tied by the `observers`
    correspondence stream, where every callback of every operation is compared), (b) dispatch with
    callbacks that unregister observers (the snapshot semantics are modelled and exercised by the
    stream; the theorem assumes [cb_stable]). *)
From Ark Require Import Model.Base Model.Mask Model.Pool Model.World.
From Ark Require Import Proofs.ObsSpec Proofs.ObsProofs Proofs.ObsDoc Properties.Common Model.Run.
From Ark Require Import Proofs.ObsErase Proofs.Rel2HistO.
From Ark Require Import Proofs.ObsLockInv Proofs.Rel2HistOL Proofs.Rel2HistOLF.
From Coq Require Import Lia.

Theorem C08_dispatch_entity_events :
  forall s0 ops cb evt e m eo, obs_init s0 -> cb_stable cb ->
  (evt = EvCreateEntity \/ evt = EvRemoveEntity) ->
  let s := fold_left ostep ops s0 in
  fire_with cb evt (early_with m) (p_with m) e eo s = dispatch_spec cb s evt (p_with m) e.
Proof. exact dispatch_exact_entity. Qed.

Theorem C08_dispatch_entity_relation_events :
  forall s0 ops cb evt e m eo, obs_init s0 -> cb_stable cb ->
  (evt = EvAddRelations \/ evt = EvRemoveRelations) ->
  let s := fold_left ostep ops s0 in
  fire_with cb evt (fun g => (early_comps m g || early_with m g)%bool) (p_entity_rel m) e eo s
  = dispatch_spec cb s evt (p_entity_rel m) e.
Proof. exact dispatch_exact_entity_rel. Qed.

Theorem C08_dispatch_add_events :
  forall s0 ops cb evt e old new eo, obs_init s0 -> cb_stable cb ->
  (evt = EvAddComponents \/ evt = EvAddRelations) ->
  let s := fold_left ostep ops s0 in
  fire_with cb evt (early_add old new) (p_add old new) e eo s = dispatch_spec cb s evt (p_add old new) e.
Proof. exact dispatch_exact_add. Qed.

Theorem C08_dispatch_remove_events :
  forall s0 ops cb evt e old new eo, obs_init s0 -> cb_stable cb ->
  (evt = EvRemoveComponents \/ evt = EvRemoveRelations) ->
  let s := fold_left ostep ops s0 in
  fire_with cb evt (early_remove old new) (p_remove old new) e eo s = dispatch_spec cb s evt (p_remove old new) e.
Proof. exact dispatch_exact_remove. Qed.

Theorem C08_dispatch_set_relation_custom_events :
  forall s0 ops cb evt e cm em eo, obs_init s0 -> cb_stable cb ->
  is_entity_event evt = false -> evt < 256 ->
  let s := fold_left ostep ops s0 in
  fire_with cb evt (early_set cm em) (p_set cm em) e eo s = dispatch_spec cb s evt (p_set cm em) e.
Proof. exact dispatch_exact_set. Qed.

Theorem C08_batch_early_out :
  forall s evt pred, fired s evt pred = [] ->
  forall cb e, cb_stable cb -> dispatch_spec cb s evt pred e = Ok false s.
Proof. exact fired_entity_independent. Qed.

Theorem C08_reset_clears_every_event_type :
  forall s0 ops evt, obs_init s0 ->
  let s := ostep (fold_left ostep ops s0) OResetObs in
  olist s evt = [] /\ has_obs s evt = false /\ w_ototal s = 0.
Proof. exact reset_clears_all. Qed.

Theorem C08_count_exact :
  forall s0 ops, obs_init s0 ->
  let s := fold_left ostep ops s0 in
  w_ototal s = fold_left (fun acc kv => acc + length (snd kv)) (w_olists s) 0.
Proof. exact total_count_exact. Qed.

(** The predicates are the documented ones. *)
Theorem C08_remove_predicate_documented : forall old new o,
  p_remove old new o = true <->
  (o_hascomps o = true -> subset (o_comps o) old /\ disjoint new (o_comps o)) /\ doc_with old o.
Proof. exact p_remove_doc. Qed.

Theorem C08_add_predicate_documented : forall old new o,
  p_add old new o = true <->
  (o_hascomps o = true -> subset (o_comps o) new /\ disjoint old (o_comps o)) /\ doc_with old o.
Proof. exact p_add_doc. Qed.

Theorem C08_set_predicate_documented : forall cm em o,
  p_set cm em o = true <-> (o_hascomps o = true -> subset (o_comps o) cm) /\ doc_with em o.
Proof. exact p_set_doc. Qed.

(** Non-vacuity: a world with three observer objects (the initial state satisfies [obs_init]),
    and a history after which observer 1 (remove, For(0,1)) does not fire when only component 0 goes. *)
Definition obs_world : W :=
  exec small_cfg [[25; 252; 2; 0; 1; 0; 0; 0; 0]; [25; 252; 1; 0; 0; 0; 0; 0]; [25; 249; 0; 1; 2; 0; 0; 0]]%Z.
Example C08_obs_world_init : obs_init obs_world.
Proof.
  unfold obs_init. split; [vm_compute; reflexivity|]. split; [vm_compute; reflexivity|].
  split; [vm_compute; reflexivity|]. split; [vm_compute; reflexivity|]. split; [vm_compute; reflexivity|].
  intros o Ho. vm_compute in Ho.
  destruct Ho as [<-|[<-|[<-|[]]]]; (split; [reflexivity|]); (split; [reflexivity|]); (split; [reflexivity|]);
    (split; [reflexivity|]); (split; [apply Nat.ltb_lt; vm_compute; reflexivity|]); split.
  all: match goal with
       | |- forall c, In c _ -> _ < _ =>
           intros c Hc; vm_compute in Hc; repeat (destruct Hc as [<-|Hc]; [apply Nat.ltb_lt; vm_compute; reflexivity|]); destruct Hc
       | |- _ = true -> _ => intros Hr; vm_compute in Hr; discriminate Hr
       end.
Qed.
Example C08_remove_needs_all :
  let s := fold_left ostep [ORegister 0; ORegister 1] obs_world in
  fired s 252 (p_remove (mk_of_list [0; 1]) (mk_of_list [1])) = [1] /\
  fired s 252 (p_remove (mk_of_list [0; 1]) (mk_of_list [])) = [0; 1].
Proof. vm_compute. split; reflexivity. Qed.

(** One traversal of the dependency graph for all theorems of this file. *)
(** Observers never influence what an operation does to the world (ObsErase / Rel2HistO): a step that returns in a
    world with observers of ANY callback kind returns the same value in the world with all observers erased, and the
    erased result states coincide; a callback can fail only for lack of a lock bit (all 64 held), an unknown observer
    index, or through the unregistration it issues itself. *)
Theorem C08_observers_are_transparent_for_the_storage :
  forall (debug wd : bool) (s : W) (line : list Z) (o : op),
         decode_op line = Some o ->
         oe_struct_op o = true ->
         is_locked s = false ->
         is_err (step_op debug o (RecordSet.set w_log (fun _ : list (list Z) => []) s)) = false ->
         oe_E (fst (step debug wd s line)) = fst (step debug wd (oe_E s) line) /\
         (exists (a : list Z) (s1 : W),
            step_op debug o (RecordSet.set w_log (fun _ : list (list Z) => []) s) = Ok a s1 /\
            step_op debug o (oe_E s) = Ok a (oe_E s1)).
Proof. exact r2o_step_erasure. Qed.

Theorem C08_callback_fails_only_for :
  forall (oi : nat) (e : ent) (s : W) (er : err) (s' : W),
         run_callback oi e s = Err er s' ->
         lock_lock (w_lock s) = None \/
         alive s e = true /\ snapshot_entity s e = None \/
         nth_error (w_obs s) oi = None \/ (exists (k : nat) (sk : W), remove_observer k sk = Err er s').
Proof. exact oe_run_callback_err. Qed.

(** ** The observer manager over raw model histories, with callbacks (ObsLockInv / Rel2HistOL).
    [MInv] of ObsProofs assumes well-formed observer objects ([obs_init]); the script-level model creates arbitrary ones, and
    a registration rejected after the id was assigned breaks [MInv] ([C08_MInv_fails_for_raw_histories]). The part that
    survives, [MInvO] (a member of an event list is an existing object of that event carrying an id; no duplicates; distinct
    keys; the figure is the total length of the lists), holds in every reachable state and is what a callback needs. *)
Theorem C08_manager_invariant_over_histories_with_callbacks : forall c lines,
  Rel2Hist.cfg_ok2 c -> Forall (rel_o_line (sc_kinds c)) lines -> length lines + 4 < Nat.pow 2 31 ->
  MInvO (Properties.Common.exec c lines).
Proof. intros c lines Hc Hl Hb. apply (reachable_inv2OL c lines Hc Hl Hb). Qed.

Theorem C08_MInv_fails_for_raw_histories : MInvO r2ol_rej /\ ~ MInv r2ol_rej.
Proof. exact r2ol_rej_MInv_refuted. Qed.

(** Unregistering a member of an observer list succeeds; Register and Unregister keep [MInvO] in both outcomes. *)
Theorem C08_unregister_of_a_listed_observer_succeeds : forall s oi o, MInvO s -> obj s oi = Some o ->
  In oi (olist s (o_event o)) -> exists s', remove_observer oi s = Ok tt s'.
Proof. exact ol_rem_ok. Qed.

Theorem C08_register_unregister_keep_the_manager_invariant : forall s oi, MInvO s ->
  MInvO (state_of (add_observer oi s)) /\ MInvO (state_of (remove_observer oi s)).
Proof. intros s oi H. split; [apply ol_add_inv|apply ol_rem_inv]; exact H. Qed.

(** A callback of any kind, of an existing observer object, RETURNS when fewer than 64 lock bits are held and the entity
    (if the pool calls it alive) has a row: same storage, same held bits, manager invariant kept. *)
Theorem C08_callback_returns : forall held oi e s, ol_SI held s -> length held < 64 -> BatchView.bv_snap_ok s e ->
  oi < length (w_obs s) -> exists s', run_callback oi e s = Ok tt s' /\ ol_ev held s s'.
Proof. exact ol_run_callback. Qed.

(** Hence, in a state satisfying the invariants, a structural operation on an unlocked world has exactly the outcome of the
    erased run (no [is_err = false] hypothesis, compare [C08_observers_are_transparent_for_the_storage]) ... *)
Theorem C08_callbacks_of_structural_operations_never_fail : forall debug s n o, Inv2OL s n -> n + 4 < Nat.pow 2 31 ->
  oe_struct_op o = true -> is_locked s = false -> StorageBDefs.registered s (Rel2Hist.rel_op_ids o) ->
  step_op debug o (oe_E s) = oe_rmap (step_op debug o s) /\ r2ol_LM (state_of (step_op debug o s)).
Proof. exact r2ol_struct_exact. Qed.

Theorem C08_step_commutes_with_erasure : forall debug wd s n line o, Inv2OL s n -> n + 4 < Nat.pow 2 31 ->
  decode_op line = Some o -> oe_struct_op o = true -> is_locked s = false ->
  (forall c, In c (Rel2Hist.rel_op_ids o) -> c < length (w_reg s)) ->
  oe_E (fst (step debug wd s line)) = fst (step debug wd (oe_E s) line).
Proof. exact r2ol_step_erasure. Qed.

(** ... and Emit has exactly four outcomes. *)
Theorem C08_emit_outcomes : forall debug s n evt h comps, Inv2O s n -> r2ol_LM s ->
  (exists er, r2ol_emit_args evt h comps s = Err er s /\ step_op debug (OEmit evt h comps) s = Err er s) \/
  (r2ol_emit_args evt h comps s = Ok None s /\ step_op debug (OEmit evt h comps) s = Ok [] s) \/
  (exists a, r2ol_emit_args evt h comps s = Ok (Some a) s /\ r2ol_open_count s < 64 /\
     exists s', step_op debug (OEmit evt h comps) s = Ok [] s' /\ r2ol_LM s' /\ StorageA.storage_same s s') \/
  (exists a, r2ol_emit_args evt h comps s = Ok (Some a) s /\ r2ol_open_count s = 64 /\
     (step_op debug (OEmit evt h comps) s = Ok [] s \/ step_op debug (OEmit evt h comps) s = Err EBits s)).
Proof. exact r2ol_emit_cases. Qed.

(** The observer figure of Stats is the number of observer objects that are in the list of their event (NOT the number of
    objects carrying an id: [StatsProofs.stats_observers_registered_refuted]). *)
Theorem C08_observer_figure_is_the_number_of_listed_observers : forall c lines,
  Rel2Hist.cfg_ok2 c -> Forall (rel_o_line (sc_kinds c)) lines -> length lines + 4 < Nat.pow 2 31 ->
  let s := Properties.Common.exec c lines in
  nth 5 (stats_vec s) 0%Z = Zn (w_ototal s) /\ w_ototal s = length (r2ol_listed s) /\
  Permutation.Permutation (flat_map snd (w_olists s)) (r2ol_listed s) /\
  (forall oi, In oi (r2ol_listed s) -> In oi (StatsProofs.sp_registered s)).
Proof. exact reachable_stats_observers_O. Qed.

(** ** The aggregates over raw model histories (Rel2HistOLF): everything of [MInv0] except [mi_idl] and [mi_rel] holds in every
    reachable state - without any side condition on the lines -, so the aggregate early-out is sound there: for the REAL
    callbacks (of any kind) a dispatch does not depend on [earlyOut]; with passive callbacks it is the specification. *)
Theorem C08_manager_and_aggregate_invariant_over_raw_histories : forall c lines,
  Forall (rel_o_line (sc_kinds c)) lines -> MInvOF (Properties.Common.exec c lines).
Proof. exact reachable_MInvOF. Qed.

Theorem C08_MInv_is_MInvOF_plus_the_two_failing_clauses : forall s, MInvOF s ->
  (forall oi o, obj s oi = Some o -> o_id o <> None -> In oi (olist s (o_event o))) ->
  (forall oi o, obj s oi = Some o -> is_relation_event (o_event o) = true -> forall c, In c (o_for o) -> is_rel_comp s c = true) ->
  MInv s.
Proof. exact r2olf_to_MInv. Qed.

Theorem C08_early_out_unobservable_entity_events : forall c lines, Forall (rel_o_line (sc_kinds c)) lines ->
  forall evt e m eo, let s := Properties.Common.exec c lines in
  fire evt (early_with m) (p_with m) e eo s = fire evt (early_with m) (p_with m) e false s.
Proof. exact reachable_early_out_unobservable_entity. Qed.

Theorem C08_early_out_unobservable_entity_relation_events : forall c lines, Forall (rel_o_line (sc_kinds c)) lines ->
  forall evt e m eo, is_entity_event evt = false -> let s := Properties.Common.exec c lines in
  fire evt (fun g => (early_comps m g || early_with m g)%bool) (p_entity_rel m) e eo s =
  fire evt (fun g => (early_comps m g || early_with m g)%bool) (p_entity_rel m) e false s.
Proof. exact reachable_early_out_unobservable_entity_rel. Qed.

Theorem C08_early_out_unobservable_add_events : forall c lines, Forall (rel_o_line (sc_kinds c)) lines ->
  forall evt e old new eo, is_entity_event evt = false -> let s := Properties.Common.exec c lines in
  fire_add evt e old new eo s = fire_add evt e old new false s.
Proof. exact reachable_early_out_unobservable_add. Qed.

Theorem C08_early_out_unobservable_remove_events : forall c lines, Forall (rel_o_line (sc_kinds c)) lines ->
  forall evt e old new eo, is_entity_event evt = false -> let s := Properties.Common.exec c lines in
  fire_remove evt e old new eo s = fire_remove evt e old new false s.
Proof. exact reachable_early_out_unobservable_remove. Qed.

Theorem C08_early_out_unobservable_set_relation_custom_events : forall c lines, Forall (rel_o_line (sc_kinds c)) lines ->
  forall evt e cm em eo, is_entity_event evt = false -> let s := Properties.Common.exec c lines in
  fire_set evt e cm em eo s = fire_set evt e cm em false s.
Proof. exact reachable_early_out_unobservable_set. Qed.

Theorem C08_has_obs_shortcut_exact : forall c lines, Forall (rel_o_line (sc_kinds c)) lines ->
  forall evt, let s := Properties.Common.exec c lines in has_obs s evt = negb (is_nil (olist s evt)).
Proof. exact reachable_has_obs_exact. Qed.

Theorem C08_dispatch_exact_over_raw_histories : forall c lines cb evt e cm em eo, Forall (rel_o_line (sc_kinds c)) lines ->
  cb_stable cb -> is_entity_event evt = false ->
  let s := Properties.Common.exec c lines in
  fire_with cb evt (early_set cm em) (p_set cm em) e eo s = dispatch_spec cb s evt (p_set cm em) e.
Proof. exact reachable_dispatch_exact_set. Qed.

Definition C08_all := (C08_manager_and_aggregate_invariant_over_raw_histories, C08_MInv_is_MInvOF_plus_the_two_failing_clauses, C08_early_out_unobservable_entity_events, C08_early_out_unobservable_entity_relation_events, C08_early_out_unobservable_add_events, C08_early_out_unobservable_remove_events, C08_early_out_unobservable_set_relation_custom_events, C08_has_obs_shortcut_exact, C08_dispatch_exact_over_raw_histories, C08_manager_invariant_over_histories_with_callbacks, C08_MInv_fails_for_raw_histories, C08_unregister_of_a_listed_observer_succeeds, C08_register_unregister_keep_the_manager_invariant, C08_callback_returns, C08_callbacks_of_structural_operations_never_fail, C08_step_commutes_with_erasure, C08_emit_outcomes, C08_observer_figure_is_the_number_of_listed_observers, C08_observers_are_transparent_for_the_storage, C08_callback_fails_only_for, C08_dispatch_entity_events, C08_dispatch_entity_relation_events, C08_dispatch_add_events, C08_dispatch_remove_events, C08_dispatch_set_relation_custom_events, C08_reset_clears_every_event_type, C08_remove_predicate_documented).
Print Assumptions C08_all.
