(** * C08 — Observers fire exactly per their declared filter, whatever else is registered.

    Proved here, for EVERY observer-manager state reachable by any history of register / unregister
    / Reset (any observer specifications, any order, including re-registration), every event
    context (old/new/changed component sets as arbitrary masks), both values of earlyOut and every
    callback that leaves the manager alone:
      dispatch = "call the callback of exactly the registered observers of that event type whose
      documented predicate holds, once each, in list order"
    — in particular the aggregate early-out never suppresses a matching observer, so whether an
    observer fires does not depend on which other observers are or were registered. The model's
    predicates are restated as the documented set conditions (ObsDoc). Also: if nothing fires for
    the first entity of a table nothing fires for any (batch early-out idiom), Reset clears every
    event type (including 255), the observer count is exact.
    Not proved: (a) which event contexts each operation emits (call sites; tied by the `observers`
    correspondence stream, where every callback of every operation is compared), (b) dispatch with
    callbacks that unregister observers (the snapshot semantics are modelled and exercised by the
    stream; the theorem assumes [cb_stable]). *)
From Ark Require Import Model.Base Model.Mask Model.Pool Model.World.
From Ark Require Import Proofs.ObsSpec Proofs.ObsProofs Proofs.ObsDoc Properties.Common Model.Run.
From Ark Require Import Proofs.ObsErase Proofs.Rel2HistO.
From Coq Require Import Lia.

Theorem C08_dispatch_entity_events :
  forall s0 ops cb evt e m eo, obs_init s0 -> cb_stable cb ->
  (evt = EvCreateEntity \/ evt = EvRemoveEntity) ->
  let s := fold_left ostep ops s0 in
  fire_with cb evt (early_with m) (p_with m) e eo s = dispatch_spec cb s evt (p_with m) e.
Proof. exact dispatch_exact_entity. Qed.

Theorem C08_dispatch_entity_relation_events :
  forall s0 ops cb evt e m eo, obs_init s0 -> cb_stable cb ->
  (evt = EvAddRelations \/ evt = EvRemoveRelations) ->
  let s := fold_left ostep ops s0 in
  fire_with cb evt (fun g => (early_comps m g || early_with m g)%bool) (p_entity_rel m) e eo s
  = dispatch_spec cb s evt (p_entity_rel m) e.
Proof. exact dispatch_exact_entity_rel. Qed.

Theorem C08_dispatch_add_events :
  forall s0 ops cb evt e old new eo, obs_init s0 -> cb_stable cb ->
  (evt = EvAddComponents \/ evt = EvAddRelations) ->
  let s := fold_left ostep ops s0 in
  fire_with cb evt (early_add old new) (p_add old new) e eo s = dispatch_spec cb s evt (p_add old new) e.
Proof. exact dispatch_exact_add. Qed.

Theorem C08_dispatch_remove_events :
  forall s0 ops cb evt e old new eo, obs_init s0 -> cb_stable cb ->
  (evt = EvRemoveComponents \/ evt = EvRemoveRelations) ->
  let s := fold_left ostep ops s0 in
  fire_with cb evt (early_remove old new) (p_remove old new) e eo s = dispatch_spec cb s evt (p_remove old new) e.
Proof. exact dispatch_exact_remove. Qed.

Theorem C08_dispatch_set_relation_custom_events :
  forall s0 ops cb evt e cm em eo, obs_init s0 -> cb_stable cb ->
  is_entity_event evt = false -> evt < 256 ->
  let s := fold_left ostep ops s0 in
  fire_with cb evt (early_set cm em) (p_set cm em) e eo s = dispatch_spec cb s evt (p_set cm em) e.
Proof. exact dispatch_exact_set. Qed.

Theorem C08_batch_early_out :
  forall s evt pred, fired s evt pred = [] ->
  forall cb e, cb_stable cb -> dispatch_spec cb s evt pred e = Ok false s.
Proof. exact fired_entity_independent. Qed.

Theorem C08_reset_clears_every_event_type :
  forall s0 ops evt, obs_init s0 ->
  let s := ostep (fold_left ostep ops s0) OResetObs in
  olist s evt = [] /\ has_obs s evt = false /\ w_ototal s = 0.
Proof. exact reset_clears_all. Qed.

Theorem C08_count_exact :
  forall s0 ops, obs_init s0 ->
  let s := fold_left ostep ops s0 in
  w_ototal s = fold_left (fun acc kv => acc + length (snd kv)) (w_olists s) 0.
Proof. exact total_count_exact. Qed.

(** The predicates are the documented ones. *)
Theorem C08_remove_predicate_documented : forall old new o,
  p_remove old new o = true <->
  (o_hascomps o = true -> subset (o_comps o) old /\ disjoint new (o_comps o)) /\ doc_with old o.
Proof. exact p_remove_doc. Qed.

Theorem C08_add_predicate_documented : forall old new o,
  p_add old new o = true <->
  (o_hascomps o = true -> subset (o_comps o) new /\ disjoint old (o_comps o)) /\ doc_with old o.
Proof. exact p_add_doc. Qed.

Theorem C08_set_predicate_documented : forall cm em o,
  p_set cm em o = true <-> (o_hascomps o = true -> subset (o_comps o) cm) /\ doc_with em o.
Proof. exact p_set_doc. Qed.

(** Non-vacuity: a world with three observer objects (the initial state satisfies [obs_init]),
    and a history after which observer 1 (remove, For(0,1)) does not fire when only component 0 goes. *)
Definition obs_world : W :=
  exec small_cfg [[25; 252; 2; 0; 1; 0; 0; 0; 0]; [25; 252; 1; 0; 0; 0; 0; 0]; [25; 249; 0; 1; 2; 0; 0; 0]]%Z.
Example C08_obs_world_init : obs_init obs_world.
Proof.
  unfold obs_init. split; [vm_compute; reflexivity|]. split; [vm_compute; reflexivity|].
  split; [vm_compute; reflexivity|]. split; [vm_compute; reflexivity|]. split; [vm_compute; reflexivity|].
  intros o Ho. vm_compute in Ho.
  destruct Ho as [<-|[<-|[<-|[]]]]; (split; [reflexivity|]); (split; [reflexivity|]); (split; [reflexivity|]);
    (split; [reflexivity|]); (split; [apply Nat.ltb_lt; vm_compute; reflexivity|]); split.
  all: match goal with
       | |- forall c, In c _ -> _ < _ =>
           intros c Hc; vm_compute in Hc; repeat (destruct Hc as [<-|Hc]; [apply Nat.ltb_lt; vm_compute; reflexivity|]); destruct Hc
       | |- _ = true -> _ => intros Hr; vm_compute in Hr; discriminate Hr
       end.
Qed.
Example C08_remove_needs_all :
  let s := fold_left ostep [ORegister 0; ORegister 1] obs_world in
  fired s 252 (p_remove (mk_of_list [0; 1]) (mk_of_list [1])) = [1] /\
  fired s 252 (p_remove (mk_of_list [0; 1]) (mk_of_list [])) = [0; 1].
Proof. vm_compute. split; reflexivity. Qed.

(** One traversal of the dependency graph for all theorems of this file. *)
(** Observers never influence what an operation does to the world (ObsErase / Rel2HistO): a step that returns in a
    world with observers of ANY callback kind returns the same value in the world with all observers erased, and the
    erased result states coincide; a callback can fail only for lack of a lock bit (all 64 held), an unknown observer
    index, or through the unregistration it issues itself. *)
Theorem C08_observers_are_transparent_for_the_storage :
  forall (debug wd : bool) (s : W) (line : list Z) (o : op),
         decode_op line = Some o ->
         oe_struct_op o = true ->
         is_locked s = false ->
         is_err (step_op debug o (RecordSet.set w_log (fun _ : list (list Z) => []) s)) = false ->
         oe_E (fst (step debug wd s line)) = fst (step debug wd (oe_E s) line) /\
         (exists (a : list Z) (s1 : W),
            step_op debug o (RecordSet.set w_log (fun _ : list (list Z) => []) s) = Ok a s1 /\
            step_op debug o (oe_E s) = Ok a (oe_E s1)).
Proof. exact r2o_step_erasure. Qed.

Theorem C08_callback_fails_only_for :
  forall (oi : nat) (e : ent) (s : W) (er : err) (s' : W),
         run_callback oi e s = Err er s' ->
         lock_lock (w_lock s) = None \/
         alive s e = true /\ snapshot_entity s e = None \/
         nth_error (w_obs s) oi = None \/ (exists (k : nat) (sk : W), remove_observer k sk = Err er s').
Proof. exact oe_run_callback_err. Qed.

Definition C08_all := (C08_observers_are_transparent_for_the_storage, C08_callback_fails_only_for, C08_dispatch_entity_events, C08_dispatch_entity_relation_events, C08_dispatch_add_events, C08_dispatch_remove_events, C08_dispatch_set_relation_custom_events, C08_reset_clears_every_event_type, C08_remove_predicate_documented).
Print Assumptions C08_all.
