(** * C20 — Build configurations are behaviourally equivalent.

    The four builds (tags ark_tiny, ark_debug, both, neither) are the model's two flags: [sc_bits]
    (64 or 256, the mask width) and the debug flag of [run_lines] (the additional cursor checks and
    the other panic message of a missing component). Proved for ALL histories:
    - [C20_debug_irrelevant]: the complete observation trace of every script - results, which
      calls panic, callback logs, the API view of every handle and the internal dump after every
      step - is the same with and without the debug flag. The proof needs an invariant of the query
      cursors that survives FAILING operations too ("a query whose cursor points at no table has
      no current table"); the first attempt refuted the theorem with three concrete scripts, two
      of which reproduced on the Go builds: after a Next that panicked inside the archetype walk,
      Entity() returned a stale entity in the default build and panicked with ark_debug. That
      defect is repaired in /repo (fix 6a54a20, witness TestWitness_C20_EntityAfterFailedNext);
      the scripts are kept as regression examples ([be_regressions]).
    - [C20_bits_irrelevant] / [C20_build_tags_irrelevant]: for histories whose component IDs stay
      below 64 the trace with 64-bit masks equals the trace with 256-bit masks, for any combination
      of the two flags. The ID restriction is necessary ([C20_ids_below_64_needed]): the model does
      not check that IDs are registered (the Go API cannot produce an unregistered ID).
    - the concrete mask implementations (mask64: one word with explicit mod 2^64; mask256: four
      words) both refine the abstract masks of the model on bits below their width, and agree with
      each other on bits below 64 (MaskProofs: [m64_*_refines], [m256_*_refines], [m64_m256_agree]).
    What the model does not contain is tied on the implementation: the same seeded scripts run
    under the four tag combinations must give the same trace, each equal to the model run with the
    corresponding flags; the witnesses of the repaired defects run under all four builds; and the
    finding probes compare, call by call, which calls panic. One divergence is a KNOWN FINDING,
    recorded and not repaired (known_findings.json, typed-get-outside-iteration): the generated
    typed QueryN.Get() outside an iteration returns nil/stale pointers in the default build and
    panics with ark_debug. It is outside the model's operation language (the model's queries are
    Query0/UnsafeQuery: Entity, Next, Count, EntityAt, Close). *)
From Ark Require Import Model.Base Model.Mask Model.Pool Model.Util Model.World Model.Run.
From Ark Require Import Proofs.MaskProofs Proofs.BuildEquiv.

Theorem C20_debug_irrelevant : forall c wd lines,
  run_lines true wd (init_world c) lines = run_lines false wd (init_world c) lines.
Proof. exact debug_irrelevant. Qed.

Theorem C20_bits_irrelevant : forall c d wd lines,
  length (sc_kinds c) <= 64 ->
  (forall l o, In l lines -> decode_op l = Some o -> be_op_small o) ->
  run_lines d wd (init_world (be_with_bits c 64)) lines = run_lines d wd (init_world (be_with_bits c 256)) lines.
Proof. exact bits_irrelevant. Qed.

Theorem C20_build_tags_irrelevant : forall c d1 d2 b1 b2 wd lines,
  (b1 = 64 \/ b1 = 256) -> (b2 = 64 \/ b2 = 256) ->
  (forall l o, In l lines -> decode_op l = Some o -> be_op_small o) ->
  run_lines d1 wd (init_world (be_with_bits c b1)) lines = run_lines d2 wd (init_world (be_with_bits c b2)) lines.
Proof. exact build_tags_irrelevant. Qed.

Definition C20_ids_below_64_needed := bits_irrelevant_refuted_large_ids.

Theorem C20_mask_widths_agree : forall x, word_ok x ->
  m256_to_N {| b0 := x; b1 := 0; b2 := 0; b3 := 0 |} = x.
Proof. exact m64_m256_agree. Qed.

(** Non-vacuity: two scripts (52 and 38 lines: queries opened, advanced, exhausted, closed twice, used
    after close, Entity before Next, missing components, locked-world operations, observers, batches,
    relations, Reset, Shrink) whose four traces are equal by computation; the three scripts that
    refuted the first version of the theorem. *)
Definition C20_examples := (be_four_traces_1, be_four_traces_2, be_regressions).

Definition C20_all := (C20_debug_irrelevant, C20_bits_irrelevant, C20_build_tags_irrelevant, C20_ids_below_64_needed,
  C20_mask_widths_agree, C20_examples).
Print Assumptions C20_all.
