(** * C09 — Observer callbacks see a consistent world at the documented time.

    Proved here (relation-free tier):
    - WHAT A CALLBACK OBSERVES is a function of the state at callback time: the logged entry is
      [IsLocked, Alive(e), number of occurrences of e in a full query, e's components / values]
      computed on the state handed to the dispatch (run_callback_log_entry);
    - REMOVAL CALLBACKS RUN BEFORE THE CHANGE: [w_remove] is its guard/lookup prefix, then the
      removal events, then the row move; the state handed to the removal events has exactly the
      content of the state before the call (only archetypes/tables may have been created), and the
      entity is live in it with all the components about to be removed;
    - ADD / CREATE CALLBACKS RUN AFTER THE CHANGE: in the operation language the add and create events
      are dispatched on the state returned by the storage operation (by definition of [step_op]; the
      storage theorems C01 describe that state);
    - INSIDE A CALLBACK AN ENTITY APPEARS AT MOST ONCE IN A QUERY in every state satisfying the
      invariant, never if it is not live, and exactly once if every table is listed by its
      archetype (an invariant clause that is not yet carried by [St]; shown necessary);
    - callbacks and event dispatch never touch the storage (StorageA: fire_*_storage).
    - BATCH OPERATIONS (BatchView.v; relation-free tier, passive observers = observers that only
      observe): for RemoveEntities, Add/Remove/ExchangeBatch and NewBatch the log produced by the
      operation has the shape the property demands: all OnRemoveEntity / OnRemoveComponents entries
      report the PRE-state content of their entity ([bv_reports s]) and precede every table move;
      the batch callback runs once per entity; all OnAddComponents / OnCreateEntity entries come
      after ALL tables were moved and all batch callbacks ran and report the POST-state content
      ([bv_reports s'], including the values the callbacks wrote); every entry reports locked = 1,
      alive = 1, occurrence count = 1; the (observer, entity) pairs reported are exactly the
      selected entities matched by each observer's filter, each once; the world is unlocked at the
      end and the final state is the one the C06 theorems describe. With observers that unregister
      themselves the exactness of the pair set is refuted ([C09_active_observers_refuted]); the
      shape and content of every entry still holds ([C09_*_partial]).
    Not covered by theorems: relation events in relation worlds, SetRelationsBatch - `observers`
    correspondence stream: every callback's [locked, alive, occurrence count, snapshot] is compared
    with the model, plus the oracle "alive and seen exactly once" on the implementation's own log. *)
From Ark Require Import Model.Base Model.Mask Model.Pool Model.Util Model.World Model.Run.
From Ark Require Import Proofs.WF Proofs.StorageA Proofs.StorageBDefs Proofs.ViewProofs Proofs.BatchView Proofs.StorageD Properties.Common.

Theorem C09_callback_logs_state_at_callback_time : forall oi e s u s',
  run_callback oi e s = Ok u s' -> w_log s' = w_log s ++ [v_cb_entry oi e s].
Proof. exact run_callback_log_entry. Qed.

Theorem C09_remove_is_prefix_events_move : forall e rem s,
  w_remove e rem s =
  (p <- remove_prefix e rem ;;
   let '(otid, row, ntid, om, m, rel_removed) := p in
   fire_remove_events e om m rel_removed ;;;
   nidx <- tbl_addM ntid e ;;
   copy_row otid ntid m row nidx ;;;
   remove_row otid row ;;;
   set_index_direct e ntid nidx) s.
Proof. exact v_w_remove_prefix. Qed.

Theorem C09_removal_events_see_old_content : forall s e rem, St s -> registered s rem ->
  match remove_prefix e rem s with
  | Ok _ s1 => St s1 /\ content_same s s1 /\ live s1 e = true /\ w_lock s1 = w_lock s /\ w_log s1 = w_log s
  | Err _ s1 => content_same s s1
  end.
Proof. exact remove_events_see_old_content. Qed.

(** Add events are dispatched on the state returned by the add (definitional; the content of that
    state is given by C01_add). *)
Theorem C09_add_events_after_change : forall debug h ids s e s0 om nm s1,
  resolveH h s = Ok e s0 -> alive s0 e = true -> w_add e ids [] s0 = Ok (om, nm) s1 ->
  step_op debug (OUAdd h ids) s =
  (fire_add_if_has EvAddComponents e om nm ;;; ret []) s1.
Proof.
  intros debug h ids s e s0 om nm s1 Hr Ha Hw. cbn [step_op]. unfold bind at 1. rewrite Hr.
  unfold bind at 1. cbn [get]. unfold bind at 1. rewrite Ha. cbn [guard ret].
  unfold bind at 1. rewrite Hw. cbn [fst snd]. reflexivity.
Qed.

Theorem C09_seen_at_most_once : forall s e, St s -> count_in_world s e <= 1.
Proof. exact counted_at_most_once. Qed.

Theorem C09_dead_never_seen : forall s e, St s -> live s e = false -> count_in_world s e = 0.
Proof. exact dead_counted_zero. Qed.

Theorem C09_live_seen_exactly_once_partial : forall s e, St s -> v_tables_listed s -> live s e = true ->
  count_in_world s e = 1.
Proof. exact live_counted_once_partial. Qed.

(** Non-vacuity: an OnRemoveComponents observer on a world with two entities; the callback entry of
    removing component 0 from the first entity shows it alive, seen once, with both components. *)
Definition cb_world : W :=
  exec small_cfg [[1; 2; 0; 1]; [1; 1; 0]; [9; 0; 0; 5]; [9; 0; 1; 6]; [25; 252; 0; 0; 0; 0; 0]; [26; 0]]%Z.
Example C09_remove_callback_entry :
  snd (step false false cb_world [7; 0; 1; 0]%Z) =
  [0; 0;  1; 16; 100; 0; 2; 0; 1; 1; 1; 2; 0; 5; 0; 0; 1; 6; 0; 0;
   2; 1; 1; 1; 6; 0; 0; 1; 1; 0; 0; 0; 0; 2; 0]%Z.
Proof. vm_compute. reflexivity. Qed.

(** ** Batch operations with observers: see the header; the statements are those of BatchView.v. *)
Definition C09_remove_entities_batch := remove_entities_view.
Definition C09_exchange_batch := exchange_batch_view.
Definition C09_new_batch := new_batch_view.
Definition C09_remove_entities_batch_partial := remove_entities_view_partial.
Definition C09_exchange_batch_partial := exchange_batch_view_partial.
Definition C09_new_batch_partial := new_batch_view_partial.
Definition C09_active_observers_refuted := remove_entities_view_active_refuted.
Definition C09_batch_examples := (batch_view_nonvacuous, bv_world_remove_entities, remove_entities_view_example,
  exchange_batch_view_example, new_batch_view_example).

(** Over histories (StorageD.v): "appears exactly once in any query" without the extra hypothesis:
    [tables_listed] is an invariant of every history of the core operations, queries and filter
    creation. *)
Definition C09_live_seen_exactly_once_after_every_history := reachable_live_seen_exactly_once.
Definition C09_snapshot_is_content_after_every_history := reachable_snapshot_is_content.

Definition C09_all := (C09_live_seen_exactly_once_after_every_history, C09_snapshot_is_content_after_every_history, C09_callback_logs_state_at_callback_time, C09_remove_is_prefix_events_move,
  C09_removal_events_see_old_content, C09_add_events_after_change, C09_seen_at_most_once, C09_dead_never_seen,
  C09_live_seen_exactly_once_partial, C09_remove_entities_batch, C09_exchange_batch, C09_new_batch,
  C09_remove_entities_batch_partial, C09_exchange_batch_partial, C09_new_batch_partial,
  C09_active_observers_refuted, C09_batch_examples).
Print Assumptions C09_all.
