(** * C09 — Observer callbacks see a consistent world at the documented time.

    Proved here (relation-free tier):
    - WHAT A CALLBACK OBSERVES is a function of the state at callback time: the logged entry is
      [IsLocked, Alive(e), number of occurrences of e in a full query, e's components / values]
      computed on the state handed to the dispatch (run_callback_log_entry);
    - REMOVAL CALLBACKS RUN BEFORE THE CHANGE: [w_remove] is its guard/lookup prefix, then the
      removal events, then the row move; the state handed to the removal events has exactly the
      content of the state before the call (only archetypes/tables may have been created), and the
      entity is live in it with all the components about to be removed;
    - ADD / CREATE CALLBACKS RUN AFTER THE CHANGE: in the operation language the add and create events
      are dispatched on the state returned by the storage operation (by definition of [step_op]; the
      storage theorems C01 describe that state);
    - INSIDE A CALLBACK AN ENTITY APPEARS AT MOST ONCE IN A QUERY in every state satisfying the
      invariant, never if it is not live, and exactly once if every table is listed by its
      archetype (an invariant clause that is not yet carried by [St]; shown necessary);
    - callbacks and event dispatch never touch the storage (StorageA: fire_*_storage).
    - BATCH OPERATIONS (BatchView.v; relation-free tier, passive observers = observers that only
      observe): for RemoveEntities, Add/Remove/ExchangeBatch and NewBatch the log produced by the
      operation has the shape the property demands: all OnRemoveEntity / OnRemoveComponents entries
      report the PRE-state content of their entity ([bv_reports s]) and precede every table move;
      the batch callback runs once per entity; all OnAddComponents / OnCreateEntity entries come
      after ALL tables were moved and all batch callbacks ran and report the POST-state content
      ([bv_reports s'], including the values the callbacks wrote); every entry reports locked = 1,
      alive = 1, occurrence count = 1; the (observer, entity) pairs reported are exactly the
      selected entities matched by each observer's filter, each once; the world is unlocked at the
      end and the final state is the one the C06 theorems describe. With observers that unregister
      themselves the exactness of the pair set is refuted ([C09_active_observers_refuted]); the
      shape and content of every entry still holds ([C09_*_partial]).
    - RELATION BATCH (BatchViewRel.v; worlds WITH relation components, passive OnRemoveRelations /
      OnAddRelations observers, no further invariant): the log of a successful SetRelationsBatch is
      (OnRemoveRelations entries) ++ (batch-callback entries) ++ (OnAddRelations entries); every removal
      entry is the entry computed on ONE state [s_pre] in which no row of the batch has moved (same index,
      pool and rows as before the call; if recycled tables are empty - clause of [St2] - also the same
      [world_view] and literally the same non-empty tables), every add entry is the entry computed on ONE
      state [s_post] reached after ALL moves, which has the tables, archetypes, index and pool of the final
      state ([C09_set_relations_batch]; under [St2], directly: removal entries = entries computed on the
      pre-state, add entries = entries computed on the final state, [C09_set_relations_batch_timing]). If planning is rejected for any table of the batch the call
      fails before any row moved and before any callback ran; unlocked again ([C09_set_relations_batch_rejected]).
    Not covered by theorems: the exact set of (observer, entity) pairs of the relation events (only: registered
    observers, rows of the planned tables), relation events of the single-entity operations - `observers`
    correspondence stream: every callback's [locked, alive, occurrence count, snapshot] is compared
    with the model, plus the oracle "alive and seen exactly once" on the implementation's own log. *)
From Ark Require Import Model.Base Model.Mask Model.Pool Model.Util Model.World Model.Run.
From Ark Require Import Proofs.WF Proofs.StorageA Proofs.StorageBDefs Proofs.ViewProofs Proofs.BatchProofs Proofs.BatchView Proofs.BatchViewRel Proofs.StorageD Properties.Common.
From RecordUpdate Require Import RecordSet.
Import RecordSetNotations.

Theorem C09_callback_logs_state_at_callback_time : forall oi e s u s',
  run_callback oi e s = Ok u s' -> w_log s' = w_log s ++ [v_cb_entry oi e s].
Proof. exact run_callback_log_entry. Qed.

Theorem C09_remove_is_prefix_events_move : forall e rem s,
  w_remove e rem s =
  (p <- remove_prefix e rem ;;
   let '(otid, row, ntid, om, m, rel_removed) := p in
   fire_remove_events e om m rel_removed ;;;
   nidx <- tbl_addM ntid e ;;
   copy_row otid ntid m row nidx ;;;
   remove_row otid row ;;;
   set_index_direct e ntid nidx) s.
Proof. exact v_w_remove_prefix. Qed.

Theorem C09_removal_events_see_old_content : forall s e rem, St s -> registered s rem ->
  match remove_prefix e rem s with
  | Ok _ s1 => St s1 /\ content_same s s1 /\ live s1 e = true /\ w_lock s1 = w_lock s /\ w_log s1 = w_log s
  | Err _ s1 => content_same s s1
  end.
Proof. exact remove_events_see_old_content. Qed.

(** Add events are dispatched on the state returned by the add (definitional; the content of that
    state is given by C01_add). *)
Theorem C09_add_events_after_change : forall debug h ids s e s0 om nm s1,
  resolveH h s = Ok e s0 -> alive s0 e = true -> w_add e ids [] s0 = Ok (om, nm) s1 ->
  step_op debug (OUAdd h ids) s =
  (fire_add_if_has EvAddComponents e om nm ;;; ret []) s1.
Proof.
  intros debug h ids s e s0 om nm s1 Hr Ha Hw. cbn [step_op]. unfold bind at 1. rewrite Hr.
  unfold bind at 1. cbn [get]. unfold bind at 1. rewrite Ha. cbn [guard ret].
  unfold bind at 1. rewrite Hw. cbn [fst snd]. reflexivity.
Qed.

Theorem C09_seen_at_most_once : forall s e, St s -> count_in_world s e <= 1.
Proof. exact counted_at_most_once. Qed.

Theorem C09_dead_never_seen : forall s e, St s -> live s e = false -> count_in_world s e = 0.
Proof. exact dead_counted_zero. Qed.

Theorem C09_live_seen_exactly_once_partial : forall s e, St s -> v_tables_listed s -> live s e = true ->
  count_in_world s e = 1.
Proof. exact live_counted_once_partial. Qed.

(** Non-vacuity: an OnRemoveComponents observer on a world with two entities; the callback entry of
    removing component 0 from the first entity shows it alive, seen once, with both components. *)
Definition cb_world : W :=
  exec small_cfg [[1; 2; 0; 1]; [1; 1; 0]; [9; 0; 0; 5]; [9; 0; 1; 6]; [25; 252; 0; 0; 0; 0; 0]; [26; 0]]%Z.
Example C09_remove_callback_entry :
  snd (step false false cb_world [7; 0; 1; 0]%Z) =
  [0; 0;  1; 34; 100; 0; 2; 0; 1; 1; 1; 2; 0; 5; 0; 0; 1; 6; 0; 0;
   (* the world as the callback sees it ([world_view]): both entities, nothing changed yet *)
   2; 0; 2; 0; 5; 0; 0; 1; 6; 0; 0;  3; 0; 1; 0; 0; 0; 0;
   2; 1; 1; 1; 6; 0; 0; 1; 1; 0; 0; 0; 0; 2; 0]%Z.
Proof. vm_compute. reflexivity. Qed.

(** ** Batch operations with observers: see the header; the statements are those of BatchView.v. *)
Definition C09_remove_entities_batch := remove_entities_view.
Definition C09_exchange_batch := exchange_batch_view.
Definition C09_new_batch := new_batch_view.
Definition C09_remove_entities_batch_partial := remove_entities_view_partial.
Definition C09_exchange_batch_partial := exchange_batch_view_partial.
Definition C09_new_batch_partial := new_batch_view_partial.
Definition C09_active_observers_refuted := remove_entities_view_active_refuted.
Definition C09_batch_examples := (batch_view_nonvacuous, bv_world_remove_entities, remove_entities_view_example,
  exchange_batch_view_example, new_batch_view_example).

(** ** The relation batch with relation observers (BatchViewRel.v): all OnRemoveRelations entries are computed
    on the state [s_pre] BEFORE any row of the batch moved and precede every batch-callback entry and every
    OnAddRelations entry; all OnAddRelations entries are computed on the state [s_post] AFTER all moves. *)
Theorem C09_set_relations_batch : forall s fi brels rels s',
  bv_lock_ok (w_lock s) [] -> bv_passive s EvRemoveRelations -> bv_passive s EvAddRelations ->
  w_set_relations_batch fi brels rels s = Ok tt s' ->
  exists lb s_pre s_post plans moved Pr Pa es,
    bvr_pre s lb s_pre /\ bvr_vw s s_pre /\
    bvr_rem_ok s_pre plans Pr /\ bvr_add_ok s_post moved Pa /\
    w_log s' = w_log s ++ bv_entries s_pre Pr ++ map b_entry es ++ bv_entries s_post Pa /\
    (exists s_pre', bv_ev [lb] s_pre s_pre' (bv_entries s_pre Pr) /\
                    mapM plans set_relations_move s_pre' = Ok moved s_post) /\
    bv_lock_ok (w_lock s_post) [lb] /\ bv_mgr_same s s_post /\ w_pool s_post = w_pool s /\
    w_tables s' = w_tables s_post /\ w_archs s' = w_archs s_post /\ w_index s' = w_index s_post /\
    w_pool s' = w_pool s_post /\ world_view s' = world_view s_post /\
    bv_lock_ok (w_lock s') [] /\ is_locked s' = false.
Proof. exact set_relations_batch_view. Qed.

(** The same on the pre-state and the final state only (relation invariant [St2]): every OnRemoveRelations
    entry is the entry of its entity computed on the PRE-state (locked), every OnAddRelations entry the one
    computed on the FINAL state (locked). *)
Theorem C09_set_relations_batch_timing : forall s fi brels rels s',
  Rel2Defs.St2 s -> bv_lock_ok (w_lock s) [] -> bv_passive s EvRemoveRelations -> bv_passive s EvAddRelations ->
  w_set_relations_batch fi brels rels s = Ok tt s' ->
  exists Pr Pa es,
    w_log s' = w_log s ++ map (fun p => bvr_locked_entry (fst p) (snd p) s) Pr ++ map b_entry es ++
                         map (fun p => bvr_locked_entry (fst p) (snd p) s') Pa /\
    (forall p, In p Pr -> In (fst p) (olist s EvRemoveRelations)) /\
    (forall p, In p Pa -> In (fst p) (olist s EvAddRelations)) /\
    is_locked s' = false.
Proof. exact set_relations_batch_timing. Qed.

Theorem C09_set_relations_batch_rejected : forall s fi brels rels,
  bv_lock_ok (w_lock s) [] -> rels <> [] ->
  exists lb l1, lock_lock (w_lock s) = Some (lb, l1) /\
    forall er sx, bvr_planning fi brels rels (s <| w_lock := l1 |>) = Err er sx ->
    exists s', w_set_relations_batch fi brels rels s = Err er s' /\
      w_index s' = w_index s /\ w_pool s' = w_pool s /\ w_log s' = w_log s /\ bv_mgr_same s s' /\
      (forall tid t, nth_error (w_tables s) tid = Some t ->
         exists t', nth_error (w_tables s') tid = Some t' /\ table_same_data t t') /\
      bvr_vw s s' /\ w_tables s' = w_tables sx /\ w_archs s' = w_archs sx /\
      bv_lock_ok (w_lock s') [] /\ is_locked s' = false.
Proof. exact set_relations_batch_rejected. Qed.

Definition C09_relation_batch_examples := (set_relations_batch_view_nonvacuous, set_relations_batch_view_example,
  bvr_world_view, bvr_world_timing, set_relations_batch_rejected_nonvacuous, set_relations_batch_rejected_example, bvr_free_empty_St2).

(** Over histories (StorageD.v): "appears exactly once in any query" without the extra hypothesis:
    [tables_listed] is an invariant of every history of the core operations, queries and filter
    creation. *)
Definition C09_live_seen_exactly_once_after_every_history := reachable_live_seen_exactly_once.
Definition C09_snapshot_is_content_after_every_history := reachable_snapshot_is_content.

Definition C09_all := (C09_live_seen_exactly_once_after_every_history, C09_snapshot_is_content_after_every_history, C09_callback_logs_state_at_callback_time, C09_remove_is_prefix_events_move,
  C09_removal_events_see_old_content, C09_add_events_after_change, C09_seen_at_most_once, C09_dead_never_seen,
  C09_live_seen_exactly_once_partial, C09_remove_entities_batch, C09_exchange_batch, C09_new_batch,
  C09_remove_entities_batch_partial, C09_exchange_batch_partial, C09_new_batch_partial,
  C09_active_observers_refuted, C09_batch_examples,
  C09_set_relations_batch, C09_set_relations_batch_timing, C09_set_relations_batch_rejected, C09_relation_batch_examples).
Print Assumptions C09_all.
