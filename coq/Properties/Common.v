(** Helpers shared by the property files: executing an operation script on the model to obtain
    concrete reachable states for the non-vacuity examples. *)
From Ark Require Import Model.Base Model.Mask Model.Pool Model.World Model.Run.

Definition small_cfg : script_cfg :=
  {| sc_cap := 2; sc_caprel := 1; sc_bits := 256; sc_debug := false;
     sc_kinds := map kind_of_code [0; 1; 2; 7; 8; 4; 6; 9]%Z |}.

Definition exec (c : script_cfg) (lines : list (list Z)) : W :=
  fold_left (fun s l => fst (step (sc_debug c) false s l)) lines (init_world c).

(** A history is a list of (well-formed) operation lines; [reach c s] = s is reachable. *)
Definition reach (c : script_cfg) (s : W) : Prop := exists lines, s = exec c lines.
