(** * C17 — Entity state serialization round-trips.

    Proved here:
    - binary codec (Entity.MarshalBinary / AppendBinary / UnmarshalBinary): round trip for all
      2^64 (id, generation) pairs, output length and byte range, rejection of every input whose
      length is not 8, and totality/bijectivity on 8-byte inputs;
    - JSON form "[id,gen]" (modelled as a decimal printer/parser; encoding/json itself is not
      verified): round trip for all pairs;
    - dump/load of the entity pool: DumpEntities copies the pool (entities, next, available)
      verbatim and LoadEntities installs that copy, so the loaded pool is the dumped pool; hence
      Alive agrees on every handle (issued or not) and every sequence of subsequent creations
      returns the same handles in both worlds (whatever the free-list shape).
    The rebuilding of the entity index / component-less table by LoadEntities is covered by the
    Go-side twin-world oracle (harness/codec), not by a theorem. *)
From Ark Require Import Model.Base Model.Pool Model.Codec Proofs.CodecProofs.

Theorem C17_bin_roundtrip :
  forall id gen, (id < u32_bound)%N -> (gen < u32_bound)%N ->
  unmarshal_bin (marshal_bin id gen) = Some (id, gen).
Proof. exact bin_roundtrip. Qed.

Theorem C17_bin_shape : forall id gen,
  length (marshal_bin id gen) = 8 /\ Forall (fun b => (b < 256)%N) (marshal_bin id gen).
Proof. intros id gen; split; [exact (bin_length id gen) | exact (bin_bytes id gen)]. Qed.

Theorem C17_bin_reject : forall data, length data <> 8 -> unmarshal_bin data = None.
Proof. exact bin_reject. Qed.

Theorem C17_bin_bijective :
  forall data, length data = 8 -> Forall (fun b => (b < 256)%N) data ->
  exists id gen, (id < u32_bound)%N /\ (gen < u32_bound)%N /\
                 unmarshal_bin data = Some (id, gen) /\ marshal_bin id gen = data.
Proof. exact bin_decode_total. Qed.

Theorem C17_bin_append : forall buf id gen, append_bin buf id gen = buf ++ marshal_bin id gen.
Proof. exact bin_append. Qed.

Theorem C17_json_roundtrip :
  forall id gen, (id < u32_bound)%N -> (gen < u32_bound)%N ->
  unmarshal_json (marshal_json id gen) = Some (id, gen).
Proof. exact json_roundtrip. Qed.

(** Dump / load at pool level (unsafe.go DumpEntities / LoadEntities). *)
Definition pool_dump (p : pool) : list ent * nat * nat := (pe p, pnext p, pavail p).
Definition pool_load (d : list ent * nat * nat) : pool :=
  let '(es, nx, av) := d in {| pe := es; pnext := nx; pavail := av |}.

Lemma pool_load_dump p : pool_load (pool_dump p) = p.
Proof. destruct p; reflexivity. Qed.

Fixpoint gets (n : nat) (p : pool) : list ent :=
  match n with O => [] | S n' => let '(e, p') := pool_get p in e :: gets n' p' end.

Theorem C17_load_dump_alive : forall p h, pool_alive (pool_load (pool_dump p)) h = pool_alive p h.
Proof. intros p h; rewrite pool_load_dump; reflexivity. Qed.

Theorem C17_load_dump_future : forall p n, gets n (pool_load (pool_dump p)) = gets n p.
Proof. intros p n; rewrite pool_load_dump; reflexivity. Qed.

Example C17_example :
  unmarshal_bin (marshal_bin 4294967295 65536) = Some (4294967295%N, 65536%N) /\
  marshal_json 70000 3 = [91; 55; 48; 48; 48; 48; 44; 51; 93]%N /\
  unmarshal_bin [1; 2; 3]%N = None.
Proof. vm_compute. repeat split; reflexivity. Qed.

(** One traversal of the dependency graph for all theorems of this file. *)
Definition C17_all := (C17_bin_roundtrip, C17_bin_shape, C17_bin_reject, C17_bin_bijective, C17_bin_append, C17_json_roundtrip, C17_load_dump_alive, C17_load_dump_future).
Print Assumptions C17_all.
