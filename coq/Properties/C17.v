(** * C17 — Entity state serialization round-trips.

    Proved here:
    - binary codec (Entity.MarshalBinary / AppendBinary / UnmarshalBinary): round trip for all
      2^64 (id, generation) pairs, output length and byte range, rejection of every input whose
      length is not 8, and totality/bijectivity on 8-byte inputs;
    - JSON form "[id,gen]" (modelled as a decimal printer/parser; encoding/json itself is not
      verified): round trip for all pairs;
    - dump/load of the entity pool (Model/DumpLoad.v mirrors the guard and the installation done
      by LoadEntities): a new world and a world after Reset (after any history) accept the dump
      of any pool and then hold exactly that pool; hence Alive agrees on every handle (issued or
      not) and every sequence of subsequent creations returns the same handles in both worlds
      (whatever the free-list shape); a world that holds or has held entities since its last
      Reset rejects every dump, and there is no other failure.
    The rebuilding of the entity index / component-less table by LoadEntities is covered by the
    Go-side twin-world oracle (harness/codec), not by a theorem. *)
From Ark Require Import Model.Base Model.Pool Model.Codec Model.DumpLoad Proofs.CodecProofs Proofs.DumpLoadProofs.

Theorem C17_bin_roundtrip :
  forall id gen, (id < u32_bound)%N -> (gen < u32_bound)%N ->
  unmarshal_bin (marshal_bin id gen) = Some (id, gen).
Proof. exact bin_roundtrip. Qed.

Theorem C17_bin_shape : forall id gen,
  length (marshal_bin id gen) = 8 /\ Forall (fun b => (b < 256)%N) (marshal_bin id gen).
Proof. intros id gen; split; [exact (bin_length id gen) | exact (bin_bytes id gen)]. Qed.

Theorem C17_bin_reject : forall data, length data <> 8 -> unmarshal_bin data = None.
Proof. exact bin_reject. Qed.

Theorem C17_bin_bijective :
  forall data, length data = 8 -> Forall (fun b => (b < 256)%N) data ->
  exists id gen, (id < u32_bound)%N /\ (gen < u32_bound)%N /\
                 unmarshal_bin data = Some (id, gen) /\ marshal_bin id gen = data.
Proof. exact bin_decode_total. Qed.

Theorem C17_bin_append : forall buf id gen, append_bin buf id gen = buf ++ marshal_bin id gen.
Proof. exact bin_append. Qed.

Theorem C17_json_roundtrip :
  forall id gen, (id < u32_bound)%N -> (gen < u32_bound)%N ->
  unmarshal_json (marshal_json id gen) = Some (id, gen).
Proof. exact json_roundtrip. Qed.

(** Dump / load at pool level (unsafe.go DumpEntities / LoadEntities; Model/DumpLoad.v, tied to
    the code on every run by the dump/load cases of the codec correspondence: pool scripts run on
    the extracted model and through the World API, compared on acceptance, Alive of every issued
    handle and the following creations). [has_reserved] (the two reserved slots are there) holds
    for every pool any script reaches ([C17_scripts_reserved]). *)
Theorem C17_scripts_reserved : forall ops, has_reserved (fst (prun ops)).
Proof. exact prun_reserved. Qed.

(** Loading into an empty (new) world or into a world after Reset - whatever that world's
    history - is accepted and installs exactly the dumped pool ... *)
Theorem C17_load_fresh_or_reset : forall p t, has_reserved p ->
  pool_load pool_new (pool_dump p) = Some p /\ pool_load (pool_reset t) (pool_dump p) = Some p.
Proof. intros p t H; split; [apply load_fresh | apply load_reset]; exact H. Qed.

(** ... hence Alive agrees on every handle (issued or not) ... *)
Theorem C17_load_dump_alive : forall p t q h, has_reserved p ->
  pool_load pool_new (pool_dump p) = Some q \/ pool_load (pool_reset t) (pool_dump p) = Some q ->
  pool_alive q h = pool_alive p h.
Proof.
  intros p t q h H [E|E]; [rewrite load_fresh in E by exact H | rewrite load_reset in E by exact H];
  injection E as <-; reflexivity.
Qed.

(** ... and any number of consecutive creations returns the same handles in both worlds. *)
Theorem C17_load_dump_future : forall p t q n, has_reserved p ->
  pool_load pool_new (pool_dump p) = Some q \/ pool_load (pool_reset t) (pool_dump p) = Some q ->
  pgets n q = pgets n p.
Proof.
  intros p t q n H [E|E]; [rewrite load_fresh in E by exact H | rewrite load_reset in E by exact H];
  injection E as <-; reflexivity.
Qed.

(** LoadEntities fails exactly on a world that holds, or has held since its last Reset, an
    entity (more than the reserved slots, or a non-empty free list); nothing is installed then. *)
Theorem C17_load_rejected_iff : forall t d,
  pool_load t d = None <-> (reserved < length (pe t) \/ 0 < pavail t).
Proof. exact load_rejected_iff. Qed.

(** Non-vacuity: a source with a recycled slot, a target with history; rejected before the
    Reset, accepted after it; the recycled handle is dead, its successor alive, next creation
    takes the free slot with the bumped generation. *)
Example C17_dumpload_example :
  dumpload_case [2; 3; 0;0; 0;0; 1;0;  0;0; 0;0]%Z = [1; 1; 0; 1; 2; 1; 4; 0]%Z.
Proof. vm_compute. reflexivity. Qed.

Example C17_example :
  unmarshal_bin (marshal_bin 4294967295 65536) = Some (4294967295%N, 65536%N) /\
  marshal_json 70000 3 = [91; 55; 48; 48; 48; 48; 44; 51; 93]%N /\
  unmarshal_bin [1; 2; 3]%N = None.
Proof. vm_compute. repeat split; reflexivity. Qed.

(** One traversal of the dependency graph for all theorems of this file. *)
Definition C17_all := (C17_bin_roundtrip, C17_bin_shape, C17_bin_reject, C17_bin_bijective, C17_bin_append, C17_json_roundtrip, C17_scripts_reserved, C17_load_fresh_or_reset, C17_load_dump_alive, C17_load_dump_future, C17_load_rejected_iff).
Print Assumptions C17_all.
