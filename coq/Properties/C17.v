(** * C17 — Entity state serialization round-trips.

    Proved here:
    - binary codec (Entity.MarshalBinary / AppendBinary / UnmarshalBinary): round trip for all
      2^64 (id, generation) pairs, output length and byte range, rejection of every input whose
      length is not 8, and totality/bijectivity on 8-byte inputs;
    - JSON form "[id,gen]" (modelled as a decimal printer/parser; encoding/json itself is not
      verified): round trip for all pairs;
    - dump/load of the entity pool (Model/DumpLoad.v mirrors the guard and the installation done
      by LoadEntities): a new world and a world after Reset (after any history) accept the dump
      of any pool and then hold exactly that pool; hence Alive agrees on every handle (issued or
      not) and every sequence of subsequent creations returns the same handles in both worlds
      (whatever the free-list shape); a world that holds or has held entities since its last
      Reset rejects every dump, and there is no other failure.
    - world level (Model/DumpLoadW.v): LoadEntities rejected on locked / used worlds, accepted on
      new or reset ones; the loaded world has the dumped pool, one row of the component-less
      table per alive entity, a fresh index and target flags, and is otherwise untouched.
      The rebuilt index sends the j-th alive ID to row (old length + j) of table 0.
      and that row holds the entity (index and table agree on every loaded entity).
    Hypotheses taken from the C01 storage invariant rather than re-derived: the Alive list is
    well formed ([alive_ok]) and duplicate-free. *)
From Ark Require Import Model.Base Model.Pool Model.Codec Model.Mask Model.World Model.Run Model.DumpLoad Model.DumpLoadW Proofs.CodecProofs Proofs.DumpLoadProofs Proofs.DumpLoadWProofs Proofs.TableProofs.

Theorem C17_bin_roundtrip :
  forall id gen, (id < u32_bound)%N -> (gen < u32_bound)%N ->
  unmarshal_bin (marshal_bin id gen) = Some (id, gen).
Proof. exact bin_roundtrip. Qed.

Theorem C17_bin_shape : forall id gen,
  length (marshal_bin id gen) = 8 /\ Forall (fun b => (b < 256)%N) (marshal_bin id gen).
Proof. intros id gen; split; [exact (bin_length id gen) | exact (bin_bytes id gen)]. Qed.

Theorem C17_bin_reject : forall data, length data <> 8 -> unmarshal_bin data = None.
Proof. exact bin_reject. Qed.

Theorem C17_bin_bijective :
  forall data, length data = 8 -> Forall (fun b => (b < 256)%N) data ->
  exists id gen, (id < u32_bound)%N /\ (gen < u32_bound)%N /\
                 unmarshal_bin data = Some (id, gen) /\ marshal_bin id gen = data.
Proof. exact bin_decode_total. Qed.

Theorem C17_bin_append : forall buf id gen, append_bin buf id gen = buf ++ marshal_bin id gen.
Proof. exact bin_append. Qed.

Theorem C17_json_roundtrip :
  forall id gen, (id < u32_bound)%N -> (gen < u32_bound)%N ->
  unmarshal_json (marshal_json id gen) = Some (id, gen).
Proof. exact json_roundtrip. Qed.

(** Dump / load at pool level (unsafe.go DumpEntities / LoadEntities; Model/DumpLoad.v, tied to
    the code on every run by the dump/load cases of the codec correspondence: pool scripts run on
    the extracted model and through the World API, compared on acceptance, Alive of every issued
    handle and the following creations). [has_reserved] (the two reserved slots are there) holds
    for every pool any script reaches ([C17_scripts_reserved]). *)
Theorem C17_scripts_reserved : forall ops, has_reserved (fst (prun ops)).
Proof. exact prun_reserved. Qed.

(** Loading into an empty (new) world or into a world after Reset - whatever that world's
    history - is accepted and installs exactly the dumped pool ... *)
Theorem C17_load_fresh_or_reset : forall p t, has_reserved p ->
  pool_load pool_new (pool_dump p) = Some p /\ pool_load (pool_reset t) (pool_dump p) = Some p.
Proof. intros p t H; split; [apply load_fresh | apply load_reset]; exact H. Qed.

(** ... hence Alive agrees on every handle (issued or not) ... *)
Theorem C17_load_dump_alive : forall p t q h, has_reserved p ->
  pool_load pool_new (pool_dump p) = Some q \/ pool_load (pool_reset t) (pool_dump p) = Some q ->
  pool_alive q h = pool_alive p h.
Proof.
  intros p t q h H [E|E]; [rewrite load_fresh in E by exact H | rewrite load_reset in E by exact H];
  injection E as <-; reflexivity.
Qed.

(** ... and any number of consecutive creations returns the same handles in both worlds. *)
Theorem C17_load_dump_future : forall p t q n, has_reserved p ->
  pool_load pool_new (pool_dump p) = Some q \/ pool_load (pool_reset t) (pool_dump p) = Some q ->
  pgets n q = pgets n p.
Proof.
  intros p t q n H [E|E]; [rewrite load_fresh in E by exact H | rewrite load_reset in E by exact H];
  injection E as <-; reflexivity.
Qed.

(** LoadEntities fails exactly on a world that holds, or has held since its last Reset, an
    entity (more than the reserved slots, or a non-empty free list); nothing is installed then. *)
Theorem C17_load_rejected_iff : forall t d,
  pool_load t d = None <-> (reserved < length (pe t) \/ 0 < pavail t).
Proof. exact load_rejected_iff. Qed.

(** Non-vacuity: a source with a recycled slot, a target with history; rejected before the
    Reset, accepted after it; the recycled handle is dead, its successor alive, next creation
    takes the free slot with the bumped generation. *)
Example C17_dumpload_example :
  dumpload_case [2; 3; 0;0; 0;0; 1;0;  0;0; 0;0]%Z = [1; 1; 0; 1; 2; 1; 4; 0]%Z.
Proof. vm_compute. reflexivity. Qed.

(** ** World level (Model/DumpLoadW.v: the whole EntityDump with its Alive list, and
    LoadEntities with lock check, pool guard, rebuilt entity index, target flags and
    component-less table; tied to the code by the world dump/load cases of the codec
    correspondence, which compare the full internal dump of the loaded world). *)

(** LoadEntities is rejected on a locked world and on a world that holds or has held entities. *)
Theorem C17_world_load_rejected : forall d t,
  is_locked t = true \/ reserved < length (pe (w_pool t)) \/ 0 < pavail (w_pool t) ->
  w_load_entities d t = None.
Proof. exact w_load_rejected. Qed.

(** It is accepted by every unlocked new or reset world, for the dump of every state whose
    Alive list is well formed ([alive_ok]: every listed ID names a pool slot holding that ID -
    part of the storage invariant of C01; not re-derived here, hence stated as a hypothesis;
    [C17_world_example] shows a reached state that meets it). *)
Theorem C17_world_load_succeeds : forall s t,
  alive_ok s -> has_reserved (w_pool s) ->
  is_locked t = false -> length (pe (w_pool t)) <= reserved -> pavail (w_pool t) = 0 ->
  nth_error (w_tables t) 0 <> None ->
  w_load_entities (w_dump_entities s) t <> None.
Proof. exact w_load_succeeds. Qed.

(** The loaded world: the dumped pool (so Alive and all later creations agree with the source),
    one new row in the component-less table per alive entity, index and target flags of the
    dump's capacity, and nothing else changed (archetypes, registry, lock, cache, observers,
    filters, resources, configuration). *)
Theorem C17_world_load_result : forall s t t',
  has_reserved (w_pool s) ->
  w_load_entities (w_dump_entities s) t = Some t' ->
  w_pool t' = w_pool s /\
  length (w_index t') = length (pe (w_pool s)) /\
  w_istarget t' = repeat false (length (pe (w_pool s))) /\
  (exists t0 t1, nth_error (w_tables t) 0 = Some t0 /\ nth_error (w_tables t') 0 = Some t1 /\
                 t_len t1 = t_len t0 + length (alive_ids s)) /\
  w_archs t' = w_archs t /\ w_reg t' = w_reg t /\ w_lock t' = w_lock t /\
  w_centries t' = w_centries t /\ w_obs t' = w_obs t /\ w_olists t' = w_olists t /\
  w_filters t' = w_filters t /\ w_res t' = w_res t /\ w_cfg t' = w_cfg t.
Proof. exact w_load_result. Qed.

(** The rebuilt entity index: the j-th ID of the Alive list is indexed at table 0, row
    (previous length + j) - the row the Add loop gave it -, every other slot of the dumped pool
    keeps the fresh entry. ([NoDup]: no entity sits in two rows; part of the C01 invariant.) *)
Theorem C17_world_load_index : forall s t t',
  has_reserved (w_pool s) -> alive_ok s -> NoDup (alive_ids s) ->
  w_load_entities (w_dump_entities s) t = Some t' ->
  exists t0, nth_error (w_tables t) 0 = Some t0 /\
    (forall j i, nth_error (alive_ids s) j = Some i ->
                 nth_error (w_index t') i = Some (Some 0, t_len t0 + j)) /\
    (forall k, k < length (pe (w_pool s)) -> ~ In k (alive_ids s) ->
               nth_error (w_index t') k = Some (Some 0, 0)).
Proof. exact w_load_index. Qed.

(** The entity column: if the receiving world's component-less table is well formed
    ([tbl_ok], true of a new world: [C17_new_world_table_ok]), after the load it is well formed
    again, row (old length + j) holds the entity stored in the dumped pool at the j-th ID of the
    Alive list (by [alive_ok] that is the alive entity with that ID), and the rows that were
    there are unchanged. With [C17_world_load_index]: index and table agree on every loaded
    entity. (Bound 2^31 rows: the uint32 arithmetic of the tables is modelled without wrap.) *)
Theorem C17_world_load_rows : forall s t t' t0,
  has_reserved (w_pool s) ->
  nth_error (w_tables t) 0 = Some t0 -> tbl_ok t0 ->
  t_len t0 + length (alive_ids s) < Nat.pow 2 31 ->
  w_load_entities (w_dump_entities s) t = Some t' ->
  exists t1, nth_error (w_tables t') 0 = Some t1 /\ tbl_ok t1 /\
    t_len t1 = t_len t0 + length (alive_ids s) /\
    (forall j i, nth_error (alive_ids s) j = Some i ->
       exists e, nth_error (pe (w_pool s)) i = Some e /\ row_ent t1 (t_len t0 + j) = e) /\
    (forall r, r < t_len t0 -> row_ent t1 r = row_ent t0 r).
Proof. exact w_load_rows. Qed.

Theorem C17_new_world_table_ok : forall c,
  exists t0, nth_error (w_tables (init_world c)) 0 = Some t0 /\ tbl_ok t0 /\ t_len t0 = 0.
Proof.
  intros c; eexists; split; [reflexivity|]; split; [|reflexivity].
  apply new_table_ok; cbn; auto.
Qed.

(** The two hypotheses have an executable form, sound by this theorem and evaluated on the
    source state of every case of the world dump/load correspondence (so a reached state that
    violated them would be reported there). *)
Theorem C17_world_hypotheses_checkable : forall s,
  alive_okb s = true -> alive_ok s /\ NoDup (alive_ids s).
Proof. exact alive_okb_sound. Qed.

Theorem C17_world_load_alive : forall s t t' h,
  has_reserved (w_pool s) -> w_load_entities (w_dump_entities s) t = Some t' ->
  alive t' h = alive s h.
Proof. exact w_load_alive. Qed.

Theorem C17_world_load_future : forall s t t' n,
  has_reserved (w_pool s) -> w_load_entities (w_dump_entities s) t = Some t' ->
  pgets n (w_pool t') = pgets n (w_pool s).
Proof. exact w_load_future. Qed.

(** Non-vacuity: a world reached by a script (two component types, one a relation; seven
    creations and two removals, one slot recycled) meets the hypotheses; its dump is accepted by
    a new world; the four alive entities sit in rows 0-3 of table 0 and are indexed there;
    the next creations re-use the free slot, then grow the pool. *)
Definition ex_cfg : list Z := [2; 1; 256; 0; 2; 0; 7]%Z.
Definition ex_ops : list (list Z) :=
  [[0]; [0]; [1; 1; 0]; [0]; [11; 1]; [1; 1; 0]; [0]; [11; 0]]%Z.
Definition ex_new : W :=
  match decode_cfg ex_cfg with
  | Some c => init_world c
  | None => init_world {| sc_cap := 1; sc_caprel := 1; sc_bits := 256; sc_debug := false; sc_kinds := [] |}
  end.
Definition ex_src : W := final_state false ex_new ex_ops.

Example C17_world_example :
  alive_ok ex_src /\ NoDup (alive_ids ex_src) /\ has_reserved (w_pool ex_src) /\ alive_ids ex_src = [6; 5; 4; 3] /\
  match w_load_entities (w_dump_entities ex_src) ex_new with
  | Some t' =>
      map (alive t') (w_issued ex_src) = [false; false; true; true; true; true] /\
      map (alive ex_src) (w_issued ex_src) = [false; false; true; true; true; true] /\
      w_index t' = [(Some 0, 0); (Some 0, 0); (Some 0, 0); (Some 0, 3); (Some 0, 2); (Some 0, 1); (Some 0, 0)] /\
      option_map t_len (nth_error (w_tables t') 0) = Some 4 /\
      pgets 3 (w_pool t') = [(2, 1%N); (7, 0%N); (8, 0%N)]
  | None => False
  end.
Proof.
  split; [unfold alive_ok; vm_compute; repeat constructor; eexists; reflexivity|].
  split; [vm_compute; repeat (constructor; [cbn; intuition discriminate|]); constructor|].
  split; [unfold has_reserved; vm_compute; repeat constructor|].
  vm_compute; repeat split; reflexivity.
Qed.

Example C17_example :
  unmarshal_bin (marshal_bin 4294967295 65536) = Some (4294967295%N, 65536%N) /\
  marshal_json 70000 3 = [91; 55; 48; 48; 48; 48; 44; 51; 93]%N /\
  unmarshal_bin [1; 2; 3]%N = None.
Proof. vm_compute. repeat split; reflexivity. Qed.

(** One traversal of the dependency graph for all theorems of this file. *)
Definition C17_all := (C17_bin_roundtrip, C17_bin_shape, C17_bin_reject, C17_bin_bijective, C17_bin_append, C17_json_roundtrip, C17_scripts_reserved, C17_load_fresh_or_reset, C17_load_dump_alive, C17_load_dump_future, C17_load_rejected_iff, C17_world_load_rejected, C17_world_load_succeeds, C17_world_load_result, C17_world_load_index, C17_world_load_rows, C17_new_world_table_ok, C17_world_hypotheses_checkable, C17_world_load_alive, C17_world_load_future).
Print Assumptions C17_all.
