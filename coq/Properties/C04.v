(** * C04 — Relation targets stay consistent; removing a target detaches, never corrupts.  (PARTIAL)

    Proved here are the MECHANISM lemmas that keep relation targets valid, in general worlds:
    - table creation validates every relation before changing anything: a target that is neither
      the zero entity nor alive, a non-relation component, a component the archetype lacks or a
      missing target make createTable fail with the state unchanged; hence every table has, at
      the moment it is created or recycled, only targets that are zero or alive;
    - SetRelations computes the new target list by changing exactly the named relation components
      (last assignment wins), rejects components the entity lacks, and reports "unchanged" only if
      every named target already is the current one;
    - table lookup by target compares generations: a stale handle never selects the table of a newer
      incarnation of the same ID (exact lookup and query matching);
    - freeing a table removes it from the active list and (with several relations) from every
      target lookup, pushes it on the free list; removing a target drops exactly its lookup keys;
      the order in which the lookup maps are traversed is irrelevant.
    NOT proved: the world-level invariant "every target of every alive entity is zero or alive" over
    all histories with target removal, batch removal, Shrink, Reset and table recycling. It needs
    the exactness of the relation lookups (every active table listed exactly once per target, free
    tables nowhere) as an invariant of all operations; the relation-free tier of the storage proofs
    does not cover it. It is tied by the `relations` correspondence stream: relation lookups,
    free lists and targets are part of the internal dump compared after every step, randomised
    scenarios drive the known hard cases (two targets of one table dying in one batch, the same
    target in two components, recycling after Shrink), and an oracle checks on the
    implementation's own trace that every target of an alive entity is zero or alive. *)
From Ark Require Import Model.Base Model.Mask Model.Pool Model.Util Model.World Model.Run.
From Ark Require Import Proofs.RelProofs Properties.Common.

Theorem C04_create_table_rejects_invalid : forall s aid a rels,
  nth_error (w_archs s) aid = Some a ->
  (length rels < a_numrel a \/
   (exists r, In r rels /\ index_of (fst r) (a_comps a) = None) \/
   (exists r, In r rels /\ is_rel_comp s (fst r) = false) \/
   (exists r, In r rels /\ fst (snd r) <> 0 /\ alive s (snd r) = false)) ->
  exists e, create_table aid rels s = Err e s.
Proof. exact create_table_rejects_invalid. Qed.

Theorem C04_created_tables_have_valid_targets : forall s aid rels tid s',
  create_table aid rels s = Ok tid s' ->
  exists t, nth_error (w_tables s') tid = Some t /\ t_rels t = rels /\ t_free t = false /\
            Forall (fun r : rel => is_rel_comp s (fst r) = true /\ (fst (snd r) = 0 \/ alive s (snd r) = true)) rels.
Proof. exact create_table_targets_valid. Qed.

Theorem C04_set_relations_changes_exactly_the_named : forall s t rels,
  length (t_targets t) = length (t_ids t) -> length (t_kinds t) = length (t_ids t) -> NoDup (t_ids t) ->
  match exchange_targets t rels s with
  | Ok None s' => s' = s /\ forall r, In r rels -> tbl_target t (fst r) = Some (snd r)
  | Ok (Some (newrels, cm)) s' =>
      s' = s /\
      (forall c tg, In (c, tg) newrels <->
         exists i k, nth_error (t_ids t) i = Some c /\ nth_error (t_kinds t) i = Some k /\ ck_rel k = true /\
                     tg = match find (fun r : rel => Nat.eqb (fst r) c) (rev rels) with
                          | Some r => snd r
                          | None => nth i (t_targets t) zero_ent end) /\
      (forall c, mk_get cm c = true -> exists tg, In (c, tg) rels)
  | Err _ s' => s' = s /\ exists r, In r rels /\ tbl_colidx t (fst r) = None
  end.
Proof. exact exchange_targets_spec. Qed.

Theorem C04_exact_lookup_compares_generations : forall t c i k tg1 tg2 rels,
  tbl_colidx t c = Some i -> nth_error (t_kinds t) i = Some k -> ck_rel k = true ->
  nth_error (t_targets t) i = Some tg1 -> fst tg1 = fst tg2 -> snd tg1 <> snd tg2 ->
  In (c, tg2) rels -> length (t_rels t) <= length rels ->
  tbl_matches_exact t rels <> MTrue.
Proof. exact matches_exact_compares_generations. Qed.

Theorem C04_free_table_bookkeeping : forall a tid, NoDup (a_tables a) -> In tid (a_tables a) ->
  (forall k l, afind k (a_tgttabs a) = Some l -> NoDup l) ->
  let a' := arch_free_table a tid in
  ~ In tid (a_tables a') /\ (forall x, x <> tid -> (In x (a_tables a') <-> In x (a_tables a))) /\
  a_free a' = a_free a ++ [tid] /\ NoDup (a_tables a') /\
  (2 <= a_numrel a -> forall k l, afind k (a_tgttabs a') = Some l -> ~ In tid l).
Proof. exact arch_free_table_spec_partial. Qed.

Theorem C04_remove_target_drops_its_keys : forall a id k,
  afind k (a_tgttabs (arch_remove_target a id)) = if Nat.eqb k id then None else afind k (a_tgttabs a).
Proof. exact arch_remove_target_spec. Qed.

(** Non-vacuity: a child of a parent; removing the parent detaches the child (target zero), the child
    keeps its component value; a second target removal recycles the freed table. *)
Definition rel_world : W :=
  exec small_cfg [[0]; [2; 2; 0; 3; 1; 3; 0]; [9; 1; 0; 7]; [11; 0]]%Z.
Example C04_detach_example :
  map (fun t => (t_len t, t_free t, t_targets t)) (w_tables rel_world) =
  [(0, false, []); (0, true, [(0, 0%N); (2, 0%N)]); (1, false, [(0, 0%N); (0, 0%N)])] /\
  snapshot_entity rel_world (3, 0%N) = Some [2; 0; 7; 0; 0; 3; 0; 0; 0]%Z.
Proof. vm_compute. split; reflexivity. Qed.

Definition C04_all := (C04_create_table_rejects_invalid, C04_created_tables_have_valid_targets,
  C04_set_relations_changes_exactly_the_named, C04_exact_lookup_compares_generations,
  C04_free_table_bookkeeping, C04_remove_target_drops_its_keys).
Print Assumptions C04_all.
