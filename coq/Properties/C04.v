(** * C04 — Relation targets stay consistent; removing a target detaches, never corrupts.  (over histories the invariant is proved for ONE class containing core + queries + filters + registration + the five batch operations + Reset (Rel2HistAll / Rel2HistAllR: [C04_invariant_after_every_history_merged], [C04_invariant_after_every_history_merged_with_resets]) and, with observers of any callback kind AND Reset in the same class, [C04_invariant_after_every_history_merged_with_observers_and_resets_partial] (Rel2HistAllOR); the separate classes of Rel2HistQ, Rel2HistO, Rel2HistR, Rel2BatchHist are sub-classes. The one restriction left: a BATCH line on an unlocked world must run while no observer is registered (the whole-batch event passes are not simulated): partial in that sense only; see the end of the file. Package U2 removes that restriction: [C04_invariant_after_every_history_merged_with_observers] (Rel2HistAllO2), [C04_invariant_after_every_history_merged_with_observers_and_resets] (Rel2HistAllOR2))

    Proved here are the MECHANISM lemmas that keep relation targets valid, in general worlds:
    - table creation validates every relation before changing anything: a target that is neither
      the zero entity nor alive, a non-relation component, a component the archetype lacks or a
      missing target make createTable fail with the state unchanged; hence every table has, at
      the moment it is created or recycled, only targets that are zero or alive;
    - SetRelations computes the new target list by changing exactly the named relation components,
      rejects (state unchanged) a component named twice, a component the entity lacks and a component
      that is not a relation component, and reports "unchanged" only if every named target already
      is the current one (the check for duplicates and non-relation components repairs a defect found
      by the relation-tier proofs: such calls used to "move" the entity into its own table and lose it);
    - table lookup by target compares generations: a stale handle never selects the table of a newer
      incarnation of the same ID (exact lookup and query matching);
    - freeing a table removes it from the active list and (with several relations) from every
      target lookup, pushes it on the free list; removing a target drops exactly its lookup keys;
      the order in which the lookup maps are traversed is irrelevant.
    RELATION TIER (Rel2Defs/Rel2Struct/Rel2Remove/Rel2SetRel), proved for EVERY state satisfying the
    storage + relation + cache invariant [St2] (no assumption that relation components are absent):
    - [C04_targets_zero_or_alive]: every relation target of every stored entity is the zero entity
      or a stored (alive) entity: the first sentence of the property, from the invariant alone;
    - [C04_remove_entity]: removing ANY live entity x (target or not, with any observers registered)
      preserves the invariant; x is dead afterwards and its handle rejected; every other entity keeps
      all its components and values, and each of its relation targets is unchanged except that a
      target equal to x becomes the zero entity ("detaches, never corrupts"); if the call fails, the
      observables are unchanged and the cause is a dead handle or a panicking observer callback;
      without observers it fails exactly for dead handles ([C04_remove_fails_only_for_dead]) and
      [C04_remove_target_detaches] spells out the success case;
    - [C04_set_relations]: SetRelations on a live entity assigns exactly the named relation
      components (the target last assigned is the target read back, all other targets, all
      components and values, and every other entity unchanged), preserves the invariant, and fails -
      with the state completely unchanged - exactly for a locked world, a dead entity, an empty or
      duplicate list, a component the entity lacks or that is not a relation, or a dead target;
    - table creation/recycling for valid relations never fails, registers the targets and preserves
      the invariant ([C04_get_or_create_table]): "the reuse of per-target storage for other targets
      never changes any other entity's targets or data and never fails for a valid call";
    - the invariant has an executable form proved sound ([C04_checker_sound]); it is evaluated on
      every state the correspondence streams reach (see DESIGN.md I.1) and was validated on the
      hard cases by computation (Rel2Check: 19 scenario scripts, three 500-step fuzz histories).
    - OVER HISTORIES (Rel2Hist.v): the invariant [Inv2 = St2 /\ KeysLive /\ no observers, unlocked
      /\ issued handles ok] holds after EVERY history (fewer than 2^31 operations, any capacities, any
      component kinds incl. relation components) of NewEntity, Unsafe.NewEntity/NewEntityRel,
      CopyEntity, Add/AddRel, Remove, Exchange, write, SetRelations, RemoveEntity, Shrink and the
      read-only operations - with ARBITRARY arguments: stale or zero handles, malformed relation
      lists (duplicates, non-relation components, components not being added, dead targets); the
      state after a recovered panic satisfies it too ([C04_invariant_after_every_history]). Hence:
      in every state of such a history every relation target is zero or alive
      ([C04_targets_always_zero_or_alive]); removing a live target detaches exactly the entities that
      pointed to it and changes nothing else, and never fails ([C04_remove_target_detaches_history]);
      the target read back after a successful SetRelations is the one assigned
      ([C04_target_is_last_assigned]); stale handles are rejected with the state unchanged; new
      handles are fresh; Reset succeeds in every such state ([C04_reset_succeeds]).
    STILL NOT PROVED: histories that also contain observers, registered filters, the batch
    operations and Reset followed by further operations in relation worlds (Reset invalidates the
    bookkeeping of issued handles that the induction carries). For those the invariant's preservation
    is tied by the `relations`/`batch`/`reset` correspondence streams (lookups, free lists, targets
    and flags are in the dump compared after every step) plus the executed invariant and the
    targets-alive oracle on the implementation's own trace.
    Six genuine defects of the Go code were found while building this tier and are repaired in
    /repo (a3c3b99 duplicate relation component, d31ae2e rejected batch leaves the world locked,
    9b15de7 unregistered targets, 535125b SetRelations into the entity's own table, 7abff66
    archetype left without table, and earlier 875e7f0); see known_findings.json. *)
From Ark Require Import Model.Base Model.Mask Model.Pool Model.Util Model.World Model.Run.
From Ark Require Import Proofs.WF Proofs.StorageA Proofs.StorageBDefs Proofs.RelProofs Proofs.Rel2Defs Proofs.Rel2Struct Proofs.Rel2Remove Proofs.Rel2SetRel Proofs.Rel2Maint Proofs.StorageC Proofs.Rel2Hist Properties.Common.
From Ark Require Import Proofs.Rel2HistQ.
From Ark Require Import Proofs.Rel2Defs Proofs.Rel2Maint Proofs.Rel2Hist Proofs.Rel2HistQ Proofs.ObsErase Proofs.Rel2HistO Proofs.Rel2HistR Proofs.Rel2BatchHist.
From Ark Require Import Proofs.Rel2HistAll Proofs.Rel2HistAllR Proofs.Rel2HistAllO Proofs.Rel2HistAllOR.
From Ark Require Import Proofs.ObsEraseBatch Proofs.Rel2HistAllO2 Proofs.Rel2HistAllOR2.

Theorem C04_create_table_rejects_invalid : forall s aid a rels,
  nth_error (w_archs s) aid = Some a ->
  (length rels < a_numrel a \/
   (exists r, In r rels /\ index_of (fst r) (a_comps a) = None) \/
   (exists r, In r rels /\ is_rel_comp s (fst r) = false) \/
   (exists r, In r rels /\ fst (snd r) <> 0 /\ alive s (snd r) = false)) ->
  exists e, create_table aid rels s = Err e s.
Proof. exact create_table_rejects_invalid. Qed.

Theorem C04_created_tables_have_valid_targets : forall s aid rels tid s',
  create_table aid rels s = Ok tid s' ->
  exists t, nth_error (w_tables s') tid = Some t /\ t_rels t = rels /\ t_free t = false /\
            Forall (fun r : rel => is_rel_comp s (fst r) = true /\ (fst (snd r) = 0 \/ alive s (snd r) = true)) rels.
Proof. exact create_table_targets_valid. Qed.

Theorem C04_set_relations_changes_exactly_the_named : forall s t rels,
  length (t_targets t) = length (t_ids t) -> length (t_kinds t) = length (t_ids t) -> NoDup (t_ids t) ->
  match exchange_targets t rels s with
  | Ok None s' => s' = s /\ forall r, In r rels -> tbl_target t (fst r) = Some (snd r)
  | Ok (Some (newrels, cm)) s' =>
      s' = s /\
      (forall c tg, In (c, tg) newrels <->
         exists i k, nth_error (t_ids t) i = Some c /\ nth_error (t_kinds t) i = Some k /\ ck_rel k = true /\
                     tg = match find (fun r : rel => Nat.eqb (fst r) c) (rev rels) with
                          | Some r => snd r
                          | None => nth i (t_targets t) zero_ent end) /\
      (forall c, mk_get cm c = true -> exists tg, In (c, tg) rels)
  | Err _ s' => s' = s /\ (rels_distinct rels = false \/ exists r, In r rels /\
      (tbl_colidx t (fst r) = None \/
       exists i, tbl_colidx t (fst r) = Some i /\ ck_rel (nth i (t_kinds t) (Build_ckind false false true)) = false))
  end.
Proof. exact exchange_targets_spec. Qed.

(** ... and a call that is accepted names distinct relation columns (so "the last assignment" above
    is the only one). *)
Theorem C04_set_relations_accepts_only_valid : forall s t rels r0 s',
  NoDup (t_ids t) -> length (t_targets t) = length (t_ids t) ->
  exchange_targets t rels s = Ok r0 s' ->
  NoDup (map fst rels) /\
  forall r, In r rels -> exists i, tbl_colidx t (fst r) = Some i /\
                                   ck_rel (nth i (t_kinds t) (Build_ckind false false true)) = true.
Proof. exact exchange_targets_ok_valid. Qed.

Theorem C04_exact_lookup_compares_generations : forall t c i k tg1 tg2 rels,
  tbl_colidx t c = Some i -> nth_error (t_kinds t) i = Some k -> ck_rel k = true ->
  nth_error (t_targets t) i = Some tg1 -> fst tg1 = fst tg2 -> snd tg1 <> snd tg2 ->
  In (c, tg2) rels -> length (t_rels t) <= length rels ->
  tbl_matches_exact t rels <> MTrue.
Proof. exact matches_exact_compares_generations. Qed.

Theorem C04_free_table_bookkeeping : forall a tid, NoDup (a_tables a) -> In tid (a_tables a) ->
  (forall k l, afind k (a_tgttabs a) = Some l -> NoDup l) ->
  let a' := arch_free_table a tid in
  ~ In tid (a_tables a') /\ (forall x, x <> tid -> (In x (a_tables a') <-> In x (a_tables a))) /\
  a_free a' = a_free a ++ [tid] /\ NoDup (a_tables a') /\
  (2 <= a_numrel a -> forall k l, afind k (a_tgttabs a') = Some l -> ~ In tid l).
Proof. exact arch_free_table_spec_partial. Qed.

Theorem C04_remove_target_drops_its_keys : forall a id k,
  afind k (a_tgttabs (arch_remove_target a id)) = if Nat.eqb k id then None else afind k (a_tgttabs a).
Proof. exact arch_remove_target_spec. Qed.

(** Non-vacuity: a child of a parent; removing the parent detaches the child (target zero), the child
    keeps its component value; a second target removal recycles the freed table. *)
Definition rel_world : W :=
  exec small_cfg [[0]; [2; 2; 0; 3; 1; 3; 0]; [9; 1; 0; 7]; [11; 0]]%Z.
Example C04_detach_example :
  map (fun t => (t_len t, t_free t, t_targets t)) (w_tables rel_world) =
  [(0, false, []); (0, true, [(0, 0%N); (2, 0%N)]); (1, false, [(0, 0%N); (0, 0%N)])] /\
  snapshot_entity rel_world (3, 0%N) = Some [2; 0; 7; 0; 0; 3; 0; 0; 0]%Z.
Proof. vm_compute. split; reflexivity. Qed.

(** ** Relation tier: world-level statements for every state satisfying St2 *)

Theorem C04_targets_zero_or_alive : forall s e c x, St2 s -> tgt s e c = Some x -> x = zero_ent \/ live s x = true.
Proof. exact r2_St2_targets. Qed.

Theorem C04_remove_entity : forall s e, St2 s ->
  match storage_remove_entity e s with
  | Ok _ s' =>
      St2 s' /\ live s e = true /\ live s' e = false /\ alive s' e = false /\
      (forall e', e' <> e -> live s' e' = live s e' /\ (forall c, val s' e' c = val s e' c) /\
         (forall c, tgt s' e' c = r2c_detached e (tgt s e' c))) /\
      frame_user s s' /\ length (pe (w_pool s')) = length (pe (w_pool s))
  | Err _ s' => r2c_rejected s s' /\
      (live s e = false \/ has_obs s EvRemoveEntity = true \/ has_obs s EvRemoveRelations = true)
  end.
Proof. exact r2c_remove_entity_spec. Qed.

Theorem C04_remove_fails_only_for_dead : forall s e, St2 s ->
  has_obs s EvRemoveEntity = false -> has_obs s EvRemoveRelations = false ->
  (is_err (storage_remove_entity e s) = true <-> live s e = false).
Proof. exact r2c_remove_fails_only_dead_noobs. Qed.

Theorem C04_remove_target_detaches : forall s x, St2 s -> live s x = true ->
  has_obs s EvRemoveEntity = false -> has_obs s EvRemoveRelations = false ->
  exists u s', storage_remove_entity x s = Ok u s' /\ St2 s' /\ live s' x = false /\ alive s' x = false /\
    forall e', e' <> x -> live s' e' = live s e' /\ (forall c, val s' e' c = val s e' c) /\
      (forall c, tgt s' e' c = r2c_detached x (tgt s e' c)).
Proof. exact r2c_remove_target_detaches_noobs. Qed.

Theorem C04_set_relations : forall s e (rels : list rel), St2 s -> room s ->
  has_obs s EvRemoveRelations = false -> has_obs s EvAddRelations = false ->
  (forall r, In r rels -> r2b_handle_ok s (snd r)) ->
  match w_set_relations e rels s with
  | Ok _ s' =>
      St2 s' /\ is_locked s = false /\ live s e = true /\ rels <> [] /\ NoDup (map fst rels) /\
      (forall r, In r rels -> val s e (fst r) <> None /\ is_rel_comp s (fst r) = true /\
                              (snd r = zero_ent \/ live s (snd r) = true)) /\
      live s' e = true /\ (forall c, val s' e c = val s e c) /\
      (forall c, tgt s' e c = match r2b_assigned rels c with Some x => Some x | None => tgt s e c end) /\
      r2c_others_same s s' e /\ w_pool s' = w_pool s /\ frame_user s s'
  | Err _ s' =>
      s' = s /\ (is_locked s = true \/ live s e = false \/ rels = [] \/ rels_distinct rels = false \/
                 exists r, In r rels /\ (val s e (fst r) = None \/ is_rel_comp s (fst r) = false \/
                                         (fst (snd r) <> 0 /\ alive s (snd r) = false)))
  end.
Proof. exact r2b_set_relations_spec_noobs. Qed.

Definition C04_get_or_create_table := r2_get_or_create_table_spec.
Definition C04_create_table := r2_create_table_spec.

Theorem C04_checker_sound : forall s, st2_b s = true -> St2 s.
Proof. exact st2_b_sound. Qed.

(** Non-vacuity: reachable relation worlds satisfying St2 (by the checker), the removal and
    SetRelations theorems instantiated on them, and the two scripts that refuted the first version of
    the SetRelations theorem, now rejected. *)
Definition C04_relation_examples := (r2c_ex_St2, r2c_ex_by_theorem, r2b_ex_by_theorem, r2b_regression_scripts).

(** ** Over histories *)

Theorem C04_invariant_after_every_history : forall c lines,
  cfg_ok2 c -> Forall (rel_core_line (length (sc_kinds c))) lines -> length lines + 4 < Nat.pow 2 31 ->
  Inv2 (exec c lines) (length lines).
Proof. exact reachable_inv2. Qed.

Theorem C04_step_preserves_invariant : forall debug wd s n line o,
  Inv2 s n -> n + 4 < Nat.pow 2 31 -> decode_op line = Some o -> rel_core_op o = true ->
  (forall c, In c (rel_op_ids o) -> c < length (w_reg s)) ->
  let s' := fst (step debug wd s line) in
  Inv2 s' (S n) /\ w_reg s' = w_reg s /\
  (w_issued s' = w_issued s \/ exists e, w_issued s' = w_issued s ++ [e] /\ live s' e = true /\ live s e = false).
Proof. exact step_inv2. Qed.

Theorem C04_targets_always_zero_or_alive : forall c lines e cmp x,
  cfg_ok2 c -> Forall (rel_core_line (length (sc_kinds c))) lines -> length lines + 4 < Nat.pow 2 31 ->
  tgt (exec c lines) e cmp = Some x ->
  x = zero_ent \/ live (exec c lines) x = true.
Proof. exact targets_always_zero_or_alive. Qed.

Theorem C04_remove_target_detaches_history : forall c lines h x,
  cfg_ok2 c -> Forall (rel_core_line (length (sc_kinds c))) lines -> length lines + 4 < Nat.pow 2 31 ->
  let s := exec c lines in
  handle s h = Some x -> live s x = true ->
  exists s', step_op (sc_debug c) (ORemoveEntity h) s = Ok [] s' /\ St2 s' /\ live s' x = false /\
    forall e, e <> x -> live s' e = live s e /\ (forall cmp, val s' e cmp = val s e cmp) /\
      (forall cmp, tgt s' e cmp = r2c_detached x (tgt s e cmp)).
Proof. exact remove_target_detaches. Qed.

Theorem C04_target_is_last_assigned : forall debug s n h hrels res s' e,
  Inv2 s n -> n + 4 < Nat.pow 2 31 -> handle s h = Some e ->
  step_op debug (OUSetRel h hrels) s = Ok res s' ->
  forall c hx x, In (c, hx) hrels -> handle s hx = Some x ->
    tgt s' e c = Some x /\ (x = zero_ent \/ live s x = true).
Proof. exact target_is_last_assigned_setrel. Qed.

Theorem C04_stale_handle_rejected : forall debug s n o h e,
  Inv2 s n -> uses_handle o h -> handle s h = Some e -> live s e = false ->
  exists er, step_op debug o s = Err er s.
Proof. exact stale_handle_rejected2. Qed.

Theorem C04_reset_succeeds : forall c lines,
  cfg_ok2 c -> Forall (rel_core_line (length (sc_kinds c))) lines -> length lines + 4 < Nat.pow 2 31 ->
  exists s', step_op (sc_debug c) OReset (exec c lines) = Ok [] s' /\ St2 s' /\ r2d_KeysLive s' /\
    is_locked s' = false /\ (forall e, live s' e = false) /\ w_reg s' = w_reg (exec c lines).
Proof. exact reachable_reset_succeeds. Qed.

Definition C04_history_examples := (r2e_script_inv, r2e_reset_refuted_table).


(** ** Over the larger class of histories WITH filters, Register / Unregister and queries (locked states
    included), Rel2HistQ: the relation invariant after every such history; targets zero or alive; removing a
    live target in an unlocked reachable state detaches exactly its dependants, in a locked one it is rejected. *)
Theorem C04_invariant_after_every_history_with_queries : forall c lines,
  cfg_ok2 c -> Forall (rel_q_line (sc_kinds c)) lines -> length lines + 4 < Nat.pow 2 31 ->
  Inv2Q (Properties.Common.exec c lines) (length lines).
Proof. exact reachable_inv2Q. Qed.

Theorem C04_targets_always_zero_or_alive_with_queries : forall c lines e cmp x,
  cfg_ok2 c -> Forall (rel_q_line (sc_kinds c)) lines -> length lines + 4 < Nat.pow 2 31 ->
  tgt (Properties.Common.exec c lines) e cmp = Some x ->
  x = zero_ent \/ live (Properties.Common.exec c lines) x = true.
Proof. exact targets_always_zero_or_alive_Q. Qed.

Theorem C04_remove_target_detaches_with_queries : forall c lines h x,
  cfg_ok2 c -> Forall (rel_q_line (sc_kinds c)) lines -> length lines + 4 < Nat.pow 2 31 ->
  let s := Properties.Common.exec c lines in
  is_locked s = false -> handle s h = Some x -> live s x = true ->
  exists s', step_op (sc_debug c) (ORemoveEntity h) s = Ok [] s' /\ St2 s' /\ live s' x = false /\
    forall e, e <> x -> live s' e = live s e /\ (forall cmp, val s' e cmp = val s e cmp) /\
      (forall cmp, tgt s' e cmp = r2c_detached x (tgt s e cmp)).
Proof. exact remove_target_detaches_Q. Qed.

Theorem C04_remove_target_rejected_when_locked : forall c lines h,
  Forall (rel_q_line (sc_kinds c)) lines -> is_locked (Properties.Common.exec c lines) = true ->
  exists er, step_op (sc_debug c) (ORemoveEntity h) (Properties.Common.exec c lines) = Err er (Properties.Common.exec c lines).
Proof. exact remove_target_locked_rejected_Q. Qed.

(** ** Three more classes of histories (Rel2HistO, Rel2HistR, Rel2BatchHist): WITH OBSERVERS of any callback kind
    (register / unregister / emit with arbitrary arguments; callbacks that unregister themselves or others; a
    callback failing in the middle of an operation), WITH Reset inside the history (handles issued before a
    Reset are foreign; the side condition [r2r_foreign_ok] on foreign handles used as relation target or copy
    source is shown necessary by [r2r_foreign_target_refuted] / [r2r_foreign_copy_refuted]), and WITH the batch
    operations. In each class: the relation invariant after every history, targets zero or alive, removing a
    live target detaches exactly its dependants. *)
Theorem C04_invariant_after_every_history_with_observers :
  forall (c : script_cfg) (lines : list (list Z)),
         cfg_ok2 c ->
         Forall (rel_o_line (sc_kinds c)) lines ->
         length lines + 4 < 2 ^ 31 -> Inv2O (exec c lines) (length lines).
Proof. exact reachable_inv2O. Qed.

Theorem C04_targets_always_zero_or_alive_with_observers :
  forall (c : script_cfg) (lines : list (list Z)) (e : ent) (cmp : nat) (x : ent),
         cfg_ok2 c ->
         Forall (rel_o_line (sc_kinds c)) lines ->
         length lines + 4 < 2 ^ 31 ->
         tgt (exec c lines) e cmp = Some x -> x = zero_ent \/ live (exec c lines) x = true.
Proof. exact targets_always_zero_or_alive_O. Qed.

Theorem C04_remove_target_detaches_with_observers :
  forall (c : script_cfg) (lines : list (list Z)) (h : Z) (x : ent),
         cfg_ok2 c ->
         Forall (rel_o_line (sc_kinds c)) lines ->
         length lines + 4 < 2 ^ 31 ->
         let s := exec c lines in
         is_locked s = false ->
         handle s h = Some x ->
         live s x = true ->
         match step_op (sc_debug c) (ORemoveEntity h) s with
         | Ok res s' =>
             res = [] /\
             St2 s' /\
             r2d_KeysLive s' /\
             live s' x = false /\
             alive s' x = false /\
             (forall e : ent,
              e <> x ->
              live s' e = live s e /\
              (forall cmp : nat, val s' e cmp = val s e cmp) /\
              (forall cmp : nat, tgt s' e cmp = r2c_detached x (tgt s e cmp)))
         | Err _ s' => oe_E s' = oe_E s
         end.
Proof. exact remove_target_detaches_O. Qed.

Theorem C04_invariant_after_every_history_with_resets :
  forall (c : script_cfg) (lines : list (list Z)),
         cfg_ok2 c ->
         rel_r_hist (sc_debug c) (sc_kinds c) (init_world c, 0) lines ->
         length lines + 4 < 2 ^ 31 -> Inv2R (exec c lines) (length lines) (r2r_epoch_of c lines).
Proof. exact reachable_inv2R. Qed.

Theorem C04_targets_always_zero_or_alive_with_resets :
  forall (c : script_cfg) (lines : list (list Z)) (e : ent) (cmp : nat) (x : ent),
         cfg_ok2 c ->
         rel_r_hist (sc_debug c) (sc_kinds c) (init_world c, 0) lines ->
         length lines + 4 < 2 ^ 31 ->
         tgt (exec c lines) e cmp = Some x -> x = zero_ent \/ live (exec c lines) x = true.
Proof. exact targets_always_zero_or_alive_R. Qed.

Theorem C04_remove_target_detaches_with_resets :
  forall (c : script_cfg) (lines : list (list Z)) (h : Z) (x : ent),
         cfg_ok2 c ->
         rel_r_hist (sc_debug c) (sc_kinds c) (init_world c, 0) lines ->
         length lines + 4 < 2 ^ 31 ->
         let s := exec c lines in
         is_locked s = false ->
         handle s h = Some x ->
         live s x = true ->
         exists s' : W,
           step_op (sc_debug c) (ORemoveEntity h) s = Ok [] s' /\
           St2 s' /\
           live s' x = false /\
           (forall e : ent,
            e <> x ->
            live s' e = live s e /\
            (forall cmp : nat, val s' e cmp = val s e cmp) /\
            (forall cmp : nat, tgt s' e cmp = r2c_detached x (tgt s e cmp))).
Proof. exact remove_target_detaches_R. Qed.

Theorem C04_invariant_after_every_history_with_batches :
  forall (c : script_cfg) (lines : list (list Z)),
         cfg_ok2 c ->
         Forall (r2h_line (length (sc_kinds c))) lines ->
         r2h_total lines + 4 < 2 ^ 31 -> Inv2 (exec c lines) (r2h_total lines).
Proof. exact reachable_inv2B. Qed.

(** ** The merged class (package U): core + queries + filters + registration + batch operations (stage 1), + Reset (stage 2),
    + observers for batch lines that run while no observer is registered (partial stage 3) *)

Theorem C04_invariant_after_every_history_merged :
  forall (c : script_cfg) (lines : list (list Z)),
         cfg_ok2 c ->
         Forall (rel_all_line (sc_kinds c)) lines ->
         r2h_total lines + 4 < 2 ^ 31 -> InvAll (exec c lines) (r2h_total lines).
Proof. exact reachable_inv_all. Qed.

Theorem C04_targets_always_zero_or_alive_merged :
  forall (c : script_cfg) (lines : list (list Z)) (e : ent) (cmp : nat) (x : ent),
         cfg_ok2 c ->
         Forall (rel_all_line (sc_kinds c)) lines ->
         r2h_total lines + 4 < 2 ^ 31 ->
         tgt (exec c lines) e cmp = Some x -> x = zero_ent \/ live (exec c lines) x = true.
Proof. exact targets_always_zero_or_alive_all. Qed.

Theorem C04_remove_target_detaches_merged :
  forall (c : script_cfg) (lines : list (list Z)) (h : Z) (x : ent),
         cfg_ok2 c ->
         Forall (rel_all_line (sc_kinds c)) lines ->
         r2h_total lines + 4 < 2 ^ 31 ->
         let s := exec c lines in
         is_locked s = false ->
         handle s h = Some x ->
         live s x = true ->
         exists s' : W,
           step_op (sc_debug c) (ORemoveEntity h) s = Ok [] s' /\
           St2 s' /\
           live s' x = false /\
           (forall e : ent,
            e <> x ->
            live s' e = live s e /\
            (forall cmp : nat, val s' e cmp = val s e cmp) /\
            (forall cmp : nat, tgt s' e cmp = r2c_detached x (tgt s e cmp))).
Proof. exact remove_target_detaches_all. Qed.

Theorem C04_invariant_after_every_history_merged_with_resets :
  forall (c : script_cfg) (lines : list (list Z)),
         cfg_ok2 c ->
         rel_allR_hist (sc_debug c) (sc_kinds c) (init_world c, 0) lines ->
         r2h_total lines + 4 < 2 ^ 31 -> InvAllR (exec c lines) (r2h_total lines) (r2r_epoch_of c lines).
Proof. exact reachable_inv_allR. Qed.

Theorem C04_targets_always_zero_or_alive_merged_with_resets :
  forall (c : script_cfg) (lines : list (list Z)) (e : ent) (cmp : nat) (x : ent),
         cfg_ok2 c ->
         rel_allR_hist (sc_debug c) (sc_kinds c) (init_world c, 0) lines ->
         r2h_total lines + 4 < 2 ^ 31 ->
         tgt (exec c lines) e cmp = Some x -> x = zero_ent \/ live (exec c lines) x = true.
Proof. exact targets_always_zero_or_alive_allR. Qed.

Theorem C04_remove_target_detaches_merged_with_resets :
  forall (c : script_cfg) (lines : list (list Z)) (h : Z) (x : ent),
         cfg_ok2 c ->
         rel_allR_hist (sc_debug c) (sc_kinds c) (init_world c, 0) lines ->
         r2h_total lines + 4 < 2 ^ 31 ->
         let s := exec c lines in
         is_locked s = false ->
         handle s h = Some x ->
         live s x = true ->
         exists s' : W,
           step_op (sc_debug c) (ORemoveEntity h) s = Ok [] s' /\
           St2 s' /\
           live s' x = false /\
           (forall e : ent,
            e <> x ->
            live s' e = live s e /\
            (forall cmp : nat, val s' e cmp = val s e cmp) /\
            (forall cmp : nat, tgt s' e cmp = r2c_detached x (tgt s e cmp))).
Proof. exact remove_target_detaches_allR. Qed.

Theorem C04_invariant_after_every_history_merged_with_observers_partial :
  forall (c : script_cfg) (lines : list (list Z)),
         cfg_ok2 c ->
         rel_allO_hist (sc_debug c) (sc_kinds c) (init_world c) lines ->
         r2h_total lines + 4 < 2 ^ 31 -> InvAllO (exec c lines) (r2h_total lines).
Proof. exact reachable_inv_allO_partial. Qed.

Theorem C04_targets_always_zero_or_alive_merged_with_observers_partial :
  forall (c : script_cfg) (lines : list (list Z)) (e : ent) (cmp : nat) (x : ent),
         cfg_ok2 c ->
         rel_allO_hist (sc_debug c) (sc_kinds c) (init_world c) lines ->
         r2h_total lines + 4 < 2 ^ 31 ->
         tgt (exec c lines) e cmp = Some x -> x = zero_ent \/ live (exec c lines) x = true.
Proof. exact targets_always_zero_or_alive_allO_partial. Qed.

Theorem C04_invariant_after_every_history_merged_with_observers_and_resets_partial :
  forall (c : script_cfg) (lines : list (list Z)),
         cfg_ok2 c ->
         rel_allOR_hist (sc_debug c) (sc_kinds c) (init_world c, 0) lines ->
         r2h_total lines + 4 < 2 ^ 31 -> InvAllOR (exec c lines) (r2h_total lines) (r2r_epoch_of c lines).
Proof. exact reachable_inv_allOR_partial. Qed.

Theorem C04_targets_always_zero_or_alive_merged_with_observers_and_resets_partial :
  forall (c : script_cfg) (lines : list (list Z)) (e : ent) (cmp : nat) (x : ent),
         cfg_ok2 c ->
         rel_allOR_hist (sc_debug c) (sc_kinds c) (init_world c, 0) lines ->
         r2h_total lines + 4 < 2 ^ 31 ->
         tgt (exec c lines) e cmp = Some x -> x = zero_ent \/ live (exec c lines) x = true.
Proof. exact targets_always_zero_or_alive_allOR_partial. Qed.

(** Package U2 (Rel2HistAllO2, by the batch erasure simulation of ObsEraseBatch): stage 3 WITHOUT the restriction: all five
    batch operations may run WITH registered observers (whole-batch event passes, any callback kind, callbacks may fail);
    the condition is on each line only ([rel_allO_line2]: class, registered ids, filter relations). *)
Theorem C04_invariant_after_every_history_merged_with_observers :
  forall (c : script_cfg) (lines : list (list Z)),
         cfg_ok2 c ->
         Forall (rel_allO_line2 (sc_kinds c)) lines ->
         r2h_total lines + 4 < 2 ^ 31 -> InvAllO (exec c lines) (r2h_total lines).
Proof. exact reachable_inv_allO. Qed.

Theorem C04_targets_always_zero_or_alive_merged_with_observers :
  forall (c : script_cfg) (lines : list (list Z)) (e : ent) (cmp : nat) (x : ent),
         cfg_ok2 c ->
         Forall (rel_allO_line2 (sc_kinds c)) lines ->
         r2h_total lines + 4 < 2 ^ 31 ->
         tgt (exec c lines) e cmp = Some x -> x = zero_ent \/ live (exec c lines) x = true.
Proof. exact targets_always_zero_or_alive_allO. Qed.

(** ... and with Reset in the same class (Rel2HistAllOR2): the side conditions left are those of Rel2HistAllR (foreign handles
    in relation-target position proper), stated per line and state ([rel_allOR_hist2]); no condition on the observers. *)
Theorem C04_invariant_after_every_history_merged_with_observers_and_resets :
  forall (c : script_cfg) (lines : list (list Z)),
         cfg_ok2 c ->
         rel_allOR_hist2 (sc_debug c) (sc_kinds c) (init_world c, 0) lines ->
         r2h_total lines + 4 < 2 ^ 31 -> InvAllOR (exec c lines) (r2h_total lines) (r2r_epoch_of c lines).
Proof. exact reachable_inv_allOR. Qed.

Theorem C04_targets_always_zero_or_alive_merged_with_observers_and_resets :
  forall (c : script_cfg) (lines : list (list Z)) (e : ent) (cmp : nat) (x : ent),
         cfg_ok2 c ->
         rel_allOR_hist2 (sc_debug c) (sc_kinds c) (init_world c, 0) lines ->
         r2h_total lines + 4 < 2 ^ 31 ->
         tgt (exec c lines) e cmp = Some x -> x = zero_ent \/ live (exec c lines) x = true.
Proof. exact targets_always_zero_or_alive_allOR. Qed.

Definition C04_all := (C04_invariant_after_every_history_merged_with_observers_and_resets, C04_targets_always_zero_or_alive_merged_with_observers_and_resets, C04_invariant_after_every_history_merged_with_observers, C04_targets_always_zero_or_alive_merged_with_observers, C04_invariant_after_every_history_merged_with_observers_and_resets_partial, C04_targets_always_zero_or_alive_merged_with_observers_and_resets_partial, C04_invariant_after_every_history_merged, C04_targets_always_zero_or_alive_merged, C04_remove_target_detaches_merged, C04_invariant_after_every_history_merged_with_resets, C04_targets_always_zero_or_alive_merged_with_resets, C04_remove_target_detaches_merged_with_resets, C04_invariant_after_every_history_merged_with_observers_partial, C04_targets_always_zero_or_alive_merged_with_observers_partial,
  C04_invariant_after_every_history_with_observers, C04_targets_always_zero_or_alive_with_observers, C04_remove_target_detaches_with_observers, C04_invariant_after_every_history_with_resets, C04_targets_always_zero_or_alive_with_resets, C04_remove_target_detaches_with_resets, C04_invariant_after_every_history_with_batches, C04_invariant_after_every_history_with_queries, C04_targets_always_zero_or_alive_with_queries, C04_remove_target_detaches_with_queries, C04_remove_target_rejected_when_locked, C04_invariant_after_every_history, C04_step_preserves_invariant, C04_targets_always_zero_or_alive,
  C04_remove_target_detaches_history, C04_target_is_last_assigned, C04_stale_handle_rejected, C04_reset_succeeds, C04_history_examples,
  C04_targets_zero_or_alive, C04_remove_entity, C04_remove_fails_only_for_dead, C04_remove_target_detaches,
  C04_set_relations, C04_get_or_create_table, C04_create_table, C04_checker_sound, C04_relation_examples,
  C04_create_table_rejects_invalid, C04_created_tables_have_valid_targets,
  C04_set_relations_changes_exactly_the_named, C04_set_relations_accepts_only_valid, C04_exact_lookup_compares_generations,
  C04_free_table_bookkeeping, C04_remove_target_drops_its_keys).
Print Assumptions C04_all.
