(** * C15 — Shrink is invisible and convergent.

    Proved here (relation-free tier; every state satisfying the storage invariant):
    - on a locked world (open query, running callback) Shrink is rejected without any effect;
    - on an unlocked world Shrink (unbounded or zero budget) never fails, keeps the invariant, and changes no entity,
      component or value ([content_same]), nor the pool, the entity index, the lock, observers,
      filters, queries, archetypes or the number of tables: so by the storage theorems every later
      operation behaves as if Shrink had not been called;
    - after an unbounded Shrink every table has len <= cap <= max(initial capacity, next power of two
      of len), and Shrink reports no remaining work;
    - the result is exact: it is [true] iff some table can still shrink afterwards; every
      zero-budget call that finds work strictly decreases the number of shrinkable tables, so
      repeated bounded calls converge;
    - capacity arithmetic: capPow2 on uint32 (bit twiddling, mod 2^32 explicit) is the least power
      of two >= n for all n <= 2^31, < 2n; beyond 2^31 it wraps to 0 (tables never get there:
      fewer than 2^31 entities).
    - RELATION WORLDS (Rel2Maint.v), for every state satisfying St2: Shrink never fails, keeps
      St2, changes no entity's components, values or relation targets, nor pool, index, flags,
      observers, filters; the only tables whose status changes are EMPTY relation tables, which
      become free and disappear from every lookup and from the filter cache (the repaired code
      path); after an unbounded Shrink every empty relation table is free ([C15_shrink_relation_worlds]).
    Not covered by theorems: (relation-free statement only:) freeing of empty relation tables by Shrink (the repaired code path:
    witness TestWitness_C15_ShrinkFreesRelationTable and the `shrink` correspondence stream with
    the relation-lookup dump), time-limited budgets other than zero (clock dependent). *)
From Ark Require Import Model.Base Model.Mask Model.Pool Model.Util Model.World Model.Run.
From Ark Require Import Proofs.UtilProofs Proofs.WF Proofs.StorageA Proofs.ResetShrinkProofs Proofs.Rel2Defs Proofs.Rel2Maint Properties.Common.

(** On a locked world - between the creation of a query and its end, inside removal and batch
    callbacks - Shrink is rejected and the state is exactly as before: an open query, a cached filter
    or a batch selection in progress cannot be affected by it. (Repaired defect: World.Shrink had no
    lock check, freed tables out of the list an open query was walking, and the query skipped an
    entity; witness TestWitness_C15_ShrinkInsideQuery.) All the statements below are therefore about
    unlocked worlds, where Shrink runs. *)
Theorem C15_locked_rejected : forall s stop0, is_locked s = true -> w_shrink stop0 s = Err ELocked s.
Proof. exact shrink_locked_rejected. Qed.

Theorem C15_shrink_invisible : forall s stop0, St s -> is_locked s = false ->
  exists b s', w_shrink stop0 s = Ok b s' /\ St s' /\ content_same s s' /\ w_pool s' = w_pool s /\
               w_index s' = w_index s /\ side_same s s' /\ frame_user s s' /\ w_archs s' = w_archs s /\
               length (w_tables s') = length (w_tables s).
Proof. exact shrink_invisible_w. Qed.

Theorem C15_capacity_bounds : forall s, St s -> is_locked s = false ->
  exists s', w_shrink false s = Ok false s' /\
  forall tid t, nth_error (w_tables s') tid = Some t ->
    t_len t <= t_cap t /\ t_cap t <= Nat.max (cf_cap (w_cfg s)) (cap_pow2 (t_len t)).
Proof. exact shrink_capacity_bounds_w. Qed.

Theorem C15_result_exact : forall s stop0, St s -> is_locked s = false ->
  exists b s', w_shrink stop0 s = Ok b s' /\ (b = true <-> 0 < shrinkable s').
Proof. exact shrink_result_exact_w. Qed.

Theorem C15_converges : forall s, St s -> is_locked s = false -> 0 < shrinkable s ->
  exists b s', w_shrink true s = Ok b s' /\ shrinkable s' < shrinkable s.
Proof. exact shrink_converges_w. Qed.

(** A Shrink that ran leaves the world unlocked, so the next time-boxed call is admissible again. *)
Theorem C15_keeps_unlocked : forall s stop0 b s', St s -> is_locked s = false ->
  w_shrink stop0 s = Ok b s' -> is_locked s' = false.
Proof. exact shrink_keeps_unlocked. Qed.

Theorem C15_cap_pow2 : forall n, 1 <= n -> n <= Nat.pow 2 31 ->
  n <= cap_pow2 n /\ cap_pow2 n < 2 * n /\ (exists k, cap_pow2 n = Nat.pow 2 k) /\
  capPow2N (N.of_nat n) = N.of_nat (cap_pow2 n).
Proof.
  intros n H1 H2. split; [apply cap_pow2_ge; exact H2|]. split; [apply cap_pow2_tight; assumption|].
  split; [apply cap_pow2_pow; exact H2 | apply capPow2N_correct; exact H2].
Qed.

Theorem C15_cap_pow2_wraps_beyond_2_31 : capPow2N (2147483649)%N = 0%N.
Proof. exact capPow2N_overflow. Qed.

(** Non-vacuity: a world grown to capacity 8 and emptied to 2 entities; Shrink brings the table to 2. *)
Definition norel5 : script_cfg :=
  {| sc_cap := 1; sc_caprel := 1; sc_bits := 256; sc_debug := false; sc_kinds := map kind_of_code [0; 1]%Z |}.
Definition grown_world : W := exec norel5 [[3; 5]; [11; 0]; [11; 1]; [11; 2]]%Z.
Example C15_shrink_example :
  map (fun t => (t_len t, t_cap t)) (w_tables grown_world) = [(2, 8)] /\
  match w_shrink false grown_world with
  | Ok b s' => (b, map (fun t => (t_len t, t_cap t)) (w_tables s'))
  | Err _ _ => (true, [])
  end = (false, [(2, 2)]).
Proof. vm_compute. split; reflexivity. Qed.

Theorem C15_shrink_relation_worlds : forall s stop0, St2 s -> is_locked s = false ->
  exists b s', w_shrink stop0 s = Ok b s' /\ St2 s' /\ content_same s s' /\ r2d_tgt_same s s' /\
    w_pool s' = w_pool s /\ w_index s' = w_index s /\ w_istarget s' = w_istarget s /\ side_same s s' /\ frame_user s s' /\
    length (w_tables s') = length (w_tables s) /\
    (forall j t, nth_error (w_tables s) j = Some t -> exists t', nth_error (w_tables s') j = Some t' /\ r2d_tfree t t') /\
    (stop0 = false -> forall j t', nth_error (w_tables s') j = Some t' -> t_rels t' <> [] -> t_len t' = 0 -> t_free t' = true) /\
    (r2d_KeysLive s -> r2d_KeysLive s').
Proof. exact D_shrink_spec_w. Qed.
Definition C15_relation_example := r2d_ex_shrink_by_theorem.

Definition C15_all := (C15_locked_rejected, C15_keeps_unlocked, C15_shrink_relation_worlds, C15_relation_example, C15_shrink_invisible, C15_capacity_bounds, C15_result_exact, C15_converges, C15_cap_pow2,
  C15_cap_pow2_wraps_beyond_2_31).
Print Assumptions C15_all.
