(** * C15 — Shrink is invisible and convergent.

    Proved here (relation-free tier; every state satisfying the storage invariant):
    - on a locked world (open query, running callback) Shrink is rejected without any effect, whatever its budget;
    - on an unlocked world Shrink (unbounded or zero budget) never fails, keeps the invariant, and changes no entity,
      component or value ([content_same]), nor the pool, the entity index, the lock, observers,
      filters, queries, archetypes or the number of tables: so by the storage theorems every later
      operation behaves as if Shrink had not been called;
    - after an unbounded Shrink every table has len <= cap <= max(initial capacity, next power of two
      of len), and Shrink reports no remaining work;
    - the result is exact: it is [true] iff some table can still shrink afterwards; every
      zero-budget call that finds work strictly decreases the number of shrinkable tables, so
      repeated bounded calls converge;
    - EVERY TIME BUDGET, EVERY CLOCK ([..._any_budget]). The model's loop is [w_shrink_clock clock], where
      [clock idx] answers "has the budget expired when table idx has just been processed" (Go:
      [stopAfter == 0 || time.Since(start) >= stopAfter], tested after each table once a table had work);
      [w_shrink_timed clock] = lock check + that loop, and the two budgets above are the constant clocks
      ([C15_extreme_budgets_are_clocks]). For EVERY function [clock : nat -> bool] (no monotonicity assumed):
      Shrink never fails, is invisible in the sense above ([C15_shrink_invisible_any_budget]), its result is
      exact ([C15_result_exact_any_budget]), every table the walk has processed - and every table at all
      whenever it reports no remaining work - has len <= cap <= max(initial capacity, next power of two of
      len) ([C15_capacity_bounds_any_budget]); a call never makes a table shrinkable, and if anything is
      shrinkable it does the work of at least one table, because the stop test is only made after a table had
      work ([C15_progress_any_budget]); hence every sequence of time-boxed calls, one arbitrary clock per call,
      never fails, is invisible as a whole and reaches "nothing left to shrink" after at most
      [shrinkable s] calls that report remaining work ([C15_converges_any_budgets],
      [C15_converges_any_budgets_done]; by induction over the LIST of clocks);
    - capacity arithmetic: capPow2 on uint32 (bit twiddling, mod 2^32 explicit) is the least power
      of two >= n for all n <= 2^31, < 2n; beyond 2^31 it wraps to 0 (tables never get there:
      fewer than 2^31 entities).
    - RELATION WORLDS (Rel2Maint.v), for every state satisfying St2: Shrink never fails, keeps
      St2, changes no entity's components, values or relation targets, nor pool, index, flags,
      observers, filters; the only tables whose status changes are EMPTY relation tables, which
      become free and disappear from every lookup and from the filter cache (the repaired code
      path); after an unbounded Shrink every empty relation table is free ([C15_shrink_relation_worlds]);
      under EVERY clock the same holds, with "every empty relation table among the tables the walk has processed
      (0..last, last = the final table or one after which the clock had expired) is free"
      ([C15_shrink_relation_worlds_any_budget]); and (ShrinkClockRel.v) under EVERY clock the result is exact and
      the calls converge in relation worlds too, for the measure [workable] = the number of tables that can
      shrink or are empty, not yet free relation tables (exactly the test of the code's final scan; it is
      [shrinkable] in relation-free worlds): [b = true <-> 0 < workable s'], never more work than before,
      strictly less if there was any ([C15_relation_worlds_exact_progress_any_budget]); every sequence of
      time-boxed calls, one arbitrary clock per call, reaches [workable = 0] - no table can shrink, every empty
      relation table is free - after at most [workable s] calls that report remaining work
      ([C15_relation_worlds_converge_any_budgets], [..._done]).
    Not covered by theorems: (relation-free statement only:) freeing of empty relation tables by Shrink (the repaired code path:
    witness TestWitness_C15_ShrinkFreesRelationTable and the `shrink` correspondence stream with
    the relation-lookup dump). Time budgets other than zero are now covered: what remains unmodelled is only
    the clock itself, which the theorems quantify over (the operation language of Model/Run.v still offers the
    two constant clocks only, so the correspondence streams exercise those two). *)
From Ark Require Import Model.Base Model.Mask Model.Pool Model.Util Model.World Model.Run.
From Ark Require Import Proofs.UtilProofs Proofs.WF Proofs.StorageA Proofs.ResetShrinkProofs Proofs.Rel2Defs Proofs.Rel2Maint Proofs.ShrinkClockRel Properties.Common.

(** On a locked world - between the creation of a query and its end, inside removal and batch
    callbacks - Shrink is rejected and the state is exactly as before: an open query, a cached filter
    or a batch selection in progress cannot be affected by it. (Repaired defect: World.Shrink had no
    lock check, freed tables out of the list an open query was walking, and the query skipped an
    entity; witness TestWitness_C15_ShrinkInsideQuery.) All the statements below are therefore about
    unlocked worlds, where Shrink runs. *)
Theorem C15_locked_rejected : forall s stop0, is_locked s = true -> w_shrink stop0 s = Err ELocked s.
Proof. exact shrink_locked_rejected. Qed.

Theorem C15_shrink_invisible : forall s stop0, St s -> is_locked s = false ->
  exists b s', w_shrink stop0 s = Ok b s' /\ St s' /\ content_same s s' /\ w_pool s' = w_pool s /\
               w_index s' = w_index s /\ side_same s s' /\ frame_user s s' /\ w_archs s' = w_archs s /\
               length (w_tables s') = length (w_tables s).
Proof. exact shrink_invisible_w. Qed.

Theorem C15_capacity_bounds : forall s, St s -> is_locked s = false ->
  exists s', w_shrink false s = Ok false s' /\
  forall tid t, nth_error (w_tables s') tid = Some t ->
    t_len t <= t_cap t /\ t_cap t <= Nat.max (cf_cap (w_cfg s)) (cap_pow2 (t_len t)).
Proof. exact shrink_capacity_bounds_w. Qed.

Theorem C15_result_exact : forall s stop0, St s -> is_locked s = false ->
  exists b s', w_shrink stop0 s = Ok b s' /\ (b = true <-> 0 < shrinkable s').
Proof. exact shrink_result_exact_w. Qed.

Theorem C15_converges : forall s, St s -> is_locked s = false -> 0 < shrinkable s ->
  exists b s', w_shrink true s = Ok b s' /\ shrinkable s' < shrinkable s.
Proof. exact shrink_converges_w. Qed.

(** A Shrink that ran leaves the world unlocked, so the next time-boxed call is admissible again. *)
Theorem C15_keeps_unlocked : forall s stop0 b s', St s -> is_locked s = false ->
  w_shrink stop0 s = Ok b s' -> is_locked s' = false.
Proof. exact shrink_keeps_unlocked. Qed.

Theorem C15_cap_pow2 : forall n, 1 <= n -> n <= Nat.pow 2 31 ->
  n <= cap_pow2 n /\ cap_pow2 n < 2 * n /\ (exists k, cap_pow2 n = Nat.pow 2 k) /\
  capPow2N (N.of_nat n) = N.of_nat (cap_pow2 n).
Proof.
  intros n H1 H2. split; [apply cap_pow2_ge; exact H2|]. split; [apply cap_pow2_tight; assumption|].
  split; [apply cap_pow2_pow; exact H2 | apply capPow2N_correct; exact H2].
Qed.

Theorem C15_cap_pow2_wraps_beyond_2_31 : capPow2N (2147483649)%N = 0%N.
Proof. exact capPow2N_overflow. Qed.

(** Non-vacuity: a world grown to capacity 8 and emptied to 2 entities; Shrink brings the table to 2. *)
Definition norel5 : script_cfg :=
  {| sc_cap := 1; sc_caprel := 1; sc_bits := 256; sc_debug := false; sc_kinds := map kind_of_code [0; 1]%Z |}.
Definition grown_world : W := exec norel5 [[3; 5]; [11; 0]; [11; 1]; [11; 2]]%Z.
Example C15_shrink_example :
  map (fun t => (t_len t, t_cap t)) (w_tables grown_world) = [(2, 8)] /\
  match w_shrink false grown_world with
  | Ok b s' => (b, map (fun t => (t_len t, t_cap t)) (w_tables s'))
  | Err _ _ => (true, [])
  end = (false, [(2, 2)]).
Proof. vm_compute. split; reflexivity. Qed.

Theorem C15_shrink_relation_worlds : forall s stop0, St2 s -> is_locked s = false ->
  exists b s', w_shrink stop0 s = Ok b s' /\ St2 s' /\ content_same s s' /\ r2d_tgt_same s s' /\
    w_pool s' = w_pool s /\ w_index s' = w_index s /\ w_istarget s' = w_istarget s /\ side_same s s' /\ frame_user s s' /\
    length (w_tables s') = length (w_tables s) /\
    (forall j t, nth_error (w_tables s) j = Some t -> exists t', nth_error (w_tables s') j = Some t' /\ r2d_tfree t t') /\
    (stop0 = false -> forall j t', nth_error (w_tables s') j = Some t' -> t_rels t' <> [] -> t_len t' = 0 -> t_free t' = true) /\
    (r2d_KeysLive s -> r2d_KeysLive s').
Proof. exact D_shrink_spec_w. Qed.
Definition C15_relation_example := r2d_ex_shrink_by_theorem.

(** ** Every time budget and every clock

    [w_shrink_timed clock] is World.Shrink whose budget test after table [idx] is answered by [clock idx];
    nothing is assumed about [clock]. The two budgets of the statements above are the constant clocks. *)
Theorem C15_extreme_budgets_are_clocks : forall stop0, w_shrink stop0 = w_shrink_timed (fun _ => stop0).
Proof. exact shrink_timed_const. Qed.

Theorem C15_locked_rejected_any_budget : forall s clock, is_locked s = true -> w_shrink_timed clock s = Err ELocked s.
Proof. exact shrink_locked_rejected_clock. Qed.

Theorem C15_shrink_invisible_any_budget : forall s clock, St s -> is_locked s = false ->
  exists b s', w_shrink_timed clock s = Ok b s' /\ St s' /\ content_same s s' /\ w_pool s' = w_pool s /\
               w_index s' = w_index s /\ side_same s s' /\ frame_user s s' /\ w_archs s' = w_archs s /\
               length (w_tables s') = length (w_tables s).
Proof. exact shrink_invisible_clock_w. Qed.

Theorem C15_keeps_unlocked_any_budget : forall s clock b s', St s -> is_locked s = false ->
  w_shrink_timed clock s = Ok b s' -> is_locked s' = false.
Proof. exact shrink_keeps_unlocked_clock. Qed.

Theorem C15_result_exact_any_budget : forall s clock, St s -> is_locked s = false ->
  exists b s', w_shrink_timed clock s = Ok b s' /\ (b = true <-> 0 < shrinkable s').
Proof. exact shrink_result_exact_clock_w. Qed.

(** The walk processes the tables [0..last]; [last] is the final table or one after which the clock had expired;
    the processed tables are within the bounds; a walk that reached the final table reports no remaining work;
    and whenever no remaining work is reported, every table is within the bounds. *)
Theorem C15_capacity_bounds_any_budget : forall s clock, St s -> is_locked s = false ->
  exists last b s', w_shrink_timed clock s = Ok b s' /\ last < length (w_tables s) /\
    (S last = length (w_tables s) \/ clock last = true) /\
    (S last = length (w_tables s) -> b = false) /\
    (forall tid t, tid <= last -> nth_error (w_tables s') tid = Some t ->
       t_len t <= t_cap t /\ t_cap t <= Nat.max (cf_cap (w_cfg s)) (cap_pow2 (t_len t))) /\
    (b = false -> forall tid t, nth_error (w_tables s') tid = Some t ->
       t_len t <= t_cap t /\ t_cap t <= Nat.max (cf_cap (w_cfg s)) (cap_pow2 (t_len t))).
Proof. exact shrink_capacity_bounds_clock_w. Qed.

(** Progress: whatever the clock, a call does the work of at least one table if there is any. *)
Theorem C15_progress_any_budget : forall s clock, St s -> is_locked s = false ->
  exists b s', w_shrink_timed clock s = Ok b s' /\ shrinkable s' <= shrinkable s /\
               (0 < shrinkable s -> shrinkable s' < shrinkable s).
Proof. exact shrink_progress_clock_w. Qed.

(** [shrink_calls clocks]: call Shrink while it reports remaining work, the i-th call under the i-th clock, at
    most [length clocks] times; the result [n] is the number of calls that reported remaining work. Each of
    them made at least one more table unshrinkable, so [n <= shrinkable s]; if the loop ended before the
    clocks ran out, nothing is left to shrink; the whole loop is invisible. *)
Theorem C15_converges_any_budgets : forall clocks s, St s -> is_locked s = false ->
  exists n s', shrink_calls clocks s = Ok n s' /\ n <= length clocks /\ n + shrinkable s' <= shrinkable s /\
    (n < length clocks -> shrinkable s' = 0) /\
    St s' /\ is_locked s' = false /\ content_same s s' /\ w_pool s' = w_pool s /\ w_index s' = w_index s /\
    side_same s s' /\ frame_user s s' /\ w_archs s' = w_archs s /\ length (w_tables s') = length (w_tables s).
Proof. exact shrink_converges_clocks. Qed.

Theorem C15_converges_any_budgets_done : forall clocks s, St s -> is_locked s = false ->
  shrinkable s <= length clocks ->
  exists n s', shrink_calls clocks s = Ok n s' /\ n <= shrinkable s /\ shrinkable s' = 0 /\ St s' /\
               is_locked s' = false /\ content_same s s'.
Proof. exact shrink_converges_clocks_done. Qed.

(** Non-vacuity: a reachable world with four tables, three of them shrinkable; one call under a clock that
    expires after table 1 (an intermediate budget), under a non-monotone clock, and a loop of four calls with
    four different clocks, computed; and the loop by the theorem, for three arbitrary clocks. *)
Definition C15_any_budget_example := (r_ex_world_ok, r_ex_one_call, r_ex_calls, r_ex_calls_by_theorem).

Theorem C15_shrink_relation_worlds_any_budget : forall s clock, St2 s -> is_locked s = false ->
  exists b s' last, w_shrink_timed clock s = Ok b s' /\ St2 s' /\ content_same s s' /\ r2d_tgt_same s s' /\
    w_pool s' = w_pool s /\ w_index s' = w_index s /\ w_istarget s' = w_istarget s /\ side_same s s' /\ frame_user s s' /\
    length (w_tables s') = length (w_tables s) /\
    (forall j t, nth_error (w_tables s) j = Some t -> exists t', nth_error (w_tables s') j = Some t' /\ r2d_tfree t t') /\
    last < length (w_tables s) /\ (S last = length (w_tables s) \/ clock last = true) /\
    (forall j t', j <= last -> nth_error (w_tables s') j = Some t' -> t_rels t' <> [] -> t_len t' = 0 -> t_free t' = true) /\
    (r2d_KeysLive s -> r2d_KeysLive s').
Proof. exact D_shrink_spec_clock_w. Qed.
Definition C15_relation_any_budget_example := r2d_ex_shrink_clock_by_theorem.

(** Relation worlds, every clock: the result is exact and every call makes progress, for the measure
    [workable s] = number of tables with [r_work s t] (can shrink, or empty and not yet free relation table). *)
Theorem C15_relation_worlds_exact_progress_any_budget : forall s clock, St2 s -> is_locked s = false ->
  exists b s', w_shrink_timed clock s = Ok b s' /\ St2 s' /\ (b = true <-> 0 < workable s') /\
    workable s' <= workable s /\ (0 < workable s -> workable s' < workable s).
Proof.
  intros s clock HS Hl. destruct (D_shrink_run_clock_w s clock HS Hl) as (b & s' & last & E & S2 & _ & _ & _ & _ & _ & _ & X & P).
  exists b, s'. split; [exact E|]. split; [exact S2|]. split; [exact X|exact P].
Qed.

Theorem C15_workable_is_shrinkable_without_relations : forall s, St s -> workable s = shrinkable s.
Proof. exact r2t_workable_norel. Qed.

Theorem C15_relation_worlds_converge_any_budgets : forall clocks s, St2 s -> is_locked s = false ->
  exists n s', shrink_calls clocks s = Ok n s' /\ n <= length clocks /\ n + workable s' <= workable s /\
    (n < length clocks -> workable s' = 0) /\
    St2 s' /\ is_locked s' = false /\ r2d_shr s s' /\ (r2d_KeysLive s -> r2d_KeysLive s').
Proof. exact D_shrink_converges_clocks. Qed.

Theorem C15_relation_worlds_converge_any_budgets_done : forall clocks s, St2 s -> is_locked s = false ->
  workable s <= length clocks ->
  exists n s', shrink_calls clocks s = Ok n s' /\ n <= workable s /\ St2 s' /\ is_locked s' = false /\ r2d_shr s s' /\
    (forall j t, nth_error (w_tables s') j = Some t ->
       (t_rels t = [] -> tbl_can_shrink t (cf_cap (w_cfg s')) = false) /\
       (t_rels t <> [] -> tbl_can_shrink t (cf_caprel (w_cfg s')) = false /\ (t_len t = 0 -> t_free t = true))).
Proof.
  intros clocks s HS Hl Hlen.
  destruct (D_shrink_converges_clocks_done clocks s HS Hl Hlen) as (n & s' & E & N & J1 & J2 & J3 & Hall).
  exists n, s'. split; [exact E|]. split; [exact N|]. split; [exact J1|]. split; [exact J2|]. split; [exact J3|].
  intros j t Ej. apply r2t_work_false. exact (Hall j t Ej).
Qed.
Definition C15_relation_converge_example := (r2t_ex_hyps, r2t_ex_calls_computed, r2t_ex_calls_by_theorem).

Definition C15_all := (C15_locked_rejected, C15_keeps_unlocked, C15_shrink_relation_worlds, C15_relation_example, C15_shrink_invisible, C15_capacity_bounds, C15_result_exact, C15_converges, C15_cap_pow2,
  C15_cap_pow2_wraps_beyond_2_31,
  C15_extreme_budgets_are_clocks, C15_locked_rejected_any_budget, C15_shrink_invisible_any_budget, C15_keeps_unlocked_any_budget,
  C15_result_exact_any_budget, C15_capacity_bounds_any_budget, C15_progress_any_budget, C15_converges_any_budgets,
  C15_converges_any_budgets_done, C15_any_budget_example, C15_shrink_relation_worlds_any_budget, C15_relation_any_budget_example,
  C15_relation_worlds_exact_progress_any_budget, C15_workable_is_shrinkable_without_relations,
  C15_relation_worlds_converge_any_budgets, C15_relation_worlds_converge_any_budgets_done, C15_relation_converge_example).
Print Assumptions C15_all.
