(** * C06 — Batch operations equal the per-entity operations they abbreviate.

    Proved here (relation-free tier; every state satisfying the storage invariant):
    - the table-level move every Add/Remove/ExchangeBatch performs ([exchange_table], the model of
      storage.exchangeTable / table.AddAll): every entity of the source table ends up alive with
      exactly the components of the destination archetype, the kept ones with their values, the
      added ones zero; every other entity is untouched; dead handles stay dead; the source table is
      left empty; the pool is unchanged. Combined with the table finder's mask arithmetic
      ([C06_destination_mask]) this is, per entity, literally the postcondition of the
      single-entity Exchange ([C06_single_exchange], from StorageB), i.e. the batch equals the
      per-entity operations applied to each selected entity;
    - batch creation ([create_entities], used by NewEntities / the MapN.NewBatch family): exactly [n] new,
      pairwise distinct, previously dead handles, each alive afterwards with the table's components
      all zero, occupying the rows [len .. len+n) in order; every other entity untouched;
    - NewEntities(n, fn) end to end, on an unlocked world without OnCreateEntity observers: the
      callback runs exactly once per new entity in row order (the model's log holds exactly one
      entry per new handle), entities not created by the call are untouched, the world is unlocked
      afterwards ([C06_new_entities], the `_partial` suffix in BatchProofs refers to the additional
      hypothesis that a lock bit is available; without it the statement is refuted:
      [C06_new_entities_needs_a_lock_bit]).
    - WHOLE OPERATIONS (BatchOps.v), on an unlocked world with a free lock bit and without observers
      for the consulted events: ExchangeBatch/AddBatch/RemoveBatch ([C06_exchange_batch]) moves
      exactly the live entities of the tables the filter selected at call time, gives each the
      single-entity Exchange postcondition with the callback's values written (zero-sized
      components read 0), leaves every other entity and every dead handle untouched, logs exactly
      one callback per moved entity (NoDup), unlocks the world; if a selected non-empty table is not
      ready (has a component of add / lacks one of rem) the call fails BEFORE anything moved:
      content unchanged and the world unlocked again (the lock is exactly the one obtained by
      taking and releasing one bit; before the repair d31ae2e this branch could only be proved
      with "the world stays locked", which is how that defect was found); RemoveEntities
      ([C06_remove_entities]): exactly the selected entities die (their handles are rejected
      afterwards), all others unchanged, one callback each iff a callback was passed; NewBatch
      ([C06_new_batch]): n fresh handles with exactly the given components, callback values or
      zero; the selected tables are exactly the tables of the entities matching the filter
      ([C06_selection_uncached], [C06_selection_cached]; completeness needs every non-empty table
      to be listed by its archetype, stated as hypothesis [tables_listed]).
      The hypothesis "get_batch_tables succeeds" cannot be replaced by "the filter exists":
      [C06_filter_exists_is_not_enough] (an archetype without table makes the selection itself fail;
      [St] admits such states. Before the repair of createArchetype they were reachable, left behind by
      a creation rejected between createArchetype and createTable; since the repair every reachable
      state has "every archetype has its table": [archs_tabled_norel], StorageD [Inv4]).
    Not covered by theorems (tied by the `batch` correspondence stream, op codes 12, 30, 31, 32
    with and without callbacks, with independent oracle [proj_batch]): SetRelationsBatch, batch
    operations with observers registered for the consulted events (ordering of callbacks: C09),
    and batch operations in worlds with relation components. *)
From Ark Require Import Model.Base Model.Mask Model.Pool Model.Util Model.World Model.Run.
From Ark Require Import Proofs.WF Proofs.StorageA Proofs.StorageBDefs Proofs.StorageB_sb2 Proofs.ViewProofs Proofs.CacheProofs Proofs.BatchProofs Proofs.BatchOps Proofs.StorageD Properties.Common.
From Ark Require Import Proofs.Rel2Defs Proofs.Rel2Maint Proofs.Rel2Hist Proofs.Rel2Cache Proofs.Rel2Batch Proofs.Rel2BatchNew Proofs.Rel2BatchExchange Proofs.Rel2BatchSetRel Proofs.Rel2BatchHist.
From Ark Require Import Proofs.Rel2HistQ Proofs.Rel2HistQL Proofs.Rel2HistR Proofs.Rel2HistAll Proofs.Rel2HistAllL Proofs.Rel2HistAllR.
From Ark Require Import Proofs.ObsErase Proofs.Rel2HistO Proofs.Rel2HistAllO Proofs.ObsEraseBatch Proofs.Rel2HistAllO2 Proofs.Rel2HistAllOR Proofs.Rel2HistAllOR2.

Theorem C06_table_move_is_per_entity_exchange : forall s otid ntid ot nt oa na, St s -> otid <> ntid ->
  nth_error (w_tables s) otid = Some ot -> nth_error (w_tables s) ntid = Some nt ->
  nth_error (w_archs s) (t_arch ot) = Some oa -> nth_error (w_archs s) (t_arch nt) = Some na ->
  exists s', exchange_table otid ntid [] s = Ok (t_len nt, t_len ot) s' /\ St s' /\
    (forall e, live s e = true -> (exists r, loc s e = Some (otid, r)) ->
       live s' e = true /\
       forall c, val s' e c = if mk_get (a_mask na) c then (if mk_get (a_mask oa) c then val s e c else Some 0%Z) else None) /\
    (forall e, live s e = true -> (forall r, loc s e <> Some (otid, r)) -> live s' e = true /\ forall c, val s' e c = val s e c) /\
    (forall e, live s e = false -> live s' e = false) /\
    (exists ot', nth_error (w_tables s') otid = Some ot' /\ t_len ot' = 0) /\
    w_pool s' = w_pool s /\ side_same s s' /\ frame_user s s'.
Proof. exact exchange_table_spec_located. Qed.

(** The destination the batch picks for a source table is the one the single-entity operation
    picks: mask = (old \ rem) ∪ add, with the same precondition checks. *)
Theorem C06_destination_mask : forall s old ot add rem m0,
  St s -> nth_error (w_tables s) old = Some ot ->
  (forall j, mk_get m0 j = true -> j < length (w_reg s)) -> (forall c, In c add -> c < length (w_reg s)) ->
  match find_or_create_table old add rem [] m0 s with
  | Ok (tid, aid, m, rr) s' =>
      finder_post s m tid aid s' /\ rr = false /\
      (forall j, mk_get m j = ((mk_get m0 j && negb (memb j rem)) || memb j add)%bool) /\
      NoDup add /\ NoDup rem /\ (forall c, In c rem -> mk_get m0 c = true) /\
      (forall c, In c add -> mk_get m0 c = false)
  | Err _ s' => finder_err s s'
  end.
Proof. exact find_or_create_table_spec. Qed.

(** The single-entity operation the batch abbreviates (same value formula). *)
Theorem C06_single_exchange : forall s e add rem, St s -> room s -> registered s add -> registered s rem ->
  match w_exchange e add rem [] s with
  | Ok _ s' =>
      St s' /\ is_locked s = false /\ live s e = true /\ NoDup add /\ NoDup rem /\
      (forall c, In c rem -> val s e c <> None) /\ (forall c, In c add -> val s e c = None) /\
      live s' e = true /\
      (forall c, val s' e c = if memb c add then Some 0%Z else if memb c rem then None else val s e c) /\
      others_same s s' e /\ w_pool s' = w_pool s /\ frame_user s s'
  | Err _ s' => rejected s s'
  end.
Proof. exact w_exchange_spec. Qed.

Theorem C06_batch_creation : forall s tid t n, St s -> room_n s n -> nth_error (w_tables s) tid = Some t ->
  exists s' es, create_entities tid n s = Ok tt s' /\ St s' /\ length es = n /\ NoDup es /\
    (forall e, In e es -> live s e = false /\ live s' e = true /\ alive s' e = true /\
                          (forall c, val s' e c = if memb c (t_ids t) then Some 0%Z else None)) /\
    (forall e, ~ In e es -> live s' e = live s e /\ forall c, val s' e c = val s e c) /\
    (exists t', nth_error (w_tables s') tid = Some t' /\ t_len t' = t_len t + n /\
                firstn n (skipn (t_len t) (t_ents t')) = es) /\
    side_same s s' /\ frame_user s s'.
Proof. exact create_entities_spec. Qed.

Theorem C06_new_entities : forall s n, St s -> room_n s n -> is_locked s = false -> has_obs s EvCreateEntity = false ->
  lock_lock (w_lock s) <> None ->
  match w_new_entities n true s with
  | Ok _ s' =>
      St s' /\ is_locked s' = false /\
      exists es, length es = n /\ NoDup es /\
        w_log s' = w_log s ++ map (fun e => [101%Z; Zn (fst e); Z.of_N (snd e)]) es /\
        (forall e, In e es -> live s e = false /\ live s' e = true /\ forall c, val s' e c = None) /\
        (forall e, ~ In e es -> live s' e = live s e /\ forall c, val s' e c = val s e c)
  | Err _ s' => False
  end.
Proof. exact new_entities_spec_partial. Qed.

Theorem C06_new_entities_needs_a_lock_bit :
  ~ (forall s n, St s -> room_n s n -> is_locked s = false -> has_obs s EvCreateEntity = false ->
       lk_pool (w_lock s) = ipool_new \/ True ->
       match w_new_entities n true s with Ok _ _ => True | Err _ _ => False end).
Proof. exact new_entities_spec_refuted. Qed.

(** ** Whole operations *)

Theorem C06_exchange_batch : forall s fi tabs add rem vals,
  St s -> is_locked s = false -> lock_lock (w_lock s) <> None ->
  (add <> [] \/ rem <> []) -> registered s add ->
  (rem <> [] -> has_obs s EvRemoveComponents = false) -> (add <> [] -> has_obs s EvAddComponents = false) ->
  (forall cv, In cv vals -> In (fst cv) add) ->
  get_batch_tables fi [] s = Ok tabs s ->
  match w_exchange_batch fi [] add rem [] vals s with
  | Ok _ s' =>
      (forall tid t, In tid tabs -> nth_error (w_tables s) tid = Some t -> t_len t <> 0 -> bo_ready add rem (t_ids t)) /\
      St s' /\ is_locked s' = false /\
      (forall e, live s e = true -> bo_in_tabs s tabs e ->
         live s' e = true /\
         forall c, val s' e c = if memb c add then Some (bo_cbval s vals c) else if memb c rem then None else val s e c) /\
      (forall e, live s e = true -> ~ bo_in_tabs s tabs e -> live s' e = true /\ forall c, val s' e c = val s e c) /\
      (forall e, live s e = false -> live s' e = false) /\
      (exists es, w_log s' = w_log s ++ map (fun e => [101%Z; Zn (fst e); Z.of_N (snd e)]) es /\ NoDup es /\
         forall e, In e es <-> (live s e = true /\ bo_in_tabs s tabs e)) /\
      w_pool s' = w_pool s /\ frame_user s s'
  | Err _ s' =>
      (exists tid t, In tid tabs /\ nth_error (w_tables s) tid = Some t /\ t_len t <> 0 /\ ~ bo_ready add rem (t_ids t)) /\
      St s' /\ content_same s s' /\ is_locked s' = false /\ w_log s' = w_log s /\ w_pool s' = w_pool s /\ frame_user s s' /\
      lk_mask (w_lock s') = lk_mask (w_lock s) /\
      (exists b l1, lock_lock (w_lock s) = Some (b, l1) /\ lock_unlock l1 b = Some (w_lock s'))
  end.
Proof. exact exchange_batch_spec. Qed.

Theorem C06_remove_entities : forall s fi tabs fn,
  St s -> is_locked s = false -> (fn = true -> lock_lock (w_lock s) <> None) ->
  has_obs s EvRemoveEntity = false -> has_obs s EvRemoveRelations = false ->
  get_batch_tables fi [] s = Ok tabs s ->
  exists s', w_remove_entities fi [] fn s = Ok tt s' /\ St s' /\ is_locked s' = false /\
    (forall e, live s e = true -> bo_in_tabs s tabs e ->
       live s' e = false /\ alive s' e = false /\ forall c, val s' e c = None) /\
    (forall e, ~ (live s e = true /\ bo_in_tabs s tabs e) -> live s' e = live s e /\ forall c, val s' e c = val s e c) /\
    (exists es, w_log s' = w_log s ++ (if fn then map (fun e => [101%Z; Zn (fst e); Z.of_N (snd e)]) es else []) /\
       (forall e, In e es <-> (live s e = true /\ bo_in_tabs s tabs e)) /\ (NoDup tabs -> NoDup es)) /\
    frame_user s s' /\ length (pe (w_pool s')) = length (pe (w_pool s)).
Proof. exact remove_entities_spec. Qed.

Theorem C06_new_batch : forall s n ids vals fn,
  St s -> room_n s n -> is_locked s = false -> (fn = true -> lock_lock (w_lock s) <> None) ->
  has_obs s EvCreateEntity = false -> registered s ids -> NoDup ids ->
  (forall cv, In cv vals -> In (fst cv) ids) ->
  exists s' es, w_new_batch n ids [] vals fn s = Ok tt s' /\ St s' /\ is_locked s' = false /\
    length es = n /\ NoDup es /\
    (forall e, In e es -> live s e = false /\ live s' e = true /\ alive s' e = true /\
       forall c, val s' e c = if memb c ids then Some (if fn then bo_cbval s vals c else 0%Z) else None) /\
    (forall e, ~ In e es -> live s' e = live s e /\ forall c, val s' e c = val s e c) /\
    w_log s' = w_log s ++ (if fn then map (fun e => [101%Z; Zn (fst e); Z.of_N (snd e)]) es else []) /\
    frame_user s s'.
Proof. exact new_batch_spec. Qed.

Theorem C06_selection_uncached : forall s fi f tabs, St s ->
  nth_error (w_filters s) fi = Some f -> f_cache f = None -> get_batch_tables fi [] s = Ok tabs s ->
  forall e, live s e = true ->
    (bo_in_tabs s tabs e -> bo_ent_matches s f e) /\
    (tables_listed s -> bo_ent_matches s f e -> bo_in_tabs s tabs e).
Proof. exact batch_selection_uncached. Qed.

Theorem C06_selection_cached : forall s fi f cid addr ce tabs, St s -> k_cache_exact_tol s ->
  nth_error (w_filters s) fi = Some f -> f_cache f = Some cid ->
  entry_addr s cid = Some addr -> nth_error (w_cheap s) addr = Some ce -> ce_filter ce = fi -> In addr (w_centries s) ->
  get_batch_tables fi [] s = Ok tabs s ->
  NoDup tabs /\
  forall e, live s e = true ->
    (bo_in_tabs s tabs e -> bo_ent_matches s f e) /\
    (tables_listed s -> bo_ent_matches s f e -> bo_in_tabs s tabs e).
Proof. exact batch_selection_cached. Qed.

Definition C06_filter_exists_is_not_enough := exchange_batch_spec_refuted.
Definition C06_whole_ops_nonvacuous := (exchange_batch_spec_nonvacuous, remove_entities_spec_nonvacuous, new_batch_spec_nonvacuous,
  batch_selection_cached_nonvacuous, exchange_batch_example, remove_entities_example, new_batch_example).

(** Non-vacuity: a batch of 3 entities with components {0,1} (values 7), ExchangeBatch adding 2
    and removing 0: all three end with {1,2}, value of 1 kept, 2 zero. *)
Definition c06_cfg : script_cfg :=
  {| sc_cap := 2; sc_caprel := 1; sc_bits := 256; sc_debug := false; sc_kinds := map kind_of_code [0; 1; 2]%Z |}.
Definition c06_world : W :=
  exec c06_cfg [[30; 3; 2; 0; 1; 0; 2; 0; 7; 1; 7]; [0]; [15; 0; 1; 0; 0; 0; 0]; [31; 0; 0; 1; 2; 1; 0; 0; 0]]%Z.
Example C06_example :
  map (fun e => (live c06_world e, val c06_world e 0, val c06_world e 1, val c06_world e 2)) [(2, 0%N); (3, 0%N); (4, 0%N); (5, 0%N)] =
  [(true, None, Some 7%Z, Some 0%Z); (true, None, Some 7%Z, Some 0%Z); (true, None, Some 7%Z, Some 0%Z); (true, None, None, None)].
Proof. vm_compute. reflexivity. Qed.

(** Over histories (StorageD.v): in every state reachable by the core operations, queries and
    filter creation, the tables selected for an unregistered filter are EXACTLY the tables of the
    entities matching it - the hypotheses [tables_listed] / "every archetype has its table" of the
    selection theorems above are invariants. *)
Definition C06_selection_exact_after_every_history := reachable_batch_selection_exact.

(** ** RELATION WORLDS (Rel2Batch*.v): the batch operations for every state satisfying the relation-tier
    invariant [St2] (+ KeysLive, no observers, unlocked). RemoveEntities removes exactly the entities of the
    selected tables and detaches their dependants; NewBatch creates exactly n fresh entities; ExchangeBatch and
    SetRelationsBatch equal the per-entity operation on exactly the selected entities (one batch callback
    each), keep the invariant and the lock state in BOTH outcomes with arbitrary arguments; a SetRelationsBatch
    rejected for one of its tables changes nothing (planning precedes every move, repaired defect d62e1af);
    the invariant after every history mixing single-entity and batch operations ([reachable_inv2B]; the two
    excluded forms - a panicking USER callback in RemoveEntities / NewBatchFn leaves the world locked - are
    shown necessary by [step_inv2B_remove_refuted], [step_inv2B_newbatch_refuted]). *)
Theorem C06_rel_remove_entities :
  forall (s : W) (fi : nat) (f : fobj) (rels : list rel) (fn : bool),
         St2 s ->
         r2d_KeysLive s ->
         r2e_noobs s ->
         is_locked s = false ->
         (fn = true -> lock_lock (w_lock s) <> None) ->
         nth_error (w_filters s) fi = Some f ->
         f_cache f = None ->
         r2k_rels_ok s (f_mask f) rels ->
         r2k_tabled s f ->
         exists (tabs : list nat) (s' : W),
           w_remove_entities fi rels fn s = Ok tt s' /\
           r2B_rm_post s tabs fn s' /\ NoDup tabs /\ (forall tid : nat, In tid tabs <-> r2k_sel s f rels tid).
Proof. exact r2B_remove_entities_never_fails. Qed.

Theorem C06_rel_remove_entities_both_outcomes :
  forall (s : W) (fi : nat) (rels : list rel) (fn : bool),
         St2 s ->
         r2d_KeysLive s ->
         r2e_noobs s ->
         is_locked s = false ->
         let s' := state_of (w_remove_entities fi rels fn s) in
         St2 s' /\
         r2d_KeysLive s' /\
         r2e_noobs s' /\ (is_err (w_remove_entities fi rels fn s) = false -> is_locked s' = false).
Proof. exact r2B_remove_entities_inv. Qed.

Theorem C06_rel_new_batch :
  forall (s : W) (n : nat) (ids : list nat) (rels : list rel) (vals : list (nat * Z)) (fn : bool),
         St2 s ->
         r2d_KeysLive s ->
         r2e_noobs s ->
         is_locked s = false ->
         room_n s n ->
         registered s ids ->
         NoDup ids ->
         Rel2Ops.r2a_rels_ok s ids rels ->
         Rel2Ops.r2a_rels_complete s ids rels ->
         (fn = true -> lock_lock (w_lock s) <> None /\ (n = 0 \/ r2n_vals_ok ids vals)) ->
         exists s' : W,
           w_new_batch n ids rels vals fn s = Ok tt s' /\
           r2n_inv s' /\
           is_locked s' = false /\
           frame_user s s' /\
           (exists es : list ent,
              r2n_created s s' n ids rels (fun c : nat => if fn then bo_cbval s vals c else 0%Z) es /\
              w_log s' = w_log s ++ (if fn then map b_entry es else [])).
Proof. exact r2n_new_batch_ok. Qed.

Theorem C06_rel_exchange_batch :
  forall (s : W) (fi : nat) (brels : list rel) (tabs add rem : list nat) (rels : list rel)
           (vals : list (nat * Z)),
         St2 s ->
         r2d_KeysLive s ->
         r2e_noobs s ->
         is_locked s = false ->
         lock_lock (w_lock s) <> None ->
         add <> [] \/ rem <> [] ->
         registered s add ->
         Rel2Ops.r2a_rels_ok s add rels ->
         (forall cv : nat * Z, In cv vals -> In (fst cv) add) ->
         get_batch_tables fi brels s = Ok tabs s ->
         (forall tid : nat,
          In tid tabs -> exists t : table, nth_error (w_tables s) tid = Some t /\ t_free t = false) ->
         match w_exchange_batch fi brels add rem rels vals s with
         | Ok _ s' =>
             (forall (tid : nat) (t : table) (oa : arch),
              In tid tabs ->
              nth_error (w_tables s) tid = Some t ->
              t_len t <> 0 ->
              nth_error (w_archs s) (t_arch t) = Some oa -> r2x_ready s add rem rels (a_mask oa)) /\
             St2 s' /\
             r2d_KeysLive s' /\
             r2e_noobs s' /\
             is_locked s' = false /\
             (forall e : ent,
              live s e = true ->
              bo_in_tabs s tabs e ->
              live s' e = true /\
              (forall c : nat, val s' e c = bo_newval s add rem vals e c) /\
              (forall c : nat,
               tgt s' e c =
               (if memb c add
                then Some (Rel2Ops.r2a_new_target rels c)
                else if memb c rem then None else tgt s e c))) /\
             (forall e : ent,
              live s e = true ->
              ~ bo_in_tabs s tabs e ->
              live s' e = true /\
              (forall c : nat, val s' e c = val s e c) /\ (forall c : nat, tgt s' e c = tgt s e c)) /\
             (forall e : ent, live s e = false -> live s' e = false) /\
             (exists es : list ent,
                w_log s' = w_log s ++ map b_entry es /\
                NoDup es /\ (forall e : ent, In e es <-> live s e = true /\ bo_in_tabs s tabs e)) /\
             w_pool s' = w_pool s /\ frame_user s s'
         | Err _ s' =>
             (exists (tid : nat) (t : table) (oa : arch),
                In tid tabs /\
                nth_error (w_tables s) tid = Some t /\
                t_len t <> 0 /\
                nth_error (w_archs s) (t_arch t) = Some oa /\ ~ r2x_ready s add rem rels (a_mask oa)) /\
             St2 s' /\
             r2d_KeysLive s' /\
             r2e_noobs s' /\
             is_locked s' = false /\
             content_same s s' /\
             Rel2Remove.r2c_tgt_same s s' /\ w_log s' = w_log s /\ w_pool s' = w_pool s /\ frame_user s s'
         end.
Proof. exact r2x_exchange_batch_spec. Qed.

Theorem C06_rel_exchange_batch_any_arguments :
  forall (s : W) (fi : nat) (brels : list rel) (add rem : list nat) (rels : list rel)
           (vals : list (nat * Z)),
         St2 s ->
         r2d_KeysLive s ->
         r2e_noobs s ->
         is_locked s = false ->
         r2x_args s add rels ->
         St2 (state_of (w_exchange_batch fi brels add rem rels vals s)) /\
         r2d_KeysLive (state_of (w_exchange_batch fi brels add rem rels vals s)) /\
         r2e_noobs (state_of (w_exchange_batch fi brels add rem rels vals s)) /\
         is_locked (state_of (w_exchange_batch fi brels add rem rels vals s)) = false /\
         frame_user s (state_of (w_exchange_batch fi brels add rem rels vals s)) /\
         w_pool (state_of (w_exchange_batch fi brels add rem rels vals s)) = w_pool s /\
         (forall e : ent, live (state_of (w_exchange_batch fi brels add rem rels vals s)) e = live s e).
Proof. exact r2x_exchange_batch_inv. Qed.

Theorem C06_rel_set_relations_batch :
  forall (s : W) (fi : nat) (brels : list rel) (rels : list (nat * ent)) (u : unit) (s' : W),
         St2 s ->
         r2d_KeysLive s ->
         r2e_noobs s ->
         is_locked s = false ->
         (forall r : nat * ent, In r rels -> Rel2SetRel.r2b_handle_ok s (snd r)) ->
         w_set_relations_batch fi brels rels s = Ok u s' ->
         r2s_post s s' /\
         rels <> [] /\
         (exists tabs : list nat,
            get_batch_tables fi brels s = Ok tabs s /\
            NoDup tabs /\
            (forall e : ent,
             r2s_in_tabs s tabs e ->
             live s' e = true /\
             (forall c : nat, val s' e c = val s e c) /\
             (forall c : nat, tgt s' e c = r2s_new rels (tgt s e c) c)) /\
            (forall e : ent,
             ~ r2s_in_tabs s tabs e ->
             live s' e = live s e /\
             (forall c : nat, val s' e c = val s e c) /\ (forall c : nat, tgt s' e c = tgt s e c)) /\
            (exists es : list ent,
               w_log s' = w_log s ++ map b_entry es /\
               NoDup es /\
               (forall e : ent,
                In e es <->
                r2s_in_tabs s tabs e /\ (exists r : nat * ent, In r rels /\ tgt s e (fst r) <> Some (snd r))))).
Proof. exact r2s_set_relations_batch_spec. Qed.

Theorem C06_rel_set_relations_batch_both_outcomes :
  forall (s : W) (fi : nat) (brels : list rel) (rels : list (nat * ent)),
         St2 s ->
         r2d_KeysLive s ->
         r2e_noobs s ->
         is_locked s = false ->
         (forall r : nat * ent, In r rels -> Rel2SetRel.r2b_handle_ok s (snd r)) ->
         match w_set_relations_batch fi brels rels s with
         | Ok _ s' => r2s_post s s'
         | Err _ s' =>
             r2s_post s s' /\
             content_same s s' /\ (forall (e0 : ent) (c : nat), tgt s' e0 c = tgt s e0 c) /\ w_log s' = w_log s
         end.
Proof. exact r2s_set_relations_batch_inv. Qed.

Theorem C06_rel_invariant_after_every_history_with_batches :
  forall (c : script_cfg) (lines : list (list Z)),
         cfg_ok2 c ->
         Forall (r2h_line (length (sc_kinds c))) lines ->
         r2h_total lines + 4 < 2 ^ 31 -> Inv2 (exec c lines) (r2h_total lines).
Proof. exact reachable_inv2B. Qed.

Theorem C06_rel_batch_step_any_arguments :
  forall (debug wd : bool) (s : W) (n : nat) (line : list Z) (o : op),
         Inv2 s n ->
         n + r2h_created o + 4 < 2 ^ 31 ->
         decode_op line = Some o ->
         r2h_batch_op o = true ->
         (forall c : nat, In c (r2h_op_ids o) -> c < length (w_reg s)) ->
         let s' := fst (step debug wd s line) in
         Inv2L s' (n + S (r2h_created o)) /\
         w_reg s' = w_reg s /\
         (exists es : list ent,
            w_issued s' = w_issued s ++ es /\ (forall e : ent, In e es -> live s' e = true /\ live s e = false)) /\
         (is_locked s' = false \/
          is_err (step_op debug o (RecordSet.set w_log (fun _ : list (list Z) => []) s)) = true /\
          r2h_leak (RecordSet.set w_log (fun _ : list (list Z) => []) s) o).
Proof. exact step_inv2B_storage. Qed.

(** ** The batch operations in the merged class (package U): histories with filters, registrations, queries, LOCKED states
    (stage 1) and Reset (stage 2). On a locked world a batch step changes nothing; the lock leaks of Rel2BatchHist do not break
    the invariant (it has no "unlocked" clause): no [r2h_safe] side condition. After a Reset the FOREIGN handles in relation-target
    position must be proper (and within the pool for ExchangeBatch): [r2u_foreign_ok]. *)

Theorem C06_rel_batch_step_locked_or_unlocked :
  forall (debug wd : bool) (s : W) (n : nat) (line : list Z) (o : op),
         InvAll s n ->
         n + r2h_created o + 4 < 2 ^ 31 ->
         decode_op line = Some o ->
         r2h_batch_op o = true ->
         (forall c : nat, In c (r2h_op_ids o) -> c < length (w_reg s)) ->
         let s' := fst (step debug wd s line) in
         InvAll s' (n + S (r2h_created o)) /\
         w_reg s' = w_reg s /\
         (exists es : list ent,
            w_issued s' = w_issued s ++ es /\ (forall e : ent, In e es -> live s' e = true /\ live s e = false)) /\
         (is_locked s = true -> s' = RecordSet.set w_log (fun _ : list (list Z) => []) s) /\
         (is_locked s = false ->
          is_locked s' = false \/
          is_err (step_op debug o (RecordSet.set w_log (fun _ : list (list Z) => []) s)) = true /\
          r2h_leak (RecordSet.set w_log (fun _ : list (list Z) => []) s) o).
Proof. exact step_inv_all_batch. Qed.

Theorem C06_rel_invariant_after_every_history_merged :
  forall (c : script_cfg) (lines : list (list Z)),
         cfg_ok2 c ->
         Forall (rel_all_line (sc_kinds c)) lines ->
         r2h_total lines + 4 < 2 ^ 31 -> InvAll (exec c lines) (r2h_total lines).
Proof. exact reachable_inv_all. Qed.

Theorem C06_rel_batch_step_after_resets :
  forall (debug wd : bool) (s : W) (n k : nat) (line : list Z) (o : op),
         InvAllR s n k ->
         n + r2h_created o + 4 < 2 ^ 31 ->
         decode_op line = Some o ->
         r2h_batch_op o = true ->
         (forall c : nat, In c (r2h_op_ids o) -> c < length (w_reg s)) ->
         (is_locked s = false -> r2u_foreign_ok k s o) ->
         let s' := fst (step debug wd s line) in
         InvAllR s' (n + S (r2h_created o)) k /\
         w_reg s' = w_reg s /\
         (exists es : list ent,
            w_issued s' = w_issued s ++ es /\ (forall e : ent, In e es -> live s' e = true /\ live s e = false)) /\
         (is_locked s = true -> s' = RecordSet.set w_log (fun _ : list (list Z) => []) s) /\
         (is_locked s = false ->
          is_locked s' = false \/
          is_err (step_op debug o (RecordSet.set w_log (fun _ : list (list Z) => []) s)) = true /\
          r2h_leak (RecordSet.set w_log (fun _ : list (list Z) => []) s) o).
Proof. exact step_inv_allR_batch. Qed.

Theorem C06_rel_invariant_after_every_history_merged_with_resets :
  forall (c : script_cfg) (lines : list (list Z)),
         cfg_ok2 c ->
         rel_allR_hist (sc_debug c) (sc_kinds c) (init_world c, 0) lines ->
         r2h_total lines + 4 < 2 ^ 31 -> InvAllR (exec c lines) (r2h_total lines) (r2r_epoch_of c lines).
Proof. exact reachable_inv_allR. Qed.

Theorem C06_rel_lock_bookkeeping_after_every_history_merged :
  forall (c : script_cfg) (lines : list (list Z)),
         cfg_ok2 c ->
         Forall (rel_all_line_safe (sc_kinds c)) lines ->
         r2h_total lines + 4 < 2 ^ 31 -> InvAll (exec c lines) (r2h_total lines) /\ LQ (exec c lines).
Proof. exact reachable_inv_all_LQ. Qed.

(** Package U2: batch operations WITH registered observers. [oeb_step_all] (ObsEraseBatch): for each of the five batch
    operations on an unlocked world, the storage after the real step is the storage after the step of the erased world, or (a
    callback failed after the last storage change) the storage the erased operation ends in, or a named cut state of the
    erased run ([oeb_cut]). [step_inv_allO_batch]: the invariant is kept in every case - no condition on the observers. *)
Theorem C06_rel_batch_step_with_observers_simulates_erased :
  forall (debug wd : bool) (s : W) (line : list Z) (o : op),
         decode_op line = Some o -> r2h_batch_op o = true -> is_locked s = false ->
         let s' := fst (step debug wd s line) in
         let t0 := RecordSet.set w_log (fun _ : list (list Z) => []) (oe_E s) in
         let r := step_op debug o t0 in
         oe_E s' = oe_E (fst (step debug wd (oe_E s) line)) \/ oe_E s' = oe_E (state_of r) \/ oeb_cut o t0 (oe_E s').
Proof. exact oeb_step_all. Qed.

Theorem C06_rel_batch_step_with_observers :
  forall (debug wd : bool) (s : W) (n : nat) (line : list Z) (o : op),
         InvAllO s n -> n + r2h_created o + 4 < 2 ^ 31 -> decode_op line = Some o -> r2h_batch_op o = true ->
         (forall c : nat, In c (r2h_op_ids o) -> c < length (w_reg s)) ->
         let s' := fst (step debug wd s line) in InvAllO s' (n + S (r2h_created o)) /\ w_reg s' = w_reg s.
Proof. exact step_inv_allO_batch. Qed.

Theorem C06_rel_batch_step_with_observers_after_resets :
  forall (debug wd : bool) (s : W) (n k : nat) (line : list Z) (o : op),
         InvAllOR s n k -> n + r2h_created o + 4 < 2 ^ 31 -> decode_op line = Some o -> r2h_batch_op o = true ->
         (forall c : nat, In c (r2h_op_ids o) -> c < length (w_reg s)) ->
         (is_locked s = false -> r2u_foreign_ok k s o) ->
         let s' := fst (step debug wd s line) in InvAllOR s' (n + S (r2h_created o)) k /\ w_reg s' = w_reg s.
Proof. exact step_inv_allOR_batch. Qed.

Definition C06_all := (C06_rel_batch_step_with_observers_after_resets, C06_rel_batch_step_with_observers_simulates_erased, C06_rel_batch_step_with_observers, C06_rel_lock_bookkeeping_after_every_history_merged, C06_rel_batch_step_locked_or_unlocked, C06_rel_invariant_after_every_history_merged, C06_rel_batch_step_after_resets, C06_rel_invariant_after_every_history_merged_with_resets,
  C06_rel_remove_entities, C06_rel_remove_entities_both_outcomes, C06_rel_new_batch, C06_rel_exchange_batch, C06_rel_exchange_batch_any_arguments, C06_rel_set_relations_batch, C06_rel_set_relations_batch_both_outcomes, C06_rel_invariant_after_every_history_with_batches, C06_rel_batch_step_any_arguments, C06_selection_exact_after_every_history, C06_table_move_is_per_entity_exchange, C06_destination_mask, C06_single_exchange,
  C06_batch_creation, C06_new_entities, C06_new_entities_needs_a_lock_bit,
  C06_exchange_batch, C06_remove_entities, C06_new_batch, C06_selection_uncached, C06_selection_cached,
  C06_filter_exists_is_not_enough, C06_whole_ops_nonvacuous).
Print Assumptions C06_all.
