(** * ResetBisim2: work package X2: the Reset bisimulation of ResetBisim.v, widened. Helper prefix [rb2_].

    Part 1  the core class finished: the results of OHas / OGetRel / OIDs are functions of live / val / tgt
            ([rb2_s_OHas], [rb2_s_OGetRel], [rb2_s_OIDs]; [rb2_comps_eq]: [comps_of] is a function of [val] and the registry),
            hence equal on [Sim] worlds; [rb2_step_strong]: 16 of the 18 operations give identical results (all but
            OShrink - Boolean result depends on capacities - and OStats - refuted in ResetBisim);
            TRANSFER [rb2_args_transfer]: the side conditions of world 1 hold in world 2;
            [rb2_step_sim], [rb2_hist_sim]: step / history theorems with side conditions in world 1 only.
            Relation lists: [rb_args_ok] still asks [r2a_rels_ok] of the lists of UNewRel / UAddRel / UExchange (the
            [r2e_*_any] / [r2r_*_any] theorems only say that the invariant is kept; they do not determine the outcome kind or the
            content). EXCLUDED are exactly the lists that name a relation component twice, name a component that is not added
            or is not a relation component, or name a target that is neither zero nor stored. USetRel takes ARBITRARY lists
            (only [r2r_hproper] of the handles). [rb2_malformed_sample]: 11 malformed creation calls agree (evidence only).
    Part 2  filters and queries. [rb2_feq]: filter objects compared up to the cache id; [rb2_matches_eq]: [matches_spec] is a
            function of live / val / tgt; [rb2_query_open_perm] / [rb2_query_count_eq]: two successful Query calls visit
            permutation-equal duplicate-free lists (same Count, same number of Next calls, same multiset) - registered or
            not, in either world (cached = uncached); [rb2_open_kind]: Query succeeds iff its argument check passes, given a
            free lock bit; [rb2_s_OQueryAll], [rb2_s_OQueryOpen], [rb2_s_OFilterNew]: the operations on two similar worlds;
            [Sim2 kf] = [Sim] + the clauses on filters / cache / component index in both worlds ([rb2_QI]) + the filter
            objects created since the Reset correspond ([rb2_fcorr], numbers shifted by [kf]); [rb2_wide_step]: one step of
            the class core + FilterNew + Register + Unregister + QueryAll keeps [Sim2] and relates the outcomes ([rb2_out_rel]).
    Part 3  [rb2w_hist_sim] (histories), [rb2_reset_sim2] (the world after Reset is [Sim2] to the new world), [rb2_C16_wide].
    Part 4  non-vacuity: [rb2_example_hist] / [rb2_example_outputs] (a registered filter and complete queries in the second
            history, one retained filter object), [rb2_example_core_hist] (GetRelation / Has / IDs on a relation).
    OPEN (stated, not proved): (a) the Boolean result of Shrink, Stats (refuted in ResetBisim); (b) at a QueryAll step the
    history predicate ASSUMES, of both worlds, a free lock bit and "unlocked afterwards" ([rb2_side]): both follow from the
    lock bookkeeping [LQ] of Rel2HistQL, which is not part of [Sim2] (the two lock pools are unrelated); (c) the outcome of
    Register / Unregister is not compared ([rb2_feq] ignores the cache id, so "already registered" may differ if the two
    histories register differently; with [rb2_op_rel] they do not, but the cache status is not tracked); (d) the cursor
    operations Open / Next / Close / Count / Entity / EntityAt are covered by the one-step theorems [rb2_s_OQueryOpen] /
    [rb2_query_count_eq] (order-independent facts) but are NOT in the history class: the world is locked between Open and
    Close and [Sim] asks for unlocked worlds; (e) exclusive filters ([excl = true]) need [cf_bits] of the two configurations
    to agree (a side condition of the step: [rb2_op_rel]); (f) malformed relation lists as above. *)
From Ark Require Import Model.Base Model.Mask Model.Pool Model.Util Model.World Model.Run.
From Ark Require Import Proofs.TableProofs Proofs.MaskProofs Proofs.RegistryProofs Proofs.Hoare Proofs.WF Proofs.StorageA Proofs.StorageBDefs
  Proofs.StorageB_sb1 Proofs.StorageB_sb2 Proofs.StorageB_sb3 Proofs.LockWorld Proofs.StorageC Proofs.RelProofs
  Proofs.CacheProofs Proofs.QueryProofs Proofs.ResetShrinkProofs Proofs.BatchProofs
  Proofs.Rel2Defs Proofs.Rel2Struct Proofs.Rel2Remove Proofs.Rel2SetRel Proofs.Rel2Ops Proofs.Rel2Maint Proofs.Rel2Hist
  Proofs.Rel2Cache Proofs.Rel2HistQ Proofs.Rel2HistR Proofs.ResetBisim Proofs.QueryExactIdx Proofs.QueryExact Proofs.QueryExactR.
From Ark Require Properties.Common Proofs.Rel2Check Proofs.StorageD.
From RecordUpdate Require Import RecordSet.
Import RecordSetNotations.
From Coq Require Import Lia Permutation.
Close Scope Z_scope.

(* ================================================================================================ *)
(** * Part 1: the core class finished *)

(** ** the row of a stored entity *)
Lemma rb2_row : forall s e, WF s -> live s e = true ->
  exists tid row t, nth_error (w_index s) (fst e) = Some (Some tid, row) /\ nth_error (w_tables s) tid = Some t /\
    alive s e = true /\ comps_of s e = Some (t_ids t) /\
    (forall c, val s e c = match tbl_colidx t c with Some ci => Some (cell t ci row) | None => None end) /\
    (forall c, tgt s e c = tbl_target t c).
Proof.
  intros s e HW Hl. destruct (sb1_live_inv s e Hl) as (tid & row & t & Hi & Ht & Hr & He).
  destruct (live_alive s e HW Hl) as (Ha & _).
  exists tid, row, t. split; [exact Hi|]. split; [exact Ht|]. split; [exact Ha|]. split; [|split].
  - unfold comps_of, loc. rewrite Hi, Ht. reflexivity.
  - intros c. rewrite sb3_val_row. unfold sb3_row_of. rewrite Hi, Ht, He, sb3_ent_eqb_refl.
    apply Nat.ltb_lt in Hr. rewrite Hr. reflexivity.
  - intros c. unfold tgt. rewrite Hl. unfold target_of, loc. rewrite Hi, Ht. reflexivity.
Qed.

Lemma rb2_mk_to_list_from_ext : forall m m' n i, (forall j, i <= j < i + n -> mk_get m j = mk_get m' j) ->
  mk_to_list_from m i n = mk_to_list_from m' i n.
Proof.
  intros m m' n. induction n as [|n IH]; intros i H; cbn [mk_to_list_from]; [reflexivity|].
  rewrite (H i) by lia. rewrite (IH (S i)) by (intros j Hj; apply H; lia). reflexivity.
Qed.

(** [comps_of] is a function of [val] and the (length of the) registry *)
Lemma rb2_comps_in : forall s e ids, WF s -> live s e = true -> comps_of s e = Some ids ->
  ids = mk_to_list_from (mk_of_list ids) 0 (length (w_reg s)) /\ forall c, In c ids <-> val s e c <> None.
Proof.
  intros s e ids HW Hl Hc. destruct (rb2_row s e HW Hl) as (tid & row & t & Hi & Ht & _ & Hc' & Hv & _).
  rewrite Hc in Hc'. injection Hc' as ->.
  destruct (wf_layout _ HW _ _ Ht) as (a & Ha & Hids & _). destruct (wf_arch_comps _ HW _ _ Ha) as (Hcm & Hlt & _).
  assert (Hin : forall c, In c (t_ids t) <-> (c < length (w_reg s) /\ mk_get (a_mask a) c = true)).
  { intros c. rewrite Hids, Hcm. apply mk_to_list_spec. }
  split.
  - rewrite Hids at 1. rewrite Hcm. unfold mk_to_list. apply rb2_mk_to_list_from_ext. intros j Hj.
    destruct (mk_get (a_mask a) j) eqn:E1.
    + symmetry. apply mk_get_of_list. apply Hin. split; [lia|exact E1].
    + destruct (mk_get (mk_of_list (t_ids t)) j) eqn:E2; [|reflexivity].
      apply mk_get_of_list in E2. apply Hin in E2. destruct E2 as (_ & E2). congruence.
  - intros c. rewrite Hv. unfold tbl_colidx. destruct (index_of c (t_ids t)) as [ci|] eqn:Ec.
    + split; [intros _; discriminate|intros _]. apply (sa_index_of_some_in _ _ _ Ec).
    + split; [intros Hin'; apply index_of_none in Ec; contradiction|intros C; exfalso; apply C; reflexivity].
Qed.

(** on stored entities [comps_of] agrees (for an entity that is not stored [comps_of] reads a stale index entry: it is
    only ever used under [live], e.g. in [matches_spec]) *)
Theorem rb2_comps_eq : forall s1 s2 e, WF s1 -> WF s2 -> w_reg s1 = w_reg s2 -> rb_abs_eq s1 s2 -> live s1 e = true ->
  comps_of s1 e = comps_of s2 e.
Proof.
  intros s1 s2 e HW1 HW2 Hreg (Al & Av & At) L1.
  assert (L2 : live s2 e = true) by (rewrite <- Al; exact L1).
  destruct (rb2_row s1 e HW1 L1) as (_ & _ & t1 & _ & _ & _ & C1 & _). destruct (rb2_row s2 e HW2 L2) as (_ & _ & t2 & _ & _ & _ & C2 & _).
  destruct (rb2_comps_in s1 e _ HW1 L1 C1) as (E1 & I1). destruct (rb2_comps_in s2 e _ HW2 L2 C2) as (E2 & I2).
  rewrite C1, C2. f_equal. rewrite E1, E2, Hreg. apply rb2_mk_to_list_from_ext. intros j _.
  destruct (mk_get (mk_of_list (t_ids t1)) j) eqn:G1.
  - symmetry. apply mk_get_of_list. apply I2. rewrite <- Av. apply I1. apply mk_get_of_list. exact G1.
  - destruct (mk_get (mk_of_list (t_ids t2)) j) eqn:G2; [|reflexivity].
    apply mk_get_of_list in G2. apply I2 in G2. rewrite <- Av in G2. apply I1 in G2. apply mk_get_of_list in G2. congruence.
Qed.

(** ** Has / IDs: [alive] check, then index and table *)
Definition rb2_tab_body {A} (F : table -> A) (e : ent) : MW A := ix <- get_index e ;; t <- getT (fst ix) ;; ret (F t).

Lemma rb2_tab_ok : forall A (F : table -> A) s e tid row t, nth_error (w_index s) (fst e) = Some (Some tid, row) ->
  nth_error (w_tables s) tid = Some t -> rb2_tab_body F e s = Ok (F t) s.
Proof.
  intros A F s e tid row t Hi Ht. unfold rb2_tab_body, get_index, getT, bind, get. rewrite Hi. cbn. rewrite Ht. reflexivity.
Qed.

Lemma rb2_tab_err : forall A (F : table -> A) s e, WF s -> alive s e = true -> live s e = false ->
  exists er, rb2_tab_body F e s = Err er s.
Proof.
  intros A F s e HW Ha Hl. unfold rb2_tab_body, get_index, bind, get.
  destruct (nth_error (w_index s) (fst e)) as [[[tid|] row]|] eqn:Hi.
  - exfalso. destruct (sb3_alive_index_live s e tid row HW Ha Hi) as (t & Ht & Hr & He).
    rewrite (sb3_live_of_row s e tid row t Hi Ht Hr He) in Hl. discriminate.
  - exists EIndex. reflexivity.
  - exists EIndex. reflexivity.
Qed.

Lemma rb2_cell_of_err : forall d s e c, WF s -> (live s e = false \/ val s e c = None) -> exists er, cell_of d e c s = Err er s.
Proof.
  intros d s e c HW Hc.
  destruct (sb3_cell_of_cases d e c s) as [(er & E)|(tid & ci & row & t & E & Ha & Hi & Ht & Hcol)].
  - exists er. exact E.
  - exfalso. destruct (sb3_alive_index_live _ _ _ _ HW Ha Hi) as (t3 & Ht3 & Hr & He).
    rewrite Ht in Ht3. inversion Ht3; subst t3.
    assert (Hl : live s e = true) by (eapply sb3_live_of_row; eauto).
    destruct Hc as [Hc|Hc]; [congruence|].
    rewrite sb3_val_row in Hc. unfold sb3_row_of in Hc. rewrite Hi, Ht, He, sb3_ent_eqb_refl in Hc.
    apply Nat.ltb_lt in Hr. rewrite Hr, Hcol in Hc. discriminate.
Qed.

Definition rb2_getrel_body (d : bool) (e : ent) (c : nat) : MW (list Z) :=
  a <- cell_of d e c ;; let '(tid, ci, _) := a in
  t <- getT tid ;; tg <- of_opt (nth_error (t_targets t) ci) EIndex ;; ret (Zent tg).

(** the result of GetRelation is [tgt] *)
Lemma rb2_getrel_ok : forall d s e c, WF s -> live s e = true -> val s e c <> None ->
  exists x, tgt s e c = Some x /\ rb2_getrel_body d e c s = Ok (Zent x) s.
Proof.
  intros d s e c HW Hl Hv.
  destruct (rb_cell_of_ok d s e c HW Hl Hv) as (tid & ci & row & t & E & Hi & Ht & Hc & _ & _ & _).
  assert (Ht' : tgt s e c = nth_error (t_targets t) ci).
  { unfold tgt. rewrite Hl. unfold target_of, loc. rewrite Hi, Ht. unfold tbl_target. rewrite Hc. reflexivity. }
  destruct (wf_layout _ HW _ _ Ht) as (a & _ & _ & _ & Hlen).
  pose proof (sb3_index_of_nth _ _ _ Hc) as Hci. apply sa_nth_error_lt in Hci. rewrite <- Hlen in Hci.
  destruct (nth_error (t_targets t) ci) as [x|] eqn:Ex; [|apply nth_error_None in Ex; lia].
  exists x. split; [exact Ht'|]. unfold rb2_getrel_body. rewrite (sa_bind_ok E). cbv beta iota.
  unfold getT, bind, get. rewrite Ht. cbn. rewrite Ex. reflexivity.
Qed.

Section rb2_ops.
Variables (debug : bool) (s1 s2 : W).
Hypothesis HSim : Sim s1 s2.

Lemma rb2_same : forall A (a : A), rb_res (Ok a s1) (Ok a s2).
Proof. intros A a. rb_sim HSim. split; [reflexivity|]. split; [exact Hpool|repeat split; assumption]. Qed.

Lemma rb2_guard_alive : forall A (k1 k2 : MW A) e,
  (alive s1 e = true -> alive s2 e = true -> rb_res (k1 s1) (k2 s2)) ->
  rb_res ((s <- get ;; guard (alive s e) EDead ;;; k1) s1) ((s <- get ;; guard (alive s e) EDead ;;; k2) s2).
Proof.
  intros A k1 k2 e H. rewrite !sb2_bind_get. cbv beta. pose proof (rb_alive_eq s1 s2 e (proj1 (proj2 (proj2 HSim)))) as Ea.
  destruct (alive s1 e) eqn:Ha; rewrite <- Ea.
  - rewrite !sb2_bind_guard_true. apply H; [reflexivity|symmetry; exact Ea].
  - rewrite !sb2_bind_guard_false. apply (rb_refl_res s1 s2 HSim).
Qed.

(** a table reading whose result is the same function of the abstract content in both worlds *)
Lemma rb2_c_tab : forall A (F : table -> A) e, alive s1 e = true -> alive s2 e = true ->
  (forall tid1 row1 t1 tid2 row2 t2, live s1 e = true -> live s2 e = true ->
     nth_error (w_index s1) (fst e) = Some (Some tid1, row1) -> nth_error (w_tables s1) tid1 = Some t1 ->
     nth_error (w_index s2) (fst e) = Some (Some tid2, row2) -> nth_error (w_tables s2) tid2 = Some t2 -> F t1 = F t2) ->
  rb_res (rb2_tab_body F e s1) (rb2_tab_body F e s2).
Proof.
  intros A F e Ha1 Ha2 HF. pose proof HSim as HSim'. rb_sim HSim'.
  destruct (live s1 e) eqn:L1.
  - assert (L2 : live s2 e = true) by (rewrite <- Al; exact L1).
    destruct (rb2_row s1 e (proj1 HS1) L1) as (tid1 & row1 & t1 & Hi1 & Ht1 & _).
    destruct (rb2_row s2 e (proj1 HS2) L2) as (tid2 & row2 & t2 & Hi2 & Ht2 & _).
    rewrite (rb2_tab_ok A F s1 e tid1 row1 t1 Hi1 Ht1), (rb2_tab_ok A F s2 e tid2 row2 t2 Hi2 Ht2).
    rewrite (HF tid1 row1 t1 tid2 row2 t2 eq_refl L2 Hi1 Ht1 Hi2 Ht2). apply rb2_same.
  - assert (L2 : live s2 e = false) by (rewrite <- Al; exact L1).
    destruct (rb2_tab_err A F s1 e (proj1 HS1) Ha1 L1) as (er1 & ->). destruct (rb2_tab_err A F s2 e (proj1 HS2) Ha2 L2) as (er2 & ->).
    apply (rb_refl_res s1 s2 HSim).
Qed.

Lemma rb2_s_OHas : forall h1 h2 c, handle s1 h1 = handle s2 h2 ->
  rb_res (step_op debug (OHas h1 c) s1) (step_op debug (OHas h2 c) s2).
Proof.
  intros h1 h2 c Hh. cbn [step_op]. apply (rb_resolved_h _ rb_res s1 s2 h1 h2); [exact Hh|intros; apply (rb_refl_res s1 s2 HSim)|].
  intros e He. apply rb2_guard_alive. intros Ha1 Ha2.
  apply (rb2_c_tab _ (fun t => [Zb (match tbl_colidx t c with Some _ => true | None => false end)]) e Ha1 Ha2).
  intros tid1 row1 t1 tid2 row2 t2 L1 L2 Hi1 Ht1 Hi2 Ht2. pose proof HSim as HSim'. rb_sim HSim'.
  destruct (rb2_row s1 e (proj1 HS1) L1) as (tid1' & row1' & t1' & Hi1' & Ht1' & _ & _ & V1 & _).
  destruct (rb2_row s2 e (proj1 HS2) L2) as (tid2' & row2' & t2' & Hi2' & Ht2' & _ & _ & V2 & _).
  rewrite Hi1 in Hi1'. inversion Hi1'; subst tid1' row1'. rewrite Ht1 in Ht1'. inversion Ht1'; subst t1'.
  rewrite Hi2 in Hi2'. inversion Hi2'; subst tid2' row2'. rewrite Ht2 in Ht2'. inversion Ht2'; subst t2'.
  pose proof (Av e c) as E. rewrite V1, V2 in E.
  destruct (tbl_colidx t1 c), (tbl_colidx t2 c); try discriminate E; reflexivity.
Qed.

Lemma rb2_s_OIDs : forall h1 h2, handle s1 h1 = handle s2 h2 ->
  rb_res (step_op debug (OIDs h1) s1) (step_op debug (OIDs h2) s2).
Proof.
  intros h1 h2 Hh. cbn [step_op]. apply (rb_resolved_h _ rb_res s1 s2 h1 h2); [exact Hh|intros; apply (rb_refl_res s1 s2 HSim)|].
  intros e He. apply rb2_guard_alive. intros Ha1 Ha2.
  apply (rb2_c_tab _ (fun t => map Zn (t_ids t)) e Ha1 Ha2).
  intros tid1 row1 t1 tid2 row2 t2 L1 L2 Hi1 Ht1 Hi2 Ht2. pose proof HSim as HSim'. rb_sim HSim'.
  pose proof (rb2_comps_eq s1 s2 e (proj1 HS1) (proj1 HS2) Hreg (conj Al (conj Av At)) L1) as E.
  unfold comps_of, loc in E. rewrite Hi1, Hi2, Ht1, Ht2 in E. cbn [option_map] in E. injection E as ->. reflexivity.
Qed.

Lemma rb2_c_getrel : forall e c, rb_res (rb2_getrel_body debug e c s1) (rb2_getrel_body debug e c s2).
Proof.
  intros e c. pose proof HSim as HSim'. rb_sim HSim'.
  assert (Herr : forall s, WF s -> (live s e = false \/ val s e c = None) -> exists er, rb2_getrel_body debug e c s = Err er s).
  { intros s HW Hc. destruct (rb2_cell_of_err debug s e c HW Hc) as (er & E). exists er. unfold rb2_getrel_body.
    rewrite (sa_bind_err E). reflexivity. }
  destruct (live s1 e) eqn:L1.
  - destruct (val s1 e c) as [v|] eqn:V1.
    + assert (V1' : val s1 e c <> None) by congruence.
      assert (L2 : live s2 e = true) by (rewrite <- Al; exact L1).
      assert (V2' : val s2 e c <> None) by (rewrite <- Av; exact V1').
      destruct (rb2_getrel_ok debug s1 e c (proj1 HS1) L1 V1') as (x1 & T1 & ->).
      destruct (rb2_getrel_ok debug s2 e c (proj1 HS2) L2 V2') as (x2 & T2 & ->).
      rewrite At, T2 in T1. injection T1 as ->. apply rb2_same.
    + destruct (Herr s1 (proj1 HS1) (or_intror V1)) as (er1 & ->). rewrite Av in V1.
      destruct (Herr s2 (proj1 HS2) (or_intror V1)) as (er2 & ->). apply (rb_refl_res s1 s2 HSim).
  - destruct (Herr s1 (proj1 HS1) (or_introl L1)) as (er1 & ->). rewrite Al in L1.
    destruct (Herr s2 (proj1 HS2) (or_introl L1)) as (er2 & ->). apply (rb_refl_res s1 s2 HSim).
Qed.

Lemma rb2_s_OGetRel : forall h1 h2 c, handle s1 h1 = handle s2 h2 ->
  rb_res (step_op debug (OGetRel h1 c) s1) (step_op debug (OGetRel h2 c) s2).
Proof.
  intros h1 h2 c Hh. cbn [step_op]. apply (rb_resolved_h _ rb_res s1 s2 h1 h2); [exact Hh|intros; apply (rb_refl_res s1 s2 HSim)|].
  intros e He. apply (rb2_c_getrel e c).
Qed.
End rb2_ops.

(* ------------------------------------------------------------------------------------------------ *)
(** ** One operation: 16 of the 18 operations of the core class give identical results *)

Definition rb2_strong (o : op) : bool := match o with OShrink _ | OStats => false | _ => true end.

Theorem rb2_step_strong : forall debug s1 s2 o1 o2, Sim s1 s2 -> room s1 -> rb2_strong o1 = true -> rel_core_op o1 = true ->
  rb_op_rel s1 s2 o1 o2 -> rb_args_ok s1 o1 -> rb_res (step_op debug o1 s1) (step_op debug o2 s2).
Proof.
  intros debug s1 s2 o1 o2 HSim Hroom Hst Hc Hrel Hok. destruct (rb_strong o1) eqn:Hs.
  - apply rb_step_strong; assumption.
  - destruct o1; try discriminate Hc; try discriminate Hst; try discriminate Hs; destruct o2; cbn [rb_op_rel] in Hrel; try contradiction.
    + destruct Hrel as (Hh & <-). apply rb2_s_OHas; assumption.
    + destruct Hrel as (Hh & <-). apply rb2_s_OGetRel; assumption.
    + apply rb2_s_OIDs; assumption.
Qed.

(** ** Transfer of the side conditions from world 1 to world 2 *)
Lemma rb2_hrels_in : forall s1 s2 l1 l2 h2, rb_hrels s1 s2 l1 l2 -> In h2 (map snd l2) ->
  exists h1, In h1 (map snd l1) /\ handle s1 h1 = handle s2 h2.
Proof.
  intros s1 s2 l1 l2 h2 H. induction H as [|hr1 hr2 l1 l2 (_ & Hh) _ IH]; intros Hin; [destruct Hin|].
  cbn [map] in Hin. destruct Hin as [<-|Hin].
  - exists (snd hr1). split; [left; reflexivity|exact Hh].
  - destruct (IH Hin) as (h1 & Hin1 & E). exists h1. split; [right; exact Hin1|exact E].
Qed.

Theorem rb2_args_transfer : forall s1 s2 o1 o2, Sim s1 s2 -> rb_op_rel s1 s2 o1 o2 -> rb_args_ok s1 o1 -> rb_args_ok s2 o2.
Proof.
  intros s1 s2 o1 o2 HSim Hrel (Hrg & Hp & Hv). rb_sim HSim.
  assert (Hpr : forall h1 h2, handle s1 h1 = handle s2 h2 -> r2r_hproper s1 h1 -> r2r_hproper s2 h2).
  { intros h1 h2 Hh H x Hx Ha. rewrite <- Al. apply (H x); [rewrite Hh; exact Hx|]. rewrite (rb_alive_eq s1 s2 x Hpool). exact Ha. }
  assert (Hprl : forall l1 l2, rb_hrels s1 s2 l1 l2 -> (forall h, In h (map snd l1) -> r2r_hproper s1 h) ->
                 forall h, In h (map snd l2) -> r2r_hproper s2 h).
  { intros l1 l2 Hl H h Hin. destruct (rb2_hrels_in s1 s2 l1 l2 h Hl Hin) as (h1 & Hin1 & E). apply (Hpr h1 h E). apply H. exact Hin1. }
  assert (Hvl : forall ids l1 l2, rb_hrels s1 s2 l1 l2 -> (forall rels, rb_resolve s1 l1 = Some rels -> r2a_rels_ok s1 ids rels) ->
                 forall rels, rb_resolve s2 l2 = Some rels -> r2a_rels_ok s2 ids rels).
  { intros ids l1 l2 Hl H rels R. apply (rb_rels_ok_eq s1 s2 ids rels Hreg Al). apply H.
    rewrite (rb_hrels_resolve s1 s2 l1 l2 Hl). exact R. }
  assert (Hreg' : forall ids, registered s1 ids -> registered s2 ids).
  { intros ids H c Hc. rewrite <- Hreg. apply H. exact Hc. }
  unfold rb_args_ok, r2r_handles_proper in *.
  destruct o1; destruct o2; cbn [rb_op_rel] in Hrel; try contradiction; cbn [rel_op_ids rel_r_handles rb_rels_valid] in *;
    try solve [split; [intros ? []|split; [intros ? []|exact I]]].
  - subst. split; [apply Hreg'; exact Hrg|split; [intros ? []|exact I]].
  - destruct Hrel as (<- & Hl). split; [apply Hreg'; exact Hrg|split; [apply (Hprl _ _ Hl Hp)|apply (Hvl _ _ _ Hl Hv)]].
  - split; [intros ? []|split; [|exact I]]. intros hh [Eh|[]]. subst hh. apply (Hpr _ _ Hrel). apply Hp. left. reflexivity.
  - destruct Hrel as (_ & <-). split; [apply Hreg'; exact Hrg|split; [intros ? []|exact I]].
  - destruct Hrel as (_ & <- & Hl). split; [apply Hreg'; exact Hrg|split; [apply (Hprl _ _ Hl Hp)|apply (Hvl _ _ _ Hl Hv)]].
  - destruct Hrel as (_ & <- & <- & Hl). split; [apply Hreg'; exact Hrg|split; [apply (Hprl _ _ Hl Hp)|apply (Hvl _ _ _ Hl Hv)]].
  - destruct Hrel as (_ & Hl). split; [intros ? []|split; [apply (Hprl _ _ Hl Hp)|exact I]].
Qed.

(** ** Step and history theorems: side conditions in world 1 only, results of 16 operations compared *)
Theorem rb2_step_sim : forall debug s1 s2 o1 o2, Sim s1 s2 -> room s1 -> rel_core_op o1 = true ->
  rb_op_rel s1 s2 o1 o2 -> rb_args_ok s1 o1 ->
  Sim (rb_next debug o1 s1) (rb_next debug o2 s2) /\
  (w_issued (rb_next debug o1 s1) = w_issued s1 /\ w_issued (rb_next debug o2 s2) = w_issued s2 \/
   exists e, w_issued (rb_next debug o1 s1) = w_issued s1 ++ [e] /\ w_issued (rb_next debug o2 s2) = w_issued s2 ++ [e]).
Proof.
  intros debug s1 s2 o1 o2 HSim Hroom Hc Hrel Hok.
  apply rb_step_sim; try assumption. apply (rb2_args_transfer s1 s2 o1 o2 HSim Hrel Hok).
Qed.

Definition rb2_obs (o : op) (r : res W (list Z)) : option (list Z) := if rb2_strong o then rb_out r else Some [].

Fixpoint rb2_run (debug : bool) (s : W) (os : list op) : W * list (option (list Z)) :=
  match os with
  | [] => (s, [])
  | o :: t => let r := rb2_run debug (rb_next debug o s) t in (fst r, rb2_obs o (step_op debug o s) :: snd r)
  end.

Fixpoint rb2_hist (debug : bool) (s1 s2 : W) (os1 os2 : list op) : Prop :=
  match os1, os2 with
  | [], [] => True
  | o1 :: r1, o2 :: r2 => room s1 /\ rel_core_op o1 = true /\ rb_op_rel s1 s2 o1 o2 /\ rb_args_ok s1 o1 /\
                          rb2_hist debug (rb_next debug o1 s1) (rb_next debug o2 s2) r1 r2
  | _, _ => False
  end.

Lemma rb2_op_rel_strong : forall s1 s2 o1 o2, rb_op_rel s1 s2 o1 o2 -> rb2_strong o2 = rb2_strong o1.
Proof. intros s1 s2 o1 o2 H. destruct o1; destruct o2; cbn [rb_op_rel] in H; try contradiction; reflexivity. Qed.

Theorem rb2_hist_sim : forall debug os1 os2 s1 s2, Sim s1 s2 -> rb2_hist debug s1 s2 os1 os2 ->
  Sim (fst (rb2_run debug s1 os1)) (fst (rb2_run debug s2 os2)) /\ snd (rb2_run debug s1 os1) = snd (rb2_run debug s2 os2).
Proof.
  intros debug os1. induction os1 as [|o1 r1 IH]; intros [|o2 r2] s1 s2 HSim H; cbn [rb2_hist] in H; try contradiction.
  - split; [exact HSim|reflexivity].
  - destruct H as (Hroom & Hc & Hrel & Hok1 & H). cbn [rb2_run fst snd].
    destruct (rb2_step_sim debug s1 s2 o1 o2 HSim Hroom Hc Hrel Hok1) as (HSim' & _).
    destruct (IH r2 _ _ HSim' H) as (A & B). split; [exact A|]. rewrite B. f_equal.
    unfold rb2_obs. rewrite (rb2_op_rel_strong s1 s2 o1 o2 Hrel).
    destruct (rb2_strong o1) eqn:Hst; [|reflexivity].
    apply rb_res_out. apply rb2_step_strong; assumption.
Qed.

(** the old history predicate implies the new one, the new one implies the old one (transfer) *)
Lemma rb2_hist_of_rb : forall debug os1 os2 s1 s2, rb_hist debug s1 s2 os1 os2 -> rb2_hist debug s1 s2 os1 os2.
Proof.
  intros debug os1. induction os1 as [|o1 r1 IH]; intros [|o2 r2] s1 s2 H; cbn [rb_hist] in H; try contradiction; cbn [rb2_hist]; [exact I|].
  destruct H as (A & B & C & D & _ & H). repeat (split; [assumption|]). apply IH. exact H.
Qed.

Lemma rb_hist_of_rb2 : forall debug os1 os2 s1 s2, Sim s1 s2 -> rb2_hist debug s1 s2 os1 os2 -> rb_hist debug s1 s2 os1 os2.
Proof.
  intros debug os1. induction os1 as [|o1 r1 IH]; intros [|o2 r2] s1 s2 HSim H; cbn [rb2_hist] in H; try contradiction; cbn [rb_hist]; [exact I|].
  destruct H as (A & B & C & D & H). repeat (split; [assumption|]).
  split; [apply (rb2_args_transfer s1 s2 o1 o2 HSim C D)|].
  apply IH; [|exact H]. apply (rb2_step_sim debug s1 s2 o1 o2 HSim A B C D).
Qed.

(** C16, second sentence, core class, results of Has / GetRelation / IDs included, side conditions in the Reset world only *)
Theorem rb2_C16_core : forall debug c s n k os1 os2,
  Inv2R s n k -> is_locked s = false -> cfg_ok2 c -> w_reg s = sc_kinds c ->
  let s' := state_of (step_op debug OReset s) in
  rb2_hist debug s' (init_world c) os1 os2 ->
  Sim (fst (rb2_run debug s' os1)) (fst (rb2_run debug (init_world c) os2)) /\
  snd (rb2_run debug s' os1) = snd (rb2_run debug (init_world c) os2).
Proof.
  intros debug c s n k os1 os2 HI Hl Hc Hr s' H.
  destruct (rb_reset_sim_new debug c s n k HI Hl Hc Hr) as (s0 & E & _ & HSim).
  assert (Es : s' = s0) by (unfold s'; rewrite E; reflexivity). rewrite Es in *.
  apply rb2_hist_sim; assumption.
Qed.

(* ================================================================================================ *)
(** * Part 2: filters and queries

    Filter objects are compared up to their cache id ([rb2_feq]: ids, mask, exclusion mask, fixed relations, unsafe flag):
    the world after a Reset keeps the filter objects created before (cache ids cleared), so the filter created as number
    [i] on the new world is number [kf + i] on the Reset world ([rb2_fcorr]).
    [rb2_matches_eq]: the specification [matches_spec] of QueryExact.v is a function of live / val / tgt and the filter fields
    above; hence ([rb2_query_open_perm]) two successful Query calls on [Sim] worlds visit permutation-equal entity lists:
    same Count, same number of successful Next calls, same multiset of entities - whether or not the filter is
    registered in either world (cached = uncached). *)

Definition rb2_QI (s : W) : Prop := archs_tabled_norel s /\ r2k_cidx_ok s /\ qx_FL s /\ r2q_filters_ok s.

Definition rb2_feq (f1 f2 : fobj) : Prop :=
  f_ids f1 = f_ids f2 /\ f_mask f1 = f_mask f2 /\ f_without f1 = f_without f2 /\ f_haswithout f1 = f_haswithout f2 /\
  f_rels f1 = f_rels f2 /\ f_unsafe f1 = f_unsafe f2.

Lemma rb2_feq_sym : forall f1 f2, rb2_feq f1 f2 -> rb2_feq f2 f1.
Proof. intros f1 f2 (A & B & C & D & E & F). repeat split; symmetry; assumption. Qed.

Lemma rb2_matches_imp : forall s1 s2 f1 f2 rels e, Sim s1 s2 -> rb2_feq f1 f2 ->
  matches_spec s1 f1 rels e -> matches_spec s2 f2 rels e.
Proof.
  intros s1 s2 f1 f2 rels e HSim (_ & Em & Ew & Eh & _ & _) (Hl & ids & Hc & Hi & Hx & Ht). rb_sim HSim.
  split; [rewrite <- Al; exact Hl|]. exists ids.
  split; [rewrite <- (rb2_comps_eq s1 s2 e (proj1 HS1) (proj1 HS2) Hreg (conj Al (conj Av At)) Hl); exact Hc|].
  split; [intros c Hm; apply Hi; rewrite Em; exact Hm|].
  split; [intros Hh c Hin; rewrite <- Ew; apply Hx; [rewrite Eh; exact Hh|exact Hin]|].
  intros c x Hin. rewrite <- At. apply (Ht c x Hin).
Qed.

Theorem rb2_matches_eq : forall s1 s2 f1 f2 rels e, Sim s1 s2 -> rb2_feq f1 f2 ->
  (matches_spec s1 f1 rels e <-> matches_spec s2 f2 rels e).
Proof.
  intros s1 s2 f1 f2 rels e HSim Hf. split; [apply rb2_matches_imp; assumption|].
  apply rb2_matches_imp; [apply Sim_sym; exact HSim|apply rb2_feq_sym; exact Hf].
Qed.

(** two successful Query calls: Count, number of Next calls, multiset of entities *)
Theorem rb2_query_open_perm : forall s1 s2 fi1 fi2 f1 f2 rels qi1 qi2 t1 t2,
  Sim s1 s2 -> rb2_QI s1 -> rb2_QI s2 ->
  nth_error (w_filters s1) fi1 = Some f1 -> nth_error (w_filters s2) fi2 = Some f2 -> rb2_feq f1 f2 ->
  r2k_rels_ok s1 (f_mask f1) rels ->
  query_open fi1 rels s1 = Ok qi1 t1 -> query_open fi2 rels s2 = Ok qi2 t2 ->
  exists vis1 vis2, qx_query_is t1 qi1 vis1 /\ qx_query_is t2 qi2 vis2 /\ NoDup vis1 /\ NoDup vis2 /\ Permutation vis1 vis2 /\
    (forall e, In e vis1 <-> matches_spec s1 f1 (f_rels f1 ++ rels) e).
Proof.
  intros s1 s2 fi1 fi2 f1 f2 rels qi1 qi2 t1 t2 HSim (T1 & C1 & L1 & F1) (T2 & C2 & L2 & F2) Hf1 Hf2 Hfe Hok O1 O2.
  pose proof HSim as HSim'. rb_sim HSim'.
  assert (Hok2 : r2k_rels_ok s2 (f_mask f2) rels).
  { intros r Hr. destruct (Hok r Hr) as (A & B). destruct Hfe as (_ & Em & _). rewrite <- Em, <- (rb_is_rel_eq s1 s2 _ Hreg). split; assumption. }
  destruct (qx_query_exact_ok s1 fi1 f1 rels qi1 t1 HS1 T1 C1 L1 F1 Hf1 Hok O1) as (vis1 & Q1 & N1 & I1).
  destruct (qx_query_exact_ok s2 fi2 f2 rels qi2 t2 HS2 T2 C2 L2 F2 Hf2 Hok2 O2) as (vis2 & Q2 & N2 & I2).
  exists vis1, vis2. repeat (split; [assumption|]). split; [|exact I1].
  apply NoDup_Permutation; [exact N1|exact N2|]. intros e. rewrite I1, I2.
  destruct Hfe as (Ei & Em & Ew & Eh & Er & Eu). rewrite Er. apply rb2_matches_eq; [exact HSim|]. repeat split; assumption.
Qed.

(** what the order-independent observations of the two queries are: [qx_query_is] gives Count = length, EntityAt within
    the list, and that draining yields the list *)
Corollary rb2_query_count_eq : forall t1 t2 qi1 qi2 vis1 vis2, qx_query_is t1 qi1 vis1 -> qx_query_is t2 qi2 vis2 ->
  Permutation vis1 vis2 ->
  exists n, query_count qi1 t1 = Ok n t1 /\ query_count qi2 t2 = Ok n t2 /\
    (forall d fuel, n < fuel -> exists es1 es2 u1 u2, drain d fuel qi1 t1 = Ok es1 u1 /\ drain d fuel qi2 t2 = Ok es2 u2 /\
       length es1 = n /\ length es2 = n /\ Permutation es1 es2).
Proof.
  intros t1 t2 qi1 qi2 vis1 vis2 (_ & C1 & _ & D1) (_ & C2 & _ & D2) HP.
  pose proof (Permutation_length HP) as El. exists (length vis1). split; [exact C1|]. split; [rewrite El; exact C2|].
  intros d fuel Hf. destruct (D1 d fuel Hf) as (u1 & E1 & _). assert (Hf2 : length vis2 < fuel) by lia.
  destruct (D2 d fuel Hf2) as (u2 & E2 & _). exists vis1, vis2, u1, u2. repeat (split; [first [assumption|reflexivity|symmetry; assumption]|]). exact HP.
Qed.

(* ------------------------------------------------------------------------------------------------ *)
(** ** Argument checks: readonly computations that give the same answer in both worlds *)

Definition rb2_req {A} (s1 s2 : W) (m1 m2 : MW A) : Prop :=
  match m1 s1, m2 s2 with
  | Ok a t1, Ok b t2 => a = b /\ t1 = s1 /\ t2 = s2
  | Err _ t1, Err _ t2 => t1 = s1 /\ t2 = s2
  | _, _ => False
  end.

Section rb2_req_sec.
Variables (s1 s2 : W).

Lemma rb2_req_ret : forall A (a : A), rb2_req s1 s2 (ret a) (ret a).
Proof. intros. unfold rb2_req, ret. repeat split. Qed.
Lemma rb2_req_fail : forall A e1 e2, @rb2_req A s1 s2 (fail e1) (fail e2).
Proof. intros. unfold rb2_req, fail. repeat split. Qed.
Lemma rb2_req_guard : forall b e1 e2, rb2_req s1 s2 (guard b e1) (guard b e2).
Proof. intros b e1 e2. destruct b; [apply rb2_req_ret|apply rb2_req_fail]. Qed.
Lemma rb2_req_of_opt : forall A (o : option A) e1 e2, rb2_req s1 s2 (of_opt o e1) (of_opt o e2).
Proof. intros A o e1 e2. destruct o; [apply rb2_req_ret|apply rb2_req_fail]. Qed.
Lemma rb2_req_bind : forall A B (m1 m2 : MW A) (k1 k2 : A -> MW B), rb2_req s1 s2 m1 m2 ->
  (forall a, rb2_req s1 s2 (k1 a) (k2 a)) -> rb2_req s1 s2 (bind m1 k1) (bind m2 k2).
Proof.
  intros A B m1 m2 k1 k2 Hm Hk. unfold rb2_req, bind in *.
  destruct (m1 s1) as [a t1|e1 t1], (m2 s2) as [b t2|e2 t2]; try contradiction.
  - destruct Hm as (-> & -> & ->). apply Hk.
  - exact Hm.
Qed.
Lemma rb2_req_get : forall A (k1 k2 : W -> MW A), rb2_req s1 s2 (k1 s1) (k2 s2) -> rb2_req s1 s2 (bind get k1) (bind get k2).
Proof. intros A k1 k2 H. exact H. Qed.
Lemma rb2_req_forM : forall A (l : list A) (g1 g2 : A -> MW unit), (forall a, rb2_req s1 s2 (g1 a) (g2 a)) ->
  rb2_req s1 s2 (forM_ l g1) (forM_ l g2).
Proof.
  intros A l g1 g2 H. induction l as [|a l IH]; cbn [forM_]; [apply rb2_req_ret|].
  apply rb2_req_bind; [apply H|intros _; exact IH].
Qed.
Lemma rb2_req_mapM : forall A B (l : list A) (g1 g2 : A -> MW B), (forall a, rb2_req s1 s2 (g1 a) (g2 a)) ->
  rb2_req s1 s2 (mapM l g1) (mapM l g2).
Proof.
  intros A B l g1 g2 H. induction l as [|a l IH]; cbn [mapM]; [apply rb2_req_ret|].
  apply rb2_req_bind; [apply H|intros y]. apply rb2_req_bind; [exact IH|intros ys; apply rb2_req_ret].
Qed.
Lemma rb2_req_whenM : forall b m1 m2, rb2_req s1 s2 m1 m2 -> rb2_req s1 s2 (whenM b m1) (whenM b m2).
Proof. intros b m1 m2 H. destruct b; [exact H|apply rb2_req_ret]. Qed.
Lemma rb2_req_getF : forall A fi1 fi2 f1 f2 (k1 k2 : fobj -> MW A),
  nth_error (w_filters s1) fi1 = Some f1 -> nth_error (w_filters s2) fi2 = Some f2 ->
  rb2_req s1 s2 (k1 f1) (k2 f2) -> rb2_req s1 s2 (bind (getF fi1) k1) (bind (getF fi2) k2).
Proof. intros A fi1 fi2 f1 f2 k1 k2 H1 H2 H. unfold rb2_req. rewrite (q_bind_getF _ s1 fi1 f1 _ H1), (q_bind_getF _ s2 fi2 f2 _ H2). exact H. Qed.

Hypothesis HSim : Sim s1 s2.

Lemma rb2_req_to_relations : forall m rels, rb2_req s1 s2 (to_relations m rels) (to_relations m rels).
Proof.
  intros m rels. rb_sim HSim. unfold to_relations. apply rb2_req_forM. intros r.
  apply rb2_req_get. rewrite (rb_alive_eq s1 s2 _ Hpool), (rb_is_rel_eq s1 s2 _ Hreg).
  apply rb2_req_bind; [apply rb2_req_guard|intros _]. apply rb2_req_bind; [apply rb2_req_guard|intros _]. apply rb2_req_guard.
Qed.

Lemma rb2_req_resolveR : forall l1 l2, rb_hrels s1 s2 l1 l2 -> rb2_req s1 s2 (resolveR l1) (resolveR l2).
Proof.
  intros l1 l2 Hh. unfold rb2_req. pose proof (rb_hrels_resolve s1 s2 l1 l2 Hh) as E.
  destruct (rb_resolveR l1 s1) as (er1 & E1). destruct (rb_resolveR l2 s2) as (er2 & E2). rewrite E1, E2, <- E.
  destruct (rb_resolve s1 l1); repeat split.
Qed.

Variables (fi1 fi2 : nat) (f1 f2 : fobj).
Hypothesis Hf1 : nth_error (w_filters s1) fi1 = Some f1.
Hypothesis Hf2 : nth_error (w_filters s2) fi2 = Some f2.
Hypothesis Hfe : rb2_feq f1 f2.

Lemma rb2_req_relidx : forall rels, rb2_req s1 s2 (resolve_relidx fi1 rels) (resolve_relidx fi2 rels).
Proof.
  intros rels. destruct Hfe as (Ei & _ & _ & _ & _ & Eu). unfold resolve_relidx. destruct (no_relidx rels); [apply rb2_req_ret|].
  apply (rb2_req_getF _ fi1 fi2 f1 f2 _ _ Hf1 Hf2). rewrite Eu, Ei. destruct (f_unsafe f2); [apply rb2_req_fail|].
  apply rb2_req_mapM. intros r. destruct (Nat.ltb (fst r) 1000); [apply rb2_req_ret|].
  apply rb2_req_bind; [apply rb2_req_of_opt|intros c; apply rb2_req_ret].
Qed.

Lemma rb2_req_check_unsafe : forall rels, rb2_req s1 s2 (check_unsafe_rels fi1 rels) (check_unsafe_rels fi2 rels).
Proof.
  intros rels. destruct Hfe as (_ & Em & _ & _ & _ & Eu). rb_sim HSim. unfold check_unsafe_rels. destruct (is_nil rels); [apply rb2_req_ret|].
  apply (rb2_req_getF _ fi1 fi2 f1 f2 _ _ Hf1 Hf2). rewrite Eu, Em. apply rb2_req_whenM. apply rb2_req_forM. intros r.
  apply rb2_req_get. rewrite (rb_is_rel_eq s1 s2 _ Hreg).
  apply rb2_req_bind; [apply rb2_req_guard|intros _]. apply rb2_req_guard.
Qed.

Lemma rb2_req_open_check : forall rels,
  rb2_req s1 s2 (whenM (negb (f_unsafe f1)) (to_relations (f_mask f1) rels)) (whenM (negb (f_unsafe f2)) (to_relations (f_mask f2) rels)).
Proof. intros rels. destruct Hfe as (_ & Em & _ & _ & _ & Eu). rewrite Eu, Em. apply rb2_req_whenM. apply rb2_req_to_relations. Qed.
End rb2_req_sec.

(** ** Query(rels...) succeeds iff its argument check passes - provided a lock bit is free *)
Definition rb2_lock_free (s : W) : Prop := lock_lock (w_lock s) <> None.

Lemma rb2_entry_addr : forall s fi f cid, qx_FL s -> nth_error (w_filters s) fi = Some f -> f_cache f = Some cid ->
  exists a, entry_addr s cid = Some a.
Proof.
  intros s fi f cid (_ & Hhas) Hf Hc. destruct (Hhas fi f cid Hf Hc) as (addr & e & Hin & He & Hid & _).
  unfold entry_addr.
  destruct (find (fun addr0 => match nth_error (w_cheap s) addr0 with Some e0 => Nat.eqb (ce_id e0) cid | None => false end) (w_centries s)) as [a|] eqn:Ef;
    [exists a; reflexivity|].
  exfalso. pose proof (find_none _ _ Ef addr Hin) as C. cbv beta in C. rewrite He, Hid, Nat.eqb_refl in C. discriminate.
Qed.

Lemma rb2_open_kind : forall s fi f rels, qx_FL s -> rb2_lock_free s -> nth_error (w_filters s) fi = Some f ->
  match whenM (negb (f_unsafe f)) (to_relations (f_mask f) rels) s with
  | Ok _ _ => exists qi t, query_open fi rels s = Ok qi t
  | Err _ _ => exists er, query_open fi rels s = Err er s
  end.
Proof.
  intros s fi f rels HFL Hlk Hf. unfold query_open. rewrite (q_bind_getF _ s fi f _ Hf).
  pose proof (readonly_whenM_to_relations := fun b => match b as b0 return readonly (whenM b0 (to_relations (f_mask f) rels)) with
     | true => readonly_to_relations (f_mask f) rels | false => readonly_ret unit tt end).
  pose proof (readonly_whenM_to_relations (negb (f_unsafe f)) s) as Hro.
  destruct (whenM (negb (f_unsafe f)) (to_relations (f_mask f) rels) s) as [[] s0|er s0] eqn:Ew; cbn [state_of] in Hro; subst s0.
  2:{ exists er. rewrite (sa_bind_err Ew). reflexivity. }
  rewrite (sa_bind_ok Ew). rewrite q_bind_get.
  unfold rb2_lock_free in Hlk. destruct (lock_lock (w_lock s)) as [[b l']|] eqn:El; [|contradiction].
  destruct (f_cache f) as [cid|] eqn:Ec.
  - destruct (rb2_entry_addr s fi f cid HFL Hf Ec) as (a & Ea). rewrite Ea.
    unfold bind, of_opt, ret, lockM, get, put. cbn. rewrite El. cbn. eexists. eexists. reflexivity.
  - unfold bind, ret, lockM, get, put. cbn. rewrite El. cbn. eexists. eexists. reflexivity.
Qed.

(* ------------------------------------------------------------------------------------------------ *)
(** ** The operation OQueryAll on two similar worlds *)

Definition rb2_qall_out (vis : list ent) : list Z := Zn (length vis) :: Zn (length vis) :: flat_map Zent vis.

(** both calls fail, or both succeed, report the same Count (= number of entities visited) and permutation-equal
    duplicate-free entity lists; in every case only the query objects and the lock are written *)
Definition rb2_qres (s1 s2 : W) (r1 r2 : res W (list Z)) : Prop :=
  query_frame s1 (state_of r1) /\ query_frame s2 (state_of r2) /\
  match r1, r2 with
  | Ok o1 _, Ok o2 _ => exists vis1 vis2, o1 = rb2_qall_out vis1 /\ o2 = rb2_qall_out vis2 /\
                          NoDup vis1 /\ NoDup vis2 /\ Permutation vis1 vis2
  | Err _ _, Err _ _ => True
  | _, _ => False
  end.

Lemma rb2_req_cases : forall A s1 s2 (m1 m2 : MW A), rb2_req s1 s2 m1 m2 ->
  (exists a, m1 s1 = Ok a s1 /\ m2 s2 = Ok a s2) \/ (exists e1 e2, m1 s1 = Err e1 s1 /\ m2 s2 = Err e2 s2).
Proof.
  intros A s1 s2 m1 m2 H. unfold rb2_req in H. destruct (m1 s1) as [a t1|e1 t1], (m2 s2) as [b t2|e2 t2]; try contradiction.
  - destruct H as (-> & -> & ->). left. exists b. split; reflexivity.
  - destruct H as (-> & ->). right. exists e1, e2. split; reflexivity.
Qed.

Theorem rb2_s_OQueryAll : forall d s1 s2 fi1 fi2 f1 f2 l1 l2,
  Sim s1 s2 -> rb2_QI s1 -> rb2_QI s2 -> rb2_lock_free s1 -> rb2_lock_free s2 ->
  nth_error (w_filters s1) fi1 = Some f1 -> nth_error (w_filters s2) fi2 = Some f2 -> rb2_feq f1 f2 -> rb_hrels s1 s2 l1 l2 ->
  rb2_qres s1 s2 (step_op d (OQueryAll fi1 l1) s1) (step_op d (OQueryAll fi2 l2) s2).
Proof.
  intros d s1 s2 fi1 fi2 f1 f2 l1 l2 HSim (T1 & C1 & L1 & F1) (T2 & C2 & L2 & F2) K1 K2 Hf1 Hf2 Hfe Hh.
  split; [apply (r2q_fr_step_op d (OQueryAll fi1 l1) eq_refl s1)|]. split; [apply (r2q_fr_step_op d (OQueryAll fi2 l2) eq_refl s2)|].
  pose proof HSim as HSim'. rb_sim HSim'.
  destruct (rb2_req_cases _ _ _ _ _ (rb2_req_resolveR s1 s2 l1 l2 Hh)) as [(rels0 & A1 & A2)|(e1 & e2 & A1 & A2)].
  2:{ rewrite !StorageD.sd_step_op_QueryAll, (sa_bind_err A1), (sa_bind_err A2). exact I. }
  destruct (rb2_req_cases _ _ _ _ _ (rb2_req_relidx s1 s2 fi1 fi2 f1 f2 Hf1 Hf2 Hfe rels0)) as [(rels & B1 & B2)|(e1 & e2 & B1 & B2)].
  2:{ rewrite !StorageD.sd_step_op_QueryAll, (sa_bind_ok A1), (sa_bind_ok A2), (sa_bind_err B1), (sa_bind_err B2). exact I. }
  destruct (rb2_req_cases _ _ _ _ _ (rb2_req_check_unsafe s1 s2 HSim fi1 fi2 f1 f2 Hf1 Hf2 Hfe rels)) as [([] & D1 & D2)|(e1 & e2 & D1 & D2)].
  2:{ rewrite !StorageD.sd_step_op_QueryAll, (sa_bind_ok A1), (sa_bind_ok A2), (sa_bind_ok B1), (sa_bind_ok B2), (sa_bind_err D1), (sa_bind_err D2). exact I. }
  pose proof (rb2_open_kind s1 fi1 f1 rels L1 K1 Hf1) as O1. pose proof (rb2_open_kind s2 fi2 f2 rels L2 K2 Hf2) as O2.
  destruct (rb2_req_cases _ _ _ _ _ (rb2_req_open_check s1 s2 HSim f1 f2 Hfe rels)) as [([] & G1 & G2)|(e1 & e2 & G1 & G2)]; rewrite G1 in O1; rewrite G2 in O2.
  2:{ destruct O1 as (er1 & O1). destruct O2 as (er2 & O2).
      rewrite !StorageD.sd_step_op_QueryAll, (sa_bind_ok A1), (sa_bind_ok A2), (sa_bind_ok B1), (sa_bind_ok B2), (sa_bind_ok D1), (sa_bind_ok D2),
        (sa_bind_err O1), (sa_bind_err O2). exact I. }
  destruct O1 as (qi1 & t1 & O1). destruct O2 as (qi2 & t2 & O2).
  assert (Hok1 : r2k_rels_ok s1 (f_mask f1) rels).
  { destruct (f_unsafe f1) eqn:Hu; [apply (qx_check_unsafe_ok s1 fi1 f1 rels Hf1 Hu D1)|].
    destruct (r2k_query_open_inv fi1 rels s1 qi1 t1 f1 Hf1 O1) as (Hk & _). apply (Hk Hu). }
  assert (Hok2 : r2k_rels_ok s2 (f_mask f2) rels).
  { intros r Hr. destruct (Hok1 r Hr) as (P & Q). destruct Hfe as (_ & Em & _). rewrite <- Em, <- (rb_is_rel_eq s1 s2 _ Hreg). split; assumption. }
  destruct (qx_query_all_exact d s1 fi1 f1 l1 rels0 rels qi1 t1 HS1 T1 C1 L1 Hf1 A1 B1 D1 O1) as (vis1 & u1 & St1 & _ & N1 & I1 & _).
  destruct (qx_query_all_exact d s2 fi2 f2 l2 rels0 rels qi2 t2 HS2 T2 C2 L2 Hf2 A2 B2 D2 O2) as (vis2 & u2 & St2' & _ & N2 & I2 & _).
  rewrite St1, St2'. exists vis1, vis2. split; [reflexivity|]. split; [reflexivity|]. split; [exact N1|]. split; [exact N2|].
  apply NoDup_Permutation; [exact N1|exact N2|]. intros e. rewrite I1, I2.
  rewrite (qx_model_natural _ s1 f1 (f_rels f1 ++ rels) e), (qx_model_natural _ s2 f2 (f_rels f2 ++ rels) e).
  - destruct Hfe as (Ei & Em & Ew & Eh & Er & Eu). rewrite Er. apply rb2_matches_eq; [exact HSim|]. repeat split; assumption.
  - intros r Hr. apply in_app_iff in Hr. destruct Hr as [Hr|Hr]; [apply (F2 fi2 f2 Hf2 r Hr)|apply (Hok2 r Hr)].
  - intros r Hr. apply in_app_iff in Hr. destruct Hr as [Hr|Hr]; [apply (F1 fi1 f1 Hf1 r Hr)|apply (Hok1 r Hr)].
Qed.

(* ------------------------------------------------------------------------------------------------ *)
(** ** The operation OQueryOpen: both calls fail without effect, or both succeed and the two query objects visit
       permutation-equal lists ([qx_query_is]: Count, EntityAt, the Next/Entity loop - see [rb2_query_count_eq]).
       The world is LOCKED afterwards, hence outside [Sim]: the cursor operations are not part of the history class. *)
Theorem rb2_s_OQueryOpen : forall d s1 s2 fi1 fi2 f1 f2 l1 l2,
  Sim s1 s2 -> rb2_QI s1 -> rb2_QI s2 -> rb2_lock_free s1 -> rb2_lock_free s2 ->
  nth_error (w_filters s1) fi1 = Some f1 -> nth_error (w_filters s2) fi2 = Some f2 -> rb2_feq f1 f2 -> rb_hrels s1 s2 l1 l2 ->
  match step_op d (OQueryOpen fi1 l1) s1, step_op d (OQueryOpen fi2 l2) s2 with
  | Ok a t1, Ok b t2 => exists qi1 qi2 vis1 vis2, a = [Zn qi1] /\ b = [Zn qi2] /\
      qx_query_is t1 qi1 vis1 /\ qx_query_is t2 qi2 vis2 /\ NoDup vis1 /\ NoDup vis2 /\ Permutation vis1 vis2
  | Err _ t1, Err _ t2 => t1 = s1 /\ t2 = s2
  | _, _ => False
  end.
Proof.
  intros d s1 s2 fi1 fi2 f1 f2 l1 l2 HSim Q1 Q2 K1 K2 Hf1 Hf2 Hfe Hh. cbn [step_op].
  pose proof Q1 as (_ & _ & L1 & _). pose proof Q2 as (_ & _ & L2 & _).
  destruct (rb2_req_cases _ _ _ _ _ (rb2_req_resolveR s1 s2 l1 l2 Hh)) as [(rels0 & A1 & A2)|(e1 & e2 & A1 & A2)].
  2:{ rewrite (sa_bind_err A1), (sa_bind_err A2). split; reflexivity. }
  rewrite (sa_bind_ok A1), (sa_bind_ok A2).
  destruct (rb2_req_cases _ _ _ _ _ (rb2_req_relidx s1 s2 fi1 fi2 f1 f2 Hf1 Hf2 Hfe rels0)) as [(rels & B1 & B2)|(e1 & e2 & B1 & B2)].
  2:{ rewrite (sa_bind_err B1), (sa_bind_err B2). split; reflexivity. }
  rewrite (sa_bind_ok B1), (sa_bind_ok B2).
  destruct (rb2_req_cases _ _ _ _ _ (rb2_req_check_unsafe s1 s2 HSim fi1 fi2 f1 f2 Hf1 Hf2 Hfe rels)) as [([] & D1 & D2)|(e1 & e2 & D1 & D2)].
  2:{ rewrite (sa_bind_err D1), (sa_bind_err D2). split; reflexivity. }
  rewrite (sa_bind_ok D1), (sa_bind_ok D2).
  pose proof (rb2_open_kind s1 fi1 f1 rels L1 K1 Hf1) as O1. pose proof (rb2_open_kind s2 fi2 f2 rels L2 K2 Hf2) as O2.
  destruct (rb2_req_cases _ _ _ _ _ (rb2_req_open_check s1 s2 HSim f1 f2 Hfe rels)) as [([] & G1 & G2)|(e1 & e2 & G1 & G2)]; rewrite G1 in O1; rewrite G2 in O2.
  2:{ destruct O1 as (er1 & O1). destruct O2 as (er2 & O2). rewrite (sa_bind_err O1), (sa_bind_err O2). split; reflexivity. }
  destruct O1 as (qi1 & t1 & O1). destruct O2 as (qi2 & t2 & O2). rewrite (sa_bind_ok O1), (sa_bind_ok O2). unfold ret.
  assert (Hok1 : r2k_rels_ok s1 (f_mask f1) rels).
  { destruct (f_unsafe f1) eqn:Hu; [apply (qx_check_unsafe_ok s1 fi1 f1 rels Hf1 Hu D1)|].
    destruct (r2k_query_open_inv fi1 rels s1 qi1 t1 f1 Hf1 O1) as (Hk & _). apply (Hk Hu). }
  destruct (rb2_query_open_perm s1 s2 fi1 fi2 f1 f2 rels qi1 qi2 t1 t2 HSim Q1 Q2 Hf1 Hf2 Hfe Hok1 O1 O2)
    as (vis1 & vis2 & X1 & X2 & N1 & N2 & HP & _).
  exists qi1, qi2, vis1, vis2. repeat (split; [first [reflexivity|assumption]|]). exact HP.
Qed.

(* ------------------------------------------------------------------------------------------------ *)
(** ** What the operations outside the core class keep *)

Lemma rb2_val_ext : forall s s', w_index s' = w_index s -> w_tables s' = w_tables s -> forall e c, val s' e c = val s e c.
Proof. intros s s' Ei Et e c. unfold val, value_of. rewrite (r2_live_ext s s' Ei Et e), (sa_loc_ext s s' Ei), Et. reflexivity. Qed.

Lemma rb2_tgt_ext : forall s s', w_index s' = w_index s -> w_tables s' = w_tables s -> forall e c, tgt s' e c = tgt s e c.
Proof. intros s s' Ei Et e c. unfold tgt, target_of. rewrite (r2_live_ext s s' Ei Et e), (sa_loc_ext s s' Ei), Et. reflexivity. Qed.

Lemma rb2_abs_ext : forall s s', w_index s' = w_index s -> w_tables s' = w_tables s -> rb_abs_eq s s'.
Proof.
  intros s s' Ei Et. split; [intros e; symmetry; apply (r2_live_ext s s' Ei Et)|].
  split; intros e c; symmetry; [apply (rb2_val_ext s s' Ei Et)|apply (rb2_tgt_ext s s' Ei Et)].
Qed.

Lemma rb2_bound : forall l : list ent, exists n, (forall i x g, nth_error l i = Some (x, g) -> (g <= N.of_nat n)%N) /\ length l <= 2 + n.
Proof.
  induction l as [|[x0 g0] l (n & IH1 & IH2)].
  - exists 0. split; [intros [|i] x g H; discriminate|cbn; lia].
  - exists (S (n + N.to_nat g0)). split; [|cbn [length]; lia].
    intros [|i] x g H; cbn in H; [inversion H; subst; lia|]. pose proof (IH1 i x g H). lia.
Qed.

(** the side invariant and the two clauses on filters give the invariant of Rel2HistR with an EMPTY current epoch *)
Lemma rb2_Inv2R : forall s, rb_side s -> archs_tabled_norel s -> r2q_filters_ok s -> exists n, Inv2R s n (length (w_issued s)).
Proof.
  intros s (HS & HK & (Hno & _) & Hid) HT HF. destruct (rb2_bound (pe (w_pool s))) as (n & B1 & B2). exists n.
  split; [exact HS|]. split; [exact HK|]. split; [exact Hno|]. split; [|split; [exact HT|split; [exact HF|exact Hid]]].
  unfold issued_ok_from. rewrite skipn_all. split; [intros e []|]. split; [|exact B2].
  intros i l g E _. apply (B1 i l g E).
Qed.

(** index, tables and lock under the three filter operations *)
Definition rb2_fr (s s' : W) : Prop := w_index s' = w_index s /\ w_tables s' = w_tables s /\ w_lock s' = w_lock s.
Lemma rb2_fr_refl : forall s, rb2_fr s s.
Proof. intros s. repeat split. Qed.
Lemma rb2_fr_trans : forall s1 s2 s3, rb2_fr s1 s2 -> rb2_fr s2 s3 -> rb2_fr s1 s3.
Proof. intros s1 s2 s3 (A1 & A2 & A3) (B1 & B2 & B3). repeat split; congruence. Qed.

Definition rb2_filter_op (o : op) : bool :=
  match o with OFilterNew _ _ _ _ _ | OFilterRegister _ | OFilterUnregister _ => true | _ => false end.

Lemma rb2_fr_filter_op : forall debug o s, rb2_filter_op o = true -> rb2_fr s (state_of (step_op debug o s)).
Proof.
  intros debug o s Ho. destruct o; try discriminate Ho; cbn [step_op].
  - revert s. change (r2e_pres rb2_fr (rels <- resolveR rels;;
        s <- get;; whenM (negb unsafe) (to_relations (mk_of_list ids) rels);;;
        modify (fun s0 : wstate => s0 <| w_filters ::= fun l => l ++
           [{| f_ids := ids; f_mask := mk_of_list ids;
               f_without := if excl then mk_not (cf_bits (w_cfg s)) (mk_of_list ids) else mk_of_list without;
               f_haswithout := (excl || negb (is_nil without))%bool; f_cache := None; f_rels := rels; f_unsafe := unsafe |}] |>);;;
        ret [Zn (length (w_filters s))])).
    apply (r2e_pres_bind rb2_fr rb2_fr_trans); [apply (r2e_pres_ro rb2_fr rb2_fr_refl), readonly_resolveR|]. intros rl.
    apply (r2e_pres_getbind rb2_fr). intros s.
    assert (X : r2e_pres rb2_fr (whenM (negb unsafe) (to_relations (mk_of_list ids) rl);;;
        modify (fun s0 : wstate => s0 <| w_filters ::= fun l => l ++
           [{| f_ids := ids; f_mask := mk_of_list ids;
               f_without := if excl then mk_not (cf_bits (w_cfg s)) (mk_of_list ids) else mk_of_list without;
               f_haswithout := (excl || negb (is_nil without))%bool; f_cache := None; f_rels := rl; f_unsafe := unsafe |}] |>);;;
        ret [Zn (length (w_filters s))])).
    { apply (r2e_pres_bind rb2_fr rb2_fr_trans).
      { apply (r2e_pres_ro rb2_fr rb2_fr_refl). destruct (negb unsafe); [apply readonly_to_relations|apply readonly_ret]. }
      intros _. apply (r2e_pres_bind rb2_fr rb2_fr_trans); [|intros _; apply (r2e_pres_ro rb2_fr rb2_fr_refl), readonly_ret].
      apply (r2e_pres_modify rb2_fr). intros s1. repeat split. }
    apply X.
  - rewrite r2q_state_bind_ret.
    destruct (StorageD.sd_register_shape f s) as [E|(f0 & id & p' & Hf & [E|(tabs & EU & E)])]; rewrite E; repeat split.
  - rewrite r2q_state_bind_ret.
    destruct (StorageD.sd_unregister_shape f s) as [E|(idx & Hidx & E)]; rewrite E; repeat split.
Qed.

Lemma rb2_new_post : forall debug s o, rb_side s -> rb2_QI s -> r2q_new_op o = true -> rel_q_flt_ok (w_reg s) o ->
  w_index (state_of (step_op debug o s)) = w_index s -> w_tables (state_of (step_op debug o s)) = w_tables s ->
  is_locked (state_of (step_op debug o s)) = false ->
  rb_side (state_of (step_op debug o s)) /\ rb2_QI (state_of (step_op debug o s)) /\
  w_pool (state_of (step_op debug o s)) = w_pool s /\ w_reg (state_of (step_op debug o s)) = w_reg s /\
  w_issued (state_of (step_op debug o s)) = w_issued s /\ rb_abs_eq s (state_of (step_op debug o s)).
Proof.
  intros debug s o Hsd (HT & HC & HL & HF) Hn Hflt Ei Et Hlk.
  destruct (rb2_Inv2R s Hsd HT HF) as (n & HI).
  destruct (r2r_new_op_spec debug s n _ o HI Hn Hflt) as ((S1 & S2 & S3 & _ & S5 & S6 & S7) & Er & Eis & _ & Ep).
  pose proof Hsd as (HS & _).
  destruct (qx_keep_new_op debug o s Hn (qx_walk_ok_inv s HS HT HF)) as (K1 & K2).
  split; [split; [exact S1|split; [exact S2|split; [split; [exact S3|exact Hlk]|exact S7]]]|].
  split; [split; [exact S5|split; [apply (qx_ok_of_CIw _ (proj1 S1)), K1, (qx_CIw_of_ok s (proj1 HS) HC)|split; [apply K2; exact HL|exact S6]]]|].
  split; [exact Ep|]. split; [exact Er|]. split; [exact Eis|]. apply (rb2_abs_ext s _ Ei Et).
Qed.

Lemma rb2_next_plain : forall debug o s, returns_entity o = false -> rb_next debug o s = state_of (step_op debug o s).
Proof. intros debug o s H. unfold rb_next, sc_issue. rewrite H. destruct (step_op debug o s) as [[|i [|g rest]] t|er t]; reflexivity. Qed.

(** the core class keeps the clauses on filters and queries, and the filter objects *)
Lemma rb2_QI_core : forall debug s o, rel_core_op o = true -> St2 s -> St2 (state_of (step_op debug o s)) ->
  w_reg (state_of (step_op debug o s)) = w_reg s -> rb2_QI s ->
  rb2_QI (state_of (step_op debug o s)) /\ w_filters (state_of (step_op debug o s)) = w_filters s.
Proof.
  intros debug s o Hc HS HS' Er (HT & HC & HL & HF).
  destruct (qx_ckp_step_op debug o Hc s) as (K1 & K2). pose proof K2 as (Ef & _).
  split; [|exact Ef]. split; [|split; [|split]].
  - apply (r2e_tabled_iff _ HS'). apply (r2e_tabled_iff s HS) in HT. apply (r2e_hk_H s _ (r2e_hkp_step_op debug o Hc s) HT).
  - apply (qx_ok_of_CIw _ (proj1 HS')), K1, (qx_CIw_of_ok s (proj1 HS) HC).
  - apply (qx_FL_same s _ K2 HL).
  - apply (r2q_filters_ok_ext s _ Er Ef HF).
Qed.

Lemma rb2_QI_issued : forall s l, rb2_QI s -> rb2_QI (s <| w_issued := l |>).
Proof.
  intros s l (HT & HC & HL & HF). split; [apply (r2q_tabled_ext s); [reflexivity|exact HT]|].
  split; [apply (r2k_cidx_ok_ext s); [reflexivity|reflexivity|exact HC]|].
  split; [apply (qx_FL_same s); [repeat split|exact HL]|apply (r2q_filters_ok_ext s); [reflexivity|reflexivity|exact HF]].
Qed.

Lemma rb2_next_shape : forall debug o s, exists l, rb_next debug o s = state_of (step_op debug o s) <| w_issued := l |>.
Proof.
  intros debug o s. unfold rb_next, sc_issue.
  assert (R : forall t : W, t = t <| w_issued := w_issued t |>) by (intros t; destruct t; reflexivity).
  destruct (step_op debug o s) as [[|i [|g rest]] t|er t]; cbn [state_of]; try (exists (w_issued t); apply R).
  destruct (returns_entity o); [|exists (w_issued t); apply R].
  exists (w_issued t ++ [(Z.to_nat i, Z.to_N g)]). destruct t; reflexivity.
Qed.

(* ------------------------------------------------------------------------------------------------ *)
(** ** The wider simulation: [Sim], the clauses on filters and queries in both worlds, and the correspondence of the
       filter objects created since the Reset ([kf] = number of filter objects the Reset world had at the Reset) *)

Lemma rb2_feq_refl : forall f, rb2_feq f f.
Proof. intros f. repeat split. Qed.
Lemma rb2_feq_trans : forall f1 f2 f3, rb2_feq f1 f2 -> rb2_feq f2 f3 -> rb2_feq f1 f3.
Proof. intros f1 f2 f3 (A1 & A2 & A3 & A4 & A5 & A6) (B1 & B2 & B3 & B4 & B5 & B6). repeat split; congruence. Qed.

Definition rb2_fsame (F F' : list fobj) : Prop :=
  length F' = length F /\ forall i f', nth_error F' i = Some f' -> exists f, nth_error F i = Some f /\ rb2_feq f f'.

Lemma rb2_fsame_refl : forall F, rb2_fsame F F.
Proof. intros F. split; [reflexivity|]. intros i f H. exists f. split; [exact H|apply rb2_feq_refl]. Qed.

Lemma rb2_fsame_updf : forall F fi c, rb2_fsame F (updf fi (fun f0 : fobj => f0 <| f_cache := c |>) F).
Proof.
  intros F fi c. split; [apply updf_length|]. intros i f' H. rewrite TableProofs.nth_error_updf in H.
  destruct (Nat.eqb fi i).
  - destruct (nth_error F i) as [f|]; [|discriminate]. cbn in H. injection H as <-. exists f. split; [reflexivity|]. repeat split.
  - exists f'. split; [exact H|apply rb2_feq_refl].
Qed.

Definition rb2_fcorr (kf : nat) (F1 F2 : list fobj) : Prop :=
  length F1 = kf + length F2 /\
  forall i f2, nth_error F2 i = Some f2 -> exists f1, nth_error F1 (kf + i) = Some f1 /\ rb2_feq f1 f2.

Lemma rb2_fcorr_fsame : forall kf F1 F2 F1' F2', rb2_fcorr kf F1 F2 -> rb2_fsame F1 F1' -> rb2_fsame F2 F2' -> rb2_fcorr kf F1' F2'.
Proof.
  intros kf F1 F2 F1' F2' (L & H) (L1 & H1) (L2 & H2). split; [congruence|]. intros i f2' Hf2'.
  destruct (H2 i f2' Hf2') as (f2 & Hf2 & E2). destruct (H i f2 Hf2) as (f1 & Hf1 & E12).
  destruct (nth_error F1' (kf + i)) as [f1'|] eqn:Hf1'.
  - destruct (H1 (kf + i) f1' Hf1') as (f1b & Hf1b & E1). rewrite Hf1 in Hf1b. injection Hf1b as <-.
    exists f1'. split; [reflexivity|]. apply (rb2_feq_trans f1' f1 f2'); [apply rb2_feq_sym; exact E1|].
    apply (rb2_feq_trans f1 f2 f2' E12 E2).
  - exfalso. apply nth_error_None in Hf1'. apply sa_nth_error_lt in Hf1. lia.
Qed.

Lemma rb2_fcorr_snoc : forall kf F1 F2 f1 f2, rb2_fcorr kf F1 F2 -> rb2_feq f1 f2 -> rb2_fcorr kf (F1 ++ [f1]) (F2 ++ [f2]).
Proof.
  intros kf F1 F2 f1 f2 (L & H) E. split; [rewrite !app_length; cbn [length]; lia|]. intros i x Hx.
  apply sa_nth_error_snoc in Hx. destruct Hx as [(Hi & Hx)|(Hi & ->)].
  - destruct (H i x Hx) as (y & Hy & Exy). exists y. split; [|exact Exy]. rewrite nth_error_app1; [exact Hy|]. apply sa_nth_error_lt in Hy. exact Hy.
  - exists f1. split; [|exact E]. subst i. rewrite <- L. apply sa_nth_error_snoc_new.
Qed.

Definition Sim2 (kf : nat) (s1 s2 : W) : Prop :=
  Sim s1 s2 /\ rb2_QI s1 /\ rb2_QI s2 /\ rb2_fcorr kf (w_filters s1) (w_filters s2).

(** operations outside the core class, on both worlds: similar worlds afterwards *)
Lemma rb2_new_sim : forall debug s1 s2 o1 o2, Sim s1 s2 -> rb2_QI s1 -> rb2_QI s2 ->
  r2q_new_op o1 = true -> r2q_new_op o2 = true -> rel_q_flt_ok (w_reg s1) o1 -> rel_q_flt_ok (w_reg s2) o2 ->
  let t1 := state_of (step_op debug o1 s1) in let t2 := state_of (step_op debug o2 s2) in
  w_index t1 = w_index s1 -> w_tables t1 = w_tables s1 -> is_locked t1 = false ->
  w_index t2 = w_index s2 -> w_tables t2 = w_tables s2 -> is_locked t2 = false ->
  Sim t1 t2 /\ rb2_QI t1 /\ rb2_QI t2.
Proof.
  intros debug s1 s2 o1 o2 HSim Q1 Q2 N1 N2 Fl1 Fl2 t1 t2 I1 Tb1 Lk1 I2 Tb2 Lk2.
  destruct HSim as (Sd1 & Sd2 & Hpool & Hreg & Habs).
  destruct (rb2_new_post debug s1 o1 Sd1 Q1 N1 Fl1 I1 Tb1 Lk1) as (A1 & A2 & A3 & A4 & _ & A6).
  destruct (rb2_new_post debug s2 o2 Sd2 Q2 N2 Fl2 I2 Tb2 Lk2) as (B1 & B2 & B3 & B4 & _ & B6).
  split; [|split; assumption]. split; [exact A1|]. split; [exact B1|]. fold t1 t2 in A3, A4, A6, B3, B4, B6 |- *.
  split; [congruence|]. split; [congruence|].
  apply (rb_abs_trans t1 s1 t2); [apply rb_abs_sym; exact A6|]. apply (rb_abs_trans s1 s2 t2 Habs B6).
Qed.

(** *** FilterNew *)
Theorem rb2_s_OFilterNew : forall d s1 s2 u ids wo ex l1 l2, Sim s1 s2 -> rb_hrels s1 s2 l1 l2 ->
  (ex = true -> cf_bits (w_cfg s1) = cf_bits (w_cfg s2)) ->
  match step_op d (OFilterNew u ids wo ex l1) s1, step_op d (OFilterNew u ids wo ex l2) s2 with
  | Ok a t1, Ok b t2 => a = [Zn (length (w_filters s1))] /\ b = [Zn (length (w_filters s2))] /\
      exists f1 f2, rb2_feq f1 f2 /\ w_filters t1 = w_filters s1 ++ [f1] /\ w_filters t2 = w_filters s2 ++ [f2]
  | Err _ t1, Err _ t2 => t1 = s1 /\ t2 = s2
  | _, _ => False
  end.
Proof.
  intros d s1 s2 u ids wo ex l1 l2 HSim Hh Hcfg. cbn [step_op].
  destruct (rb2_req_cases _ _ _ _ _ (rb2_req_resolveR s1 s2 l1 l2 Hh)) as [(rels & A1 & A2)|(e1 & e2 & A1 & A2)].
  2:{ rewrite (sa_bind_err A1), (sa_bind_err A2). split; reflexivity. }
  rewrite (sa_bind_ok A1), (sa_bind_ok A2), !sb2_bind_get.
  destruct (rb2_req_cases _ _ _ _ _ (rb2_req_whenM s1 s2 (negb u) _ _ (rb2_req_to_relations s1 s2 HSim (mk_of_list ids) rels)))
    as [([] & G1 & G2)|(e1 & e2 & G1 & G2)].
  2:{ rewrite (sa_bind_err G1), (sa_bind_err G2). split; reflexivity. }
  rewrite (sa_bind_ok G1), (sa_bind_ok G2). unfold bind, modify, ret. cbn [state_of].
  split; [reflexivity|]. split; [reflexivity|]. eexists. eexists. split; [|split; reflexivity].
  repeat split. cbn [f_without]. destruct ex; [rewrite (Hcfg eq_refl)|]; reflexivity.
Qed.

(* ------------------------------------------------------------------------------------------------ *)
(** ** One step of the wider class: the core class, FilterNew, Register, Unregister, QueryAll *)

Definition rb2_extra_op (o : op) : bool :=
  match o with OFilterNew _ _ _ _ _ | OFilterRegister _ | OFilterUnregister _ | OQueryAll _ _ => true | _ => false end.
Definition rb2_wide_op (o : op) : bool := (rel_core_op o || rb2_extra_op o)%bool.

(** the same operation: plain arguments equal, handles denote the same entities, filter numbers shifted by [kf] *)
Definition rb2_op_rel (kf : nat) (s1 s2 : W) (o1 o2 : op) : Prop :=
  match o1, o2 with
  | OFilterNew u ids wo ex l1, OFilterNew u' ids' wo' ex' l2 =>
      u = u' /\ ids = ids' /\ wo = wo' /\ ex = ex' /\ rb_hrels s1 s2 l1 l2 /\
      (ex = true -> cf_bits (w_cfg s1) = cf_bits (w_cfg s2))
  | OFilterRegister a, OFilterRegister b => a = kf + b
  | OFilterUnregister a, OFilterUnregister b => a = kf + b
  | OQueryAll a l1, OQueryAll b l2 => a = kf + b /\ b < length (w_filters s2) /\ rb_hrels s1 s2 l1 l2
  | _, _ => rb_op_rel s1 s2 o1 o2
  end.

(** side conditions of one step (world 1 only, except for the lock: a free lock bit and "unlocked afterwards" are
    assumed of both worlds at a QueryAll - see the summary) *)
Definition rb2_side (debug : bool) (s1 s2 : W) (o1 o2 : op) : Prop :=
  if rel_core_op o1 then room s1 /\ rb_args_ok s1 o1
  else match o1 with
       | OFilterNew _ _ _ _ _ => rel_q_flt_ok (w_reg s1) o1
       | OQueryAll _ _ => rb2_lock_free s1 /\ rb2_lock_free s2 /\
                          is_locked (state_of (step_op debug o1 s1)) = false /\ is_locked (state_of (step_op debug o2 s2)) = false
       | _ => True
       end.

(** what is compared of the two outcomes *)
Definition rb2_out_rel (kf : nat) (o1 : op) (r1 r2 : res W (list Z)) : Prop :=
  match o1 with
  | OQueryAll _ _ =>
      match r1, r2 with
      | Ok a _, Ok b _ => exists vis1 vis2, a = rb2_qall_out vis1 /\ b = rb2_qall_out vis2 /\
                            NoDup vis1 /\ NoDup vis2 /\ Permutation vis1 vis2
      | Err _ _, Err _ _ => True
      | _, _ => False
      end
  | OFilterNew _ _ _ _ _ =>
      match r1, r2 with
      | Ok a _, Ok b _ => exists n, a = [Zn (kf + n)] /\ b = [Zn n]
      | Err _ _, Err _ _ => True
      | _, _ => False
      end
  | OFilterRegister _ | OFilterUnregister _ => True
  | _ => rb2_obs o1 r1 = rb2_obs o1 r2
  end.

Lemma rb2_op_rel_core : forall kf s1 s2 o1 o2, rel_core_op o1 = true -> rb2_op_rel kf s1 s2 o1 o2 -> rb_op_rel s1 s2 o1 o2.
Proof. intros kf s1 s2 o1 o2 Hc H. destruct o1; try discriminate Hc; exact H. Qed.

Lemma rb2_flt_transfer : forall s1 s2 u ids wo ex l1 l2, w_reg s1 = w_reg s2 -> rb_hrels s1 s2 l1 l2 ->
  rel_q_flt_ok (w_reg s1) (OFilterNew u ids wo ex l1) -> rel_q_flt_ok (w_reg s2) (OFilterNew u ids wo ex l2).
Proof.
  intros s1 s2 u ids wo ex l1 l2 Hreg Hh H. destruct u; [|exact I]. cbn [rel_q_flt_ok] in *. rewrite <- Hreg.
  induction Hh as [|hr1 hr2 l1 l2 (Hc & _) _ IH]; intros hr Hin; [destruct Hin|].
  destruct Hin as [<-|Hin]; [rewrite <- Hc; apply H; left; reflexivity|]. apply IH; [|exact Hin].
  intros x Hx. apply H. right. exact Hx.
Qed.

Lemma rb2_locked_eq : forall s s', w_lock s' = w_lock s -> is_locked s' = is_locked s.
Proof. intros s s' E. unfold is_locked. rewrite E. reflexivity. Qed.

Lemma rb2_fsame_register : forall fi s, rb2_fsame (w_filters s) (w_filters (state_of (filter_register fi s))).
Proof.
  intros fi s. destruct (StorageD.sd_register_shape fi s) as [E|(f0 & id & p' & Hf & [E|(tabs & EU & E)])]; rewrite E; cbn;
    [apply rb2_fsame_refl|apply rb2_fsame_updf|apply rb2_fsame_updf].
Qed.

Lemma rb2_fsame_unregister : forall fi s, rb2_fsame (w_filters s) (w_filters (state_of (filter_unregister fi s))).
Proof.
  intros fi s. destruct (StorageD.sd_unregister_shape fi s) as [E|(idx & Hidx & E)]; rewrite E; cbn; [apply rb2_fsame_refl|apply rb2_fsame_updf].
Qed.

Theorem rb2_wide_step : forall debug kf s1 s2 o1 o2, Sim2 kf s1 s2 -> rb2_wide_op o1 = true ->
  rb2_op_rel kf s1 s2 o1 o2 -> rb2_side debug s1 s2 o1 o2 ->
  Sim2 kf (rb_next debug o1 s1) (rb_next debug o2 s2) /\ rb2_out_rel kf o1 (step_op debug o1 s1) (step_op debug o2 s2).
Proof.
  intros debug kf s1 s2 o1 o2 (HSim & Q1 & Q2 & HFc) Hw Hrel Hside. unfold rb2_wide_op in Hw. unfold rb2_side in Hside.
  destruct (rel_core_op o1) eqn:Hc.
  - (* the core class *)
    destruct Hside as (Hroom & Hok1). pose proof (rb2_op_rel_core kf s1 s2 o1 o2 Hc Hrel) as Hrel'.
    destruct (rb2_step_sim debug s1 s2 o1 o2 HSim Hroom Hc Hrel' Hok1) as (HSim' & _).
    pose proof (rb2_args_transfer s1 s2 o1 o2 HSim Hrel' Hok1) as Hok2.
    destruct (rb_op_rel_shape s1 s2 o1 o2 Hrel') as (Hc2 & _ & _). rewrite Hc in Hc2.
    pose proof (rb_room2 s1 s2 HSim Hroom) as Hroom2.
    pose proof HSim as ((HS1 & HK1 & HQ1 & Hid1) & (HS2 & HK2 & HQ2 & Hid2) & _).
    pose proof (r2r_op_spec debug s1 HS1 HK1 HQ1 Hroom Hid1 o1 Hc (proj1 Hok1) (proj1 (proj2 Hok1))) as ((T1a & _ & _ & T1d & _) & _).
    pose proof (r2r_op_spec debug s2 HS2 HK2 HQ2 Hroom2 Hid2 o2 Hc2 (proj1 Hok2) (proj1 (proj2 Hok2))) as ((T2a & _ & _ & T2d & _) & _).
    destruct (rb2_QI_core debug s1 o1 Hc HS1 T1a T1d Q1) as (Q1' & F1'). destruct (rb2_QI_core debug s2 o2 Hc2 HS2 T2a T2d Q2) as (Q2' & F2').
    destruct (rb2_next_shape debug o1 s1) as (i1 & E1). destruct (rb2_next_shape debug o2 s2) as (i2 & E2).
    split.
    + split; [exact HSim'|]. rewrite E1, E2. split; [apply rb2_QI_issued; exact Q1'|]. split; [apply rb2_QI_issued; exact Q2'|].
      cbn. rewrite F1', F2'. exact HFc.
    + assert (Hobs : rb2_obs o1 (step_op debug o1 s1) = rb2_obs o1 (step_op debug o2 s2)).
      { unfold rb2_obs. destruct (rb2_strong o1) eqn:Hst; [|reflexivity]. apply rb_res_out. apply rb2_step_strong; assumption. }
      destruct o1; try discriminate Hc; exact Hobs.
  - (* the four other operations *)
    cbn [orb] in Hw. pose proof HSim as (Sd1 & Sd2 & Hpool & Hreg & Habs).
    pose proof Sd1 as (_ & _ & (_ & Hl1) & _). pose proof Sd2 as (_ & _ & (_ & Hl2) & _).
    destruct o1; try discriminate Hw; try discriminate Hc; destruct o2; cbn [rb2_op_rel rb_op_rel] in Hrel; try contradiction.
    + (* FilterNew *)
      destruct Hrel as (<- & <- & <- & <- & Hh & Hcfg).
      pose proof (rb2_flt_transfer s1 s2 _ _ _ _ _ _ Hreg Hh Hside) as Hflt2.
      pose proof (rb2_fr_filter_op debug (OFilterNew unsafe ids without excl rels) s1 eq_refl) as (I1 & Tb1 & Lk1).
      pose proof (rb2_fr_filter_op debug (OFilterNew unsafe ids without excl rels0) s2 eq_refl) as (I2 & Tb2 & Lk2).
      destruct (rb2_new_sim debug s1 s2 (OFilterNew unsafe ids without excl rels) (OFilterNew unsafe ids without excl rels0) HSim Q1 Q2 eq_refl eq_refl Hside Hflt2 I1 Tb1
                  (eq_trans (rb2_locked_eq _ _ Lk1) Hl1) I2 Tb2 (eq_trans (rb2_locked_eq _ _ Lk2) Hl2)) as (A & B & C).
      rewrite !rb2_next_plain by reflexivity.
      pose proof (rb2_s_OFilterNew debug s1 s2 unsafe ids without excl rels rels0 HSim Hh Hcfg) as HR.
      destruct (step_op debug (OFilterNew unsafe ids without excl rels) s1) as [a t1|er1 t1],
               (step_op debug (OFilterNew unsafe ids without excl rels0) s2) as [b t2|er2 t2]; try contradiction; cbn [state_of] in *.
      * destruct HR as (-> & -> & f1 & f2 & Ef & W1 & W2). split.
        -- split; [exact A|]. split; [exact B|]. split; [exact C|]. rewrite W1, W2. apply rb2_fcorr_snoc; assumption.
        -- cbn [rb2_out_rel]. exists (length (w_filters s2)). rewrite (proj1 HFc). split; reflexivity.
      * destruct HR as (-> & ->). split; [|exact I]. split; [exact A|]. split; [exact B|]. split; [exact C|exact HFc].
    + (* Register *)
      subst f.
      pose proof (rb2_fr_filter_op debug (OFilterRegister (kf + f0)) s1 eq_refl) as (I1 & Tb1 & Lk1).
      pose proof (rb2_fr_filter_op debug (OFilterRegister f0) s2 eq_refl) as (I2 & Tb2 & Lk2).
      destruct (rb2_new_sim debug s1 s2 (OFilterRegister (kf + f0)) (OFilterRegister f0) HSim Q1 Q2 eq_refl eq_refl I I I1 Tb1
                  (eq_trans (rb2_locked_eq _ _ Lk1) Hl1) I2 Tb2 (eq_trans (rb2_locked_eq _ _ Lk2) Hl2)) as (A & B & C).
      rewrite !rb2_next_plain by reflexivity. split; [|exact I].
      split; [exact A|]. split; [exact B|]. split; [exact C|]. cbn [step_op]. rewrite !r2q_state_bind_ret.
      apply (rb2_fcorr_fsame kf _ _ _ _ HFc); apply rb2_fsame_register.
    + (* Unregister *)
      subst f.
      pose proof (rb2_fr_filter_op debug (OFilterUnregister (kf + f0)) s1 eq_refl) as (I1 & Tb1 & Lk1).
      pose proof (rb2_fr_filter_op debug (OFilterUnregister f0) s2 eq_refl) as (I2 & Tb2 & Lk2).
      destruct (rb2_new_sim debug s1 s2 (OFilterUnregister (kf + f0)) (OFilterUnregister f0) HSim Q1 Q2 eq_refl eq_refl I I I1 Tb1
                  (eq_trans (rb2_locked_eq _ _ Lk1) Hl1) I2 Tb2 (eq_trans (rb2_locked_eq _ _ Lk2) Hl2)) as (A & B & C).
      rewrite !rb2_next_plain by reflexivity. split; [|exact I].
      split; [exact A|]. split; [exact B|]. split; [exact C|]. cbn [step_op]. rewrite !r2q_state_bind_ret.
      apply (rb2_fcorr_fsame kf _ _ _ _ HFc); apply rb2_fsame_unregister.
    + (* QueryAll *)
      destruct Hrel as (-> & Hlt & Hh). destruct Hside as (K1 & K2 & U1 & U2).
      destruct (nth_error (w_filters s2) f0) as [f2|] eqn:Hf2; [|apply nth_error_None in Hf2; lia].
      destruct (proj2 HFc f0 f2 Hf2) as (f1 & Hf1 & Ef).
      pose proof (rb2_s_OQueryAll debug s1 s2 (kf + f0) f0 f1 f2 rels rels0 HSim Q1 Q2 K1 K2 Hf1 Hf2 Ef Hh) as (Fr1 & Fr2 & HR).
      pose proof Fr1 as (_ & _ & _ & I1 & _ & _ & Tb1 & _ & _ & _ & _ & _ & _ & _ & Fl1 & _).
      pose proof Fr2 as (_ & _ & _ & I2 & _ & _ & Tb2 & _ & _ & _ & _ & _ & _ & _ & Fl2 & _).
      destruct (rb2_new_sim debug s1 s2 (OQueryAll (kf + f0) rels) (OQueryAll f0 rels0) HSim Q1 Q2 eq_refl eq_refl I I I1 Tb1 U1 I2 Tb2 U2) as (A & B & C).
      rewrite !rb2_next_plain by reflexivity. split; [|exact HR].
      split; [exact A|]. split; [exact B|]. split; [exact C|]. rewrite Fl1, Fl2. exact HFc.
Qed.

(* ================================================================================================ *)
(** * Part 3: histories of the wider class; the world after a Reset vs a new world *)

Fixpoint rb2w_hist (debug : bool) (kf : nat) (s1 s2 : W) (os1 os2 : list op) : Prop :=
  match os1, os2 with
  | [], [] => True
  | o1 :: r1, o2 :: r2 => rb2_wide_op o1 = true /\ rb2_op_rel kf s1 s2 o1 o2 /\ rb2_side debug s1 s2 o1 o2 /\
                          rb2w_hist debug kf (rb_next debug o1 s1) (rb_next debug o2 s2) r1 r2
  | _, _ => False
  end.

(** the outcomes, operation by operation *)
Fixpoint rb2w_outs (debug : bool) (kf : nat) (s1 s2 : W) (os1 os2 : list op) : Prop :=
  match os1, os2 with
  | [], [] => True
  | o1 :: r1, o2 :: r2 => rb2_out_rel kf o1 (step_op debug o1 s1) (step_op debug o2 s2) /\
                          rb2w_outs debug kf (rb_next debug o1 s1) (rb_next debug o2 s2) r1 r2
  | _, _ => False
  end.

Lemma rb2_run_cons : forall debug s o t, fst (rb2_run debug s (o :: t)) = fst (rb2_run debug (rb_next debug o s) t).
Proof. reflexivity. Qed.

Theorem rb2w_hist_sim : forall debug kf os1 os2 s1 s2, Sim2 kf s1 s2 -> rb2w_hist debug kf s1 s2 os1 os2 ->
  Sim2 kf (fst (rb2_run debug s1 os1)) (fst (rb2_run debug s2 os2)) /\ rb2w_outs debug kf s1 s2 os1 os2.
Proof.
  intros debug kf os1. induction os1 as [|o1 r1 IH]; intros [|o2 r2] s1 s2 HSim H; cbn [rb2w_hist] in H; try contradiction.
  - split; [exact HSim|exact I].
  - destruct H as (Hw & Hrel & Hside & H). rewrite !rb2_run_cons. cbn [rb2w_outs].
    destruct (rb2_wide_step debug kf s1 s2 o1 o2 HSim Hw Hrel Hside) as (HSim' & Hout).
    destruct (IH r2 _ _ HSim' H) as (A & B). split; [exact A|]. split; [exact Hout|exact B].
Qed.

(** the world after a successful Reset is [Sim2] to the new world; its filter objects are all "old" *)
Theorem rb2_reset_sim2 : forall debug c s n k, Inv2RF s n k -> is_locked s = false -> cfg_ok2 c -> w_reg s = sc_kinds c ->
  exists s', step_op debug OReset s = Ok [] s' /\ w_issued s' = w_issued s /\ Sim2 (length (w_filters s')) s' (init_world c).
Proof.
  intros debug c s n k (HI & HC & HL) Hl Hc Hr.
  destruct (r2r_reset_unlocked debug s n k HI Hl) as (s' & E & Hf & R1 & _ & R3 & _).
  exists s'. split; [exact E|]. split; [exact R3|].
  pose proof (r2r_fresh_init c Hc) as Hfi.
  assert (HSim : Sim s' (init_world c)) by (apply rb_fresh_sim; [exact Hf|exact Hfi|rewrite R1, Hr; reflexivity]).
  split; [exact HSim|].
  pose proof Hf as ((S1 & _ & _ & _ & S5 & S6 & _) & _). pose proof Hfi as ((I1 & _ & _ & _ & I5 & I6 & _) & _).
  pose proof HI as (HS & _).
  assert (Es : s' = state_of (w_reset s)).
  { change (step_op debug OReset s) with ((w_reset ;;; ret (@nil Z)) s) in E.
    pose proof (r2q_state_bind_ret _ _ w_reset (@nil Z) s) as X. rewrite E in X. exact X. }
  destruct (qxr_keep_reset s) as (K1 & K2). rewrite <- Es in K1, K2.
  split; [split; [exact S5|split; [apply (qx_ok_of_CIw _ (proj1 S1)), K1, (qx_CIw_of_ok s (proj1 HS) HC)|split; [apply K2; exact HL|exact S6]]]|].
  split; [split; [exact I5|split; [apply r2k_cidx_init|split; [apply qx_FL_init|exact I6]]]|].
  split; [cbn; lia|]. intros i f2 H. destruct i; discriminate H.
Qed.

(** C16, second sentence, over the wider class: after a successful Reset every history of core operations, filter
    creations, registrations and complete queries has, operation by operation, the same outcome as on a new world:
    identical results for 16 core operations, filter numbers shifted by the number of retained filter objects,
    same Count and permutation-equal entity lists for every complete query - and the worlds stay similar. *)
Theorem rb2_C16_wide : forall debug c s n k os1 os2,
  Inv2RF s n k -> is_locked s = false -> cfg_ok2 c -> w_reg s = sc_kinds c ->
  let s' := state_of (step_op debug OReset s) in
  let kf := length (w_filters s') in
  rb2w_hist debug kf s' (init_world c) os1 os2 ->
  Sim2 kf (fst (rb2_run debug s' os1)) (fst (rb2_run debug (init_world c) os2)) /\
  rb2w_outs debug kf s' (init_world c) os1 os2.
Proof.
  intros debug c s n k os1 os2 HI Hl Hc Hr s' kf H.
  destruct (rb2_reset_sim2 debug c s n k HI Hl Hc Hr) as (s0 & E & _ & HSim).
  assert (Es : s' = s0) by (unfold s'; rewrite E; reflexivity). unfold kf in *. rewrite Es in *.
  apply rb2w_hist_sim; assumption.
Qed.

(* ================================================================================================ *)
(** * Part 4: non-vacuity *)

(** the used world: the first 8 lines of the script of Rel2HistR (two targets, a relation, a typed filter with a fixed
    relation, REGISTERED, a second-generation entity, a complete query); then Reset. 4 handles and 1 filter object are
    retained: handles of the second history are shifted by 4, filter numbers by 1. *)
Definition rb2_used : W := Properties.Common.exec Rel2Check.r2_cfg (firstn 8 r2r_script).
Definition rb2_wA : W := state_of (step_op false OReset rb2_used).
Definition rb2_wB : W := init_world Rel2Check.r2_cfg.
Definition rb2_opsB : list op :=
  [ONewEntity; OUNew [0;1]; OUNew [0]; OFilterNew false [0] [] false []; OFilterRegister 0; OQueryAll 0 [];
   OHas 1%Z 1; OIDs 1%Z; ORemoveEntity 1%Z; OQueryAll 0 []; OFilterUnregister 0; OUNew [0;3]; OQueryAll 0 []].
Definition rb2_opsA : list op :=
  [ONewEntity; OUNew [0;1]; OUNew [0]; OFilterNew false [0] [] false []; OFilterRegister 1; OQueryAll 1 [];
   OHas 5%Z 1; OIDs 5%Z; ORemoveEntity 5%Z; OQueryAll 1 []; OFilterUnregister 1; OUNew [0;3]; OQueryAll 1 []].

Lemma rb2_used_inv : exists n k, Inv2RF rb2_used n k.
Proof.
  eexists. eexists. apply (reachable_inv2RF Rel2Check.r2_cfg (firstn 8 r2r_script)); [exact r2q_cfg_ok|apply r2r_script_hist|].
  apply r2_N_small. vm_compute. reflexivity.
Qed.

Example rb2_example_retained :
  length (w_issued rb2_wA) = 4 /\ map f_cache (w_filters rb2_used) = [Some 0] /\ map f_cache (w_filters rb2_wA) = [None] /\
  length (w_archs rb2_wA) = 2 /\ length (w_archs rb2_wB) = 1.
Proof. vm_compute. repeat split. Qed.

Example rb2_example_sim2 : Sim2 1 rb2_wA rb2_wB.
Proof.
  destruct rb2_used_inv as (n & k & HI).
  destruct (rb2_reset_sim2 false Rel2Check.r2_cfg rb2_used n k HI) as (s' & E & _ & H);
    [vm_compute; reflexivity|exact r2q_cfg_ok|vm_compute; reflexivity|].
  assert (Es : rb2_wA = s') by (unfold rb2_wA; rewrite E; reflexivity). rewrite <- Es in H.
  assert (El : length (w_filters rb2_wA) = 1) by (vm_compute; reflexivity). rewrite El in H. exact H.
Qed.

Ltac rb2_core_line :=
  split; [reflexivity|split; [cbn [rb2_op_rel rb_op_rel]; repeat split; vm_compute; reflexivity|
    split; [unfold rb2_side; cbn [rel_core_op]; split; [apply rb_room_small; vm_compute; reflexivity|rb_args]|]]].
Ltac rb2_fnew_line :=
  split; [reflexivity|split; [cbn [rb2_op_rel]; repeat split; first [constructor|(intros X; discriminate X)]|
    split; [unfold rb2_side; cbn [rel_core_op rel_q_flt_ok]; exact I|]]].
Ltac rb2_freg_line := split; [reflexivity|split; [cbn [rb2_op_rel]; reflexivity|split; [unfold rb2_side; cbn [rel_core_op]; exact I|]]].
Ltac rb2_qall_line :=
  split; [reflexivity|split; [cbn [rb2_op_rel]; split; [reflexivity|split; [apply Nat.ltb_lt; vm_compute; reflexivity|constructor]]|
    split; [unfold rb2_side; cbn [rel_core_op]; split; [unfold rb2_lock_free; vm_compute; intros X; discriminate X|
      split; [unfold rb2_lock_free; vm_compute; intros X; discriminate X|split; vm_compute; reflexivity]]|]]].

Example rb2_example_hist : rb2w_hist false 1 rb2_wA rb2_wB rb2_opsA rb2_opsB.
Proof.
  unfold rb2_opsA, rb2_opsB. cbn [rb2w_hist].
  rb2_core_line. rb2_core_line. rb2_core_line. rb2_fnew_line. rb2_freg_line. rb2_qall_line.
  rb2_core_line. rb2_core_line. rb2_core_line. rb2_qall_line. rb2_freg_line. rb2_core_line. rb2_qall_line. exact I.
Qed.

Fixpoint rb2_outs_of (s : W) (os : list op) : list (option (list Z)) :=
  match os with [] => [] | o :: t => rb_out (step_op false o s) :: rb2_outs_of (rb_next false o s) t end.

(** the two histories: same outcomes (the filter number differs by 1; the creation [OUNew [0;3]] without a target for the
    relation component 3 is rejected in both worlds; each QueryAll reports Count, number visited, entities), and the
    worlds are still similar at the end - with the filter registered in between, cached and uncached *)
Example rb2_example_outputs :
  rb2w_outs false 1 rb2_wA rb2_wB rb2_opsA rb2_opsB /\
  Sim2 1 (fst (rb2_run false rb2_wA rb2_opsA)) (fst (rb2_run false rb2_wB rb2_opsB)) /\
  rb2_outs_of rb2_wA rb2_opsA =
    [Some [2; 0]; Some [3; 0]; Some [4; 0]; Some [1]; Some []; Some [2; 2; 3; 0; 4; 0]; Some [1]; Some [0; 1]; Some [];
     Some [1; 1; 4; 0]; Some []; None; Some [1; 1; 4; 0]]%Z /\
  rb2_outs_of rb2_wB rb2_opsB =
    [Some [2; 0]; Some [3; 0]; Some [4; 0]; Some [0]; Some []; Some [2; 2; 3; 0; 4; 0]; Some [1]; Some [0; 1]; Some [];
     Some [1; 1; 4; 0]; Some []; None; Some [1; 1; 4; 0]]%Z.
Proof.
  destruct (rb2w_hist_sim false 1 rb2_opsA rb2_opsB rb2_wA rb2_wB rb2_example_sim2 rb2_example_hist) as (A & B).
  split; [exact B|]. split; [exact A|]. split; vm_compute; reflexivity.
Qed.

(** the core class with the results of GetRelation / Has / IDs (worlds of ResetBisim: handles shifted by 3) *)
Definition rb2_coreB : list op := [ONewEntity; OUNewRel [0;3] [(3,0%Z)]; OGetRel 1%Z 3; OHas 1%Z 3; OHas 1%Z 1; OIDs 1%Z; OGetRel 1%Z 0; OIDs 0%Z; OGetRel 0%Z 3].
Definition rb2_coreA : list op := [ONewEntity; OUNewRel [0;3] [(3,3%Z)]; OGetRel 4%Z 3; OHas 4%Z 3; OHas 4%Z 1; OIDs 4%Z; OGetRel 4%Z 0; OIDs 3%Z; OGetRel 3%Z 3].

Ltac rb2_line := split; [apply rb_room_small; vm_compute; reflexivity|split; [reflexivity|split; [cbn [rb_op_rel]; repeat split; vm_compute; reflexivity|split; [rb_args|]]]].

Example rb2_example_core_hist : rb2_hist false rb_wA rb_wB rb2_coreA rb2_coreB.
Proof.
  unfold rb2_coreA, rb2_coreB. cbn [rb2_hist]. rb2_line.
  split; [apply rb_room_small; vm_compute; reflexivity|]. split; [reflexivity|].
  split; [cbn [rb_op_rel]; split; [reflexivity|constructor; [split; [reflexivity|vm_compute; reflexivity]|constructor]]|].
  split.
  { split; [apply rb_registered_b; vm_compute; reflexivity|]. split.
    - intros h Hin. cbn in Hin. destruct Hin as [<-|[]]. intros x Hx _. vm_compute in Hx. injection Hx as <-. vm_compute. reflexivity.
    - cbn [rb_rels_valid]. intros rels Hr. vm_compute in Hr. injection Hr as <-.
      split; [cbn; constructor; [intros []|constructor]|].
      split; intros r Hin; cbn in Hin; destruct Hin as [<-|[]]; [split; [cbn; tauto|vm_compute; reflexivity]|right; vm_compute; reflexivity]. }
  do 7 rb2_line. exact I.
Qed.

Example rb2_example_core_outputs :
  snd (rb2_run false rb_wA rb2_coreA) = snd (rb2_run false rb_wB rb2_coreB) /\
  snd (rb2_run false rb_wB rb2_coreB) =
    [Some [2; 0]; Some [3; 0]; Some [2; 0]; Some [1]; Some [0]; Some [0; 3]; Some [0; 0]; Some []; None]%Z.
Proof.
  split; [apply (rb2_hist_sim false rb2_coreA rb2_coreB rb_wA rb_wB rb_example_sim rb2_example_core_hist)|vm_compute; reflexivity].
Qed.

(** malformed relation lists (outside [r2a_rels_ok]: a relation component named twice, a plain component or a relation
    component that is not added named, a dead target): NOT covered by the theorems; on this sample of 11 malformed
    creation calls the two worlds still agree call by call (evidence only - no refutation was found) *)
Definition rb2_malformed (k : Z) : list op :=
  [ONewEntity; ONewEntity; ONewEntity; ORemoveEntity (k+2)%Z;
   OUNewRel [0;3] [(3,k);(3,(k+1)%Z)]; OUNewRel [0;3] [(0,k);(3,k)]; OUNewRel [0] [(0,k)]; OUNewRel [0;3] [(3,(k+2)%Z)];
   OUNewRel [0;3] [(4,k);(3,k)]; OUNewRel [0;3] [(3,k);(4,k)]; OUNewRel [0;3;4] [(3,k);(3,(k+1)%Z);(4,k)];
   OUNewRel [0;3] [(3,k);(3,k)]; OUNewRel [1;4] [(4,k);(4,(k+2)%Z)]; OUNewRel [1;4] [(4,(k+2)%Z);(4,k)];
   OUNewRel [1;3] [(3,k);(0,(k+2)%Z)]].

Example rb2_malformed_sample : rb2_outs_of rb2_wA (rb2_malformed 4) = rb2_outs_of rb2_wB (rb2_malformed 0).
Proof. vm_compute. reflexivity. Qed.

Definition rb2_all := (rb2_comps_eq, rb2_s_OHas, rb2_s_OGetRel, rb2_s_OIDs, rb2_step_strong, rb2_args_transfer, rb2_step_sim, rb2_hist_sim,
  rb2_hist_of_rb, rb_hist_of_rb2, rb2_C16_core, rb2_matches_eq, rb2_query_open_perm, rb2_query_count_eq, rb2_open_kind, rb2_s_OQueryAll,
  rb2_s_OQueryOpen, rb2_s_OFilterNew, rb2_wide_step, rb2w_hist_sim, rb2_reset_sim2, rb2_C16_wide,
  rb2_example_core_hist, rb2_example_core_outputs, rb2_example_retained, rb2_example_sim2, rb2_example_hist, rb2_example_outputs, rb2_malformed_sample).
Print Assumptions rb2_all.
