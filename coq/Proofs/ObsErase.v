(** * ObsErase: erasure of the observer side state, and the operations of the relation tier commuting with it.
    Helper prefix [oe_].

    [oe_E s] is [s] with the observer manager emptied (no observer object, no list, no aggregate, fresh
    id pool), the callback log cleared and the lock replaced by a fresh one. Every storage field (entities,
    tables, archetypes, pool, index, filters, cache, queries, issued handles, ...) is kept.

    - Part 1: [oe_hom m1 m2]: running [m1] on the erased state is the erasure of running [m2] (same
      outcome, same value) - the homomorphism framework of BuildEquiv ([be_hom]) for the erasure; it
      holds for every computation that contains neither an event dispatch nor [check_locked].
    - Part 2: event dispatch: [oe_tail m]: on a real world [m] changes nothing but the observer side state
      (it may fail inside a callback), on an erased world it is a no-op returning the same value.
    - Part 3: a pointwise simulation judgement [oe_J C m1 m2 s] that combines both and follows a structural
      operation through its [check_locked], its storage part and its dispatches:
        real run Ok a s'    -> erased run Ok a (oe_E s')
        real run Err e s'   -> oe_E s' is the final state of the erased run (the real run failed where the
                               erased one fails, or inside a callback AFTER the storage part), or [C (oe_E s')]:
                               the real run failed inside a callback that runs BEFORE / IN THE MIDDLE of the
                               storage part ([C] names the erased state at that point).
    - Part 4: the structural operations of the class [rel_core_op], one lemma each; the truncated computations
      [oe_pre_remove] / [oe_pre_exchange] / [oe_pre_setrel] name the cut states of Remove / Exchange / SetRelations
      (the removal events are fired between the table lookup and the move).
    - Part 5: Write, filter creation, Register, Unregister commute with the erasure ([oe_hom_step_op]).
    - Part 6: the observer operations (New, Register, Unregister, Emit) are confined to the side state ([oe_sp_obs_op]).
    - Part 7: [oe_step_op]: the summary for the structural operations, with the cut states [oe_cut].
    - Part 8: the strict judgement [oe_JS] (no failure after the storage part): RemoveEntity ([oe_opS_ORemoveEntity])
      and Reset ([oe_opS_OReset]; [reset_observers] never fails).
    - Part 9: [oe_run_callback_err]: the only ways a callback can fail.

    Nothing here depends on an invariant: every statement holds for EVERY world state, every observer object
    (any [o_cb]) and both outcomes. *)
From Ark Require Import Model.Base Model.Mask Model.Pool Model.Util Model.World Model.Run.
From Ark Require Import Proofs.MaskProofs Proofs.StorageA Proofs.LockWorld Proofs.StorageB_sb1 Proofs.StorageB_sb2 Proofs.StorageC Proofs.RelProofs Proofs.ResetShrinkProofs Proofs.QueryProofs Proofs.BuildEquiv.
From RecordUpdate Require Import RecordSet.
Import RecordSetNotations.
From Coq Require Import Lia.

(* ================================================================================================ *)
(** * Part 1: the erasure and the homomorphism framework *)

Definition oe_E (s : W) : W :=
  {| w_cfg := w_cfg s; w_reg := w_reg s; w_pool := w_pool s; w_index := w_index s; w_istarget := w_istarget s;
     w_archs := w_archs s; w_tables := w_tables s; w_relarchs := w_relarchs s; w_compindex := w_compindex s;
     w_archcount := w_archcount s; w_version := w_version s; w_cheap := w_cheap s; w_centries := w_centries s;
     w_cpool := w_cpool s; w_lock := lock_new; w_obs := []; w_olists := []; w_oagg := []; w_opool := ipool_new;
     w_ototal := 0; w_omax := 0; w_filters := w_filters s; w_queries := w_queries s; w_res := w_res s;
     w_issued := w_issued s; w_log := [] |}.

Definition oe_rmap {A} (r : res W A) : res W A :=
  match r with Ok a s => Ok a (oe_E s) | Err e s => Err e (oe_E s) end.

Lemma oe_E_idem : forall s, oe_E (oe_E s) = oe_E s.
Proof. intros s. reflexivity. Qed.

Lemma oe_E_noobs : forall s ev, has_obs (oe_E s) ev = false.
Proof. intros s ev. reflexivity. Qed.

Lemma oe_E_unlocked : forall s, is_locked (oe_E s) = false.
Proof. intros s. reflexivity. Qed.

Lemma oe_E_storage : forall s, storage_same s (oe_E s).
Proof. intros s. unfold storage_same. repeat split. Qed.

Lemma oe_E_of_storage_same : forall s s', storage_same s s' -> oe_E s' = oe_E s.
Proof.
  intros s s' (E1 & E2 & E3 & E4 & E5 & E6 & E7 & E8 & E9 & E10 & E11 & E12 & E13 & E14 & E15 & E16 & E17 & E18).
  destruct s, s'; cbn in *; subst; reflexivity.
Qed.

(** [oe_hom m1 m2]: [m1] on the erased state is the erasure of [m2] on the state. *)
Definition oe_hom {A} (m1 m2 : MW A) : Prop := forall s, m1 (oe_E s) = oe_rmap (m2 s).

Lemma oe_hom_ret : forall A (a b : A), a = b -> oe_hom (ret a) (ret b).
Proof. intros A a b -> s. reflexivity. Qed.
Lemma oe_hom_fail : forall A e, oe_hom (@fail W A e) (fail e).
Proof. intros A e s. reflexivity. Qed.
Lemma oe_hom_bind : forall A B (m1 m2 : MW A) (k1 k2 : A -> MW B),
  oe_hom m1 m2 -> (forall a, oe_hom (k1 a) (k2 a)) -> oe_hom (bind m1 k1) (bind m2 k2).
Proof.
  intros A B m1 m2 k1 k2 Hm Hk s. unfold bind. rewrite (Hm s). destruct (m2 s) as [a s1|e s1]; cbn [oe_rmap]; [apply Hk|reflexivity].
Qed.
Lemma oe_hom_get_bind : forall B (k1 k2 : W -> MW B),
  (forall s0, oe_hom (k1 (oe_E s0)) (k2 s0)) -> oe_hom (bind get k1) (bind get k2).
Proof. intros B k1 k2 H s. unfold bind, get. apply H. Qed.
Lemma oe_hom_put : forall t1 t2, t1 = oe_E t2 -> oe_hom (put t1) (put t2).
Proof. intros t1 t2 -> s. reflexivity. Qed.
Lemma oe_hom_modify : forall f1 f2 : W -> W, (forall s, f1 (oe_E s) = oe_E (f2 s)) -> oe_hom (modify f1) (modify f2).
Proof. intros f1 f2 H s. unfold modify. cbn [oe_rmap]. rewrite H. reflexivity. Qed.
Lemma oe_hom_guard : forall b1 b2 e, b1 = b2 -> oe_hom (guard b1 e) (guard b2 e).
Proof. intros b1 b2 e -> s. destruct b2; reflexivity. Qed.
Lemma oe_hom_of_opt : forall A (o1 o2 : option A) e, o1 = o2 -> oe_hom (of_opt o1 e) (of_opt o2 e).
Proof. intros A o1 o2 e -> s. destruct o2; reflexivity. Qed.
Lemma oe_hom_whenM : forall b1 b2 m1 m2, b1 = b2 -> oe_hom m1 m2 -> oe_hom (whenM b1 m1) (whenM b2 m2).
Proof. intros b1 b2 m1 m2 -> H. destruct b2; cbn [whenM]; [exact H|apply oe_hom_ret; reflexivity]. Qed.
Lemma oe_hom_forM : forall A (l1 l2 : list A) (f1 f2 : A -> MW unit), l1 = l2 ->
  (forall x, oe_hom (f1 x) (f2 x)) -> oe_hom (forM_ l1 f1) (forM_ l2 f2).
Proof.
  intros A l1 l2 f1 f2 -> H. induction l2 as [|x l IH]; cbn [forM_]; [apply oe_hom_ret; reflexivity|].
  apply oe_hom_bind; [apply H|intros _; exact IH].
Qed.
Lemma oe_hom_mapM : forall A B (l1 l2 : list A) (f1 f2 : A -> MW B), l1 = l2 ->
  (forall x, oe_hom (f1 x) (f2 x)) -> oe_hom (mapM l1 f1) (mapM l2 f2).
Proof.
  intros A B l1 l2 f1 f2 -> H. induction l2 as [|x l IH]; cbn [mapM]; [apply oe_hom_ret; reflexivity|].
  apply oe_hom_bind; [apply H|intros y]. apply oe_hom_bind; [exact IH|intros ys]. apply oe_hom_ret. reflexivity.
Qed.
(** state-reading functions written as [fun s => ...] that return the state unchanged *)
Lemma oe_hom_pure : forall A (g : W -> res W A), (forall s, g (oe_E s) = oe_rmap (g s)) -> oe_hom g g.
Proof. intros A g H s. apply H. Qed.

(** Normalisation of the projections of an erased state. *)
Ltac oe_E_norm s0 :=
  change (w_cfg (oe_E s0)) with (w_cfg s0);
  change (w_reg (oe_E s0)) with (w_reg s0);
  change (w_pool (oe_E s0)) with (w_pool s0);
  change (w_index (oe_E s0)) with (w_index s0);
  change (w_istarget (oe_E s0)) with (w_istarget s0);
  change (w_archs (oe_E s0)) with (w_archs s0);
  change (w_tables (oe_E s0)) with (w_tables s0);
  change (w_relarchs (oe_E s0)) with (w_relarchs s0);
  change (w_compindex (oe_E s0)) with (w_compindex s0);
  change (w_archcount (oe_E s0)) with (w_archcount s0);
  change (w_version (oe_E s0)) with (w_version s0);
  change (w_cheap (oe_E s0)) with (w_cheap s0);
  change (w_centries (oe_E s0)) with (w_centries s0);
  change (w_cpool (oe_E s0)) with (w_cpool s0);
  change (w_filters (oe_E s0)) with (w_filters s0);
  change (w_queries (oe_E s0)) with (w_queries s0);
  change (w_res (oe_E s0)) with (w_res s0);
  change (w_issued (oe_E s0)) with (w_issued s0);
  change (alive (oe_E s0)) with (alive s0);
  change (is_rel_comp (oe_E s0)) with (is_rel_comp s0);
  change (kind_of (oe_E s0)) with (kind_of s0);
  change (find_arch (oe_E s0)) with (find_arch s0);
  change (handle (oe_E s0)) with (handle s0).

Ltac oe_hom_step :=
  lazymatch goal with
  | |- oe_hom (let x := _ in _) (let y := _ in _) => cbv zeta
  | |- oe_hom (ret _) (ret _) => apply oe_hom_ret; reflexivity
  | |- oe_hom (fail _) (fail _) => apply oe_hom_fail
  | |- oe_hom (guard _ _) (guard _ _) => apply oe_hom_guard; reflexivity
  | |- oe_hom (of_opt _ _) (of_opt _ _) => apply oe_hom_of_opt; reflexivity
  | |- oe_hom (put _) (put _) => apply oe_hom_put; reflexivity
  | |- oe_hom (modify _) (modify _) => apply oe_hom_modify; intros ?; reflexivity
  | |- oe_hom (whenM _ _) (whenM _ _) => apply oe_hom_whenM; [reflexivity|]
  | |- oe_hom (forM_ _ _) (forM_ _ _) => apply oe_hom_forM; [reflexivity|intros ?]
  | |- oe_hom (mapM _ _) (mapM _ _) => apply oe_hom_mapM; [reflexivity|intros ?]
  | |- oe_hom (bind get _) (bind get _) =>
      apply oe_hom_get_bind; let s0 := fresh "s0" in intros s0; cbv beta; oe_E_norm s0
  | |- oe_hom (bind _ _) (bind _ _) => apply oe_hom_bind; [|intros ?]
  | |- oe_hom (match ?x with _ => _ end) (match ?y with _ => _ end) => change x with y; destruct y
  end.
Ltac oe_hom_tac := repeat oe_hom_step.

Create HintDb oe_hom discriminated.
Ltac oe_auto := repeat first [oe_hom_step | solve [auto 2 with oe_hom nocore]].

Lemma oe_hom_getT : forall i, oe_hom (getT i) (getT i).
Proof. intros. unfold getT. oe_hom_tac. Qed.
Lemma oe_hom_modT : forall i f, oe_hom (modT i f) (modT i f).
Proof. intros. unfold modT. oe_hom_tac. Qed.
Lemma oe_hom_setT : forall i t, oe_hom (setT i t) (setT i t).
Proof. intros. unfold setT. apply oe_hom_modT. Qed.
Lemma oe_hom_getA : forall i, oe_hom (getA i) (getA i).
Proof. intros. unfold getA. oe_hom_tac. Qed.
Lemma oe_hom_modA : forall i f, oe_hom (modA i f) (modA i f).
Proof. intros. unfold modA. oe_hom_tac. Qed.
#[export] Hint Resolve oe_hom_getT oe_hom_modT oe_hom_setT oe_hom_getA oe_hom_modA : oe_hom.

(** ** The storage primitives *)

Lemma oe_hom_cache_add_table : forall tid t am, oe_hom (cache_add_table tid t am) (cache_add_table tid t am).
Proof. intros. unfold cache_add_table. oe_auto. Qed.
Lemma oe_hom_cache_remove_table : forall tid, oe_hom (cache_remove_table tid) (cache_remove_table tid).
Proof. intros. unfold cache_remove_table. oe_auto. Qed.
Lemma oe_hom_create_archetype_bare : forall m, oe_hom (create_archetype_bare m) (create_archetype_bare m).
Proof. intros. unfold create_archetype_bare. oe_auto. Qed.
Lemma oe_hom_check_rel : forall r, oe_hom (check_rel r) (check_rel r).
Proof. intros. unfold check_rel. oe_auto. Qed.
Lemma oe_hom_register_targets : forall rels, oe_hom (register_targets rels) (register_targets rels).
Proof. intros. unfold register_targets. oe_auto. Qed.
#[export] Hint Resolve oe_hom_cache_add_table oe_hom_cache_remove_table oe_hom_create_archetype_bare oe_hom_check_rel
  oe_hom_register_targets : oe_hom.

Lemma oe_find_exact_E : forall s tabs rels, find_exact (oe_E s) tabs rels = oe_rmap (find_exact s tabs rels).
Proof.
  intros s tabs rels. induction tabs as [|t rest IH]; cbn [find_exact]; [reflexivity|].
  change (w_tables (oe_E s)) with (w_tables s).
  destruct (nth_error (w_tables s) t) as [tb|]; [|reflexivity].
  destruct (tbl_matches_exact tb rels); [reflexivity|exact IH|reflexivity].
Qed.
Lemma oe_hom_find_exact : forall tabs rels, oe_hom (fun s => find_exact s tabs rels) (fun s => find_exact s tabs rels).
Proof. intros tabs rels s. apply oe_find_exact_E. Qed.
#[export] Hint Resolve oe_hom_find_exact : oe_hom.

Lemma oe_hom_arch_get_table : forall a rels, oe_hom (arch_get_table a rels) (arch_get_table a rels).
Proof. intros. unfold arch_get_table. oe_auto. Qed.
#[export] Hint Resolve oe_hom_arch_get_table : oe_hom.

Lemma oe_hom_create_table : forall aid rels, oe_hom (create_table aid rels) (create_table aid rels).
Proof. intros. unfold create_table. oe_auto. Qed.
#[export] Hint Resolve oe_hom_create_table : oe_hom.
Lemma oe_hom_create_archetype : forall m, oe_hom (create_archetype m) (create_archetype m).
Proof. intros. unfold create_archetype. oe_auto. Qed.
#[export] Hint Resolve oe_hom_create_archetype : oe_hom.
Lemma oe_hom_find_or_create_arch : forall m, oe_hom (find_or_create_arch m) (find_or_create_arch m).
Proof. intros. unfold find_or_create_arch. oe_auto. Qed.
Lemma oe_hom_get_or_create_table : forall aid rels, oe_hom (get_or_create_table aid rels) (get_or_create_table aid rels).
Proof. intros. unfold get_or_create_table. oe_auto. Qed.
#[export] Hint Resolve oe_hom_find_or_create_arch oe_hom_get_or_create_table : oe_hom.

Lemma oe_hom_gf_remove : forall ids m, oe_hom (gf_remove ids m) (gf_remove ids m).
Proof.
  intros ids. induction ids as [|c t IH]; intros m; cbn [gf_remove]; [apply oe_hom_ret; reflexivity|].
  destruct (mk_get m c); [apply IH|apply oe_hom_fail].
Qed.
Lemma oe_hom_gf_add : forall st ids m, oe_hom (gf_add st ids m) (gf_add st ids m).
Proof.
  intros st ids. induction ids as [|c t IH]; intros m; cbn [gf_add]; [apply oe_hom_ret; reflexivity|].
  destruct (mk_get m c); [apply oe_hom_fail|]. destruct (match st with Some st0 => mk_get st0 c | None => false end); [apply oe_hom_fail|apply IH].
Qed.
#[export] Hint Resolve oe_hom_gf_remove oe_hom_gf_add : oe_hom.

Lemma oe_hom_find_add : forall old add rels m0, oe_hom (find_or_create_table_add old add rels m0) (find_or_create_table_add old add rels m0).
Proof. intros. unfold find_or_create_table_add. oe_auto. Qed.
Lemma oe_hom_find_remove : forall old rem m0, oe_hom (find_or_create_table_remove old rem m0) (find_or_create_table_remove old rem m0).
Proof. intros. unfold find_or_create_table_remove. oe_auto. Qed.
Lemma oe_hom_find_exchange : forall old add rem rels m0, oe_hom (find_or_create_table old add rem rels m0) (find_or_create_table old add rem rels m0).
Proof. intros. unfold find_or_create_table. oe_auto. Qed.
#[export] Hint Resolve oe_hom_find_add oe_hom_find_remove oe_hom_find_exchange : oe_hom.

Lemma oe_hom_set_index : forall id v, oe_hom (set_index id v) (set_index id v).
Proof.
  intros id v. unfold set_index. apply oe_hom_modify. intros s. change (w_index (oe_E s)) with (w_index s).
  destruct (Nat.eqb id (length (w_index s))); reflexivity.
Qed.
Lemma oe_hom_get_index : forall e, oe_hom (get_index e) (get_index e).
Proof. intros. unfold get_index. oe_auto. Qed.
Lemma oe_hom_pool_getM : oe_hom pool_getM pool_getM.
Proof. unfold pool_getM. oe_auto. Qed.
Lemma oe_hom_pool_recycleM : forall e, oe_hom (pool_recycleM e) (pool_recycleM e).
Proof. intros. unfold pool_recycleM. oe_auto. Qed.
Lemma oe_hom_tbl_addM : forall tid e, oe_hom (tbl_addM tid e) (tbl_addM tid e).
Proof. intros. unfold tbl_addM. oe_auto. Qed.
Lemma oe_hom_remove_row : forall tid row, oe_hom (remove_row tid row) (remove_row tid row).
Proof. intros. unfold remove_row. oe_auto. Qed.
Lemma oe_hom_copy_row : forall old new m row nidx, oe_hom (copy_row old new m row nidx) (copy_row old new m row nidx).
Proof. intros. unfold copy_row. oe_auto. Qed.
Lemma oe_hom_copy_all : forall src dst row nidx, oe_hom (copy_all src dst row nidx) (copy_all src dst row nidx).
Proof. intros. unfold copy_all. oe_auto. Qed.
Lemma oe_hom_move_entities : forall src dst n, oe_hom (move_entities src dst n) (move_entities src dst n).
Proof. intros. unfold move_entities. oe_auto. Qed.
Lemma oe_hom_set_index_direct : forall e tid row, oe_hom (set_index_direct e tid row) (set_index_direct e tid row).
Proof. intros. unfold set_index_direct. oe_auto. Qed.
Lemma oe_hom_arch_mask : forall tid, oe_hom (arch_mask_of_table tid) (arch_mask_of_table tid).
Proof. intros. unfold arch_mask_of_table. oe_auto. Qed.
Lemma oe_hom_free_table : forall aid tid, oe_hom (free_table aid tid) (free_table aid tid).
Proof. intros. unfold free_table. oe_auto. Qed.
#[export] Hint Resolve oe_hom_set_index oe_hom_get_index oe_hom_pool_getM oe_hom_pool_recycleM oe_hom_tbl_addM oe_hom_remove_row
  oe_hom_copy_row oe_hom_copy_all oe_hom_move_entities oe_hom_set_index_direct oe_hom_arch_mask oe_hom_free_table : oe_hom.

(** computations that do not look at the state at all *)
Definition oe_const {A} (m : MW A) : Prop :=
  forall s t, match m s with Ok a s' => s' = s /\ m t = Ok a t | Err e s' => s' = s /\ m t = Err e t end.
Lemma oe_hom_const : forall A (m : MW A), oe_const m -> oe_hom m m.
Proof.
  intros A m H s. specialize (H s (oe_E s)). destruct (m s) as [a s'|e s']; destruct H as (-> & ->); reflexivity.
Qed.
Lemma oe_const_ret : forall A (a : A), oe_const (ret a).
Proof. intros A a s t. split; reflexivity. Qed.
Lemma oe_const_fail : forall A e, oe_const (@fail W A e).
Proof. intros A e s t. split; reflexivity. Qed.
Lemma oe_const_bind : forall A B (m : MW A) (k : A -> MW B), oe_const m -> (forall a, oe_const (k a)) -> oe_const (bind m k).
Proof.
  intros A B m k Hm Hk s t. unfold bind. specialize (Hm s t). destruct (m s) as [a s'|e s']; destruct Hm as (-> & ->).
  - apply Hk.
  - split; reflexivity.
Qed.

Lemma oe_const_etu_go : forall (t : table) rels tg,
  oe_const ((fix go (rels : list rel) (tg : list ent) : MW (list ent) :=
               match rels with
               | [] => ret tg
               | (c, x) :: rest => match tbl_colidx t c with Some i => go rest (upd i x tg) | None => fail ENil end
               end) rels tg).
Proof.
  intros t rels. induction rels as [|[c x] rest IH]; intros tg; [apply oe_const_ret|].
  destruct (tbl_colidx t c); [apply IH|apply oe_const_fail].
Qed.
Lemma oe_hom_etu : forall t rels, oe_hom (exchange_targets_unchecked t rels) (exchange_targets_unchecked t rels).
Proof.
  intros t rels. apply oe_hom_const. unfold exchange_targets_unchecked.
  apply oe_const_bind; [apply oe_const_etu_go|]. intros tg. apply oe_const_ret.
Qed.
#[export] Hint Resolve oe_hom_etu : oe_hom.

Lemma oe_const_xgo : forall t rels tg cm ch, oe_const (rl_xgo t rels tg cm ch).
Proof.
  intros t rels. induction rels as [|[c x] rest IH]; intros tg cm ch; cbn [rl_xgo]; [apply oe_const_ret|]. fold (rl_xgo t).
  destruct (tbl_colidx t c) as [i|]; [|apply oe_const_fail]. destruct (negb _); [apply oe_const_fail|].
  destruct (nth_error tg i) as [cur|]; [|apply oe_const_fail]. destruct (ent_eqb x cur); apply IH.
Qed.
Lemma oe_hom_exchange_targets : forall t rels, oe_hom (exchange_targets t rels) (exchange_targets t rels).
Proof.
  intros t rels. apply oe_hom_const. rewrite rl_exchange_targets_unfold.
  apply oe_const_bind; [destruct (rels_distinct rels); [apply oe_const_ret|apply oe_const_fail]|]. intros _.
  apply oe_const_bind; [apply oe_const_xgo|]. intros [[tg cm] ch]. destruct (negb ch); apply oe_const_ret.
Qed.
#[export] Hint Resolve oe_hom_exchange_targets : oe_hom.

Lemma oe_hom_create_entity : forall tid, oe_hom (create_entity tid) (create_entity tid).
Proof. intros. unfold create_entity. oe_auto. Qed.
Lemma oe_hom_cleanup : forall e, oe_hom (cleanup_archetypes e) (cleanup_archetypes e).
Proof. intros. unfold cleanup_archetypes. oe_auto. Qed.
Lemma oe_hom_resolveH : forall h, oe_hom (resolveH h) (resolveH h).
Proof. intros. unfold resolveH. oe_auto. Qed.
#[export] Hint Resolve oe_hom_create_entity oe_hom_cleanup oe_hom_resolveH : oe_hom.
Lemma oe_hom_resolveR : forall rels, oe_hom (resolveR rels) (resolveR rels).
Proof. intros. unfold resolveR. oe_auto. Qed.
#[export] Hint Resolve oe_hom_resolveR : oe_hom.

(** ** [check_locked]: the erased world is never locked, so a computation that starts with the lock check
    commutes with the erasure only from an unlocked state. *)
Definition oe_homL {A} (m1 m2 : MW A) : Prop := forall s, is_locked s = false -> m1 (oe_E s) = oe_rmap (m2 s).

Lemma oe_homL_check : forall A (k1 k2 : MW A), oe_hom k1 k2 -> oe_homL (check_locked ;;; k1) (check_locked ;;; k2).
Proof.
  intros A k1 k2 H s Hl. rewrite (sa_bind_ok (sb1_check_locked_ok s Hl)).
  rewrite (sa_bind_ok (sb1_check_locked_ok (oe_E s) (oe_E_unlocked s))). apply H.
Qed.

Lemma oe_homL_new_entity : forall ids rels, oe_homL (new_entity ids rels) (new_entity ids rels).
Proof. intros. unfold new_entity. apply oe_homL_check. oe_auto. Qed.
Lemma oe_homL_w_add : forall e add rels, oe_homL (w_add e add rels) (w_add e add rels).
Proof. intros. unfold w_add. apply oe_homL_check. oe_auto. Qed.

(* ================================================================================================ *)
(** * Part 2 and 3: event dispatch, and the pointwise simulation judgement *)

(** the erasure identifies exactly the states with the same storage *)
Lemma oe_E_sp : forall A (m : MW A) s, sa_sp m -> oe_E (state_of (m s)) = oe_E s.
Proof. intros A m s H. apply oe_E_of_storage_same. apply H. Qed.

Definition oe_res {A} (C : W -> Prop) (r re : res W A) : Prop :=
  match r with
  | Ok a s' => re = Ok a (oe_E s')
  | Err e s' => oe_E s' = state_of re \/ C (oe_E s')
  end.

(** [oe_J C m1 m2 s]: the run of [m2] from the real state [s] against the run of [m1] from the erased state *)
Definition oe_J {A} (C : W -> Prop) (m1 m2 : MW A) (s : W) : Prop := oe_res C (m2 s) (m1 (oe_E s)).

Lemma oe_J_hom : forall A C (m1 m2 : MW A) s, oe_hom m1 m2 -> oe_J C m1 m2 s.
Proof.
  intros A C m1 m2 s H. unfold oe_J. rewrite (H s). destruct (m2 s) as [a s'|e s']; cbn [oe_res oe_rmap state_of]; [reflexivity|left; reflexivity].
Qed.

Lemma oe_J_homL : forall A C (m1 m2 : MW A) s, oe_homL m1 m2 -> is_locked s = false -> oe_J C m1 m2 s.
Proof.
  intros A C m1 m2 s H Hl. unfold oe_J. rewrite (H s Hl). destruct (m2 s) as [a s'|e s']; cbn [oe_res oe_rmap state_of]; [reflexivity|left; reflexivity].
Qed.

Lemma oe_J_bind : forall A B C (m1 m2 : MW A) (k1 k2 : A -> MW B) s, oe_hom m1 m2 ->
  (forall a s1, m2 s = Ok a s1 -> oe_J C (k1 a) (k2 a) s1) -> oe_J C (bind m1 k1) (bind m2 k2) s.
Proof.
  intros A B C m1 m2 k1 k2 s H Hk. unfold oe_J, bind. rewrite (H s).
  destruct (m2 s) as [a s1|e s1]; cbn [oe_rmap]; [apply (Hk a s1 eq_refl)|]. cbn [oe_res state_of]. left. reflexivity.
Qed.

Lemma oe_J_bindL : forall A B C (m1 m2 : MW A) (k1 k2 : A -> MW B) s, oe_homL m1 m2 -> is_locked s = false ->
  (forall a s1, m2 s = Ok a s1 -> oe_J C (k1 a) (k2 a) s1) -> oe_J C (bind m1 k1) (bind m2 k2) s.
Proof.
  intros A B C m1 m2 k1 k2 s H Hl Hk. unfold oe_J, bind. rewrite (H s Hl).
  destruct (m2 s) as [a s1|e s1]; cbn [oe_rmap]; [apply (Hk a s1 eq_refl)|]. cbn [oe_res state_of]. left. reflexivity.
Qed.

(** a readonly head keeps the state (and with it what is known about its lock) *)
Lemma oe_J_bind_ro : forall A B C (m1 m2 : MW A) (k1 k2 : A -> MW B) s, oe_hom m1 m2 -> readonly m2 ->
  (forall a, m2 s = Ok a s -> oe_J C (k1 a) (k2 a) s) -> oe_J C (bind m1 k1) (bind m2 k2) s.
Proof.
  intros A B C m1 m2 k1 k2 s H Hro Hk. apply oe_J_bind; [exact H|]. intros a s1 E.
  pose proof (Hro s) as Hs. rewrite E in Hs. cbn [state_of] in Hs. subst s1. apply Hk. exact E.
Qed.

Lemma oe_J_getbind : forall B C (k1 k2 : W -> MW B) s, oe_J C (k1 (oe_E s)) (k2 s) s -> oe_J C (bind get k1) (bind get k2) s.
Proof. intros B C k1 k2 s H. exact H. Qed.

Lemma oe_J_check : forall A C (k1 k2 : MW A) s, is_locked s = false -> oe_J C k1 k2 s ->
  oe_J C (check_locked ;;; k1) (check_locked ;;; k2) s.
Proof.
  intros A C k1 k2 s Hl H. unfold oe_J. rewrite (sa_bind_ok (sb1_check_locked_ok s Hl)).
  rewrite (sa_bind_ok (sb1_check_locked_ok (oe_E s) (oe_E_unlocked s))). exact H.
Qed.

(** A dispatch (or any computation confined to the side state on the real world, a no-op on the erased one)
    at the END of the operation: the continuation is a no-op on the erased world as well. *)
Lemma oe_J_tail : forall A C (m1 m2 : MW A) s, sa_sp m2 ->
  (exists a, m1 (oe_E s) = Ok a (oe_E s) /\ forall a' s', m2 s = Ok a' s' -> a' = a) -> oe_J C m1 m2 s.
Proof.
  intros A C m1 m2 s Hsp (a & E1 & Hv). unfold oe_J. pose proof (oe_E_sp _ m2 s Hsp) as Hs.
  destruct (m2 s) as [a' s'|e s'] eqn:E2; cbn [state_of] in Hs; cbn [oe_res].
  - rewrite (Hv a' s' eq_refl), Hs. exact E1.
  - left. rewrite E1, Hs. reflexivity.
Qed.

(** A dispatch followed by a continuation: if a callback fails, the storage is what it was when the dispatch
    began: the cut state [C], unless the rest of the operation is a no-op on the erased world. *)
Lemma oe_J_fire : forall A B C (f1 : MW A) (f2 : MW A) (k1 k2 : A -> MW B) s x, sa_sp f2 ->
  f1 (oe_E s) = Ok x (oe_E s) ->
  (C (oe_E s) \/ exists b, k1 x (oe_E s) = Ok b (oe_E s)) ->
  (forall a s1, f2 s = Ok a s1 -> oe_E s1 = oe_E s -> oe_J C (k1 x) (k2 a) s1) ->
  oe_J C (bind f1 k1) (bind f2 k2) s.
Proof.
  intros A B C f1 f2 k1 k2 s x Hsp E1 Hc Hk. unfold oe_J. rewrite (sa_bind_ok E1).
  pose proof (oe_E_sp _ f2 s Hsp) as Hs. unfold bind at 1.
  destruct (f2 s) as [a s1|e s1] eqn:E2; cbn [state_of] in Hs.
  - specialize (Hk a s1 eq_refl Hs). unfold oe_J in Hk. rewrite Hs in Hk. exact Hk.
  - cbn [oe_res]. rewrite Hs. destruct Hc as [Hc|(b & Eb)]; [right; exact Hc|left; rewrite Eb; reflexivity].
Qed.

(** the dispatch helpers of the single-entity operations *)
Lemma oe_sp_fire_create : forall e m, sa_sp (fire_create_entity_if_has e m).
Proof. intros e m s. apply fire_create_entity_if_has_storage. Qed.
Lemma oe_sp_fire_create_rel : forall e m, sa_sp (fire_create_entity_rel_if_has e m).
Proof. intros e m. unfold fire_create_entity_rel_if_has, fire_create_entity_rel. sa_sp_tac; apply sa_sp_fire. Qed.
Lemma oe_sp_fire_add : forall evt e o n, sa_sp (fire_add_if_has evt e o n).
Proof. intros evt e o n s. apply fire_add_if_has_storage. Qed.
Lemma oe_sp_fire_remove_events : forall e o n rr, sa_sp (fire_remove_events e o n rr).
Proof. intros e o n rr s. apply fire_remove_events_storage. Qed.

Lemma oe_E_fire_create : forall e m s, fire_create_entity_if_has e m (oe_E s) = Ok tt (oe_E s).
Proof. reflexivity. Qed.
Lemma oe_E_fire_create_rel : forall e m s, fire_create_entity_rel_if_has e m (oe_E s) = Ok tt (oe_E s).
Proof. reflexivity. Qed.
Lemma oe_E_fire_add : forall evt e o n s, fire_add_if_has evt e o n (oe_E s) = Ok tt (oe_E s).
Proof. reflexivity. Qed.
Lemma oe_E_fire_remove_events : forall e o n rr s, fire_remove_events e o n rr (oe_E s) = Ok tt (oe_E s).
Proof. intros. unfold fire_remove_events. rewrite sb2_bind_get. cbn. rewrite Bool.andb_false_r. reflexivity. Qed.

(** [oe_tail m1 m2]: [m2] is confined to the side state, [m1] is a no-op on every erased world, with the value
    [m2] returns if it returns. *)
Definition oe_tail {A} (m1 m2 : MW A) : Prop :=
  sa_sp m2 /\ forall s, exists a, m1 (oe_E s) = Ok a (oe_E s) /\ forall a' s', m2 s = Ok a' s' -> a' = a.

Lemma oe_tail_ret : forall A (x : A), oe_tail (ret x) (ret x).
Proof. intros A x. split; [apply sa_sp_ret|]. intros s. exists x. split; [reflexivity|]. intros a' s' E. inversion E. reflexivity. Qed.

Lemma oe_tail_unit : forall (m1 m2 : MW unit), sa_sp m2 -> (forall s, m1 (oe_E s) = Ok tt (oe_E s)) -> oe_tail m1 m2.
Proof. intros m1 m2 H1 H2. split; [exact H1|]. intros s. exists tt. split; [apply H2|]. intros [] s' _. reflexivity. Qed.

Lemma oe_tail_bind : forall A B (m1 m2 : MW A) (k1 k2 : A -> MW B),
  oe_tail m1 m2 -> (forall a, oe_tail (k1 a) (k2 a)) -> oe_tail (bind m1 k1) (bind m2 k2).
Proof.
  intros A B m1 m2 k1 k2 (Hsp & Hm) Hk. split; [apply sa_sp_bind; [exact Hsp|intros a; apply (Hk a)]|].
  intros s. destruct (Hm s) as (a & E1 & Hv). destruct (proj2 (Hk a) s) as (b & E2 & _).
  exists b. split; [rewrite (sa_bind_ok E1); exact E2|].
  intros b' s'' E. unfold bind in E. destruct (m2 s) as [a' s1|e s1] eqn:Em; [|discriminate E].
  rewrite (Hv a' s1 eq_refl) in E. pose proof (oe_E_sp _ m2 s Hsp) as Hs. rewrite Em in Hs. cbn [state_of] in Hs.
  destruct (proj2 (Hk a) s1) as (b1 & E3 & Hv3). rewrite Hs, E2 in E3. inversion E3; subst b1. apply (Hv3 b' s'' E).
Qed.

Lemma oe_tail_whenM : forall b (m1 m2 : MW unit), oe_tail m1 m2 -> oe_tail (whenM b m1) (whenM b m2).
Proof. intros b m1 m2 H. destruct b; cbn [whenM]; [exact H|apply oe_tail_ret]. Qed.

Lemma oe_tail_fire_create : forall e m, oe_tail (fire_create_entity_if_has e m) (fire_create_entity_if_has e m).
Proof. intros. apply oe_tail_unit; [apply oe_sp_fire_create|intros; apply oe_E_fire_create]. Qed.
Lemma oe_tail_fire_create_rel : forall e m, oe_tail (fire_create_entity_rel_if_has e m) (fire_create_entity_rel_if_has e m).
Proof. intros. apply oe_tail_unit; [apply oe_sp_fire_create_rel|intros; apply oe_E_fire_create_rel]. Qed.
Lemma oe_tail_fire_add : forall evt e o n, oe_tail (fire_add_if_has evt e o n) (fire_add_if_has evt e o n).
Proof. intros. apply oe_tail_unit; [apply oe_sp_fire_add|intros; apply oe_E_fire_add]. Qed.

Ltac oe_tail_step :=
  lazymatch goal with
  | |- oe_tail (ret _) (ret _) => apply oe_tail_ret
  | |- oe_tail (whenM _ _) (whenM _ _) => apply oe_tail_whenM
  | |- oe_tail (fire_create_entity_if_has _ _) _ => apply oe_tail_fire_create
  | |- oe_tail (fire_create_entity_rel_if_has _ _) _ => apply oe_tail_fire_create_rel
  | |- oe_tail (fire_add_if_has _ _ _ _) _ => apply oe_tail_fire_add
  | |- oe_tail (bind _ _) (bind _ _) => apply oe_tail_bind; [|intros ?]
  end.
Ltac oe_tail_tac := repeat oe_tail_step.

Lemma oe_J_tail' : forall A C (m1 m2 : MW A) s, oe_tail m1 m2 -> oe_J C m1 m2 s.
Proof. intros A C m1 m2 s (H1 & H2). apply oe_J_tail; [exact H1|apply H2]. Qed.

(** a simulated computation followed by a tail *)
Lemma oe_J_bind_tail : forall A B C (m1 m2 : MW A) (k1 k2 : A -> MW B) s,
  oe_J C m1 m2 s -> (forall a, oe_tail (k1 a) (k2 a)) -> oe_J C (bind m1 k1) (bind m2 k2) s.
Proof.
  intros A B C m1 m2 k1 k2 s Hm Hk. unfold oe_J in *. unfold bind at 1.
  destruct (m2 s) as [a s1|e s1]; cbn [oe_res] in Hm.
  - rewrite (sa_bind_ok Hm). apply (oe_J_tail' _ C (k1 a) (k2 a) s1 (Hk a)).
  - cbn [oe_res]. destruct Hm as [Hm|Hm]; [left|right; exact Hm].
    unfold bind. destruct (m1 (oe_E s)) as [a u|e' u]; cbn [state_of] in Hm |- *; [|exact Hm].
    destruct (proj2 (Hk a) s1) as (b & Eb & _). rewrite <- Hm, Eb. reflexivity.
Qed.

Ltac oe_J_step :=
  lazymatch goal with
  | |- oe_J _ (let x := _ in _) (let y := _ in _) _ => cbv zeta
  | |- oe_J _ (bind get _) (bind get _) ?s => apply oe_J_getbind; cbv beta; oe_E_norm s
  | |- oe_J _ (bind check_locked _) (bind check_locked _) _ => apply oe_J_check; [assumption|]
  | |- oe_J _ (match ?x with _ => _ end) (match ?y with _ => _ end) _ => change x with y; destruct y
  | |- oe_J _ _ _ _ =>
      first [ apply oe_J_hom; solve [oe_auto]
            | apply oe_J_tail'; solve [oe_tail_tac]
            | apply oe_J_bind; [solve [oe_auto]|intros ? ? _] ]
  end.
Ltac oe_J_tac := repeat oe_J_step.

(* ================================================================================================ *)
(** * Part 4: the structural operations of the class [rel_core_op] *)

(** ** Shrink (no event is dispatched) *)
Lemma oe_hom_r_any1 : forall idx any t s0, oe_hom (r_any1 idx any t (oe_E s0)) (r_any1 idx any t s0).
Proof. intros. unfold r_any1. oe_E_norm s0. oe_auto. Qed.

Lemma oe_hom_r_go_clock : forall clock fuel idx any, oe_hom (r_go_clock clock fuel idx any) (r_go_clock clock fuel idx any).
Proof.
  intros clock fuel. induction fuel as [|f IH]; intros idx any; cbn [r_go_clock]; [apply oe_hom_ret; reflexivity|].
  apply oe_hom_bind; [apply oe_hom_getT|]. intros t. apply oe_hom_get_bind. intros s0.
  apply oe_hom_bind; [apply oe_hom_r_any1|]. intros any1.
  destruct (any1 && clock idx)%bool; [apply oe_hom_ret; reflexivity|].
  destruct f; [apply oe_hom_ret; reflexivity|apply IH].
Qed.

Lemma oe_hom_shrink_clock : forall clock, oe_hom (w_shrink_clock clock) (w_shrink_clock clock).
Proof.
  intros clock. rewrite r_shrink_unfold_clock. apply oe_hom_get_bind. intros s0. oe_E_norm s0.
  apply oe_hom_bind; [apply oe_hom_r_go_clock|]. intros [last any]. apply oe_hom_get_bind. intros s1.
  unfold r_work. oe_E_norm s1. apply oe_hom_ret. reflexivity.
Qed.

Lemma oe_homL_shrink : forall stop0, oe_homL (w_shrink stop0) (w_shrink stop0).
Proof. intros. unfold w_shrink. apply oe_homL_check. unfold w_shrink_core. apply oe_hom_shrink_clock. Qed.

Definition oe_none : W -> Prop := fun _ => False.

Lemma oe_op_OShrink : forall debug b0 s, is_locked s = false -> oe_J oe_none (step_op debug (OShrink b0)) (step_op debug (OShrink b0)) s.
Proof.
  intros debug b0 s Hl. cbn [step_op]. apply oe_J_homL; [|exact Hl].
  intros s0 Hl0. unfold bind. rewrite (oe_homL_shrink b0 s0 Hl0). destruct (w_shrink b0 s0); reflexivity.
Qed.

(** ** Creation *)
Lemma oe_op_ONewEntity : forall debug s, is_locked s = false -> oe_J oe_none (step_op debug ONewEntity) (step_op debug ONewEntity) s.
Proof. intros debug s Hl. cbn [step_op]. oe_J_tac. Qed.

Lemma oe_op_OUNew : forall debug ids s, is_locked s = false -> oe_J oe_none (step_op debug (OUNew ids)) (step_op debug (OUNew ids)) s.
Proof.
  intros debug ids s Hl. cbn [step_op]. apply oe_J_bindL; [apply oe_homL_new_entity|exact Hl|]. intros [e m] s1 _. oe_J_tac.
Qed.

Lemma oe_op_OUNewRel : forall debug ids hrels s, is_locked s = false ->
  oe_J oe_none (step_op debug (OUNewRel ids hrels)) (step_op debug (OUNewRel ids hrels)) s.
Proof.
  intros debug ids hrels s Hl. cbn [step_op].
  apply oe_J_bind_ro; [apply oe_hom_resolveR|apply readonly_resolveR|]. intros rels _.
  apply oe_J_bindL; [apply oe_homL_new_entity|exact Hl|]. intros [e m] s1 _. oe_J_tac.
Qed.

Lemma oe_J_copy_entity : forall e s, is_locked s = false -> oe_J oe_none (w_copy_entity e) (w_copy_entity e) s.
Proof. intros e s Hl. unfold w_copy_entity. oe_J_tac. Qed.

Lemma oe_op_OCopy : forall debug h s, is_locked s = false -> oe_J oe_none (step_op debug (OCopy h)) (step_op debug (OCopy h)) s.
Proof.
  intros debug h s Hl. cbn [step_op].
  apply oe_J_bind_ro; [apply oe_hom_resolveH|apply readonly_resolveH|]. intros e _.
  apply oe_J_bind_tail; [apply oe_J_copy_entity; exact Hl|]. intros ne. apply oe_tail_ret.
Qed.

(** ** Add *)
Lemma oe_op_OUAdd : forall debug h ids s, is_locked s = false -> oe_J oe_none (step_op debug (OUAdd h ids)) (step_op debug (OUAdd h ids)) s.
Proof.
  intros debug h ids s Hl. cbn [step_op].
  apply oe_J_bind_ro; [apply oe_hom_resolveH|apply readonly_resolveH|]. intros e _.
  apply oe_J_getbind. cbv beta. oe_E_norm s.
  apply oe_J_bind_ro; [apply oe_hom_guard; reflexivity|apply readonly_guard|]. intros _ _.
  apply oe_J_bindL; [apply oe_homL_w_add|exact Hl|]. intros r s1 _. oe_J_tac.
Qed.

Lemma oe_op_OUAddRel : forall debug h ids hrels s, is_locked s = false ->
  oe_J oe_none (step_op debug (OUAddRel h ids hrels)) (step_op debug (OUAddRel h ids hrels)) s.
Proof.
  intros debug h ids hrels s Hl. cbn [step_op].
  apply oe_J_bind_ro; [apply oe_hom_resolveH|apply readonly_resolveH|]. intros e _.
  apply oe_J_getbind. cbv beta. oe_E_norm s.
  apply oe_J_bind_ro; [apply oe_hom_guard; reflexivity|apply readonly_guard|]. intros _ _.
  apply oe_J_bind_ro; [apply oe_hom_resolveR|apply readonly_resolveR|]. intros rels _.
  apply oe_J_bindL; [apply oe_homL_w_add|exact Hl|]. intros r s1 _. oe_J_tac.
Qed.

(** ** Remove / Exchange / SetRelations / RemoveEntity: callbacks run BEFORE (part of) the storage change *)

Lemma oe_J_weaken : forall A (C C' : W -> Prop) (m1 m2 : MW A) s, (forall v, C v -> C' v) -> oe_J C m1 m2 s -> oe_J C' m1 m2 s.
Proof.
  intros A C C' m1 m2 s H HJ. unfold oe_J, oe_res in *. destruct (m2 s) as [a s'|e s']; [exact HJ|].
  destruct HJ as [HJ|HJ]; [left; exact HJ|right; apply H; exact HJ].
Qed.

Lemma oe_J_guard : forall A C b er (k1 k2 : MW A) s, (b = true -> oe_J C k1 k2 s) -> oe_J C (guard b er ;;; k1) (guard b er ;;; k2) s.
Proof.
  intros A C b er k1 k2 s H. destruct b.
  - unfold oe_J. rewrite !sb2_bind_guard_true. apply H. reflexivity.
  - unfold oe_J. rewrite !sb2_bind_guard_false. cbn [oe_res state_of]. left. reflexivity.
Qed.

Lemma oe_hom_ok : forall A (m1 m2 : MW A) s a s1, oe_hom m1 m2 -> m2 s = Ok a s1 -> m1 (oe_E s) = Ok a (oe_E s1).
Proof. intros A m1 m2 s a s1 H E. rewrite (H s), E. reflexivity. Qed.

Lemma oe_const_ro : forall A (m : MW A), oe_const m -> readonly m.
Proof. intros A m H s. specialize (H s s). destruct (m s) as [a s'|e s']; destruct H as (-> & _); reflexivity. Qed.
Lemma oe_ro_exchange_targets : forall t rels, readonly (exchange_targets t rels).
Proof.
  intros t rels. apply oe_const_ro. rewrite rl_exchange_targets_unfold.
  apply oe_const_bind; [destruct (rels_distinct rels); [apply oe_const_ret|apply oe_const_fail]|]. intros _.
  apply oe_const_bind; [apply oe_const_xgo|]. intros [[tg cm] ch]. destruct (negb ch); apply oe_const_ret.
Qed.

(** the storage part of Remove up to the removal events *)
Definition oe_pre_remove (e : ent) (rem : list nat) : MW unit :=
  check_locked ;;; s0 <- get ;; guard (alive s0 e) EDead ;;; guard (negb (is_nil rem)) ENoComps ;;;
  ix <- get_index e ;; let '(otid, row) := ix in om <- arch_mask_of_table otid ;;
  (r <- find_or_create_table_remove otid rem om ;; ret tt).

Lemma oe_J_w_remove : forall e rem s, is_locked s = false ->
  oe_J (fun v => v = state_of (oe_pre_remove e rem (oe_E s))) (w_remove e rem) (w_remove e rem) s.
Proof.
  intros e rem s Hl. unfold w_remove. apply oe_J_check; [exact Hl|]. apply oe_J_getbind. cbv beta. oe_E_norm s.
  apply oe_J_guard. intros Ha. apply oe_J_guard. intros HG.
  apply oe_J_bind_ro; [apply oe_hom_get_index|apply readonly_get_index|]. intros [otid row] Eix. cbv beta iota.
  apply oe_J_bind_ro; [apply oe_hom_arch_mask|apply sc_ro_arch_mask|]. intros om Eom.
  apply oe_J_bind; [apply oe_hom_find_remove|]. intros [[[ntid naid] m] rr] s1 Ef. cbv beta iota.
  apply (oe_J_fire _ _ _ _ _ _ _ s1 tt (oe_sp_fire_remove_events e om m rr) (oe_E_fire_remove_events e om m rr s1)).
  - left. unfold oe_pre_remove. rewrite (sa_bind_ok (sb1_check_locked_ok (oe_E s) (oe_E_unlocked s))). rewrite sb2_bind_get.
    oe_E_norm s. rewrite Ha, sb2_bind_guard_true, HG, sb2_bind_guard_true.
    rewrite (sa_bind_ok (oe_hom_ok _ _ _ _ _ _ (oe_hom_get_index e) Eix)). cbv beta iota.
    rewrite (sa_bind_ok (oe_hom_ok _ _ _ _ _ _ (oe_hom_arch_mask otid) Eom)).
    rewrite (sa_bind_ok (oe_hom_ok _ _ _ _ _ _ (oe_hom_find_remove otid rem om) Ef)). reflexivity.
  - intros [] s2 _ _. apply oe_J_hom. oe_auto.
Qed.

Definition oe_pre_exchange (e : ent) (add rem : list nat) (rels : list rel) : MW unit :=
  check_locked ;;; s0 <- get ;; guard (alive s0 e) EDead ;;; guard (negb (is_nil add && is_nil rem)) ENoComps ;;;
  ix <- get_index e ;; let '(otid, row) := ix in om <- arch_mask_of_table otid ;;
  (r <- find_or_create_table otid add rem rels om ;; ret tt).

Lemma oe_J_w_exchange : forall e add rem rels s, is_locked s = false ->
  oe_J (fun v => v = state_of (oe_pre_exchange e add rem rels (oe_E s))) (w_exchange e add rem rels) (w_exchange e add rem rels) s.
Proof.
  intros e add rem rels s Hl. unfold w_exchange. apply oe_J_check; [exact Hl|]. apply oe_J_getbind. cbv beta. oe_E_norm s.
  apply oe_J_guard. intros Ha. apply oe_J_guard. intros HG.
  apply oe_J_bind_ro; [apply oe_hom_get_index|apply readonly_get_index|]. intros [otid row] Eix. cbv beta iota.
  apply oe_J_bind_ro; [apply oe_hom_arch_mask|apply sc_ro_arch_mask|]. intros om Eom.
  apply oe_J_bind; [apply oe_hom_find_exchange|]. intros [[[ntid naid] m] rr] s1 Ef. cbv beta iota.
  apply (oe_J_fire _ _ _ (whenM (negb (is_nil rem)) (fire_remove_events e om m rr)) (whenM (negb (is_nil rem)) (fire_remove_events e om m rr))
           _ _ s1 tt).
  - apply sa_sp_whenM. apply oe_sp_fire_remove_events.
  - destruct (negb (is_nil rem)); cbn [whenM]; [apply oe_E_fire_remove_events|reflexivity].
  - left. unfold oe_pre_exchange. rewrite (sa_bind_ok (sb1_check_locked_ok (oe_E s) (oe_E_unlocked s))). rewrite sb2_bind_get.
    oe_E_norm s. rewrite Ha, sb2_bind_guard_true, HG, sb2_bind_guard_true.
    rewrite (sa_bind_ok (oe_hom_ok _ _ _ _ _ _ (oe_hom_get_index e) Eix)). cbv beta iota.
    rewrite (sa_bind_ok (oe_hom_ok _ _ _ _ _ _ (oe_hom_arch_mask otid) Eom)).
    rewrite (sa_bind_ok (oe_hom_ok _ _ _ _ _ _ (oe_hom_find_exchange otid add rem rels om) Ef)). reflexivity.
  - intros [] s2 _ _. apply oe_J_hom. oe_auto.
Qed.

Definition oe_pre_setrel (e : ent) (rels : list rel) : MW unit :=
  check_locked ;;; s0 <- get ;; guard (alive s0 e) EDead ;;; guard (negb (is_nil rels)) ENoComps ;;;
  ix <- get_index e ;; let '(otid, row) := ix in ot <- getT otid ;; r <- exchange_targets ot rels ;;
  match r with
  | None => ret tt
  | Some (newrels, cm) => ntid <- get_or_create_table (t_arch ot) newrels ;; ret tt
  end.

Lemma oe_J_w_set_relations : forall e rels s, is_locked s = false ->
  oe_J (fun v => v = state_of (oe_pre_setrel e rels (oe_E s))) (w_set_relations e rels) (w_set_relations e rels) s.
Proof.
  intros e rels s Hl. unfold w_set_relations. apply oe_J_check; [exact Hl|]. apply oe_J_getbind. cbv beta. oe_E_norm s.
  apply oe_J_guard. intros Ha. apply oe_J_guard. intros HG.
  apply oe_J_bind_ro; [apply oe_hom_get_index|apply readonly_get_index|]. intros [otid row] Eix. cbv beta iota.
  apply oe_J_bind_ro; [apply oe_hom_getT|apply readonly_getT|]. intros ot Eot.
  apply oe_J_bind_ro; [apply oe_hom_exchange_targets|apply oe_ro_exchange_targets|]. intros [[newrels cm]|] Ex; [|apply oe_J_hom; oe_auto].
  apply oe_J_bind; [apply oe_hom_get_or_create_table|]. intros ntid s1 Eg.
  apply oe_J_bind_ro; [apply oe_hom_arch_mask|apply sc_ro_arch_mask|]. intros nm Enm.
  apply oe_J_getbind. cbv beta.
  apply (oe_J_fire _ _ _ _ _ _ _ s1 tt).
  - apply sa_sp_whenM. unfold fire_set. sa_sp_tac. apply sa_sp_fire.
  - reflexivity.
  - left. unfold oe_pre_setrel. rewrite (sa_bind_ok (sb1_check_locked_ok (oe_E s) (oe_E_unlocked s))). rewrite sb2_bind_get.
    oe_E_norm s. rewrite Ha, sb2_bind_guard_true, HG, sb2_bind_guard_true.
    rewrite (sa_bind_ok (oe_hom_ok _ _ _ _ _ _ (oe_hom_get_index e) Eix)). cbv beta iota.
    rewrite (sa_bind_ok (oe_hom_ok _ _ _ _ _ _ (oe_hom_getT otid) Eot)).
    rewrite (sa_bind_ok (oe_hom_ok _ _ _ _ _ _ (oe_hom_exchange_targets ot rels) Ex)).
    rewrite (sa_bind_ok (oe_hom_ok _ _ _ _ _ _ (oe_hom_get_or_create_table (t_arch ot) newrels) Eg)). reflexivity.
  - intros [] s2 _ _.
    apply oe_J_bind; [apply oe_hom_tbl_addM|]. intros nidx s3 _.
    apply oe_J_bind; [apply oe_hom_copy_all|]. intros _ s4 _.
    apply oe_J_bind; [apply oe_hom_remove_row|]. intros _ s5 _.
    apply oe_J_bind; [apply oe_hom_set_index_direct|]. intros _ s6 _.
    apply oe_J_bind; [apply oe_hom_register_targets|]. intros _ s7 _.
    apply oe_J_getbind. cbv beta. apply oe_J_tail.
    + apply sa_sp_whenM. unfold fire_set. sa_sp_tac. apply sa_sp_fire.
    + exists tt. split; [reflexivity|]. intros [] s' _. reflexivity.
Qed.

Lemma oe_J_remove_entity : forall e s, oe_J (fun v => v = oe_E s) (storage_remove_entity e) (storage_remove_entity e) s.
Proof.
  intros e s. unfold storage_remove_entity. apply oe_J_getbind. cbv beta. oe_E_norm s.
  apply oe_J_guard. intros Ha.
  apply oe_J_bind_ro; [apply oe_hom_get_index|apply readonly_get_index|]. intros [tid row] Eix. cbv beta iota.
  apply oe_J_bind_ro; [apply oe_hom_getT|apply readonly_getT|]. intros t Et.
  apply oe_J_bind_ro; [apply oe_hom_arch_mask|apply sc_ro_arch_mask|]. intros m Em. cbv zeta.
  apply (oe_J_fire _ _ _ _ _ _ _ s tt).
  - apply sa_sp_whenM. unfold fire_remove_entity, fire_remove_entity_rel. sa_sp_tac; apply sa_sp_fire.
  - cbn. rewrite Bool.andb_false_r. reflexivity.
  - left. reflexivity.
  - intros [] s2 _ _. apply oe_J_hom. oe_auto.
Qed.

(** ** The operations *)
Lemma oe_op_OURemove : forall debug h ids s, is_locked s = false ->
  oe_J (fun v => exists e, handle s h = Some e /\ v = state_of (oe_pre_remove e ids (oe_E s)))
       (step_op debug (OURemove h ids)) (step_op debug (OURemove h ids)) s.
Proof.
  intros debug h ids s Hl. cbn [step_op].
  apply oe_J_bind_ro; [apply oe_hom_resolveH|apply readonly_resolveH|]. intros e Eh.
  rewrite sc_resolveH in Eh. destruct (handle s h) as [e0|] eqn:Hh; [|discriminate Eh]. inversion Eh; subst e0.
  apply oe_J_getbind. cbv beta. oe_E_norm s. apply oe_J_guard. intros _.
  apply oe_J_bind_tail; [|intros a; apply oe_tail_ret].
  apply (oe_J_weaken _ (fun v => v = state_of (oe_pre_remove e ids (oe_E s)))); [|apply oe_J_w_remove; exact Hl].
  intros v Hv. exists e. split; [reflexivity|exact Hv].
Qed.

Definition oe_resolved (s : W) (hrels : list hrel) (rels : list rel) : Prop := exists s', resolveR hrels s = Ok rels s'.

Lemma oe_op_OUExchange : forall debug h add rem hrels s, is_locked s = false ->
  oe_J (fun v => exists e rels, handle s h = Some e /\ oe_resolved s hrels rels /\ v = state_of (oe_pre_exchange e add rem rels (oe_E s)))
       (step_op debug (OUExchange h add rem hrels)) (step_op debug (OUExchange h add rem hrels)) s.
Proof.
  intros debug h add rem hrels s Hl. cbn [step_op].
  apply oe_J_bind_ro; [apply oe_hom_resolveH|apply readonly_resolveH|]. intros e Eh.
  rewrite sc_resolveH in Eh. destruct (handle s h) as [e0|] eqn:Hh; [|discriminate Eh]. inversion Eh; subst e0.
  apply oe_J_getbind. cbv beta. oe_E_norm s. apply oe_J_guard. intros _.
  apply oe_J_bind_ro; [apply oe_hom_resolveR|apply readonly_resolveR|]. intros rels ER.
  apply oe_J_bind_tail; [|intros a; oe_tail_tac].
  apply (oe_J_weaken _ (fun v => v = state_of (oe_pre_exchange e add rem rels (oe_E s)))); [|apply oe_J_w_exchange; exact Hl].
  intros v Hv. exists e, rels. split; [reflexivity|]. split; [exists s; exact ER|exact Hv].
Qed.

Lemma oe_op_OUSetRel : forall debug h hrels s, is_locked s = false ->
  oe_J (fun v => exists e rels, handle s h = Some e /\ oe_resolved s hrels rels /\ v = state_of (oe_pre_setrel e rels (oe_E s)))
       (step_op debug (OUSetRel h hrels)) (step_op debug (OUSetRel h hrels)) s.
Proof.
  intros debug h hrels s Hl. cbn [step_op].
  apply oe_J_bind_ro; [apply oe_hom_resolveH|apply readonly_resolveH|]. intros e Eh.
  rewrite sc_resolveH in Eh. destruct (handle s h) as [e0|] eqn:Hh; [|discriminate Eh]. inversion Eh; subst e0.
  apply oe_J_bind_ro; [apply oe_hom_resolveR|apply readonly_resolveR|]. intros rels ER.
  apply oe_J_bind_tail; [|intros a; apply oe_tail_ret].
  apply (oe_J_weaken _ (fun v => v = state_of (oe_pre_setrel e rels (oe_E s)))); [|apply oe_J_w_set_relations; exact Hl].
  intros v Hv. exists e, rels. split; [reflexivity|]. split; [exists s; exact ER|exact Hv].
Qed.

Lemma oe_op_ORemoveEntity : forall debug h s, is_locked s = false ->
  oe_J (fun v => v = oe_E s) (step_op debug (ORemoveEntity h)) (step_op debug (ORemoveEntity h)) s.
Proof.
  intros debug h s Hl. cbn [step_op].
  apply oe_J_bind_ro; [apply oe_hom_resolveH|apply readonly_resolveH|]. intros e _.
  apply oe_J_check; [exact Hl|].
  apply oe_J_bind_tail; [apply oe_J_remove_entity|intros a; apply oe_tail_ret].
Qed.

(* ================================================================================================ *)
(** * Part 5: operations that dispatch nothing and do not look at the lock: Write, filter creation, Register, Unregister *)

Lemma oe_hom_cell_of : forall debug e c, oe_hom (cell_of debug e c) (cell_of debug e c).
Proof. intros. unfold cell_of. oe_auto. Qed.
Lemma oe_hom_write_cell : forall tid ci row v, oe_hom (write_cell tid ci row v) (write_cell tid ci row v).
Proof. intros. unfold write_cell. oe_auto. Qed.
#[export] Hint Resolve oe_hom_cell_of oe_hom_write_cell : oe_hom.

Lemma oe_hom_OWrite : forall debug h c v, oe_hom (step_op debug (OWrite h c v)) (step_op debug (OWrite h c v)).
Proof. intros. cbn [step_op]. oe_auto. Qed.

Lemma oe_hom_to_relations : forall m rels, oe_hom (to_relations m rels) (to_relations m rels).
Proof. intros. unfold to_relations. oe_auto. Qed.
Lemma oe_hom_getF : forall fi, oe_hom (getF fi) (getF fi).
Proof. intros. unfold getF. oe_auto. Qed.
#[export] Hint Resolve oe_hom_to_relations oe_hom_getF : oe_hom.

Lemma oe_hom_OFilterNew : forall debug u ids wo ex hrels,
  oe_hom (step_op debug (OFilterNew u ids wo ex hrels)) (step_op debug (OFilterNew u ids wo ex hrels)).
Proof. intros. cbn [step_op]. oe_auto. Qed.

Lemma oe_tm_go_E : forall s rels ne l acc, q_tm_go (oe_E s) rels ne l acc = oe_rmap (q_tm_go s rels ne l acc).
Proof.
  intros s rels ne l. induction l as [|tid rest IH]; intros acc; [reflexivity|].
  rewrite !q_tm_go_cons. change (w_tables (oe_E s)) with (w_tables s).
  destruct (nth_error (w_tables s) tid) as [t|]; [|reflexivity].
  destruct (ne && Nat.eqb (t_len t) 0)%bool; [apply IH|].
  destruct (tbl_matches t rels) as [[|]|]; [apply IH|apply IH|reflexivity].
Qed.
Lemma oe_hom_tables_matching : forall tabs rels ne,
  oe_hom (fun s => tables_matching s tabs rels ne) (fun s => tables_matching s tabs rels ne).
Proof. intros tabs rels ne s. rewrite !q_tables_matching_eq. apply oe_tm_go_E. Qed.
#[export] Hint Resolve oe_hom_tables_matching : oe_hom.

Lemma oe_hom_ut_go : forall f rels l acc, oe_hom (be_ut_go f rels l acc) (be_ut_go f rels l acc).
Proof.
  intros f rels l. induction l as [|a rest IH]; intros acc; unfold be_ut_go; fold (be_ut_go f rels); [apply oe_hom_ret; reflexivity|].
  destruct (negb (filter_matches f (a_mask a))); [apply IH|].
  destruct (negb (arch_has_rels a)).
  - destruct (a_tables a); [apply oe_hom_fail|apply IH].
  - apply oe_hom_bind; [apply oe_hom_of_opt; reflexivity|]. intros cand.
    apply oe_hom_bind; [apply oe_hom_tables_matching|]. intros ts. apply IH.
Qed.
Lemma oe_hom_uncached_tables : forall f rels, oe_hom (uncached_tables f rels) (uncached_tables f rels).
Proof. intros. rewrite be_uncached_tables_eq. apply oe_hom_get_bind. intros s0. oe_E_norm s0. apply oe_hom_ut_go. Qed.
#[export] Hint Resolve oe_hom_uncached_tables : oe_hom.

Lemma oe_hom_filter_register : forall fi, oe_hom (filter_register fi) (filter_register fi).
Proof. intros. unfold filter_register. oe_auto. Qed.
Lemma oe_hom_filter_unregister : forall fi, oe_hom (filter_unregister fi) (filter_unregister fi).
Proof. intros. unfold filter_unregister. oe_auto. Qed.

Lemma oe_hom_OFilterRegister : forall debug f, oe_hom (step_op debug (OFilterRegister f)) (step_op debug (OFilterRegister f)).
Proof. intros. cbn [step_op]. apply oe_hom_bind; [apply oe_hom_filter_register|]. intros _. apply oe_hom_ret. reflexivity. Qed.
Lemma oe_hom_OFilterUnregister : forall debug f, oe_hom (step_op debug (OFilterUnregister f)) (step_op debug (OFilterUnregister f)).
Proof. intros. cbn [step_op]. apply oe_hom_bind; [apply oe_hom_filter_unregister|]. intros _. apply oe_hom_ret. reflexivity. Qed.

Definition oe_hom_op (o : op) : bool :=
  match o with
  | OWrite _ _ _ | OFilterNew _ _ _ _ _ | OFilterRegister _ | OFilterUnregister _ => true
  | _ => false
  end.

Theorem oe_hom_step_op : forall debug o, oe_hom_op o = true -> oe_hom (step_op debug o) (step_op debug o).
Proof.
  intros debug o H. destruct o; try discriminate H.
  - apply oe_hom_OWrite.
  - apply oe_hom_OFilterNew.
  - apply oe_hom_OFilterRegister.
  - apply oe_hom_OFilterUnregister.
Qed.

(* ================================================================================================ *)
(** * Part 6: the observer operations change nothing but the observer side state *)

Lemma oe_sp_ro : forall A (m : MW A), readonly m -> sa_sp m.
Proof. intros A m H s. rewrite (H s). apply sa_storage_same_refl. Qed.

Lemma oe_sp_forM : forall A (l : list A) (f : A -> MW unit), (forall a, sa_sp (f a)) -> sa_sp (forM_ l f).
Proof.
  intros A l f H. induction l as [|x l IH]; cbn [forM_]; [apply sa_sp_ret|]. apply sa_sp_bind; [apply H|intros _; exact IH].
Qed.

Lemma oe_sp_getbind : forall A (k : W -> MW A), (forall s, storage_same s (state_of (k s s))) -> sa_sp (bind get k).
Proof. intros A k H s. apply H. Qed.

Ltac oe_sp_step :=
  lazymatch goal with
  | |- sa_sp (let x := _ in _) => cbv zeta
  | |- sa_sp (bind _ _) => apply sa_sp_bind; [|intros ?]
  | |- sa_sp (modO _ _) => apply sa_sp_modO
  | |- sa_sp (mod_agg _ _) => apply sa_sp_mod_agg
  | |- sa_sp (getO _) => apply sa_sp_getO
  | |- sa_sp get => apply sa_sp_get
  | |- sa_sp (guard _ _) => apply sa_sp_guard
  | |- sa_sp (ret _) => apply sa_sp_ret
  | |- sa_sp (fail _) => apply sa_sp_fail
  | |- sa_sp (forM_ _ _) => apply oe_sp_forM; intros ?
  | |- sa_sp (modify _) => apply sa_sp_modify; intros ?; unfold storage_same; repeat split
  | |- sa_sp (if ?b then _ else _) => destruct b
  end.

Lemma oe_sp_add_observer : forall oi, sa_sp (add_observer oi).
Proof.
  intros oi. unfold add_observer.
  apply sa_sp_bind; [apply sa_sp_getO|]. intros o. apply sa_sp_bind; [apply sa_sp_guard|]. intros _.
  apply oe_sp_getbind. intros s. destruct (ipool_get None (w_opool s)) as [[id p']|]; [|apply sa_storage_same_refl].
  unfold bind at 1, put.
  apply (sa_storage_same_trans s (s <| w_opool := p' |>)); [unfold storage_same; repeat split|].
  match goal with |- storage_same ?t (state_of (?m ?t)) => assert (X : sa_sp m); [|apply X] end.
  repeat oe_sp_step.
Qed.

Lemma oe_sp_OObsNew : forall debug evt f w wo ex cb, sa_sp (step_op debug (OObsNew evt f w wo ex cb)).
Proof. intros. cbn [step_op]. repeat oe_sp_step. Qed.
Lemma oe_sp_OObsRegister : forall debug o, sa_sp (step_op debug (OObsRegister o)).
Proof. intros. cbn [step_op]. apply sa_sp_bind; [apply oe_sp_add_observer|intros _; apply sa_sp_ret]. Qed.
Lemma oe_sp_OObsUnregister : forall debug o, sa_sp (step_op debug (OObsUnregister o)).
Proof. intros. cbn [step_op]. apply sa_sp_bind; [apply sa_sp_remove_observer|intros _; apply sa_sp_ret]. Qed.
Lemma oe_sp_OEmit : forall debug evt h comps, sa_sp (step_op debug (OEmit evt h comps)).
Proof.
  intros. cbn [step_op].
  apply sa_sp_bind; [apply oe_sp_ro, readonly_resolveH|]. intros e. apply sa_sp_bind; [apply sa_sp_guard|]. intros _.
  apply sa_sp_bind; [apply sa_sp_get|]. intros s0. destruct (negb (has_obs s0 evt)); [apply sa_sp_ret|]. cbv zeta.
  apply sa_sp_bind.
  - destruct (Nat.eqb (fst e) 0).
    + apply sa_sp_bind; [apply sa_sp_guard|intros _; apply oe_sp_ro, sc_ro_arch_mask].
    + apply sa_sp_bind; [apply sa_sp_guard|intros _]. apply sa_sp_bind; [apply oe_sp_ro, readonly_get_index|intros ix; apply oe_sp_ro, sc_ro_arch_mask].
  - intros m. apply sa_sp_bind; [apply sa_sp_guard|]. intros _. apply sa_sp_bind; [unfold fire_set; apply sa_sp_fire|]. intros _. apply sa_sp_ret.
Qed.

Definition oe_obs_op (o : op) : bool :=
  match o with OObsNew _ _ _ _ _ _ | OObsRegister _ | OObsUnregister _ | OEmit _ _ _ => true | _ => false end.

Theorem oe_sp_obs_op : forall debug o, oe_obs_op o = true -> sa_sp (step_op debug o).
Proof.
  intros debug o H. destruct o; try discriminate H.
  - apply oe_sp_OObsNew.
  - apply oe_sp_OObsRegister.
  - apply oe_sp_OObsUnregister.
  - apply oe_sp_OEmit.
Qed.

(* ================================================================================================ *)
(** * Part 7: summary for the structural operations of the class *)

Definition oe_struct_op (o : op) : bool :=
  match o with
  | ONewEntity | OUNew _ | OUNewRel _ _ | OCopy _ | OUAdd _ _ | OUAddRel _ _ _ | OURemove _ _
  | OUExchange _ _ _ _ | OUSetRel _ _ | ORemoveEntity _ | OShrink _ => true
  | _ => false
  end.

(** The erased states at which a callback that runs before / inside the storage part may stop the real run. *)
Definition oe_cut (o : op) (s : W) : W -> Prop :=
  match o with
  | OURemove h ids => fun v => exists e, handle s h = Some e /\ v = state_of (oe_pre_remove e ids (oe_E s))
  | OUExchange h add rem hrels =>
      fun v => exists e rels, handle s h = Some e /\ oe_resolved s hrels rels /\ v = state_of (oe_pre_exchange e add rem rels (oe_E s))
  | OUSetRel h hrels =>
      fun v => exists e rels, handle s h = Some e /\ oe_resolved s hrels rels /\ v = state_of (oe_pre_setrel e rels (oe_E s))
  | ORemoveEntity _ => fun v => v = oe_E s
  | _ => oe_none
  end.

Theorem oe_step_op : forall debug o s, oe_struct_op o = true -> is_locked s = false ->
  oe_J (oe_cut o s) (step_op debug o) (step_op debug o) s.
Proof.
  intros debug o s H Hl. destruct o; try discriminate H; cbn [oe_cut].
  - apply oe_op_ONewEntity; exact Hl.
  - apply oe_op_OUNew; exact Hl.
  - apply oe_op_OUNewRel; exact Hl.
  - apply oe_op_OCopy; exact Hl.
  - apply oe_op_OUAdd; exact Hl.
  - apply oe_op_OUAddRel; exact Hl.
  - apply oe_op_OURemove; exact Hl.
  - apply oe_op_OUExchange; exact Hl.
  - apply oe_op_OUSetRel; exact Hl.
  - apply oe_op_ORemoveEntity; exact Hl.
  - apply oe_op_OShrink; exact Hl.
Qed.

(* ================================================================================================ *)
(** * Part 8: the strict judgement: no failure inside a callback that runs AFTER the storage part

    [oe_JS C m1 m2 s]: as [oe_J], but a failing real run either fails exactly where (and how) the erased run fails
    or is stopped at a cut state [C]. It holds for RemoveEntity (all callbacks run first) and for Reset (no callback;
    [reset_observers] never fails). *)

Definition oe_resS {A} (C : W -> Prop) (r re : res W A) : Prop :=
  match r with
  | Ok a s' => re = Ok a (oe_E s')
  | Err e s' => re = Err e (oe_E s') \/ C (oe_E s')
  end.
Definition oe_JS {A} (C : W -> Prop) (m1 m2 : MW A) (s : W) : Prop := oe_resS C (m2 s) (m1 (oe_E s)).

Lemma oe_JS_J : forall A C (m1 m2 : MW A) s, oe_JS C m1 m2 s -> oe_J C m1 m2 s.
Proof.
  intros A C m1 m2 s H. unfold oe_JS, oe_J, oe_resS, oe_res in *. destruct (m2 s) as [a s'|e s']; [exact H|].
  destruct H as [H|H]; [left; rewrite H; reflexivity|right; exact H].
Qed.

Lemma oe_JS_hom : forall A C (m1 m2 : MW A) s, oe_hom m1 m2 -> oe_JS C m1 m2 s.
Proof.
  intros A C m1 m2 s H. unfold oe_JS. rewrite (H s). destruct (m2 s) as [a s'|e s']; cbn [oe_resS oe_rmap]; [reflexivity|left; reflexivity].
Qed.

Lemma oe_JS_bind : forall A B C (m1 m2 : MW A) (k1 k2 : A -> MW B) s, oe_hom m1 m2 ->
  (forall a s1, m2 s = Ok a s1 -> oe_JS C (k1 a) (k2 a) s1) -> oe_JS C (bind m1 k1) (bind m2 k2) s.
Proof.
  intros A B C m1 m2 k1 k2 s H Hk. unfold oe_JS, bind. rewrite (H s).
  destruct (m2 s) as [a s1|e s1]; cbn [oe_rmap]; [apply (Hk a s1 eq_refl)|]. cbn [oe_resS]. left. reflexivity.
Qed.

Lemma oe_JS_bind_ro : forall A B C (m1 m2 : MW A) (k1 k2 : A -> MW B) s, oe_hom m1 m2 -> readonly m2 ->
  (forall a, m2 s = Ok a s -> oe_JS C (k1 a) (k2 a) s) -> oe_JS C (bind m1 k1) (bind m2 k2) s.
Proof.
  intros A B C m1 m2 k1 k2 s H Hro Hk. apply oe_JS_bind; [exact H|]. intros a s1 E.
  pose proof (Hro s) as Hs. rewrite E in Hs. cbn [state_of] in Hs. subst s1. apply Hk. exact E.
Qed.

Lemma oe_JS_getbind : forall B C (k1 k2 : W -> MW B) s, oe_JS C (k1 (oe_E s)) (k2 s) s -> oe_JS C (bind get k1) (bind get k2) s.
Proof. intros B C k1 k2 s H. exact H. Qed.

Lemma oe_JS_check : forall A C (k1 k2 : MW A) s, is_locked s = false -> oe_JS C k1 k2 s ->
  oe_JS C (check_locked ;;; k1) (check_locked ;;; k2) s.
Proof.
  intros A C k1 k2 s Hl H. unfold oe_JS. rewrite (sa_bind_ok (sb1_check_locked_ok s Hl)).
  rewrite (sa_bind_ok (sb1_check_locked_ok (oe_E s) (oe_E_unlocked s))). exact H.
Qed.

Lemma oe_JS_guard : forall A C b er (k1 k2 : MW A) s, (b = true -> oe_JS C k1 k2 s) -> oe_JS C (guard b er ;;; k1) (guard b er ;;; k2) s.
Proof.
  intros A C b er k1 k2 s H. destruct b.
  - unfold oe_JS. rewrite !sb2_bind_guard_true. apply H. reflexivity.
  - unfold oe_JS. rewrite !sb2_bind_guard_false. cbn [oe_resS]. left. reflexivity.
Qed.

(** a dispatch before the storage part: a failing callback leaves the cut state *)
Lemma oe_JS_cut : forall A B (C : W -> Prop) (f1 f2 : MW A) (k1 k2 : A -> MW B) s x, sa_sp f2 -> f1 (oe_E s) = Ok x (oe_E s) -> C (oe_E s) ->
  (forall a s1, f2 s = Ok a s1 -> oe_E s1 = oe_E s -> oe_JS C (k1 x) (k2 a) s1) ->
  oe_JS C (bind f1 k1) (bind f2 k2) s.
Proof.
  intros A B C f1 f2 k1 k2 s x Hsp E1 Hc Hk. unfold oe_JS. rewrite (sa_bind_ok E1).
  pose proof (oe_E_sp _ f2 s Hsp) as Hs. unfold bind at 1.
  destruct (f2 s) as [a s1|e s1] eqn:E2; cbn [state_of] in Hs.
  - specialize (Hk a s1 eq_refl Hs). unfold oe_JS in Hk. rewrite Hs in Hk. exact Hk.
  - cbn [oe_resS]. rewrite Hs. right. exact Hc.
Qed.

(** a computation confined to the side state that never fails *)
Lemma oe_JS_total : forall A B (C : W -> Prop) (f1 f2 : MW A) (k1 k2 : A -> MW B) s x, sa_sp f2 -> f1 (oe_E s) = Ok x (oe_E s) ->
  (exists a s1, f2 s = Ok a s1) ->
  (forall a s1, f2 s = Ok a s1 -> oe_E s1 = oe_E s -> oe_JS C (k1 x) (k2 a) s1) ->
  oe_JS C (bind f1 k1) (bind f2 k2) s.
Proof.
  intros A B C f1 f2 k1 k2 s x Hsp E1 (a & s1 & E2) Hk. unfold oe_JS. rewrite (sa_bind_ok E1), (sa_bind_ok E2).
  pose proof (oe_E_sp _ f2 s Hsp) as Hs. rewrite E2 in Hs. cbn [state_of] in Hs.
  specialize (Hk a s1 E2 Hs). unfold oe_JS in Hk. rewrite Hs in Hk. exact Hk.
Qed.

Lemma oe_JS_bind_ret : forall A B C (m1 m2 : MW A) (g : A -> B) s,
  oe_JS C m1 m2 s -> oe_JS C (a <- m1 ;; ret (g a)) (a <- m2 ;; ret (g a)) s.
Proof.
  intros A B C m1 m2 g s H. unfold oe_JS in *. unfold bind. destruct (m2 s) as [a s1|e s1]; cbn [oe_resS] in H |- *.
  - rewrite H. reflexivity.
  - destruct H as [H|H]; [left; rewrite H; reflexivity|right; exact H].
Qed.

Lemma oe_JS_remove_entity : forall e s, oe_JS (fun v => v = oe_E s) (storage_remove_entity e) (storage_remove_entity e) s.
Proof.
  intros e s. unfold storage_remove_entity. apply oe_JS_getbind. cbv beta. oe_E_norm s.
  apply oe_JS_guard. intros Ha.
  apply oe_JS_bind_ro; [apply oe_hom_get_index|apply readonly_get_index|]. intros [tid row] Eix. cbv beta iota.
  apply oe_JS_bind_ro; [apply oe_hom_getT|apply readonly_getT|]. intros t Et.
  apply oe_JS_bind_ro; [apply oe_hom_arch_mask|apply sc_ro_arch_mask|]. intros m Em. cbv zeta.
  apply (oe_JS_cut _ _ _ _ _ _ _ s tt).
  - apply sa_sp_whenM. unfold fire_remove_entity, fire_remove_entity_rel. sa_sp_tac; apply sa_sp_fire.
  - cbn. rewrite Bool.andb_false_r. reflexivity.
  - reflexivity.
  - intros [] s2 _ _. apply oe_JS_hom. oe_auto.
Qed.

(** RemoveEntity: the real run returns exactly when the erased one does, or it is stopped by a callback with the
    storage untouched. *)
Theorem oe_opS_ORemoveEntity : forall debug h s, is_locked s = false ->
  oe_JS (fun v => v = oe_E s) (step_op debug (ORemoveEntity h)) (step_op debug (ORemoveEntity h)) s.
Proof.
  intros debug h s Hl. cbn [step_op].
  apply oe_JS_bind_ro; [apply oe_hom_resolveH|apply readonly_resolveH|]. intros e _.
  apply oe_JS_check; [exact Hl|]. apply (oe_JS_bind_ret _ _ _ _ _ (fun _ => @nil Z)). apply oe_JS_remove_entity.
Qed.

(** ** Reset *)
Definition oe_total {A} (m : MW A) : Prop := forall s, exists a s', m s = Ok a s'.
Lemma oe_total_ret : forall A (a : A), oe_total (ret a).
Proof. intros A a s. eexists _, _. reflexivity. Qed.
Lemma oe_total_modify : forall f : W -> W, oe_total (modify f).
Proof. intros f s. eexists _, _. reflexivity. Qed.
Lemma oe_total_bind : forall A B (m : MW A) (k : A -> MW B), oe_total m -> (forall a, oe_total (k a)) -> oe_total (bind m k).
Proof. intros A B m k Hm Hk s. destruct (Hm s) as (a & s1 & E). rewrite (sa_bind_ok E). apply Hk. Qed.
Lemma oe_total_forM : forall A (l : list A) (f : A -> MW unit), (forall a, oe_total (f a)) -> oe_total (forM_ l f).
Proof.
  intros A l f H. induction l as [|x l IH]; cbn [forM_]; [apply oe_total_ret|]. apply oe_total_bind; [apply H|intros _; exact IH].
Qed.
Lemma oe_total_getbind : forall A (k : W -> MW A), (forall s, exists a s', k s s = Ok a s') -> oe_total (bind get k).
Proof. intros A k H s. apply H. Qed.

Lemma oe_total_reset_observers : oe_total reset_observers.
Proof.
  unfold reset_observers. apply oe_total_getbind. intros s. destruct (Nat.eqb (w_ototal s) 0); [eexists _, _; reflexivity|].
  assert (X : oe_total (forM_ (seq 0 (S (w_omax s)))
      (fun evt => s0 <- get;; (if negb (has_obs s0 evt) then ret tt
         else forM_ (olist s0 evt) (fun oi => modO oi (fun o => o <| o_id := None |>));;;
              modify (fun s1 => s1 <| w_olists ::= aset evt [] |>);;; mod_agg evt (fun _ => agg0)));;;
    modify (fun s0 => s0 <| w_opool := ipool_new |> <| w_ototal := 0 |> <| w_omax := 0 |>))).
  { apply oe_total_bind; [|intros _; apply oe_total_modify]. apply oe_total_forM. intros evt.
    apply oe_total_getbind. intros s0. destruct (negb (has_obs s0 evt)); [eexists _, _; reflexivity|].
    assert (Y : oe_total (forM_ (olist s0 evt) (fun oi => modO oi (fun o => o <| o_id := None |>));;;
                          modify (fun s1 => s1 <| w_olists ::= aset evt [] |>);;; mod_agg evt (fun _ => agg0))).
    { apply oe_total_bind; [apply oe_total_forM; intros oi; apply oe_total_modify|]. intros _.
      apply oe_total_bind; [apply oe_total_modify|]. intros _. apply oe_total_modify. }
    apply Y. }
  apply X.
Qed.

Lemma oe_sp_reset_observers : sa_sp reset_observers.
Proof.
  unfold reset_observers. apply oe_sp_getbind. intros s. destruct (Nat.eqb (w_ototal s) 0).
  - unfold put. cbn [state_of]. unfold storage_same. repeat split.
  - match goal with |- storage_same s (state_of (?m s)) => assert (X : sa_sp m); [|apply X] end.
    apply sa_sp_bind; [|intros _; apply sa_sp_modify; intros ?; unfold storage_same; repeat split].
    apply oe_sp_forM. intros evt. apply sa_sp_bind; [apply sa_sp_get|]. intros s0.
    destruct (negb (has_obs s0 evt)); [apply sa_sp_ret|].
    apply sa_sp_bind; [apply oe_sp_forM; intros oi; apply sa_sp_modO|]. intros _.
    apply sa_sp_bind; [apply sa_sp_modify; intros ?; unfold storage_same; repeat split|]. intros _. apply sa_sp_mod_agg.
Qed.

Lemma oe_hom_cache_reset : oe_hom cache_reset cache_reset.
Proof. unfold cache_reset. oe_auto. Qed.
Lemma oe_hom_arch_reset : forall aid, oe_hom (arch_reset aid) (arch_reset aid).
Proof. intros. unfold arch_reset. oe_auto. Qed.
#[export] Hint Resolve oe_hom_cache_reset oe_hom_arch_reset : oe_hom.

(** Reset: the real run returns exactly when the erased one does. *)
Theorem oe_opS_OReset : forall debug s, is_locked s = false -> oe_JS oe_none (step_op debug OReset) (step_op debug OReset) s.
Proof.
  intros debug s Hl. cbn [step_op]. apply (oe_JS_bind_ret _ _ _ _ _ (fun _ => @nil Z)). unfold w_reset.
  apply oe_JS_check; [exact Hl|].
  apply oe_JS_bind; [oe_auto|]. intros _ s1 _.
  apply oe_JS_bind; [oe_auto|]. intros _ s2 _.
  apply oe_JS_bind; [oe_auto|]. intros _ s3 _.
  apply (oe_JS_total _ _ _ _ _ _ _ s3 tt oe_sp_reset_observers).
  - reflexivity.
  - destruct (oe_total_reset_observers s3) as ([] & s4 & E). exists tt, s4. exact E.
  - intros [] s4 _ _. apply oe_JS_hom. oe_auto.
Qed.

Lemma r2c_bind_assoc_local : forall A B C (m : MW A) (k : A -> MW B) (h : B -> MW C) s,
  bind (bind m k) h s = bind m (fun a => bind (k a) h) s.
Proof. intros. unfold bind. destruct (m s); reflexivity. Qed.

(* ================================================================================================ *)
(** * Part 9: when a callback can fail

    [run_callback] fails only if (1) no lock bit is left (all 64 bits held), (2) the entity is alive but has no
    row (impossible under [WF]), (3) the observer index is unknown, or (4) the [remove_observer] issued by the
    callback itself ([o_cb >= 1]) fails. The release of the lock bit it took never fails. *)
Lemma oe_lockM_run : forall s, lockM s = match lock_lock (w_lock s) with Some (b, l') => Ok b (s <| w_lock := l' |>) | None => Err EBits s end.
Proof. intros s. unfold lockM, bind, get. destruct (lock_lock (w_lock s)) as [[b l']|]; reflexivity. Qed.
Lemma oe_unlockM_run : forall b s, unlockM b s = match lock_unlock (w_lock s) b with Some l' => Ok tt (s <| w_lock := l' |>) | None => Err EUnbalanced s end.
Proof. intros b s. unfold unlockM, bind, get. destruct (lock_unlock (w_lock s) b); reflexivity. Qed.

Theorem oe_run_callback_err : forall oi e s er s', run_callback oi e s = Err er s' ->
  lock_lock (w_lock s) = None \/ (alive s e = true /\ snapshot_entity s e = None) \/ nth_error (w_obs s) oi = None \/
  exists k sk, remove_observer k sk = Err er s'.
Proof.
  intros oi e s er s' E. unfold run_callback in E. rewrite sb2_bind_get in E. cbv zeta in E.
  unfold bind at 1 in E. rewrite oe_lockM_run in E.
  destruct (lock_lock (w_lock s)) as [[b l']|] eqn:EL; [|left; reflexivity]. right.
  assert (Hb : mk_get (lk_mask l') b = true).
  { unfold lock_lock in EL. destruct (ipool_get (Some 64) (lk_pool (w_lock s))) as [[b0 p']|]; [|discriminate EL].
    injection EL as <- <-. cbn [lk_mask]. rewrite mk_get_set, Nat.eqb_refl. reflexivity. }
  rewrite sb2_bind_get in E. unfold bind at 1 in E. rewrite oe_unlockM_run in E.
  change (w_lock (s <| w_lock := l' |>)) with l' in E. unfold lock_unlock in E. rewrite Hb in E.
  set (s2 := s <| w_lock := l' |> <| w_lock := {| lk_pool := ipool_recycle (lk_pool l') b; lk_mask := mk_clear (lk_mask l') b |} |>) in E.
  assert (Tail : forall snap, (log ([100%Z; Zn oi] ++ Zent e ++ [Zb (is_locked s); Zb (alive s e); Zn (count_in_world (s <| w_lock := l' |>) e)] ++ snap);;;
       o <- getO oi;;
       match o_cb o with
       | 0 => ret tt
       | 1 => s <- get;; whenM (memb oi (olist s (o_event o))) (remove_observer oi)
       | S (S k) => s <- get;; match nth_error (w_obs s) k with
           | Some ok => whenM (memb k (olist s (o_event ok))) (remove_observer k)
           | None => ret tt end
       end) s2 = Err er s' ->
       nth_error (w_obs s) oi = None \/ (exists (k : nat) (sk : W), remove_observer k sk = Err er s')).
  { intros snap T. unfold log in T. unfold bind at 1 in T. unfold modify at 1 in T.
    unfold getO in T. rewrite r2c_bind_assoc_local, sb2_bind_get in T.
    match type of T with context [nth_error (w_obs ?x) oi] => change (w_obs x) with (w_obs s) in T end.
    destruct (nth_error (w_obs s) oi) as [o|]; [|left; reflexivity]. right. cbn [of_opt] in T. rewrite sb2_bind_ret in T.
    destruct (o_cb o) as [|[|k]]; [discriminate T| |].
    - rewrite sb2_bind_get in T. destruct (memb oi _); cbn [whenM] in T; [|discriminate T]. eexists _, _. exact T.
    - rewrite sb2_bind_get in T. destruct (nth_error _ k) as [ok|]; [|discriminate T].
      destruct (memb k _); cbn [whenM] in T; [|discriminate T]. eexists _, _. exact T. }
  destruct (alive s e) eqn:Ha.
  - destruct (snapshot_entity s e) as [snap|] eqn:Esn; [|left; split; reflexivity]. right.
    cbn [of_opt] in E. rewrite sb2_bind_ret in E. apply (Tail (snap ++ world_view (s <| w_lock := l' |>)) E).
  - right. rewrite sb2_bind_ret in E. apply (Tail ([] ++ world_view (s <| w_lock := l' |>)) E).
Qed.

Definition oe_all := (oe_step_op, oe_hom_step_op, oe_sp_obs_op, oe_opS_ORemoveEntity, oe_opS_OReset, oe_run_callback_err).

Print Assumptions oe_all.
