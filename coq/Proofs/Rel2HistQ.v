(** * Rel2HistQ: work package Q of the relation tier: the relation invariant over histories WITH
    filters, filter registration, queries and LOCKED states (worlds WITH relation components).
    Helper prefix [r2q_].

    Rel2Hist proves [Inv2] / [Inv2T] over the histories of [rel_core_op]; its clause [r2e_quiet] says "no
    observer AND unlocked", so that class contains neither filters nor queries. Here the class is

      [rel_q_op o := rel_core_op o || (OFilterNew, OFilterRegister, OFilterUnregister, OQueryAll, OQueryOpen,
                                       OQueryNext, OQueryClose, OQueryCount, OQueryEntityAt, OQueryEntity)]

    with ARBITRARY arguments (unknown filter / query indices, closed and exhausted queries, malformed relation
    lists, registering twice, unregistering an unregistered filter, ...), so worlds are LOCKED in the middle
    of a history, and the invariant is

      [Inv2Q s n := St2 s /\ r2d_KeysLive s /\ r2e_noobs s /\ issued_ok s n /\ archs_tabled_norel s /\ r2q_filters_ok s].

    - "unlocked" is no longer part of the invariant: it is a case split ([r2q_core_locked] / [step_inv2] of
      Rel2Hist). NO clause relating [w_lock] to the open queries of [w_queries] is needed for the invariant:
      on a locked world the structural operations are rejected with the state unchanged ([structural_blocked]),
      the others do not look at the lock; the query operations change nothing but [w_queries] and [w_lock]
      ([r2q_fr_step_op], after [query_frame] of QueryProofs), whatever the cursor state and whether or not the
      unlock succeeds. (WF has no clause about [w_queries] / [w_lock] either.) The bookkeeping clause itself
      ("a lock bit is held iff it belongs to an open query; locked iff some query is open") is proved as an
      additional invariant of the same histories in Rel2HistQL.v ([LQ], [step_LQ], [reachable_LQ]).
    - [r2q_filters_ok]: the relations FIXED in every filter object name relation components of the filter's
      mask. [CacheInv] ([ci_entry], clause 2) demands this of every cache entry, and the uncached walk that fills
      a new entry is exact only then ([r2k_uncached_spec]); so the clause is needed for Register. For a typed
      filter [to_relations] checks it when the filter is built; for an UnsafeFilter the model checks nothing,
      hence the side condition [rel_q_flt_ok] on OFilterNew lines (the analogue of "added ids are registered").
      It IS needed: [r2q_register_unsafe_refuted_mask], [r2q_register_unsafe_refuted_nonrel] (model only: in Go
      an UnsafeFilter cannot be registered).

    Main results.
    - [r2q_kf_step_op]: no operation of the core class touches [w_filters] / [w_queries] (syntactic frame).
    - [r2q_fr_step_op]: every query operation satisfies [query_frame], in both outcomes.
    - [r2q_op_OFilterNew], [r2q_register_kept], [r2q_unregister_kept]: filter creation, Register (the new cache
      entry is exact: [r2k_uncached_spec]; the three possible final states of [sd_register_shape] are all covered,
      also the one where the walk panics after the filter was already marked) and Unregister (swap-remove) keep
      [Inv2Q]; [r2q_new_op_spec] for all ten operations; [r2q_core_locked] for the core class on a locked world.
    - [step_inv2Q] (one step of a decoded line, BOTH outcomes), [r2q_init], [reachable_inv2Q].
    - Corollaries: [targets_always_zero_or_alive_Q]; [locked_structural_step_unchanged] /
      [reachable_locked_structural_unchanged] (C07 at the level of [step], the state is EQUAL);
      [r2q_reset_step] / [reachable_unlocked_reset_succeeds] / [reachable_locked_reset_rejected];
      [remove_target_detaches_Q] / [remove_target_locked_rejected_Q]; [reachable_filters_ok] (the hypotheses of the
      cached = uncached theorems of Rel2Cache hold for every filter object of a reachable state).
    - Non-vacuity: [r2q_script] (relation component, registered filters, open queries, rejected structural calls in
      the locked window, register twice, unknown indices), [r2q_script_inv], [r2q_mid_inv] / [r2q_mid_shape] /
      [r2q_mid_blocked] (a LOCKED reachable state), [r2q_end_reset]. *)
From Ark Require Import Model.Base Model.Mask Model.Pool Model.Util Model.World Model.Run.
From Ark Require Import Proofs.TableProofs Proofs.MaskProofs Proofs.Hoare Proofs.WF Proofs.StorageA Proofs.StorageBDefs
  Proofs.StorageB_sb1 Proofs.StorageB_sb2 Proofs.StorageB_sb3 Proofs.LockWorld Proofs.StorageC Proofs.RelProofs
  Proofs.CacheProofs Proofs.QueryProofs Proofs.ResetShrinkProofs
  Proofs.Rel2Defs Proofs.Rel2Struct Proofs.Rel2Remove Proofs.Rel2SetRel Proofs.Rel2Ops Proofs.Rel2Maint Proofs.Rel2Hist
  Proofs.Rel2Cache.
From Ark Require Properties.Common Proofs.Rel2Check Proofs.StorageD.
From RecordUpdate Require Import RecordSet.
Import RecordSetNotations.
From Coq Require Import Lia.
Close Scope Z_scope.

(* ================================================================================================ *)
(** * Part 1: no operation of the core class touches the filter objects or the query objects *)

Definition r2q_uq (s s' : W) : Prop := w_filters s' = w_filters s /\ w_queries s' = w_queries s.

Lemma r2q_uq_refl : forall s, r2q_uq s s.
Proof. intros s. split; reflexivity. Qed.
Lemma r2q_uq_trans : forall s1 s2 s3, r2q_uq s1 s2 -> r2q_uq s2 s3 -> r2q_uq s1 s3.
Proof. intros s1 s2 s3 (A1 & A2) (B1 & B2). split; congruence. Qed.

Definition r2q_kf {A} (m : MW A) : Prop := r2e_pres r2q_uq m.

Lemma r2q_kf_ro : forall A (m : MW A), readonly m -> r2q_kf m.
Proof. intros A m H. apply (r2e_pres_ro r2q_uq r2q_uq_refl). exact H. Qed.
Lemma r2q_kf_bind : forall A B (m : MW A) (k : A -> MW B), r2q_kf m -> (forall a, r2q_kf (k a)) -> r2q_kf (bind m k).
Proof. intros A B m k. apply (r2e_pres_bind r2q_uq r2q_uq_trans). Qed.
Lemma r2q_kf_forM : forall A (l : list A) (f : A -> MW unit), (forall a, r2q_kf (f a)) -> r2q_kf (forM_ l f).
Proof. intros A l f. apply (r2e_pres_forM r2q_uq r2q_uq_refl r2q_uq_trans). Qed.
Lemma r2q_kf_whenM : forall b m, r2q_kf m -> r2q_kf (whenM b m).
Proof. intros b m. apply (r2e_pres_whenM r2q_uq r2q_uq_refl). Qed.
Lemma r2q_kf_getbind : forall A (k : W -> MW A), (forall s, r2q_uq s (state_of (k s s))) -> r2q_kf (bind get k).
Proof. intros A k. apply (r2e_pres_getbind r2q_uq). Qed.

Lemma r2q_kf_sp : forall A (m : MW A), sa_sp m -> r2q_kf m.
Proof.
  intros A m H s. destruct (H s) as (_ & _ & _ & _ & _ & _ & _ & _ & _ & _ & _ & _ & _ & _ & E15 & E16 & _). split; assumption.
Qed.

Lemma r2q_kf_modify_same : forall f : W -> W, (forall s, w_filters (f s) = w_filters s /\ w_queries (f s) = w_queries s) ->
  r2q_kf (modify f).
Proof. intros f H s. unfold modify. cbn [state_of]. apply H. Qed.

Ltac r2q_same_mod := apply r2q_kf_modify_same; intros ?; split; reflexivity.

Lemma r2q_kf_modT : forall i f, r2q_kf (modT i f).
Proof. intros. unfold modT. r2q_same_mod. Qed.
Lemma r2q_kf_setT : forall i t, r2q_kf (setT i t).
Proof. intros. apply r2q_kf_modT. Qed.
Lemma r2q_kf_modA : forall i f, r2q_kf (modA i f).
Proof. intros. unfold modA. r2q_same_mod. Qed.

Ltac r2q_kf_step :=
  match goal with
  | |- r2q_kf (ret _) => apply r2q_kf_ro, readonly_ret
  | |- r2q_kf (fail _) => apply r2q_kf_ro, readonly_fail
  | |- r2q_kf get => apply r2q_kf_ro, readonly_get
  | |- r2q_kf (guard _ _) => apply r2q_kf_ro, readonly_guard
  | |- r2q_kf (of_opt _ _) => apply r2q_kf_ro, readonly_of_opt
  | |- r2q_kf (getT _) => apply r2q_kf_ro, readonly_getT
  | |- r2q_kf (getA _) => apply r2q_kf_ro, r2e_ro_getA
  | |- r2q_kf (modT _ _) => apply r2q_kf_modT
  | |- r2q_kf (setT _ _) => apply r2q_kf_setT
  | |- r2q_kf (modA _ _) => apply r2q_kf_modA
  | |- r2q_kf (get_index _) => apply r2q_kf_ro, readonly_get_index
  | |- r2q_kf check_locked => apply r2q_kf_ro, sc_ro_check_locked
  | |- r2q_kf (arch_mask_of_table _) => apply r2q_kf_ro, sc_ro_arch_mask
  | |- r2q_kf (whenM _ _) => apply r2q_kf_whenM
  | |- r2q_kf (forM_ _ _) => apply r2q_kf_forM; intros ?
  | |- r2q_kf (bind _ _) => apply r2q_kf_bind; [|intros ?]
  | |- r2q_kf (let '(_, _) := ?x in _) => destruct x
  | |- r2q_kf (match ?x with _ => _ end) => destruct x
  | |- r2q_kf (if ?x then _ else _) => destruct x
  end.
Ltac r2q_kf_tac := repeat r2q_kf_step.

Lemma r2q_kf_tbl_addM : forall tid e, r2q_kf (tbl_addM tid e).
Proof. intros. unfold tbl_addM. r2q_kf_tac. Qed.
Lemma r2q_kf_set_index : forall id v, r2q_kf (set_index id v).
Proof.
  intros id v. unfold set_index. apply r2q_kf_modify_same. intros s. destruct (Nat.eqb id (length (w_index s))); split; reflexivity.
Qed.
Lemma r2q_kf_set_index_direct : forall e tid row, r2q_kf (set_index_direct e tid row).
Proof. intros. unfold set_index_direct. r2q_same_mod. Qed.
Lemma r2q_kf_copy_row : forall old new m row nidx, r2q_kf (copy_row old new m row nidx).
Proof. intros. unfold copy_row. r2q_kf_tac. Qed.
Lemma r2q_kf_copy_all : forall src dst row nidx, r2q_kf (copy_all src dst row nidx).
Proof. intros. unfold copy_all. r2q_kf_tac. Qed.
Lemma r2q_kf_remove_row : forall tid row, r2q_kf (remove_row tid row).
Proof. intros. unfold remove_row. r2q_kf_tac. all: try r2q_same_mod. Qed.
Lemma r2q_kf_register_targets : forall rels, r2q_kf (register_targets rels).
Proof. intros. unfold register_targets. r2q_kf_tac. r2q_same_mod. Qed.
Lemma r2q_kf_cache_add_table : forall tid t am, r2q_kf (cache_add_table tid t am).
Proof. intros. unfold cache_add_table. r2q_kf_tac. r2q_same_mod. Qed.
Lemma r2q_kf_cache_remove_table : forall tid, r2q_kf (cache_remove_table tid).
Proof. intros. unfold cache_remove_table. r2q_kf_tac. r2q_same_mod. Qed.
Lemma r2q_kf_move_entities : forall src dst n, r2q_kf (move_entities src dst n).
Proof. intros. unfold move_entities. r2q_kf_tac. r2q_same_mod. Qed.
Lemma r2q_kf_pool_getM : r2q_kf pool_getM.
Proof.
  intros s. unfold pool_getM, bind, get, put, ret. destruct (pool_get (w_pool s)) as [e p']. cbn [state_of]. split; reflexivity.
Qed.
Lemma r2q_kf_pool_recycleM : forall e, r2q_kf (pool_recycleM e).
Proof.
  intros e s. unfold pool_recycleM, bind, get, put, fail. destruct (pool_recycle (w_pool s) e); cbn [state_of]; split; reflexivity.
Qed.

Lemma r2q_kf_create_archetype_bare : forall m, r2q_kf (create_archetype_bare m).
Proof.
  intros m. unfold create_archetype_bare. apply r2q_kf_getbind. intros s.
  unfold bind, put, ret. cbn [state_of]. split; reflexivity.
Qed.

Lemma r2q_kf_create_table : forall aid rels, r2q_kf (create_table aid rels).
Proof.
  intros aid rels. unfold create_table. r2q_kf_tac.
  all: try apply r2q_kf_register_targets; try apply r2q_kf_cache_add_table.
  all: try solve [apply r2q_kf_ro; unfold check_rel; ro].
  all: try r2q_same_mod.
Qed.

Lemma r2q_kf_create_archetype : forall m, r2q_kf (create_archetype m).
Proof.
  intros m. unfold create_archetype. r2q_kf_tac.
  all: first [apply r2q_kf_create_archetype_bare|apply r2q_kf_create_table].
Qed.

Lemma r2q_kf_find_or_create_arch : forall m, r2q_kf (find_or_create_arch m).
Proof.
  intros m. unfold find_or_create_arch. apply r2q_kf_getbind. intros s.
  destruct (find_arch s m); [apply r2q_uq_refl|apply r2q_kf_create_archetype].
Qed.

Lemma r2q_kf_goc : forall aid rels, r2q_kf (get_or_create_table aid rels).
Proof.
  intros. unfold get_or_create_table. r2q_kf_tac; [apply r2q_kf_ro, r2e_ro_arch_get_table|apply r2q_kf_create_table].
Qed.

Lemma r2q_kf_find_add : forall old add rels m0, r2q_kf (find_or_create_table_add old add rels m0).
Proof.
  intros. unfold find_or_create_table_add. r2q_kf_tac; try apply r2q_kf_goc; try apply r2q_kf_find_or_create_arch.
  all: apply r2q_kf_ro, r2e_ro_gf_add.
Qed.
Lemma r2q_kf_find_remove : forall old rem m0, r2q_kf (find_or_create_table_remove old rem m0).
Proof.
  intros. unfold find_or_create_table_remove. r2q_kf_tac; try apply r2q_kf_goc; try apply r2q_kf_find_or_create_arch.
  all: apply r2q_kf_ro, r2e_ro_gf_remove.
Qed.
Lemma r2q_kf_find_exchange : forall old add rem rels m0, r2q_kf (find_or_create_table old add rem rels m0).
Proof.
  intros. unfold find_or_create_table. r2q_kf_tac; try apply r2q_kf_goc; try apply r2q_kf_find_or_create_arch.
  all: first [apply r2q_kf_ro, r2e_ro_gf_add|apply r2q_kf_ro, r2e_ro_gf_remove].
Qed.

Lemma r2q_kf_fire : forall evt early pred e eo, r2q_kf (fire evt early pred e eo).
Proof. intros. apply r2q_kf_sp, sa_sp_fire. Qed.
Lemma r2q_kf_fire_create : forall e m, r2q_kf (fire_create_entity_if_has e m).
Proof. intros e m. apply r2q_kf_sp. intros s. apply fire_create_entity_if_has_storage. Qed.
Lemma r2q_kf_fire_create_rel : forall e m, r2q_kf (fire_create_entity_rel_if_has e m).
Proof.
  intros e m. apply r2q_kf_sp. unfold fire_create_entity_rel_if_has, fire_create_entity_rel. sa_sp_tac; apply sa_sp_fire.
Qed.
Lemma r2q_kf_fire_add : forall evt e o n, r2q_kf (fire_add_if_has evt e o n).
Proof. intros evt e o n. apply r2q_kf_sp. intros s. apply fire_add_if_has_storage. Qed.
Lemma r2q_kf_fire_remove_events : forall e o n rr, r2q_kf (fire_remove_events e o n rr).
Proof. intros e o n rr. apply r2q_kf_sp. intros s. apply fire_remove_events_storage. Qed.

Lemma r2q_kf_new_entity : forall ids rels, r2q_kf (new_entity ids rels).
Proof.
  intros. unfold new_entity. r2q_kf_tac.
  all: first [apply r2q_kf_find_add|apply r2q_kf_pool_getM|apply r2q_kf_tbl_addM|apply r2q_kf_set_index|apply r2q_kf_register_targets].
Qed.
Lemma r2q_kf_create_entity : forall tid, r2q_kf (create_entity tid).
Proof.
  intros. unfold create_entity. r2q_kf_tac.
  all: first [apply r2q_kf_pool_getM|apply r2q_kf_tbl_addM|apply r2q_kf_set_index|r2q_same_mod].
Qed.
Lemma r2q_kf_copy_entity : forall e, r2q_kf (w_copy_entity e).
Proof.
  intros. unfold w_copy_entity. r2q_kf_tac.
  all: first [apply r2q_kf_pool_getM|apply r2q_kf_tbl_addM|apply r2q_kf_set_index|apply r2q_kf_copy_all
             |apply r2q_kf_fire_create|apply r2q_kf_fire_create_rel].
Qed.
Lemma r2q_kf_w_add : forall e add rels, r2q_kf (w_add e add rels).
Proof.
  intros. unfold w_add. r2q_kf_tac.
  all: first [apply r2q_kf_find_add|apply r2q_kf_tbl_addM|apply r2q_kf_copy_row|apply r2q_kf_remove_row
             |apply r2q_kf_set_index_direct|apply r2q_kf_register_targets].
Qed.
Lemma r2q_kf_w_remove : forall e rem, r2q_kf (w_remove e rem).
Proof.
  intros. unfold w_remove. r2q_kf_tac.
  all: first [apply r2q_kf_find_remove|apply r2q_kf_tbl_addM|apply r2q_kf_copy_row|apply r2q_kf_remove_row
             |apply r2q_kf_set_index_direct|apply r2q_kf_fire_remove_events].
Qed.
Lemma r2q_kf_w_exchange : forall e add rem rels, r2q_kf (w_exchange e add rem rels).
Proof.
  intros. unfold w_exchange. r2q_kf_tac.
  all: first [apply r2q_kf_find_exchange|apply r2q_kf_tbl_addM|apply r2q_kf_copy_row|apply r2q_kf_remove_row
             |apply r2q_kf_set_index_direct|apply r2q_kf_register_targets|apply r2q_kf_fire_remove_events].
Qed.
Lemma r2q_kf_w_set_relations : forall e rels, r2q_kf (w_set_relations e rels).
Proof.
  intros e rels. unfold w_set_relations, fire_set. r2q_kf_tac.
  all: first [apply r2q_kf_ro, r2e_ro_exchange_targets|apply r2q_kf_goc|apply r2q_kf_tbl_addM|apply r2q_kf_copy_all
             |apply r2q_kf_remove_row|apply r2q_kf_set_index_direct|apply r2q_kf_register_targets|apply r2q_kf_fire
             |apply r2q_kf_sp, sa_sp_lockM|apply r2q_kf_sp, sa_sp_unlockM].
Qed.

Lemma r2q_kf_free_table : forall aid tid, r2q_kf (free_table aid tid).
Proof. intros. unfold free_table. r2q_kf_tac. Qed.

Lemma r2q_kf_cleanup : forall e, r2q_kf (cleanup_archetypes e).
Proof.
  intros e. unfold cleanup_archetypes. r2q_kf_tac.
  all: first [apply r2q_kf_ro, r2e_ro_etu|apply r2q_kf_goc|apply r2q_kf_move_entities|apply r2q_kf_free_table
             |apply r2q_kf_cache_remove_table].
Qed.

Lemma r2q_kf_remove_entity : forall e, r2q_kf (storage_remove_entity e).
Proof.
  intros e. unfold storage_remove_entity, fire_remove_entity, fire_remove_entity_rel. r2q_kf_tac.
  all: first [apply r2q_kf_sp, sa_sp_lockM|apply r2q_kf_sp, sa_sp_unlockM|apply r2q_kf_fire
             |apply r2q_kf_pool_recycleM|apply r2q_kf_cleanup|r2q_same_mod].
Qed.

Lemma r2q_kf_any1 : forall idx any t s0, r2q_kf (ResetShrinkProofs.r_any1 idx any t s0).
Proof.
  intros. unfold ResetShrinkProofs.r_any1. r2q_kf_tac.
  all: first [apply r2q_kf_free_table|apply r2q_kf_cache_remove_table].
Qed.

Lemma r2q_kf_go : forall stop0 fuel idx any, r2q_kf (ResetShrinkProofs.r_go stop0 fuel idx any).
Proof.
  intros stop0 fuel. induction fuel as [|f IH]; intros idx any; cbn [ResetShrinkProofs.r_go]; [apply r2q_kf_ro, readonly_ret|].
  apply r2q_kf_bind; [apply r2q_kf_ro, readonly_getT|]. intros t.
  apply r2q_kf_getbind. intros s.
  assert (X : r2q_kf (any1 <- ResetShrinkProofs.r_any1 idx any t s;;
    (if (any1 && stop0)%bool then ret (idx, any1) else match f with 0 => ret (idx, any1) | S _ => ResetShrinkProofs.r_go stop0 f (S idx) any1 end))).
  { apply r2q_kf_bind; [apply r2q_kf_any1|]. intros any1.
    destruct (any1 && stop0)%bool; [apply r2q_kf_ro, readonly_ret|]. destruct f; [apply r2q_kf_ro, readonly_ret|apply IH]. }
  apply X.
Qed.

Lemma r2q_kf_shrink_core : forall stop0, r2q_kf (w_shrink_core stop0).
Proof.
  intros stop0 s. rewrite ResetShrinkProofs.r_shrink_eq. pose proof (r2q_kf_go stop0 (length (w_tables s)) 0 false s) as H.
  destruct (ResetShrinkProofs.r_go stop0 (length (w_tables s)) 0 false s); exact H.
Qed.

Lemma r2q_kf_shrink : forall stop0, r2q_kf (w_shrink stop0).
Proof.
  intros stop0. unfold w_shrink. apply r2q_kf_bind; [apply r2q_kf_ro, sc_ro_check_locked|]. intros _. apply r2q_kf_shrink_core.
Qed.

Lemma r2q_kf_write_cell : forall tid ci row v, r2q_kf (write_cell tid ci row v).
Proof. intros. unfold write_cell. r2q_kf_tac. Qed.

(** One operation of the core class keeps the filter objects and the query objects, whatever its outcome. *)
Theorem r2q_kf_step_op : forall debug o, rel_core_op o = true -> r2q_kf (step_op debug o).
Proof.
  intros debug o Hc. destruct o; cbn [rel_core_op] in Hc; try discriminate Hc; cbn [step_op]; r2q_kf_tac.
  all: first [apply r2q_kf_ro, readonly_resolveH|apply r2q_kf_ro, readonly_resolveR|apply r2q_kf_ro, sc_ro_cell_of
             |apply r2q_kf_create_entity|apply r2q_kf_new_entity|apply r2q_kf_copy_entity
             |apply r2q_kf_w_add|apply r2q_kf_w_remove|apply r2q_kf_w_exchange|apply r2q_kf_w_set_relations
             |apply r2q_kf_remove_entity|apply r2q_kf_shrink|apply r2q_kf_write_cell
             |apply r2q_kf_fire_create|apply r2q_kf_fire_create_rel|apply r2q_kf_fire_add|idtac].
Qed.

(* ================================================================================================ *)
(** * Part 2: the invariant *)

(** The relations FIXED in a filter object name relation components of the filter's own mask. For a
    typed filter this is what [to_relations] checks when the filter is built; an UnsafeFilter is not
    checked by the model, so the covered lines restrict it ([rel_q_flt_ok] below). The clause is what
    makes registering a filter sound: [CacheInv] demands it of every cache entry ([ci_entry]). *)
Definition r2q_filters_ok (s : W) : Prop :=
  forall fi f, nth_error (w_filters s) fi = Some f -> r2k_rels_ok s (f_mask f) (f_rels f).

(** [Inv2T] of Rel2Hist with "unlocked" dropped (the world may be locked: queries may be open), plus
    the clause on the filter objects. No clause relating [w_lock] to the open queries is needed. *)
Definition Inv2Q (s : W) (n : nat) : Prop :=
  St2 s /\ r2d_KeysLive s /\ r2e_noobs s /\ issued_ok s n /\ archs_tabled_norel s /\ r2q_filters_ok s.

Lemma r2q_Inv2T_of_Q : forall s n, Inv2Q s n -> is_locked s = false -> Inv2T s n.
Proof.
  intros s n (H1 & H2 & H3 & H4 & H5 & _) Hl. split; [|exact H5].
  split; [exact H1|]. split; [exact H2|]. split; [split; assumption|exact H4].
Qed.

Lemma r2q_Inv2Q_of_T : forall s n, Inv2T s n -> r2q_filters_ok s -> Inv2Q s n.
Proof.
  intros s n ((H1 & H2 & (H3 & _) & H4) & H5) H6. repeat (split; [assumption|]). exact H6.
Qed.

Lemma r2q_issued_ok_mono : forall s n m, n <= m -> issued_ok s n -> issued_ok s m.
Proof.
  intros s n m Hnm (I1 & I2 & I3). split; [exact I1|]. split; [|lia].
  intros i l g E Hi. pose proof (I2 i l g E Hi). lia.
Qed.

Lemma r2q_Inv2Q_mono : forall s n m, n <= m -> Inv2Q s n -> Inv2Q s m.
Proof.
  intros s n m Hnm (H1 & H2 & H3 & H4 & H5 & H6). repeat (split; [assumption|]).
  split; [apply (r2q_issued_ok_mono s n m Hnm H4)|]. split; assumption.
Qed.

Lemma r2q_filters_ok_ext : forall s s', w_reg s' = w_reg s -> w_filters s' = w_filters s -> r2q_filters_ok s -> r2q_filters_ok s'.
Proof. intros s s' Er Ef H fi f Hf. rewrite Ef in Hf. apply (r2k_rels_ok_ext s s' _ _ Er). apply (H fi f Hf). Qed.

Lemma r2q_tabled_ext : forall s s', w_archs s' = w_archs s -> archs_tabled_norel s -> archs_tabled_norel s'.
Proof. intros s s' E H aid a Ha. rewrite E in Ha. apply (H aid a Ha). Qed.

(** Everything but [St2] and the filter clause follows from a few field equalities. *)
Lemma r2q_transfer : forall s s' n, Inv2Q s n -> St2 s' -> r2q_filters_ok s' ->
  w_archs s' = w_archs s -> w_pool s' = w_pool s -> (forall x, live s' x = live s x) ->
  w_oagg s' = w_oagg s -> w_issued s' = w_issued s -> Inv2Q s' n.
Proof.
  intros s s' n (H1 & H2 & H3 & H4 & H5 & H6) HS HF EA EP HL EO EI.
  split; [exact HS|]. split; [apply (r2d_KeysLive_mono s s' H2 EA); intros x Hx; rewrite HL; exact Hx|].
  split; [intros ev; rewrite (sb1_has_obs_eq s s' ev EO); apply H3|].
  split; [apply (r2e_issued_ok_ext s s' n EP HL); [intros x Hx; left; rewrite <- EI; exact Hx|exact H4]|].
  split; [apply (r2q_tabled_ext s s' EA H5)|exact HF].
Qed.

Lemma r2q_Inv2Q_log : forall s n l, Inv2Q s n -> Inv2Q (s <| w_log := l |>) n.
Proof.
  intros s n l HI. pose proof HI as (H1 & _ & _ & _ & _ & H6).
  apply (r2q_transfer s _ n HI); try reflexivity.
  - apply (r2e_St2_ext s); try reflexivity. exact H1.
  - apply (r2q_filters_ok_ext s); try reflexivity. exact H6.
Qed.

(** ** Changes confined to the filter objects and the filter cache *)

Lemma r2q_WF_cache : forall s s',
  w_cfg s' = w_cfg s -> w_reg s' = w_reg s -> w_pool s' = w_pool s -> w_index s' = w_index s ->
  w_istarget s' = w_istarget s -> w_archs s' = w_archs s -> w_tables s' = w_tables s ->
  w_compindex s' = w_compindex s -> w_archcount s' = w_archcount s ->
  (forall addr, In addr (w_centries s') -> exists e, nth_error (w_cheap s') addr = Some e /\ ce_filter e < length (w_filters s')) ->
  WF s -> WF s'.
Proof.
  intros s s' E1 E2 E3 E4 E5 E6 E7 E9 E10 HCa H.
  assert (K : forall c, kind_of s' c = kind_of s c) by (apply sa_kind_of_ext; auto).
  assert (L : forall e, loc s' e = loc s e) by (apply sa_loc_ext; auto).
  assert (KM : forall l, map (kind_of s') l = map (kind_of s) l) by (intros; apply map_ext; auto).
  destruct H. constructor; rewrite ?E1, ?E2, ?E3, ?E4, ?E5, ?E6, ?E7, ?E9, ?E10; auto.
  - intros tid t Ht. destruct (wf_layout tid t Ht) as (a & A1 & A2 & A3 & A4). exists a. rewrite KM. auto.
  - intros aid a Ha. destruct (wf_arch_comps aid a Ha) as (A1 & A2 & A3 & A4 & A5).
    repeat split; auto. rewrite A3. apply map_ext. intros c. rewrite K. reflexivity.
  - intros tid t r Ht Hr. rewrite L. auto.
Qed.

Lemma r2q_St2_cache : forall s s',
  w_cfg s' = w_cfg s -> w_reg s' = w_reg s -> w_pool s' = w_pool s -> w_index s' = w_index s ->
  w_istarget s' = w_istarget s -> w_archs s' = w_archs s -> w_tables s' = w_tables s -> w_relarchs s' = w_relarchs s ->
  w_compindex s' = w_compindex s -> w_archcount s' = w_archcount s ->
  (forall addr, In addr (w_centries s') -> exists e, nth_error (w_cheap s') addr = Some e /\ ce_filter e < length (w_filters s')) ->
  CacheInv s' -> St2 s -> St2 s'.
Proof.
  intros s s' E1 E2 E3 E4 E5 E6 E7 E8 E9 E10 HCa HC (HW & (HR & HT) & _).
  split; [apply (r2q_WF_cache s s'); assumption|]. split; [split|exact HC].
  - apply (r2_RelInvG_ext s s'); assumption.
  - apply (r2c_TargetFlagsG_ext r2_none s s' HT E6 E5).
Qed.

(** the filter objects after a change of cache ids only *)
Definition r2q_fsame (F F' : list fobj) : Prop :=
  length F' = length F /\
  forall i f', nth_error F' i = Some f' ->
    exists f, nth_error F i = Some f /\ f_mask f' = f_mask f /\ f_without f' = f_without f /\
              f_haswithout f' = f_haswithout f /\ f_rels f' = f_rels f.

Lemma r2q_fsame_refl : forall F, r2q_fsame F F.
Proof. intros F. split; [reflexivity|]. intros i f H. exists f. repeat split; auto. Qed.

Lemma r2q_fsame_updf : forall F fi c, r2q_fsame F (updf fi (fun f0 : fobj => f0 <| f_cache := c |>) F).
Proof.
  intros F fi c. split; [apply updf_length|]. intros i f' H. rewrite TableProofs.nth_error_updf in H.
  destruct (Nat.eqb fi i).
  - destruct (nth_error F i) as [f|]; [|discriminate]. cbn in H. injection H as <-. exists f. repeat split; reflexivity.
  - exists f'. repeat split; auto.
Qed.

Lemma r2q_matches_twin : forall f f' m, f_mask f' = f_mask f -> f_without f' = f_without f ->
  f_haswithout f' = f_haswithout f -> filter_matches f' m = filter_matches f m.
Proof. intros f f' m E1 E2 E3. unfold filter_matches. rewrite E1, E2, E3. reflexivity. Qed.

Lemma r2q_member_twin : forall s s' f f' rels tid, w_tables s' = w_tables s -> w_archs s' = w_archs s ->
  f_mask f' = f_mask f -> f_without f' = f_without f -> f_haswithout f' = f_haswithout f ->
  (r2_cache_member s' f' rels tid <-> r2_cache_member s f rels tid).
Proof.
  intros s s' f f' rels tid Et Ea E1 E2 E3. unfold r2_cache_member. rewrite Et, Ea.
  split; intros (t & a & H1 & H2 & H3 & H4 & H5); exists t, a; repeat (split; [assumption|]).
  - split; [rewrite <- (r2q_matches_twin f f' _ E1 E2 E3); exact H4|exact H5].
  - split; [rewrite (r2q_matches_twin f f' _ E1 E2 E3); exact H4|exact H5].
Qed.

Lemma r2q_filters_ok_fsame : forall s s', w_reg s' = w_reg s -> r2q_fsame (w_filters s) (w_filters s') ->
  r2q_filters_ok s -> r2q_filters_ok s'.
Proof.
  intros s s' Er (_ & Hf) H fi f' Hf'. destruct (Hf fi f' Hf') as (f & Hf0 & E1 & _ & _ & E4).
  rewrite E1, E4. apply (r2k_rels_ok_ext s s' _ _ Er). apply (H fi f Hf0).
Qed.

(** an entry of the old state, read through the new filter list *)
Lemma r2q_ci_entry_old : forall s s', CacheInv s -> w_tables s' = w_tables s -> w_archs s' = w_archs s ->
  (forall i f', nth_error (w_filters s') i = Some f' -> i < length (w_filters s) ->
     exists f, nth_error (w_filters s) i = Some f /\ f_mask f' = f_mask f /\ f_without f' = f_without f /\
               f_haswithout f' = f_haswithout f) ->
  forall addr e f', In addr (w_centries s) -> nth_error (w_cheap s) addr = Some e -> ce_filter e < length (w_filters s) ->
    nth_error (w_filters s') (ce_filter e) = Some f' ->
    NoDup (ce_tables e) /\ (forall r, In r (ce_rels e) -> mk_get (f_mask f') (fst r) = true) /\
    (forall tid, In tid (ce_tables e) -> tid < length (w_tables s')) /\
    (forall tid, ~ r2_none tid -> (In tid (ce_tables e) <-> r2_cache_member s' f' (ce_rels e) tid)).
Proof.
  intros s s' HC Et Ea HF addr e f' Hin He Hlt Hf'.
  destruct (HF _ f' Hf' Hlt) as (f & Hf & E1 & E2 & E3).
  destruct (ci_entry _ _ HC addr e f Hin He Hf) as (C1 & C2 & C3 & C4).
  split; [exact C1|]. split; [rewrite E1; exact C2|]. split; [rewrite Et; exact C3|].
  intros tid HX. rewrite (C4 tid HX). symmetry. apply (r2q_member_twin s s' f f' _ tid Et Ea E1 E2 E3).
Qed.

(* ================================================================================================ *)
(** * Part 3: the query operations and filter creation *)

Definition r2q_query_op (o : op) : bool :=
  match o with
  | OQueryAll _ _ | OQueryOpen _ _ | OQueryNext _ | OQueryClose _ | OQueryCount _ | OQueryEntityAt _ _ | OQueryEntity _ => true
  | _ => false
  end.

Lemma r2q_fr_drain_go : forall d qi fuel acc, q_fr (StorageD.sd_drain_go d qi fuel acc).
Proof.
  intros d qi fuel. induction fuel as [|fu IH]; intros acc; [apply q_fr_ret|].
  cbn [StorageD.sd_drain_go]. apply q_fr_bind; [intros s; apply query_next_frame|]. intros more.
  destruct more; [|apply q_fr_ret].
  apply q_fr_bind; [apply q_fr_readonly, StorageD.sd_ro_query_entity|]. intros e. apply IH.
Qed.

(** Every query operation (with arbitrary arguments, in both outcomes) changes only the query objects and the lock. *)
Theorem r2q_fr_step_op : forall debug o, r2q_query_op o = true -> q_fr (step_op debug o).
Proof.
  intros debug o Hq. destruct o; try discriminate Hq; [rewrite StorageD.sd_step_op_QueryAll | cbn [step_op] ..].
  - apply q_fr_bind; [apply q_fr_readonly, readonly_resolveR|]. intros rl.
    apply q_fr_bind; [apply q_fr_readonly, readonly_resolve_relidx|]. intros ?rl.
    apply q_fr_bind; [apply q_fr_readonly, readonly_check_unsafe_rels|]. intros _.
    apply q_fr_bind; [intros s; apply query_open_frame|]. intros qi.
    apply q_fr_bind; [apply q_fr_readonly, StorageD.sd_ro_query_count|]. intros cnt.
    apply q_fr_bind; [apply r2q_fr_drain_go|]. intros es.
    apply q_fr_bind; [apply q_fr_close|]. intros _. apply q_fr_ret.
  - apply q_fr_bind; [apply q_fr_readonly, readonly_resolveR|]. intros rl.
    apply q_fr_bind; [apply q_fr_readonly, readonly_resolve_relidx|]. intros ?rl.
    apply q_fr_bind; [apply q_fr_readonly, readonly_check_unsafe_rels|]. intros _.
    apply q_fr_bind; [intros s; apply query_open_frame|]. intros qi. apply q_fr_ret.
  - apply q_fr_bind; [intros s; apply query_next_frame|]. intros b. apply q_fr_ret.
  - apply q_fr_bind; [apply q_fr_close|]. intros b. apply q_fr_ret.
  - apply q_fr_bind; [apply q_fr_readonly, StorageD.sd_ro_query_count|]. intros b. apply q_fr_ret.
  - apply q_fr_bind; [apply q_fr_readonly, StorageD.sd_ro_query_entity_at|]. intros b. apply q_fr_ret.
  - apply q_fr_bind; [apply q_fr_readonly, StorageD.sd_ro_query_entity|]. intros b. apply q_fr_ret.
Qed.

(** what a step outside the core class keeps *)
Definition r2q_kept (s s' : W) (n : nat) : Prop :=
  Inv2Q s' n /\ w_reg s' = w_reg s /\ w_issued s' = w_issued s /\ (forall x, live s' x = live s x).

Lemma r2q_kept_refl : forall s n, Inv2Q s n -> r2q_kept s s n.
Proof. intros s n H. split; [exact H|]. repeat split; reflexivity. Qed.

Lemma r2q_kept_frame : forall s s' n, Inv2Q s n -> query_frame s s' -> r2q_kept s s' n.
Proof.
  intros s s' n HI HF. pose proof HI as (H1 & _ & _ & _ & _ & H6). pose proof (r2k_St2_frame s s' H1 HF) as HS.
  destruct HF as (E1 & E2 & E3 & E4 & E5 & E6 & E7 & E8 & E9 & E10 & E11 & E12 & E13 & E14 & E15 & E16 & E17 & E18 & E19 & E20 & E21).
  assert (HL : forall x, live s' x = live s x) by (apply r2_live_ext; assumption).
  split; [|split; [exact E2|split; [exact E17|exact HL]]].
  apply (r2q_transfer s s' n HI HS); try assumption.
  apply (r2q_filters_ok_ext s s' E2 E15 H6).
Qed.

(** *** Filter creation *)

(** The fixed relations of an UNSAFE filter name relation components of the filter's id list (for a typed
    filter [to_relations] checks this itself and the line is rejected otherwise). *)
Definition rel_q_flt_ok (reg : list ckind) (o : op) : Prop :=
  match o with
  | OFilterNew true ids _ _ hrels =>
      forall hr, In hr hrels ->
        match nth_error reg (fst hr) with Some k => ck_rel k | None => false end = true /\ In (fst hr) ids
  | _ => True
  end.

Lemma r2q_filter_new_state : forall (s : W) f n, Inv2Q s n -> r2k_rels_ok s (f_mask f) (f_rels f) ->
  r2q_kept s (s <| w_filters ::= fun l => l ++ [f] |>) n.
Proof.
  intros s f n HI Hok. pose proof HI as (H1 & _ & _ & _ & _ & H6). pose proof H1 as (HW & _ & HC).
  set (s' := s <| w_filters ::= fun l => l ++ [f] |>).
  assert (HS : St2 s').
  { apply (r2q_St2_cache s s'); try reflexivity; [| |exact H1].
    - intros addr Hin. destruct (wf_cache _ HW addr Hin) as (e & He & Lt). exists e. split; [exact He|].
      unfold s'. cbn. rewrite app_length. cbn. lia.
    - split; [exact (ci_nodup _ _ HC)|]. intros addr e f' Hin He Hf'.
      destruct (wf_cache _ HW addr Hin) as (e0 & He0 & Lt). change (w_cheap s') with (w_cheap s) in He.
      rewrite He0 in He. injection He as <-.
      apply (r2q_ci_entry_old s s' HC eq_refl eq_refl) with (addr := addr); try assumption.
      intros i f0 Hf0 Hi. unfold s' in Hf0. cbn in Hf0. rewrite nth_error_app1 in Hf0 by exact Hi.
      exists f0. repeat split; auto. }
  split; [|repeat split; reflexivity].
  apply (r2q_transfer s s' n HI HS); try reflexivity.
  intros fi f0 Hf0. unfold s' in Hf0. cbn in Hf0. apply sa_nth_error_snoc in Hf0. destruct Hf0 as [(_ & Hf0)|(_ & ->)].
  - apply (H6 fi f0 Hf0).
  - exact Hok.
Qed.

Lemma r2q_op_OFilterNew : forall debug s n u ids wo ex hrels, Inv2Q s n ->
  rel_q_flt_ok (w_reg s) (OFilterNew u ids wo ex hrels) ->
  r2q_kept s (state_of (step_op debug (OFilterNew u ids wo ex hrels) s)) n.
Proof.
  intros debug s n u ids wo ex hrels HI Hflt. cbn [step_op].
  destruct (r2e_resolveR hrels s) as [(rels & E & HR)|(er & E)].
  2:{ rewrite (sa_bind_err E). apply (r2q_kept_refl s n HI). }
  rewrite (sa_bind_ok E). rewrite sb2_bind_get.
  assert (Hw : (exists x, whenM (negb u) (to_relations (mk_of_list ids) rels) s = Ok x s /\
                  (u = false -> r2k_rels_ok s (mk_of_list ids) rels)) \/
               (exists er, whenM (negb u) (to_relations (mk_of_list ids) rels) s = Err er s)).
  { destruct u; cbn [negb whenM].
    - left. exists tt. split; [reflexivity|discriminate].
    - destruct (sc_ro_cases _ _ (readonly_to_relations (mk_of_list ids) rels) s) as [([] & Et)|(er & Et)].
      + left. exists tt. split; [exact Et|]. intros _. apply (r2k_to_relations_ok _ _ _ _ Et).
      + right. exists er. exact Et. }
  destruct Hw as [(x & Ew & Hok)|(er & Ew)].
  2:{ rewrite (sa_bind_err Ew). apply (r2q_kept_refl s n HI). }
  rewrite (sa_bind_ok Ew).
  match goal with |- r2q_kept s (state_of ((modify ?g ;;; ?k) s)) n =>
    assert (Em : modify g s = Ok tt (g s)) by reflexivity; rewrite (sa_bind_ok Em) end.
  unfold ret. cbn [state_of]. apply r2q_filter_new_state; [exact HI|]. cbn [f_mask f_rels].
  destruct u; [|apply Hok; reflexivity].
  cbn [rel_q_flt_ok] in Hflt. intros r Hr.
  destruct (r2e_resolved_rev s hrels rels r HR Hr) as (hr & Hin & Hfst & _).
  destruct (Hflt hr Hin) as (Hk & Hi). rewrite <- Hfst.
  split; [unfold is_rel_comp; exact Hk|apply mk_get_of_list; exact Hi].
Qed.

(* ================================================================================================ *)
(** * Part 4: registering and unregistering a filter *)

(** the fields outside the filter objects, the filter cache, the query objects and the lock *)
Definition r2q_core_same (s s' : W) : Prop :=
  w_cfg s' = w_cfg s /\ w_reg s' = w_reg s /\ w_pool s' = w_pool s /\ w_index s' = w_index s /\
  w_istarget s' = w_istarget s /\ w_archs s' = w_archs s /\ w_tables s' = w_tables s /\ w_relarchs s' = w_relarchs s /\
  w_compindex s' = w_compindex s /\ w_archcount s' = w_archcount s /\ w_oagg s' = w_oagg s /\ w_issued s' = w_issued s.

(** A change of the cache: the filter objects keep everything but their cache ids; every registered entry of
    the new state is an entry of the old state, or a new entry that satisfies the clauses of [CacheInv]. *)
Lemma r2q_kept_cache : forall s s' n, Inv2Q s n -> r2q_core_same s s' ->
  r2q_fsame (w_filters s) (w_filters s') -> NoDup (w_centries s') ->
  (forall addr, In addr (w_centries s') ->
     (In addr (w_centries s) /\ nth_error (w_cheap s') addr = nth_error (w_cheap s) addr) \/
     (exists e, nth_error (w_cheap s') addr = Some e /\ ce_filter e < length (w_filters s) /\
        forall f', nth_error (w_filters s') (ce_filter e) = Some f' ->
          NoDup (ce_tables e) /\ (forall r, In r (ce_rels e) -> mk_get (f_mask f') (fst r) = true) /\
          (forall tid, In tid (ce_tables e) -> tid < length (w_tables s')) /\
          (forall tid, ~ r2_none tid -> (In tid (ce_tables e) <-> r2_cache_member s' f' (ce_rels e) tid)))) ->
  r2q_kept s s' n.
Proof.
  intros s s' n HI (E1 & E2 & E3 & E4 & E5 & E6 & E7 & E8 & E9 & E10 & E11 & E12) HF ND Hent.
  pose proof HI as (H1 & _ & _ & _ & _ & H6). pose proof H1 as (HW & _ & HC). pose proof HF as (HFl & HFn).
  assert (HF' : forall i f', nth_error (w_filters s') i = Some f' -> i < length (w_filters s) ->
            exists f, nth_error (w_filters s) i = Some f /\ f_mask f' = f_mask f /\ f_without f' = f_without f /\
                      f_haswithout f' = f_haswithout f).
  { intros i f' Hf' _. destruct (HFn i f' Hf') as (f & A & B & C & D & _). exists f. repeat split; assumption. }
  assert (HS : St2 s').
  { apply (r2q_St2_cache s s'); try assumption.
    - intros addr Hin. destruct (Hent addr Hin) as [(Hold & Ec)|(e & He & Lt & _)].
      + destruct (wf_cache _ HW addr Hold) as (e & He & Lt). exists e. rewrite Ec, HFl. split; assumption.
      + exists e. rewrite HFl. split; assumption.
    - split; [exact ND|]. intros addr e f' Hin He Hf'.
      destruct (Hent addr Hin) as [(Hold & Ec)|(e0 & He0 & Lt & Hnew)].
      + rewrite Ec in He. destruct (wf_cache _ HW addr Hold) as (e0 & He0 & Lt). rewrite He0 in He. injection He as <-.
        apply (r2q_ci_entry_old s s' HC E7 E6 HF' addr e0 f' Hold He0 Lt Hf').
      + rewrite He0 in He. injection He as <-. apply (Hnew f' Hf'). }
  assert (HL : forall x, live s' x = live s x) by (apply r2_live_ext; assumption).
  split; [|split; [exact E2|split; [exact E12|exact HL]]].
  apply (r2q_transfer s s' n HI HS); try assumption.
  apply (r2q_filters_ok_fsame s s' E2 HF H6).
Qed.

Theorem r2q_register_kept : forall fi s n, Inv2Q s n -> r2q_kept s (state_of (filter_register fi s)) n.
Proof.
  intros fi s n HI. pose proof HI as (H1 & _ & _ & _ & _ & H6). pose proof H1 as (HW & _ & HC).
  destruct (StorageD.sd_register_shape fi s) as [E|(f & id & p' & Hf & [E|(tabs & EU & E)])]; rewrite E; clear E.
  - apply (r2q_kept_refl s n HI).
  - apply (r2q_kept_cache s _ n HI).
    + unfold r2q_core_same. cbn. repeat split.
    + cbn. apply r2q_fsame_updf.
    + cbn. exact (ci_nodup _ _ HC).
    + cbn. intros addr Hin. left. split; [exact Hin|reflexivity].
  - assert (Hfi : fi < length (w_filters s)) by (eapply sa_nth_error_lt; eauto).
    assert (Hfresh : ~ In (length (w_cheap s)) (w_centries s)).
    { intros Hin. destruct (wf_cache _ HW _ Hin) as (e & He & _). apply sa_nth_error_lt in He. lia. }
    pose proof (r2k_uncached_spec s f (f_rels f) H1 (H6 fi f Hf)) as Hu. rewrite EU in Hu. destruct Hu as (_ & NDt & Hsel).
    apply (r2q_kept_cache s _ n HI).
    + unfold r2q_core_same. cbn. repeat split.
    + cbn. apply r2q_fsame_updf.
    + cbn. apply StorageD.sd_NoDup_snoc; [exact (ci_nodup _ _ HC)|exact Hfresh].
    + cbn. intros addr Hin. apply in_app_or in Hin. destruct Hin as [Hin|[<-|[]]].
      * left. split; [exact Hin|]. destruct (wf_cache _ HW addr Hin) as (e & He & _).
        apply nth_error_app1. eapply sa_nth_error_lt; eauto.
      * right. eexists. split; [apply sa_nth_error_snoc_new|]. cbn [ce_filter ce_rels ce_tables]. split; [exact Hfi|].
        intros f' Hf'. rewrite TableProofs.nth_error_updf, Nat.eqb_refl, Hf in Hf'. cbn in Hf'. injection Hf' as <-.
        split; [exact NDt|]. split; [intros r Hr; apply (H6 fi f Hf r Hr)|]. split.
        -- intros tid Ht. apply Hsel in Ht. destruct Ht as (t & a & Ht & _). eapply sa_nth_error_lt; eauto.
        -- intros tid _. rewrite Hsel, <- r2k_member_sel. symmetry.
           apply r2q_member_twin; reflexivity.
Qed.

Theorem r2q_unregister_kept : forall fi s n, Inv2Q s n -> r2q_kept s (state_of (filter_unregister fi s)) n.
Proof.
  intros fi s n HI. pose proof HI as (H1 & _). pose proof H1 as (HW & _ & HC).
  destruct (StorageD.sd_unregister_shape fi s) as [E|(idx & Hidx & E)]; rewrite E; clear E.
  - apply (r2q_kept_refl s n HI).
  - destruct (StorageD.sd_swap_removed_spec idx (w_centries s) (ci_nodup _ _ HC) Hidx) as (ND' & Sub).
    apply (r2q_kept_cache s _ n HI).
    + unfold r2q_core_same. cbn. repeat split.
    + cbn. apply r2q_fsame_updf.
    + cbn. exact ND'.
    + cbn. intros addr Hin. left. split; [apply Sub; exact Hin|reflexivity].
Qed.

(** ** The ten operations that join the class *)

Definition r2q_new_op (o : op) : bool :=
  match o with
  | OFilterNew _ _ _ _ _ | OFilterRegister _ | OFilterUnregister _ => true
  | _ => r2q_query_op o
  end.

Definition rel_q_op (o : op) : bool := (rel_core_op o || r2q_new_op o)%bool.

Lemma r2q_state_bind_ret : forall A B (m : MW A) (b : B) s, state_of ((m ;;; ret b) s) = state_of (m s).
Proof. intros A B m b s. unfold bind. destruct (m s); reflexivity. Qed.

Theorem r2q_new_op_spec : forall debug s n o, Inv2Q s n -> r2q_new_op o = true -> rel_q_flt_ok (w_reg s) o ->
  r2q_kept s (state_of (step_op debug o s)) n.
Proof.
  intros debug s n o HI Hn Hflt.
  destruct (r2q_query_op o) eqn:Hq.
  - apply (r2q_kept_frame s _ n HI). apply (r2q_fr_step_op debug o Hq).
  - destruct o; try discriminate Hn; try discriminate Hq.
    + apply (r2q_op_OFilterNew debug s n _ _ _ _ _ HI Hflt).
    + cbn [step_op]. rewrite r2q_state_bind_ret. apply (r2q_register_kept f s n HI).
    + cbn [step_op]. rewrite r2q_state_bind_ret. apply (r2q_unregister_kept f s n HI).
Qed.

(* ================================================================================================ *)
(** * Part 5: the operations of the core class on a LOCKED world *)

Lemma r2q_issue_plain : forall o (r : res W (list Z)), returns_entity o = false -> sc_issue o r = state_of r.
Proof. intros o r H. unfold sc_issue. rewrite H. destruct r as [[|i [|g rest]] s1|er s1]; reflexivity. Qed.

Lemma r2q_issue_err : forall o er (s : W), sc_issue o (Err er s) = s.
Proof. reflexivity. Qed.

Lemma r2q_op_OWrite : forall debug s n h c v, Inv2Q s n -> r2q_kept s (state_of (step_op debug (OWrite h c v) s)) n.
Proof.
  intros debug s n h c v HI. pose proof HI as (HS & _ & _ & _ & _ & H6). cbn [step_op].
  unfold bind at 1. rewrite sc_resolveH. destruct (handle s h) as [e|]; [|apply (r2q_kept_refl s n HI)].
  pose proof (L_write_spec2 s debug e c v HS) as Hs.
  unfold bind at 1 in Hs. unfold bind at 1.
  destruct (cell_of debug e c s) as [[[tid ci] row] s1|er s1].
  - cbv beta iota in Hs |- *. unfold bind. destruct (write_cell tid ci row v s1) as [u s2|er s2].
    + destruct Hs as (A1 & _ & _ & _ & _ & _ & _ & A8 & A9 & A10 & A11 & A12). cbn [state_of ret].
      destruct A11 as (_ & _ & _ & _ & Eo & _). destruct A12 as (F1 & _ & F3 & _ & F5 & _).
      split; [|split; [exact F1|split; [exact F5|exact A8]]].
      apply (r2q_transfer s s2 n HI A1); try assumption. apply (r2q_filters_ok_ext s s2 F1 F3 H6).
    + subst s2. apply (r2q_kept_refl s n HI).
  - subst s1. apply (r2q_kept_refl s n HI).
Qed.

Lemma r2q_ro_OGetRel : forall debug h c, readonly (step_op debug (OGetRel h c)).
Proof.
  intros. cbn [step_op].
  apply readonly_bind; [apply readonly_resolveH|]. intros e.
  apply readonly_bind; [apply sc_ro_cell_of|]. intros [[tid ci] row].
  apply readonly_bind; [apply readonly_getT|]. intros t. ro.
Qed.
Lemma r2q_ro_OGet : forall debug h c, readonly (step_op debug (OGet h c)).
Proof.
  intros. cbn [step_op].
  apply readonly_bind; [apply readonly_resolveH|]. intros e.
  apply readonly_bind; [apply sc_ro_cell_of|]. intros [[tid ci] row].
  apply readonly_bind; [apply readonly_getT|]. intros t. ro.
Qed.

Lemma r2q_reading_kept : forall debug s n o, Inv2Q s n -> reading o = true -> r2q_kept s (state_of (step_op debug o s)) n.
Proof. intros debug s n o HI Hr. rewrite (reads_do_not_change_state debug o s Hr). apply (r2q_kept_refl s n HI). Qed.

(** On a locked world an operation of the core class is rejected with the state unchanged (the structural
    ones, [structural_blocked]), does not change the state (the reads), or writes one cell (OWrite). *)
Theorem r2q_core_locked : forall debug s n o, Inv2Q s n -> is_locked s = true -> rel_core_op o = true ->
  r2q_kept s (state_of (step_op debug o s)) n /\ sc_issue o (step_op debug o s) = state_of (step_op debug o s).
Proof.
  intros debug s n o HI Hl Hc. destruct (structural o) eqn:Hs.
  - destruct (structural_blocked debug o s Hs Hl) as (er & E). rewrite E. split; [apply (r2q_kept_refl s n HI)|reflexivity].
  - assert (Hre : returns_entity o = false) by (destruct o; try discriminate Hc; try discriminate Hs; reflexivity).
    split; [|apply r2q_issue_plain; exact Hre].
    destruct o; try discriminate Hc; try discriminate Hs.
    + apply (r2q_op_OWrite debug s n _ _ _ HI).
    + apply (r2q_reading_kept debug s n _ HI); reflexivity.
    + apply (r2q_reading_kept debug s n _ HI); reflexivity.
    + rewrite (r2q_ro_OGetRel debug h c s). apply (r2q_kept_refl s n HI).
    + apply (r2q_reading_kept debug s n _ HI); reflexivity.
    + rewrite (r2q_ro_OGet debug h c s). apply (r2q_kept_refl s n HI).
    + apply (r2q_reading_kept debug s n _ HI); reflexivity.
Qed.

(* ================================================================================================ *)
(** * Part 6: one step of the operation language, all histories *)

Lemma r2q_step_state_new : forall debug wd s line o, decode_op line = Some o -> r2q_new_op o = true ->
  fst (step debug wd s line) = state_of (step_op debug o (s <| w_log := [] |>)) <| w_log := [] |>.
Proof.
  intros debug wd s line o Hd Hn. apply (StorageD.sd_step_state_plain debug wd s line o Hd).
  - destruct o; try discriminate Hn; reflexivity.
  - destruct o; try discriminate Hn; reflexivity.
Qed.

Lemma r2q_kept_finish : forall s s1 n, Inv2Q s n -> r2q_kept (s <| w_log := [] |>) s1 n ->
  Inv2Q (s1 <| w_log := [] |>) (S n) /\ w_reg (s1 <| w_log := [] |>) = w_reg s /\
  w_issued (s1 <| w_log := [] |>) = w_issued s.
Proof.
  intros s s1 n _ (K1 & K2 & K3 & _). split; [|split; [exact K2|exact K3]].
  apply (r2q_Inv2Q_mono _ n (S n)); [lia|]. apply r2q_Inv2Q_log. exact K1.
Qed.

(** the filter and query objects across a step of the core class *)
Lemma r2q_uq_step : forall debug wd s line o, decode_op line = Some o -> rel_core_op o = true ->
  r2q_uq s (fst (step debug wd s line)).
Proof.
  intros debug wd s line o Hd Hc. rewrite (r2e_step_state debug wd s line o Hd Hc).
  set (s0 := s <| w_log := [] |>). pose proof (r2q_kf_step_op debug o Hc s0) as (U1 & U2).
  unfold sc_issue. destruct (step_op debug o s0) as [[|i [|g rest]] s1|er s1]; cbn [state_of] in *;
    try (split; assumption). destruct (returns_entity o); split; assumption.
Qed.

(** The side condition on a line, as in [step_inv2]: the component ids it ADDS are registered; and for an
    UnsafeFilter with fixed relations, [rel_q_flt_ok]. *)
Theorem step_inv2Q : forall debug wd s n line o,
  Inv2Q s n -> n + 4 < Nat.pow 2 31 -> decode_op line = Some o -> rel_q_op o = true ->
  (forall c, In c (rel_op_ids o) -> c < length (w_reg s)) -> rel_q_flt_ok (w_reg s) o ->
  let s' := fst (step debug wd s line) in
  Inv2Q s' (S n) /\ w_reg s' = w_reg s /\
  (w_issued s' = w_issued s \/ exists e, w_issued s' = w_issued s ++ [e] /\ live s' e = true /\ live s e = false).
Proof.
  intros debug wd s n line o HI Hn Hd Hop Hreg Hflt. cbv zeta.
  pose proof (r2q_Inv2Q_log s n [] HI) as HI0.
  unfold rel_q_op in Hop. destruct (rel_core_op o) eqn:Hc.
  - destruct (is_locked s) eqn:Hl.
    + rewrite (r2e_step_state debug wd s line o Hd Hc).
      destruct (r2q_core_locked debug (s <| w_log := [] |>) n o HI0 Hl Hc) as (K & E). rewrite E.
      destruct (r2q_kept_finish s _ n HI K) as (R1 & R2 & R3). split; [exact R1|]. split; [exact R2|left; exact R3].
    + pose proof (r2q_Inv2T_of_Q s n HI Hl) as (HI2 & HT). pose proof HI as (_ & _ & _ & _ & _ & H6).
      destruct (step_inv2 debug wd s n line o HI2 Hn Hd Hc Hreg) as (S1 & S2 & S3).
      pose proof (step_tabled2 debug wd s n line o HI2 Hn Hd Hc Hreg HT) as S4.
      destruct (r2q_uq_step debug wd s line o Hd Hc) as (U1 & _).
      split; [|split; assumption]. apply r2q_Inv2Q_of_T; [split; assumption|].
      apply (r2q_filters_ok_ext s _ S2 U1 H6).
  - cbn [orb] in Hop. rewrite (r2q_step_state_new debug wd s line o Hd Hop).
    assert (K : r2q_kept (s <| w_log := [] |>) (state_of (step_op debug o (s <| w_log := [] |>))) n)
      by (apply (r2q_new_op_spec debug _ n o HI0 Hop); exact Hflt).
    destruct (r2q_kept_finish s _ n HI K) as (R1 & R2 & R3). split; [exact R1|]. split; [exact R2|left; exact R3].
Qed.

(** ** The initial world and all reachable states *)

Theorem r2q_init : forall c, cfg_ok2 c -> Inv2Q (init_world c) 0.
Proof.
  intros c Hc. apply r2q_Inv2Q_of_T; [split; [apply r2e_init; exact Hc|apply archs_tabled_init]|].
  intros fi f Hf. unfold init_world in Hf. cbn [w_filters] in Hf. destruct fi; discriminate.
Qed.

Definition rel_q_line (reg : list ckind) (line : list Z) : Prop :=
  exists o, decode_op line = Some o /\ rel_q_op o = true /\ (forall c, In c (rel_op_ids o) -> c < length reg) /\
            rel_q_flt_ok reg o.

Lemma r2q_run_inv : forall c, cfg_ok2 c -> forall lines,
  Forall (rel_q_line (sc_kinds c)) lines -> length lines + 4 < Nat.pow 2 31 ->
  Inv2Q (Properties.Common.exec c lines) (length lines) /\ w_reg (Properties.Common.exec c lines) = sc_kinds c.
Proof.
  intros c Hc lines. induction lines as [|l lines IH] using rev_ind; intros HF Hb.
  - split; [apply r2q_init; exact Hc|reflexivity].
  - apply Forall_app in HF. destruct HF as (HF & Hl). inversion Hl as [|? ? (o & Hd & Hco & Hids & Hflt) _]; subst.
    rewrite app_length in *. cbn [length] in *. rewrite Nat.add_1_r in *.
    destruct IH as (IH1 & IH2); [exact HF|lia|].
    unfold Properties.Common.exec in *. rewrite fold_left_app. cbn [fold_left].
    destruct (step_inv2Q (sc_debug c) false _ (length lines) l o IH1) as (S1 & S2 & _); auto; try lia.
    { rewrite IH2. exact Hids. }
    { rewrite IH2. exact Hflt. }
    split; [exact S1|congruence].
Qed.

Theorem reachable_inv2Q : forall c lines,
  cfg_ok2 c -> Forall (rel_q_line (sc_kinds c)) lines -> length lines + 4 < Nat.pow 2 31 ->
  Inv2Q (Properties.Common.exec c lines) (length lines).
Proof. intros c lines Hc Hl Hb. apply (r2q_run_inv c Hc lines Hl Hb). Qed.

(* ================================================================================================ *)
(** * Part 7: corollaries over the larger class *)

(** C04: "an entity's relation target is always the zero entity or an alive entity", in every state reachable
    by a history with filters, registrations and queries (locked states included). *)
Theorem targets_always_zero_or_alive_Q : forall c lines e cmp x,
  cfg_ok2 c -> Forall (rel_q_line (sc_kinds c)) lines -> length lines + 4 < Nat.pow 2 31 ->
  tgt (Properties.Common.exec c lines) e cmp = Some x ->
  x = zero_ent \/ live (Properties.Common.exec c lines) x = true.
Proof.
  intros c lines e cmp x Hc Hl Hb H. destruct (reachable_inv2Q c lines Hc Hl Hb) as (HS & _).
  apply (r2_St2_targets _ e cmp x HS H).
Qed.

(** every step clears the callback log *)
Lemma r2q_step_log : forall debug wd s line o, decode_op line = Some o -> w_log (fst (step debug wd s line)) = [].
Proof. intros debug wd s line o Hd. unfold step. rewrite Hd. reflexivity. Qed.

Lemma r2q_exec_log : forall c lines, Forall (rel_q_line (sc_kinds c)) lines -> w_log (Properties.Common.exec c lines) = [].
Proof.
  intros c lines. induction lines as [|l lines IH] using rev_ind; intros HF; [reflexivity|].
  apply Forall_app in HF. destruct HF as (_ & Hl). inversion Hl as [|? ? (o & Hd & _) _]; subst.
  unfold Properties.Common.exec. rewrite fold_left_app. cbn [fold_left]. apply (r2q_step_log _ _ _ _ o Hd).
Qed.

Lemma r2q_log_eta : forall s : W, w_log s = [] -> s <| w_log := [] |> = s.
Proof. intros s H. destruct s. cbn in *. subst. reflexivity. Qed.

(** C07 at the level of [step]: on a locked world a structural operation is rejected and the complete state
    is exactly what it was (for any state with an empty callback log, which every state of a history has). *)
Theorem locked_structural_step_unchanged : forall debug wd s line o,
  decode_op line = Some o -> structural o = true -> is_locked s = true -> w_log s = [] ->
  (exists er, step_op debug o s = Err er s) /\ fst (step debug wd s line) = s.
Proof.
  intros debug wd s line o Hd Hs Hl Hlog. destruct (structural_blocked debug o s Hs Hl) as (er & E).
  split; [exists er; exact E|]. unfold step. rewrite Hd. cbv zeta. rewrite (r2q_log_eta s Hlog), E.
  cbn [state_of is_err negb andb fst]. rewrite Bool.andb_false_r. apply (r2q_log_eta s Hlog).
Qed.

(** In every reachable LOCKED state of a history of the larger class every structural operation (Shrink and Reset
    included, whatever its arguments) fails and leaves the state exactly unchanged. *)
Theorem reachable_locked_structural_unchanged : forall c lines wd line o,
  Forall (rel_q_line (sc_kinds c)) lines ->
  is_locked (Properties.Common.exec c lines) = true -> decode_op line = Some o -> structural o = true ->
  (exists er, step_op (sc_debug c) o (Properties.Common.exec c lines) = Err er (Properties.Common.exec c lines)) /\
  fst (step (sc_debug c) wd (Properties.Common.exec c lines) line) = Properties.Common.exec c lines.
Proof.
  intros c lines wd line o Hl Hlk Hd Hs.
  apply (locked_structural_step_unchanged (sc_debug c) wd _ line o Hd Hs Hlk (r2q_exec_log c lines Hl)).
Qed.

(** In every UNLOCKED state satisfying the invariant Reset succeeds. *)
Theorem r2q_reset_step : forall debug s n, Inv2Q s n -> is_locked s = false ->
  exists s', step_op debug OReset s = Ok [] s' /\ St2 s' /\ r2d_KeysLive s' /\ is_locked s' = false /\
    (forall e, live s' e = false) /\ w_reg s' = w_reg s.
Proof. intros debug s n HI Hl. apply (r2e_reset_step debug s n (r2q_Inv2T_of_Q s n HI Hl)). Qed.

Theorem reachable_unlocked_reset_succeeds : forall c lines,
  cfg_ok2 c -> Forall (rel_q_line (sc_kinds c)) lines -> length lines + 4 < Nat.pow 2 31 ->
  is_locked (Properties.Common.exec c lines) = false ->
  exists s', step_op (sc_debug c) OReset (Properties.Common.exec c lines) = Ok [] s' /\ St2 s' /\ r2d_KeysLive s' /\
    is_locked s' = false /\ (forall e, live s' e = false) /\ w_reg s' = w_reg (Properties.Common.exec c lines).
Proof. intros c lines Hc Hl Hb Hlk. exact (r2q_reset_step (sc_debug c) _ _ (reachable_inv2Q c lines Hc Hl Hb) Hlk). Qed.

(** ... and on a LOCKED one it is rejected (it is structural). *)
Theorem reachable_locked_reset_rejected : forall c lines,
  Forall (rel_q_line (sc_kinds c)) lines -> is_locked (Properties.Common.exec c lines) = true ->
  exists er, step_op (sc_debug c) OReset (Properties.Common.exec c lines) = Err er (Properties.Common.exec c lines).
Proof. intros c lines _ Hlk. apply (structural_blocked (sc_debug c) OReset _ eq_refl Hlk). Qed.

(** C04: removing a stored target in an unlocked reachable state detaches it ([remove_target_detaches] over the larger class). *)
Theorem remove_target_detaches_Q : forall c lines h x,
  cfg_ok2 c -> Forall (rel_q_line (sc_kinds c)) lines -> length lines + 4 < Nat.pow 2 31 ->
  let s := Properties.Common.exec c lines in
  is_locked s = false -> handle s h = Some x -> live s x = true ->
  exists s', step_op (sc_debug c) (ORemoveEntity h) s = Ok [] s' /\ St2 s' /\ live s' x = false /\
    forall e, e <> x -> live s' e = live s e /\ (forall cmp, val s' e cmp = val s e cmp) /\
      (forall cmp, tgt s' e cmp = r2c_detached x (tgt s e cmp)).
Proof.
  intros c lines h x Hc Hl Hb s Hlk Hh Hlx.
  destruct (r2q_Inv2T_of_Q s _ (reachable_inv2Q c lines Hc Hl Hb) Hlk) as (HI2 & _).
  destruct (remove_target_detaches_step (sc_debug c) s (length lines) h x HI2 Hh Hlx) as (s' & E & P1 & _ & P3 & _ & P5).
  exists s'. repeat (split; [assumption|]). exact P5.
Qed.

(** ... while on a locked reachable state the same call is rejected and nothing is detached. *)
Theorem remove_target_locked_rejected_Q : forall c lines h,
  Forall (rel_q_line (sc_kinds c)) lines -> is_locked (Properties.Common.exec c lines) = true ->
  exists er, step_op (sc_debug c) (ORemoveEntity h) (Properties.Common.exec c lines) = Err er (Properties.Common.exec c lines).
Proof. intros c lines h _ Hlk. apply (structural_blocked (sc_debug c) (ORemoveEntity h) _ eq_refl Hlk). Qed.

(** The cached and the uncached selection agree in every reachable state: the hypotheses of
    [r2k_cached_tables_exact] on the fixed relations hold for every filter object of a reachable state. *)
Theorem reachable_filters_ok : forall c lines fi f,
  cfg_ok2 c -> Forall (rel_q_line (sc_kinds c)) lines -> length lines + 4 < Nat.pow 2 31 ->
  nth_error (w_filters (Properties.Common.exec c lines)) fi = Some f ->
  r2k_rels_ok (Properties.Common.exec c lines) (f_mask f) (f_rels f) /\ r2k_tabled (Properties.Common.exec c lines) f.
Proof.
  intros c lines fi f Hc Hl Hb Hf. destruct (reachable_inv2Q c lines Hc Hl Hb) as (_ & _ & _ & _ & HT & HF).
  split; [apply (HF fi f Hf)|]. intros aid a Ha _ Hn. apply (HT aid a Ha Hn).
Qed.

(* ================================================================================================ *)
(** * Part 8: non-vacuity, and why the restriction on UnsafeFilter lines is needed *)

Definition rel_q_flt_okb (reg : list ckind) (o : op) : bool :=
  match o with
  | OFilterNew true ids _ _ hrels =>
      forallb (fun hr : hrel => (match nth_error reg (fst hr) with Some k => ck_rel k | None => false end && memb (fst hr) ids)%bool) hrels
  | _ => true
  end.

Lemma rel_q_flt_okb_sound : forall reg o, rel_q_flt_okb reg o = true -> rel_q_flt_ok reg o.
Proof.
  intros reg o H. destruct o; try exact I. destruct unsafe; [|exact I]. cbn [rel_q_flt_okb rel_q_flt_ok] in *.
  intros hr Hin. rewrite forallb_forall in H. specialize (H hr Hin). apply andb_true_iff in H. destruct H as (H1 & H2).
  split; [exact H1|apply sa_memb_in; exact H2].
Qed.

Definition rel_q_line_b (reg : list ckind) (line : list Z) : bool :=
  match decode_op line with
  | Some o => (rel_q_op o && forallb (fun c => Nat.ltb c (length reg)) (rel_op_ids o) && rel_q_flt_okb reg o)%bool
  | None => false
  end.

Lemma rel_q_line_b_sound : forall reg lines, forallb (rel_q_line_b reg) lines = true -> Forall (rel_q_line reg) lines.
Proof.
  intros reg lines H. apply Forall_forall. intros l Hl. rewrite forallb_forall in H. specialize (H l Hl).
  unfold rel_q_line_b in H. destruct (decode_op l) as [o|] eqn:E; [|discriminate].
  apply andb_true_iff in H. destruct H as (H12 & H3). apply andb_true_iff in H12. destruct H12 as (H1 & H2).
  exists o. split; [exact E|]. split; [exact H1|]. split; [|apply rel_q_flt_okb_sound; exact H3].
  intros c Hc. rewrite forallb_forall in H2. apply Nat.ltb_lt. apply H2. exact Hc.
Qed.

Local Open Scope Z_scope.

(** components of [r2_cfg]: 0,1,2 plain; 3,4 relation components; 5 pointer-bearing; 6 zero-size; 7 zero-size relation *)
Definition r2q_script : list (list Z) :=
  [[0]; [0];
   [2; 2;0;3; 1; 3;0];              (* handle 2: components 0 and 3, relation 3 -> handle 0 *)
   [15; 0; 2;0;3; 0; 0; 1; 3;0];    (* filter 0: typed, components 0 and 3, fixed relation 3 -> handle 0 *)
   [16; 0];                         (* register it *)
   [16; 0];                         (* twice: rejected *)
   [15; 1; 1;0; 0; 0; 0];           (* filter 1: UnsafeFilter over component 0 *)
   [15; 1; 2;0;3; 0; 0; 1; 3;1];    (* filter 2: UnsafeFilter with a fixed relation (in its id list) *)
   [15; 0; 1;0; 0; 0; 1; 3;0];      (* typed filter whose relation is not in its mask: rejected by to_relations *)
   [19; 0; 0];                      (* query 0 on the registered filter: the world is LOCKED from here ... *)
   [0];                             (* NewEntity: rejected *)
   [2; 2;0;3; 1; 3;1];              (* NewEntityRel: rejected *)
   [14; 0];                         (* Shrink: rejected *)
   [9; 2; 0; 7];                    (* a write is allowed *)
   [37; 2; 0];
   [20; 0]; [24; 0]; [22; 0]; [23; 0; 0];   (* Next, Entity, Count, EntityAt *)
   [19; 1; 0];                      (* query 1 on the unsafe filter *)
   [20; 0];                         (* query 0 is exhausted and closes itself; query 1 still holds its lock bit *)
   [14; 0];                         (* Shrink: still rejected *)
   [11; 0];                         (* RemoveEntity of the target: rejected *)
   [21; 1];                         (* Close query 1: ... to here *)
   [21; 1];                         (* Close again: a no-op *)
   [0];                             (* NewEntity succeeds again *)
   [18; 0; 0];                      (* complete iterations *)
   [18; 2; 0];
   [16; 2];                         (* register the unsafe filter with the (admissible) fixed relation *)
   [17; 0];                         (* unregister *)
   [17; 0];                         (* twice: rejected *)
   [20; 7];                         (* unknown query: rejected *)
   [19; 9; 0];                      (* unknown filter: rejected *)
   [11; 0];                         (* the target dies: the entries of the registered filters follow *)
   [18; 2; 0];
   [2; 2;0;3; 1; 3;1];
   [18; 0; 1; 3;1];                 (* per-query relation on the (now unregistered) filter 0 *)
   [14; 0]; [38]].

Example r2q_script_covered : forallb (rel_q_line_b (sc_kinds Rel2Check.r2_cfg)) r2q_script = true.
Proof. vm_compute. reflexivity. Qed.

(** 0 = the step returned normally, 1 = it panicked *)
Example r2q_script_runs :
  Rel2Check.r2_flags Rel2Check.r2_cfg (init_world Rel2Check.r2_cfg) r2q_script =
  [0;0; 0; 0; 0; 1; 0; 0; 1; 0; 1; 1; 1; 0; 0; 0;0;0;0; 0; 0; 1; 1; 0; 0; 0; 0; 0; 0; 0; 1; 1; 1; 0; 0; 0; 0; 0;0].
Proof. vm_compute. reflexivity. Qed.

(** the lock after 0, 1, ... steps: locked after steps 10 to 23 *)
Example r2q_script_locked :
  map (fun k => is_locked (Properties.Common.exec Rel2Check.r2_cfg (firstn k r2q_script))) (seq 0 40) =
  repeat false 10 ++ repeat true 14 ++ repeat false 16.
Proof. vm_compute. reflexivity. Qed.

Lemma r2q_script_lines : Forall (rel_q_line (sc_kinds Rel2Check.r2_cfg)) r2q_script.
Proof. apply rel_q_line_b_sound. exact r2q_script_covered. Qed.

Lemma r2q_firstn_lines : forall k, Forall (rel_q_line (sc_kinds Rel2Check.r2_cfg)) (firstn k r2q_script).
Proof.
  intros k. apply Forall_forall. intros l Hl. pose proof r2q_script_lines as H. rewrite Forall_forall in H.
  apply H. rewrite <- (firstn_skipn k r2q_script). apply in_or_app. left. exact Hl.
Qed.

Lemma r2q_cfg_ok : cfg_ok2 Rel2Check.r2_cfg.
Proof. unfold cfg_ok2. cbn. lia. Qed.

Example r2q_script_inv : Inv2Q (Properties.Common.exec Rel2Check.r2_cfg r2q_script) (length r2q_script).
Proof.
  apply reachable_inv2Q; [exact r2q_cfg_ok|exact r2q_script_lines|].
  apply r2_N_small. vm_compute. reflexivity.
Qed.

(** The state after 13 steps: a relation component with a live target, a registered filter with its cache entry,
    an open query, the world locked (the three preceding structural calls were rejected); the invariant holds,
    and a structural call leaves this state exactly as it is. *)
Definition r2q_mid : W := Properties.Common.exec Rel2Check.r2_cfg (firstn 13 r2q_script).

Example r2q_mid_inv : Inv2Q r2q_mid 13.
Proof.
  apply (reachable_inv2Q Rel2Check.r2_cfg (firstn 13 r2q_script) r2q_cfg_ok (r2q_firstn_lines 13)).
  apply r2_N_small. vm_compute. reflexivity.
Qed.

Example r2q_mid_shape :
  is_locked r2q_mid = true /\ length (w_centries r2q_mid) = 1%nat /\
  map f_cache (w_filters r2q_mid) = [Some 0%nat; None; None] /\
  map (fun q => (q_filter q, q_cache q, q_tab q)) (w_queries r2q_mid) = [(0%nat, Some 0%nat, 1%nat)] /\
  tgt r2q_mid (4%nat, 0%N) 3 = Some (2%nat, 0%N) /\ live r2q_mid (2%nat, 0%N) = true.
Proof. vm_compute. repeat split; reflexivity. Qed.

Example r2q_mid_blocked : forall wd line o, decode_op line = Some o -> structural o = true ->
  (exists er, step_op false o r2q_mid = Err er r2q_mid) /\ fst (step false wd r2q_mid line) = r2q_mid.
Proof.
  intros wd line o Hd Hs.
  apply (reachable_locked_structural_unchanged Rel2Check.r2_cfg (firstn 13 r2q_script) wd line o (r2q_firstn_lines 13)); auto.
Qed.

Example r2q_end_reset : exists s', step_op false OReset (Properties.Common.exec Rel2Check.r2_cfg r2q_script) = Ok [] s' /\ St2 s'.
Proof.
  destruct (reachable_unlocked_reset_succeeds Rel2Check.r2_cfg r2q_script r2q_cfg_ok r2q_script_lines) as (s' & E & HS & _).
  - apply r2_N_small. vm_compute. reflexivity.
  - vm_compute. reflexivity.
  - exists s'. split; assumption.
Qed.

(** ** (refuted) [step_inv2Q] / [reachable_inv2Q] WITHOUT the side condition [rel_q_flt_ok]

    The model does not check the fixed relations of an UnsafeFilter (it skips [to_relations]) and lets any filter
    object be registered. (In Go an UnsafeFilter has no Register method, so these scripts exist in the model
    only; they are outside the language of the harness as far as registration goes.) Registering such a
    filter breaks [CacheInv], hence [St2]:
    - [r2q_register_unsafe_refuted_mask]: the fixed relation names a component outside the filter's mask
      (clause 2 of [ci_entry] fails for the new entry);
    - [r2q_register_unsafe_refuted_nonrel]: it names a PLAIN component of the mask with the zero target: the
      uncached walk that fills the entry looks the table up in the (empty) per-column index and finds nothing,
      while [tbl_matches] accepts the table (clause 4, exactness, fails; tables created later ARE added).
    Both lines of each script are in [rel_q_op] with registered component ids; only [rel_q_flt_ok] fails. *)
Definition r2q_line_noflt_b (nreg : nat) (line : list Z) : bool :=
  match decode_op line with
  | Some o => (rel_q_op o && forallb (fun c => Nat.ltb c nreg) (rel_op_ids o))%bool
  | None => false
  end.

Definition r2q_bad_mask : list (list Z) := [[0]; [15; 1; 1;0; 0; 0; 1; 3;0]; [16; 0]].
Definition r2q_bad_nonrel : list (list Z) := [[0]; [15; 1; 2;0;1; 0; 0; 1; 1;-1]; [2; 3;0;1;3; 1; 3;0]; [16; 0]].

Example r2q_register_unsafe_refuted_mask :
  forallb (r2q_line_noflt_b 8) r2q_bad_mask = true /\
  forallb (rel_q_line_b (sc_kinds Rel2Check.r2_cfg)) r2q_bad_mask = false /\
  Rel2Check.r2_flags Rel2Check.r2_cfg (init_world Rel2Check.r2_cfg) r2q_bad_mask = [0; 0; 0] /\
  St2 (Properties.Common.exec Rel2Check.r2_cfg (firstn 2 r2q_bad_mask)) /\
  ~ St2 (Properties.Common.exec Rel2Check.r2_cfg r2q_bad_mask).
Proof.
  split; [vm_compute; reflexivity|]. split; [vm_compute; reflexivity|]. split; [vm_compute; reflexivity|].
  split; [apply st2_b_sound; vm_compute; reflexivity|].
  intros (_ & _ & HC). set (s := Properties.Common.exec Rel2Check.r2_cfg r2q_bad_mask) in *.
  assert (X : exists e f r, In 0%nat (w_centries s) /\ nth_error (w_cheap s) 0 = Some e /\
                nth_error (w_filters s) (ce_filter e) = Some f /\ In r (ce_rels e) /\ mk_get (f_mask f) (fst r) = false).
  { vm_compute. do 3 eexists. split; [left; reflexivity|]. split; [reflexivity|]. split; [reflexivity|].
    split; [left; reflexivity|reflexivity]. }
  destruct X as (e & f & r & Hin & He & Hf & Hr & Hm).
  destruct (ci_entry _ _ HC 0%nat e f Hin He Hf) as (_ & C2 & _). rewrite (C2 r Hr) in Hm. discriminate.
Qed.

Example r2q_register_unsafe_refuted_nonrel :
  forallb (r2q_line_noflt_b 8) r2q_bad_nonrel = true /\
  forallb (rel_q_line_b (sc_kinds Rel2Check.r2_cfg)) r2q_bad_nonrel = false /\
  Rel2Check.r2_flags Rel2Check.r2_cfg (init_world Rel2Check.r2_cfg) r2q_bad_nonrel = [0; 0; 0; 0] /\
  St2 (Properties.Common.exec Rel2Check.r2_cfg (firstn 3 r2q_bad_nonrel)) /\
  ~ St2 (Properties.Common.exec Rel2Check.r2_cfg r2q_bad_nonrel).
Proof.
  split; [vm_compute; reflexivity|]. split; [vm_compute; reflexivity|]. split; [vm_compute; reflexivity|].
  split; [apply st2_b_sound; vm_compute; reflexivity|].
  intros (_ & _ & HC). set (s := Properties.Common.exec Rel2Check.r2_cfg r2q_bad_nonrel) in *.
  assert (X : exists tid e f, In 0%nat (w_centries s) /\ nth_error (w_cheap s) 0 = Some e /\
                nth_error (w_filters s) (ce_filter e) = Some f /\ ~ In tid (ce_tables e) /\
                r2_cache_member s f (ce_rels e) tid).
  { exists 1%nat. unfold r2_cache_member. vm_compute. do 2 eexists. split; [left; reflexivity|]. split; [reflexivity|].
    split; [reflexivity|]. split; [intros []|]. do 2 eexists. split; [reflexivity|]. split; [reflexivity|].
    split; [reflexivity|]. split; [reflexivity|]. intros _. reflexivity. }
  destruct X as (tid & e & f & Hin & He & Hf & Hn & Hm).
  destruct (ci_entry _ _ HC 0%nat e f Hin He Hf) as (_ & _ & _ & C4). apply Hn. apply (C4 tid (fun x => x)). exact Hm.
Qed.

Local Close Scope Z_scope.

(** ** Assumption audit *)
Definition r2q_all :=
  (r2q_kf_step_op, r2q_fr_step_op, r2q_register_kept, r2q_unregister_kept, r2q_new_op_spec, r2q_core_locked,
   step_inv2Q, r2q_init, reachable_inv2Q, targets_always_zero_or_alive_Q,
   locked_structural_step_unchanged, reachable_locked_structural_unchanged, r2q_reset_step,
   reachable_unlocked_reset_succeeds, reachable_locked_reset_rejected, remove_target_detaches_Q,
   remove_target_locked_rejected_Q, reachable_filters_ok,
   r2q_script_inv, r2q_mid_inv, r2q_mid_shape, r2q_mid_blocked, r2q_end_reset,
   r2q_register_unsafe_refuted_mask, r2q_register_unsafe_refuted_nonrel).
Print Assumptions r2q_all.
