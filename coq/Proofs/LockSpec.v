(** * LockSpec: statements about bitPool / lock (pool.go, lock.go) over all histories. Property C07. *)
From Ark Require Import Model.Base Model.Mask Model.Pool.

(** A history: [LLock] takes a lock bit, [LUnlock b] releases bit [b] (any [b < 64], held or not:
    an unbalanced unlock must be rejected and change nothing). The ghost list is the set of held bits. *)
Inductive lop := LLock | LUnlock (b : nat).

Record lghost := { lg_lock : lockst; lg_held : list nat; lg_errs : nat }.
Definition lghost0 : lghost := {| lg_lock := lock_new; lg_held := []; lg_errs := 0 |}.

Definition remove_nat (b : nat) (l : list nat) : list nat := filter (fun x => negb (Nat.eqb x b)) l.

Definition lstep (g : lghost) (o : lop) : lghost :=
  match o with
  | LLock =>
      match lock_lock (lg_lock g) with
      | Some (b, l') => {| lg_lock := l'; lg_held := b :: lg_held g; lg_errs := lg_errs g |}
      | None => {| lg_lock := lg_lock g; lg_held := lg_held g; lg_errs := S (lg_errs g) |}
      end
  | LUnlock b =>
      match lock_unlock (lg_lock g) b with
      | Some l' => {| lg_lock := l'; lg_held := remove_nat b (lg_held g); lg_errs := lg_errs g |}
      | None => {| lg_lock := lg_lock g; lg_held := lg_held g; lg_errs := S (lg_errs g) |}
      end
  end.

Definition lrun (ops : list lop) : lghost := fold_left lstep ops lghost0.
