(** * BatchOps: whole-operation theorems for the batch operations (relation-free tier).

    Main theorems (helper lemmas carry the prefix [bo_]):
    - [exchange_batch_spec] (ExchangeBatch / AddBatch / RemoveBatch over the tables a filter selects),
      with [exchange_batch_nocomps], the reading through the filter [exchange_batch_by_filter], and
      [exchange_batch_spec_partial] (hypothesis "filter exists" + unregistered + every archetype has a
      table + [tables_listed]); the statement with "filter exists" alone is refuted:
      [exchange_batch_spec_refuted];
    - the selection: [batch_tables_uncached], [batch_selection_uncached], [batch_tables_uncached_nodup],
      [batch_tables_uncached_ok], [batch_selection_cached] (registered filters, under the cache
      invariant [k_cache_exact_tol] of CacheProofs). Completeness needs the clause [tables_listed]
      (every non-empty table is listed by its archetype), which [WF] lacks: explicit hypothesis;
    - [remove_entities_spec] / [remove_entities_spec_partial] (RemoveEntities);
    - [new_batch_spec] (MapN.NewBatch / NewBatchFn without relations).
    Each comes with an [Example] of a reachable world satisfying its hypotheses and a computed run.
    Refinements of the informal targets, each witnessed by a concrete run at the end of the file:
    a zero-sized added component reads zero whatever the callback was given ([bo_cbval]);
    [vals] must only name added components (otherwise the callback panics after the first table
    has been moved); a selected non-empty table that is not ready makes the call fail before
    anything is moved; the deferred unlock releases the lock bit ([is_locked s' = false]). *)
From Ark Require Import Model.Base Model.Mask Model.Pool Model.Util Model.World Model.Run.
From Ark Require Import Proofs.TableProofs Proofs.MaskProofs Proofs.WF Proofs.StorageA Proofs.StorageBDefs.
From Ark Require Import Proofs.StorageB_sb1 Proofs.StorageB_sb2 Proofs.StorageB_sb3 Proofs.ViewProofs.
From Ark Require Import Proofs.ObsDoc Proofs.CacheProofs Proofs.QueryProofs Proofs.BatchProofs Proofs.StorageC.
From Ark Require Import Properties.Common.
From RecordUpdate Require Import RecordSet.
Import RecordSetNotations.
From Coq Require Import Lia.

(* ------------------------------------------------------------------ *)
(** ** Generic helpers *)

Lemma bo_bind_ok : forall A B (m : MW A) (k : A -> MW B) s a s', m s = Ok a s' -> bind m k s = k a s'.
Proof. intros A B m k s a s' H. unfold bind. rewrite H. reflexivity. Qed.
Lemma bo_bind_err : forall A B (m : MW A) (k : A -> MW B) s e s', m s = Err e s' -> bind m k s = Err e s'.
Proof. intros A B m k s e s' H. unfold bind. rewrite H. reflexivity. Qed.
Arguments bo_bind_ok {A B m k s a s'} _.
Arguments bo_bind_err {A B m k s e s'} _.

(** Taking a lock bit on an unlocked world and giving it back leaves the world unlocked. *)
Lemma bo_lock_cycle : forall s b l', is_locked s = false -> lock_lock (w_lock s) = Some (b, l') ->
  lock_unlock l' b = Some {| lk_pool := ipool_recycle (lk_pool l') b; lk_mask := 0%N |}.
Proof.
  intros s b l' Hunl LL.
  assert (Hmask : lk_mask (w_lock s) = 0%N).
  { unfold is_locked, lock_is_locked, mk_is_zero in Hunl. apply negb_false_iff in Hunl. apply N.eqb_eq in Hunl. exact Hunl. }
  assert (Hl'def : l' = {| lk_pool := lk_pool l'; lk_mask := mk_set 0%N b |}).
  { unfold lock_lock in LL. destruct (ipool_get (Some 64) (lk_pool (w_lock s))) as [[b0 p0]|]; [|discriminate].
    inversion LL; subst. rewrite Hmask. reflexivity. }
  rewrite Hl'def. unfold lock_unlock. cbn [lk_mask lk_pool]. rewrite MaskProofs.mk_get_set, Nat.eqb_refl. cbn [orb].
  rewrite b_mask_unlock. reflexivity.
Qed.

Lemma bo_lock_taken : forall s b l', lock_lock (w_lock s) = Some (b, l') -> lock_is_locked l' = true.
Proof.
  intros s b l' LL. unfold lock_lock in LL.
  destruct (ipool_get (Some 64) (lk_pool (w_lock s))) as [[b0 p0]|]; [|discriminate].
  inversion LL; subst. unfold lock_is_locked, mk_is_zero. cbn [lk_mask].
  apply negb_true_iff. apply N.eqb_neq. intros E.
  assert (G : mk_get (mk_set (lk_mask (w_lock s)) b) b = true).
  { rewrite MaskProofs.mk_get_set, Nat.eqb_refl. reflexivity. }
  rewrite E, sa_mk_get_0 in G. discriminate.
Qed.

(* ------------------------------------------------------------------ *)
(** ** The table selection of a batch is a pure function of filters, cache, tables, archetypes *)

Definition bo_gbt (F : list fobj) (H : list centry) (C : list nat) (T : list table) (A : list arch)
           (fi : nat) (rels : list rel) : err + list nat :=
  match nth_error F fi with
  | None => inl EIndex
  | Some f =>
      match f_cache f with
      | Some cid =>
          match find (fun addr => match nth_error H addr with Some e => Nat.eqb (ce_id e) cid | None => false end) C with
          | None => inl EIndex
          | Some addr =>
              match nth_error H addr with
              | None => inl EIndex
              | Some e => k_tm_pure T rels true (ce_tables e) []
              end
          end
      | None => k_upure T f rels A []
      end
  end.

Lemma bo_gbt_pure : forall fi rels s,
  get_batch_tables fi rels s =
  k_inj (bo_gbt (w_filters s) (w_cheap s) (w_centries s) (w_tables s) (w_archs s) fi rels) s.
Proof.
  intros fi rels s. unfold get_batch_tables, getF, bo_gbt.
  unfold bind at 1. unfold bind at 1. unfold get at 1. cbv beta iota.
  destruct (nth_error (w_filters s) fi) as [f|]; [|reflexivity]. cbn [of_opt ret].
  destruct (f_cache f) as [cid|].
  - unfold bind at 1. unfold get at 1. cbv beta iota.
    destruct (find _ (w_centries s)) as [addr|]; [|reflexivity].
    unfold bind at 1. destruct (nth_error (w_cheap s) addr) as [e|]; [|reflexivity]. cbn [of_opt ret].
    apply k_tables_matching_pure.
  - apply k_uncached_pure.
Qed.

Lemma bo_gbt_frame : forall fi rels s s' tabs, storage_same s s' ->
  get_batch_tables fi rels s = Ok tabs s -> get_batch_tables fi rels s' = Ok tabs s'.
Proof.
  intros fi rels s s' tabs SS H. rewrite bo_gbt_pure in *.
  destruct SS as (E1 & E2 & E3 & E4 & E5 & E6 & E7 & E8 & E9 & E10 & E11 & E12 & E13 & E14 & E15 & E16 & E17 & E18).
  rewrite E15, E12, E13, E7, E6.
  destruct (bo_gbt (w_filters s) (w_cheap s) (w_centries s) (w_tables s) (w_archs s) fi rels); cbn [k_inj] in *; [discriminate|].
  inversion H; reflexivity.
Qed.

Lemma bo_tm_pure_valid : forall T rels b l acc r, k_tm_pure T rels b l acc = inr r ->
  (forall x, In x acc -> exists t, nth_error T x = Some t) ->
  forall x, In x r -> exists t, nth_error T x = Some t.
Proof.
  intros T rels b l. induction l as [|tid rest IH]; intros acc r H Hacc x Hx.
  - cbn in H. inversion H; subst r. apply in_rev in Hx. auto.
  - cbn [k_tm_pure] in H. destruct (nth_error T tid) as [t|] eqn:Et; [|discriminate].
    destruct (b && Nat.eqb (t_len t) 0)%bool; [eapply IH; eauto|].
    destruct (tbl_matches t rels) as [[|]|]; [|eapply IH; eauto|discriminate].
    eapply IH; [exact H| |exact Hx]. intros y [<-|Hy]; eauto.
Qed.

Lemma bo_sel_valid : forall s f l acc r, WF s -> (forall a, In a l -> exists aid, nth_error (w_archs s) aid = Some a) ->
  k_sel f l acc = Some r ->
  (forall x, In x acc -> exists t, nth_error (w_tables s) x = Some t) ->
  forall x, In x r -> exists t, nth_error (w_tables s) x = Some t.
Proof.
  intros s f l. induction l as [|a rest IH]; intros acc r HW Hl H Hacc x Hx.
  - cbn in H. inversion H; subst r. auto.
  - cbn [k_sel] in H.
    assert (Hl' : forall a0, In a0 rest -> exists aid, nth_error (w_archs s) aid = Some a0) by (intros; apply Hl; right; assumption).
    destruct (negb (filter_matches f (a_mask a))); [eapply IH; eauto|].
    destruct (a_tables a) as [|t0 tl] eqn:Eta; [discriminate|].
    eapply IH; [exact HW|exact Hl'|exact H| |exact Hx].
    intros y Hy. apply in_app_or in Hy. destruct Hy as [Hy|[<-|[]]]; [auto|].
    destruct (Hl a (or_introl eq_refl)) as (aid & Ha).
    destruct (wf_arch_tables _ HW aid a t0 Ha) as (t & Ht & _); [left; rewrite Eta; left; reflexivity|eauto].
Qed.

(** Every selected table exists. *)
Lemma bo_gbt_valid : forall s fi tabs, St s -> get_batch_tables fi [] s = Ok tabs s ->
  forall tid, In tid tabs -> exists t, nth_error (w_tables s) tid = Some t.
Proof.
  intros s fi tabs [HW HN] H. rewrite bo_gbt_pure in H. unfold bo_gbt in H.
  destruct (nth_error (w_filters s) fi) as [f|]; [|discriminate].
  destruct (f_cache f) as [cid|].
  - destruct (find _ (w_centries s)) as [addr|]; [|discriminate].
    destruct (nth_error (w_cheap s) addr) as [e|]; [|discriminate].
    destruct (k_tm_pure (w_tables s) [] true (ce_tables e) []) as [er|r] eqn:E; cbn [k_inj] in H; [discriminate|].
    inversion H; subst r. eapply bo_tm_pure_valid; [exact E|intros x []].
  - rewrite k_upure_norel in H by (apply k_norel_archs; exact HN).
    destruct (k_sel f (w_archs s) []) as [r|] eqn:E; cbn [k_inj] in H; [|discriminate].
    inversion H; subst r. eapply (bo_sel_valid s f (w_archs s) []); [exact HW| |exact E|intros x []].
    intros a Ha. apply In_nth_error in Ha. exact Ha.
Qed.

(* ------------------------------------------------------------------ *)
(** ** The destination finder succeeds exactly when the source table is ready *)

(** [bo_ready add rem ids]: a table with components [ids] can take part in the exchange. *)
Definition bo_ready (add rem ids : list nat) : Prop :=
  NoDup add /\ NoDup rem /\ (forall c, In c rem -> In c ids) /\ (forall c, In c add -> ~ In c ids).

Lemma bo_gf_add_ok : forall st ids m s, NoDup ids ->
  (forall c, In c ids -> mk_get m c = false /\ mk_get st c = false) ->
  exists m', gf_add (Some st) ids m s = Ok m' s.
Proof.
  intros st ids. induction ids as [|c t IH]; intros m s ND H.
  - exists m. reflexivity.
  - inversion ND as [|? ? Hnin ND']; subst. cbn [gf_add].
    destruct (H c (or_introl eq_refl)) as (H1 & H2). rewrite H1, H2.
    apply IH; [exact ND'|]. intros c' Hc'. destruct (H c' (or_intror Hc')) as (G1 & G2). split; [|exact G2].
    rewrite MaskProofs.mk_get_set, G1. destruct (Nat.eqb_spec c c'); [subst; contradiction|reflexivity].
Qed.

Lemma bo_foct_ok : forall s old ot add rem m0,
  St s -> nth_error (w_tables s) old = Some ot ->
  (forall j, mk_get m0 j = true -> j < length (w_reg s)) -> (forall c, In c add -> c < length (w_reg s)) ->
  NoDup add -> NoDup rem -> (forall c, In c rem -> mk_get m0 c = true) -> (forall c, In c add -> mk_get m0 c = false) ->
  exists r s', find_or_create_table old add rem [] m0 s = Ok r s'.
Proof.
  intros s old ot add rem m0 HS Hot Hm0 Hadd NDa NDr Hr Ha. unfold find_or_create_table.
  pose proof (sa_gf_remove_spec rem m0 s) as G.
  destruct (gf_remove rem m0 s) as [m1 s0|e s0] eqn:EG.
  2:{ destruct G as (_ & Hn). exfalso. apply Hn. split; assumption. }
  destruct G as (-> & Hm1 & _ & _). rewrite (sa_bind_ok EG).
  destruct (bo_gf_add_ok m0 add m1 s NDa) as (m & EG2).
  { intros c Hc. split; [|apply Ha; exact Hc]. rewrite Hm1, (Ha c Hc). reflexivity. }
  pose proof (sa_gf_add_spec (Some m0) add m1 s) as G. rewrite EG2 in G. destruct G as (_ & Hm & _).
  rewrite (sa_bind_ok EG2).
  assert (Hb : forall j, mk_get m j = true -> j < length (w_reg s)).
  { intros j Hj. rewrite Hm, Hm1 in Hj. apply orb_true_iff in Hj. destruct Hj as [Hj|Hj].
    - apply andb_true_iff in Hj. destruct Hj as [Hj _]. auto.
    - apply Hadd, sa_memb_in; exact Hj. }
  destruct (sa_finder_tail s old ot m HS Hot Hb) as (Hrl & aid & s1 & a & E1 & E2 & Ma & E3 & tid & s2 & E4 & P).
  rewrite (sa_bind_ok E1), (sa_bind_ok E2), (sa_bind_ok E3). rewrite Hrl.
  assert (X : (match rem with
               | [] => (@nil rel, false)
               | _ :: _ => let '(sv, rm) := surviving_rels a [] in (sv ++ [], rm)
               end) = ([], false)) by (destruct rem; reflexivity).
  rewrite X. rewrite (sa_bind_ok E4). unfold ret. eauto.
Qed.

(** Mask conditions of the finder, read on the component list of the table. *)
Lemma bo_ready_mask : forall s tid t a add rem, WF s -> nth_error (w_tables s) tid = Some t ->
  nth_error (w_archs s) (t_arch t) = Some a -> registered s add ->
  (bo_ready add rem (t_ids t) <->
   (NoDup add /\ NoDup rem /\ (forall c, In c rem -> mk_get (a_mask a) c = true) /\
    (forall c, In c add -> mk_get (a_mask a) c = false))).
Proof.
  intros s tid t a add rem HW Ht Ha Hreg.
  destruct (sb2_layout _ _ _ _ HW Ht Ha) as (Hids & _ & Hlt).
  unfold bo_ready. rewrite Hids. split; intros (H1 & H2 & H3 & H4); (split; [exact H1|split; [exact H2|split]]).
  - intros c Hc. apply H3 in Hc. apply mk_to_list_spec in Hc. tauto.
  - intros c Hc. destruct (mk_get (a_mask a) c) eqn:E; [|reflexivity].
    exfalso. apply (H4 c Hc). apply mk_to_list_spec. split; [apply Hreg; exact Hc|exact E].
  - intros c Hc. apply mk_to_list_spec. split; [apply Hlt; auto|auto].
  - intros c Hc Hin. apply mk_to_list_spec in Hin. rewrite (H4 c Hc) in Hin. destruct Hin; discriminate.
Qed.

(* ------------------------------------------------------------------ *)
(** ** Phase A of ExchangeBatch: collecting the batches (source, destination, length) *)

Definition bo_collect (add rem : list nat) (rels : list rel) :=
  fix go (tabs : list nat) (acc : list (nat * nat * nat)) (rr : bool) : MW (list (nat * nat * nat) * bool) :=
    match tabs with
    | [] => ret (acc, rr)
    | tid :: rest =>
        t <- getT tid ;;
        if Nat.eqb (t_len t) 0 then go rest acc rr
        else
          om <- arch_mask_of_table tid ;;
          r <- find_or_create_table tid add rem rels om ;;
          let '(ntid, _, _, removed) := r in
          go rest (acc ++ [(tid, ntid, t_len t)]) (rr || removed)%bool
    end.

(** [bo_tmask s tid m]: table [tid] exists and its archetype has mask [m]. *)
Definition bo_tmask (s : W) (tid : nat) (m : mask) : Prop :=
  exists t a, nth_error (w_tables s) tid = Some t /\ nth_error (w_archs s) (t_arch t) = Some a /\ a_mask a = m.

Definition bo_src (b : nat * nat * nat) : nat := fst (fst b).
Definition bo_dst (b : nat * nat * nat) : nat := snd (fst b).

Definition bo_batch_ok (s : W) (add rem : list nat) (b : nat * nat * nat) : Prop :=
  exists om nm, bo_tmask s (bo_src b) om /\ bo_tmask s (bo_dst b) nm /\
    (forall j, mk_get nm j = ((mk_get om j && negb (memb j rem)) || memb j add)%bool) /\
    (forall c, In c rem -> mk_get om c = true) /\ (forall c, In c add -> mk_get om c = false).

(** Tables keep their archetype, archetypes keep their mask. *)
Definition bo_keeps (s s' : W) : Prop :=
  (forall tid t, nth_error (w_tables s) tid = Some t ->
     exists t', nth_error (w_tables s') tid = Some t' /\ t_arch t' = t_arch t) /\
  (forall aid a, nth_error (w_archs s) aid = Some a ->
     exists a', nth_error (w_archs s') aid = Some a' /\ a_mask a' = a_mask a).

Lemma bo_keeps_refl : forall s, bo_keeps s s.
Proof. intros s. split; eauto. Qed.

Lemma bo_keeps_trans : forall a b c, bo_keeps a b -> bo_keeps b c -> bo_keeps a c.
Proof.
  intros a b c (A1 & A2) (B1 & B2). split.
  - intros tid t H. destruct (A1 _ _ H) as (t' & H' & E). destruct (B1 _ _ H') as (t'' & H'' & E'). exists t''. split; [auto|congruence].
  - intros aid x H. destruct (A2 _ _ H) as (x' & H' & E). destruct (B2 _ _ H') as (x'' & H'' & E'). exists x''. split; [auto|congruence].
Qed.

Lemma bo_keeps_rows : forall s s', same_rows s s' -> bo_keeps s s'.
Proof.
  intros s s' (_ & _ & _ & _ & _ & _ & A7 & A8). split.
  - intros tid t H. destruct (A7 _ _ H) as (t' & H' & D & _). exists t'. split; [exact H'|apply D].
  - exact A8.
Qed.

Lemma bo_tmask_keeps : forall s s' tid m, bo_keeps s s' -> bo_tmask s tid m -> bo_tmask s' tid m.
Proof.
  intros s s' tid m (K1 & K2) (t & a & Ht & Ha & Hm).
  destruct (K1 _ _ Ht) as (t' & Ht' & Et). destruct (K2 _ _ Ha) as (a' & Ha' & Ea).
  exists t', a'. split; [exact Ht'|]. split; [rewrite Et; exact Ha'|congruence].
Qed.

Lemma bo_batch_ok_keeps : forall s s' add rem b, bo_keeps s s' -> bo_batch_ok s add rem b -> bo_batch_ok s' add rem b.
Proof.
  intros s s' add rem b K (om & nm & H1 & H2 & H3).
  exists om, nm. split; [eapply bo_tmask_keeps; eauto|]. split; [eapply bo_tmask_keeps; eauto|exact H3].
Qed.

Lemma bo_tmask_fun : forall s tid m m', bo_tmask s tid m -> bo_tmask s tid m' -> m = m'.
Proof. intros s tid m m' (t & a & Ht & Ha & Hm) (t' & a' & Ht' & Ha' & Hm'). congruence. Qed.

(** A destination is never a source (needs a non-trivial exchange). *)
Lemma bo_dst_not_src : forall s add rem b b', (add <> [] \/ rem <> []) ->
  bo_batch_ok s add rem b -> bo_batch_ok s add rem b' -> bo_dst b <> bo_src b'.
Proof.
  intros s add rem b b' Hnn (om & nm & _ & Hd & Hm & _ & _) (om' & nm' & Hs' & _ & _ & Hr' & Ha') E.
  rewrite E in Hd. pose proof (bo_tmask_fun _ _ _ _ Hd Hs') as ->.
  destruct Hnn as [Hnn|Hnn].
  - destruct add as [|c add']; [congruence|]. pose proof (Ha' c (or_introl eq_refl)) as F.
    rewrite Hm in F. rewrite (proj2 (sb2_memb_In c (c :: add')) (or_introl eq_refl)), orb_true_r in F. discriminate.
  - destruct rem as [|c rem']; [congruence|]. pose proof (Hr' c (or_introl eq_refl)) as F.
    rewrite Hm in F. rewrite (proj2 (sb2_memb_In c (c :: rem')) (or_introl eq_refl)) in F. cbn [negb] in F.
    rewrite andb_false_r in F. cbn [orb] in F.
    apply sb2_memb_In in F. apply Ha' in F. rewrite Hr' in F by (left; reflexivity). discriminate.
Qed.

Definition bo_P (s s' : W) : Prop := St s' /\ same_rows s s' /\ side_same s s' /\ frame_user s s'.

Lemma bo_P_refl : forall s, St s -> bo_P s s.
Proof. intros s H. split; [exact H|]. split; [apply same_rows_refl|]. split; [apply sa_side_same_refl|apply sa_frame_user_refl]. Qed.

Lemma bo_P_trans : forall a b c, bo_P a b -> bo_P b c -> bo_P a c.
Proof.
  intros a b c (_ & A2 & A3 & A4) (B1 & B2 & B3 & B4). split; [exact B1|].
  split; [eapply same_rows_trans; eauto|]. split; [eapply sa_side_same_trans; eauto|eapply sa_frame_user_trans; eauto].
Qed.

Lemma bo_rows_table : forall s s' tid t, same_rows s s' -> nth_error (w_tables s) tid = Some t ->
  exists t', nth_error (w_tables s') tid = Some t' /\ t_len t' = t_len t /\ t_ids t' = t_ids t /\ t_ents t' = t_ents t.
Proof.
  intros s s' tid t (_ & _ & _ & _ & _ & _ & A7 & _) H. destruct (A7 _ _ H) as (t' & H' & (D1 & D2 & D3 & D4 & D5 & D6 & D7) & _).
  exists t'. auto.
Qed.

Lemma bo_collect_spec : forall add rem tabs s acc rr,
  St s -> registered s add -> (forall tid, In tid tabs -> exists t, nth_error (w_tables s) tid = Some t) ->
  match bo_collect add rem [] tabs acc rr s with
  | Ok (bs', rr') s' =>
      exists bs, bs' = acc ++ bs /\ rr' = rr /\ bo_P s s' /\ Forall (bo_batch_ok s' add rem) bs /\
        (forall b, In b bs -> In (bo_src b) tabs) /\
        (forall tid t, In tid tabs -> nth_error (w_tables s) tid = Some t -> t_len t <> 0 ->
           In tid (map bo_src bs) /\ bo_ready add rem (t_ids t))
  | Err _ s' =>
      bo_P s s' /\ exists tid t, In tid tabs /\ nth_error (w_tables s) tid = Some t /\ t_len t <> 0 /\
                                 ~ bo_ready add rem (t_ids t)
  end.
Proof.
  intros add rem tabs. induction tabs as [|tid rest IH]; intros s acc rr HS Hreg Hval.
  - cbn [bo_collect]. unfold ret. exists []. rewrite app_nil_r. split; [reflexivity|]. split; [reflexivity|].
    split; [apply bo_P_refl; exact HS|]. split; [constructor|]. split; [intros b []|intros ? ? []].
  - cbn [bo_collect]. destruct (Hval tid (or_introl eq_refl)) as (t & Ht).
    rewrite (bo_bind_ok (sa_getT_eq _ _ _ Ht)).
    assert (Hval' : forall x, In x rest -> exists t0, nth_error (w_tables s) x = Some t0) by (intros; apply Hval; right; assumption).
    destruct (Nat.eqb_spec (t_len t) 0) as [Hz|Hnz].
    + specialize (IH s acc rr HS Hreg Hval').
      destruct (bo_collect add rem [] rest acc rr s) as [[bs' rr'] s'|er s'].
      * destruct IH as (bs & E1 & E2 & P & F & I1 & I2). exists bs. repeat (split; [assumption|]).
        split; [intros b Hb; right; apply I1; exact Hb|].
        intros x tx [<-|Hx] Hx2 Hx3; [congruence|eapply I2; eauto].
      * destruct IH as (P & x & tx & I1 & I2 & I3 & I4). split; [exact P|]. exists x, tx. split; [right; exact I1|auto].
    + pose proof (proj1 HS) as HW.
      destruct (wf_layout _ HW tid t Ht) as (a & Ha & _).
      rewrite (bo_bind_ok (sb2_arch_mask_ok _ _ _ _ Ht Ha)).
      destruct (sb2_layout _ _ _ _ HW Ht Ha) as (_ & _ & Hlt).
      pose proof (find_or_create_table_spec s tid t add rem (a_mask a) HS Ht Hlt Hreg) as F.
      pose proof (bo_ready_mask s tid t a add rem HW Ht Ha Hreg) as RM.
      destruct (find_or_create_table tid add rem [] (a_mask a) s) as [[[[ntid aid] m] rmv] s1|er s1] eqn:EF.
      * destruct F as (FP & -> & Hm & NDa & NDr & Hr & Had).
        rewrite (bo_bind_ok EF). rewrite orb_false_r.
        destruct FP as (HS1 & R1 & D1 & F1 & (nt & na & Hnt & Hant & Hna & Hmna)).
        assert (Hreg1 : registered s1 add).
        { intros c Hc. destruct F1 as (-> & _). apply Hreg; exact Hc. }
        assert (Hval1 : forall x, In x rest -> exists t0, nth_error (w_tables s1) x = Some t0).
        { intros x Hx. destruct (Hval' x Hx) as (t0 & Ht0). destruct (bo_rows_table _ _ _ _ R1 Ht0) as (t0' & H0 & _). eauto. }
        specialize (IH s1 (acc ++ [(tid, ntid, t_len t)]) rr HS1 Hreg1 Hval1).
        assert (P1 : bo_P s s1) by (split; [exact HS1|]; split; [exact R1|]; split; assumption).
        destruct (bo_collect add rem [] rest (acc ++ [(tid, ntid, t_len t)]) rr s1) as [[bs' rr'] s'|er s'].
        -- destruct IH as (bs & E1 & E2 & P & FA & I1 & I2).
           exists ((tid, ntid, t_len t) :: bs). split; [rewrite E1, <- app_assoc; reflexivity|]. split; [exact E2|].
           split; [eapply bo_P_trans; eauto|].
           split.
           { constructor; [|exact FA].
             apply (bo_batch_ok_keeps s1 s'); [apply bo_keeps_rows; apply P|].
             exists (a_mask a), m. split.
             { apply (bo_tmask_keeps s s1); [apply bo_keeps_rows; exact R1|]. exists t, a. auto. }
             split; [exists nt, na; subst aid; auto|]. split; [exact Hm|]. split; assumption. }
           split; [intros b [<-|Hb]; [left; reflexivity|right; apply I1; exact Hb]|].
           intros x tx [<-|Hx] Hx2 Hx3.
           ++ split; [left; reflexivity|]. rewrite Ht in Hx2. inversion Hx2; subst tx. apply RM. auto.
           ++ destruct (bo_rows_table _ _ _ _ R1 Hx2) as (tx' & Hx2' & L & I & _).
              destruct (I2 x tx' Hx Hx2') as (J1 & J2); [lia|]. split; [right; exact J1|rewrite <- I; exact J2].
        -- destruct IH as (P & x & tx & I1 & I2 & I3 & I4). split; [eapply bo_P_trans; eauto|].
           destruct (Hval' x I1) as (tx0 & Hx0). destruct (bo_rows_table _ _ _ _ R1 Hx0) as (tx' & Hx' & L & I & _).
           rewrite Hx' in I2. inversion I2; subst tx'. exists x, tx0. split; [right; exact I1|]. split; [exact Hx0|].
           split; [lia|]. rewrite <- I. exact I4.
      * rewrite (bo_bind_err EF). split; [exact F|]. exists tid, t. split; [left; reflexivity|]. split; [exact Ht|].
        split; [exact Hnz|]. intros R. apply RM in R. destruct R as (R1 & R2 & R3 & R4).
        destruct (bo_foct_ok s tid t add rem (a_mask a) HS Ht Hlt Hreg R1 R2 R3 R4) as (r & s' & E). congruence.
Qed.

(* ------------------------------------------------------------------ *)
(** ** The batch callback with values *)

Definition bo_vbody (tid row : nat) (cv : nat * Z) : MW unit :=
  t <- getT tid ;;
  match tbl_colidx t (fst cv) with
  | None => fail ENil
  | Some ci =>
      k <- of_opt (nth_error (t_kinds t) ci) EIndex ;;
      whenM (negb (ck_zs k)) (modT tid (fun t => t <| t_cols ::= updf ci (upd row (snd cv)) |>))
  end.

Lemma bo_batch_callback_eq : forall tid vals row,
  batch_callback tid vals row =
  (t <- getT tid ;; e <- of_opt (nth_error (t_ents t) row) EIndex ;; log ([101%Z] ++ Zent e) ;;;
   forM_ vals (bo_vbody tid row)).
Proof. reflexivity. Qed.

(** What the stores of one callback leave in the cell of component [c] that held [d]: the last
    value given for [c], unless [c] is zero-sized (nothing is stored then). *)
Fixpoint bo_wval (K : nat -> ckind) (c : nat) (vals : list (nat * Z)) (d : Z) : Z :=
  match vals with
  | [] => d
  | cv :: rest => bo_wval K c rest (if (Nat.eqb (fst cv) c && negb (ck_zs (K c)))%bool then snd cv else d)
  end.

Lemma bo_wval_notin : forall K c vals d, ~ In c (map fst vals) -> bo_wval K c vals d = d.
Proof.
  intros K c vals. induction vals as [|cv rest IH]; intros d H; [reflexivity|].
  cbn [bo_wval]. destruct (Nat.eqb_spec (fst cv) c) as [E|E].
  - exfalso. apply H. left. exact E.
  - cbn [andb]. apply IH. intros Hin. apply H. right. exact Hin.
Qed.

Lemma bo_vals_loop : forall K tid row vals s T,
  nth_error (w_tables s) tid = Some T -> tbl_ok T -> row < t_len T -> t_kinds T = map K (t_ids T) ->
  (forall cv, In cv vals -> In (fst cv) (t_ids T)) ->
  exists T', forM_ vals (bo_vbody tid row) s = Ok tt (sb2_setT s (upd tid T' (w_tables s))) /\
    tbl_ok T' /\ sb2_meta T T' /\ t_len T' = t_len T /\ t_ents T' = t_ents T /\
    (forall ci r, r <> row -> cell T' ci r = cell T ci r) /\
    (forall c ci, index_of c (t_ids T) = Some ci -> cell T' ci row = bo_wval K c vals (cell T ci row)).
Proof.
  intros K tid row vals. induction vals as [|cv rest IH]; intros s T Ht Hok Hrow Hk Hin.
  - exists T. split.
    { cbn [forM_]. unfold ret. rewrite (sb2_upd_same _ _ _ _ Ht), sb2_setT_id. reflexivity. }
    split; [exact Hok|]. split; [apply sb2_meta_refl|]. repeat split; auto.
  - destruct cv as [c0 v]. cbn [forM_].
    destruct (sb2_index_of_In _ _ (Hin (c0, v) (or_introl eq_refl))) as (ci0 & Eci0). cbn [fst] in Eci0.
    pose proof (sb2_index_of_nth _ _ _ Eci0) as Nci0.
    assert (Ek0 : nth_error (t_kinds T) ci0 = Some (K c0)).
    { rewrite Hk, nth_error_map, Nci0. reflexivity. }
    assert (Hin' : forall cv, In cv rest -> In (fst cv) (t_ids T)) by (intros; apply Hin; right; assumption).
    destruct (ck_zs (K c0)) eqn:Ezs.
    + assert (Hbody : bo_vbody tid row (c0, v) s = Ok tt s).
      { unfold bo_vbody. rewrite (bo_bind_ok (sb2_getT _ _ _ Ht)). unfold tbl_colidx. cbn [fst snd].
        rewrite Eci0, Ek0. cbn [of_opt]. rewrite (bo_bind_ok (m := ret (K c0)) (s := s) eq_refl). rewrite Ezs. reflexivity. }
      rewrite (bo_bind_ok Hbody).
      destruct (IH s T Ht Hok Hrow Hk Hin') as (T' & Hrun & Hok' & Hmeta & Hlen & Hents & Hc1 & Hc2).
      exists T'. split; [exact Hrun|]. repeat (split; [assumption|]).
      intros c ci Eci. rewrite (Hc2 c ci Eci). cbn [bo_wval fst snd].
      destruct (Nat.eqb_spec c0 c) as [<-|Hne]; [rewrite Ezs|]; reflexivity.
    + set (T1 := T <| t_cols ::= updf ci0 (upd row v) |>).
      assert (Hbody : bo_vbody tid row (c0, v) s = Ok tt (sb2_setT s (upd tid T1 (w_tables s)))).
      { unfold bo_vbody. rewrite (bo_bind_ok (sb2_getT _ _ _ Ht)). unfold tbl_colidx. cbn [fst snd].
        rewrite Eci0, Ek0. cbn [of_opt]. rewrite (bo_bind_ok (m := ret (K c0)) (s := s) eq_refl). rewrite Ezs. cbn [negb whenM].
        apply sb2_modT. exact Ht. }
      rewrite (bo_bind_ok Hbody).
      pose proof (col_write_ok T ci0 row v (K c0) Hok Hrow Ek0 Ezs) as Hok1. fold T1 in Hok1.
      pose proof (tbl_ok_elim _ Hok) as (O1 & O2 & O3 & O4 & O5).
      assert (Hci0 : ci0 < length (t_cols T)).
      { rewrite O3. apply nth_error_Some. congruence. }
      destruct (nth_error (t_cols T) ci0) as [col|] eqn:Ecol.
      2:{ apply nth_error_None in Ecol. lia. }
      destruct (O5 _ _ Ecol) as (Lc & _ & _).
      assert (Hcw : forall ci' r', cell T1 ci' r' = if ((ci0 =? ci') && (row =? r'))%bool then v else cell T ci' r').
      { apply (sb3_cell_write T ci0 row v col Ecol). lia. }
      assert (Ht1 : nth_error (w_tables (sb2_setT s (upd tid T1 (w_tables s)))) tid = Some T1).
      { cbn. eapply sb2_nth_error_upd_eq; eauto. }
      destruct (IH _ T1 Ht1 Hok1 Hrow Hk Hin') as (T' & Hrun & Hok' & Hmeta & Hlen & Hents & Hc1 & Hc2).
      exists T'. split.
      { rewrite Hrun. rewrite sb2_setT_setT.
        change (w_tables (sb2_setT s (upd tid T1 (w_tables s)))) with (upd tid T1 (w_tables s)).
        rewrite sb2_upd_upd. reflexivity. }
      split; [exact Hok'|]. split; [eapply sb2_meta_trans; [|exact Hmeta]; repeat split|].
      split; [exact Hlen|]. split; [exact Hents|].
      split.
      { intros ci r Hr. rewrite Hc1 by exact Hr. rewrite Hcw.
        destruct (Nat.eqb_spec row r); [congruence|]. rewrite andb_false_r. reflexivity. }
      intros c ci Eci. rewrite (Hc2 c ci Eci). cbn [bo_wval fst snd]. f_equal.
      rewrite Hcw, Nat.eqb_refl, andb_true_r.
      destruct (Nat.eqb_spec c0 c) as [<-|Hne].
      * rewrite Ezs. cbn [negb andb]. assert (ci = ci0) by congruence. subst ci. rewrite Nat.eqb_refl. reflexivity.
      * cbn [andb]. destruct (Nat.eqb_spec ci0 ci) as [<-|Hnc]; [|reflexivity].
        exfalso. apply Hne. apply sb2_index_of_nth in Eci. congruence.
Qed.

Lemma bo_cb_loop : forall K tid vals rows s T,
  nth_error (w_tables s) tid = Some T -> tbl_ok T -> (forall r, In r rows -> r < t_len T) -> NoDup rows ->
  t_kinds T = map K (t_ids T) -> (forall cv, In cv vals -> In (fst cv) (t_ids T)) ->
  exists T', forM_ rows (fun i => batch_callback tid vals i) s =
             Ok tt (b_logged (sb2_setT s (upd tid T' (w_tables s))) (map (fun r => b_entry (row_ent T r)) rows)) /\
    tbl_ok T' /\ sb2_meta T T' /\ t_len T' = t_len T /\ t_ents T' = t_ents T /\
    (forall ci r, ~ In r rows -> cell T' ci r = cell T ci r) /\
    (forall c ci r, index_of c (t_ids T) = Some ci -> In r rows -> cell T' ci r = bo_wval K c vals (cell T ci r)).
Proof.
  intros K tid vals rows. induction rows as [|r0 rows IH]; intros s T Ht Hok Hrows Hnd Hk Hin.
  - exists T. split.
    { cbn [forM_ map]. unfold ret. rewrite (sb2_upd_same _ _ _ _ Ht), sb2_setT_id, b_logged_nil. reflexivity. }
    split; [exact Hok|]. split; [apply sb2_meta_refl|]. repeat split; auto. intros c ci r _ [].
  - inversion Hnd as [|? ? Hnin Hnd']; subst.
    pose proof (tbl_ok_elim _ Hok) as (O1 & O2 & _).
    assert (Hr0 : r0 < t_len T) by (apply Hrows; left; reflexivity).
    assert (He : nth_error (t_ents T) r0 = Some (row_ent T r0)).
    { apply nth_error_nth'. lia. }
    set (s0 := b_logged s [b_entry (row_ent T r0)]).
    assert (Ht0 : nth_error (w_tables s0) tid = Some T) by exact Ht.
    destruct (bo_vals_loop K tid r0 vals s0 T Ht0 Hok Hr0 Hk Hin) as (T1 & Hrun1 & Hok1 & Hmeta1 & Hlen1 & Hents1 & Hc1 & Hc2).
    assert (Hcb : batch_callback tid vals r0 s = Ok tt (sb2_setT s0 (upd tid T1 (w_tables s0)))).
    { rewrite bo_batch_callback_eq. rewrite (bo_bind_ok (sb2_getT _ _ _ Ht)). rewrite He. cbn [of_opt].
      rewrite (bo_bind_ok (m := ret (row_ent T r0)) (s := s) eq_refl).
      rewrite (bo_bind_ok (m := log _) (s := s) (a := tt) (s' := s0) eq_refl). exact Hrun1. }
    cbn [forM_]. rewrite (bo_bind_ok Hcb).
    set (s1 := sb2_setT s0 (upd tid T1 (w_tables s0))) in *.
    assert (Ht1 : nth_error (w_tables s1) tid = Some T1).
    { unfold s1. cbn. eapply sb2_nth_error_upd_eq; eauto. }
    destruct Hmeta1 as (M1 & M2 & M3 & M4 & M5 & M6).
    destruct (IH s1 T1 Ht1 Hok1) as (T' & Hrun & Hok' & Hmeta & Hlen & Hents & Hd1 & Hd2).
    { intros r Hr. rewrite Hlen1. apply Hrows. right. exact Hr. }
    { exact Hnd'. }
    { rewrite M3, M2. exact Hk. }
    { intros cv Hcv. rewrite M2. apply Hin. exact Hcv. }
    exists T'. split.
    { rewrite Hrun. f_equal. unfold b_logged, s1, s0, sb2_setT, b_logged. apply b_W_ext; cbn; try reflexivity.
      - rewrite sb2_upd_upd. reflexivity.
      - rewrite <- app_assoc. cbn [app]. f_equal. f_equal. apply map_ext. intros r. unfold row_ent. rewrite Hents1. reflexivity. }
    split; [exact Hok'|]. split; [eapply sb2_meta_trans; [|exact Hmeta]; repeat split; assumption|].
    split; [congruence|]. split; [congruence|].
    split.
    { intros ci r Hr. rewrite Hd1 by (intros X; apply Hr; right; exact X).
      apply Hc1. intros ->. apply Hr. left. reflexivity. }
    intros c ci r Eci [<-|Hr].
    + rewrite Hd1 by exact Hnin. apply Hc2. exact Eci.
    + rewrite (Hd2 c ci r) by (try rewrite M2; assumption).
      rewrite Hc1; [reflexivity|]. intros ->. contradiction.
Qed.

(* ------------------------------------------------------------------ *)
(** ** Rewriting the cells of one table (same rows, same entities) *)

Lemma bo_setcells : forall s tid T T', St s -> nth_error (w_tables s) tid = Some T ->
  tbl_ok T' -> sb2_meta T T' -> t_len T' = t_len T -> t_ents T' = t_ents T ->
  let s' := sb2_setT s (upd tid T' (w_tables s)) in
  St s' /\ (forall x, live s' x = live s x) /\
  (forall x r, loc s x = Some (tid, r) -> live s x = true ->
     forall c, val s' x c = match tbl_colidx T c with Some ci => Some (cell T' ci r) | None => None end) /\
  (forall x, (forall r, loc s x <> Some (tid, r)) -> forall c, val s' x c = val s x c).
Proof.
  intros s tid t t' HSt Ht Hok Hmeta Hlen Hents s'.
  pose proof (proj1 HSt) as HW.
  assert (Hrow : forall r, row_ent t' r = row_ent t r) by (intros r; unfold row_ent; rewrite Hents; reflexivity).
  assert (Etab : forall j, nth_error (w_tables s') j = if Nat.eqb tid j then Some t' else nth_error (w_tables s) j).
  { intros j. unfold s', sb2_setT. cbn. rewrite nth_error_upd.
    destruct (Nat.eqb_spec tid j); [subst; rewrite Ht|]; reflexivity. }
  assert (Hlive : forall x, live s' x = live s x).
  { intros x. unfold live. change (loc s' x) with (loc s x). destruct (loc s x) as [[j r]|]; [|reflexivity].
    rewrite Etab. destruct (Nat.eqb_spec tid j) as [<-|Hne]; [|reflexivity].
    rewrite Ht, Hlen, Hrow. reflexivity. }
  split.
  - replace s' with (sb2_st s (upd tid t' (w_tables s)) (w_index s)) by apply sb2_st_same_index.
    apply sb2_St_reindex; auto.
    + intros j x E. change (nth_error (w_tables s') j = Some x) in E. rewrite Etab in E.
      destruct (Nat.eqb_spec tid j) as [<-|Hne].
      * inversion E; subst x. split; [assumption|]. exists t. auto.
      * split; [eapply sb2_table_ok; eauto|]. exists x. split; [assumption|apply sb2_meta_refl].
    + intros j x E. change (exists t'0, nth_error (w_tables s') j = Some t'0 /\ sb2_meta x t'0). rewrite Etab.
      destruct (Nat.eqb_spec tid j) as [<-|Hne].
      * rewrite Ht in E. inversion E; subst x. eauto.
      * exists x. split; [assumption|apply sb2_meta_refl].
    + intros j x r E Hr. change (nth_error (w_tables s') j = Some x) in E. rewrite Etab in E.
      destruct (Nat.eqb_spec tid j) as [<-|Hne].
      * inversion E; subst x. rewrite Hlen in Hr. rewrite Hrow.
        destruct (wf_rows _ HW _ _ _ Ht Hr) as (A & B). split; [apply sb2_loc_iff; exact A|exact B].
      * destruct (wf_rows _ HW _ _ _ E Hr) as (A & B). split; [apply sb2_loc_iff; exact A|exact B].
    + intros id j r E. destruct (wf_index _ HW _ _ _ E) as (x & Ex & Hr & Hf).
      change (exists t'0, nth_error (w_tables s') j = Some t'0 /\ r < t_len t'0 /\ fst (row_ent t'0 r) = id).
      rewrite Etab. destruct (Nat.eqb_spec tid j) as [<-|Hne].
      * rewrite Ht in Ex. inversion Ex; subst x. exists t'. split; [reflexivity|]. split; [lia|].
        rewrite Hrow. assumption.
      * exists x. auto.
    + intros id j r E. eauto.
  - split; [exact Hlive|]. split.
    + intros x r Hloc Hl c. unfold val. rewrite Hlive, Hl. unfold value_of. change (loc s' x) with (loc s x).
      rewrite Hloc, Etab, Nat.eqb_refl. destruct Hmeta as (_ & Hids & _). unfold tbl_colidx. rewrite Hids. reflexivity.
    + intros x Hnot c. unfold val. rewrite Hlive. destruct (live s x); [|reflexivity].
      unfold value_of. change (loc s' x) with (loc s x). destruct (loc s x) as [[j r]|] eqn:El; [|reflexivity].
      rewrite Etab. destruct (Nat.eqb_spec tid j) as [<-|Hne]; [|reflexivity]. exfalso. apply (Hnot r). reflexivity.
Qed.

(* ------------------------------------------------------------------ *)
(** ** Phase B of ExchangeBatch: one batch = bulk move + callbacks over the new rows *)

Definition bo_mbody (vals : list (nat * Z)) (b : nat * nat * nat) : MW (nat * nat * nat * nat) :=
  let '(otid, ntid, _) := b in
  sl <- exchange_table otid ntid [] ;;
  let '(start, len) := sl in
  forM_ (seq start len) (fun i => batch_callback ntid vals i) ;;;
  ret (otid, ntid, start, len).

(** The value the callback leaves in a freshly added (zeroed) component. *)
Definition bo_cbval (s : W) (vals : list (nat * Z)) (c : nat) : Z := bo_wval (kind_of s) c vals 0%Z.

Definition bo_newval (s : W) (add rem : list nat) (vals : list (nat * Z)) (e : ent) (c : nat) : option Z :=
  if memb c add then Some (bo_cbval s vals c) else if memb c rem then None else val s e c.

Definition bo_side (s s' : W) : Prop :=
  w_lock s' = w_lock s /\ w_obs s' = w_obs s /\ w_olists s' = w_olists s /\
  w_oagg s' = w_oagg s /\ w_opool s' = w_opool s /\ w_ototal s' = w_ototal s /\ w_omax s' = w_omax s.

Lemma bo_side_refl : forall s, bo_side s s.
Proof. intros s. unfold bo_side. repeat split. Qed.
Lemma bo_side_trans : forall a b c, bo_side a b -> bo_side b c -> bo_side a c.
Proof. intros a b c (A1 & A2 & A3 & A4 & A5 & A6 & A7) (B1 & B2 & B3 & B4 & B5 & B6 & B7). unfold bo_side. repeat split; congruence. Qed.

Lemma bo_seq_add : forall n a, seq a n = map (fun i => a + i) (seq 0 n).
Proof.
  induction n as [|n IH]; intros a; [reflexivity|].
  cbn [seq map]. rewrite Nat.add_0_r. f_equal. rewrite (IH (S a)), <- seq_shift, map_map.
  apply map_ext. intros i. lia.
Qed.

Lemma bo_memb_false_notin : forall x l, memb x l = false -> ~ In x l.
Proof. intros x l H. apply sb2_memb_false. exact H. Qed.

Lemma bo_step : forall s add rem vals b, St s -> (add <> [] \/ rem <> []) -> bo_batch_ok s add rem b ->
  registered s add -> (forall cv, In cv vals -> In (fst cv) add) ->
  exists s2 r, bo_mbody vals b s = Ok r s2 /\ St s2 /\ bo_keeps s s2 /\
    (forall e r, live s e = true -> loc s e = Some (bo_src b, r) ->
       live s2 e = true /\ (exists r', loc s2 e = Some (bo_dst b, r')) /\
       forall c, val s2 e c = bo_newval s add rem vals e c) /\
    (forall e, live s e = true -> (forall r, loc s e <> Some (bo_src b, r)) ->
       live s2 e = true /\ loc s2 e = loc s e /\ forall c, val s2 e c = val s e c) /\
    (forall e, live s e = false -> live s2 e = false) /\
    (exists es, w_log s2 = w_log s ++ map b_entry es /\ NoDup es /\
       forall e, In e es <-> (live s e = true /\ exists r, loc s e = Some (bo_src b, r))) /\
    bo_side s s2 /\ w_pool s2 = w_pool s /\ frame_user s s2.
Proof.
  intros s add rem vals b HSt Hnn Hb Hreg Hvals.
  pose proof (bo_dst_not_src s add rem b b Hnn Hb Hb) as Hne0.
  destruct b as [[otid ntid] len0]. cbn [bo_src bo_dst fst snd] in *.
  assert (Hne : otid <> ntid) by congruence. clear Hne0.
  destruct Hb as (om & nm & (ot & oa & Hot & Hoa & Emo) & (nt & na & Hnt & Hna & Emn) & Hm & Hr & Ha).
  cbn [bo_src bo_dst fst snd] in *.
  pose proof (proj1 HSt) as HW.
  destruct (b_x_exec s otid ntid ot nt oa na HSt Hne Hot Hnt Hoa Hna) as (nt3 & Hrun & Fn).
  set (s1 := sb2_st s (b_xT' s otid ntid ot nt3) (b_xI' s ntid ot nt)) in *.
  pose proof (b_xp_St s otid ntid ot nt nt3 HSt Hne Hot Hnt Fn) as HSt1. fold s1 in HSt1.
  pose proof (b_xp_tab s otid ntid ot nt nt3 Hne Hot Hnt) as Etab1. fold s1 in Etab1.
  assert (Tab1 : nth_error (w_tables s1) ntid = Some nt3).
  { rewrite Etab1. destruct (Nat.eqb_spec otid ntid); [congruence|]. rewrite Nat.eqb_refl. reflexivity. }
  pose proof Fn as (On & Ln & Mn & Oldn & Newn & Celln).
  destruct Mn as (Mn1 & Mn2 & Mn3 & Mn4 & Mn5 & Mn6).
  destruct (wf_layout _ (proj1 HSt1) ntid nt3 Tab1) as (a' & _ & _ & Kinds & _).
  destruct (sb2_layout _ _ _ _ HW Hnt Hna) as (Hidn & _ & _).
  assert (Hvk : forall cv, In cv vals -> In (fst cv) (t_ids nt3)).
  { intros cv Hcv. rewrite Mn2, Hidn. apply mk_to_list_spec. pose proof (Hvals cv Hcv) as Hin.
    split; [apply Hreg; exact Hin|]. rewrite Emn, Hm. rewrite (proj2 (sb2_memb_In _ _) Hin). apply orb_true_r. }
  destruct (bo_cb_loop (kind_of s1) ntid vals (seq (t_len nt) (t_len ot)) s1 nt3 Tab1 On) as
    (T' & Hrun2 & Hok' & Hmeta' & Hlen' & Hents' & Hd1 & Hd2).
  { intros r Hr0. apply in_seq in Hr0. lia. }
  { apply seq_NoDup. }
  { exact Kinds. }
  { exact Hvk. }
  destruct (bo_setcells s1 ntid nt3 T' HSt1 Tab1 Hok' Hmeta' Hlen' Hents') as (HSt2' & Hlv & Hvin & Hvout).
  set (s2' := sb2_setT s1 (upd ntid T' (w_tables s1))) in *.
  set (L := map (fun r => b_entry (row_ent nt3 r)) (seq (t_len nt) (t_len ot))) in *.
  set (s2 := b_logged s2' L) in *.
  assert (Hl2 : forall x, live s2 x = live s1 x) by (intros x; exact (Hlv x)).
  assert (Hloc2 : forall x, loc s2 x = loc s1 x) by (intros x; reflexivity).
  assert (Hv2 : forall x c, val s2 x c = val s2' x c) by (intros x c; reflexivity).
  pose proof (b_xp_loc s otid ntid ot nt nt3 HSt Hne Hot) as Hloc1. fold s1 in Hloc1.
  exists s2, (otid, ntid, t_len nt, t_len ot).
  split.
  { unfold bo_mbody. rewrite (bo_bind_ok Hrun). cbv beta iota. rewrite (bo_bind_ok Hrun2). reflexivity. }
  split.
  { apply (storage_same_St s2' s2); [unfold storage_same; repeat split|exact HSt2']. }
  split.
  { split; [|intros aid a Ha0; exists a; split; [exact Ha0|reflexivity]].
    intros tid t Ht. change (w_tables s2) with (upd ntid T' (w_tables s1)). rewrite nth_error_upd, Etab1.
    destruct (Nat.eqb_spec ntid tid) as [<-|Hn2].
    - destruct (Nat.eqb_spec otid ntid); [congruence|]. exists T'. split; [reflexivity|].
      destruct Hmeta' as (E1 & _). rewrite Hnt in Ht. inversion Ht; subst t. congruence.
    - destruct (Nat.eqb_spec otid tid) as [<-|Hn1].
      + exists (tbl_reset ot). split; [reflexivity|]. rewrite Hot in Ht. inversion Ht; subst t. reflexivity.
      + exists t. auto. }
  split.
  { (* moved *)
    intros e r Hlive Hloc.
    destruct (b_xp_moved s otid ntid ot nt oa na nt3 HSt Hne Hot Hnt Hoa Hna Fn e r Hlive Hloc) as (L1 & V1). fold s1 in L1, V1.
    destruct (sb2_live_elim _ _ Hlive) as (tid0 & r0 & t0 & L0 & T0 & R0 & E0).
    rewrite Hloc in L0. inversion L0; subst tid0 r0. rewrite Hot in T0. inversion T0; subst t0.
    assert (Hl1 : loc s1 e = Some (ntid, t_len nt + r)).
    { rewrite Hloc1. rewrite <- E0. rewrite (b_xp_idx_row s otid ntid ot HSt Hne Hot r R0). reflexivity. }
    split; [rewrite Hl2; exact L1|]. split; [exists (t_len nt + r); rewrite Hloc2; exact Hl1|].
    intros c. rewrite Hv2. rewrite (Hvin e (t_len nt + r) Hl1 L1 c).
    destruct (sb2_live_at _ _ _ _ _ Hl1 Tab1) as (_ & Hva). specialize (V1 c).
    unfold val in V1. rewrite L1, Hva in V1. rewrite Emn, Emo in V1.
    assert (Hrow : In (t_len nt + r) (seq (t_len nt) (t_len ot))) by (apply in_seq; lia).
    unfold bo_newval. pose proof (Hm c) as Hmc.
    destruct (memb c add) eqn:Ea.
    - rewrite orb_true_r in Hmc. rewrite Hmc in V1.
      rewrite (Ha c (proj1 (sb2_memb_In _ _) Ea)) in V1.
      destruct (tbl_colidx nt3 c) as [ci|] eqn:Eci; [|discriminate].
      rewrite (Hd2 c ci _ Eci Hrow). inversion V1 as [V1']. rewrite V1'. reflexivity.
    - rewrite orb_false_r in Hmc.
      assert (Hnv : ~ In c (map fst vals)).
      { intros Hin. apply in_map_iff in Hin. destruct Hin as (cv & <- & Hcv). apply Hvals in Hcv.
        apply sb2_memb_In in Hcv. congruence. }
      assert (E2 : match tbl_colidx nt3 c with Some ci => Some (cell T' ci (t_len nt + r)) | None => None end =
                   match tbl_colidx nt3 c with Some ci => Some (cell nt3 ci (t_len nt + r)) | None => None end).
      { destruct (tbl_colidx nt3 c) as [ci|] eqn:Eci; [|reflexivity].
        rewrite (Hd2 c ci _ Eci Hrow), bo_wval_notin by exact Hnv. reflexivity. }
      rewrite E2, V1, Hmc.
      destruct (memb c rem); [rewrite andb_false_r; reflexivity|]. rewrite andb_true_r.
      destruct (mk_get om c) eqn:Eo; [reflexivity|].
      destruct (sb2_colidx_mask _ _ _ _ c HW Hot Hoa) as (_ & Of). rewrite Emo in Of.
      destruct (sb2_live_at _ _ _ _ _ Hloc Hot) as (_ & Hv0). unfold val. rewrite Hlive, Hv0, (Of Eo). reflexivity. }
  split.
  { (* other *)
    intros e Hlive Hnot.
    destruct (b_xp_other s otid ntid ot nt nt3 HSt Hne Hot Hnt Fn e Hlive Hnot) as (L1 & V1). fold s1 in L1, V1.
    destruct (sb2_live_elim _ _ Hlive) as (tid & r & t & L0 & T0 & R0 & E0).
    assert (Hn : tid <> otid) by (intros ->; apply (Hnot r); exact L0).
    assert (Hl1 : loc s1 e = loc s e).
    { rewrite Hloc1. rewrite <- E0. rewrite (b_xp_idx_other s otid ntid ot HSt Hne Hot tid t r T0 R0 Hn). reflexivity. }
    split; [rewrite Hl2; exact L1|]. split; [rewrite Hloc2; exact Hl1|].
    intros c. rewrite Hv2, <- V1.
    destruct (Nat.eq_dec tid ntid) as [->|Hn2].
    - rewrite Hnt in T0. inversion T0; subst t.
      assert (Hl1' : loc s1 e = Some (ntid, r)) by (rewrite Hl1; exact L0).
      rewrite (Hvin e r Hl1' L1 c).
      destruct (sb2_live_at _ _ _ _ _ Hl1' Tab1) as (_ & Hva). unfold val. rewrite L1, Hva.
      destruct (tbl_colidx nt3 c) as [ci|]; [|reflexivity].
      rewrite Hd1; [reflexivity|]. intros Hin. apply in_seq in Hin. lia.
    - apply Hvout. intros r' Hr'. rewrite Hl1, L0 in Hr'. congruence. }
  split.
  { intros e Hdead. rewrite Hl2. exact (b_xp_dead s otid ntid ot nt nt3 HSt Hne Hot Hnt Fn e Hdead). }
  split.
  { exists (map (row_ent ot) (seq 0 (t_len ot))). split.
    { change (w_log s2) with (w_log s ++ L). f_equal. unfold L.
      rewrite (bo_seq_add (t_len ot) (t_len nt)), !map_map. apply map_ext_in.
      intros i Hi. apply in_seq in Hi. rewrite Newn by lia. reflexivity. }
    split.
    { apply sa_NoDup_map_inj; [|apply seq_NoDup].
      intros i j Hi Hj E. apply in_seq in Hi. apply in_seq in Hj.
      assert (E' : fst (row_ent ot i) = fst (row_ent ot j)) by (rewrite E; reflexivity).
      apply (sb2_row_inj s otid ot i otid ot j HW Hot) in E'; [tauto|lia|exact Hot|lia]. }
    intros e. rewrite in_map_iff. split.
    - intros (i & Ei & Hi). apply in_seq in Hi.
      destruct (wf_rows _ HW _ _ _ Hot (proj2 Hi)) as (A & _). rewrite Ei in A.
      split; [eapply sb2_live_intro; eauto; lia|eauto].
    - intros (Hlive & r & Hloc).
      destruct (sb2_live_elim _ _ Hlive) as (tid0 & r0 & t0 & L0 & T0 & R0 & E0).
      rewrite Hloc in L0. inversion L0; subst tid0 r0. rewrite Hot in T0. inversion T0; subst t0.
      exists r. split; [exact E0|apply in_seq; lia]. }
  split; [unfold bo_side; repeat split|]. split; [reflexivity|unfold frame_user; repeat split].
Qed.

(* ------------------------------------------------------------------ *)
(** ** Phase B: all batches *)

Definition bo_in_tabs (s : W) (tids : list nat) (e : ent) : Prop :=
  exists tid r, In tid tids /\ loc s e = Some (tid, r).

Lemma bo_NoDup_app : forall A (a b : list A), NoDup a -> NoDup b -> (forall x, In x a -> ~ In x b) -> NoDup (a ++ b).
Proof.
  intros A a b Ha Hb H. induction Ha as [|x a Hx Ha IH]; [exact Hb|].
  cbn [app]. constructor.
  - intros Hin. apply in_app_or in Hin. destruct Hin as [Hin|Hin]; [contradiction|]. apply (H x (or_introl eq_refl) Hin).
  - apply IH. intros y Hy. apply H. right. exact Hy.
Qed.

Lemma bo_wval_ext : forall K K' c vals d, K c = K' c -> bo_wval K c vals d = bo_wval K' c vals d.
Proof.
  intros K K' c vals. induction vals as [|cv rest IH]; intros d E; [reflexivity|].
  cbn [bo_wval]. rewrite E. apply IH. exact E.
Qed.

Lemma bo_newval_ext : forall s s' add rem vals e c, w_reg s' = w_reg s -> val s' e c = val s e c ->
  bo_newval s' add rem vals e c = bo_newval s add rem vals e c.
Proof.
  intros s s' add rem vals e c Er Ev. unfold bo_newval, bo_cbval. rewrite Ev.
  rewrite (bo_wval_ext (kind_of s') (kind_of s)) by (apply sa_kind_of_ext; exact Er). reflexivity.
Qed.

Lemma bo_move_loop : forall add rem vals bs s, St s -> (add <> [] \/ rem <> []) ->
  Forall (bo_batch_ok s add rem) bs -> registered s add -> (forall cv, In cv vals -> In (fst cv) add) ->
  exists s' mv, mapM bs (bo_mbody vals) s = Ok mv s' /\ St s' /\ bo_keeps s s' /\
    (forall e, live s e = true -> bo_in_tabs s (map bo_src bs) e ->
       live s' e = true /\ forall c, val s' e c = bo_newval s add rem vals e c) /\
    (forall e, live s e = true -> ~ bo_in_tabs s (map bo_src bs) e ->
       live s' e = true /\ forall c, val s' e c = val s e c) /\
    (forall e, live s e = false -> live s' e = false) /\
    (exists es, w_log s' = w_log s ++ map b_entry es /\ NoDup es /\
       forall e, In e es <-> (live s e = true /\ bo_in_tabs s (map bo_src bs) e)) /\
    bo_side s s' /\ w_pool s' = w_pool s /\ frame_user s s'.
Proof.
  intros add rem vals bs. induction bs as [|b rest IH]; intros s HSt Hnn HF Hreg Hvals.
  - exists s, []. split; [reflexivity|]. split; [exact HSt|]. split; [apply bo_keeps_refl|].
    split; [intros e _ (tid & r & [] & _)|]. split; [intros e Hl _; split; [exact Hl|reflexivity]|].
    split; [auto|]. split.
    { exists []. split; [cbn; rewrite app_nil_r; reflexivity|]. split; [constructor|].
      intros e. split; [intros []|intros (_ & tid & r & [] & _)]. }
    split; [apply bo_side_refl|]. split; [reflexivity|apply sa_frame_user_refl].
  - inversion HF as [|? ? Hb HF']; subst.
    destruct (bo_step s add rem vals b HSt Hnn Hb Hreg Hvals) as
      (s2 & r & Hrun & HSt2 & K2 & Mv2 & Ot2 & Dd2 & (es1 & Lg2 & ND1 & In1) & Sd2 & Pl2 & Fr2).
    assert (HF2 : Forall (bo_batch_ok s2 add rem) rest).
    { eapply Forall_impl; [|exact HF']. intros b' Hb'. eapply bo_batch_ok_keeps; eauto. }
    assert (Ereg : w_reg s2 = w_reg s) by apply Fr2.
    assert (Hreg2 : registered s2 add) by (intros c Hc; rewrite Ereg; apply Hreg; exact Hc).
    destruct (IH s2 HSt2 Hnn HF2 Hreg2 Hvals) as
      (s' & mv & Hrun' & HSt' & K' & Mv' & Ot' & Dd' & (es2 & Lg' & ND2 & In2) & Sd' & Pl' & Fr').
    assert (Hds : forall b', In b' rest -> bo_dst b <> bo_src b').
    { intros b' Hb'. apply (bo_dst_not_src s add rem b b' Hnn Hb). rewrite Forall_forall in HF'. apply HF'. exact Hb'. }
    assert (Hnot2 : forall e r', loc s2 e = Some (bo_dst b, r') -> ~ bo_in_tabs s2 (map bo_src rest) e).
    { intros e r' Hl (tid & r0 & Hin & Hl0). rewrite Hl in Hl0. inversion Hl0; subst tid r0.
      apply in_map_iff in Hin. destruct Hin as (b' & E & Hb'). apply (Hds b' Hb'). congruence. }
    (* classification of an entity that is live in [s] *)
    assert (Hhead : forall e r0, live s e = true -> loc s e = Some (bo_src b, r0) ->
              live s' e = true /\ forall c, val s' e c = bo_newval s add rem vals e c).
    { intros e r0 Hl Hloc. destruct (Mv2 e r0 Hl Hloc) as (L2 & (r' & Hl2) & V2).
      destruct (Ot' e L2 (Hnot2 e r' Hl2)) as (L' & V'). split; [exact L'|]. intros c. rewrite V'. apply V2. }
    assert (Htail : forall e, live s e = true -> (forall r0, loc s e <> Some (bo_src b, r0)) ->
              live s2 e = true /\ loc s2 e = loc s e /\ forall c, val s2 e c = val s e c) by exact Ot2.
    exists s', (r :: mv). split.
    { cbn [mapM]. rewrite (bo_bind_ok Hrun), (bo_bind_ok Hrun'). reflexivity. }
    split; [exact HSt'|]. split; [eapply bo_keeps_trans; eauto|].
    split.
    { intros e Hl (tid & r0 & Hin & Hloc). cbn [map] in Hin.
      destruct (Nat.eq_dec tid (bo_src b)) as [->|Hnt].
      - eapply Hhead; eauto.
      - destruct Hin as [Hin|Hin]; [congruence|].
        destruct (Htail e Hl) as (L2 & Hl2 & V2).
        { intros r1 Hr1. rewrite Hloc in Hr1. congruence. }
        destruct (Mv' e L2) as (L' & V').
        { exists tid, r0. split; [exact Hin|]. rewrite Hl2. exact Hloc. }
        split; [exact L'|]. intros c. rewrite V'. apply bo_newval_ext; [exact Ereg|apply V2]. }
    split.
    { intros e Hl Hnot.
      destruct (Htail e Hl) as (L2 & Hl2 & V2).
      { intros r1 Hr1. apply Hnot. exists (bo_src b), r1. split; [left; reflexivity|exact Hr1]. }
      destruct (Ot' e L2) as (L' & V').
      { intros (tid & r0 & Hin & Hloc). apply Hnot. exists tid, r0. split; [right; exact Hin|]. rewrite <- Hl2. exact Hloc. }
      split; [exact L'|]. intros c. rewrite V'. apply V2. }
    split; [intros e Hd; apply Dd'; apply Dd2; exact Hd|].
    split.
    { exists (es1 ++ es2). split; [rewrite Lg', Lg2, map_app, app_assoc; reflexivity|].
      assert (Hes2 : forall e, In e es2 -> live s e = true /\ (forall r0, loc s e <> Some (bo_src b, r0)) /\
                                 bo_in_tabs s (map bo_src rest) e).
      { intros e He. apply In2 in He. destruct He as (L2 & tid & r0 & Hin & Hloc).
        destruct (live s e) eqn:Hl; [|rewrite (Dd2 e Hl) in L2; discriminate].
        assert (Hn : forall r1, loc s e <> Some (bo_src b, r1)).
        { intros r1 Hr1. destruct (Mv2 e r1 Hl Hr1) as (_ & (r' & Hl2) & _).
          apply (Hnot2 e r' Hl2). exists tid, r0. auto. }
        split; [reflexivity|]. split; [exact Hn|].
        destruct (Htail e Hl Hn) as (_ & Hl2 & _). exists tid, r0. split; [exact Hin|]. rewrite <- Hl2. exact Hloc. }
      split.
      { apply bo_NoDup_app; [exact ND1|exact ND2|].
        intros e H1 H2. apply In1 in H1. destruct H1 as (_ & r0 & Hloc).
        destruct (Hes2 e H2) as (_ & Hn & _). apply (Hn r0 Hloc). }
      intros e. rewrite in_app_iff. split.
      - intros [H1|H2].
        + apply In1 in H1. destruct H1 as (Hl & r0 & Hloc). split; [exact Hl|].
          exists (bo_src b), r0. split; [left; reflexivity|exact Hloc].
        + destruct (Hes2 e H2) as (Hl & _ & (tid & r0 & Hin & Hloc)). split; [exact Hl|].
          exists tid, r0. split; [right; exact Hin|exact Hloc].
      - intros (Hl & tid & r0 & Hin & Hloc). cbn [map] in Hin.
        destruct (Nat.eq_dec tid (bo_src b)) as [->|Hnt].
        + left. apply In1. split; [exact Hl|eauto].
        + destruct Hin as [Hin|Hin]; [congruence|]. right. apply In2.
          destruct (Htail e Hl) as (L2 & Hl2 & _).
          { intros r1 Hr1. rewrite Hloc in Hr1. congruence. }
          split; [exact L2|]. exists tid, r0. split; [exact Hin|]. rewrite Hl2. exact Hloc. }
    split; [eapply bo_side_trans; eauto|]. split; [congruence|eapply sa_frame_user_trans; eauto].
Qed.

(* ------------------------------------------------------------------ *)
(** ** Assembling ExchangeBatch *)

Definition bo_pre_events (rem : list nat) (batches : list (nat * nat * nat)) (rel_removed : bool) : MW unit :=
  whenM (negb (is_nil rem)) (
    s <- get ;;
    whenM (has_obs s EvRemoveComponents) (
      forM_ batches (fun b =>
        let '(otid, ntid, len) := b in
        om <- arch_mask_of_table otid ;; nm <- arch_mask_of_table ntid ;;
        es <- rows_of otid 0 len ;;
        fire_rows (fun e eo => fire_remove EvRemoveComponents e om nm eo) es true)) ;;;
    s <- get ;;
    whenM (rel_removed && has_obs s EvRemoveRelations)%bool (
      forM_ batches (fun b =>
        let '(otid, ntid, len) := b in
        om <- arch_mask_of_table otid ;; nm <- arch_mask_of_table ntid ;;
        es <- rows_of otid 0 len ;;
        fire_rows (fun e eo => fire_remove EvRemoveRelations e om nm eo) es true))).

Definition bo_post_events (add : list nat) (rels : list rel) (moved : list (nat * nat * nat * nat)) : MW unit :=
  whenM (negb (is_nil add)) (
    s <- get ;;
    whenM (has_obs s EvAddComponents) (
      forM_ moved (fun b =>
        let '(otid, ntid, start, len) := b in
        om <- arch_mask_of_table otid ;; nm <- arch_mask_of_table ntid ;;
        es <- rows_of ntid start len ;;
        fire_rows (fun e eo => fire_add EvAddComponents e om nm eo) es true)) ;;;
    s <- get ;;
    whenM (negb (is_nil rels) && has_obs s EvAddRelations)%bool (
      forM_ moved (fun b =>
        let '(otid, ntid, start, len) := b in
        om <- arch_mask_of_table otid ;; nm <- arch_mask_of_table ntid ;;
        es <- rows_of ntid start len ;;
        fire_rows (fun e eo => fire_add EvAddRelations e om nm eo) es true))).

(** The part of ExchangeBatch that runs under [defer w.unlock(lock)]. *)
Definition bo_xbody (fi : nat) (brels : list rel) (add rem : list nat) (vals : list (nat * Z)) : MW unit :=
  tables <- get_batch_tables fi brels ;;
  bt <- bo_collect add rem [] tables [] false ;;
  let '(batches, rel_removed) := bt in
  bo_pre_events rem batches rel_removed ;;;
  moved <- mapM batches (bo_mbody vals) ;;
  bo_post_events add [] moved.

Lemma bo_exchange_batch_eq : forall fi brels add rem vals,
  w_exchange_batch fi brels add rem [] vals =
  (check_locked ;;;
   guard (negb (is_nil add && is_nil rem)) ENoComps ;;;
   l <- lockM ;;
   with_deferred_unlock l (bo_xbody fi brels add rem vals) ;;;
   unlockM l).
Proof. reflexivity. Qed.

Lemma bo_deferred_ok : forall A b (m : MW A) s a s', m s = Ok a s' -> with_deferred_unlock b m s = Ok a s'.
Proof. intros A b m s a s' H. unfold with_deferred_unlock, on_err. rewrite H. reflexivity. Qed.

Lemma bo_deferred_err : forall A b (m : MW A) s e s', m s = Err e s' ->
  with_deferred_unlock b m s = Err e (release_bit b s').
Proof. intros A b m s e s' H. unfold with_deferred_unlock, on_err. rewrite H. reflexivity. Qed.

Lemma bo_pre_events_skip : forall rem bs s, (rem <> [] -> has_obs s EvRemoveComponents = false) ->
  bo_pre_events rem bs false s = Ok tt s.
Proof.
  intros rem bs s H. unfold bo_pre_events. destruct rem as [|c rem]; [reflexivity|].
  cbn [is_nil negb whenM]. unfold bind at 1. unfold get at 1. cbv beta iota.
  rewrite H by discriminate. cbn [whenM]. unfold bind at 1. unfold ret at 1. cbv beta iota.
  unfold bind at 1. unfold get at 1. cbv beta iota. reflexivity.
Qed.

Lemma bo_post_events_skip : forall add mv s, (add <> [] -> has_obs s EvAddComponents = false) ->
  bo_post_events add [] mv s = Ok tt s.
Proof.
  intros add mv s H. unfold bo_post_events. destruct add as [|c add]; [reflexivity|].
  cbn [is_nil negb whenM]. unfold bind at 1. unfold get at 1. cbv beta iota.
  rewrite H by discriminate. cbn [whenM]. unfold bind at 1. unfold ret at 1. cbv beta iota.
  unfold bind at 1. unfold get at 1. cbv beta iota. reflexivity.
Qed.

Lemma bo_has_obs_side : forall s s' ev, w_oagg s' = w_oagg s -> has_obs s' ev = has_obs s ev.
Proof. intros s s' ev E. unfold has_obs, get_agg. rewrite E. reflexivity. Qed.

(** ExchangeBatch without components is rejected before anything happens. *)
Lemma exchange_batch_nocomps : forall fi vals s, is_locked s = false ->
  w_exchange_batch fi [] [] [] [] vals s = Err ENoComps s.
Proof.
  intros fi vals s Hunl. rewrite bo_exchange_batch_eq.
  rewrite (bo_bind_ok (sb1_check_locked_ok s Hunl)). reflexivity.
Qed.

(** ExchangeBatch (also AddBatch: [rem = []], RemoveBatch: [add = []]) over the tables [tabs]
    selected by filter [fi], on an unlocked relation-free world with a free lock bit and no
    observers for the component events the call consults; the callback stores [vals] (values for
    added components only).
    - If every non-empty selected table is ready ([bo_ready]: it has all of [rem], none of [add];
      [add], [rem] duplicate-free) the call succeeds: invariant kept, world unlocked again, every
      entity of a selected table is moved once: it keeps the values of untouched components, loses
      [rem], gains [add] with the callback's value ([bo_cbval]: the last value given in [vals],
      zero without one or for zero-sized components); all other entities are untouched, dead
      handles stay dead; the callback log grows by exactly one entry [101; id; gen] per moved
      entity.
    - Otherwise the call fails before anything is moved (all destinations are computed first):
      content untouched, invariant kept, and the deferred unlock has given the lock bit back: the
      world is unlocked, its lock is exactly the lock after taking and releasing one bit (same
      mask as before the call). *)
Theorem exchange_batch_spec : forall s fi tabs add rem vals,
  St s -> is_locked s = false -> lock_lock (w_lock s) <> None ->
  (add <> [] \/ rem <> []) -> registered s add ->
  (rem <> [] -> has_obs s EvRemoveComponents = false) -> (add <> [] -> has_obs s EvAddComponents = false) ->
  (forall cv, In cv vals -> In (fst cv) add) ->
  get_batch_tables fi [] s = Ok tabs s ->
  match w_exchange_batch fi [] add rem [] vals s with
  | Ok _ s' =>
      (forall tid t, In tid tabs -> nth_error (w_tables s) tid = Some t -> t_len t <> 0 -> bo_ready add rem (t_ids t)) /\
      St s' /\ is_locked s' = false /\
      (forall e, live s e = true -> bo_in_tabs s tabs e ->
         live s' e = true /\
         forall c, val s' e c = if memb c add then Some (bo_cbval s vals c) else if memb c rem then None else val s e c) /\
      (forall e, live s e = true -> ~ bo_in_tabs s tabs e -> live s' e = true /\ forall c, val s' e c = val s e c) /\
      (forall e, live s e = false -> live s' e = false) /\
      (exists es, w_log s' = w_log s ++ map (fun e => [101%Z; Zn (fst e); Z.of_N (snd e)]) es /\ NoDup es /\
         forall e, In e es <-> (live s e = true /\ bo_in_tabs s tabs e)) /\
      w_pool s' = w_pool s /\ frame_user s s'
  | Err _ s' =>
      (exists tid t, In tid tabs /\ nth_error (w_tables s) tid = Some t /\ t_len t <> 0 /\ ~ bo_ready add rem (t_ids t)) /\
      St s' /\ content_same s s' /\ is_locked s' = false /\ w_log s' = w_log s /\ w_pool s' = w_pool s /\ frame_user s s' /\
      lk_mask (w_lock s') = lk_mask (w_lock s) /\
      (exists b l1, lock_lock (w_lock s) = Some (b, l1) /\ lock_unlock l1 b = Some (w_lock s'))
  end.
Proof.
  intros s fi tabs add rem vals HSt Hunl Hlock Hnn Hreg Hor Hoa Hvals Hgbt.
  pose proof (proj1 HSt) as HW.
  destruct (lock_lock (w_lock s)) as [[lb l']|] eqn:LL; [|congruence]. clear Hlock.
  pose proof (bo_lock_cycle s lb l' Hunl LL) as LU.
  set (l'' := {| lk_pool := ipool_recycle (lk_pool l') lb; lk_mask := 0%N |}) in *.
  set (s0 := s <| w_lock := l' |>).
  assert (SS0 : storage_same s s0) by (unfold storage_same; repeat split).
  pose proof (storage_same_St s s0 SS0 HSt) as HSt0.
  assert (Hgbt0 : get_batch_tables fi [] s0 = Ok tabs s0) by (apply (bo_gbt_frame fi [] s s0 tabs SS0 Hgbt)).
  assert (Hval0 : forall tid, In tid tabs -> exists t, nth_error (w_tables s0) tid = Some t).
  { exact (bo_gbt_valid s fi tabs HSt Hgbt). }
  assert (Hreg0 : registered s0 add) by exact Hreg.
  pose proof (bo_collect_spec add rem tabs s0 [] false HSt0 Hreg0 Hval0) as HC.
  rewrite bo_exchange_batch_eq.
  rewrite (bo_bind_ok (sb1_check_locked_ok s Hunl)).
  assert (Hg : negb (is_nil add && is_nil rem) = true).
  { destruct add; [|reflexivity]. destruct rem; [|reflexivity]. destruct Hnn; congruence. }
  rewrite Hg. cbn [guard]. rewrite (bo_bind_ok (m := ret tt) (s := s) eq_refl).
  rewrite (bo_bind_ok (v_lockM_ok s lb l' LL)). fold s0.
  destruct (bo_collect add rem [] tabs [] false s0) as [[bs' rr'] s1|er s1] eqn:EC.
  - destruct HC as (bs & -> & -> & (HSt1 & R1 & D1 & F1) & FA & I1 & I2). cbn [app] in EC.
    assert (Eagg1 : w_oagg s1 = w_oagg s) by apply D1.
    assert (Hreg1 : registered s1 add).
    { intros c Hc. destruct F1 as (-> & _). apply Hreg; exact Hc. }
    destruct (bo_move_loop add rem vals bs s1 HSt1 Hnn FA Hreg1 Hvals) as
      (s2 & mv & Hrun & HSt2 & K2 & Mv & Ot & Dd & (es & Lg & ND & Ines) & Sd & Pl & Fr).
    assert (Eagg2 : w_oagg s2 = w_oagg s) by (destruct Sd as (_ & _ & _ & -> & _); exact Eagg1).
    assert (Hbody : bo_xbody fi [] add rem vals s0 = Ok tt s2).
    { unfold bo_xbody. rewrite (bo_bind_ok Hgbt0), (bo_bind_ok EC). cbv beta iota.
      rewrite (bo_bind_ok (bo_pre_events_skip rem bs s1 (fun H => eq_trans (bo_has_obs_side s s1 _ Eagg1) (Hor H)))).
      rewrite (bo_bind_ok Hrun).
      exact (bo_post_events_skip add mv s2 (fun H => eq_trans (bo_has_obs_side s s2 _ Eagg2) (Hoa H))). }
    rewrite (bo_bind_ok (bo_deferred_ok _ lb _ _ _ _ Hbody)).
    assert (Elock2 : w_lock s2 = l').
    { destruct Sd as (-> & _). destruct D1 as (-> & _). reflexivity. }
    assert (LU2 : lock_unlock (w_lock s2) lb = Some l'') by (rewrite Elock2; exact LU).
    rewrite (v_unlockM_ok s2 lb l'' LU2).
    set (s3 := s2 <| w_lock := l'' |>).
    assert (SS3 : storage_same s2 s3) by (unfold storage_same; repeat split).
    (* content of [s1] is the content of [s] *)
    pose proof (same_rows_content s0 s1 (proj1 HSt0) R1) as C01.
    assert (Hl1 : forall e, live s1 e = live s e) by (intros e; apply (C01 e)).
    assert (Hv1 : forall e c, val s1 e c = val s e c) by (intros e c; apply (C01 e)).
    assert (Hloc1 : forall e, loc s1 e = loc s e).
    { intros e. apply sa_loc_ext. apply R1. }
    assert (Hsrc : forall e, live s e = true -> (bo_in_tabs s1 (map bo_src bs) e <-> bo_in_tabs s tabs e)).
    { intros e Hl. split.
      - intros (tid & r & Hin & Hloc). exists tid, r. rewrite <- Hloc1. split; [|exact Hloc].
        apply in_map_iff in Hin. destruct Hin as (b & <- & Hb). apply I1. exact Hb.
      - intros (tid & r & Hin & Hloc). exists tid, r. rewrite Hloc1. split; [|exact Hloc].
        destruct (sb2_live_elim _ _ Hl) as (tid0 & r0 & t0 & L0 & T0 & R0 & E0).
        rewrite Hloc in L0. inversion L0; subst tid0 r0.
        apply (I2 tid t0 Hin T0). lia. }
    split.
    { intros tid t Hin Ht Hlen. apply (I2 tid t Hin Ht Hlen). }
    split; [apply (storage_same_St s2 s3 SS3 HSt2)|]. split; [reflexivity|].
    split.
    { intros e Hl Hin. rewrite <- Hl1 in Hl. destruct (Mv e Hl) as (L' & V').
      { apply Hsrc; [rewrite <- Hl1; exact Hl|exact Hin]. }
      split; [exact L'|]. intros c. change (val s3 e c) with (val s2 e c). rewrite V'.
      unfold bo_newval, bo_cbval. rewrite Hv1.
      rewrite (bo_wval_ext (kind_of s1) (kind_of s)); [reflexivity|].
      apply sa_kind_of_ext. destruct F1 as (-> & _). reflexivity. }
    split.
    { intros e Hl Hnot. pose proof Hl as Hl'. rewrite <- Hl1 in Hl. destruct (Ot e Hl) as (L' & V').
      { intros Hin. apply Hnot. apply Hsrc; assumption. }
      split; [exact L'|]. intros c. change (val s3 e c) with (val s2 e c). rewrite V'. apply Hv1. }
    split.
    { intros e Hd. rewrite <- Hl1 in Hd. exact (Dd e Hd). }
    split.
    { exists es. split.
      { change (w_log s3) with (w_log s2). rewrite Lg. destruct D1 as (_ & -> & _). reflexivity. }
      split; [exact ND|]. intros e. rewrite Ines, Hl1. split; intros (Hl & Hin); (split; [exact Hl|]); apply (Hsrc e Hl); exact Hin. }
    split.
    { change (w_pool s3) with (w_pool s2). rewrite Pl. apply R1. }
    apply (sa_frame_user_trans s s1 s3); [exact F1|]. apply (sa_frame_user_trans s1 s2 s3); [exact Fr|unfold frame_user; repeat split].
  - destruct HC as ((HSt1 & R1 & D1 & F1) & tid & t & Hin & Ht & Hlen & Hnr).
    assert (Hbody : bo_xbody fi [] add rem vals s0 = Err er s1).
    { unfold bo_xbody. rewrite (bo_bind_ok Hgbt0). exact (bo_bind_err EC). }
    rewrite (bo_bind_err (bo_deferred_err _ lb _ _ _ _ Hbody)).
    assert (Elock1 : w_lock s1 = l') by (destruct D1 as (-> & _); reflexivity).
    assert (Erel : release_bit lb s1 = s1 <| w_lock := l'' |>).
    { unfold release_bit. rewrite Elock1, LU. reflexivity. }
    rewrite Erel. set (s1' := s1 <| w_lock := l'' |>).
    assert (SS1 : storage_same s1 s1') by (unfold storage_same; repeat split).
    split; [exists tid, t; auto|]. split; [exact (storage_same_St s1 s1' SS1 HSt1)|].
    split.
    { intros e. destruct (same_rows_content s0 s1 (proj1 HSt0) R1 e) as (L1 & V1). split; [exact L1|exact V1]. }
    split; [reflexivity|].
    split; [change (w_log s1') with (w_log s1); destruct D1 as (_ & -> & _); reflexivity|].
    split; [change (w_pool s1') with (w_pool s1); apply R1|].
    split; [exact F1|].
    split.
    { change (lk_mask (w_lock s1')) with 0%N. symmetry.
      unfold is_locked, lock_is_locked, mk_is_zero in Hunl. apply negb_false_iff in Hunl. apply N.eqb_eq in Hunl. exact Hunl. }
    exists lb, l'. split; [reflexivity|exact LU].
Qed.

(* ------------------------------------------------------------------ *)
(** ** Which tables a batch selects: the entities whose component set matches the filter *)

(** The invariant clause [WF] lacks for the completeness direction: every non-empty table is listed
    by its archetype ([WF] only has the converse, [wf_arch_tables]). It holds in every reachable
    relation-free world (tables are only created by [create_table], which lists them, and the
    relation-free tier never frees a table); it is an explicit hypothesis here. *)
Definition tables_listed (s : W) : Prop :=
  forall tid t, nth_error (w_tables s) tid = Some t -> 0 < t_len t ->
    exists a, nth_error (w_archs s) (t_arch t) = Some a /\ In tid (a_tables a).

(** [e]'s component set matches filter [f]: it has every component of the filter's mask and, if the
    filter excludes components, none of those. *)
Definition bo_ent_matches (s : W) (f : fobj) (e : ent) : Prop :=
  (forall c, mk_get (f_mask f) c = true -> val s e c <> None) /\
  (f_haswithout f = true -> forall c, mk_get (f_without f) c = true -> val s e c = None).

Lemma bo_sel_in : forall f l acc r, k_sel f l acc = Some r ->
  forall tid, In tid r <-> (In tid acc \/ exists a tl, In a l /\ filter_matches f (a_mask a) = true /\ a_tables a = tid :: tl).
Proof.
  intros f l. induction l as [|a rest IH]; intros acc r H tid.
  - cbn in H. inversion H; subst r. split; [auto|]. intros [H1|(a & tl & [] & _)]; exact H1.
  - cbn [k_sel] in H. destruct (filter_matches f (a_mask a)) eqn:Em; cbn [negb] in H.
    + destruct (a_tables a) as [|t0 tl0] eqn:Eta; [discriminate|].
      rewrite (IH _ _ H tid). rewrite in_app_iff. cbn [In]. split.
      * intros [[H1|[<-|[]]]|(b & tl & Hb & Hm & Ht)]; [left; exact H1| |].
        -- right. exists a, tl0. split; [left; reflexivity|auto].
        -- right. exists b, tl. split; [right; exact Hb|auto].
      * intros [H1|(b & tl & [<-|Hb] & Hm & Ht)]; [left; left; exact H1| |].
        -- rewrite Eta in Ht. inversion Ht; subst. left. right. left. reflexivity.
        -- right. exists b, tl. auto.
    + rewrite (IH _ _ H tid). split.
      * intros [H1|(b & tl & Hb & Hm & Ht)]; [left; exact H1|]. right. exists b, tl. split; [right; exact Hb|auto].
      * intros [H1|(b & tl & [<-|Hb] & Hm & Ht)]; [left; exact H1|congruence|]. right. exists b, tl. auto.
Qed.

(** An unregistered filter selects exactly the tables of the archetypes whose mask it matches. *)
Theorem batch_tables_uncached : forall s fi f tabs, St s ->
  nth_error (w_filters s) fi = Some f -> f_cache f = None -> get_batch_tables fi [] s = Ok tabs s ->
  (forall tid, In tid tabs -> exists t a, nth_error (w_tables s) tid = Some t /\
       nth_error (w_archs s) (t_arch t) = Some a /\ filter_matches f (a_mask a) = true) /\
  (tables_listed s -> forall tid t a, nth_error (w_tables s) tid = Some t -> 0 < t_len t ->
       nth_error (w_archs s) (t_arch t) = Some a -> filter_matches f (a_mask a) = true -> In tid tabs).
Proof.
  intros s fi f tabs [HW HN] Hf Hc H. rewrite bo_gbt_pure in H. unfold bo_gbt in H. rewrite Hf, Hc in H.
  rewrite k_upure_norel in H by (apply k_norel_archs; exact HN).
  destruct (k_sel f (w_archs s) []) as [r|] eqn:E; cbn [k_inj] in H; [|discriminate].
  inversion H; subst r. pose proof (bo_sel_in f (w_archs s) [] tabs E) as S. split.
  - intros tid Hin. apply S in Hin. destruct Hin as [[]|(a & tl & Ha & Hm & Ht)].
    apply In_nth_error in Ha. destruct Ha as (aid & Ha).
    destruct (wf_arch_tables _ HW aid a tid Ha) as (t & Et & Eaid); [left; rewrite Ht; left; reflexivity|].
    exists t, a. split; [exact Et|]. split; [rewrite Eaid; exact Ha|exact Hm].
  - intros TL tid t a Ht Hlen Ha Hm. apply S. right.
    destruct (TL tid t Ht Hlen) as (a' & Ha' & Hin). rewrite Ha in Ha'. inversion Ha'; subst a'.
    destruct HN as (_ & _ & N3 & _). destruct (N3 _ _ Ha) as (_ & Hn & _).
    pose proof (wf_arch_norel_table _ HW _ _ Ha Hn) as Hle.
    destruct (a_tables a) as [|t0 [|t1 tl]] eqn:Eta; [destruct Hin| |cbn in Hle; lia].
    destruct Hin as [<-|[]]. exists a, []. split; [eapply nth_error_In; eauto|auto].
Qed.

Lemma bo_matches_mask : forall s f e tid r t a, WF s -> live s e = true -> loc s e = Some (tid, r) ->
  nth_error (w_tables s) tid = Some t -> nth_error (w_archs s) (t_arch t) = Some a ->
  (filter_matches f (a_mask a) = true <-> bo_ent_matches s f e).
Proof.
  intros s f e tid r t a HW Hl Hloc Ht Ha.
  pose proof (val_defined_iff_mask s e tid r t a HW Hl Hloc Ht Ha) as V.
  rewrite filter_matches_spec. unfold bo_ent_matches, subset, disjoint. split; intros (H1 & H2); split.
  - intros c Hc. apply V. apply H1. exact Hc.
  - intros Hw c Hc. destruct (val s e c) eqn:Ev; [|reflexivity]. exfalso.
    apply (H2 Hw c). split; [apply V; congruence|exact Hc].
  - intros c Hc. apply V. apply H1. exact Hc.
  - intros Hw c (Hm & Hc). apply V in Hm. apply Hm. apply H2; assumption.
Qed.

(** The entities a batch over an unregistered filter works on are exactly the live entities whose
    component set matches the filter (completeness needs [tables_listed]). *)
Theorem batch_selection_uncached : forall s fi f tabs, St s ->
  nth_error (w_filters s) fi = Some f -> f_cache f = None -> get_batch_tables fi [] s = Ok tabs s ->
  forall e, live s e = true ->
    (bo_in_tabs s tabs e -> bo_ent_matches s f e) /\
    (tables_listed s -> bo_ent_matches s f e -> bo_in_tabs s tabs e).
Proof.
  intros s fi f tabs HSt Hf Hc H e Hl. pose proof (proj1 HSt) as HW.
  destruct (batch_tables_uncached s fi f tabs HSt Hf Hc H) as (S1 & S2).
  destruct (sb2_live_elim _ _ Hl) as (tid & r & t & L0 & T0 & R0 & E0).
  destruct (wf_layout _ HW tid t T0) as (a & Ha & _).
  pose proof (bo_matches_mask s f e tid r t a HW Hl L0 T0 Ha) as M. split.
  - intros (tid' & r' & Hin & Hloc). rewrite L0 in Hloc. inversion Hloc; subst tid' r'.
    destruct (S1 tid Hin) as (t' & a' & Et & Ea & Hm). rewrite T0 in Et. inversion Et; subst t'.
    rewrite Ha in Ea. inversion Ea; subst a'. apply M. exact Hm.
  - intros TL Hm. exists tid, r. split; [|exact L0]. apply (S2 TL tid t a T0); [lia|exact Ha|apply M; exact Hm].
Qed.

(* ------------------------------------------------------------------ *)
(** ** Non-vacuity: a reachable world satisfying the hypotheses *)

Lemma bo_pow31 : 64 < Nat.pow 2 31.
Proof.
  change 31 with (7 + 24). rewrite Nat.pow_add_r.
  assert (H : 0 < Nat.pow 2 24) by (apply Nat.neq_0_lt_0, Nat.pow_nonzero; discriminate).
  change (Nat.pow 2 7) with 128. set (P := Nat.pow 2 24) in *. clearbody P. lia.
Qed.

(** Creating a filter object does not touch the storage. *)
Lemma bo_St_filters : forall s F, St s -> w_centries s = [] -> St (s <| w_filters := F |>).
Proof.
  intros s F [HW HN] Hc. split.
  - destruct HW. constructor; try assumption.
    intros addr Hin. change (w_centries (s <| w_filters := F |>)) with (w_centries s) in Hin.
    rewrite Hc in Hin. destruct Hin.
  - exact HN.
Qed.

Definition bo_listed_b (s : W) : bool :=
  forallb (fun tid => match nth_error (w_tables s) tid with
                      | Some t => if Nat.eqb (t_len t) 0 then true
                                  else match nth_error (w_archs s) (t_arch t) with
                                       | Some a => memb tid (a_tables a)
                                       | None => false
                                       end
                      | None => true
                      end) (seq 0 (length (w_tables s))).

Lemma bo_listed_b_ok : forall s, bo_listed_b s = true -> tables_listed s.
Proof.
  intros s H tid t Ht Hlen. unfold bo_listed_b in H. rewrite forallb_forall in H.
  assert (Hin : In tid (seq 0 (length (w_tables s)))).
  { apply in_seq. split; [lia|]. cbn. apply nth_error_Some. congruence. }
  specialize (H tid Hin). rewrite Ht in H.
  destruct (Nat.eqb_spec (t_len t) 0); [lia|].
  destruct (nth_error (w_archs s) (t_arch t)) as [a|]; [|discriminate].
  exists a. split; [reflexivity|]. apply sb2_memb_In. exact H.
Qed.

Definition bo_cfg : script_cfg :=
  {| sc_cap := 2; sc_caprel := 1; sc_bits := 256; sc_debug := false; sc_kinds := map kind_of_code [0; 1; 2]%Z |}.
(** Three entities with components {0,1}, one without components, a write, then the filter "with 0". *)
Definition bo_core_lines : list (list Z) := [[1; 2; 0; 1]; [1; 2; 0; 1]; [1; 2; 0; 1]; [0]; [9; 0; 1; 7]]%Z.
Definition bo_filter_line : list Z := [15; 0; 1; 0; 0; 0; 0]%Z.
Definition bo_world : W := exec bo_cfg (bo_core_lines ++ [bo_filter_line]).
Definition bo_filter : fobj :=
  {| f_ids := [0]; f_mask := mk_of_list [0]; f_without := mk_of_list []; f_haswithout := false;
     f_cache := None; f_rels := []; f_unsafe := false |}.

Lemma bo_core_St : St (run_core bo_cfg bo_core_lines).
Proof.
  apply (reachable_inv bo_cfg bo_core_lines).
  - split; [cbn; lia|]. split; [cbn; lia|]. split; [cbn; lia|]. repeat constructor.
  - repeat constructor; eexists; (split; [vm_compute; reflexivity|]); (split; [reflexivity|]);
      intros c Hc; cbn in Hc; cbn; lia.
  - pose proof bo_pow31. cbn [length bo_core_lines]. lia.
Qed.

Lemma bo_world_eq : bo_world = run_core bo_cfg bo_core_lines <| w_filters := [bo_filter] |>.
Proof. vm_compute. reflexivity. Qed.

Lemma bo_world_St : St bo_world.
Proof. rewrite bo_world_eq. apply bo_St_filters; [exact bo_core_St|vm_compute; reflexivity]. Qed.

(** The hypotheses of [exchange_batch_spec] (with [add = [2]], [rem = [0]], the callback storing 5
    into component 2) and of [batch_selection_uncached] hold in the reachable world [bo_world]. *)
Example exchange_batch_spec_nonvacuous :
  St bo_world /\ is_locked bo_world = false /\ lock_lock (w_lock bo_world) <> None /\
  ([2] <> [] \/ [0] <> []) /\ registered bo_world [2] /\
  ([0] <> [] -> has_obs bo_world EvRemoveComponents = false) /\
  ([2] <> [] -> has_obs bo_world EvAddComponents = false) /\
  (forall cv, In cv [(2, 5%Z)] -> In (fst cv) [2]) /\
  get_batch_tables 0 [] bo_world = Ok [1] bo_world /\
  nth_error (w_filters bo_world) 0 = Some bo_filter /\ f_cache bo_filter = None /\ tables_listed bo_world.
Proof.
  split; [exact bo_world_St|]. split; [vm_compute; reflexivity|]. split; [vm_compute; discriminate|].
  split; [left; discriminate|]. split; [intros c [<-|[]]; vm_compute; lia|].
  split; [intros _; vm_compute; reflexivity|]. split; [intros _; vm_compute; reflexivity|].
  split; [intros cv [<-|[]]; left; reflexivity|]. split; [vm_compute; reflexivity|].
  split; [vm_compute; reflexivity|]. split; [reflexivity|]. apply bo_listed_b_ok. vm_compute. reflexivity.
Qed.

(** What the call computes there: the three entities with {0,1} end with {1,2} (component 1 kept,
    7 for the first, component 2 = 5 from the callback); the component-less entity is untouched;
    one log entry per moved entity; the world is unlocked. *)
Example exchange_batch_example :
  match w_exchange_batch 0 [] [2] [0] [] [(2, 5%Z)] bo_world with
  | Ok _ s' =>
      (map (fun e => (live s' e, val s' e 0, val s' e 1, val s' e 2)) [(2, 0%N); (3, 0%N); (4, 0%N); (5, 0%N)],
       w_log s', is_locked s')
  | Err _ _ => ([], [], true)
  end =
  ([(true, None, Some 7%Z, Some 5%Z); (true, None, Some 0%Z, Some 5%Z); (true, None, Some 0%Z, Some 5%Z); (true, None, None, None)],
   [[101; 2; 0]; [101; 3; 0]; [101; 4; 0]]%Z, false).
Proof. vm_compute. reflexivity. Qed.

(* ------------------------------------------------------------------ *)
(** * RemoveEntities *)

(** ** Pure parts: recycling a list of entities, clearing their index entries *)

Fixpoint bo_recycle_all (p : pool) (D : list ent) : option pool :=
  match D with
  | [] => Some p
  | e :: D' => match pool_recycle p e with Some p1 => bo_recycle_all p1 D' | None => None end
  end.

Lemma bo_recycle_all_spec : forall D p fl, pool_ok p fl -> NoDup (map fst D) ->
  (forall e, In e D -> 2 <= fst e /\ nth_error (pe p) (fst e) = Some e /\ ~ In (fst e) fl) ->
  exists p', bo_recycle_all p D = Some p' /\ pool_ok p' (rev (map fst D) ++ fl) /\ length (pe p') = length (pe p) /\
    (forall i, ~ In i (map fst D) -> nth_error (pe p') i = nth_error (pe p) i) /\
    (forall e, In e D -> exists l, nth_error (pe p') (fst e) = Some (l, N.modulo (snd e + 1) 4294967296)).
Proof.
  induction D as [|e D IH]; intros p fl Hok Hnd H.
  - exists p. split; [reflexivity|]. split; [exact Hok|]. split; [reflexivity|]. split; [auto|intros e []].
  - cbn [map] in Hnd. inversion Hnd as [|? ? Hnin Hnd']; subst.
    destruct (H e (or_introl eq_refl)) as (H2 & Hn & Hfl).
    destruct (pool_recycle_spec p fl e Hok H2 Hn Hfl) as (p1 & E1 & Hok1 & L1 & O1 & (l1 & B1)).
    destruct (IH p1 (fst e :: fl) Hok1 Hnd') as (p' & E' & Hok' & L' & O' & B').
    { intros e' He'. destruct (H e' (or_intror He')) as (G2 & Gn & Gfl).
      assert (Hne : fst e' <> fst e).
      { intros E. apply Hnin. rewrite <- E. apply in_map. exact He'. }
      split; [exact G2|]. split; [rewrite O1 by exact Hne; exact Gn|].
      intros [X|X]; [congruence|contradiction]. }
    exists p'. split; [cbn [bo_recycle_all]; rewrite E1; exact E'|].
    split; [cbn [map rev]; rewrite <- app_assoc; exact Hok'|]. split; [congruence|].
    split.
    { intros i Hi. cbn [map] in Hi. rewrite O' by (intros X; apply Hi; right; exact X).
      apply O1. intros ->. apply Hi. left. reflexivity. }
    intros e' [<-|He'].
    + exists l1. rewrite O' by exact Hnin. exact B1.
    + apply B'. exact He'.
Qed.

Definition bo_unindex (I : list (option nat * nat)) (D : list ent) : list (option nat * nat) :=
  fold_left (fun I e => updf (fst e) (fun ix => (None, snd ix)) I) D I.

Lemma bo_unindex_length : forall D I, length (bo_unindex I D) = length I.
Proof.
  induction D as [|e D IH]; intros I; [reflexivity|]. cbn [bo_unindex fold_left].
  change (length (bo_unindex (updf (fst e) (fun ix => (None, snd ix)) I) D) = length I).
  rewrite IH. apply updf_length.
Qed.

Lemma bo_unindex_nth : forall D I id,
  nth_error (bo_unindex I D) id =
  if memb id (map fst D) then option_map (fun ix : option nat * nat => (@None nat, snd ix)) (nth_error I id)
  else nth_error I id.
Proof.
  induction D as [|e D IH]; intros I id; [reflexivity|].
  change (bo_unindex I (e :: D)) with (bo_unindex (updf (fst e) (fun ix => (None, snd ix)) I) D).
  rewrite IH, nth_error_updf. cbn [map]. rewrite sb2_memb_cons.
  destruct (Nat.eqb (fst e) id); cbn [orb].
  - destruct (memb id (map fst D)); [|reflexivity]. destruct (nth_error I id) as [[a b]|]; reflexivity.
  - reflexivity.
Qed.

(** ** The row loop *)

Definition bo_rm_rows : list ent -> list ent -> MW (list ent) :=
  fix rows (es : list ent) (acc : list ent) : MW (list ent) :=
    match es with
    | [] => ret acc
    | e :: more =>
        s <- get ;;
        let acc1 := if nth (fst e) (w_istarget s) false then acc ++ [e] else acc in
        modify (fun s => s <| w_index ::= updf (fst e) (fun ix => (None, snd ix)) |>) ;;;
        pool_recycleM e ;;;
        rows more acc1
    end.

Definition bo_rm_tabs : list nat -> list ent -> MW (list ent) :=
  fix go (tabs : list nat) (acc : list ent) : MW (list ent) :=
    match tabs with
    | [] => ret acc
    | tid :: rest =>
        t <- getT tid ;;
        acc' <- bo_rm_rows (firstn (t_len t) (t_ents t)) acc ;;
        modT tid tbl_reset ;;;
        go rest acc'
    end.

Lemma bo_rm_rows_run : forall es s acc p', bo_recycle_all (w_pool s) es = Some p' ->
  bo_rm_rows es acc s = Ok (acc ++ filter (fun e => nth (fst e) (w_istarget s) false) es)
                           (s <| w_index := bo_unindex (w_index s) es |> <| w_pool := p' |>).
Proof.
  induction es as [|e more IH]; intros s acc p' H.
  - cbn in H. inversion H; subst p'. cbn [bo_rm_rows filter]. unfold ret. rewrite app_nil_r. f_equal.
    apply b_W_ext; reflexivity.
  - cbn [bo_recycle_all] in H. destruct (pool_recycle (w_pool s) e) as [p1|] eqn:E1; [|discriminate].
    cbn [bo_rm_rows]. unfold bind at 1. unfold get at 1. cbv beta iota zeta.
    unfold bind at 1. unfold modify at 1. cbv beta iota.
    set (s1 := s <| w_index ::= updf (fst e) (fun ix => (None, snd ix)) |>).
    assert (ER : pool_recycleM e s1 = Ok tt (s1 <| w_pool := p1 |>)).
    { unfold pool_recycleM, bind, get. change (w_pool s1) with (w_pool s). rewrite E1. reflexivity. }
    rewrite (bo_bind_ok ER).
    set (s2 := s1 <| w_pool := p1 |>).
    rewrite (IH s2 _ p' H). f_equal; try (apply b_W_ext; reflexivity).
    change (w_istarget s2) with (w_istarget s). cbn [filter].
    destruct (nth (fst e) (w_istarget s) false); [rewrite <- app_assoc|]; reflexivity.
Qed.

(** ** The invariant of the removal loop *)

Definition bo_rest_same (s0 s : W) : Prop :=
  w_cfg s = w_cfg s0 /\ w_reg s = w_reg s0 /\ w_istarget s = w_istarget s0 /\ w_archs s = w_archs s0 /\
  w_relarchs s = w_relarchs s0 /\ w_compindex s = w_compindex s0 /\ w_archcount s = w_archcount s0 /\
  w_version s = w_version s0 /\ w_cheap s = w_cheap s0 /\ w_centries s = w_centries s0 /\
  w_cpool s = w_cpool s0 /\ w_lock s = w_lock s0 /\ w_obs s = w_obs s0 /\ w_olists s = w_olists s0 /\
  w_oagg s = w_oagg s0 /\ w_opool s = w_opool s0 /\ w_ototal s = w_ototal s0 /\ w_omax s = w_omax s0 /\
  w_filters s = w_filters s0 /\ w_queries s = w_queries s0 /\ w_res s = w_res s0 /\ w_issued s = w_issued s0 /\
  w_log s = w_log s0.

Definition bo_doomed (s0 : W) (R : list nat) (e : ent) : Prop := live s0 e = true /\ bo_in_tabs s0 R e.

Definition bo_unix : option nat * nat -> option nat * nat := fun ix => (None, snd ix).

Record bo_mid (s0 s : W) (D : list ent) (R : list nat) : Prop := {
  bm_tlen : length (w_tables s) = length (w_tables s0);
  bm_tabs : forall tid t0, nth_error (w_tables s0) tid = Some t0 ->
      exists t', nth_error (w_tables s) tid = Some t' /\ tbl_ok t' /\ sb2_meta t0 t' /\
                 (if memb tid R then t_len t' = 0 else t' = t0);
  bm_ilen : length (w_index s) = length (w_index s0);
  bm_index : forall id, nth_error (w_index s) id =
      if memb id (map fst D) then option_map bo_unix (nth_error (w_index s0) id) else nth_error (w_index s0) id;
  bm_pool : exists fl0, pool_ok (w_pool s0) fl0 /\
      (forall i, In i fl0 -> exists r, nth_error (w_index s0) i = Some (None, r)) /\
      (forall i, 2 <= i < length (pe (w_pool s0)) -> ~ In i fl0 -> exists tid r, nth_error (w_index s0) i = Some (Some tid, r)) /\
      pool_ok (w_pool s) (rev (map fst D) ++ fl0) /\ length (pe (w_pool s)) = length (pe (w_pool s0)) /\
      (forall i, ~ In i (map fst D) -> nth_error (pe (w_pool s)) i = nth_error (pe (w_pool s0)) i) /\
      (forall e, In e D -> exists l, nth_error (pe (w_pool s)) (fst e) = Some (l, N.modulo (snd e + 1) 4294967296));
  bm_nodup : NoDup (map fst D);
  bm_D : forall e, In e D <-> bo_doomed s0 R e
}.

Lemma bo_mid_init : forall s0, St s0 -> bo_mid s0 s0 [] [].
Proof.
  intros s0 [HW HN]. constructor.
  - reflexivity.
  - intros tid t0 Ht. exists t0. split; [exact Ht|]. split; [eapply sb2_table_ok; eauto|]. split; [apply sb2_meta_refl|reflexivity].
  - reflexivity.
  - intros id. reflexivity.
  - destruct (wf_pool _ HW) as (fl & P1 & P2 & P3). exists fl. split; [exact P1|]. split; [exact P2|]. split; [exact P3|].
    split; [exact P1|]. split; [reflexivity|]. split; [auto|intros e []].
  - constructor.
  - intros e. split; [intros []|intros (_ & tid & r & [] & _)].
Qed.

Lemma bo_rows_eq : forall t, tbl_ok t -> firstn (t_len t) (t_ents t) = map (row_ent t) (seq 0 (t_len t)).
Proof.
  intros t Hok. pose proof (tbl_ok_elim _ Hok) as (O1 & O2 & _).
  change (t_ents t) with (skipn 0 (t_ents t)) at 1.
  rewrite (b_firstn_skipn_seq _ (t_ents t) zero_ent (t_len t) 0) by lia. reflexivity.
Qed.

Lemma bo_memb_app : forall x a b, memb x (a ++ b) = (memb x a || memb x b)%bool.
Proof.
  intros x a b. destruct (memb x (a ++ b)) eqn:E.
  - apply sb2_memb_In in E. apply in_app_or in E. symmetry. apply orb_true_iff.
    destruct E as [E|E]; [left|right]; apply sb2_memb_In; exact E.
  - apply sb2_memb_false in E. symmetry. apply orb_false_iff. split; apply sb2_memb_false; intros X; apply E; apply in_or_app; auto.
Qed.

Lemma bo_index_combine : forall (b1 b2 : bool) (x : option (option nat * nat)),
  (if b2 then option_map bo_unix (if b1 then option_map bo_unix x else x) else (if b1 then option_map bo_unix x else x)) =
  if (b1 || b2)%bool then option_map bo_unix x else x.
Proof. intros [|] [|] [[a b]|]; reflexivity. Qed.

Lemma bo_live_id_in : forall s0 D R e, WF s0 -> (forall x, In x D <-> bo_doomed s0 R x) -> live s0 e = true ->
  In (fst e) (map fst D) -> In e D.
Proof.
  intros s0 D R e HW HD Hl Hin. apply in_map_iff in Hin. destruct Hin as (d & Ed & Hd).
  pose proof (proj1 (HD d) Hd) as (Ld & _).
  rewrite <- (live_unique s0 d e HW Ld Hl Ed). exact Hd.
Qed.

(** The rows of a live table: live, located there, pairwise different IDs. *)
Lemma bo_table_rows : forall s0 tid t0, WF s0 -> nth_error (w_tables s0) tid = Some t0 ->
  let es := firstn (t_len t0) (t_ents t0) in
  NoDup (map fst es) /\
  (forall e, In e es <-> (live s0 e = true /\ exists r, loc s0 e = Some (tid, r))).
Proof.
  intros s0 tid t0 HW Ht es. pose proof (sb2_table_ok _ _ _ HW Ht) as Hok.
  unfold es. rewrite (bo_rows_eq t0 Hok). split.
  - rewrite map_map. apply sa_NoDup_map_inj; [|apply seq_NoDup].
    intros i j Hi Hj E. apply in_seq in Hi. apply in_seq in Hj.
    apply (sb2_row_inj s0 tid t0 i tid t0 j HW Ht) in E; [tauto|lia|exact Ht|lia].
  - intros e. rewrite in_map_iff. split.
    + intros (i & Ei & Hi). apply in_seq in Hi.
      destruct (wf_rows _ HW _ _ _ Ht (proj2 Hi)) as (A & _). rewrite Ei in A.
      split; [eapply sb2_live_intro; eauto; lia|eauto].
    + intros (Hlive & r & Hloc).
      destruct (sb2_live_elim _ _ Hlive) as (tid0 & r0 & t1 & L0 & T0 & R0 & E0).
      rewrite Hloc in L0. inversion L0; subst tid0 r0. rewrite Ht in T0. inversion T0; subst t1.
      exists r. split; [exact E0|apply in_seq; lia].
Qed.

Lemma bo_rm_tabs_run : forall tabs s0 s D R acc, St s0 -> bo_mid s0 s D R -> bo_rest_same s0 s ->
  (forall tid, In tid tabs -> exists t, nth_error (w_tables s0) tid = Some t) ->
  exists s' D' acc', bo_rm_tabs tabs acc s = Ok acc' s' /\ bo_mid s0 s' D' (rev tabs ++ R) /\ bo_rest_same s0 s'.
Proof.
  induction tabs as [|tid rest IH]; intros s0 s D R acc HSt HM HR Hval.
  - exists s, D, acc. split; [reflexivity|]. split; [exact HM|exact HR].
  - pose proof (proj1 HSt) as HW.
    destruct (Hval tid (or_introl eq_refl)) as (t0 & Ht0).
    assert (Hval' : forall x, In x rest -> exists t, nth_error (w_tables s0) x = Some t) by (intros; apply Hval; right; assumption).
    destruct (bm_tabs _ _ _ _ HM tid t0 Ht0) as (t' & Ht' & Hok' & Hmeta' & Hcase).
    cbn [bo_rm_tabs]. rewrite (bo_bind_ok (sb2_getT _ _ _ Ht')).
    cbn [rev]. rewrite <- app_assoc. cbn [app].
    destruct (memb tid R) eqn:EmR.
    + (* already reset: nothing to remove *)
      rewrite Hcase. cbn [firstn bo_rm_rows]. rewrite (bo_bind_ok (m := ret acc) (s := s) eq_refl).
      rewrite (bo_bind_ok (sb2_modT s tid tbl_reset t' Ht')).
      set (s2 := sb2_setT s (upd tid (tbl_reset t') (w_tables s))).
      assert (HM2 : bo_mid s0 s2 D (tid :: R)).
      { destruct HM as [M1 M2 M3 M4 M5 M6 M7]. constructor.
        - unfold s2. cbn. rewrite upd_length. exact M1.
        - intros x tx0 Hx. destruct (M2 x tx0 Hx) as (tx & Hx' & Hokx & Hmx & Hcx).
          change (w_tables s2) with (upd tid (tbl_reset t') (w_tables s)). rewrite nth_error_upd.
          rewrite sb2_memb_cons. destruct (Nat.eqb_spec tid x) as [<-|Hnx].
          + rewrite Ht'. exists (tbl_reset t'). split; [reflexivity|]. split; [apply tbl_reset_ok; exact Hok'|].
            rewrite Ht0 in Hx. inversion Hx; subst tx0.
            split; [eapply sb2_meta_trans; [exact Hmeta'|repeat split]|reflexivity].
          + exists tx. cbn [orb]. auto.
        - exact M3.
        - exact M4.
        - exact M5.
        - exact M6.
        - intros e. rewrite M7. unfold bo_doomed, bo_in_tabs. split; intros (Hl & x & r & Hin & Hloc); (split; [exact Hl|]); exists x, r.
          + split; [right; exact Hin|exact Hloc].
          + split; [|exact Hloc]. destruct Hin as [<-|Hin]; [apply sb2_memb_In; exact EmR|exact Hin]. }
      assert (HR2 : bo_rest_same s0 s2) by exact HR.
      destruct (IH s0 s2 D (tid :: R) acc HSt HM2 HR2 Hval') as (s' & D' & acc' & Hrun & HM' & HR').
      exists s', D', acc'. auto.
    + subst t'. set (es := firstn (t_len t0) (t_ents t0)).
      destruct (bo_table_rows s0 tid t0 HW Ht0) as (NDes & Ines). fold es in NDes, Ines.
      pose proof HM as [M1 M2 M3 M4 M5 M6 M7].
      destruct M5 as (fl0 & P1 & P2 & P3 & P4 & P5 & P6 & P7).
      assert (Hfresh : forall e, In e es -> ~ In (fst e) (map fst D)).
      { intros e He Hin. apply Ines in He. destruct He as (Hl & r & Hloc).
        pose proof (bo_live_id_in s0 D R e HW M7 Hl Hin) as HeD. apply M7 in HeD.
        destruct HeD as (_ & x & r' & Hx & Hloc'). rewrite Hloc in Hloc'. inversion Hloc'; subst x r'.
        apply sb2_memb_In in Hx. congruence. }
      destruct (bo_recycle_all_spec es (w_pool s) (rev (map fst D) ++ fl0) P4 NDes) as (p' & Erc & Q1 & Q2 & Q3 & Q4).
      { intros e He. pose proof (Hfresh e He) as Hf. apply Ines in He. destruct He as (Hl & r & Hloc).
        destruct (live_alive s0 e HW Hl) as (_ & H2).
        destruct (sb2_live_elim _ _ Hl) as (tid1 & r1 & t1 & L1 & T1 & R1 & E1).
        destruct (wf_rows _ HW _ _ _ T1 R1) as (_ & Hp). rewrite E1 in Hp.
        split; [exact H2|]. split; [rewrite P6 by exact Hf; exact Hp|].
        intros Hin. apply in_app_or in Hin. destruct Hin as [Hin|Hin].
        - apply Hf. apply in_rev. exact Hin.
        - destruct (P2 _ Hin) as (r2 & Hi2). apply sb2_loc_iff in Hloc. congruence. }
      rewrite (bo_bind_ok (bo_rm_rows_run es s acc p' Erc)).
      set (acc1 := acc ++ filter (fun e => nth (fst e) (w_istarget s) false) es).
      set (s1 := s <| w_index := bo_unindex (w_index s) es |> <| w_pool := p' |>).
      assert (Ht1 : nth_error (w_tables s1) tid = Some t0) by exact Ht'.
      rewrite (bo_bind_ok (sb2_modT s1 tid tbl_reset t0 Ht1)).
      set (s2 := sb2_setT s1 (upd tid (tbl_reset t0) (w_tables s1))).
      assert (HM2 : bo_mid s0 s2 (D ++ es) (tid :: R)).
      { constructor.
        - unfold s2. cbn. rewrite upd_length. exact M1.
        - intros x tx0 Hx. destruct (M2 x tx0 Hx) as (tx & Hx' & Hokx & Hmx & Hcx).
          change (w_tables s2) with (upd tid (tbl_reset t0) (w_tables s)). rewrite nth_error_upd.
          rewrite sb2_memb_cons. destruct (Nat.eqb_spec tid x) as [<-|Hnx].
          + rewrite Ht'. exists (tbl_reset t0). split; [reflexivity|]. split; [apply tbl_reset_ok; exact Hok'|].
            rewrite Ht0 in Hx. inversion Hx; subst tx0. split; [repeat split|reflexivity].
          + exists tx. cbn [orb]. auto.
        - change (w_index s2) with (bo_unindex (w_index s) es). rewrite bo_unindex_length. exact M3.
        - intros id. change (w_index s2) with (bo_unindex (w_index s) es). rewrite bo_unindex_nth, M4.
          rewrite map_app, bo_memb_app. apply bo_index_combine.
        - exists fl0. split; [exact P1|]. split; [exact P2|]. split; [exact P3|].
          change (w_pool s2) with p'.
          split; [rewrite map_app, rev_app_distr, <- app_assoc; exact Q1|]. split; [congruence|].
          split.
          { intros i Hi. rewrite map_app in Hi. rewrite Q3 by (intros X; apply Hi; apply in_or_app; right; exact X).
            apply P6. intros X; apply Hi; apply in_or_app; left; exact X. }
          intros e He. apply in_app_or in He. destruct He as [He|He].
          + destruct (P7 e He) as (l & Hl). exists l. rewrite Q3; [exact Hl|].
            intros Hin. apply in_map_iff in Hin. destruct Hin as (e2 & E2 & He2).
            apply (Hfresh e2 He2). rewrite E2. apply in_map. exact He.
          + apply Q4. exact He.
        - rewrite map_app. apply bo_NoDup_app; [exact M6|exact NDes|].
          intros i Hi Hi2. apply in_map_iff in Hi2. destruct Hi2 as (e2 & E2 & He2). apply (Hfresh e2 He2). rewrite E2. exact Hi.
        - intros e. rewrite in_app_iff, M7, Ines. unfold bo_doomed, bo_in_tabs. split.
          + intros [(Hl & x & r & Hin & Hloc)|(Hl & r & Hloc)]; (split; [exact Hl|]).
            * exists x, r. split; [right; exact Hin|exact Hloc].
            * exists tid, r. split; [left; reflexivity|exact Hloc].
          + intros (Hl & x & r & [<-|Hin] & Hloc).
            * right. split; [exact Hl|eauto].
            * left. split; [exact Hl|]. exists x, r. auto. }
      assert (HR2 : bo_rest_same s0 s2) by exact HR.
      destruct (IH s0 s2 (D ++ es) (tid :: R) acc1 HSt HM2 HR2 Hval') as (s' & D' & acc' & Hrun & HM' & HR').
      exists s', D', acc'. auto.
Qed.

(** ** From the loop invariant to the storage invariant and the per-entity facts *)

Lemma bo_mid_final : forall s0 s D R s', St s0 -> bo_mid s0 s D R ->
  w_tables s' = w_tables s -> w_index s' = w_index s -> w_pool s' = w_pool s ->
  sb3_struct_same s0 s' -> length (w_istarget s') = length (w_istarget s0) ->
  St s' /\
  (forall e, In e D -> live s' e = false /\ alive s' e = false) /\
  (forall e, ~ In e D -> live s' e = live s0 e /\ forall c, val s' e c = val s0 e c).
Proof.
  intros s0 s D R s' HSt HM ET EI EP HSS HIT. pose proof (proj1 HSt) as HW.
  destruct HM as [M1 M2 M3 M4 M5 M6 M7]. rewrite <- ET in M1, M2. rewrite <- EI in M3, M4. rewrite <- EP in M5.
  destruct M5 as (fl0 & P1 & P2 & P3 & P4 & P5 & P6 & P7).
  destruct (wf_index_len _ HW) as (IL1 & IL2).
  (* facts about doomed ids *)
  assert (HDlive : forall d, In d D -> live s0 d = true /\ 2 <= fst d /\
             exists tid r, In tid R /\ nth_error (w_index s0) (fst d) = Some (Some tid, r)).
  { intros d Hd. apply M7 in Hd. destruct Hd as (Hl & tid & r & Hin & Hloc).
    split; [exact Hl|]. split; [apply (live_alive s0 d HW Hl)|]. exists tid, r. split; [exact Hin|apply sb2_loc_iff; exact Hloc]. }
  assert (Hidx_in : forall id, In id (map fst D) -> exists r, nth_error (w_index s') id = Some (None, r)).
  { intros id Hin. rewrite M4, (proj2 (sb2_memb_In _ _) Hin).
    apply in_map_iff in Hin. destruct Hin as (d & <- & Hd). destruct (HDlive d Hd) as (_ & _ & tid & r & _ & Hi).
    rewrite Hi. exists r. reflexivity. }
  assert (Hidx_out : forall id, ~ In id (map fst D) -> nth_error (w_index s') id = nth_error (w_index s0) id).
  { intros id Hn. rewrite M4, (proj2 (sb2_memb_false _ _) Hn). reflexivity. }
  (* a row of a table that was not reset is not doomed *)
  assert (Hrow_keep : forall tid t0 r, nth_error (w_tables s0) tid = Some t0 -> r < t_len t0 -> memb tid R = false ->
             ~ In (fst (row_ent t0 r)) (map fst D)).
  { intros tid t0 r Ht Hr Hm Hin.
    destruct (wf_rows _ HW _ _ _ Ht Hr) as (A & _).
    assert (Hl : live s0 (row_ent t0 r) = true) by (eapply sb2_live_intro; eauto).
    pose proof (bo_live_id_in s0 D R _ HW M7 Hl Hin) as HeD. apply M7 in HeD.
    destruct HeD as (_ & x & r' & Hx & Hloc'). rewrite A in Hloc'. inversion Hloc'; subst x r'.
    apply sb2_memb_In in Hx. congruence. }
  assert (Hrow_doomed : forall tid t0 r, nth_error (w_tables s0) tid = Some t0 -> r < t_len t0 -> memb tid R = true ->
             In (fst (row_ent t0 r)) (map fst D)).
  { intros tid t0 r Ht Hr Hm. destruct (wf_rows _ HW _ _ _ Ht Hr) as (A & _).
    assert (Hl : live s0 (row_ent t0 r) = true) by (eapply sb2_live_intro; eauto).
    apply in_map. apply M7. split; [exact Hl|]. exists tid, r. split; [apply sb2_memb_In; exact Hm|exact A]. }
  assert (Htab_inv : forall tid t', nth_error (w_tables s') tid = Some t' ->
             exists t0, nth_error (w_tables s0) tid = Some t0 /\ tbl_ok t' /\ sb2_meta t0 t' /\
                        (if memb tid R then t_len t' = 0 else t' = t0)).
  { intros tid t' Ht'. destruct (nth_error (w_tables s0) tid) as [t0|] eqn:E0.
    - destruct (M2 tid t0 E0) as (t1 & E1 & Q). rewrite Ht' in E1. inversion E1; subst t1. exists t0. auto.
    - apply nth_error_None in E0. apply sa_nth_error_lt in Ht'. lia. }
  assert (HSt' : St s').
  { apply (sb3_St_intro s0 s' HSt HSS).
    - split; [exact M1|]. intros tid t0 Ht0. destruct (M2 tid t0 Ht0) as (t' & E' & Hok & (A1 & A2 & A3 & A4 & A5 & A6) & _).
      exists t'. split; [exact E'|]. split; [exact Hok|]. repeat split; assumption.
    - split; [rewrite M3, P5; exact IL1|rewrite M3, HIT; exact IL2].
    - intros tid t r Ht Hr. destruct (Htab_inv tid t Ht) as (t0 & Ht0 & _ & _ & Hcase).
      destruct (memb tid R) eqn:Em; [lia|]. subst t.
      pose proof (Hrow_keep tid t0 r Ht0 Hr Em) as Hk.
      destruct (wf_rows _ HW _ _ _ Ht0 Hr) as (A & B). split.
      + apply sb2_loc_iff. rewrite Hidx_out by exact Hk. apply sb2_loc_iff. exact A.
      + rewrite P6 by exact Hk. exact B.
    - intros id tid r Hi.
      assert (Hn : ~ In id (map fst D)).
      { intros Hin. destruct (Hidx_in id Hin) as (r' & E). congruence. }
      rewrite Hidx_out in Hi by exact Hn.
      destruct (wf_index _ HW _ _ _ Hi) as (t0 & Ht0 & Hr & Hf).
      destruct (M2 tid t0 Ht0) as (t' & E' & _ & _ & Hcase).
      destruct (memb tid R) eqn:Em.
      + exfalso. apply Hn. rewrite <- Hf. exact (Hrow_doomed tid t0 r Ht0 Hr Em).
      + subst t'. exists t0. auto.
    - exists (rev (map fst D) ++ fl0). split; [exact P4|]. split.
      + intros i Hi. destruct (in_dec Nat.eq_dec i (map fst D)) as [Hd|Hd]; [apply Hidx_in; exact Hd|].
        rewrite Hidx_out by exact Hd. apply P2. apply in_app_or in Hi. destruct Hi as [Hi|Hi]; [|exact Hi].
        exfalso. apply Hd. apply in_rev. exact Hi.
      + intros i Hi Hn. rewrite P5 in Hi.
        assert (Hd : ~ In i (map fst D)) by (intros X; apply Hn; apply in_or_app; left; apply in_rev in X; exact X).
        rewrite Hidx_out by exact Hd. apply P3; [exact Hi|]. intros X. apply Hn. apply in_or_app. right. exact X.
    - destruct (wf_reserved _ HW) as ((r0 & I0) & (r1 & I1) & E0 & E1).
      assert (H0 : ~ In 0 (map fst D)).
      { intros Hin. apply in_map_iff in Hin. destruct Hin as (d & Ed & Hd). destruct (HDlive d Hd) as (_ & H2 & _). lia. }
      assert (H1 : ~ In 1 (map fst D)).
      { intros Hin. apply in_map_iff in Hin. destruct Hin as (d & Ed & Hd). destruct (HDlive d Hd) as (_ & H2 & _). lia. }
      split; [exists r0; rewrite Hidx_out by exact H0; exact I0|].
      split; [exists r1; rewrite Hidx_out by exact H1; exact I1|].
      split; [rewrite P6 by exact H0; exact E0|rewrite P6 by exact H1; exact E1].
    - rewrite P5. apply (wf_small _ HW). }
  split; [exact HSt'|]. split.
  - intros e He. split.
    + destruct (Hidx_in (fst e) (in_map fst _ _ He)) as (r & E).
      assert (Hl : loc s' e = None) by (unfold loc; rewrite E; reflexivity).
      apply (sb2_live_none s' e Hl).
    + destruct (P7 e He) as (l & E). unfold alive, pool_alive. rewrite E.
      apply N.eqb_neq. apply sb3_gen_bump.
  - intros e Hn.
    assert (Hlive : live s' e = live s0 e).
    { destruct (live s0 e) eqn:Hl0.
      - destruct (sb2_live_elim _ _ Hl0) as (tid & r & t0 & L0 & T0 & R0 & E0).
        assert (Hk : ~ In (fst e) (map fst D)).
        { intros Hin. apply Hn. exact (bo_live_id_in s0 D R e HW M7 Hl0 Hin). }
        assert (Em : memb tid R = false).
        { destruct (memb tid R) eqn:Em; [|reflexivity]. exfalso. apply Hn. apply M7. split; [exact Hl0|].
          exists tid, r. split; [apply sb2_memb_In; exact Em|exact L0]. }
        destruct (M2 tid t0 T0) as (t' & E' & _ & _ & Hcase). rewrite Em in Hcase. subst t'.
        eapply sb2_live_intro; [|exact E'|exact R0|exact E0].
        apply sb2_loc_iff. rewrite Hidx_out by exact Hk. apply sb2_loc_iff. exact L0.
      - destruct (live s' e) eqn:Hl'; [|reflexivity]. exfalso.
        destruct (sb2_live_elim _ _ Hl') as (tid & r & t' & L' & T' & R' & E').
        destruct (Htab_inv tid t' T') as (t0 & Ht0 & _ & _ & Hcase).
        destruct (memb tid R) eqn:Em; [lia|]. subst t'.
        assert (Hk : ~ In (fst e) (map fst D)).
        { intros Hin. destruct (Hidx_in _ Hin) as (r' & E). apply sb2_loc_iff in L'. congruence. }
        apply sb2_loc_iff in L'. rewrite Hidx_out in L' by exact Hk. apply sb2_loc_iff in L'.
        rewrite (sb2_live_intro s0 e tid r t0 L' Ht0 R' E') in Hl0. discriminate. }
    split; [exact Hlive|]. intros c. unfold val. rewrite Hlive.
    destruct (live s0 e) eqn:Hl0; [|reflexivity].
    destruct (sb2_live_elim _ _ Hl0) as (tid & r & t0 & L0 & T0 & R0 & E0).
    assert (Hk : ~ In (fst e) (map fst D)).
    { intros Hin. apply Hn. exact (bo_live_id_in s0 D R e HW M7 Hl0 Hin). }
    assert (Em : memb tid R = false).
    { destruct (memb tid R) eqn:Em; [|reflexivity]. exfalso. apply Hn. apply M7. split; [exact Hl0|].
      exists tid, r. split; [apply sb2_memb_In; exact Em|exact L0]. }
    destruct (M2 tid t0 T0) as (t' & E' & _ & _ & Hcase). rewrite Em in Hcase. subst t'.
    assert (L' : loc s' e = Some (tid, r)).
    { apply sb2_loc_iff. rewrite Hidx_out by exact Hk. apply sb2_loc_iff. exact L0. }
    destruct (sb2_live_at _ _ _ _ _ L' E') as (_ & V'). destruct (sb2_live_at _ _ _ _ _ L0 T0) as (_ & V0).
    rewrite V', V0. reflexivity.
Qed.

(** ** Assembling RemoveEntities *)

Definition bo_rm_cb (tables : list nat) : MW unit :=
  forM_ tables (fun tid => t <- getT tid ;; forM_ (seq 0 (t_len t)) (fun i => batch_callback tid [] i)).

Definition bo_rm_ev_e (tables : list nat) : MW unit :=
  forM_ tables (fun tid =>
    m <- arch_mask_of_table tid ;; t <- getT tid ;;
    fire_rows (fun e eo => fire_remove_entity e m eo) (firstn (t_len t) (t_ents t)) true).

Definition bo_rm_ev_r (tables : list nat) : MW unit :=
  forM_ tables (fun tid =>
    t <- getT tid ;;
    whenM (tbl_has_rels t) (
      m <- arch_mask_of_table tid ;;
      fire_rows (fun e eo => fire_remove_entity_rel e m eo) (firstn (t_len t) (t_ents t)) true)).

Definition bo_rm_cleanup (cleanup : list ent) : MW unit :=
  forM_ cleanup (fun e =>
    cleanup_archetypes e ;;;
    modify (fun s => s <| w_istarget ::= upd (fst e) false |>)).

Lemma bo_remove_entities_eq : forall fi rels fn,
  w_remove_entities fi rels fn =
  (check_locked ;;;
   s0 <- get ;;
   let has_e := has_obs s0 EvRemoveEntity in
   let has_r := has_obs s0 EvRemoveRelations in
   let should_lock := (has_e || has_r || fn)%bool in
   l <- (if should_lock then lockM else ret 0) ;;
   tables <- get_batch_tables fi rels ;;
   whenM fn (bo_rm_cb tables) ;;;
   whenM has_e (bo_rm_ev_e tables) ;;;
   whenM has_r (bo_rm_ev_r tables) ;;;
   cleanup <- bo_rm_tabs tables [] ;;
   bo_rm_cleanup cleanup ;;;
   whenM should_lock (unlockM l)).
Proof. reflexivity. Qed.

Definition bo_rows_of (s : W) (tid : nat) : list ent :=
  match nth_error (w_tables s) tid with Some t => firstn (t_len t) (t_ents t) | None => [] end.

Lemma bo_rm_cb_run : forall tabs s, (forall tid, In tid tabs -> exists t, nth_error (w_tables s) tid = Some t /\ tbl_ok t) ->
  bo_rm_cb tabs s = Ok tt (b_logged s (map b_entry (flat_map (bo_rows_of s) tabs))).
Proof.
  induction tabs as [|tid rest IH]; intros s H.
  - cbn. rewrite b_logged_nil. reflexivity.
  - destruct (H tid (or_introl eq_refl)) as (t & Ht & Hok).
    pose proof (tbl_ok_elim _ Hok) as (O1 & O2 & _).
    unfold bo_rm_cb. cbn [forM_]. fold (bo_rm_cb rest).
    rewrite (bo_bind_ok (m := t0 <- getT tid ;; forM_ (seq 0 (t_len t0)) (fun i => batch_callback tid [] i)) (s := s) (a := tt)
               (s' := b_logged s (map b_entry (bo_rows_of s tid)))).
    2:{ rewrite (bo_bind_ok (sb2_getT _ _ _ Ht)).
        rewrite (b_callback_loop tid t (seq 0 (t_len t)) s Ht) by (intros r Hr; apply in_seq in Hr; lia).
        unfold bo_rows_of. rewrite Ht, (bo_rows_eq t Hok), map_map. reflexivity. }
    rewrite IH.
    2:{ intros x Hx. apply H. right. exact Hx. }
    rewrite b_logged_logged. cbn [flat_map]. rewrite map_app. reflexivity.
Qed.

Definition bo_untarget (IT : list bool) (cl : list ent) : list bool := fold_left (fun it e => upd (fst e) false it) cl IT.

Lemma bo_untarget_length : forall cl IT, length (bo_untarget IT cl) = length IT.
Proof.
  induction cl as [|e cl IH]; intros IT; [reflexivity|]. cbn [bo_untarget fold_left].
  change (length (bo_untarget (upd (fst e) false IT) cl) = length IT). rewrite IH. apply upd_length.
Qed.

Lemma bo_rm_cleanup_run : forall cl s, w_relarchs s = [] ->
  bo_rm_cleanup cl s = Ok tt (s <| w_istarget := bo_untarget (w_istarget s) cl |>).
Proof.
  induction cl as [|e cl IH]; intros s Hr.
  - cbn. unfold ret. f_equal. apply b_W_ext; reflexivity.
  - unfold bo_rm_cleanup. cbn [forM_]. fold (bo_rm_cleanup cl).
    assert (EC : cleanup_archetypes e s = Ok tt s).
    { unfold cleanup_archetypes, bind, get. rewrite Hr. reflexivity. }
    rewrite (bo_bind_ok (m := cleanup_archetypes e ;;; modify (fun s => s <| w_istarget ::= upd (fst e) false |>)) (s := s) (a := tt)
               (s' := s <| w_istarget ::= upd (fst e) false |>)).
    2:{ rewrite (bo_bind_ok EC). reflexivity. }
    rewrite IH by exact Hr. f_equal; try (apply b_W_ext; reflexivity).
Qed.

Lemma bo_NoDup_flat_map : forall A B (f : A -> list B) l, NoDup l -> (forall a, In a l -> NoDup (f a)) ->
  (forall a b x, In a l -> In b l -> In x (f a) -> In x (f b) -> a = b) -> NoDup (flat_map f l).
Proof.
  intros A B f l Hnd. induction Hnd as [|a l Ha Hnd IH]; intros H1 H2; [constructor|].
  cbn [flat_map]. apply bo_NoDup_app.
  - apply H1. left. reflexivity.
  - apply IH; [intros b Hb; apply H1; right; exact Hb|].
    intros b c x Hb Hc. apply H2; right; assumption.
  - intros x Hx Hx2. apply in_flat_map in Hx2. destruct Hx2 as (b & Hb & Hxb).
    assert (a = b) by (apply (H2 a b x); [left; reflexivity|right; exact Hb|exact Hx|exact Hxb]). subst b. contradiction.
Qed.

Lemma bo_all_rows : forall s tabs, WF s ->
  (forall e, In e (flat_map (bo_rows_of s) tabs) <-> (live s e = true /\ bo_in_tabs s tabs e)) /\
  (NoDup tabs -> NoDup (flat_map (bo_rows_of s) tabs)).
Proof.
  intros s tabs HW.
  assert (Hrows : forall tid e, In e (bo_rows_of s tid) <-> (live s e = true /\ exists r, loc s e = Some (tid, r))).
  { intros tid e. unfold bo_rows_of. destruct (nth_error (w_tables s) tid) as [t|] eqn:Et.
    - apply (bo_table_rows s tid t HW Et).
    - split; [intros []|]. intros (Hl & r & Hloc).
      destruct (sb2_live_elim _ _ Hl) as (tid0 & r0 & t0 & L0 & T0 & _). rewrite Hloc in L0. inversion L0; subst. congruence. }
  split.
  - intros e. rewrite in_flat_map. split.
    + intros (tid & Hin & He). apply Hrows in He. destruct He as (Hl & r & Hloc). split; [exact Hl|]. exists tid, r. auto.
    + intros (Hl & tid & r & Hin & Hloc). exists tid. split; [exact Hin|]. apply Hrows. eauto.
  - intros Hnd. apply bo_NoDup_flat_map; [exact Hnd| |].
    + intros tid _. unfold bo_rows_of. destruct (nth_error (w_tables s) tid) as [t|] eqn:Et; [|constructor].
      destruct (bo_table_rows s tid t HW Et) as (ND & _). apply (NoDup_map_inv fst). exact ND.
    + intros a b x _ _ Ha Hb. apply Hrows in Ha. apply Hrows in Hb.
      destruct Ha as (_ & r & La). destruct Hb as (_ & r' & Lb). congruence.
Qed.

Lemma bo_remove_core : forall sB tabs, St sB ->
  (forall tid, In tid tabs -> exists t, nth_error (w_tables sB) tid = Some t) ->
  exists s3 D cl, bo_rm_tabs tabs [] sB = Ok cl s3 /\ bo_mid sB s3 D (rev tabs ++ []) /\ bo_rest_same sB s3 /\
    bo_rm_cleanup cl s3 = Ok tt (s3 <| w_istarget := bo_untarget (w_istarget s3) cl |>).
Proof.
  intros sB tabs HSt Hval.
  assert (HR0 : bo_rest_same sB sB) by (unfold bo_rest_same; repeat split).
  destruct (bo_rm_tabs_run tabs sB sB [] [] [] HSt (bo_mid_init sB HSt) HR0 Hval) as (s3 & D & cl & Hrun & HM & HR).
  exists s3, D, cl. split; [exact Hrun|]. split; [exact HM|]. split; [exact HR|].
  apply bo_rm_cleanup_run. destruct HR as (_ & _ & _ & _ & -> & _). apply HSt.
Qed.

Lemma bo_remove_post : forall s sB s3 D tabs IT lk, St s -> storage_same s sB ->
  bo_mid sB s3 D (rev tabs ++ []) -> bo_rest_same sB s3 -> length IT = length (w_istarget s3) ->
  let s' := s3 <| w_istarget := IT |> <| w_lock := lk |> in
  St s' /\
  (forall e, live s e = true -> bo_in_tabs s tabs e ->
     live s' e = false /\ alive s' e = false /\ forall c, val s' e c = None) /\
  (forall e, ~ (live s e = true /\ bo_in_tabs s tabs e) -> live s' e = live s e /\ forall c, val s' e c = val s e c) /\
  frame_user s s' /\ length (pe (w_pool s')) = length (pe (w_pool s)) /\ w_log s' = w_log sB.
Proof.
  intros s sB s3 D tabs IT lk HSt SS HM HR HIT s'.
  pose proof (storage_same_St s sB SS HSt) as HStB.
  pose proof (sb3_storage_same_content s sB SS) as CS.
  pose proof SS as (E1 & E2 & E3 & E4 & E5 & E6 & E7 & E8 & E9 & E10 & E11 & E12 & E13 & E14 & E15 & E16 & E17 & E18).
  pose proof HR as (R1 & R2 & R3 & R4 & R5 & R6 & R7 & R8 & R9 & R10 & R11 & R12 & R13 & R14 & R15 & R16 & R17 & R18 & R19 & R20 & R21 & R22 & R23).
  assert (HSS : sb3_struct_same sB s').
  { unfold sb3_struct_same. repeat split; assumption. }
  assert (HIT' : length (w_istarget s') = length (w_istarget sB)).
  { change (w_istarget s') with IT. rewrite HIT, R3. reflexivity. }
  destruct (bo_mid_final sB s3 D (rev tabs ++ []) s' HStB HM eq_refl eq_refl eq_refl HSS HIT') as (HSt' & Hrm & Hot).
  assert (HD : forall e, In e D <-> (live s e = true /\ bo_in_tabs s tabs e)).
  { intros e. rewrite (bm_D _ _ _ _ HM e). unfold bo_doomed, bo_in_tabs.
    rewrite (proj1 (CS e)). rewrite (sa_loc_ext s sB E4 e).
    split; intros (Hl & tid & r & Hin & Hloc); (split; [exact Hl|]); exists tid, r; (split; [|exact Hloc]).
    - rewrite app_nil_r in Hin. apply in_rev. exact Hin.
    - rewrite app_nil_r. apply in_rev in Hin. exact Hin. }
  split; [exact HSt'|]. split.
  { intros e Hl Hin. destruct (Hrm e (proj2 (HD e) (conj Hl Hin))) as (L' & A').
    split; [exact L'|]. split; [exact A'|]. intros c. unfold val. rewrite L'. reflexivity. }
  split.
  { intros e Hn. destruct (Hot e) as (L' & V').
    { intros HeD. apply Hn. apply HD. exact HeD. }
    destruct (CS e) as (L0 & V0). split; [congruence|]. intros c. rewrite V', V0. reflexivity. }
  split.
  { unfold frame_user. change (w_reg s') with (w_reg s3). change (w_cfg s') with (w_cfg s3).
    change (w_filters s') with (w_filters s3). change (w_queries s') with (w_queries s3).
    change (w_issued s') with (w_issued s3). change (w_res s') with (w_res s3).
    repeat split; congruence. }
  split.
  { change (w_pool s') with (w_pool s3). destruct (bm_pool _ _ _ _ HM) as (fl0 & _ & _ & _ & _ & P5 & _). rewrite P5, E3. reflexivity. }
  exact R23.
Qed.

(** RemoveEntities over the tables [tabs] selected by filter [fi] ([fn]: a callback is given), on an
    unlocked relation-free world without entity-removal observers: every live entity of a selected
    table is removed (dead, its handle rejected), every other handle keeps its status and values;
    the callback ran once per removed entity (one log entry each) iff it was given; the world is
    unlocked afterwards and the invariant holds. *)
Theorem remove_entities_spec : forall s fi tabs fn,
  St s -> is_locked s = false -> (fn = true -> lock_lock (w_lock s) <> None) ->
  has_obs s EvRemoveEntity = false -> has_obs s EvRemoveRelations = false ->
  get_batch_tables fi [] s = Ok tabs s ->
  exists s', w_remove_entities fi [] fn s = Ok tt s' /\ St s' /\ is_locked s' = false /\
    (forall e, live s e = true -> bo_in_tabs s tabs e ->
       live s' e = false /\ alive s' e = false /\ forall c, val s' e c = None) /\
    (forall e, ~ (live s e = true /\ bo_in_tabs s tabs e) -> live s' e = live s e /\ forall c, val s' e c = val s e c) /\
    (exists es, w_log s' = w_log s ++ (if fn then map (fun e => [101%Z; Zn (fst e); Z.of_N (snd e)]) es else []) /\
       (forall e, In e es <-> (live s e = true /\ bo_in_tabs s tabs e)) /\ (NoDup tabs -> NoDup es)) /\
    frame_user s s' /\ length (pe (w_pool s')) = length (pe (w_pool s)).
Proof.
  intros s fi tabs fn HSt Hunl Hlock Hoe Hor Hgbt. pose proof (proj1 HSt) as HW.
  pose proof (bo_gbt_valid s fi tabs HSt Hgbt) as Hval.
  set (es := flat_map (bo_rows_of s) tabs).
  destruct (bo_all_rows s tabs HW) as (Hes & Hesnd). fold es in Hes, Hesnd.
  rewrite bo_remove_entities_eq.
  rewrite (bo_bind_ok (sb1_check_locked_ok s Hunl)).
  unfold bind at 1. unfold get at 1. cbv beta iota zeta. rewrite Hoe, Hor. cbn [orb].
  destruct fn.
  - destruct (lock_lock (w_lock s)) as [[lb l']|] eqn:LL; [|exfalso; apply (Hlock eq_refl); reflexivity].
    pose proof (bo_lock_cycle s lb l' Hunl LL) as LU.
    set (l'' := {| lk_pool := ipool_recycle (lk_pool l') lb; lk_mask := 0%N |}) in *.
    set (s1 := s <| w_lock := l' |>).
    assert (SS1 : storage_same s s1) by (unfold storage_same; repeat split).
    rewrite (bo_bind_ok (v_lockM_ok s lb l' LL)). fold s1.
    rewrite (bo_bind_ok (bo_gbt_frame fi [] s s1 tabs SS1 Hgbt)).
    cbn [whenM].
    assert (Hcb : bo_rm_cb tabs s1 = Ok tt (b_logged s1 (map b_entry es))).
    { apply (bo_rm_cb_run tabs s1). intros tid Hin. destruct (Hval tid Hin) as (t & Ht). exists t.
      split; [exact Ht|exact (sb2_table_ok _ _ _ HW Ht)]. }
    rewrite (bo_bind_ok Hcb).
    set (sB := b_logged s1 (map b_entry es)).
    rewrite (bo_bind_ok (m := ret tt) (s := sB) eq_refl).
    rewrite (bo_bind_ok (m := ret tt) (s := sB) eq_refl).
    assert (SSB : storage_same s sB) by (unfold storage_same; repeat split).
    pose proof (storage_same_St s sB SSB HSt) as HStB.
    destruct (bo_remove_core sB tabs HStB Hval) as (s3 & D & cl & Hrun & HM & HR & Hcl).
    rewrite (bo_bind_ok Hrun), (bo_bind_ok Hcl).
    set (s4 := s3 <| w_istarget := bo_untarget (w_istarget s3) cl |>).
    assert (LU4 : lock_unlock (w_lock s4) lb = Some l'').
    { change (w_lock s4) with (w_lock s3). destruct HR as (_ & _ & _ & _ & _ & _ & _ & _ & _ & _ & _ & -> & _). exact LU. }
    rewrite (v_unlockM_ok s4 lb l'' LU4).
    destruct (bo_remove_post s sB s3 D tabs (bo_untarget (w_istarget s3) cl) l'' HSt SSB HM HR (bo_untarget_length _ _))
      as (P1 & P2 & P3 & P4 & P5 & P6).
    exists (s4 <| w_lock := l'' |>). split; [reflexivity|]. split; [exact P1|]. split; [reflexivity|].
    split; [exact P2|]. split; [exact P3|]. split; [|split; [exact P4|exact P5]].
    exists es. split; [exact P6|]. split; [exact Hes|exact Hesnd].
  - rewrite (bo_bind_ok (m := ret 0) (s := s) eq_refl).
    rewrite (bo_bind_ok Hgbt). cbn [whenM].
    rewrite (bo_bind_ok (m := ret tt) (s := s) eq_refl).
    rewrite (bo_bind_ok (m := ret tt) (s := s) eq_refl).
    rewrite (bo_bind_ok (m := ret tt) (s := s) eq_refl).
    destruct (bo_remove_core s tabs HSt Hval) as (s3 & D & cl & Hrun & HM & HR & Hcl).
    rewrite (bo_bind_ok Hrun), (bo_bind_ok Hcl).
    set (s4 := s3 <| w_istarget := bo_untarget (w_istarget s3) cl |>).
    assert (E4 : s4 = s4 <| w_lock := w_lock s |>).
    { apply b_W_ext; try reflexivity. cbn. destruct HR as (_ & _ & _ & _ & _ & _ & _ & _ & _ & _ & _ & -> & _). reflexivity. }
    destruct (bo_remove_post s s s3 D tabs (bo_untarget (w_istarget s3) cl) (w_lock s) HSt (sb3_storage_same_refl s) HM HR (bo_untarget_length _ _))
      as (P1 & P2 & P3 & P4 & P5 & P6).
    fold s4 in P1, P2, P3, P4, P5, P6. rewrite <- E4 in P1, P2, P3, P4, P5, P6.
    exists s4. split; [reflexivity|]. split; [exact P1|].
    split.
    { unfold is_locked. change (w_lock s4) with (w_lock s3). destruct HR as (_ & _ & _ & _ & _ & _ & _ & _ & _ & _ & _ & -> & _). exact Hunl. }
    split; [exact P2|]. split; [exact P3|]. split; [|split; [exact P4|exact P5]].
    exists es. split; [rewrite app_nil_r; exact P6|]. split; [exact Hes|exact Hesnd].
Qed.

(* ------------------------------------------------------------------ *)
(** * NewBatch *)

(** [create_entities_spec] of BatchProofs, additionally exposing that the table keeps its layout. *)
Lemma bo_create_entities_spec : forall s tid t n, St s -> room_n s n -> nth_error (w_tables s) tid = Some t ->
  exists s' es, create_entities tid n s = Ok tt s' /\ St s' /\ length es = n /\ NoDup es /\
    (forall e, In e es -> live s e = false /\ live s' e = true /\ alive s' e = true /\
                          (forall c, val s' e c = if memb c (t_ids t) then Some 0%Z else None)) /\
    (forall e, ~ In e es -> live s' e = live s e /\ forall c, val s' e c = val s e c) /\
    (exists t', nth_error (w_tables s') tid = Some t' /\ t_len t' = t_len t + n /\ t_ids t' = t_ids t /\
                firstn n (skipn (t_len t) (t_ents t')) = es) /\
    side_same s s' /\ frame_user s s'.
Proof.
  intros s tid t n HSt Hroom Ht. pose proof (proj1 HSt) as HW.
  pose proof (sb2_table_ok _ _ _ HW Ht) as Hok.
  assert (Hn : t_len t + n <= Nat.pow 2 31).
  { pose proof (rows_le_pool s tid t HW Ht). unfold room_n in Hroom. lia. }
  pose proof (b_extend_same t n Hok Hn) as Hsame.
  destruct (tbl_extend_facts t n Hok Hn) as (_ & L & C & _ & _ & F1 & _).
  set (tv := tbl_extend t n) in *.
  destruct (b_replace_tab s tid t tv HSt Ht Hsame) as (HSt0 & Hcs).
  set (v0 := sb2_setT s (upd tid tv (w_tables s))) in *.
  assert (Ht0 : nth_error (w_tables v0) tid = Some tv).
  { unfold v0, sb2_setT. cbn. eapply sb2_nth_error_upd_eq; eassumption. }
  assert (Hcap0 : t_len tv + n <= t_cap tv) by lia.
  assert (Hroom0 : room_n v0 n) by exact Hroom.
  destruct (b_create_loop tid n v0 tv HSt0 Ht0 Hcap0 Hroom0) as (v' & tv' & es & Hrun & Q).
  destruct Q as (Q1 & Q2 & Q3 & Q4 & Q5 & Q6 & Q7 & Q8 & Q9 & Q10 & Q11 & Q12 & Q13).
  exists v', es. split.
  { rewrite b_create_entities_eq.
    erewrite sb1_bind_ok by (apply sb1_getT_eq; exact Ht).
    erewrite sb1_bind_ok by (apply sb2_modT; exact Ht).
    rewrite <- L.
    assert (E : sb2_setT s (upd tid (tbl_alloc t n) (w_tables s)) = b_real v0 tid tv (t_len tv + n)).
    { unfold b_real, v0, sb2_setT. apply b_W_ext; cbn; try reflexivity. rewrite sb2_upd_upd. reflexivity. }
    rewrite E. fold tv. rewrite Hrun. rewrite b_real_id by (auto; lia). reflexivity. }
  split; [assumption|]. split; [assumption|]. split; [assumption|].
  split.
  { intros e Hin. destruct (Q8 e Hin) as (L1 & L2 & V). destruct (Hcs e) as (L0 & _).
    split; [congruence|]. split; [assumption|].
    split; [apply (live_alive v' e (proj1 Q1) L2)|].
    intros c. rewrite V. unfold tbl_colidx, memb. rewrite F1. destruct (index_of c (t_ids t)); reflexivity. }
  split.
  { intros e Hnin. destruct (Q9 e Hnin) as (L1 & V). destruct (Hcs e) as (L0 & V0).
    split; [congruence|]. intros c. rewrite V, V0. reflexivity. }
  split.
  { exists tv'. split; [assumption|]. split; [lia|]. split; [congruence|]. rewrite <- L. exact Q10. }
  split.
  - eapply sb1_side_same_trans; [|exact Q11]. unfold side_same. repeat split.
  - eapply sb1_frame_user_trans; [|exact Q12]. unfold frame_user. repeat split.
Qed.

Lemma bo_new_entities_run : forall s n ids, St s -> room_n s n -> registered s ids -> NoDup ids ->
  exists tid start s2 es t',
    new_entities n ids [] s = Ok (tid, start) s2 /\ St s2 /\ side_same s s2 /\ frame_user s s2 /\
    length es = n /\ NoDup es /\
    (forall e, In e es -> live s e = false /\ live s2 e = true /\ alive s2 e = true /\
                          forall c, val s2 e c = if memb c ids then Some 0%Z else None) /\
    (forall e, ~ In e es -> live s2 e = live s e /\ forall c, val s2 e c = val s e c) /\
    nth_error (w_tables s2) tid = Some t' /\ t_len t' = start + n /\
    firstn n (skipn start (t_ents t')) = es /\ (forall c, In c (t_ids t') <-> In c ids).
Proof.
  intros s n ids HSt Hroom Hreg Hnd. pose proof (proj1 HSt) as HW.
  destruct (wf_arch0 _ HW) as (a0 & Ha0 & Hm0 & t0 & Ht0 & Hta0).
  assert (Hz : forall j, mk_get 0%N j = true -> j < length (w_reg s)).
  { intros j Hj. rewrite sb1_mk_get_0 in Hj. discriminate. }
  pose proof (find_or_create_table_add_spec s 0 t0 ids 0%N HSt Ht0 Hz Hreg) as Hf.
  unfold new_entities. unfold bind at 1.
  destruct (find_or_create_table_add 0 ids [] 0%N s) as [[[tid aid] m] s1 | er s1].
  2:{ destruct Hf as (_ & Hn). exfalso. apply Hn. split; [exact Hnd|intros c _; apply sb1_mk_get_0]. }
  destruct Hf as ((HSt1 & Hsr & Hside & Hfr & (t & a & Ht & Hta & Ha & Hma)) & Hm & _).
  pose proof (same_rows_content s s1 HW Hsr) as Hcs.
  assert (Hpool : w_pool s1 = w_pool s) by apply Hsr.
  assert (Hroom1 : room_n s1 n) by (unfold room_n in *; rewrite Hpool; assumption).
  destruct (bo_create_entities_spec s1 tid t n HSt1 Hroom1 Ht) as
    (s2 & es & Hrun & HSt2 & Hlen & Hnd' & Hin & Hout & (t' & Ht' & Hl' & Hi' & Hes) & Hside2 & Hfr2).
  assert (Ereg : w_reg s1 = w_reg s) by apply Hfr.
  assert (Hids : forall c, In c (t_ids t) <-> In c ids).
  { intros c. rewrite <- Hta in Ha. destruct (sb2_layout _ _ _ _ (proj1 HSt1) Ht Ha) as (Hi & _ & _).
    rewrite Hi, Hma, mk_to_list_spec, Hm, sb1_mk_get_0. cbn [orb]. rewrite Ereg. split.
    - intros (_ & H). apply sb2_memb_In. exact H.
    - intros H. split; [apply Hreg; exact H|apply sb2_memb_In; exact H]. }
  assert (Hmemb : forall c, memb c (t_ids t) = memb c ids).
  { intros c. destruct (memb c ids) eqn:E.
    - apply sb2_memb_In. apply Hids. apply sb2_memb_In. exact E.
    - apply sb2_memb_false. intros X. apply Hids in X. apply sb2_memb_In in X. congruence. }
  exists tid, (t_len t), s2, es, t'. split.
  { erewrite sb1_bind_ok by (apply sb1_getT_eq; exact Ht). cbv beta.
    erewrite sb1_bind_ok by exact Hrun.
    reflexivity. }
  split; [assumption|]. split; [eapply sb1_side_same_trans; eassumption|].
  split; [eapply sb1_frame_user_trans; eassumption|].
  split; [assumption|]. split; [assumption|].
  split.
  { intros e He. destruct (Hin e He) as (L1 & L2 & A2 & V). destruct (Hcs e) as (L0 & _).
    split; [congruence|]. split; [assumption|]. split; [assumption|]. intros c. rewrite V, Hmemb. reflexivity. }
  split.
  { intros e He. destruct (Hout e He) as (L1 & V). destruct (Hcs e) as (L0 & V0).
    split; [congruence|]. intros c. rewrite V, V0. reflexivity. }
  split; [exact Ht'|]. split; [exact Hl'|]. split; [exact Hes|]. intros c. rewrite Hi'. apply Hids.
Qed.

(** NewBatch / NewBatchFn (no relations): [n] fresh entities with exactly the components [ids], on an
    unlocked relation-free world without OnCreateEntity observers. With a callback ([fn = true]) the
    components hold what the callback stored ([bo_cbval]: the last value given in [vals], zero
    without one or for a zero-sized component) and the log has one entry per new entity in row
    order; without one they are zero and nothing is logged. Everything else is untouched; the world
    is unlocked at the end. *)
Theorem new_batch_spec : forall s n ids vals fn,
  St s -> room_n s n -> is_locked s = false -> (fn = true -> lock_lock (w_lock s) <> None) ->
  has_obs s EvCreateEntity = false -> registered s ids -> NoDup ids ->
  (forall cv, In cv vals -> In (fst cv) ids) ->
  exists s' es, w_new_batch n ids [] vals fn s = Ok tt s' /\ St s' /\ is_locked s' = false /\
    length es = n /\ NoDup es /\
    (forall e, In e es -> live s e = false /\ live s' e = true /\ alive s' e = true /\
       forall c, val s' e c = if memb c ids then Some (if fn then bo_cbval s vals c else 0%Z) else None) /\
    (forall e, ~ In e es -> live s' e = live s e /\ forall c, val s' e c = val s e c) /\
    w_log s' = w_log s ++ (if fn then map (fun e => [101%Z; Zn (fst e); Z.of_N (snd e)]) es else []) /\
    frame_user s s'.
Proof.
  intros s n ids vals fn HSt Hroom Hunl Hlock Hobs Hreg Hnd Hvals.
  destruct (bo_new_entities_run s n ids HSt Hroom Hreg Hnd) as
    (tid & start & s2 & es & t' & Hrun & HSt2 & Hside & Hfr & Hlen & Hnd' & Hin & Hout & Ht' & Hl' & Hes & Hids).
  pose proof Hside as (Elock & Elog & _ & _ & Eagg & _).
  pose proof (proj1 HSt2) as HW2.
  pose proof (sb2_table_ok _ _ _ HW2 Ht') as Hok'.
  pose proof (tbl_ok_elim _ Hok') as (O1 & O2 & _).
  assert (Ho : has_obs s2 EvCreateEntity = false).
  { unfold has_obs, get_agg in *. rewrite Eagg. exact Hobs. }
  assert (Hes' : es = map (row_ent t') (seq start n)).
  { rewrite <- Hes. apply (b_firstn_skipn_seq _ (t_ents t') zero_ent n start). lia. }
  unfold w_new_batch.
  rewrite (bo_bind_ok (sb1_check_locked_ok s Hunl)).
  rewrite (bo_bind_ok (m := to_relations (mk_of_list ids) []) (s := s) (a := tt) (s' := s) eq_refl).
  rewrite (bo_bind_ok Hrun). cbv beta iota.
  unfold bind at 1. unfold get at 1. cbv beta iota zeta. rewrite Ho. cbn [is_nil negb andb orb].
  destruct fn.
  - destruct (lock_lock (w_lock s)) as [[lb l']|] eqn:LL; [|exfalso; apply (Hlock eq_refl); reflexivity].
    pose proof (bo_lock_cycle s lb l' Hunl LL) as LU.
    set (l'' := {| lk_pool := ipool_recycle (lk_pool l') lb; lk_mask := 0%N |}) in *.
    assert (LL2 : lock_lock (w_lock s2) = Some (lb, l')) by (rewrite Elock; exact LL).
    rewrite (bo_bind_ok (v_lockM_ok s2 lb l' LL2)).
    set (s3 := s2 <| w_lock := l' |>).
    assert (SS3 : storage_same s2 s3) by (unfold storage_same; repeat split).
    pose proof (storage_same_St s2 s3 SS3 HSt2) as HSt3.
    assert (Ht3 : nth_error (w_tables s3) tid = Some t') by exact Ht'.
    destruct (wf_layout _ (proj1 HSt3) tid t' Ht3) as (a' & _ & _ & Kinds & _).
    destruct (bo_cb_loop (kind_of s3) tid vals (seq start n) s3 t' Ht3 Hok') as
      (T' & Hrun2 & HokT & HmetaT & HlenT & HentsT & Hd1 & Hd2).
    { intros r Hr. apply in_seq in Hr. lia. }
    { apply seq_NoDup. }
    { exact Kinds. }
    { intros cv Hcv. apply Hids. apply Hvals. exact Hcv. }
    cbn [whenM]. rewrite (bo_bind_ok Hrun2).
    destruct (bo_setcells s3 tid t' T' HSt3 Ht3 HokT HmetaT HlenT HentsT) as (HSt4' & Hlv & Hvin & Hvout).
    set (s4' := sb2_setT s3 (upd tid T' (w_tables s3))) in *.
    set (L := map (fun r => b_entry (row_ent t' r)) (seq start n)) in *.
    set (s4 := b_logged s4' L).
    assert (Ht4 : nth_error (w_tables s4) tid = Some T').
    { change (w_tables s4) with (upd tid T' (w_tables s3)). eapply sb2_nth_error_upd_eq; eauto. }
    assert (Erows : rows_of tid start n s4 = Ok (firstn n (skipn start (t_ents T'))) s4).
    { unfold rows_of. rewrite (bo_bind_ok (sb2_getT _ _ _ Ht4)). reflexivity. }
    rewrite (bo_bind_ok Erows).
    rewrite (bo_bind_ok (m := ret tt) (s := s4) eq_refl).
    rewrite (bo_bind_ok (m := ret tt) (s := s4) eq_refl).
    assert (LU4 : lock_unlock (w_lock s4) lb = Some l'') by exact LU.
    rewrite (v_unlockM_ok s4 lb l'' LU4).
    set (s5 := s4 <| w_lock := l'' |>).
    assert (SS5 : storage_same s4' s5) by (unfold storage_same; repeat split).
    exists s5, es. split; [reflexivity|]. split; [exact (storage_same_St s4' s5 SS5 HSt4')|]. split; [reflexivity|].
    split; [exact Hlen|]. split; [exact Hnd'|].
    assert (Hl5 : forall x, live s5 x = live s2 x) by (intros x; exact (Hlv x)).
    assert (Hv5 : forall x c, val s5 x c = val s4' x c) by (intros; reflexivity).
    assert (Hrowloc : forall i, i < n -> loc s2 (row_ent t' (start + i)) = Some (tid, start + i)).
    { intros i Hi. apply (wf_rows _ HW2 tid t' (start + i) Ht'). lia. }
    split.
    { intros e He. destruct (Hin e He) as (L1 & L2 & A2 & V2).
      split; [exact L1|]. split; [rewrite Hl5; exact L2|].
      split; [exact A2|].
      intros c. rewrite Hv5.
      rewrite Hes' in He. apply in_map_iff in He. destruct He as (r & Er & Hr). pose proof Hr as Hr'. apply in_seq in Hr.
      assert (Hloc : loc s3 e = Some (tid, r)).
      { rewrite <- Er. replace r with (start + (r - start)) by lia. apply Hrowloc. lia. }
      rewrite (Hvin e r Hloc L2 c).
      destruct (sb2_live_at _ _ _ _ _ Hloc Ht3) as (_ & Hva).
      specialize (V2 c). unfold val in V2. rewrite L2 in V2. change (value_of s2 e c) with (value_of s3 e c) in V2. rewrite Hva in V2.
      destruct (tbl_colidx t' c) as [ci|] eqn:Eci.
      - rewrite (Hd2 c ci r Eci Hr'). destruct (memb c ids); [|discriminate]. inversion V2 as [V2']. rewrite V2'.
        unfold bo_cbval. f_equal. apply bo_wval_ext. apply sa_kind_of_ext. apply Hfr.
      - destruct (memb c ids); [discriminate|reflexivity]. }
    split.
    { intros e He. destruct (Hout e He) as (L1 & V1). split; [rewrite Hl5; exact L1|].
      intros c. rewrite Hv5, <- V1. unfold val at 2.
      destruct (live s2 e) eqn:Hl2.
      - destruct (sb2_live_elim _ _ Hl2) as (tid0 & r & t0 & L0 & T0 & R0 & E0).
        destruct (Nat.eq_dec tid0 tid) as [->|Hne].
        + rewrite Ht' in T0. inversion T0; subst t0.
          assert (Hr : ~ In r (seq start n)).
          { intros Hr. apply He. rewrite Hes'. apply in_map_iff. exists r. auto. }
          rewrite (Hvin e r L0 Hl2 c). destruct (sb2_live_at _ _ _ _ _ L0 Ht') as (_ & Hva). rewrite Hva.
          destruct (tbl_colidx t' c) as [ci|]; [|reflexivity]. rewrite Hd1 by exact Hr. reflexivity.
        + rewrite Hvout; [unfold val; change (live s3 e) with (live s2 e); rewrite Hl2; reflexivity|]. intros r' Hr'. change (loc s3 e) with (loc s2 e) in Hr'. congruence.
      - unfold val. rewrite (Hlv e). change (live s3 e) with (live s2 e). rewrite Hl2. reflexivity. }
    split.
    { change (w_log s5) with (w_log s2 ++ L). rewrite Elog. f_equal. rewrite Hes'. unfold L. rewrite map_map. reflexivity. }
    apply (sa_frame_user_trans s s2 s5); [exact Hfr|unfold frame_user; repeat split].
  - rewrite (bo_bind_ok (m := ret 0) (s := s2) eq_refl). cbn [whenM].
    rewrite (bo_bind_ok (m := ret tt) (s := s2) eq_refl).
    assert (Erows : rows_of tid start n s2 = Ok (firstn n (skipn start (t_ents t'))) s2).
    { unfold rows_of. rewrite (bo_bind_ok (sb2_getT _ _ _ Ht')). reflexivity. }
    rewrite (bo_bind_ok Erows).
    rewrite (bo_bind_ok (m := ret tt) (s := s2) eq_refl).
    rewrite (bo_bind_ok (m := ret tt) (s := s2) eq_refl).
    exists s2, es. split; [reflexivity|]. split; [exact HSt2|].
    split; [unfold is_locked; rewrite Elock; exact Hunl|]. split; [exact Hlen|]. split; [exact Hnd'|].
    split; [exact Hin|]. split; [exact Hout|]. split; [rewrite Elog, app_nil_r; reflexivity|exact Hfr].
Qed.

(* ------------------------------------------------------------------ *)
(** * More on the selection: no table is selected twice; registered (cached) filters *)

Definition bo_heads (f : fobj) (l : list arch) : list nat :=
  flat_map (fun a => if filter_matches f (a_mask a) then firstn 1 (a_tables a) else []) l.

Lemma bo_sel_heads : forall f l acc r, k_sel f l acc = Some r -> r = acc ++ bo_heads f l.
Proof.
  intros f l. induction l as [|a rest IH]; intros acc r H.
  - cbn in H. inversion H. cbn. rewrite app_nil_r. reflexivity.
  - cbn [k_sel] in H. unfold bo_heads. cbn [flat_map]. fold (bo_heads f rest).
    destruct (filter_matches f (a_mask a)); cbn [negb] in H.
    + destruct (a_tables a) as [|t0 tl]; [discriminate|]. rewrite (IH _ _ H). cbn [firstn]. rewrite <- app_assoc. reflexivity.
    + rewrite (IH _ _ H). reflexivity.
Qed.

Lemma bo_archs_nodup : forall s, WF s -> NoDup (w_archs s).
Proof.
  intros s HW. apply NoDup_nth_error. intros i j Hi E.
  destruct (nth_error (w_archs s) i) as [a|] eqn:Ea; [|apply nth_error_None in Ea; lia].
  symmetry in E. apply (wf_arch_unique _ HW i j a a Ea E eq_refl).
Qed.

Lemma bo_heads_nodup : forall s f, WF s -> NoDup (bo_heads f (w_archs s)).
Proof.
  intros s f HW. unfold bo_heads. apply bo_NoDup_flat_map; [apply bo_archs_nodup; exact HW| |].
  - intros a _. destruct (filter_matches f (a_mask a)); [|constructor].
    destruct (a_tables a) as [|t0 tl]; cbn; [constructor|]. constructor; [intros []|constructor].
  - intros a b x Ha Hb Hxa Hxb.
    assert (K : forall c, In c (w_archs s) -> In x (if filter_matches f (a_mask c) then firstn 1 (a_tables c) else []) ->
                exists i t, nth_error (w_archs s) i = Some c /\ nth_error (w_tables s) x = Some t /\ t_arch t = i).
    { intros c Hc Hx. destruct (filter_matches f (a_mask c)); [|destruct Hx].
      apply In_nth_error in Hc. destruct Hc as (i & Hi).
      destruct (a_tables c) as [|t0 tl] eqn:Et; [destruct Hx|]. cbn in Hx. destruct Hx as [<-|[]].
      destruct (wf_arch_tables _ HW i c t0 Hi) as (t & Ht & Hai); [left; rewrite Et; left; reflexivity|]. eauto. }
    destruct (K a Ha Hxa) as (i & t & Hi & Ht & Hti). destruct (K b Hb Hxb) as (j & t2 & Hj & Ht2 & Htj).
    rewrite Ht in Ht2. inversion Ht2; subst t2. congruence.
Qed.

(** An unregistered filter never selects a table twice. *)
Lemma batch_tables_uncached_nodup : forall s fi f tabs, St s ->
  nth_error (w_filters s) fi = Some f -> f_cache f = None -> get_batch_tables fi [] s = Ok tabs s -> NoDup tabs.
Proof.
  intros s fi f tabs [HW HN] Hf Hc H. rewrite bo_gbt_pure in H. unfold bo_gbt in H. rewrite Hf, Hc in H.
  rewrite k_upure_norel in H by (apply k_norel_archs; exact HN).
  destruct (k_sel f (w_archs s) []) as [r|] eqn:E; cbn [k_inj] in H; [|discriminate].
  inversion H; subst r. rewrite (bo_sel_heads _ _ _ _ E). cbn [app]. apply bo_heads_nodup. exact HW.
Qed.

(** The cached walk with no relation arguments: the non-empty tables of the entry, in order. *)
Lemma bo_tm_pure_in : forall T l acc r, k_tm_pure T [] true l acc = inr r ->
  (forall x, In x r <-> (In x acc \/ (In x l /\ exists t, nth_error T x = Some t /\ t_len t <> 0))) /\
  (NoDup l -> NoDup acc -> (forall x, In x acc -> ~ In x l) -> NoDup r).
Proof.
  intros T l. induction l as [|tid rest IH]; intros acc r H.
  - cbn in H. inversion H; subst r. split.
    + intros x. rewrite <- in_rev. split; [auto|]. intros [Hx|([] & _)]; exact Hx.
    + intros _ Hnd _. apply NoDup_rev. exact Hnd.
  - cbn [k_tm_pure] in H. destruct (nth_error T tid) as [t|] eqn:Et; [|discriminate].
    cbn [andb] in H. destruct (Nat.eqb_spec (t_len t) 0) as [Hz|Hnz].
    + destruct (IH acc r H) as (I1 & I2). split.
      * intros x. rewrite I1. split.
        -- intros [Hx|(Hx & Q)]; [left; exact Hx|right; split; [right; exact Hx|exact Q]].
        -- intros [Hx|([<-|Hx] & t1 & Ht1 & Hl1)]; [left; exact Hx| |right; split; [exact Hx|eauto]].
           rewrite Et in Ht1. inversion Ht1; subst t1. lia.
      * intros Hnd Hacc Hdis. inversion Hnd; subst. apply I2; [assumption|exact Hacc|].
        intros x Hx Hx2. apply (Hdis x Hx). right. exact Hx2.
    + cbn [tbl_matches] in H. destruct (IH (tid :: acc) r H) as (I1 & I2). split.
      * intros x. rewrite I1. cbn [In]. split.
        -- intros [[<-|Hx]|(Hx & Q)]; [right; split; [left; reflexivity|eauto]|left; exact Hx|right; split; [right; exact Hx|exact Q]].
        -- intros [Hx|([<-|Hx] & Q)]; [left; right; exact Hx|left; left; reflexivity|right; split; [exact Hx|exact Q]].
      * intros Hnd Hacc Hdis. inversion Hnd as [|? ? Hnin Hnd']; subst. apply I2; [exact Hnd'| |].
        -- constructor; [|exact Hacc]. intros Hx. apply (Hdis tid Hx). left. reflexivity.
        -- intros x [<-|Hx] Hx2; [contradiction|]. apply (Hdis x Hx). right. exact Hx2.
Qed.

Lemma bo_selt_in : forall f l tid, In tid (k_selt f l) <->
  exists a tl, In a l /\ filter_matches f (a_mask a) = true /\ a_tables a = tid :: tl.
Proof.
  intros f l tid. induction l as [|a rest IH].
  - cbn. split; [intros []|intros (a & tl & [] & _)].
  - cbn [k_selt]. destruct (filter_matches f (a_mask a)) eqn:Em.
    + destruct (a_tables a) as [|t0 tl0] eqn:Et.
      * rewrite IH. split.
        -- intros (b & tl & Hb & Q). exists b, tl. split; [right; exact Hb|exact Q].
        -- intros (b & tl & [<-|Hb] & Hm & Ht); [congruence|]. exists b, tl. auto.
      * cbn [In]. rewrite IH. split.
        -- intros [<-|(b & tl & Hb & Q)]; [exists a, tl0; split; [left; reflexivity|auto]|].
           exists b, tl. split; [right; exact Hb|exact Q].
        -- intros (b & tl & [<-|Hb] & Hm & Ht); [left; congruence|]. right. exists b, tl. auto.
    + rewrite IH. split.
      * intros (b & tl & Hb & Q). exists b, tl. split; [right; exact Hb|exact Q].
      * intros (b & tl & [<-|Hb] & Hm & Ht); [congruence|]. exists b, tl. auto.
Qed.

(** A registered filter whose cache entry is exact (tolerant form [k_cache_exact_tol] of CacheProofs)
    selects exactly the non-empty tables of the matching archetypes, each once: the entities a batch
    works on are the live entities whose component set matches the filter. The link between the
    filter and its cache entry ([entry_addr], [ce_filter]) is not part of [St] and is assumed, as in
    [cached_walk_same_tables]. *)
Theorem batch_selection_cached : forall s fi f cid addr ce tabs, St s -> k_cache_exact_tol s ->
  nth_error (w_filters s) fi = Some f -> f_cache f = Some cid ->
  entry_addr s cid = Some addr -> nth_error (w_cheap s) addr = Some ce -> ce_filter ce = fi -> In addr (w_centries s) ->
  get_batch_tables fi [] s = Ok tabs s ->
  NoDup tabs /\
  forall e, live s e = true ->
    (bo_in_tabs s tabs e -> bo_ent_matches s f e) /\
    (tables_listed s -> bo_ent_matches s f e -> bo_in_tabs s tabs e).
Proof.
  intros s fi f cid addr ce tabs HSt HC Hf Hc Hea Hce Hfi Hin H. pose proof HSt as [HW HN].
  rewrite bo_gbt_pure in H. unfold bo_gbt in H. rewrite Hf, Hc in H. unfold entry_addr in Hea. rewrite Hea, Hce in H.
  destruct (k_tm_pure (w_tables s) [] true (ce_tables ce) []) as [er|r] eqn:E; cbn [k_inj] in H; [discriminate|].
  inversion H; subst r. destruct (bo_tm_pure_in _ _ _ _ E) as (I1 & I2).
  subst fi. destruct (HC addr ce f Hin Hce Hf) as (D1 & D2 & D3).
  split; [apply I2; [exact D2|constructor|intros x []]|].
  intros e Hl. destruct (sb2_live_elim _ _ Hl) as (tid & r & t & L0 & T0 & R0 & E0).
  destruct (wf_layout _ HW tid t T0) as (a & Ha & _).
  pose proof (bo_matches_mask s f e tid r t a HW Hl L0 T0 Ha) as M. split.
  - intros (tid' & r' & Hin' & Hloc). rewrite L0 in Hloc. inversion Hloc; subst tid' r'.
    apply I1 in Hin'. destruct Hin' as [[]|(Hx & _)]. apply D3 in Hx. apply bo_selt_in in Hx.
    destruct Hx as (b & tl & Hb & Hm & Ht). apply In_nth_error in Hb. destruct Hb as (i & Hi).
    destruct (wf_arch_tables _ HW i b tid Hi) as (t2 & Ht2 & Hai); [left; rewrite Ht; left; reflexivity|].
    rewrite T0 in Ht2. inversion Ht2; subst t2. rewrite Hai, Hi in Ha. inversion Ha; subst b. apply M. exact Hm.
  - intros TL Hm. exists tid, r. split; [|exact L0]. apply I1. right. split; [|exists t; split; [exact T0|lia]].
    apply D3. apply bo_selt_in.
    destruct (TL tid t T0) as (a' & Ha' & Hin'); [lia|]. rewrite Ha in Ha'. inversion Ha'; subst a'.
    destruct HN as (_ & _ & N3 & _). destruct (N3 _ _ Ha) as (_ & Hn & _).
    pose proof (wf_arch_norel_table _ HW _ _ Ha Hn) as Hle.
    destruct (a_tables a) as [|t0 [|t1 tl]] eqn:Eta; [destruct Hin'| |cbn in Hle; lia].
    destruct Hin' as [<-|[]]. exists a, []. split; [eapply nth_error_In; eauto|]. split; [apply M; exact Hm|exact Eta].
Qed.

(** ExchangeBatch read through the filter (unregistered filter, every non-empty table listed):
    exactly the live entities whose component set matches the filter are exchanged. *)
Corollary exchange_batch_by_filter : forall s fi f tabs add rem vals,
  St s -> is_locked s = false -> lock_lock (w_lock s) <> None ->
  (add <> [] \/ rem <> []) -> registered s add ->
  (rem <> [] -> has_obs s EvRemoveComponents = false) -> (add <> [] -> has_obs s EvAddComponents = false) ->
  (forall cv, In cv vals -> In (fst cv) add) ->
  nth_error (w_filters s) fi = Some f -> f_cache f = None -> tables_listed s ->
  get_batch_tables fi [] s = Ok tabs s ->
  match w_exchange_batch fi [] add rem [] vals s with
  | Ok _ s' =>
      St s' /\ is_locked s' = false /\
      (forall e, live s e = true -> bo_ent_matches s f e ->
         live s' e = true /\
         forall c, val s' e c = if memb c add then Some (bo_cbval s vals c) else if memb c rem then None else val s e c) /\
      (forall e, live s e = true -> ~ bo_ent_matches s f e -> live s' e = true /\ forall c, val s' e c = val s e c) /\
      (forall e, live s e = false -> live s' e = false) /\
      (exists es, w_log s' = w_log s ++ map (fun e => [101%Z; Zn (fst e); Z.of_N (snd e)]) es /\ NoDup es /\
         forall e, In e es <-> (live s e = true /\ bo_ent_matches s f e))
  | Err _ s' => St s' /\ content_same s s' /\ is_locked s' = false
  end.
Proof.
  intros s fi f tabs add rem vals HSt Hunl Hlock Hnn Hreg Hor Hoa Hvals Hf Hc TL Hgbt.
  pose proof (exchange_batch_spec s fi tabs add rem vals HSt Hunl Hlock Hnn Hreg Hor Hoa Hvals Hgbt) as H.
  pose proof (batch_selection_uncached s fi f tabs HSt Hf Hc Hgbt) as S.
  destruct (w_exchange_batch fi [] add rem [] vals s) as [u s'|er s'].
  - destruct H as (_ & H1 & H2 & H3 & H4 & H5 & (es & L1 & L2 & L3) & _).
    split; [exact H1|]. split; [exact H2|].
    split; [intros e Hl Hm; apply (H3 e Hl); apply (S e Hl); assumption|].
    split; [intros e Hl Hm; apply (H4 e Hl); intros Hin; apply Hm; apply (S e Hl); exact Hin|].
    split; [exact H5|]. exists es. split; [exact L1|]. split; [exact L2|].
    intros e. rewrite L3. split; intros (Hl & X); (split; [exact Hl|]); apply (S e Hl); assumption.
  - destruct H as (_ & H1 & H2 & H3 & _). auto.
Qed.

(* ------------------------------------------------------------------ *)
(** * Non-vacuity of the other theorems, and the limits of the statements *)

(** [bo_world] satisfies the hypotheses of [remove_entities_spec] (with and without callback). *)
Example remove_entities_spec_nonvacuous : forall fn,
  St bo_world /\ is_locked bo_world = false /\ (fn = true -> lock_lock (w_lock bo_world) <> None) /\
  has_obs bo_world EvRemoveEntity = false /\ has_obs bo_world EvRemoveRelations = false /\
  get_batch_tables 0 [] bo_world = Ok [1] bo_world /\ NoDup [1].
Proof.
  intros fn. split; [exact bo_world_St|]. split; [vm_compute; reflexivity|]. split; [intros _; vm_compute; discriminate|].
  split; [vm_compute; reflexivity|]. split; [vm_compute; reflexivity|]. split; [vm_compute; reflexivity|].
  constructor; [intros []|constructor].
Qed.

Example remove_entities_example :
  match w_remove_entities 0 [] true bo_world with
  | Ok _ s' =>
      (map (fun e => (live s' e, alive s' e)) [(2, 0%N); (3, 0%N); (4, 0%N); (5, 0%N)], w_log s', is_locked s')
  | Err _ _ => ([], [], true)
  end =
  ([(false, false); (false, false); (false, false); (true, true)], [[101; 2; 0]; [101; 3; 0]; [101; 4; 0]]%Z, false).
Proof. vm_compute. reflexivity. Qed.

(** [bo_world] satisfies the hypotheses of [new_batch_spec] (3 entities with components {0,2}, the
    callback storing 9 into component 2). *)
Example new_batch_spec_nonvacuous : forall fn,
  St bo_world /\ room_n bo_world 3 /\ is_locked bo_world = false /\
  (fn = true -> lock_lock (w_lock bo_world) <> None) /\ has_obs bo_world EvCreateEntity = false /\
  registered bo_world [0; 2] /\ NoDup [0; 2] /\ (forall cv, In cv [(2, 9%Z)] -> In (fst cv) [0; 2]).
Proof.
  intros fn. split; [exact bo_world_St|].
  split.
  { unfold room_n. replace (length (pe (w_pool bo_world))) with 6 by (vm_compute; reflexivity).
    pose proof bo_pow31. lia. }
  split; [vm_compute; reflexivity|]. split; [intros _; vm_compute; discriminate|].
  split; [vm_compute; reflexivity|].
  split.
  { intros c Hc. replace (length (w_reg bo_world)) with 3 by (vm_compute; reflexivity). cbn in Hc. lia. }
  split; [repeat constructor; cbn; intuition congruence|].
  intros cv [<-|[]]. right. left. reflexivity.
Qed.

Example new_batch_example :
  match w_new_batch 3 [0; 2] [] [(2, 9%Z)] true bo_world with
  | Ok _ s' =>
      (map (fun e => (live bo_world e, live s' e, val s' e 0, val s' e 1, val s' e 2)) [(6, 0%N); (7, 0%N); (8, 0%N)],
       w_log s', is_locked s')
  | Err _ _ => ([], [], true)
  end =
  ([(false, true, Some 0%Z, None, Some 9%Z); (false, true, Some 0%Z, None, Some 9%Z); (false, true, Some 0%Z, None, Some 9%Z)],
   [[101; 6; 0]; [101; 7; 0]; [101; 8; 0]]%Z, false).
Proof. vm_compute. reflexivity. Qed.

(** *** Why the statements are shaped as they are (concrete runs of the model)

    (a) "The added component holds the value given in [vals]" is false for zero-sized components:
        nothing is stored for them (Go: [unsafe.Pointer] to a zero-size type), the component reads
        zero. [bo_cbval] says so. World: kinds plain, plain, zero-sized; AddBatch of component 2
        with value 5. *)
Definition bo_cfg_zs : script_cfg :=
  {| sc_cap := 2; sc_caprel := 1; sc_bits := 256; sc_debug := false; sc_kinds := map kind_of_code [0; 1; 6]%Z |}.
Definition bo_world_zs : W := exec bo_cfg_zs (bo_core_lines ++ [bo_filter_line]).

Example exchange_batch_zero_sized_refuted :
  match w_exchange_batch 0 [] [2] [] [] [(2, 5%Z)] bo_world_zs with
  | Ok _ s' => val s' (2, 0%N) 2 | Err _ _ => None end = Some 0%Z /\
  bo_cbval bo_world_zs [(2, 5%Z)] 2 = 0%Z /\ bo_cbval bo_world [(2, 5%Z)] 2 = 5%Z.
Proof. vm_compute. auto. Qed.

(** (b) The hypothesis that [vals] only names added components: a value for a component the
        destination table lacks makes the callback of the FIRST moved entity panic (nil pointer),
        after its table has already been moved; the deferred unlock leaves the world unlocked. *)
Example exchange_batch_vals_outside_fails :
  match w_exchange_batch 0 [] [2] [0; 1] [] [(1, 5%Z)] bo_world with
  | Ok _ _ => None
  | Err er s' => Some (er, is_locked s', val bo_world (2, 0%N) 0, val s' (2, 0%N) 0, val s' (2, 0%N) 2)
  end = Some (ENil, false, Some 0%Z, None, Some 0%Z).
Proof. vm_compute. reflexivity. Qed.

(** (c) The failing branch of [exchange_batch_spec]: adding a component the selected table already
        has fails with nothing moved; the deferred unlock has released the lock bit. *)
Example exchange_batch_not_ready_fails :
  match w_exchange_batch 0 [] [1] [] [] [] bo_world with
  | Ok _ _ => None
  | Err er s' => Some (er, is_locked s', map (fun c => val s' (2, 0%N) c) [0; 1; 2])
  end = Some (EHasComp, false, [Some 0%Z; Some 7%Z; None]).
Proof. vm_compute. reflexivity. Qed.

(** (d) Non-vacuity of [batch_selection_cached]: [bo_world] after registering filter 0. *)
Lemma bo_St_cache_fields : forall s F H C P, St s ->
  (forall addr, In addr C -> exists e, nth_error H addr = Some e /\ ce_filter e < length F) ->
  St (s <| w_filters := F |> <| w_cheap := H |> <| w_centries := C |> <| w_cpool := P |>).
Proof.
  intros s F H C P [HW HN] Hc. split.
  - destruct HW. constructor; assumption.
  - exact HN.
Qed.

Definition bo_world_reg : W := exec bo_cfg (bo_core_lines ++ [bo_filter_line; [16; 0]%Z]).
Definition bo_filter_reg : fobj := bo_filter <| f_cache := Some 0 |>.
Definition bo_entry_reg : centry := {| ce_id := 0; ce_filter := 0; ce_rels := []; ce_tables := [1] |}.

Lemma bo_world_reg_eq :
  bo_world_reg = run_core bo_cfg bo_core_lines <| w_filters := [bo_filter_reg] |> <| w_cheap := [bo_entry_reg] |>
                   <| w_centries := [0] |> <| w_cpool := {| ip := [0]; inext := 0; iavail := 0 |} |>.
Proof. vm_compute. reflexivity. Qed.

Example batch_selection_cached_nonvacuous :
  St bo_world_reg /\ k_cache_exact_tol bo_world_reg /\
  nth_error (w_filters bo_world_reg) 0 = Some bo_filter_reg /\ f_cache bo_filter_reg = Some 0 /\
  entry_addr bo_world_reg 0 = Some 0 /\ nth_error (w_cheap bo_world_reg) 0 = Some bo_entry_reg /\
  ce_filter bo_entry_reg = 0 /\ In 0 (w_centries bo_world_reg) /\
  get_batch_tables 0 [] bo_world_reg = Ok [1] bo_world_reg /\ tables_listed bo_world_reg.
Proof.
  split.
  { rewrite bo_world_reg_eq. apply bo_St_cache_fields; [exact bo_core_St|].
    intros addr [<-|[]]. exists bo_entry_reg. split; [reflexivity|cbn; lia]. }
  split.
  { intros addr e f Hin He Hf.
    assert (Ea : addr = 0).
    { replace (w_centries bo_world_reg) with [0] in Hin by (vm_compute; reflexivity). destruct Hin as [<-|[]]. reflexivity. }
    subst addr.
    replace (nth_error (w_cheap bo_world_reg) 0) with (Some bo_entry_reg) in He by (vm_compute; reflexivity).
    inversion He; subst e.
    replace (nth_error (w_filters bo_world_reg) (ce_filter bo_entry_reg)) with (Some bo_filter_reg) in Hf by (vm_compute; reflexivity).
    inversion Hf; subst f.
    replace (k_selt bo_filter_reg (w_archs bo_world_reg)) with [1] by (vm_compute; reflexivity).
    change (ce_tables bo_entry_reg) with [1].
    split; [repeat constructor; intros []|]. split; [repeat constructor; intros []|]. intros t. reflexivity. }
  split; [vm_compute; reflexivity|]. split; [reflexivity|]. split; [vm_compute; reflexivity|].
  split; [vm_compute; reflexivity|]. split; [reflexivity|]. split; [vm_compute; auto|].
  split; [vm_compute; reflexivity|]. apply bo_listed_b_ok. vm_compute. reflexivity.
Qed.

(** (e) "Filter [fi] exists" is not enough for the call to succeed under [St] alone: [St] allows
        worlds with an archetype that has no table (see [wf_arch_norel_table]). Before the repair of
        createArchetype such a world was left behind by a creation that panicked between
        createArchetype and createTable; since the repair (the table of a relation-free archetype is
        created together with the archetype) no reachable state is of this kind: [archs_tabled_norel]
        (WF.v) holds initially and is kept by every finder (StorageA) and along all histories
        (StorageD, [Inv4]). If the filter matches such an archetype
        the table selection itself panics ([EIndex], Go: index out of range in getTables), although
        no selected table is "not ready". Original target statement, with the hypotheses as first
        suggested:

      Theorem exchange_batch_spec : forall s fi f add rem vals,
        St s -> room s -> is_locked s = false -> lock_lock (w_lock s) <> None ->
        (add <> [] \/ rem <> []) -> registered s add -> registered s rem ->
        has_obs s EvRemoveComponents = false -> has_obs s EvAddComponents = false ->
        has_obs s EvRemoveRelations = false -> has_obs s EvAddRelations = false ->
        (forall cv, In cv vals -> In (fst cv) add) -> nth_error (w_filters s) fi = Some f ->
        match w_exchange_batch fi [] add rem [] vals s with
        | Ok _ s' => (... the postcondition of exchange_batch_spec ...)
        | Err _ s' => exists tid t, nth_error (w_tables s) tid = Some t /\ t_len t <> 0 /\ ~ bo_ready add rem (t_ids t)
        end.
(refuted)

        [exchange_batch_spec] above replaces "filter exists" by "the selection succeeds"
        ([get_batch_tables fi [] s = Ok tabs s]); [exchange_batch_spec_partial] below keeps "filter
        exists" and adds: the filter is unregistered, every archetype has a table
        ([bo_archs_tabled], true in every state reached without a panic) and, for reading the
        selection as "entities matching the filter", [tables_listed]. The same applies to
        [remove_entities_spec]. *)
Definition bo_archs_tabled (s : W) : Prop :=
  forall aid a, nth_error (w_archs s) aid = Some a -> a_tables a <> [].

(** In a relation-free world [bo_archs_tabled] is the clause [archs_tabled_norel] of WF.v, which holds
    initially and is kept by every finder (StorageA) and along all histories (StorageD, [Inv4]). *)
Lemma bo_archs_tabled_norel : forall s, bo_archs_tabled s -> archs_tabled_norel s.
Proof. intros s H aid a Ha _. exact (H aid a Ha). Qed.
Lemma archs_tabled_norel_bo : forall s, NoRel s -> archs_tabled_norel s -> bo_archs_tabled s.
Proof. intros s (_ & _ & N3 & _) H aid a Ha. apply (H aid a Ha). apply (N3 aid a Ha). Qed.

Lemma batch_tables_uncached_ok : forall s fi f, NoRel s ->
  nth_error (w_filters s) fi = Some f -> f_cache f = None -> bo_archs_tabled s ->
  exists tabs, get_batch_tables fi [] s = Ok tabs s.
Proof.
  intros s fi f HN Hf Hc HT. rewrite bo_gbt_pure. unfold bo_gbt. rewrite Hf, Hc.
  rewrite k_upure_norel by (apply k_norel_archs; exact HN). rewrite k_sel_selt.
  - eexists. reflexivity.
  - intros a Ha. apply In_nth_error in Ha. destruct Ha as (i & Hi). eapply HT; eauto.
Qed.

Corollary exchange_batch_spec_partial : forall s fi f add rem vals,
  St s -> is_locked s = false -> lock_lock (w_lock s) <> None ->
  (add <> [] \/ rem <> []) -> registered s add ->
  (rem <> [] -> has_obs s EvRemoveComponents = false) -> (add <> [] -> has_obs s EvAddComponents = false) ->
  (forall cv, In cv vals -> In (fst cv) add) ->
  nth_error (w_filters s) fi = Some f -> f_cache f = None -> bo_archs_tabled s -> tables_listed s ->
  match w_exchange_batch fi [] add rem [] vals s with
  | Ok _ s' =>
      St s' /\ is_locked s' = false /\
      (forall e, live s e = true -> bo_ent_matches s f e ->
         live s' e = true /\
         forall c, val s' e c = if memb c add then Some (bo_cbval s vals c) else if memb c rem then None else val s e c) /\
      (forall e, live s e = true -> ~ bo_ent_matches s f e -> live s' e = true /\ forall c, val s' e c = val s e c) /\
      (forall e, live s e = false -> live s' e = false) /\
      (exists es, w_log s' = w_log s ++ map (fun e => [101%Z; Zn (fst e); Z.of_N (snd e)]) es /\ NoDup es /\
         forall e, In e es <-> (live s e = true /\ bo_ent_matches s f e))
  | Err _ s' => St s' /\ content_same s s' /\ is_locked s' = false
  end.
Proof.
  intros s fi f add rem vals HSt Hunl Hlock Hnn Hreg Hor Hoa Hvals Hf Hc HT TL.
  destruct (batch_tables_uncached_ok s fi f (proj2 HSt) Hf Hc HT) as (tabs & Hgbt).
  exact (exchange_batch_by_filter s fi f tabs add rem vals HSt Hunl Hlock Hnn Hreg Hor Hoa Hvals Hf Hc TL Hgbt).
Qed.

Corollary remove_entities_spec_partial : forall s fi f fn,
  St s -> is_locked s = false -> (fn = true -> lock_lock (w_lock s) <> None) ->
  has_obs s EvRemoveEntity = false -> has_obs s EvRemoveRelations = false ->
  nth_error (w_filters s) fi = Some f -> f_cache f = None -> bo_archs_tabled s -> tables_listed s ->
  exists s', w_remove_entities fi [] fn s = Ok tt s' /\ St s' /\ is_locked s' = false /\
    (forall e, live s e = true -> bo_ent_matches s f e ->
       live s' e = false /\ alive s' e = false /\ forall c, val s' e c = None) /\
    (forall e, ~ (live s e = true /\ bo_ent_matches s f e) -> live s' e = live s e /\ forall c, val s' e c = val s e c) /\
    (exists es, w_log s' = w_log s ++ (if fn then map (fun e => [101%Z; Zn (fst e); Z.of_N (snd e)]) es else []) /\
       (forall e, In e es <-> (live s e = true /\ bo_ent_matches s f e)) /\ NoDup es) /\
    frame_user s s' /\ length (pe (w_pool s')) = length (pe (w_pool s)).
Proof.
  intros s fi f fn HSt Hunl Hlock Hoe Hor Hf Hc HT TL.
  destruct (batch_tables_uncached_ok s fi f (proj2 HSt) Hf Hc HT) as (tabs & Hgbt).
  pose proof (batch_selection_uncached s fi f tabs HSt Hf Hc Hgbt) as S.
  pose proof (batch_tables_uncached_nodup s fi f tabs HSt Hf Hc Hgbt) as ND.
  destruct (remove_entities_spec s fi tabs fn HSt Hunl Hlock Hoe Hor Hgbt) as (s' & H1 & H2 & H3 & H4 & H5 & (es & L1 & L2 & L3) & H6 & H7).
  assert (Q : forall e, (live s e = true /\ bo_in_tabs s tabs e) <-> (live s e = true /\ bo_ent_matches s f e)).
  { intros e. split; intros (Hl & X); (split; [exact Hl|]); apply (S e Hl); assumption. }
  exists s'. split; [exact H1|]. split; [exact H2|]. split; [exact H3|].
  split; [intros e Hl Hm; apply (H4 e Hl); apply (Q e); auto|].
  split; [intros e Hn; apply H5; intros X; apply Hn; apply Q; exact X|].
  split; [|split; [exact H6|exact H7]].
  exists es. split; [exact L1|]. split; [intros e; rewrite L2; apply Q|apply L3; exact ND].
Qed.

Definition bo_world_bare : W := exec bo_cfg [bo_filter_line].
(* A state of [St] with an archetype without table. Since the repair of createArchetype (the table of a
   relation-free archetype is created together with the archetype) such a state is no longer reachable
   ([find_or_create_arch] would create the table, see [archs_tabled_norel] / [find_or_create_arch_tabled]
   in StorageA); it is built here with the archetype step alone ([create_archetype_bare]). The statement
   below stays refuted because [St] by itself does not contain [archs_tabled_norel]. *)
Definition bo_world_bad : W := state_of (create_archetype_bare (mk_of_list [0]) bo_world_bare).

Lemma bo_world_bad_St : St bo_world_bad.
Proof.
  assert (H0 : St bo_world_bare).
  { replace bo_world_bare with (init_world bo_cfg <| w_filters := [bo_filter] |>) by (vm_compute; reflexivity).
    apply bo_St_filters; [|reflexivity]. apply St_init; [cbn; lia|cbn; lia|cbn; lia|repeat constructor]. }
  destruct (sa_create_archetype_bare_spec bo_world_bare (mk_of_list [0]) H0) as (s' & a & E & HS' & _).
  { intros j Hj. apply mk_get_of_list in Hj. destruct Hj as [<-|[]]. vm_compute. lia. }
  { intros [|[|j]] a Ha; vm_compute in Ha; try discriminate. inversion Ha; subst a. vm_compute. discriminate. }
  unfold bo_world_bad. rewrite E. exact HS'.
Qed.

Lemma exchange_batch_spec_refuted :
  ~ (forall s fi f add rem vals,
       St s -> room s -> is_locked s = false -> lock_lock (w_lock s) <> None ->
       (add <> [] \/ rem <> []) -> registered s add -> registered s rem ->
       has_obs s EvRemoveComponents = false -> has_obs s EvAddComponents = false ->
       has_obs s EvRemoveRelations = false -> has_obs s EvAddRelations = false ->
       (forall cv, In cv vals -> In (fst cv) add) -> nth_error (w_filters s) fi = Some f ->
       match w_exchange_batch fi [] add rem [] vals s with
       | Ok _ _ => True
       | Err _ _ => exists tid t, nth_error (w_tables s) tid = Some t /\ t_len t <> 0 /\ ~ bo_ready add rem (t_ids t)
       end).
Proof.
  intros H.
  specialize (H bo_world_bad 0 bo_filter [1] [] [] bo_world_bad_St).
  assert (Hroom : room bo_world_bad).
  { unfold room. replace (length (pe (w_pool bo_world_bad))) with 2 by (vm_compute; reflexivity).
    pose proof bo_pow31. lia. }
  assert (Hreg : registered bo_world_bad [1]).
  { intros c Hc. replace (length (w_reg bo_world_bad)) with 3 by (vm_compute; reflexivity). cbn in Hc. lia. }
  assert (Hunl : is_locked bo_world_bad = false) by (vm_compute; reflexivity).
  assert (Hlk : lock_lock (w_lock bo_world_bad) <> None) by (vm_compute; discriminate).
  assert (O1 : has_obs bo_world_bad EvRemoveComponents = false) by (vm_compute; reflexivity).
  assert (O2 : has_obs bo_world_bad EvAddComponents = false) by (vm_compute; reflexivity).
  assert (O3 : has_obs bo_world_bad EvRemoveRelations = false) by (vm_compute; reflexivity).
  assert (O4 : has_obs bo_world_bad EvAddRelations = false) by (vm_compute; reflexivity).
  assert (Hnn : [1] <> [] \/ (@nil nat) <> []) by (left; discriminate).
  assert (Hreg0 : registered bo_world_bad []) by (intros c []).
  assert (Hv0 : forall cv : nat * Z, In cv [] -> In (fst cv) [1]) by (intros cv []).
  specialize (H Hroom). specialize (H Hunl). specialize (H Hlk). specialize (H Hnn). specialize (H Hreg).
  specialize (H Hreg0). specialize (H O1). specialize (H O2). specialize (H O3). specialize (H O4). specialize (H Hv0).
  assert (Hf : nth_error (w_filters bo_world_bad) 0 = Some bo_filter) by (vm_compute; reflexivity).
  specialize (H Hf).
  assert (E : is_err (w_exchange_batch 0 [] [1] [] [] [] bo_world_bad) = true) by (vm_compute; reflexivity).
  destruct (w_exchange_batch 0 [] [1] [] [] [] bo_world_bad) as [u s'|er s']; [discriminate|].
  destruct H as (tid & t & Ht & Hlen & _).
  replace (w_tables bo_world_bad) with (w_tables bo_world_bare) in Ht by (vm_compute; reflexivity).
  destruct tid as [|tid].
  - vm_compute in Ht. inversion Ht; subst t. apply Hlen. reflexivity.
  - vm_compute in Ht. destruct tid; discriminate.
Qed.

(** ** Assumption audit *)
Definition BatchOps_all :=
  (exchange_batch_spec, exchange_batch_nocomps, exchange_batch_by_filter,
   batch_tables_uncached, batch_selection_uncached, batch_tables_uncached_nodup, batch_selection_cached,
   remove_entities_spec, new_batch_spec,
   exchange_batch_spec_nonvacuous, exchange_batch_example, remove_entities_spec_nonvacuous, remove_entities_example,
   new_batch_spec_nonvacuous, new_batch_example,
   exchange_batch_zero_sized_refuted, exchange_batch_vals_outside_fails, exchange_batch_not_ready_fails,
   batch_selection_cached_nonvacuous, batch_tables_uncached_ok, exchange_batch_spec_partial,
   remove_entities_spec_partial, exchange_batch_spec_refuted, bo_archs_tabled_norel, archs_tabled_norel_bo).
Print Assumptions BatchOps_all.
