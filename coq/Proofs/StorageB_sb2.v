(** * StorageB (part sb2): see StorageBDefs.v for the statements' vocabulary. *)
From Ark Require Import Model.Base Model.Mask Model.Pool Model.Util Model.World Model.Run.
From Ark Require Import Proofs.TableProofs Proofs.MaskProofs Proofs.Hoare Proofs.WF Proofs.StorageA Proofs.StorageBDefs.
From RecordUpdate Require Import RecordSet.
Import RecordSetNotations.
From Coq Require Import Lia.


(** World.NewEntity (storage part): a fresh handle with no components. *)

(** Unsafe.NewEntity(ids...) (storage part, no relation targets). *)

(* ------------------------------------------------------------------ *)
(** ** sb2: helpers for add / remove / exchange *)

(** *** Lists *)
Lemma sb2_index_of_nth : forall x l i, index_of x l = Some i -> nth_error l i = Some x.
Proof.
  induction l as [|h t IH]; simpl; intros i H; [discriminate|].
  destruct (Nat.eqb_spec h x).
  - inversion H; subst. reflexivity.
  - destruct (index_of x t) eqn:E; [|discriminate]. inversion H; subst. simpl. auto.
Qed.

Lemma sb2_index_of_In : forall x l, In x l -> exists i, index_of x l = Some i.
Proof.
  induction l as [|h t IH]; simpl; intros H; [contradiction|].
  destruct (Nat.eqb_spec h x); [eauto|].
  destruct H as [H|H]; [contradiction|]. destruct (IH H) as [i E]. rewrite E. eauto.
Qed.

Lemma sb2_index_of_some_In : forall x l i, index_of x l = Some i -> In x l.
Proof. intros x l i H. apply sb2_index_of_nth in H. eapply nth_error_In; eauto. Qed.

Lemma sb2_memb_In : forall x l, memb x l = true <-> In x l.
Proof.
  intros x l. unfold memb. split.
  - destruct (index_of x l) eqn:E; [|discriminate]. intros _. eapply sb2_index_of_some_In; eauto.
  - intros H. destruct (sb2_index_of_In _ _ H) as [i E]. rewrite E. reflexivity.
Qed.

Lemma sb2_memb_false : forall x l, memb x l = false <-> ~ In x l.
Proof.
  intros x l. rewrite <- sb2_memb_In. destruct (memb x l); split; intros; congruence.
Qed.

Lemma sb2_memb_cons : forall x h t, memb x (h :: t) = (Nat.eqb h x || memb x t)%bool.
Proof.
  intros. unfold memb. simpl. destruct (Nat.eqb h x); simpl; auto.
  destruct (index_of x t); reflexivity.
Qed.

Lemma sb2_upd_upd : forall A i (x y : A) l, upd i x (upd i y l) = upd i x l.
Proof. intros A i x y l; revert i; induction l; intros [|i]; simpl; auto. rewrite IHl. reflexivity. Qed.

Lemma sb2_upd_same : forall A i (x : A) l, nth_error l i = Some x -> upd i x l = l.
Proof.
  intros A i x l; revert i; induction l; intros [|i]; simpl; intros H; try discriminate.
  - inversion H; reflexivity.
  - rewrite IHl; auto.
Qed.

Lemma sb2_updf_upd : forall A i (f : A -> A) l x, nth_error l i = Some x -> updf i f l = upd i (f x) l.
Proof. intros. unfold updf. rewrite H. reflexivity. Qed.

Lemma sb2_nth_error_upd_eq : forall A (l : list A) i x y, nth_error l i = Some y -> nth_error (upd i x l) i = Some x.
Proof. intros. rewrite nth_error_upd, Nat.eqb_refl, H. reflexivity. Qed.

Lemma sb2_nth_error_upd_ne : forall A (l : list A) i j x, i <> j -> nth_error (upd i x l) j = nth_error l j.
Proof. intros. rewrite nth_error_upd. destruct (Nat.eqb_spec i j); [contradiction|reflexivity]. Qed.

Lemma sb2_ent_eqb_eq : forall a b, ent_eqb a b = true <-> a = b.
Proof.
  intros [a1 a2] [b1 b2]. unfold ent_eqb. simpl. rewrite andb_true_iff, Nat.eqb_eq, N.eqb_eq.
  split; [intros [-> ->]; reflexivity | intros H; inversion H; auto].
Qed.

Lemma sb2_ent_eqb_refl : forall a, ent_eqb a a = true.
Proof. intros. apply sb2_ent_eqb_eq. reflexivity. Qed.

Lemma sb2_ent_eqb_fst : forall a b, fst a <> fst b -> ent_eqb a b = false.
Proof.
  intros a b H. destruct (ent_eqb a b) eqn:E; auto. apply sb2_ent_eqb_eq in E. subst. contradiction.
Qed.

Lemma sb2_ent_eqb_ne : forall a b, a <> b -> ent_eqb a b = false.
Proof.
  intros a b H. destruct (ent_eqb a b) eqn:E; auto. apply sb2_ent_eqb_eq in E. contradiction.
Qed.

(** *** Monad *)
Lemma sb2_bind_ok : forall A B (m : MW A) (k : A -> MW B) s a s', m s = Ok a s' -> bind m k s = k a s'.
Proof. intros. unfold bind. rewrite H. reflexivity. Qed.

Lemma sb2_bind_err : forall A B (m : MW A) (k : A -> MW B) s e s', m s = Err e s' -> bind m k s = Err e s'.
Proof. intros. unfold bind. rewrite H. reflexivity. Qed.

Lemma sb2_getT : forall s i t, nth_error (w_tables s) i = Some t -> getT i s = Ok t s.
Proof. intros. unfold getT, bind, get, of_opt. rewrite H. reflexivity. Qed.

Lemma sb2_getA : forall s i a, nth_error (w_archs s) i = Some a -> getA i s = Ok a s.
Proof. intros. unfold getA, bind, get, of_opt. rewrite H. reflexivity. Qed.

(** *** State updates *)
Definition sb2_setT (s : W) (T : list table) : W := s <| w_tables := T |>.
Definition sb2_st (s : W) (T : list table) (I : list (option nat * nat)) : W :=
  s <| w_tables := T |> <| w_index := I |>.

Lemma sb2_setT_setT : forall s T1 T2, sb2_setT (sb2_setT s T1) T2 = sb2_setT s T2.
Proof. reflexivity. Qed.

Lemma sb2_setT_id : forall s, sb2_setT s (w_tables s) = s.
Proof. intros s. destruct s; reflexivity. Qed.

Lemma sb2_modT : forall s i f t, nth_error (w_tables s) i = Some t ->
  modT i f s = Ok tt (sb2_setT s (upd i (f t) (w_tables s))).
Proof.
  intros. unfold modT, modify, sb2_setT. f_equal. unfold set; cbn. rewrite (sb2_updf_upd _ _ f _ _ H). reflexivity.
Qed.

Lemma sb2_st_alt : forall s T I, sb2_st s T I = sb2_setT s T <| w_index := I |>.
Proof. reflexivity. Qed.

Lemma sb2_st_same_index : forall s T, sb2_st s T (w_index s) = sb2_setT s T.
Proof. intros s T. destruct s; reflexivity. Qed.

(** *** Table-level steps of the move *)
Definition sb2_meta (t t' : table) : Prop :=
  t_arch t' = t_arch t /\ t_ids t' = t_ids t /\ t_kinds t' = t_kinds t /\ t_targets t' = t_targets t /\
  t_rels t' = t_rels t /\ t_free t' = t_free t.

Lemma sb2_meta_refl : forall t, sb2_meta t t.
Proof. intros; repeat split. Qed.

Lemma sb2_meta_trans : forall a b c, sb2_meta a b -> sb2_meta b c -> sb2_meta a c.
Proof.
  intros a b c (A1 & A2 & A3 & A4 & A5 & A6) (B1 & B2 & B3 & B4 & B5 & B6).
  repeat split; congruence.
Qed.

Lemma sb2_tbl_addM : forall s tid e t, nth_error (w_tables s) tid = Some t ->
  tbl_addM tid e s = Ok (t_len t) (sb2_setT s (upd tid (snd (tbl_add t e)) (w_tables s))).
Proof.
  intros s tid e t H. unfold tbl_addM.
  erewrite sb2_bind_ok by (apply sb2_getT; eassumption).
  unfold tbl_add at 1. cbv beta iota zeta. unfold setT.
  erewrite sb2_bind_ok by (eapply sb2_modT; eassumption).
  reflexivity.
Qed.

Lemma sb2_col_set_cell : forall nt ni k nidx src row v,
  tbl_ok nt -> nidx < t_len nt -> nth_error (t_kinds nt) ni = Some k ->
  nth_error src row = Some v -> (ck_zs k = true -> v = 0%Z) ->
  (forall ci r, (ci <> ni \/ r <> nidx) ->
     cell (nt <| t_cols ::= updf ni (fun dst => col_set k dst nidx src row) |>) ci r = cell nt ci r) /\
  cell (nt <| t_cols ::= updf ni (fun dst => col_set k dst nidx src row) |>) ni nidx = v.
Proof.
  intros nt ni k nidx src row v Hok Hn Hk Hv Hz.
  apply tbl_ok_elim in Hok. destruct Hok as (H1 & H2 & H3 & H4 & H5).
  assert (Hni : ni < length (t_cols nt)).
  { rewrite H3, <- H4. apply nth_error_Some. congruence. }
  destruct (nth_error (t_cols nt) ni) as [col|] eqn:Ec.
  2:{ apply nth_error_None in Ec. lia. }
  destruct (H5 _ _ Ec) as (L & C & Zs).
  assert (Enew : nth_error (t_cols (nt <| t_cols ::= updf ni (fun dst => col_set k dst nidx src row) |>)) ni
                 = Some (col_set k col nidx src row)).
  { cbn. rewrite nth_error_updf, Nat.eqb_refl, Ec. reflexivity. }
  split.
  - intros ci r Hor. destruct (Nat.eq_dec ci ni) as [->|Hne].
    + rewrite (cell_some _ _ _ _ Enew), (cell_some _ _ _ _ Ec).
      unfold col_set. destruct (ck_zs k); auto. rewrite Hv. apply nth_upd_neq. lia.
    + assert (Eo : nth_error (t_cols (nt <| t_cols ::= updf ni (fun dst => col_set k dst nidx src row) |>)) ci
                   = nth_error (t_cols nt) ci).
      { cbn. rewrite nth_error_updf. destruct (Nat.eqb_spec ni ci); [congruence|reflexivity]. }
      destruct (nth_error (t_cols nt) ci) as [c0|] eqn:E0.
      * rewrite (cell_some _ _ _ _ Eo), (cell_some _ _ _ _ E0). reflexivity.
      * rewrite (cell_none _ _ _ Eo), (cell_none _ _ _ E0). reflexivity.
  - rewrite (cell_some _ _ _ _ Enew). unfold col_set. destruct (ck_zs k) eqn:Ez.
    + rewrite (Hz eq_refl). apply (Zs k Hk Ez).
    + rewrite Hv. apply nth_upd_eq. lia.
Qed.

Definition sb2_copy_body (old new : nat) (m : mask) (row nidx : nat) (c : nat) : MW unit :=
    if mk_get m c then
      ot <- getT old ;; nt <- getT new ;;
      match tbl_colidx ot c, tbl_colidx nt c with
      | Some oi, Some ni =>
          match nth_error (t_cols ot) oi, nth_error (t_kinds nt) ni with
          | Some src, Some k => modT new (fun t => t <| t_cols ::= updf ni (fun dst => col_set k dst nidx src row) |>)
          | _, _ => fail EIndex
          end
      | _, _ => fail ENil
      end
    else ret tt.

Lemma sb2_copy_row_eq : forall old new m row nidx,
  copy_row old new m row nidx = (ot <- getT old ;; forM_ (t_ids ot) (sb2_copy_body old new m row nidx)).
Proof. reflexivity. Qed.

Definition sb2_copy_pre (ot nt : table) (row : nat) (c : nat) : Prop :=
  exists oi ni src k v, index_of c (t_ids ot) = Some oi /\ index_of c (t_ids nt) = Some ni /\
     nth_error (t_cols ot) oi = Some src /\ nth_error (t_kinds nt) ni = Some k /\
     nth_error src row = Some v /\ (ck_zs k = true -> forall r, nth r src 0%Z = 0%Z).

Lemma sb2_copy_loop : forall otid ntid m row nidx ot l s nt,
  otid <> ntid -> nth_error (w_tables s) otid = Some ot -> nth_error (w_tables s) ntid = Some nt ->
  tbl_ok nt -> nidx < t_len nt -> NoDup l ->
  (forall c, In c l -> mk_get m c = true -> sb2_copy_pre ot nt row c) ->
  exists nt', forM_ l (sb2_copy_body otid ntid m row nidx) s = Ok tt (sb2_setT s (upd ntid nt' (w_tables s))) /\
    tbl_ok nt' /\ sb2_meta nt nt' /\ t_len nt' = t_len nt /\ t_ents nt' = t_ents nt /\
    (forall ci r, r <> nidx -> cell nt' ci r = cell nt ci r) /\
    (forall c ni, index_of c (t_ids nt) = Some ni ->
       cell nt' ni nidx = if (memb c l && mk_get m c)%bool
                          then match index_of c (t_ids ot) with Some oi => cell ot oi row | None => 0%Z end
                          else cell nt ni nidx).
Proof.
  intros otid ntid m row nidx ot l. induction l as [|c l IH]; intros s nt Hne Hot Hnt Hok Hn Hnd Hpre.
  - exists nt. split.
    + cbn [forM_]. unfold ret. rewrite (sb2_upd_same _ _ _ _ Hnt), sb2_setT_id. reflexivity.
    + split; [assumption|]. split; [apply sb2_meta_refl|]. repeat split; auto.
  - inversion Hnd as [|? ? Hnin Hnd']; subst.
    cbn [forM_]. destruct (mk_get m c) eqn:Em.
    + destruct (Hpre c (or_introl eq_refl) Em) as (oi & ni & src & k & v & Eoi & Eni & Esrc & Ek & Ev & Hz).
      set (nt1 := nt <| t_cols ::= updf ni (fun dst => col_set k dst nidx src row) |>).
      assert (Hbody : sb2_copy_body otid ntid m row nidx c s = Ok tt (sb2_setT s (upd ntid nt1 (w_tables s)))).
      { unfold sb2_copy_body. rewrite Em.
        erewrite sb2_bind_ok by (apply sb2_getT; eassumption).
        erewrite sb2_bind_ok by (apply sb2_getT; eassumption).
        unfold tbl_colidx. rewrite Eoi, Eni, Esrc, Ek.
        erewrite sb2_modT by eassumption. reflexivity. }
      erewrite sb2_bind_ok by exact Hbody.
      assert (Hz' : ck_zs k = true -> v = 0%Z).
      { intros Hzs. rewrite <- (Hz Hzs row). symmetry. apply nth_error_nth. exact Ev. }
      destruct (sb2_col_set_cell nt ni k nidx src row v Hok Hn Ek Ev Hz') as (Hc1 & Hc2).
      fold nt1 in Hc1, Hc2.
      assert (Hok1 : tbl_ok nt1) by (apply col_set_ok; auto).
      assert (Hot1 : nth_error (w_tables (sb2_setT s (upd ntid nt1 (w_tables s)))) otid = Some ot).
      { cbn. rewrite sb2_nth_error_upd_ne by auto. exact Hot. }
      assert (Hnt1 : nth_error (w_tables (sb2_setT s (upd ntid nt1 (w_tables s)))) ntid = Some nt1).
      { cbn. eapply sb2_nth_error_upd_eq; eauto. }
      destruct (IH _ nt1 Hne Hot1 Hnt1 Hok1 Hn Hnd') as (nt' & Hrun & Hok' & Hmeta & Hlen & Hents & Hcell & Hcopy).
      { intros c' Hin Hm'. destruct (Hpre c' (or_intror Hin) Hm') as (oi' & ni' & src' & k' & v' & P1 & P2 & P3 & P4 & P5 & P6).
        exists oi', ni', src', k', v'. repeat split; auto. }
      exists nt'. split.
      { rewrite Hrun. rewrite sb2_setT_setT.
        change (w_tables (sb2_setT s (upd ntid nt1 (w_tables s)))) with (upd ntid nt1 (w_tables s)).
        rewrite sb2_upd_upd. reflexivity. }
      split; [assumption|].
      split; [eapply sb2_meta_trans; [|exact Hmeta]; repeat split|].
      split; [rewrite Hlen; reflexivity|]. split; [rewrite Hents; reflexivity|].
      split.
      { intros ci r Hr. rewrite Hcell by assumption. apply Hc1. right. assumption. }
      intros c' ni' Eni'. specialize (Hcopy c' ni' Eni').
      rewrite sb2_memb_cons. destruct (Nat.eqb_spec c c') as [<-|Hcc].
      * assert (ni' = ni) by congruence. subst ni'.
        rewrite Em. cbn [orb andb]. rewrite Eoi.
        assert (Hml : memb c l = false) by (apply sb2_memb_false; assumption).
        rewrite Hml in Hcopy. cbn [andb] in Hcopy. rewrite Hcopy, Hc2.
        rewrite (cell_some _ _ _ _ Esrc). symmetry. apply nth_error_nth. exact Ev.
      * cbn [orb]. rewrite Hcopy. destruct (memb c' l && mk_get m c')%bool; [reflexivity|].
        apply Hc1. left. intros ->.
        apply sb2_index_of_nth in Eni. apply sb2_index_of_nth in Eni'. congruence.
    + assert (Hbody : sb2_copy_body otid ntid m row nidx c s = Ok tt s).
      { unfold sb2_copy_body. rewrite Em. reflexivity. }
      erewrite sb2_bind_ok by exact Hbody.
      destruct (IH s nt Hne Hot Hnt Hok Hn Hnd') as (nt' & Hrun & Hok' & Hmeta & Hlen & Hents & Hcell & Hcopy).
      { intros c' Hin Hm'. apply Hpre; auto. right. assumption. }
      exists nt'. split; [exact Hrun|]. repeat (split; [assumption|]).
      intros c' ni' Eni'. rewrite (Hcopy c' ni' Eni'). rewrite sb2_memb_cons.
      destruct (Nat.eqb_spec c c') as [<-|Hcc]; [|reflexivity].
      rewrite Em. rewrite !andb_false_r. reflexivity.
Qed.

Lemma sb2_remove_row_eq : forall s tid row t, nth_error (w_tables s) tid = Some t -> tbl_ok t -> row < t_len t ->
  remove_row tid row s =
  Ok tt (sb2_st s (upd tid (snd (tbl_remove t row)) (w_tables s))
               (if Nat.eqb row (t_len t - 1) then w_index s
                else updf (fst (row_ent t (t_len t - 1))) (fun ix => (fst ix, row)) (w_index s))).
Proof.
  intros s tid row t Ht Hok Hr. unfold remove_row.
  erewrite sb2_bind_ok by (apply sb2_getT; eassumption).
  pose proof (tbl_remove_spec t row Hok Hr) as Hspec.
  pose proof (tbl_remove_ok t row Hok Hr) as Hok'.
  destruct (tbl_remove t row) as [sw t'] eqn:E. cbn [snd] in *.
  destruct Hspec as (Hsw & Hlen & _ & Hent & _).
  unfold setT. erewrite sb2_bind_ok by (eapply sb2_modT; eassumption).
  subst sw. destruct (Nat.eqb_spec row (t_len t - 1)) as [Heq|Hneq]; cbn [negb whenM].
  - unfold ret. rewrite sb2_st_same_index. reflexivity.
  - assert (Hrl : row < t_len t') by lia.
    apply tbl_ok_elim in Hok'. destruct Hok' as (H1 & H2 & _).
    assert (Hn : nth_error (t_ents t') row = Some (row_ent t (t_len t - 1))).
    { rewrite <- (Hent Hrl). unfold row_ent. apply nth_error_nth'. lia. }
    rewrite Hn. reflexivity.
Qed.

(** *** Index / rows facts from the invariant *)
Lemma sb2_loc_iff : forall s x tid r, loc s x = Some (tid, r) <-> nth_error (w_index s) (fst x) = Some (Some tid, r).
Proof.
  intros. unfold loc. destruct (nth_error (w_index s) (fst x)) as [[[t|] r0]|]; split; intros H; inversion H; reflexivity.
Qed.

Lemma sb2_live_elim : forall s e, live s e = true ->
  exists tid r t, loc s e = Some (tid, r) /\ nth_error (w_tables s) tid = Some t /\ r < t_len t /\ row_ent t r = e.
Proof.
  intros s e H. unfold live in H. destruct (loc s e) as [[tid r]|]; [|discriminate].
  destruct (nth_error (w_tables s) tid) as [t|] eqn:Et; [|discriminate].
  apply andb_true_iff in H. destruct H as (H1 & H2). apply Nat.ltb_lt in H1. apply sb2_ent_eqb_eq in H2.
  exists tid, r, t. auto.
Qed.

Lemma sb2_live_intro : forall s e tid r t, loc s e = Some (tid, r) -> nth_error (w_tables s) tid = Some t ->
  r < t_len t -> row_ent t r = e -> live s e = true.
Proof.
  intros s e tid r t Hl Ht Hr He. unfold live. rewrite Hl, Ht. apply andb_true_iff. split.
  - apply Nat.ltb_lt. assumption.
  - apply sb2_ent_eqb_eq. assumption.
Qed.

(** Distinct rows hold distinct IDs. *)
Lemma sb2_row_inj : forall s tid t r tid' t' r', WF s ->
  nth_error (w_tables s) tid = Some t -> r < t_len t ->
  nth_error (w_tables s) tid' = Some t' -> r' < t_len t' ->
  fst (row_ent t r) = fst (row_ent t' r') -> tid = tid' /\ r = r'.
Proof.
  intros s tid t r tid' t' r' HW Ht Hr Ht' Hr' Hf.
  destruct (wf_rows _ HW _ _ _ Ht Hr) as (L1 & _). destruct (wf_rows _ HW _ _ _ Ht' Hr') as (L2 & _).
  apply sb2_loc_iff in L1. apply sb2_loc_iff in L2. rewrite Hf in L1. rewrite L1 in L2. inversion L2; auto.
Qed.

Lemma sb2_alive_index_live : forall s e tid r, WF s -> alive s e = true ->
  nth_error (w_index s) (fst e) = Some (Some tid, r) -> live s e = true.
Proof.
  intros s e tid r HW Ha Hi.
  destruct (wf_index _ HW _ _ _ Hi) as (t & Ht & Hr & Hf).
  destruct (wf_rows _ HW _ _ _ Ht Hr) as (_ & Hp).
  unfold alive, pool_alive in Ha. rewrite Hf in Hp. rewrite Hp in Ha.
  destruct (row_ent t r) as [i g] eqn:Er. simpl in Hf. apply N.eqb_eq in Ha. subst.
  eapply sb2_live_intro; eauto.
  - apply sb2_loc_iff. exact Hi.
  - rewrite Er. destruct e; reflexivity.
Qed.

Lemma sb2_table_ok : forall s tid t, WF s -> nth_error (w_tables s) tid = Some t -> tbl_ok t.
Proof. intros s tid t HW Ht. pose proof (wf_tables _ HW) as H. rewrite Forall_nth_error in H. eauto. Qed.

(** Layout of a table whose archetype is known. *)
Lemma sb2_layout : forall s tid t a, WF s -> nth_error (w_tables s) tid = Some t ->
  nth_error (w_archs s) (t_arch t) = Some a ->
  t_ids t = mk_to_list (a_mask a) (length (w_reg s)) /\ t_kinds t = map (kind_of s) (t_ids t) /\
  (forall j, mk_get (a_mask a) j = true -> j < length (w_reg s)).
Proof.
  intros s tid t a HW Ht Ha. destruct (wf_layout _ HW _ _ Ht) as (a' & Ha' & Hids & Hk & _).
  rewrite Ha in Ha'. inversion Ha'; subst a'.
  destruct (wf_arch_comps _ HW _ _ Ha) as (Hc & Hlt & _). split; [congruence|]. split; auto.
Qed.

Lemma sb2_colidx_mask : forall s tid t a c, WF s -> nth_error (w_tables s) tid = Some t ->
  nth_error (w_archs s) (t_arch t) = Some a ->
  (mk_get (a_mask a) c = true -> exists ci, tbl_colidx t c = Some ci) /\
  (mk_get (a_mask a) c = false -> tbl_colidx t c = None).
Proof.
  intros s tid t a c HW Ht Ha. destruct (sb2_layout _ _ _ _ HW Ht Ha) as (Hids & _ & Hlt).
  unfold tbl_colidx. split; intros Hm.
  - apply sb2_index_of_In. rewrite Hids. apply mk_to_list_spec. auto.
  - destruct (index_of c (t_ids t)) eqn:E; auto. apply sb2_index_of_some_In in E.
    rewrite Hids in E. apply mk_to_list_spec in E. destruct E; congruence.
Qed.

(** *** The move of one row: execution *)
Definition sb2_ot_facts (ot ot' : table) (row : nat) : Prop :=
  tbl_ok ot' /\ t_len ot' = t_len ot - 1 /\ sb2_meta ot ot' /\
  (row < t_len ot - 1 -> row_ent ot' row = row_ent ot (t_len ot - 1) /\
                         forall ci, cell ot' ci row = cell ot ci (t_len ot - 1)) /\
  (forall r, r < t_len ot - 1 -> r <> row -> row_ent ot' r = row_ent ot r /\ forall ci, cell ot' ci r = cell ot ci r).

Definition sb2_nt_facts (m : mask) (ot nt nt3 : table) (row : nat) (e : ent) : Prop :=
  tbl_ok nt3 /\ t_len nt3 = S (t_len nt) /\ sb2_meta nt nt3 /\ row_ent nt3 (t_len nt) = e /\
  (forall r, r < t_len nt -> row_ent nt3 r = row_ent nt r /\ forall ci, cell nt3 ci r = cell nt ci r) /\
  (forall c ni, index_of c (t_ids nt) = Some ni ->
     cell nt3 ni (t_len nt) =
     if (memb c (t_ids ot) && mk_get m c)%bool
     then match index_of c (t_ids ot) with Some oi => cell ot oi row | None => 0%Z end else 0%Z).

Definition sb2_T' (s : W) (otid ntid : nat) (ot' nt3 : table) : list table :=
  upd otid ot' (upd ntid nt3 (w_tables s)).
Definition sb2_I' (s : W) (e : ent) (ntid row : nat) (ot nt : table) : list (option nat * nat) :=
  upd (fst e) (Some ntid, t_len nt)
      (if Nat.eqb row (t_len ot - 1) then w_index s
       else updf (fst (row_ent ot (t_len ot - 1))) (fun ix => (fst ix, row)) (w_index s)).

Lemma sb2_ot_facts_remove : forall ot row, tbl_ok ot -> row < t_len ot -> sb2_ot_facts ot (snd (tbl_remove ot row)) row.
Proof.
  intros ot row Hok Hr. pose proof (tbl_remove_spec ot row Hok Hr) as Hs.
  pose proof (tbl_remove_ok ot row Hok Hr) as Hok'.
  destruct (tbl_remove ot row) as [sw ot'] eqn:E. cbn [snd] in *.
  destruct Hs as (_ & Hlen & Hc & He & Hc' & He' & F1 & F2 & F3 & F4 & F5 & F6 & _).
  split; [assumption|]. split; [assumption|]. split; [repeat split; assumption|]. rewrite Hlen in *. split.
  - intros Hlt. split; auto.
  - intros r Hlt Hne. split; auto.
Qed.

Section sb2_move.
Variables (s : W) (e : ent) (otid row ntid : nat) (ot nt : table) (oa na : arch).
Hypothesis HSt : St s.
Hypothesis Hroom : room s.
Hypothesis Hlive : live s e = true.
Hypothesis Hloc : loc s e = Some (otid, row).
Hypothesis Hot : nth_error (w_tables s) otid = Some ot.
Hypothesis Hnt : nth_error (w_tables s) ntid = Some nt.
Hypothesis Hoa : nth_error (w_archs s) (t_arch ot) = Some oa.
Hypothesis Hna : nth_error (w_archs s) (t_arch nt) = Some na.
Hypothesis Hmask : a_mask oa <> a_mask na.

Lemma sb2_mv_ne : otid <> ntid.
Proof. intros ->. rewrite Hot in Hnt. inversion Hnt; subst nt. rewrite Hoa in Hna. inversion Hna; subst. auto. Qed.

Lemma sb2_mv_row : row < t_len ot /\ row_ent ot row = e.
Proof.
  destruct (sb2_live_elim _ _ Hlive) as (tid & r & t & L & T & R & E).
  rewrite Hloc in L. inversion L; subst tid r. rewrite Hot in T. inversion T; subst t. auto.
Qed.

Lemma sb2_mv_small : t_len nt < Nat.pow 2 31.
Proof.
  pose proof (rows_le_pool s ntid nt (proj1 HSt) Hnt) as H. unfold room in Hroom.
  set (P := Nat.pow 2 31) in *. clearbody P. lia.
Qed.

Lemma sb2_mv_exec : exists nt3 s2 s3 s4,
   tbl_addM ntid e s = Ok (t_len nt) s2 /\
   copy_row otid ntid (a_mask na) row (t_len nt) s2 = Ok tt s3 /\
   remove_row otid row s3 = Ok tt s4 /\
   set_index_direct e ntid (t_len nt) s4 =
     Ok tt (sb2_st s (sb2_T' s otid ntid (snd (tbl_remove ot row)) nt3) (sb2_I' s e ntid row ot nt)) /\
   sb2_ot_facts ot (snd (tbl_remove ot row)) row /\ sb2_nt_facts (a_mask na) ot nt nt3 row e.
Proof.
  pose proof (proj1 HSt) as HW.
  pose proof sb2_mv_ne as Hne. destruct sb2_mv_row as (Hrow & Hent). pose proof sb2_mv_small as Hsmall.
  pose proof (sb2_table_ok _ _ _ HW Hot) as Hoko. pose proof (sb2_table_ok _ _ _ HW Hnt) as Hokn.
  destruct (sb2_layout _ _ _ _ HW Hot Hoa) as (Hido & Hko & Hlto).
  destruct (sb2_layout _ _ _ _ HW Hnt Hna) as (Hidn & Hkn & Hltn).
  pose proof (tbl_add_spec nt e Hokn Hsmall) as Hadd. pose proof (tbl_add_ok nt e Hokn Hsmall) as Hok2.
  destruct (tbl_add nt e) as [idx nt2] eqn:Eadd. cbn [snd] in Hok2.
  destruct Hadd as (Hidx & Hlen2 & Hent2 & Hz2 & Hc2 & He2 & G1 & G2 & G3 & G4 & G5 & G6). subst idx.
  set (s2 := sb2_setT s (upd ntid nt2 (w_tables s))).
  assert (Hot2 : nth_error (w_tables s2) otid = Some ot).
  { unfold s2. cbn. rewrite sb2_nth_error_upd_ne by auto. exact Hot. }
  assert (Hnt2 : nth_error (w_tables s2) ntid = Some nt2).
  { unfold s2. cbn. eapply sb2_nth_error_upd_eq; eauto. }
  destruct (sb2_copy_loop otid ntid (a_mask na) row (t_len nt) ot (t_ids ot) s2 nt2 Hne Hot2 Hnt2 Hok2)
    as (nt3 & Hrun & Hok3 & Hmeta3 & Hlen3 & Hents3 & Hcell3 & Hcopy3).
  { lia. }
  { rewrite Hido. apply mk_to_list_sorted. }
  { intros c Hin Hm.
    destruct (sb2_index_of_In _ _ Hin) as (oi & Eoi).
    assert (Hcn : c < length (w_reg s)).
    { rewrite Hido in Hin. apply mk_to_list_spec in Hin. tauto. }
    assert (Hinn : In c (t_ids nt2)).
    { rewrite G1, Hidn. apply mk_to_list_spec. auto. }
    destruct (sb2_index_of_In _ _ Hinn) as (ni & Eni).
    pose proof (sb2_index_of_nth _ _ _ Eoi) as Noi. pose proof (sb2_index_of_nth _ _ _ Eni) as Nni.
    pose proof (tbl_ok_elim _ Hoko) as (O1 & O2 & O3 & O4 & O5).
    assert (Hoil : oi < length (t_ids ot)) by (apply nth_error_Some; congruence).
    destruct (nth_error (t_cols ot) oi) as [src|] eqn:Esrc.
    2:{ apply nth_error_None in Esrc. lia. }
    destruct (O5 _ _ Esrc) as (L & _ & Zs).
    exists oi, ni, src, (kind_of s c), (nth row src 0%Z).
    split; [assumption|]. split; [assumption|]. split; [exact Esrc|]. split.
    { rewrite G2, Hkn, nth_error_map. rewrite G1 in Nni. rewrite Nni. reflexivity. }
    split.
    { apply nth_error_nth'. lia. }
    intros Hzs. apply (Zs (kind_of s c)); auto.
    rewrite Hko, nth_error_map, Noi. reflexivity. }
  set (s3 := sb2_setT s (upd ntid nt3 (w_tables s))).
  assert (Hs3 : sb2_setT s2 (upd ntid nt3 (w_tables s2)) = s3).
  { unfold s2, s3. rewrite sb2_setT_setT.
    change (w_tables (sb2_setT s (upd ntid nt2 (w_tables s)))) with (upd ntid nt2 (w_tables s)).
    rewrite sb2_upd_upd. reflexivity. }
  rewrite Hs3 in Hrun.
  assert (Hot3 : nth_error (w_tables s3) otid = Some ot).
  { unfold s3. cbn. rewrite sb2_nth_error_upd_ne by auto. exact Hot. }
  exists nt3, s2, s3. eexists.
  split.
  { rewrite (sb2_tbl_addM s ntid e nt Hnt). rewrite Eadd. reflexivity. }
  split.
  { rewrite sb2_copy_row_eq. erewrite sb2_bind_ok by (apply sb2_getT; exact Hot2). exact Hrun. }
  split.
  { rewrite (sb2_remove_row_eq s3 otid row ot Hot3 Hoko Hrow). reflexivity. }
  split.
  { reflexivity. }
  split.
  { apply sb2_ot_facts_remove; assumption. }
  destruct Hmeta3 as (M1 & M2 & M3 & M4 & M5 & M6).
  split; [assumption|]. split; [lia|]. split; [repeat split; congruence|].
  split.
  { unfold row_ent in *. rewrite Hents3. exact Hent2. }
  split.
  { intros r Hr. split.
    - unfold row_ent in *. rewrite Hents3. apply He2. assumption.
    - intros ci. rewrite Hcell3 by lia. apply Hc2. assumption. }
  intros c ni Eni. rewrite <- G1 in Eni. rewrite (Hcopy3 c ni Eni).
  destruct (memb c (t_ids ot) && mk_get (a_mask na) c)%bool; [reflexivity|]. apply Hz2.
Qed.
End sb2_move.

(** *** Re-establishing the invariant after tables and index were rewritten *)
Lemma sb2_loc_st : forall s T I x,
  loc (sb2_st s T I) x = match nth_error I (fst x) with Some (Some tid, r) => Some (tid, r) | _ => None end.
Proof. reflexivity. Qed.

Lemma sb2_St_reindex : forall s T' I',
  St s ->
  (forall tid t', nth_error T' tid = Some t' ->
     tbl_ok t' /\ exists t, nth_error (w_tables s) tid = Some t /\ sb2_meta t t') ->
  (forall tid t, nth_error (w_tables s) tid = Some t -> exists t', nth_error T' tid = Some t' /\ sb2_meta t t') ->
  length I' = length (w_index s) ->
  (forall tid t' r, nth_error T' tid = Some t' -> r < t_len t' ->
     nth_error I' (fst (row_ent t' r)) = Some (Some tid, r) /\
     nth_error (pe (w_pool s)) (fst (row_ent t' r)) = Some (row_ent t' r)) ->
  (forall id tid r, nth_error I' id = Some (Some tid, r) ->
     exists t', nth_error T' tid = Some t' /\ r < t_len t' /\ fst (row_ent t' r) = id) ->
  (forall id r, nth_error (w_index s) id = Some (None, r) -> nth_error I' id = Some (None, r)) ->
  (forall id tid r, nth_error (w_index s) id = Some (Some tid, r) ->
     exists tid' r', nth_error I' id = Some (Some tid', r')) ->
  St (sb2_st s T' I').
Proof.
  intros s T' I' [HW HN] HT1 HT2 HIl Hrows Hindex Hnone Hsome. split.
  - constructor.
    + apply Forall_nth_error. intros i x E. change (nth_error T' i = Some x) in E. apply (HT1 _ _ E).
    + intros tid t' E. change (nth_error T' tid = Some t') in E.
      destruct (HT1 _ _ E) as (_ & t & Et & M).
      destruct (wf_layout _ HW _ _ Et) as (a & Ha & Hids & Hk & Hl).
      destruct M as (M1 & M2 & M3 & M4 & M5 & M6). exists a.
      change (w_archs (sb2_st s T' I')) with (w_archs s).
      change (kind_of (sb2_st s T' I')) with (kind_of s).
      rewrite M1, M2, M3, M4. auto.
    + exact (wf_arch_comps _ HW).
    + exact (wf_arch_unique _ HW).
    + intros aid a tid Ha Hin. destruct (wf_arch_tables _ HW aid a tid Ha Hin) as (t & Et & Harch).
      destruct (HT2 _ _ Et) as (t' & Et' & M). exists t'. split; [exact Et'|]. destruct M; congruence.
    + exact (wf_arch_norel_table _ HW).
    + destruct (wf_arch0 _ HW) as (a0 & Ha0 & Hm0 & t0 & Et0 & Harch0).
      exists a0. split; [exact Ha0|]. split; [exact Hm0|].
      destruct (HT2 _ _ Et0) as (t' & Et' & M). exists t'. split; [exact Et'|]. destruct M; congruence.
    + exact (wf_index_lists _ HW).
    + destruct (wf_index_len _ HW) as (A & B). split.
      * change (length I' = length (pe (w_pool s))). congruence.
      * change (length (w_istarget s) = length I'). congruence.
    + intros tid t r E Hr. change (nth_error T' tid = Some t) in E.
      destruct (Hrows _ _ _ E Hr) as (A & B). split; [apply sb2_loc_iff; exact A | exact B].
    + exact Hindex.
    + destruct (wf_pool _ HW) as (fl & Hp & Hfl1 & Hfl2). exists fl. split; [exact Hp|]. split.
      * intros i Hi. destruct (Hfl1 i Hi) as (r & Er). exists r. apply Hnone. exact Er.
      * intros i Hi Hn. destruct (Hfl2 i Hi Hn) as (tid & r & Er). apply (Hsome _ _ _ Er).
    + destruct (wf_reserved _ HW) as ((r0 & E0) & (r1 & E1) & P0 & P1).
      split; [exists r0; apply Hnone; exact E0|]. split; [exists r1; apply Hnone; exact E1|].
      split; assumption.
    + exact (wf_small _ HW).
    + exact (wf_cache _ HW).
  - destruct HN as (N1 & N2 & N3 & N4). split; [exact N1|]. split; [|split; [exact N3 | exact N4]].
    intros tid t' E. change (nth_error T' tid = Some t') in E.
    destruct (HT1 _ _ E) as (_ & t & Et & M). destruct (N2 _ _ Et).
    destruct M as (M1 & M2 & M3 & M4 & M5 & M6). split; congruence.
Qed.

Lemma sb2_live_at : forall s x tid r t, loc s x = Some (tid, r) -> nth_error (w_tables s) tid = Some t ->
  live s x = (Nat.ltb r (t_len t) && ent_eqb (row_ent t r) x)%bool /\
  forall c, value_of s x c = match tbl_colidx t c with Some ci => Some (cell t ci r) | None => None end.
Proof. intros s x tid r t Hl Ht. unfold live, value_of. rewrite Hl, Ht. auto. Qed.

Lemma sb2_live_none : forall s x, loc s x = None -> live s x = false /\ forall c, value_of s x c = None.
Proof. intros s x Hl. unfold live, value_of. rewrite Hl. auto. Qed.

Lemma sb2_same_at : forall s s' x, live s' x = live s x -> (forall c, value_of s' x c = value_of s x c) ->
  live s' x = live s x /\ forall c, val s' x c = val s x c.
Proof. intros s s' x H1 H2. split; auto. intros c. unfold val. rewrite H1, H2. reflexivity. Qed.

(** *** The move of one row: post-conditions *)
Section sb2_post.
Variables (s : W) (e : ent) (otid row ntid : nat) (ot nt : table) (oa na : arch) (ot' nt3 : table).
Hypothesis HSt : St s.
Hypothesis Hlive : live s e = true.
Hypothesis Hloc : loc s e = Some (otid, row).
Hypothesis Hot : nth_error (w_tables s) otid = Some ot.
Hypothesis Hnt : nth_error (w_tables s) ntid = Some nt.
Hypothesis Hoa : nth_error (w_archs s) (t_arch ot) = Some oa.
Hypothesis Hna : nth_error (w_archs s) (t_arch nt) = Some na.
Hypothesis Hmask : a_mask oa <> a_mask na.
Hypothesis Fo : sb2_ot_facts ot ot' row.
Hypothesis Fn : sb2_nt_facts (a_mask na) ot nt nt3 row e.

Local Notation T' := (sb2_T' s otid ntid ot' nt3).
Local Notation I' := (sb2_I' s e ntid row ot nt).
Local Notation se := (row_ent ot (t_len ot - 1)).
Local Notation sw := (negb (Nat.eqb row (t_len ot - 1))).
Local Notation s' := (sb2_st s T' I').

Lemma sb2_p_ne : otid <> ntid.
Proof. exact (sb2_mv_ne _ _ _ _ _ _ _ _ _ Hloc Hot Hnt Hoa Hna Hmask). Qed.

Lemma sb2_p_row : row < t_len ot /\ row_ent ot row = e.
Proof. exact (sb2_mv_row _ _ _ _ _ Hlive Hloc Hot). Qed.

Lemma sb2_p_T : forall tid, nth_error T' tid =
  if Nat.eqb otid tid then Some ot' else if Nat.eqb ntid tid then Some nt3 else nth_error (w_tables s) tid.
Proof.
  intros tid. pose proof sb2_p_ne as Hne. unfold sb2_T'. rewrite !nth_error_upd.
  destruct (Nat.eqb_spec otid tid) as [<-|H1].
  - destruct (Nat.eqb_spec ntid otid); [congruence|]. rewrite Hot. reflexivity.
  - destruct (Nat.eqb_spec ntid tid) as [<-|H2]; [rewrite Hnt|]; reflexivity.
Qed.

Lemma sb2_p_Ie : nth_error (w_index s) (fst e) = Some (Some otid, row).
Proof. apply sb2_loc_iff. exact Hloc. Qed.

Lemma sb2_p_Ise : nth_error (w_index s) (fst se) = Some (Some otid, t_len ot - 1).
Proof.
  destruct sb2_p_row as (Hr & _). apply sb2_loc_iff.
  apply (wf_rows _ (proj1 HSt) _ _ _ Hot). lia.
Qed.

Lemma sb2_p_I : forall id, nth_error I' id =
  if Nat.eqb (fst e) id then Some (Some ntid, t_len nt)
  else if (sw && Nat.eqb (fst se) id)%bool then Some (Some otid, row) else nth_error (w_index s) id.
Proof.
  intros id. pose proof sb2_p_Ie as Ie. pose proof sb2_p_Ise as Ise.
  unfold sb2_I'. rewrite nth_error_upd. destruct (Nat.eqb_spec (fst e) id) as [<-|H1].
  - destruct (Nat.eqb row (t_len ot - 1)); [rewrite Ie; reflexivity|].
    rewrite nth_error_updf. destruct (Nat.eqb (fst se) (fst e)); rewrite Ie; reflexivity.
  - destruct (Nat.eqb row (t_len ot - 1)); cbn [negb andb]; [reflexivity|].
    rewrite nth_error_updf. destruct (Nat.eqb_spec (fst se) id) as [<-|H2]; [|reflexivity].
    rewrite Ise. reflexivity.
Qed.

(** IDs of other rows differ from the IDs of [e] and of the swapped entity. *)
Lemma sb2_p_ne_e : forall tid t r, nth_error (w_tables s) tid = Some t -> r < t_len t ->
  (tid <> otid \/ r <> row) -> Nat.eqb (fst e) (fst (row_ent t r)) = false.
Proof.
  intros tid t r Ht Hr Hor. destruct sb2_p_row as (Hrow & Hent).
  destruct (Nat.eqb_spec (fst e) (fst (row_ent t r))) as [Heq|]; [|reflexivity].
  rewrite <- Hent in Heq.
  destruct (sb2_row_inj _ _ _ _ _ _ _ (proj1 HSt) Hot Hrow Ht Hr Heq). destruct Hor; congruence.
Qed.

Lemma sb2_p_ne_se : forall tid t r, nth_error (w_tables s) tid = Some t -> r < t_len t ->
  (tid <> otid \/ r <> t_len ot - 1) -> Nat.eqb (fst se) (fst (row_ent t r)) = false.
Proof.
  intros tid t r Ht Hr Hor. destruct sb2_p_row as (Hrow & Hent).
  destruct (Nat.eqb_spec (fst se) (fst (row_ent t r))) as [Heq|]; [|reflexivity].
  assert (Hl : t_len ot - 1 < t_len ot) by lia.
  destruct (sb2_row_inj _ _ _ _ _ _ _ (proj1 HSt) Hot Hl Ht Hr Heq). destruct Hor; congruence.
Qed.

Lemma sb2_p_St : St s'.
Proof.
  pose proof (proj1 HSt) as HW. pose proof sb2_p_ne as Hne. destruct sb2_p_row as (Hrow & Hent).
  destruct Fo as (Oo & Lo & Mo & Swo & Resto).
  destruct Fn as (On & Ln & Mn & En & Restn & _).
  apply sb2_St_reindex; auto.
  - intros tid t' E. rewrite sb2_p_T in E.
    destruct (Nat.eqb_spec otid tid) as [<-|H1]; [inversion E; subst t'; eauto|].
    destruct (Nat.eqb_spec ntid tid) as [<-|H2]; [inversion E; subst t'; eauto|].
    split; [eapply sb2_table_ok; eauto|]. exists t'. split; [assumption|apply sb2_meta_refl].
  - intros tid t E. rewrite sb2_p_T.
    destruct (Nat.eqb_spec otid tid) as [<-|H1]; [rewrite Hot in E; inversion E; subst t; eauto|].
    destruct (Nat.eqb_spec ntid tid) as [<-|H2]; [rewrite Hnt in E; inversion E; subst t; eauto|].
    exists t. split; [assumption|apply sb2_meta_refl].
  - unfold sb2_I'. rewrite upd_length. destruct (Nat.eqb row (t_len ot - 1)); [reflexivity|apply updf_length].
  - intros tid t' r E Hr. rewrite sb2_p_T in E. rewrite sb2_p_I.
    destruct (Nat.eqb_spec otid tid) as [<-|H1].
    { inversion E; subst t'; clear E. rewrite Lo in Hr.
      destruct (Nat.eq_dec r row) as [->|Hrr].
      - destruct (Swo Hr) as (Esw & _). rewrite Esw.
        assert (Hl : t_len ot - 1 < t_len ot) by lia.
        rewrite (sb2_p_ne_e otid ot (t_len ot - 1) Hot Hl) by lia.
        destruct (Nat.eqb_spec row (t_len ot - 1)); [lia|]. rewrite Nat.eqb_refl. cbn [negb andb].
        split; [reflexivity|]. apply (wf_rows _ HW _ _ _ Hot Hl).
      - destruct (Resto r Hr Hrr) as (Er & _). rewrite Er.
        assert (Hl : r < t_len ot) by lia.
        rewrite (sb2_p_ne_e otid ot r Hot Hl) by lia.
        rewrite (sb2_p_ne_se otid ot r Hot Hl) by lia. rewrite andb_false_r.
        destruct (wf_rows _ HW _ _ _ Hot Hl) as (A & B). split; [apply sb2_loc_iff; exact A|exact B]. }
    destruct (Nat.eqb_spec ntid tid) as [<-|H2].
    { inversion E; subst t'; clear E. rewrite Ln in Hr.
      destruct (Nat.eq_dec r (t_len nt)) as [->|Hrr].
      - rewrite En, Nat.eqb_refl. split; [reflexivity|].
        rewrite <- Hent. apply (wf_rows _ HW _ _ _ Hot Hrow).
      - assert (Hl : r < t_len nt) by lia. destruct (Restn r Hl) as (Er & _). rewrite Er.
        rewrite (sb2_p_ne_e ntid nt r Hnt Hl) by (left; congruence).
        rewrite (sb2_p_ne_se ntid nt r Hnt Hl) by (left; congruence). rewrite andb_false_r.
        destruct (wf_rows _ HW _ _ _ Hnt Hl) as (A & B). split; [apply sb2_loc_iff; exact A|exact B]. }
    rewrite (sb2_p_ne_e tid t' r E Hr) by (left; congruence).
    rewrite (sb2_p_ne_se tid t' r E Hr) by (left; congruence). rewrite andb_false_r.
    destruct (wf_rows _ HW _ _ _ E Hr) as (A & B). split; [apply sb2_loc_iff; exact A|exact B].
  - intros id tid r E. rewrite sb2_p_I in E.
    destruct (Nat.eqb_spec (fst e) id) as [<-|H1].
    { inversion E; subst tid r. exists nt3. rewrite sb2_p_T.
      destruct (Nat.eqb_spec otid ntid); [congruence|]. rewrite Nat.eqb_refl.
      split; [reflexivity|]. split; [lia|]. rewrite En. reflexivity. }
    destruct (Nat.eqb_spec row (t_len ot - 1)) as [Hlast|Hlast]; cbn [negb andb] in E.
    + destruct (wf_index _ HW _ _ _ E) as (t & Et & Hr & Hid).
      rewrite sb2_p_T. destruct (Nat.eqb_spec otid tid) as [<-|H3].
      { rewrite Hot in Et. inversion Et; subst t.
        assert (r <> row) by (intros ->; rewrite Hent in Hid; congruence).
        assert (Hl : r < t_len ot - 1) by lia.
        exists ot'. split; [reflexivity|]. split; [lia|].
        destruct (Resto r Hl H) as (Er & _). rewrite Er. assumption. }
      destruct (Nat.eqb_spec ntid tid) as [<-|H4].
      { rewrite Hnt in Et. inversion Et; subst t. exists nt3. split; [reflexivity|]. split; [lia|].
        destruct (Restn r Hr) as (Er & _). rewrite Er. assumption. }
      exists t. auto.
    + destruct (Nat.eqb_spec (fst se) id) as [<-|H2].
      { inversion E; subst tid r. exists ot'. rewrite sb2_p_T, Nat.eqb_refl.
        split; [reflexivity|]. assert (Hl : row < t_len ot - 1) by lia. split; [lia|].
        destruct (Swo Hl) as (Er & _). rewrite Er. reflexivity. }
      destruct (wf_index _ HW _ _ _ E) as (t & Et & Hr & Hid).
      rewrite sb2_p_T. destruct (Nat.eqb_spec otid tid) as [<-|H3].
      { rewrite Hot in Et. inversion Et; subst t.
        assert (r <> row) by (intros ->; rewrite Hent in Hid; congruence).
        assert (r <> t_len ot - 1) by (intros ->; congruence).
        assert (Hl : r < t_len ot - 1) by lia.
        exists ot'. split; [reflexivity|]. split; [lia|].
        destruct (Resto r Hl H) as (Er & _). rewrite Er. assumption. }
      destruct (Nat.eqb_spec ntid tid) as [<-|H4].
      { rewrite Hnt in Et. inversion Et; subst t. exists nt3. split; [reflexivity|]. split; [lia|].
        destruct (Restn r Hr) as (Er & _). rewrite Er. assumption. }
      exists t. auto.
  - intros id r E. rewrite sb2_p_I.
    destruct (Nat.eqb_spec (fst e) id) as [<-|H1]; [rewrite sb2_p_Ie in E; discriminate|].
    destruct (Nat.eqb_spec (fst se) id) as [<-|H2]; [rewrite sb2_p_Ise in E; discriminate|].
    rewrite andb_false_r. exact E.
  - intros id tid r E. rewrite sb2_p_I.
    destruct (Nat.eqb (fst e) id); [eauto|]. destruct (sw && Nat.eqb (fst se) id)%bool; eauto.
Qed.

Lemma sb2_p_loc_e : loc s' e = Some (ntid, t_len nt) /\ nth_error (w_tables s') ntid = Some nt3.
Proof.
  split.
  - apply sb2_loc_iff. change (w_index s') with I'. rewrite sb2_p_I, Nat.eqb_refl. reflexivity.
  - change (w_tables s') with T'. rewrite sb2_p_T. pose proof sb2_p_ne.
    destruct (Nat.eqb_spec otid ntid); [congruence|]. rewrite Nat.eqb_refl. reflexivity.
Qed.

Lemma sb2_p_live : live s' e = true.
Proof.
  destruct sb2_p_loc_e as (L & T). destruct Fn as (On & Ln & Mn & En & _).
  eapply sb2_live_intro; eauto. lia.
Qed.

Lemma sb2_p_val : forall c, val s' e c =
  if mk_get (a_mask na) c then (if mk_get (a_mask oa) c then val s e c else Some 0%Z) else None.
Proof.
  intros c. pose proof (proj1 HSt) as HW. destruct sb2_p_row as (Hrow & Hent).
  destruct sb2_p_loc_e as (L & T). destruct Fn as (On & Ln & Mn & En & Restn & Hcopy).
  destruct (sb2_live_at _ _ _ _ _ L T) as (_ & V'). destruct (sb2_live_at _ _ _ _ _ Hloc Hot) as (_ & V).
  unfold val. rewrite sb2_p_live, Hlive, V', V.
  destruct Mn as (_ & Mids & _). unfold tbl_colidx. rewrite Mids.
  destruct (sb2_colidx_mask _ _ _ _ c HW Hnt Hna) as (Cn1 & Cn0).
  destruct (sb2_colidx_mask _ _ _ _ c HW Hot Hoa) as (Co1 & Co0).
  unfold tbl_colidx in *.
  destruct (mk_get (a_mask na) c) eqn:Emn.
  - destruct (Cn1 eq_refl) as (ni & Eni). rewrite Eni. rewrite (Hcopy c ni Eni). rewrite Emn.
    destruct (mk_get (a_mask oa) c) eqn:Emo.
    + destruct (Co1 eq_refl) as (oi & Eoi). unfold memb. rewrite Eoi. reflexivity.
    + unfold memb. rewrite (Co0 eq_refl). reflexivity.
  - rewrite (Cn0 eq_refl). reflexivity.
Qed.

Lemma sb2_p_others : others_same s s' e.
Proof.
  intros x Hx. pose proof (proj1 HSt) as HW. pose proof sb2_p_ne as Hne. destruct sb2_p_row as (Hrow & Hent).
  destruct Fo as (Oo & Lo & Mo & Swo & Resto).
  destruct Fn as (On & Ln & Mn & En & Restn & _).
  assert (Hcol_o : forall c, tbl_colidx ot' c = tbl_colidx ot c).
  { intros c. unfold tbl_colidx. destruct Mo as (_ & -> & _). reflexivity. }
  assert (Hcol_n : forall c, tbl_colidx nt3 c = tbl_colidx nt c).
  { intros c. unfold tbl_colidx. destruct Mn as (_ & -> & _). reflexivity. }
  assert (To : nth_error (w_tables s') otid = Some ot').
  { change (w_tables s') with T'. rewrite sb2_p_T, Nat.eqb_refl. reflexivity. }
  assert (Tn : nth_error (w_tables s') ntid = Some nt3) by apply sb2_p_loc_e.
  pose proof (sb2_p_I (fst x)) as HI.
  destruct (Nat.eqb_spec (fst e) (fst x)) as [Hfe|Hfe].
  { (* same ID as e, other generation: not live before or after *)
    assert (L' : loc s' x = Some (ntid, t_len nt)) by (apply sb2_loc_iff; exact HI).
    assert (L : loc s x = Some (otid, row)) by (apply sb2_loc_iff; rewrite <- Hfe; apply sb2_p_Ie).
    destruct (sb2_live_at _ _ _ _ _ L' Tn) as (A' & _). destruct (sb2_live_at _ _ _ _ _ L Hot) as (A & _).
    rewrite En in A'. rewrite Hent in A. rewrite (sb2_ent_eqb_ne e x) in A', A by congruence.
    rewrite andb_false_r in A', A. split; [congruence|]. intros c. unfold val. rewrite A', A. reflexivity. }
  destruct (Nat.eqb_spec row (t_len ot - 1)) as [Hlast|Hlast]; cbn [negb andb] in HI.
  - (* no swap *)
    destruct (nth_error (w_index s) (fst x)) as [[[tid|] r]|] eqn:Ex.
    + assert (L' : loc s' x = Some (tid, r)) by (apply sb2_loc_iff; exact HI).
      assert (L : loc s x = Some (tid, r)) by (apply sb2_loc_iff; exact Ex).
      destruct (wf_index _ HW _ _ _ Ex) as (t & Et & Hr & Hid).
      destruct (sb2_live_at _ _ _ _ _ L Et) as (A & V).
      destruct (Nat.eq_dec tid otid) as [->|H3].
      { rewrite Hot in Et. inversion Et; subst t.
        assert (r <> row) by (intros ->; rewrite Hent in Hid; congruence).
        assert (Hl : r < t_len ot - 1) by lia.
        destruct (Resto r Hl H) as (Er & Ec).
        destruct (sb2_live_at _ _ _ _ _ L' To) as (A' & V').
        apply sb2_same_at.
        - rewrite A', A, Er, Lo. destruct (Nat.ltb_spec r (t_len ot - 1)); [|lia].
          destruct (Nat.ltb_spec r (t_len ot)); [|lia]. reflexivity.
        - intros c. rewrite V', V, Hcol_o. destruct (tbl_colidx ot c); [rewrite Ec|]; reflexivity. }
      destruct (Nat.eq_dec tid ntid) as [->|H4].
      { rewrite Hnt in Et. inversion Et; subst t.
        destruct (Restn r Hr) as (Er & Ec).
        destruct (sb2_live_at _ _ _ _ _ L' Tn) as (A' & V').
        apply sb2_same_at.
        - rewrite A', A, Er, Ln. destruct (Nat.ltb_spec r (S (t_len nt))); [|lia].
          destruct (Nat.ltb_spec r (t_len nt)); [|lia]. reflexivity.
        - intros c. rewrite V', V, Hcol_n. destruct (tbl_colidx nt c); [rewrite Ec|]; reflexivity. }
      assert (Et' : nth_error (w_tables s') tid = Some t).
      { change (w_tables s') with T'. rewrite sb2_p_T.
        destruct (Nat.eqb_spec otid tid); [congruence|]. destruct (Nat.eqb_spec ntid tid); [congruence|]. exact Et. }
      destruct (sb2_live_at _ _ _ _ _ L' Et') as (A' & V').
      apply sb2_same_at; [congruence|]. intros c. rewrite V', V. reflexivity.
    + assert (L' : loc s' x = None) by (rewrite sb2_loc_st, HI; reflexivity).
      assert (L : loc s x = None) by (unfold loc; rewrite Ex; reflexivity).
      destruct (sb2_live_none _ _ L') as (A' & V'). destruct (sb2_live_none _ _ L) as (A & V).
      apply sb2_same_at; [congruence|]. intros c. rewrite V', V. reflexivity.
    + assert (L' : loc s' x = None) by (rewrite sb2_loc_st, HI; reflexivity).
      assert (L : loc s x = None) by (unfold loc; rewrite Ex; reflexivity).
      destruct (sb2_live_none _ _ L') as (A' & V'). destruct (sb2_live_none _ _ L) as (A & V).
      apply sb2_same_at; [congruence|]. intros c. rewrite V', V. reflexivity.
  - (* swap *)
    destruct (Nat.eqb_spec (fst se) (fst x)) as [Hfs|Hfs].
    { assert (L' : loc s' x = Some (otid, row)) by (apply sb2_loc_iff; exact HI).
      assert (L : loc s x = Some (otid, t_len ot - 1)) by (apply sb2_loc_iff; rewrite <- Hfs; apply sb2_p_Ise).
      assert (Hl : row < t_len ot - 1) by lia. destruct (Swo Hl) as (Er & Ec).
      destruct (sb2_live_at _ _ _ _ _ L' To) as (A' & V'). destruct (sb2_live_at _ _ _ _ _ L Hot) as (A & V).
      apply sb2_same_at.
      - rewrite A', A, Er, Lo. destruct (Nat.ltb_spec row (t_len ot - 1)); [|lia].
        destruct (Nat.ltb_spec (t_len ot - 1) (t_len ot)); [|lia]. reflexivity.
      - intros c. rewrite V', V, Hcol_o. destruct (tbl_colidx ot c); [rewrite Ec|]; reflexivity. }
    destruct (nth_error (w_index s) (fst x)) as [[[tid|] r]|] eqn:Ex.
    + assert (L' : loc s' x = Some (tid, r)) by (apply sb2_loc_iff; exact HI).
      assert (L : loc s x = Some (tid, r)) by (apply sb2_loc_iff; exact Ex).
      destruct (wf_index _ HW _ _ _ Ex) as (t & Et & Hr & Hid).
      destruct (sb2_live_at _ _ _ _ _ L Et) as (A & V).
      destruct (Nat.eq_dec tid otid) as [->|H3].
      { rewrite Hot in Et. inversion Et; subst t.
        assert (r <> row) by (intros ->; rewrite Hent in Hid; congruence).
        assert (r <> t_len ot - 1) by (intros ->; congruence).
        assert (Hl : r < t_len ot - 1) by lia.
        destruct (Resto r Hl H) as (Er & Ec).
        destruct (sb2_live_at _ _ _ _ _ L' To) as (A' & V').
        apply sb2_same_at.
        - rewrite A', A, Er, Lo. destruct (Nat.ltb_spec r (t_len ot - 1)); [|lia].
          destruct (Nat.ltb_spec r (t_len ot)); [|lia]. reflexivity.
        - intros c. rewrite V', V, Hcol_o. destruct (tbl_colidx ot c); [rewrite Ec|]; reflexivity. }
      destruct (Nat.eq_dec tid ntid) as [->|H4].
      { rewrite Hnt in Et. inversion Et; subst t.
        destruct (Restn r Hr) as (Er & Ec).
        destruct (sb2_live_at _ _ _ _ _ L' Tn) as (A' & V').
        apply sb2_same_at.
        - rewrite A', A, Er, Ln. destruct (Nat.ltb_spec r (S (t_len nt))); [|lia].
          destruct (Nat.ltb_spec r (t_len nt)); [|lia]. reflexivity.
        - intros c. rewrite V', V, Hcol_n. destruct (tbl_colidx nt c); [rewrite Ec|]; reflexivity. }
      assert (Et' : nth_error (w_tables s') tid = Some t).
      { change (w_tables s') with T'. rewrite sb2_p_T.
        destruct (Nat.eqb_spec otid tid); [congruence|]. destruct (Nat.eqb_spec ntid tid); [congruence|]. exact Et. }
      destruct (sb2_live_at _ _ _ _ _ L' Et') as (A' & V').
      apply sb2_same_at; [congruence|]. intros c. rewrite V', V. reflexivity.
    + assert (L' : loc s' x = None) by (rewrite sb2_loc_st, HI; reflexivity).
      assert (L : loc s x = None) by (unfold loc; rewrite Ex; reflexivity).
      destruct (sb2_live_none _ _ L') as (A' & V'). destruct (sb2_live_none _ _ L) as (A & V).
      apply sb2_same_at; [congruence|]. intros c. rewrite V', V. reflexivity.
    + assert (L' : loc s' x = None) by (rewrite sb2_loc_st, HI; reflexivity).
      assert (L : loc s x = None) by (unfold loc; rewrite Ex; reflexivity).
      destruct (sb2_live_none _ _ L') as (A' & V'). destruct (sb2_live_none _ _ L) as (A & V).
      apply sb2_same_at; [congruence|]. intros c. rewrite V', V. reflexivity.
Qed.

End sb2_post.

(** *** The core lemma: moving the row of [e] from table [otid] to table [ntid] *)
Lemma sb2_move_row : forall s0 s e otid row ntid ot nt oa na,
  content_same s0 s ->
  St s -> room s -> live s e = true -> loc s e = Some (otid, row) ->
  nth_error (w_tables s) otid = Some ot -> nth_error (w_tables s) ntid = Some nt ->
  nth_error (w_archs s) (t_arch ot) = Some oa -> nth_error (w_archs s) (t_arch nt) = Some na ->
  a_mask oa <> a_mask na ->
  exists s2 s3 s4 s',
    tbl_addM ntid e s = Ok (t_len nt) s2 /\
    copy_row otid ntid (a_mask na) row (t_len nt) s2 = Ok tt s3 /\
    remove_row otid row s3 = Ok tt s4 /\
    set_index_direct e ntid (t_len nt) s4 = Ok tt s' /\
    St s' /\ live s' e = true /\
    (forall c, val s' e c = if mk_get (a_mask na) c
                            then (if mk_get (a_mask oa) c then val s0 e c else Some 0%Z) else None) /\
    others_same s0 s' e /\ w_pool s' = w_pool s /\ side_same s s' /\ frame_user s s' /\
    w_archs s' = w_archs s.
Proof.
  intros s0 s e otid row ntid ot nt oa na Hcs HSt Hroom Hlive Hloc Hot Hnt Hoa Hna Hmask.
  destruct (sb2_mv_exec s e otid row ntid ot nt oa na HSt Hroom Hlive Hloc Hot Hnt Hoa Hna Hmask)
    as (nt3 & s2 & s3 & s4 & E1 & E2 & E3 & E4 & Fo & Fn).
  exists s2, s3, s4. eexists. split; [exact E1|]. split; [exact E2|]. split; [exact E3|]. split; [exact E4|].
  split; [eapply sb2_p_St; eauto|].
  split; [eapply sb2_p_live; eauto|].
  split.
  { intros c. erewrite sb2_p_val by eauto. destruct (Hcs e) as (_ & Hv). rewrite Hv. reflexivity. }
  split.
  { intros x Hx. destruct (sb2_p_others s e otid row ntid ot nt oa na _ nt3 HSt Hlive Hloc Hot Hnt Hoa Hna Hmask Fo Fn x Hx)
      as (A & B). destruct (Hcs x) as (A0 & B0). split; [congruence|]. intros c. rewrite B, B0. reflexivity. }
  split; [reflexivity|]. split; [repeat split|]. split; [repeat split|]. reflexivity.
Qed.

(** *** Small facts used by the three operations *)
Lemma sb2_bind_get : forall B (k : W -> MW B) s, bind get k s = k s s.
Proof. reflexivity. Qed.
Lemma sb2_bind_ret : forall A B (a : A) (k : A -> MW B) s, bind (ret a) k s = k a s.
Proof. reflexivity. Qed.

Lemma sb2_check_locked_ok : forall s, is_locked s = false -> check_locked s = Ok tt s.
Proof. intros s H. unfold check_locked, bind, get. rewrite H. reflexivity. Qed.
Lemma sb2_check_locked_err : forall s, is_locked s = true -> check_locked s = Err ELocked s.
Proof. intros s H. unfold check_locked, bind, get. rewrite H. reflexivity. Qed.

Lemma sb2_get_index_ok : forall s e t r, nth_error (w_index s) (fst e) = Some (Some t, r) ->
  get_index e s = Ok (t, r) s.
Proof. intros s e t r H. unfold get_index, bind, get. rewrite H. reflexivity. Qed.

Lemma sb2_get_index_err : forall s e, (forall t r, nth_error (w_index s) (fst e) <> Some (Some t, r)) ->
  get_index e s = Err EIndex s.
Proof.
  intros s e H. unfold get_index, bind, get.
  destruct (nth_error (w_index s) (fst e)) as [[[t|] r]|]; try reflexivity. exfalso. eapply H; eauto.
Qed.

Lemma sb2_arch_mask_ok : forall s tid t a, nth_error (w_tables s) tid = Some t ->
  nth_error (w_archs s) (t_arch t) = Some a -> arch_mask_of_table tid s = Ok (a_mask a) s.
Proof.
  intros s tid t a Ht Ha. unfold arch_mask_of_table.
  erewrite sb2_bind_ok by (apply sb2_getT; eassumption).
  erewrite sb2_bind_ok by (apply sb2_getA; eassumption). reflexivity.
Qed.

Lemma sb2_content_refl : forall s, content_same s s.
Proof. intros s x. auto. Qed.

Lemma sb2_content_trans : forall a b c, content_same a b -> content_same b c -> content_same a c.
Proof.
  intros a b c H1 H2 x. destruct (H1 x) as (A1 & B1). destruct (H2 x) as (A2 & B2).
  split; [congruence|]. intros k. rewrite B2, B1. reflexivity.
Qed.

Lemma sb2_frame_refl : forall s, frame_user s s.
Proof. intros; repeat split. Qed.
Lemma sb2_frame_trans : forall a b c, frame_user a b -> frame_user b c -> frame_user a c.
Proof.
  intros a b c (A1 & A2 & A3 & A4 & A5 & A6) (B1 & B2 & B3 & B4 & B5 & B6). repeat split; congruence.
Qed.
Lemma sb2_side_refl : forall s, side_same s s.
Proof. intros; repeat split. Qed.
Lemma sb2_side_trans : forall a b c, side_same a b -> side_same b c -> side_same a c.
Proof.
  intros a b c (A1 & A2 & A3 & A4 & A5 & A6 & A7 & A8) (B1 & B2 & B3 & B4 & B5 & B6 & B7 & B8).
  repeat split; congruence.
Qed.

Lemma sb2_rejected_refl : forall s, St s -> rejected s s.
Proof. intros s H. split; [assumption|]. split; [apply sb2_content_refl|]. split; [reflexivity|apply sb2_frame_refl]. Qed.

Lemma sb2_storage_refl : forall s, storage_same s s.
Proof. intros; repeat split. Qed.

Lemma sb2_storage_same_content : forall s s', WF s -> storage_same s s' -> content_same s s'.
Proof. intros s s' HW H. apply same_rows_content; [assumption|]. apply storage_same_rows. assumption. Qed.

Lemma sb2_storage_frame : forall s s', storage_same s s' -> frame_user s s'.
Proof.
  intros s s' H. unfold storage_same in H. unfold frame_user. tauto.
Qed.

(** The state before the move: reached from [s] by structure creation and callbacks. *)
Definition sb2_pre (s s1 : W) : Prop :=
  St s1 /\ content_same s s1 /\ w_pool s1 = w_pool s /\ frame_user s s1 /\ w_index s1 = w_index s /\
  (forall tid t, nth_error (w_tables s) tid = Some t ->
     exists t', nth_error (w_tables s1) tid = Some t' /\ t_arch t' = t_arch t) /\
  (forall aid a, nth_error (w_archs s) aid = Some a ->
     exists a', nth_error (w_archs s1) aid = Some a' /\ a_mask a' = a_mask a).

Lemma sb2_pre_rows : forall s s1, St s -> St s1 -> same_rows s s1 -> frame_user s s1 -> sb2_pre s s1.
Proof.
  intros s s1 HSt HSt1 Hsr Hfu. pose proof (same_rows_content s s1 (proj1 HSt) Hsr) as Hc.
  destruct Hsr as (R1 & R2 & R3 & R4 & R5 & R6 & R7 & R8).
  split; [assumption|]. split; [assumption|]. split; [assumption|]. split; [assumption|]. split; [assumption|].
  split.
  - intros tid t Ht. destruct (R7 _ _ Ht) as (t' & Ht' & D & _). exists t'. split; [assumption|]. apply D.
  - exact R8.
Qed.

Lemma sb2_pre_storage : forall s s1 s2, sb2_pre s s1 -> storage_same s1 s2 -> sb2_pre s s2.
Proof.
  intros s s1 s2 (P1 & P2 & P3 & P4 & P5 & P6 & P7) Hss.
  pose proof (storage_same_St _ _ Hss P1) as HSt2.
  pose proof (sb2_storage_same_content _ _ (proj1 P1) Hss) as Hc.
  pose proof (sb2_storage_frame _ _ Hss) as Hf.
  destruct Hss as (S1 & S2 & S3 & S4 & S5 & S6 & S7 & _).
  split; [assumption|]. split; [eapply sb2_content_trans; eauto|]. split; [congruence|].
  split; [eapply sb2_frame_trans; eauto|]. split; [congruence|].
  rewrite S6, S7. auto.
Qed.

Lemma sb2_pre_rejected : forall s s1, sb2_pre s s1 -> rejected s s1.
Proof. intros s s1 (P1 & P2 & P3 & P4 & _). split; [exact P1|]. split; [exact P2|]. split; [exact P3|exact P4]. Qed.

Lemma sb2_val_none : forall (v : option Z) b, (v <> None <-> b = true) -> b = false -> v = None.
Proof. intros v b H Hb. destruct v; auto. exfalso. assert (b = true) by (apply H; discriminate). congruence. Qed.

Lemma sb2_nil_not : forall A (l : list A), negb (is_nil l) = true -> l <> [].
Proof. intros A l H ->. discriminate. Qed.

Lemma sb2_bind_guard_true : forall B er (k : unit -> MW B) s, bind (guard true er) k s = k tt s.
Proof. reflexivity. Qed.
Lemma sb2_bind_guard_false : forall B er (k : unit -> MW B) s, bind (guard false er) k s = Err er s.
Proof. reflexivity. Qed.

Ltac sb2_rej_refl :=
  first [ split; [apply sb2_rejected_refl; assumption | apply sb2_side_refl]
        | apply sb2_rejected_refl; assumption ].

(** The common prefix of add / remove / exchange: guards, index lookup, old mask. Introduces
    [Hlk Hal HG otid row Ei Hlive Hloc ot Hot oa Hoa]. *)
Ltac sb2_prefix s e HSt HW G :=
  destruct (is_locked s) eqn:Hlk;
  [ erewrite sb2_bind_err by (apply sb2_check_locked_err; assumption); sb2_rej_refl | ];
  erewrite sb2_bind_ok by (apply sb2_check_locked_ok; assumption); cbv beta;
  rewrite sb2_bind_get; cbv beta;
  destruct (alive s e) eqn:Hal;
  [ | rewrite sb2_bind_guard_false; sb2_rej_refl ];
  rewrite sb2_bind_guard_true;
  destruct G eqn:HG;
  [ | rewrite sb2_bind_guard_false; sb2_rej_refl ];
  rewrite sb2_bind_guard_true;
  destruct (nth_error (w_index s) (fst e)) as [[[otid|] row]|] eqn:Ei;
  [ | erewrite sb2_bind_err by (apply sb2_get_index_err; intros ? ?; rewrite Ei; discriminate); sb2_rej_refl
    | erewrite sb2_bind_err by (apply sb2_get_index_err; intros ? ?; rewrite Ei; discriminate); sb2_rej_refl ];
  erewrite sb2_bind_ok by (apply sb2_get_index_ok; exact Ei); cbv beta iota;
  assert (Hlive : live s e = true) by (eapply sb2_alive_index_live; eauto);
  assert (Hloc : loc s e = Some (otid, row)) by (apply sb2_loc_iff; exact Ei);
  destruct (wf_index _ HW _ _ _ Ei) as (ot & Hot & _ & _);
  destruct (wf_layout _ HW _ _ Hot) as (oa & Hoa & _);
  erewrite sb2_bind_ok by (eapply sb2_arch_mask_ok; eassumption); cbv beta.

(** add: the entity gains the components with zero values, keeps all others; nobody else changes. *)
Lemma w_add_spec : forall s e add, St s -> room s -> registered s add ->
  match w_add e add [] s with
  | Ok (om, nm) s' =>
      St s' /\ is_locked s = false /\ live s e = true /\ add <> [] /\ NoDup add /\
      (forall c, In c add -> val s e c = None) /\
      live s' e = true /\
      (forall c, val s' e c = if memb c add then Some 0%Z else val s e c) /\
      (forall c, mk_get om c = true <-> val s e c <> None) /\ (forall c, mk_get nm c = true <-> val s' e c <> None) /\
      others_same s s' e /\ w_pool s' = w_pool s /\ side_same s s' /\ frame_user s s'
  | Err _ s' => rejected s s' /\ side_same s s'
  end.
Proof.
  intros s e add HSt Hroom Hreg. pose proof (proj1 HSt) as HW. unfold w_add.
  sb2_prefix s e HSt HW (negb (is_nil add)).
  destruct (sb2_layout _ _ _ _ HW Hot Hoa) as (_ & _ & Hlt).
  pose proof (find_or_create_table_add_spec s otid ot add (a_mask oa) HSt Hot Hlt Hreg) as Hf.
  destruct (find_or_create_table_add otid add [] (a_mask oa) s) as [[[ntid naid] m] s1|er s1] eqn:Ef.
  2:{ erewrite sb2_bind_err by exact Ef. destruct Hf as ((F1 & F2 & F3 & F4) & _).
      split; [|assumption]. apply sb2_pre_rejected. apply sb2_pre_rows; assumption. }
  erewrite sb2_bind_ok by exact Ef. cbv beta iota.
  destruct Hf as ((HSt1 & Hsr & Hss & Hfu & nt & na & Hnt & Hnaid & Hna & Hm) & Hmk & Hnd & Hdis).
  destruct (sb2_pre_rows s s1 HSt HSt1 Hsr Hfu) as (_ & Hcs & Hpool & _ & Hidx & HT & HA).
  destruct (HT _ _ Hot) as (ot1 & Hot1 & Harch1). destruct (HA _ _ Hoa) as (oa1 & Hoa1 & Hmask1).
  rewrite <- Harch1 in Hoa1. subst naid m.
  assert (Hlive1 : live s1 e = true) by (destruct (Hcs e) as (L & _); rewrite L; exact Hlive).
  assert (Hloc1 : loc s1 e = Some (otid, row)) by (apply sb2_loc_iff; rewrite Hidx; exact Ei).
  assert (Hroom1 : room s1) by (unfold room; rewrite Hpool; exact Hroom).
  assert (Hadd : add <> []) by (apply sb2_nil_not; exact HG).
  assert (Hmne : a_mask oa1 <> a_mask na).
  { rewrite Hmask1. intros Heq. destruct add as [|c add']; [congruence|].
    specialize (Hmk c). rewrite <- Heq, (Hdis c (or_introl eq_refl)), sb2_memb_cons, Nat.eqb_refl in Hmk.
    discriminate. }
  destruct (sb2_move_row s s1 e otid row ntid ot1 nt oa1 na Hcs HSt1 Hroom1 Hlive1 Hloc1 Hot1 Hnt Hoa1 Hna Hmne)
    as (s2 & s3 & s4 & s' & E1 & E2 & E3 & E4 & HSt' & Hlive' & Hval & Hoth & Hpool' & Hside' & Hfu' & Harchs).
  erewrite sb2_bind_ok by exact E1. erewrite sb2_bind_ok by exact E2.
  erewrite sb2_bind_ok by exact E3. erewrite sb2_bind_ok by exact E4.
  unfold register_targets. cbn [forM_]. rewrite sb2_bind_ret.
  erewrite sb2_bind_ok by (apply sb2_getA; rewrite Harchs; exact Hna).
  unfold ret. rewrite Hmask1 in Hval.
  pose proof (val_defined_iff_mask s e otid row ot oa HW Hlive Hloc Hot Hoa) as Hiff.
  assert (Hval' : forall c, val s' e c = if memb c add then Some 0%Z else val s e c).
  { intros c. rewrite Hval, Hmk. destruct (memb c add) eqn:Ema.
    - rewrite (Hdis c) by (apply sb2_memb_In; exact Ema). rewrite orb_true_r. reflexivity.
    - rewrite orb_false_r. destruct (mk_get (a_mask oa) c) eqn:Emo; [reflexivity|].
      symmetry. apply (sb2_val_none _ _ (Hiff c) Emo). }
  split; [assumption|]. split; [reflexivity|]. split; [assumption|]. split; [assumption|]. split; [assumption|].
  split.
  { intros c Hin. apply (sb2_val_none _ _ (Hiff c)). apply Hdis. assumption. }
  split; [assumption|]. split; [assumption|].
  split.
  { intros c. split; apply Hiff. }
  split.
  { intros c. rewrite Hval, Hmk. destruct (mk_get (a_mask oa) c) eqn:Emo; cbn [orb].
    - split; [intros _; apply Hiff; assumption|reflexivity].
    - destruct (memb c add); split; congruence. }
  split; [assumption|]. split; [congruence|]. split; [eapply sb2_side_trans; eauto|eapply sb2_frame_trans; eauto].
Qed.

(** remove: the entity loses exactly the components, keeps the values of the rest. Removal
    callbacks run before the change (they see the old content) and cannot touch the storage. *)
Lemma w_remove_spec : forall s e rem, St s -> room s -> registered s rem ->
  match w_remove e rem s with
  | Ok _ s' =>
      St s' /\ is_locked s = false /\ live s e = true /\ rem <> [] /\ NoDup rem /\
      (forall c, In c rem -> val s e c <> None) /\
      live s' e = true /\
      (forall c, val s' e c = if memb c rem then None else val s e c) /\
      others_same s s' e /\ w_pool s' = w_pool s /\ frame_user s s'
  | Err _ s' => rejected s s'
  end.
Proof.
  intros s e rem HSt Hroom Hreg. pose proof (proj1 HSt) as HW. unfold w_remove.
  sb2_prefix s e HSt HW (negb (is_nil rem)).
  destruct (sb2_layout _ _ _ _ HW Hot Hoa) as (_ & _ & Hlt).
  pose proof (find_or_create_table_remove_spec s otid ot rem (a_mask oa) HSt Hot Hlt) as Hf.
  destruct (find_or_create_table_remove otid rem (a_mask oa) s) as [[[[ntid naid] m] rr] s1|er s1] eqn:Ef.
  2:{ erewrite sb2_bind_err by exact Ef. destruct Hf as ((F1 & F2 & F3 & F4) & _).
      apply sb2_pre_rejected. apply sb2_pre_rows; assumption. }
  erewrite sb2_bind_ok by exact Ef. cbv beta iota.
  destruct Hf as ((HSt1 & Hsr & Hss & Hfu & nt & na & Hnt & Hnaid & Hna & Hm) & _ & Hmk & Hnd & Hsub).
  pose proof (sb2_pre_rows s s1 HSt HSt1 Hsr Hfu) as Hpre1.
  pose proof (fire_remove_events_storage e (a_mask oa) m rr s1) as Hst.
  destruct (fire_remove_events e (a_mask oa) m rr s1) as [u s1'|er s1'] eqn:Efire; cbn [state_of] in Hst.
  2:{ erewrite sb2_bind_err by exact Efire. apply sb2_pre_rejected. eapply sb2_pre_storage; eauto. }
  erewrite sb2_bind_ok by exact Efire.
  destruct (sb2_pre_storage _ _ _ Hpre1 Hst) as (HSt2 & Hcs & Hpool & Hfu2 & Hidx & HT & HA).
  destruct Hst as (_ & _ & _ & _ & _ & Sarchs & Stabs & _).
  rewrite <- Stabs in Hnt. rewrite <- Sarchs in Hna. clear Sarchs Stabs.
  destruct (HT _ _ Hot) as (ot1 & Hot1 & Harch1). destruct (HA _ _ Hoa) as (oa1 & Hoa1 & Hmask1).
  rewrite <- Harch1 in Hoa1. subst naid m.
  assert (Hlive1 : live s1' e = true) by (destruct (Hcs e) as (L & _); rewrite L; exact Hlive).
  assert (Hloc1 : loc s1' e = Some (otid, row)) by (apply sb2_loc_iff; rewrite Hidx; exact Ei).
  assert (Hroom1 : room s1') by (unfold room; rewrite Hpool; exact Hroom).
  assert (Hrem : rem <> []) by (apply sb2_nil_not; exact HG).
  assert (Hmne : a_mask oa1 <> a_mask na).
  { rewrite Hmask1. intros Heq. destruct rem as [|c rem']; [congruence|].
    specialize (Hmk c). rewrite <- Heq, (Hsub c (or_introl eq_refl)), sb2_memb_cons, Nat.eqb_refl in Hmk.
    discriminate. }
  destruct (sb2_move_row s s1' e otid row ntid ot1 nt oa1 na Hcs HSt2 Hroom1 Hlive1 Hloc1 Hot1 Hnt Hoa1 Hna Hmne)
    as (s2 & s3 & s4 & s' & E1 & E2 & E3 & E4 & HSt' & Hlive' & Hval & Hoth & Hpool' & Hside' & Hfu' & Harchs).
  erewrite sb2_bind_ok by exact E1. erewrite sb2_bind_ok by exact E2.
  erewrite sb2_bind_ok by exact E3. rewrite E4.
  rewrite Hmask1 in Hval.
  pose proof (val_defined_iff_mask s e otid row ot oa HW Hlive Hloc Hot Hoa) as Hiff.
  split; [assumption|]. split; [reflexivity|]. split; [assumption|]. split; [assumption|]. split; [assumption|].
  split.
  { intros c Hin. apply Hiff. apply Hsub. assumption. }
  split; [assumption|].
  split.
  { intros c. rewrite Hval, Hmk. destruct (memb c rem) eqn:Emr.
    - rewrite andb_false_r. reflexivity.
    - rewrite andb_true_r. destruct (mk_get (a_mask oa) c) eqn:Emo; [reflexivity|].
      symmetry. apply (sb2_val_none _ _ (Hiff c) Emo). }
  split; [assumption|]. split; [congruence|]. eapply sb2_frame_trans; eauto.
Qed.

(** exchange *)
Lemma w_exchange_spec : forall s e add rem, St s -> room s -> registered s add -> registered s rem ->
  match w_exchange e add rem [] s with
  | Ok _ s' =>
      St s' /\ is_locked s = false /\ live s e = true /\ NoDup add /\ NoDup rem /\
      (forall c, In c rem -> val s e c <> None) /\ (forall c, In c add -> val s e c = None) /\
      live s' e = true /\
      (forall c, val s' e c = if memb c add then Some 0%Z else if memb c rem then None else val s e c) /\
      others_same s s' e /\ w_pool s' = w_pool s /\ frame_user s s'
  | Err _ s' => rejected s s'
  end.
Proof.
  intros s e add rem HSt Hroom Hreg Hreg'. pose proof (proj1 HSt) as HW. unfold w_exchange.
  sb2_prefix s e HSt HW (negb (is_nil add && is_nil rem)).
  destruct (sb2_layout _ _ _ _ HW Hot Hoa) as (_ & _ & Hlt).
  pose proof (find_or_create_table_spec s otid ot add rem (a_mask oa) HSt Hot Hlt Hreg) as Hf.
  destruct (find_or_create_table otid add rem [] (a_mask oa) s) as [[[[ntid naid] m] rr] s1|er s1] eqn:Ef.
  2:{ erewrite sb2_bind_err by exact Ef. destruct Hf as (F1 & F2 & F3 & F4).
      apply sb2_pre_rejected. apply sb2_pre_rows; assumption. }
  erewrite sb2_bind_ok by exact Ef. cbv beta iota.
  destruct Hf as ((HSt1 & Hsr & Hss & Hfu & nt & na & Hnt & Hnaid & Hna & Hm) & _ & Hmk & Hnda & Hndr & Hsub & Hdis).
  pose proof (sb2_pre_rows s s1 HSt HSt1 Hsr Hfu) as Hpre1.
  assert (Hst : storage_same s1 (state_of (whenM (negb (is_nil rem)) (fire_remove_events e (a_mask oa) m rr) s1))).
  { destruct (negb (is_nil rem)); cbn [whenM]; [apply fire_remove_events_storage|apply sb2_storage_refl]. }
  destruct (whenM (negb (is_nil rem)) (fire_remove_events e (a_mask oa) m rr) s1) as [u s1'|er s1'] eqn:Efire;
    cbn [state_of] in Hst.
  2:{ erewrite sb2_bind_err by exact Efire. apply sb2_pre_rejected. eapply sb2_pre_storage; eauto. }
  erewrite sb2_bind_ok by exact Efire.
  destruct (sb2_pre_storage _ _ _ Hpre1 Hst) as (HSt2 & Hcs & Hpool & Hfu2 & Hidx & HT & HA).
  destruct Hst as (_ & _ & _ & _ & _ & Sarchs & Stabs & _).
  rewrite <- Stabs in Hnt. rewrite <- Sarchs in Hna. clear Sarchs Stabs.
  destruct (HT _ _ Hot) as (ot1 & Hot1 & Harch1). destruct (HA _ _ Hoa) as (oa1 & Hoa1 & Hmask1).
  rewrite <- Harch1 in Hoa1. subst naid m.
  assert (Hlive1 : live s1' e = true) by (destruct (Hcs e) as (L & _); rewrite L; exact Hlive).
  assert (Hloc1 : loc s1' e = Some (otid, row)) by (apply sb2_loc_iff; rewrite Hidx; exact Ei).
  assert (Hroom1 : room s1') by (unfold room; rewrite Hpool; exact Hroom).
  assert (Hmne : a_mask oa1 <> a_mask na).
  { rewrite Hmask1. intros Heq. destruct add as [|c add'].
    - destruct rem as [|c rem']; [discriminate HG|].
      specialize (Hmk c). rewrite <- Heq, (Hsub c (or_introl eq_refl)), sb2_memb_cons, Nat.eqb_refl in Hmk.
      discriminate.
    - specialize (Hmk c). rewrite <- Heq, (Hdis c (or_introl eq_refl)), sb2_memb_cons, Nat.eqb_refl in Hmk.
      discriminate. }
  destruct (sb2_move_row s s1' e otid row ntid ot1 nt oa1 na Hcs HSt2 Hroom1 Hlive1 Hloc1 Hot1 Hnt Hoa1 Hna Hmne)
    as (s2 & s3 & s4 & s' & E1 & E2 & E3 & E4 & HSt' & Hlive' & Hval & Hoth & Hpool' & Hside' & Hfu' & Harchs).
  erewrite sb2_bind_ok by exact E1. erewrite sb2_bind_ok by exact E2.
  erewrite sb2_bind_ok by exact E3. erewrite sb2_bind_ok by exact E4.
  unfold register_targets. cbn [forM_]. rewrite sb2_bind_ret.
  erewrite sb2_bind_ok by (apply sb2_getA; rewrite Harchs; exact Hna).
  unfold ret. rewrite Hmask1 in Hval.
  pose proof (val_defined_iff_mask s e otid row ot oa HW Hlive Hloc Hot Hoa) as Hiff.
  split; [assumption|]. split; [reflexivity|]. split; [assumption|]. split; [assumption|]. split; [assumption|].
  split.
  { intros c Hin. apply Hiff. apply Hsub. assumption. }
  split.
  { intros c Hin. apply (sb2_val_none _ _ (Hiff c)). apply Hdis. assumption. }
  split; [assumption|].
  split.
  { intros c. rewrite Hval, Hmk. destruct (memb c add) eqn:Ema.
    - rewrite (Hdis c) by (apply sb2_memb_In; exact Ema). rewrite orb_true_r. reflexivity.
    - rewrite orb_false_r. destruct (memb c rem) eqn:Emr.
      + rewrite andb_false_r. reflexivity.
      + rewrite andb_true_r. destruct (mk_get (a_mask oa) c) eqn:Emo; [reflexivity|].
        symmetry. apply (sb2_val_none _ _ (Hiff c) Emo). }
  split; [assumption|]. split; [congruence|]. eapply sb2_frame_trans; eauto.
Qed.

(** Writing through the pointer returned by Get (OWrite) *)

(** RemoveEntity: the handle is dead afterwards (and stays distinguishable: its slot's generation
    is bumped), nobody else changes. *)


(** Stale handles are rejected before anything happens (C10): a handle that is not alive makes
    every checked single-entity operation fail with the state exactly unchanged. *)
