(** * Rel2BatchSetRel: SetRelationsBatch ([w_set_relations_batch]) in the relation tier.
    Helper prefix [r2s_].

    The operation takes a lock bit, selects the tables of a filter ([get_batch_tables]) and then works in
    TWO PHASES (since the repair "relation batches fire all removal events before and all add events
    after the entire batch"):
    - PLAN every selected table ([set_relations_plan]): an empty table, or one for which
      [exchange_targets] (checked) reports "unchanged", gives no plan; otherwise the table with the new
      targets is found or created ([get_or_create_table]) and the plan (source, destination, number of
      rows, mask) is recorded. Every rejection (component named twice, missing, not a relation component,
      dead target) happens here, before any row has moved.
    - MOVE every plan in order ([set_relations_move]: [move_entities] and the passive callbacks, which
      only log). Then the named targets are registered, the lock bit is given back; if anything
      panics, the deferred unlock gives the lock bit back. Without observers the two event blocks vanish.

    Results (for every state with [St2], [r2d_KeysLive], no observers):
    - [r2s_plan_spec]: planning one table only GROWS the world ([r2s_grow]: possibly one more empty active
      table; entity index, log, every target and every active table literally unchanged); a rejection
      leaves the state unchanged; the destination is another active table of the same archetype with
      exactly the re-targeted labels. [r2s_move_spec]: carrying out a plan moves all rows
      ([r2s_moved]). [r2s_table_spec] / [r2s_table_obs]: their composition [r2s_table] (what the old
      setRelationsTable did in one go): both outcomes keep the invariant; a failure leaves the state
      UNCHANGED; on success every row entity gets the assigned targets for the named components and
      keeps everything else, all other entities are unchanged, the log grows by one entry per row.
      Registration of the targets is NOT pending afterwards: a created table's targets are registered
      by createTable itself, a found table's targets are keys of the lookups already (so they are
      flagged by [TargetFlagsG]). Hence the intermediate invariant is plain [St2].
    - [r2s_set_relations_batch_inv]: the whole operation keeps [St2], [r2d_KeysLive], [r2e_noobs],
      components and values of every entity, and ends UNLOCKED in both outcomes, whatever fails; and a
      FAILURE leaves every entity exactly as it was (components, values AND targets; nothing logged):
      a rejected table rejects the whole batch before any row moved.
    - [r2s_set_relations_batch_spec]: on success = the per-entity operation on exactly the entities of
      the selected tables; log = one entry per moved entity; [r2s_set_relations_batch_ok]: valid calls
      succeed.
    - The subtlety "lengths recorded before the moves": a plan records the length of its source at
      planning time; planning changes no row ([r2s_plan_loop]); and no SOURCE receives rows before it is
      moved, because a destination carries the assigned targets whereas a source does not
      ([r2s_exch_some_changes]), so no destination is a source ([r2s_plans_ok], [r2s_plans_step]).
      Destinations may coincide (two sources with the same new targets share one destination). What is
      REALLY needed besides is that no table is a source twice: the sources are a sub-list of the
      selection, and [r2s_gbt_facts] proves that [get_batch_tables] returns a duplicate-free list of
      valid table ids in every [St2] state (cached and uncached path, arbitrary batch relations);
      [r2s_dup_refuted] shows what a duplicate would do (model-level only, not reachable). *)
From Ark Require Import Model.Base Model.Mask Model.Pool Model.Util Model.World Model.Run.
From Ark Require Import Proofs.TableProofs Proofs.MaskProofs Proofs.WF Proofs.StorageA Proofs.StorageBDefs
  Proofs.StorageB_sb1 Proofs.StorageB_sb2 Proofs.StorageB_sb3 Proofs.ViewProofs Proofs.CacheProofs Proofs.RelProofs
  Proofs.BatchProofs Proofs.BatchOps Proofs.Rel2Defs Proofs.Rel2Struct Proofs.Rel2Remove Proofs.Rel2SetRel
  Proofs.Rel2Maint Proofs.Rel2Hist.
From Ark Require Properties.Common Proofs.Rel2Check.
From RecordUpdate Require Import RecordSet.
Import RecordSetNotations.
From Coq Require Import Lia.

(* ================================================================================================ *)
(** * Part 0: vocabulary *)

(** The table already has the targets the call assigns (for every named component). *)
Definition r2s_carries (t : table) (rels : list rel) : bool :=
  forallb (fun r : rel => match tbl_target t (fst r) with Some x => ent_eqb x (snd r) | None => false end) rels.

Lemma r2s_carries_iff : forall t rels,
  r2s_carries t rels = true <-> forall r, In r rels -> tbl_target t (fst r) = Some (snd r).
Proof.
  intros t rels. unfold r2s_carries. rewrite forallb_forall. split; intros H r Hr; specialize (H r Hr).
  - destruct (tbl_target t (fst r)) as [x|]; [|discriminate]. apply sa_ent_eqb_eq in H. subst x. reflexivity.
  - rewrite H. apply sa_ent_eqb_refl.
Qed.

Lemma r2s_carries_meta : forall t t' rels, sb2_meta t t' -> r2s_carries t' rels = r2s_carries t rels.
Proof.
  intros t t' rels M. unfold r2s_carries. induction rels as [|r rest IH]; [reflexivity|].
  cbn [forallb]. rewrite IH, (r2c_tbl_target_meta t t' (fst r) M). reflexivity.
Qed.

(** The target of component [c] after the call: the assigned one if [c] is named, the old one otherwise. *)
Definition r2s_new (rels : list rel) (o : option ent) (c : nat) : option ent :=
  match r2b_assigned rels c with Some x => Some x | None => o end.

Lemma r2s_new_idem : forall rels o c, r2s_new rels (r2s_new rels o c) c = r2s_new rels o c.
Proof. intros rels o c. unfold r2s_new. destruct (r2b_assigned rels c); reflexivity. Qed.

Lemma r2s_assigned_in : forall (rels : list rel) c x, r2b_assigned rels c = Some x -> In (c, x) rels.
Proof.
  intros rels c x H. unfold r2b_assigned in H.
  destruct (find (fun r : rel => Nat.eqb (fst r) c) (rev rels)) as [[c' y]|] eqn:Ef; [|discriminate].
  cbn [option_map snd] in H. injection H as ->. apply find_some in Ef. destruct Ef as (Hin & Hc).
  cbn [fst] in Hc. apply Nat.eqb_eq in Hc. subst c'. apply in_rev. exact Hin.
Qed.

Lemma r2s_new_carries : forall t rels c, r2s_carries t rels = true -> r2s_new rels (tbl_target t c) c = tbl_target t c.
Proof.
  intros t rels c H. unfold r2s_new. destruct (r2b_assigned rels c) as [x|] eqn:E; [|reflexivity].
  apply r2s_assigned_in in E. symmetry. apply (proj1 (r2s_carries_iff t rels) H (c, x) E).
Qed.

(** What every step of the operation keeps, in both outcomes. *)
Definition r2s_keep (s s' : W) : Prop :=
  St2 s' /\ r2d_KeysLive s' /\ r2e_noobs s' /\ w_lock s' = w_lock s /\
  (forall e, live s' e = live s e) /\ (forall e c, val s' e c = val s e c) /\
  w_pool s' = w_pool s /\ frame_user s s'.

Lemma r2s_keep_refl : forall s, St2 s -> r2d_KeysLive s -> r2e_noobs s -> r2s_keep s s.
Proof. intros s H1 H2 H3. unfold r2s_keep. repeat (split; [first [assumption|reflexivity]|]). apply sa_frame_user_refl. Qed.

Lemma r2s_keep_trans : forall s1 s2 s3, r2s_keep s1 s2 -> r2s_keep s2 s3 -> r2s_keep s1 s3.
Proof.
  intros s1 s2 s3 (_ & _ & _ & A4 & A5 & A6 & A7 & A8) (B1 & B2 & B3 & B4 & B5 & B6 & B7 & B8).
  unfold r2s_keep. split; [exact B1|]. split; [exact B2|]. split; [exact B3|]. split; [congruence|].
  split; [intros e; rewrite B5; apply A5|]. split; [intros e c; rewrite B6; apply A6|]. split; [congruence|].
  apply (sa_frame_user_trans s1 s2 s3 A8 B8).
Qed.

(** Proper handles stay proper along [r2s_keep]. *)
Lemma r2s_handle_ok_keep : forall s s' x, r2s_keep s s' -> r2b_handle_ok s x -> r2b_handle_ok s' x.
Proof.
  intros s s' x (_ & _ & _ & _ & HL & _ & HP & _) [Hz|[Hl|(H1 & H2)]]; [left; exact Hz|right; left; rewrite HL; exact Hl|].
  right. right. split; [exact H1|]. unfold alive in *. rewrite HP. exact H2.
Qed.

(** States that differ in lock and log only. *)
Lemma r2s_storage_same_obs : forall s s', storage_same s s' ->
  (forall e, live s' e = live s e) /\ (forall e c, val s' e c = val s e c) /\ (forall e c, tgt s' e c = tgt s e c) /\
  (forall e, loc s' e = loc s e).
Proof.
  intros s s' (_ & _ & _ & EI & _ & _ & ET & _).
  assert (HL : forall e, loc s' e = loc s e) by (intros e; apply sa_loc_ext; exact EI).
  assert (Hlive : forall e, live s' e = live s e) by (intros e; unfold live; rewrite HL, ET; reflexivity).
  split; [exact Hlive|]. split; [|split; [|exact HL]].
  - intros e c. unfold val, value_of. rewrite Hlive, HL, ET. reflexivity.
  - intros e c. unfold tgt, target_of. rewrite Hlive, HL, ET. reflexivity.
Qed.

Lemma r2s_storage_same_KeysLive : forall s s', storage_same s s' -> r2d_KeysLive s -> r2d_KeysLive s'.
Proof.
  intros s s' SS HK. apply (r2d_KeysLive_mono s s' HK); [apply SS|].
  intros x Hx. rewrite (proj1 (r2s_storage_same_obs s s' SS)). exact Hx.
Qed.

Lemma r2s_noobs_oagg : forall s s', w_oagg s' = w_oagg s -> r2e_noobs s -> r2e_noobs s'.
Proof. intros s s' E H ev. rewrite (bo_has_obs_side s s' ev E). apply H. Qed.

(* ================================================================================================ *)
(** * Part 0b: facts about getExchangeTargets on a table *)

(** ** Facts about the columns a call names *)

Lemma r2s_kind_col : forall s tid t c i, WF s -> nth_error (w_tables s) tid = Some t -> tbl_colidx t c = Some i ->
  nth i (t_kinds t) (Build_ckind false false true) = kind_of s c.
Proof.
  intros s tid t c i HW Ht Ei. destruct (wf_layout _ HW tid t Ht) as (a & _ & _ & Lk & _).
  pose proof (rl_index_of_some _ _ _ Ei) as Hci. apply nth_error_nth. rewrite Lk, nth_error_map, Hci. reflexivity.
Qed.

Lemma r2s_named_relcol : forall s tid t a c, WF s -> nth_error (w_tables s) tid = Some t ->
  nth_error (w_archs s) (t_arch t) = Some a -> tbl_colidx t c <> None -> is_rel_comp s c = true ->
  exists i, nth_error (a_comps a) i = Some c /\ r2_relcol a i /\ tbl_colidx t c = Some i.
Proof.
  intros s tid t a c HW Ht Ha Hc Hr. destruct (wf_layout _ HW tid t Ht) as (a0 & Ha0 & Lids & _). rewrite Ha in Ha0. injection Ha0 as <-.
  destruct (tbl_colidx t c) as [i|] eqn:Ei; [|contradiction]. exists i.
  pose proof (rl_index_of_some _ _ _ Ei) as Hci. rewrite Lids in Hci. split; [exact Hci|]. split; [|reflexivity].
  destruct (r2_kinds_isrel s _ a HW Ha) as (HK & _). unfold r2_relcol.
  rewrite (HK i (kind_of s c)); [|rewrite nth_error_map, Hci; reflexivity]. rewrite <- r2_is_rel_comp_kind, Hr. reflexivity.
Qed.

Lemma r2s_tbl_target_col : forall s tid t a c i, WF s -> nth_error (w_tables s) tid = Some t ->
  nth_error (w_archs s) (t_arch t) = Some a -> nth_error (a_comps a) i = Some c ->
  tbl_target t c = nth_error (t_targets t) i.
Proof.
  intros s tid t a c i HW Ht Ha Hi. destruct (wf_layout _ HW tid t Ht) as (a0 & Ha0 & Lids & _). rewrite Ha in Ha0. injection Ha0 as <-.
  unfold tbl_target, tbl_colidx. rewrite Lids, (r2_index_of_nth _ _ _ (r2_comps_nodup s _ a HW Ha) Hi). reflexivity.
Qed.

(** What a successful [exchange_targets] says about the named components. *)
Lemma r2s_exch_ok_cols : forall s tid t rels r0 s', WF s -> nth_error (w_tables s) tid = Some t ->
  exchange_targets t rels s = Ok r0 s' ->
  NoDup (map fst rels) /\ forall r, In r rels -> tbl_colidx t (fst r) <> None /\ is_rel_comp s (fst r) = true.
Proof.
  intros s tid t rels r0 s' HW Ht E. destruct (wf_layout _ HW tid t Ht) as (a & Ha & Lids & Lk & Ltg).
  assert (ND : NoDup (t_ids t)) by (rewrite Lids; apply (r2_comps_nodup s _ a HW Ha)).
  destruct (exchange_targets_ok_valid s t rels r0 s' ND Ltg E) as (Hnd & Hcolrel). split; [exact Hnd|].
  intros r Hr. destruct (Hcolrel r Hr) as (i & Ei & Ek). split; [congruence|].
  rewrite (r2s_kind_col s tid t _ i HW Ht Ei) in Ek. rewrite r2_is_rel_comp_kind. exact Ek.
Qed.

(** If "changed" is reported, the table does not carry the assigned targets. *)
Lemma r2s_exch_some_changes : forall s tid t a rels newrels cm, St2 s ->
  nth_error (w_tables s) tid = Some t -> t_free t = false -> nth_error (w_archs s) (t_arch t) = Some a ->
  exchange_targets t rels s = Ok (Some (newrels, cm)) s -> r2s_carries t rels = false.
Proof.
  intros s tid t a rels newrels cm HS Ht Hf Ha E. pose proof HS as (HW & _).
  destruct (r2s_exch_ok_cols s tid t rels _ _ HW Ht E) as (Hnd & Hcols).
  destruct (r2b_newrels s tid t a rels newrels cm HS Ht Hf Ha Hnd (fun r Hr => proj2 (Hcols r Hr)) E) as (_ & Hchar & (c & x & Hin & Hdiff)).
  destruct (r2s_carries t rels) eqn:Ec; [|reflexivity]. exfalso. apply Hdiff.
  apply Hchar in Hin. destruct Hin as (i & Hci & _ & Hx).
  destruct (r2b_assigned rels c) as [y|] eqn:Ey.
  - injection Hx as ->. apply r2s_assigned_in in Ey. apply (proj1 (r2s_carries_iff t rels) Ec (c, y) Ey).
  - rewrite (r2s_tbl_target_col s tid t a c i HW Ht Ha Hci). symmetry. exact Hx.
Qed.


(* ================================================================================================ *)
(** * Small list facts, rows of a table *)

Lemma r2s_nth_error_seq : forall a n i, i < n -> nth_error (seq a n) i = Some (a + i).
Proof. intros a n i Hi. rewrite (nth_error_nth' _ 0) by (rewrite seq_length; exact Hi). rewrite seq_nth by exact Hi. reflexivity. Qed.

Lemma r2s_nodup_app : forall A (l1 l2 : list A), NoDup l1 -> NoDup l2 -> (forall x, In x l1 -> ~ In x l2) -> NoDup (l1 ++ l2).
Proof.
  intros A l1 l2 H1 H2 Hd. induction l1 as [|x l1 IH]; [exact H2|]. cbn [app]. apply NoDup_cons_iff in H1. destruct H1 as (Hx & H1).
  constructor.
  - intros Hin. apply in_app_iff in Hin. destruct Hin as [Hin|Hin]; [exact (Hx Hin)|]. exact (Hd x (or_introl eq_refl) Hin).
  - apply IH; [exact H1|]. intros y Hy. apply Hd. right. exact Hy.
Qed.

(** ** The rows of a table as a list of entities *)

Definition r2s_rows (t : table) : list ent := map (row_ent t) (seq 0 (t_len t)).

Lemma r2s_rows_in : forall s tid t e, WF s -> nth_error (w_tables s) tid = Some t ->
  (In e (r2s_rows t) <-> live s e = true /\ exists r, loc s e = Some (tid, r)).
Proof.
  intros s tid t e HW Ht. unfold r2s_rows. rewrite in_map_iff. split.
  - intros (i & <- & Hi). apply in_seq in Hi. assert (Hlt : i < t_len t) by lia.
    destruct (wf_rows _ HW _ _ _ Ht Hlt) as (L & _). split; [|exists i; exact L].
    apply (sb2_live_intro s _ tid i t L Ht Hlt eq_refl).
  - intros (Hl & r & L). destruct (sb2_mv_row s e tid r t Hl L Ht) as (Hr & He). exists r. split; [exact He|]. apply in_seq. lia.
Qed.

Lemma r2s_rows_nodup : forall s tid t, WF s -> nth_error (w_tables s) tid = Some t -> NoDup (r2s_rows t).
Proof.
  intros s tid t HW Ht. unfold r2s_rows. apply NoDup_nth_error. intros i j Hi E. rewrite map_length, seq_length in Hi.
  rewrite !nth_error_map, (r2s_nth_error_seq 0 (t_len t) i Hi) in E. cbn [option_map Nat.add] in E.
  destruct (Nat.lt_ge_cases j (t_len t)) as [Hj|Hj].
  - rewrite (r2s_nth_error_seq 0 (t_len t) j Hj) in E. cbn [option_map Nat.add] in E. injection E as E.
    apply (f_equal fst) in E. apply (sb2_row_inj s tid t i tid t j HW Ht Hi Ht Hj E).
  - assert (En : nth_error (seq 0 (t_len t)) j = None) by (apply nth_error_None; rewrite seq_length; exact Hj).
    rewrite En in E. discriminate.
Qed.


(** Validity of the relation list (beyond what depends on the tables). *)
Definition r2s_valid (s : W) (rels : list rel) : Prop :=
  NoDup (map fst rels) /\ forall r, In r rels -> is_rel_comp s (fst r) = true /\ (snd r = zero_ent \/ live s (snd r) = true).

Lemma r2s_valid_keep : forall s s' rels, r2s_keep s s' -> r2s_valid s rels -> r2s_valid s' rels.
Proof.
  intros s s' rels (_ & _ & _ & _ & HL & _ & _ & (Er & _)) (H1 & H2). split; [exact H1|]. intros r Hr. destruct (H2 r Hr) as (A1 & A2).
  split; [unfold is_rel_comp in *; rewrite Er; exact A1|]. destruct A2 as [Hz|Hl]; [left; exact Hz|right; rewrite HL; exact Hl].
Qed.

(* ================================================================================================ *)
(** * Part 1: one table: the plan ([set_relations_plan]) and the move ([set_relations_move]) *)

(** ** Planning only grows the world by empty active tables

    [r2s_grow s s']: besides [r2s_keep], the entity index, the log and every target are unchanged, every
    table keeps its length, and every ACTIVE table is literally unchanged (a free table may be recycled:
    it gets new labels, and stays empty). *)
Definition r2s_grow (s s' : W) : Prop :=
  r2s_keep s s' /\ w_index s' = w_index s /\ w_log s' = w_log s /\
  (forall e c, tgt s' e c = tgt s e c) /\
  (forall x t, nth_error (w_tables s) x = Some t ->
     exists t', nth_error (w_tables s') x = Some t' /\ t_len t' = t_len t /\ (t_free t = false -> t' = t)).

Lemma r2s_grow_refl : forall s, St2 s -> r2d_KeysLive s -> r2e_noobs s -> r2s_grow s s.
Proof.
  intros s H1 H2 H3. split; [apply r2s_keep_refl; assumption|]. split; [reflexivity|]. split; [reflexivity|]. split; [reflexivity|].
  intros x t Ht. exists t. split; [exact Ht|]. split; reflexivity.
Qed.

Lemma r2s_grow_trans : forall s1 s2 s3, r2s_grow s1 s2 -> r2s_grow s2 s3 -> r2s_grow s1 s3.
Proof.
  intros s1 s2 s3 (K1 & I1 & L1 & T1 & B1) (K2 & I2 & L2 & T2 & B2).
  split; [apply (r2s_keep_trans s1 s2 s3 K1 K2)|]. split; [congruence|]. split; [congruence|].
  split; [intros e c; rewrite T2; apply T1|].
  intros x t Ht. destruct (B1 x t Ht) as (t' & Ht' & El & Ef). destruct (B2 x t' Ht') as (t'' & Ht'' & El' & Ef').
  exists t''. split; [exact Ht''|]. split; [congruence|]. intros Hf. rewrite <- (Ef Hf). apply Ef'. rewrite (Ef Hf). exact Hf.
Qed.

Lemma r2s_grow_loc : forall s s', r2s_grow s s' -> forall e, loc s' e = loc s e.
Proof. intros s s' (_ & I & _) e. apply sa_loc_ext. exact I. Qed.

(** What the plan of a table that changes promises about its destination. *)
Definition r2s_plan_ok (s' : W) (otid : nat) (ot : table) (rels : list rel) (ntid : nat) : Prop :=
  ntid <> otid /\ exists nt, nth_error (w_tables s') ntid = Some nt /\ t_free nt = false /\ t_arch nt = t_arch ot /\
     r2s_carries nt rels = true /\ (forall c, tbl_target nt c = r2s_new rels (tbl_target ot c) c).

(** [set_relations_plan]: an empty table or a table that carries the assigned targets gives no plan
    (state unchanged); a rejected table leaves the state unchanged (causes: component named twice,
    missing, not a relation component, dead target); otherwise the destination is found or created:
    the world only grows ([r2s_grow]) and the destination is an active table of the same archetype,
    different from the source, with exactly the re-targeted labels. *)
Theorem r2s_plan_spec : forall s otid ot rels,
  St2 s -> r2d_KeysLive s -> r2e_noobs s ->
  nth_error (w_tables s) otid = Some ot ->
  (forall r, In r rels -> r2b_handle_ok s (snd r)) ->
  match set_relations_plan otid rels s with
  | Ok None s' =>
      s' = s /\ (t_len ot = 0 \/
                 (t_len ot <> 0 /\ r2s_carries ot rels = true /\ NoDup (map fst rels) /\
                  forall r, In r rels -> tbl_colidx ot (fst r) <> None /\ is_rel_comp s (fst r) = true))
  | Ok (Some p) s' =>
      r2s_grow s s' /\ t_len ot <> 0 /\ t_free ot = false /\ r2s_carries ot rels = false /\ NoDup (map fst rels) /\
      (forall r, In r rels -> tbl_colidx ot (fst r) <> None /\ is_rel_comp s (fst r) = true) /\
      (forall r, In r rels -> snd r = zero_ent \/ live s (snd r) = true) /\
      exists ntid cm, p = (otid, ntid, t_len ot, cm) /\ r2s_plan_ok s' otid ot rels ntid
  | Err _ s' =>
      s' = s /\ t_len ot <> 0 /\
      (rels_distinct rels = false \/
       exists r, In r rels /\ (tbl_colidx ot (fst r) = None \/ is_rel_comp s (fst r) = false \/
                               (r2s_carries ot rels = false /\ fst (snd r) <> 0 /\ alive s (snd r) = false)))
  end.
Proof.
  intros s otid ot rels HS HK Hno Hot Hhok. pose proof HS as (HW & (HR & HT) & HC).
  unfold set_relations_plan. rewrite (sa_bind_ok (sa_getT_eq _ _ _ Hot)).
  destruct (Nat.eqb_spec (t_len ot) 0) as [Hz|Hnz]; [split; [reflexivity|left; exact Hz]|].
  assert (Hfo : t_free ot = false).
  { destruct (t_free ot) eqn:Ef; [|reflexivity]. exfalso. apply Hnz. apply (r2c_free_len0 _ s otid ot HR Hot Ef). }
  destruct (wf_layout _ HW otid ot Hot) as (a & Ha & Lids & Lk & Ltg).
  assert (ND : NoDup (t_ids ot)) by (rewrite Lids; apply (r2_comps_nodup s _ a HW Ha)).
  assert (Lkl : length (t_kinds ot) = length (t_ids ot)) by (rewrite Lk; apply map_length).
  pose proof (exchange_targets_spec s ot rels Ltg Lkl ND) as XS.
  pose proof (fun r1 s1 => r2s_exch_ok_cols s otid ot rels r1 s1 HW Hot) as XV.
  destruct (exchange_targets ot rels s) as [[[newrels cm]|] s0|er s0] eqn:EX.
  - (* changed *)
    destruct XS as (-> & _). destruct (XV _ _ eq_refl) as (Hnd & Hcols). rewrite (sa_bind_ok EX). cbv beta iota.
    pose proof (r2s_exch_some_changes s otid ot a rels newrels cm HS Hot Hfo Ha EX) as Hnc.
    destruct (r2b_newrels s otid ot a rels newrels cm HS Hot Hfo Ha Hnd (fun r Hr => proj2 (Hcols r Hr)) EX) as (HVimp & Hchar & (c0 & x0 & Hin0 & Hdiff)).
    destruct (existsb (r2b_deadb s) rels) eqn:Edead.
    + (* a dead target: createTable rejects it, nothing has happened *)
      apply existsb_exists in Edead. destruct Edead as ([c x] & Hr & Hd). unfold r2b_deadb in Hd. cbn [snd] in Hd.
      apply andb_true_iff in Hd. destruct Hd as (Hd1 & Hd2). apply negb_true_iff in Hd1, Hd2. apply Nat.eqb_neq in Hd1.
      destruct (Hcols (c, x) Hr) as (Hc1 & Hc2). cbn [fst] in Hc1, Hc2.
      destruct (r2s_named_relcol s otid ot a c HW Hot Ha Hc1 Hc2) as (i & Hci & Hrc & _).
      assert (Hinn : In (c, x) newrels).
      { apply Hchar. exists i. split; [exact Hci|]. split; [exact Hrc|]. rewrite (r2b_assigned_in rels c x Hnd Hr). reflexivity. }
      destruct (r2b_goc_dead s (t_arch ot) a newrels c x i HS Ha Hinn Hci Hrc Hd1 Hd2) as (er & Eg).
      rewrite (sa_bind_err Eg). split; [reflexivity|]. split; [exact Hnz|]. right. exists (c, x). split; [exact Hr|].
      right. right. split; [exact Hnc|]. split; assumption.
    + assert (Htok : forall r, In r rels -> snd r = zero_ent \/ live s (snd r) = true).
      { intros r Hr. destruct (Hhok r Hr) as [Hz|[Hl|(H1 & H2)]]; [left; exact Hz|right; exact Hl|]. exfalso.
        assert (Hc : existsb (r2b_deadb s) rels = true).
        { apply existsb_exists. exists r. split; [exact Hr|]. unfold r2b_deadb. rewrite H2. apply Nat.eqb_neq in H1. rewrite H1. reflexivity. }
        congruence. }
      pose proof (HVimp Htok) as HV.
      pose proof HS as HSG. apply St2_St2G in HSG.
      assert (Hst : r2_nostale a) by (apply (r2c_nostale r2_none s _ a HR Ha); right; intros k []).
      destruct (r2_get_or_create_table_spec r2_none r2_none r2_none s (t_arch ot) a newrels HSG Ha HV Hst)
        as (ntid & s2 & t2 & E2 & HS2 & R & Hnt & Earch2 & Hf2 & Hm & Hcase & Hfl & I2 & I3 & I4 & I5).
      { intros x _ []. }
      pose proof HS2 as (HW2 & HR2 & HT2 & HC2).
      assert (A3 : ntid <> otid /\ nth_error (w_tables s2) otid = Some ot).
      { destruct Hcase as [->|([Hnone|(t0 & Ht0 & Hf0)] & _ & _ & Hoth & _)].
        - split; [|exact Hot]. intros ->. rewrite Hot in Hnt. injection Hnt as <-. apply Hdiff. apply (Hm (c0, x0) Hin0).
        - assert (Hn : ntid <> otid) by (intros ->; rewrite Hot in Hnone; discriminate). split; [exact Hn|].
          rewrite (Hoth otid); [exact Hot|]. intros ->. apply Hn. reflexivity.
        - assert (Hn : ntid <> otid) by (intros ->; rewrite Hot in Ht0; injection Ht0 as <-; congruence). split; [exact Hn|].
          rewrite (Hoth otid); [exact Hot|]. intros ->. apply Hn. reflexivity. }
      destruct A3 as (Hne & Hot2).
      assert (Obs2 : forall x, live s2 x = live s x /\ (forall c, val s2 x c = val s x c) /\ (forall c, tgt s2 x c = tgt s x c)).
      { destruct Hcase as [->|(Hold & Hl2 & _ & Hoth & _)]; [intros x; repeat split|].
        apply (r2c_obs_one_empty s s2 ntid I2 Hoth).
        - intros t0 Ht0. destruct Hold as [Hnone|(t0' & Ht0' & Hf0)]; [congruence|]. rewrite Ht0 in Ht0'. injection Ht0' as <-.
          apply (r2c_free_len0 _ s ntid t0 HR Ht0 Hf0).
        - intros t2' Ht2'. rewrite Hnt in Ht2'. injection Ht2' as <-. exact Hl2. }
      destruct (rl_archs _ _ R _ a Ha) as (a2 & Ha2 & _ & A2c & A2i & _).
      pose proof Ha2 as Ha2'. rewrite <- Earch2 in Ha2'.
      assert (HS2' : St2 s2) by (apply St2_St2G; exact HS2).
      assert (HE : r2e_E s s2).
      { pose proof (r2e_fkp_goc (t_arch ot) newrels s) as Hfk. rewrite E2 in Hfk. cbn [state_of] in Hfk. apply (Hfk Hno). }
      (* the targets of the destination *)
      assert (Hnewtgt : forall c, tbl_target t2 c = r2s_new rels (tbl_target ot c) c).
      { intros c. destruct (in_dec Nat.eq_dec c (map fst newrels)) as [Hin|Hnin].
        - apply in_map_iff in Hin. destruct Hin as ([c' x] & Ec & Hin). cbn [fst] in Ec. subst c'.
          pose proof (Hm (c, x) Hin) as Hmx. cbn [fst snd] in Hmx. rewrite Hmx. apply Hchar in Hin. destruct Hin as (i & Hci & _ & Hx).
          unfold r2s_new. rewrite (r2s_tbl_target_col s otid ot a c i HW Hot Ha Hci). exact Hx.
        - assert (Eas : r2b_assigned rels c = None).
          { destruct (r2b_assigned rels c) as [y|] eqn:Eas; [|reflexivity]. exfalso. apply Hnin. apply r2s_assigned_in in Eas.
            destruct (Hcols (c, y) Eas) as (Hc1 & Hc2). cbn [fst] in Hc1, Hc2.
            destruct (r2s_named_relcol s otid ot a c HW Hot Ha Hc1 Hc2) as (i & Hci & Hrc & _).
            destruct HV as (_ & _ & V3 & _). apply V3. exists i. split; assumption. }
          unfold r2s_new. rewrite Eas.
          destruct (wf_layout _ HW otid ot Hot) as (b & Hb & Lo & _ & Lto). rewrite Ha in Hb. injection Hb as <-.
          destruct (wf_layout _ HW2 ntid t2 Hnt) as (b & Hb & Ln' & _ & Ltn). rewrite Ha2' in Hb. injection Hb as <-. rewrite A2c in Ln'.
          destruct HV as (_ & _ & V3 & _).
          unfold tbl_target, tbl_colidx. rewrite Lo, Ln'. destruct (index_of c (a_comps a)) as [i|] eqn:Ei; [|reflexivity].
          pose proof (rl_index_of_some _ _ _ Ei) as Hi. destruct (r2_isrel_len s _ a HW Ha) as (LI & _).
          destruct (nth_error (a_isrel a) i) as [[|]|] eqn:Eb.
          + exfalso. apply Hnin. apply V3. exists i. split; [exact Hi|exact Eb].
          + destruct (ri_shape _ _ HR otid ot a Hot Ha) as (_ & _ & S3 & _).
            destruct (ri_shape _ _ HR2 ntid t2 a2 Hnt Ha2') as (_ & _ & S3' & _). rewrite A2i in S3'.
            rewrite (S3 i Eb), (S3' i Eb). reflexivity.
          + apply nth_error_None in Eb. apply sa_nth_error_lt in Hi. lia. }
      assert (Hcar2 : r2s_carries t2 rels = true).
      { apply r2s_carries_iff. intros [c x] Hr. cbn [fst snd]. rewrite Hnewtgt. unfold r2s_new.
        rewrite (r2b_assigned_in rels c x Hnd Hr). reflexivity. }
      rewrite (sa_bind_ok E2). unfold ret.
      split.
      { (* the world only grew *)
        split.
        { unfold r2s_keep. split; [exact HS2'|]. split.
          { apply (r2e_KeysLive_E s s2 HS2' HK HE). intros x Hx. rewrite (proj1 (Obs2 x)). exact Hx. }
          split; [apply (r2s_noobs_oagg s s2); [destruct I4 as (_ & _ & _ & _ & -> & _); reflexivity|exact Hno]|].
          split; [destruct I4 as (-> & _); reflexivity|]. split; [intros e; apply Obs2|]. split; [intros e c; apply Obs2|].
          split; [exact I3|exact I5]. }
        split; [exact I2|]. split; [destruct I4 as (_ & -> & _); reflexivity|]. split; [intros e c; apply Obs2|].
        intros x t Ht. destruct Hcase as [->|(Hold & Hl2 & _ & Hoth & _)]; [exists t; split; [exact Ht|split; reflexivity]|].
        destruct (Nat.eq_dec x ntid) as [->|Hx].
        - destruct Hold as [Hnone|(t0 & Ht0 & Hf0)]; [congruence|]. rewrite Ht in Ht0. injection Ht0 as <-.
          exists t2. split; [exact Hnt|]. split; [rewrite Hl2; symmetry; apply (r2c_free_len0 _ s ntid t HR Ht Hf0)|]. intros Hc. congruence.
        - exists t. split; [rewrite (Hoth x Hx); exact Ht|]. split; reflexivity. }
      split; [exact Hnz|]. split; [exact Hfo|]. split; [exact Hnc|]. split; [exact Hnd|]. split; [exact Hcols|]. split; [exact Htok|].
      exists ntid, cm. split; [reflexivity|]. split; [exact Hne|]. exists t2. split; [exact Hnt|]. split; [exact Hf2|].
      split; [exact Earch2|]. split; [exact Hcar2|exact Hnewtgt].
  - (* nothing changes *)
    destruct XS as (-> & Hsame). destruct (XV _ _ eq_refl) as (Hnd & Hcols). rewrite (sa_bind_ok EX). cbv beta iota. unfold ret.
    split; [reflexivity|]. right. split; [exact Hnz|]. split; [apply r2s_carries_iff; exact Hsame|]. split; [exact Hnd|exact Hcols].
  - (* rejected by getExchangeTargets *)
    destruct XS as (-> & Hcause). rewrite (sa_bind_err EX). split; [reflexivity|]. split; [exact Hnz|].
    destruct Hcause as [Hd|(r & Hr & [Hc|(i & Ei & Ek)])]; [left; exact Hd|right; exists r; split; [exact Hr|]..].
    + left. exact Hc.
    + right. left. rewrite (r2s_kind_col s otid ot _ i HW Hot Ei) in Ek. rewrite r2_is_rel_comp_kind. exact Ek.
Qed.

(** ** The move of a planned table *)

(** What the move of one table's rows to [ntid] does (beyond [r2s_keep]). *)
Definition r2s_moved (s s' : W) (otid : nat) (ot : table) (ntid : nat) (rels : list rel) : Prop :=
  (forall e r, live s e = true -> loc s e = Some (otid, r) -> forall c, tgt s' e c = r2s_new rels (tgt s e c) c) /\
  (forall e, (live s e = false \/ forall r, loc s e <> Some (otid, r)) -> forall c, tgt s' e c = tgt s e c) /\
  (forall e, live s e = true -> (forall r, loc s e <> Some (otid, r)) -> loc s' e = loc s e) /\
  w_log s' = w_log s ++ map (fun i => b_entry (row_ent ot i)) (seq 0 (t_len ot)) /\
  (forall x, x <> otid -> x <> ntid -> nth_error (w_tables s') x = nth_error (w_tables s) x) /\
  (exists nt nt', nth_error (w_tables s) ntid = Some nt /\ nth_error (w_tables s') ntid = Some nt' /\ sb2_meta nt nt') /\
  (exists ot', nth_error (w_tables s') otid = Some ot' /\ sb2_meta ot ot' /\ t_len ot' = 0) /\
  (forall e r, live s e = true -> loc s e = Some (otid, r) -> exists r', loc s' e = Some (ntid, r')).

Theorem r2s_move_spec : forall s otid ntid ot nt cm rels,
  St2 s -> r2d_KeysLive s -> r2e_noobs s -> ntid <> otid ->
  nth_error (w_tables s) otid = Some ot -> nth_error (w_tables s) ntid = Some nt ->
  t_free ot = false -> t_free nt = false -> t_arch nt = t_arch ot ->
  (forall c, tbl_target nt c = r2s_new rels (tbl_target ot c) c) ->
  exists s', set_relations_move (otid, ntid, t_len ot, cm) s = Ok (ntid, t_len nt, t_len ot, cm) s' /\
    r2s_keep s s' /\ r2s_moved s s' otid ot ntid rels.
Proof.
  intros s otid ntid ot t2 cm rels HS2' HK Hno Hne Hot2 Hnt Hfo Hf2 Earch2 Hnewtgt.
  pose proof HS2' as HS2. apply St2_St2G in HS2. pose proof HS2' as (HW2 & _).
  assert (Hne' : otid <> ntid) by (intros ->; apply Hne; reflexivity).
  destruct (r2c_move_spec r2_none s otid ntid ot t2 HS2 Hne' Hot2 Hnt (eq_sym Earch2) Hfo Hf2)
    as (s3 & E3 & HS3 & (ot3 & Hot3 & Hlen3 & Mo3) & (nt3 & Hnt3 & Mn3) & Oth3 & Len3 & A3 & F3 & RA3 & P3 & Hlive3 & Hval3 & Hmv3 & Hst3 & SD3 & FU3).
  destruct (r2c_move_exec s otid ntid ot t2 HW2 Hne' Hot2 Hnt (eq_sym Earch2)) as (Ex & Fn & Eids).
  rewrite Ex in E3. injection E3 as E3.
  set (d := tbl_add_all t2 ot (t_len ot)) in *.
  assert (Hnt3' : nt3 = d).
  { pose proof (r2c_mv_tab s otid ntid ot t2 d Hne' Hot2 Hnt ntid) as Tab. rewrite E3, Hnt3 in Tab.
    destruct (Nat.eqb_spec otid ntid) as [Hc|_]; [contradiction|]. rewrite Nat.eqb_refl in Tab. congruence. }
  subst nt3. pose proof Fn as (On & Ln & _ & _ & Newn & _).
  assert (Hloc3o : forall e, live s e = true -> (forall r, loc s e <> Some (otid, r)) -> loc s3 e = loc s e).
  { intros e Hl Hnot. rewrite <- E3, (r2c_mv_loc s otid ntid ot t2 d HW2 Hne' Hot2 e).
    destruct (sb2_live_elim _ _ Hl) as (tid & r & t & L0 & T0 & R0 & E0).
    assert (Hn : tid <> otid) by (intros ->; apply (Hnot r); exact L0).
    rewrite <- E0, (r2c_mv_idx_other s otid ntid ot HW2 Hne' Hot2 tid t r T0 R0 Hn). reflexivity. }
  assert (Hloc3m : forall e r, live s e = true -> loc s e = Some (otid, r) -> loc s3 e = Some (ntid, t_len t2 + r)).
  { intros e r Hl L0. rewrite <- E3. apply (r2c_mv_moved s otid ntid ot t2 d HW2 Hne' Hot2 Hnt Fn Eids e r Hl L0). }
  (* the callbacks *)
  set (L := map (fun r => b_entry (nth r (t_ents d) zero_ent)) (seq (t_len t2) (t_len ot))).
  assert (Ecb : forM_ (seq (t_len t2) (t_len ot)) (fun i => batch_callback ntid [] i) s3 = Ok tt (b_logged s3 L)).
  { apply (b_callback_loop ntid d (seq (t_len t2) (t_len ot)) s3 Hnt3). intros r Hr. apply in_seq in Hr.
    pose proof (tbl_ok_elim _ On) as (N1 & N2 & _). lia. }
  assert (EL : L = map (fun i => b_entry (row_ent ot i)) (seq 0 (t_len ot))).
  { unfold L. replace (t_len t2) with (t_len t2 + 0) at 1 by lia.
    rewrite <- (r2c_map_seq_shift _ (fun r => b_entry (nth r (t_ents d) zero_ent)) (t_len ot) (t_len t2) 0).
    apply map_ext_in. intros i Hi. apply in_seq in Hi. f_equal. apply (Newn i). lia. }
  set (s4 := b_logged s3 L) in *.
  assert (SS4 : storage_same s3 s4) by (unfold storage_same; repeat split).
  destruct (r2s_storage_same_obs s3 s4 SS4) as (L4 & V4 & T4 & Lc4).
  assert (Eagg4 : w_oagg s4 = w_oagg s).
  { change (w_oagg s4) with (w_oagg s3). destruct SD3 as (_ & _ & _ & _ & -> & _). reflexivity. }
  assert (HS3' : St2 s3) by (apply St2_St2G; exact HS3).
  assert (HS4 : St2 s4) by (apply (r2c_storage_same_St2 s3 s4 SS4 HS3')).
  assert (HL4 : forall e, live s4 e = live s e) by (intros e; rewrite L4; apply Hlive3).
  exists s4. split.
  { unfold set_relations_move. rewrite (sa_bind_ok (sa_getT_eq _ _ _ Hnt)). cbv zeta.
    rewrite (sa_bind_ok Ex). rewrite E3. rewrite (sa_bind_ok Ecb). reflexivity. }
  split.
  { unfold r2s_keep. split; [exact HS4|]. split.
    { apply (r2d_KeysLive_mono s s4 HK); [change (w_archs s4) with (w_archs s3); exact A3|]. intros x Hx. rewrite HL4. exact Hx. }
    split; [apply (r2s_noobs_oagg s s4 Eagg4 Hno)|]. split.
    { change (w_lock s4) with (w_lock s3). destruct SD3 as (-> & _). reflexivity. }
    split; [exact HL4|]. split; [intros e c; rewrite V4; apply Hval3|]. split.
    { change (w_pool s4) with (w_pool s3). exact P3. }
    apply (sa_frame_user_trans s s3 s4 FU3). unfold frame_user. cbn. repeat split. }
  unfold r2s_moved. split.
  { intros e r Hl L0 c. rewrite T4. destruct (Hmv3 e r Hl L0 c) as (M1 & M2). rewrite M1, M2. apply Hnewtgt. }
  split; [intros e Hor c; rewrite T4; apply Hst3; exact Hor|].
  split; [intros e Hl Hnot; rewrite Lc4; apply Hloc3o; assumption|].
  split.
  { change (w_log s4) with (w_log s3 ++ L). rewrite EL. f_equal. destruct SD3 as (_ & -> & _). reflexivity. }
  split; [intros x H1 H2; change (w_tables s4) with (w_tables s3); apply (Oth3 x H1 H2)|].
  split; [exists t2, d; split; [exact Hnt|split; [exact Hnt3|exact Mn3]]|].
  split; [exists ot3; split; [exact Hot3|split; [exact Mo3|exact Hlen3]]|].
  intros e r Hl L0. exists (t_len t2 + r). rewrite Lc4. apply Hloc3m; assumption.
Qed.

(** ** One table: plan, then move (what the old [setRelationsTable] did in one go)

    [r2s_table otid rels] plans table [otid] and, if there is a plan, carries it out. Both outcomes keep
    the invariant; a failure leaves the state unchanged (causes: component named twice, missing, not a
    relation component, dead target); an empty table, or one that carries the assigned targets already,
    is left alone; otherwise all rows move to the destination [ntid] ([r2s_moved]). *)
Definition r2s_table (otid : nat) (rels : list rel) : MW unit :=
  p <- set_relations_plan otid rels ;;
  match p with None => ret tt | Some pl => _ <- set_relations_move pl ;; ret tt end.

Theorem r2s_table_spec : forall s otid ot rels,
  St2 s -> r2d_KeysLive s -> r2e_noobs s ->
  nth_error (w_tables s) otid = Some ot ->
  (forall r, In r rels -> r2b_handle_ok s (snd r)) ->
  match r2s_table otid rels s with
  | Ok _ s' =>
      r2s_keep s s' /\
      ((t_len ot = 0 /\ s' = s) \/
       (t_len ot <> 0 /\ NoDup (map fst rels) /\
        (forall r, In r rels -> tbl_colidx ot (fst r) <> None /\ is_rel_comp s (fst r) = true) /\
        ((r2s_carries ot rels = true /\ s' = s) \/
         (r2s_carries ot rels = false /\ (forall r, In r rels -> snd r = zero_ent \/ live s (snd r) = true) /\
          exists ntid s1, r2s_grow s s1 /\ r2s_plan_ok s1 otid ot rels ntid /\ r2s_moved s1 s' otid ot ntid rels))))
  | Err _ s' =>
      s' = s /\ t_len ot <> 0 /\
      (rels_distinct rels = false \/
       exists r, In r rels /\ (tbl_colidx ot (fst r) = None \/ is_rel_comp s (fst r) = false \/
                               (r2s_carries ot rels = false /\ fst (snd r) <> 0 /\ alive s (snd r) = false)))
  end.
Proof.
  intros s otid ot rels HS HK Hno Hot Hhok. unfold r2s_table.
  pose proof (r2s_plan_spec s otid ot rels HS HK Hno Hot Hhok) as P.
  destruct (set_relations_plan otid rels s) as [[p|] s1|er s1] eqn:EP.
  - destruct P as (G & Hnz & Hfo & Hnc & Hnd & Hcols & Htok & ntid & cm & -> & PO). rewrite (sa_bind_ok EP).
    pose proof G as (K1 & _ & _ & _ & GT). pose proof K1 as (HS1 & HK1 & Hno1 & _).
    pose proof PO as (Hne & nt & Hnt & Hfn & Earch & _ & Hnew).
    assert (Hot1 : nth_error (w_tables s1) otid = Some ot).
    { destruct (GT otid ot Hot) as (t' & Ht' & _ & Ef). rewrite (Ef Hfo) in Ht'. exact Ht'. }
    destruct (r2s_move_spec s1 otid ntid ot nt cm rels HS1 HK1 Hno1 Hne Hot1 Hnt Hfo Hfn Earch Hnew) as (s2 & E2 & K2 & M2).
    rewrite (sa_bind_ok E2). unfold ret. split; [apply (r2s_keep_trans s s1 s2 K1 K2)|]. right.
    split; [exact Hnz|]. split; [exact Hnd|]. split; [exact Hcols|]. right. split; [exact Hnc|]. split; [exact Htok|].
    exists ntid, s1. split; [exact G|]. split; [exact PO|exact M2].
  - destruct P as (-> & Hcase). rewrite (sa_bind_ok EP). unfold ret. split; [apply (r2s_keep_refl s HS HK Hno)|].
    destruct Hcase as [Hz|(Hnz & Hc & Hnd & Hcols)]; [left; split; [exact Hz|reflexivity]|].
    right. split; [exact Hnz|]. split; [exact Hnd|]. split; [exact Hcols|]. left. split; [exact Hc|reflexivity].
  - rewrite (sa_bind_err EP). exact P.
Qed.

(** The same in terms of the observables: the entities stored in the table get the assigned
    targets, nobody else changes (whether rows were moved or the table carried the targets already). *)
Corollary r2s_table_obs : forall s otid ot rels u s',
  St2 s -> r2d_KeysLive s -> r2e_noobs s ->
  nth_error (w_tables s) otid = Some ot ->
  (forall r, In r rels -> r2b_handle_ok s (snd r)) ->
  r2s_table otid rels s = Ok u s' ->
  r2s_keep s s' /\
  (forall e r, live s e = true -> loc s e = Some (otid, r) -> forall c, tgt s' e c = r2s_new rels (tgt s e c) c) /\
  (forall e, (live s e = false \/ forall r, loc s e <> Some (otid, r)) -> forall c, tgt s' e c = tgt s e c) /\
  (forall e, live s e = true -> (forall r, loc s e <> Some (otid, r)) -> loc s' e = loc s e).
Proof.
  intros s otid ot rels u s' HS HK Hno Hot Hhok E.
  pose proof (r2s_table_spec s otid ot rels HS HK Hno Hot Hhok) as P. rewrite E in P.
  destruct P as (Hkeep & [(Hz & ->)|(Hnz & _ & _ & [(Hc & ->)|(_ & _ & ntid & s1 & G & _ & (M1 & M2 & M3 & _))])]).
  - split; [exact Hkeep|]. split; [|split; [reflexivity|reflexivity]].
    intros e r Hl L0 c. destruct (sb2_mv_row s e otid r ot Hl L0 Hot) as (Hr & _). lia.
  - split; [exact Hkeep|]. split; [|split; [reflexivity|reflexivity]].
    intros e r Hl L0 c. rewrite (r2c_tgt_at s e otid r ot L0 Hot c), Hl. symmetry. apply r2s_new_carries. exact Hc.
  - pose proof G as ((_ & _ & _ & _ & GL & _) & _ & _ & GT & _). pose proof (r2s_grow_loc s s1 G) as GLoc.
    split; [exact Hkeep|]. split; [|split].
    + intros e r Hl L0 c. rewrite <- GT. apply (M1 e r); [rewrite GL; exact Hl|rewrite GLoc; exact L0].
    + intros e Hor c. rewrite <- GT. apply M2. destruct Hor as [Hd|Hnot]; [left; rewrite GL; exact Hd|right; intros r; rewrite GLoc; apply Hnot].
    + intros e Hl Hnot. rewrite <- GLoc. apply M3; [rewrite GL; exact Hl|intros r; rewrite GLoc; apply Hnot].
Qed.

(* ================================================================================================ *)
(** * Part 2: the two loops: planning all tables, then moving all plans *)

Definition r2s_plan : Type := (nat * nat * nat * mask)%type.
Definition r2s_src (p : r2s_plan) : nat := fst (fst (fst p)).
Definition r2s_dst (p : r2s_plan) : nat := snd (fst (fst p)).
Definition r2s_plen (p : r2s_plan) : nat := snd (fst p).

(** The invariant of the move loop on the plans still to be carried out: no table is a source twice;
    every source is an active table that still has the planned length and does NOT carry the assigned
    targets; every destination is another active table of the same archetype that DOES carry them (so
    no destination is a source: no source receives rows before it is moved), with exactly the
    re-targeted labels. Destinations may coincide. *)
Definition r2s_plans_ok (s : W) (rels : list rel) (ps : list r2s_plan) : Prop :=
  NoDup (map r2s_src ps) /\
  forall p, In p ps -> exists ot nt,
    nth_error (w_tables s) (r2s_src p) = Some ot /\ t_free ot = false /\ t_len ot = r2s_plen p /\ r2s_carries ot rels = false /\
    r2s_dst p <> r2s_src p /\ nth_error (w_tables s) (r2s_dst p) = Some nt /\ t_free nt = false /\ t_arch nt = t_arch ot /\
    r2s_carries nt rels = true /\ (forall c, tbl_target nt c = r2s_new rels (tbl_target ot c) c).

Lemma r2s_grow_fwd : forall s s' x t, r2s_grow s s' -> nth_error (w_tables s) x = Some t -> t_free t = false ->
  nth_error (w_tables s') x = Some t.
Proof. intros s s' x t (_ & _ & _ & _ & GT) Ht Hf. destruct (GT x t Ht) as (t' & Ht' & _ & Ef). rewrite (Ef Hf) in Ht'. exact Ht'. Qed.

Lemma r2s_len_nonfree : forall s x t, St2 s -> nth_error (w_tables s) x = Some t -> t_len t <> 0 -> t_free t = false.
Proof.
  intros s x t (_ & (HR & _) & _) Ht Hl. destruct (t_free t) eqn:Ef; [|reflexivity]. exfalso. apply Hl. apply (r2c_free_len0 _ s x t HR Ht Ef).
Qed.

Lemma r2s_grow_back : forall s s' x t0 t', r2s_grow s s' -> St2 s -> nth_error (w_tables s) x = Some t0 ->
  nth_error (w_tables s') x = Some t' -> t_len t' <> 0 -> t0 = t'.
Proof.
  intros s s' x t0 t' (_ & _ & _ & _ & GT) HS Ht0 Ht' Hl. destruct (GT x t0 Ht0) as (t1 & Ht1 & El & Ef).
  rewrite Ht' in Ht1. injection Ht1 as <-. symmetry. apply Ef. apply (r2s_len_nonfree s x t0 HS Ht0). congruence.
Qed.

Lemma r2s_plans_ok_grow : forall s s' rels ps, r2s_grow s s' -> r2s_plans_ok s rels ps -> r2s_plans_ok s' rels ps.
Proof.
  intros s s' rels ps G (Hnd & Hall). split; [exact Hnd|]. intros p Hp.
  destruct (Hall p Hp) as (ot & nt & A1 & A2 & A3 & A4 & A5 & A6 & A7 & A8 & A9 & A10). exists ot, nt.
  split; [apply (r2s_grow_fwd s s' _ ot G A1 A2)|]. split; [exact A2|]. split; [exact A3|]. split; [exact A4|]. split; [exact A5|].
  split; [apply (r2s_grow_fwd s s' _ nt G A6 A7)|]. repeat split; assumption.
Qed.

Lemma r2s_opt_list_some : forall A (a : A) l, opt_list (Some a :: l) = a :: opt_list l.
Proof. reflexivity. Qed.
Lemma r2s_opt_list_none : forall A (l : list (option A)), opt_list (None :: l) = opt_list l.
Proof. reflexivity. Qed.

(** ** The plan loop: no row moves; the plans are exactly the selected non-empty tables that change *)

Lemma r2s_plan_loop : forall (V : Prop) rels tabs s,
  St2 s -> r2d_KeysLive s -> r2e_noobs s -> (forall r, In r rels -> r2b_handle_ok s (snd r)) ->
  NoDup tabs -> (forall tid, In tid tabs -> exists t, nth_error (w_tables s) tid = Some t) ->
  (V -> forall tid t, In tid tabs -> nth_error (w_tables s) tid = Some t -> t_len t <> 0 ->
        forall r, In r rels -> tbl_colidx t (fst r) <> None) ->
  match mapM tabs (fun tid => set_relations_plan tid rels) s with
  | Ok ps s' => r2s_grow s s' /\ r2s_plans_ok s' rels (opt_list ps) /\
      (forall tid, In tid (map r2s_src (opt_list ps)) <->
         In tid tabs /\ exists t, nth_error (w_tables s) tid = Some t /\ t_len t <> 0 /\ r2s_carries t rels = false) /\
      (opt_list ps <> [] -> forall r, In r rels -> snd r = zero_ent \/ live s (snd r) = true)
  | Err _ s' => r2s_grow s s' /\ ~ (V /\ r2s_valid s rels)
  end.
Proof.
  intros V rels tabs. induction tabs as [|tid rest IH]; intros s HS HK Hno Hhok Hnd Hval HV.
  - cbn [mapM]. unfold ret. split; [apply r2s_grow_refl; assumption|]. split; [split; [constructor|intros p []]|].
    split; [|intros Hc; exfalso; apply Hc; reflexivity]. intros tid. split; [intros []|intros ([] & _)].
  - cbn [mapM]. apply NoDup_cons_iff in Hnd. destruct Hnd as (Hnin & Hnd').
    destruct (Hval tid (or_introl eq_refl)) as (ot & Hot).
    pose proof (r2s_plan_spec s tid ot rels HS HK Hno Hot Hhok) as P.
    destruct (set_relations_plan tid rels s) as [[p|] s1|er s1] eqn:EP.
    + (* a plan *)
      destruct P as (G1 & Hnz & Hfo & Hnc & Hndr & Hcols & Htok & ntid & cm & -> & PO). rewrite (sa_bind_ok EP).
      pose proof G1 as (K1 & _ & _ & _ & GT1). pose proof K1 as (HS1 & HK1 & Hno1 & _).
      assert (Hhok1 : forall r, In r rels -> r2b_handle_ok s1 (snd r)) by (intros r Hr; apply (r2s_handle_ok_keep s s1 _ K1); apply Hhok; exact Hr).
      assert (Hval1 : forall x, In x rest -> exists t, nth_error (w_tables s1) x = Some t).
      { intros x Hx. destruct (Hval x (or_intror Hx)) as (t & Ht). destruct (GT1 x t Ht) as (t' & Ht' & _). exists t'. exact Ht'. }
      assert (HV1 : V -> forall x t, In x rest -> nth_error (w_tables s1) x = Some t -> t_len t <> 0 ->
                      forall r, In r rels -> tbl_colidx t (fst r) <> None).
      { intros Hv x t Hx Ht Hl. destruct (Hval x (or_intror Hx)) as (t0 & Ht0).
        pose proof (r2s_grow_back s s1 x t0 t G1 HS Ht0 Ht Hl) as <-. apply (HV Hv x t0 (or_intror Hx) Ht0 Hl). }
      specialize (IH s1 HS1 HK1 Hno1 Hhok1 Hnd' Hval1 HV1).
      destruct (mapM rest (fun tid0 => set_relations_plan tid0 rels) s1) as [ps s2|er s2] eqn:EM.
      2:{ rewrite (sa_bind_err EM). destruct IH as (G2 & Hnv). split; [apply (r2s_grow_trans s s1 s2 G1 G2)|].
          intros (Hv & Hvl). apply Hnv. split; [exact Hv|apply (r2s_valid_keep s s1 rels K1 Hvl)]. }
      rewrite (sa_bind_ok EM). unfold ret. destruct IH as (G2 & (Hnd2 & PO2) & Iff2 & Tok2).
      pose proof (r2s_grow_trans s s1 s2 G1 G2) as G. rewrite r2s_opt_list_some.
      split; [exact G|]. split; [|split; [|intros _; exact Htok]].
      * split.
        { cbn [map]. constructor; [|exact Hnd2]. cbn [r2s_src fst]. intros Hin. apply Iff2 in Hin. apply Hnin. apply Hin. }
        intros p [<-|Hp]; [|apply PO2; exact Hp]. destruct PO as (Hne & nt & Hnt & Hfn & Earch & Hcn & Hnew).
        exists ot, nt. cbn [r2s_src r2s_dst r2s_plen fst snd].
        split; [apply (r2s_grow_fwd s s2 _ ot G Hot Hfo)|]. split; [exact Hfo|]. split; [reflexivity|]. split; [exact Hnc|]. split; [exact Hne|].
        split; [apply (r2s_grow_fwd s1 s2 _ nt G2 Hnt Hfn)|]. repeat split; assumption.
      * intros x. cbn [map]. cbn [r2s_src fst]. split.
        -- intros [<-|Hin]; [split; [left; reflexivity|exists ot; repeat split; assumption]|].
           apply Iff2 in Hin. destruct Hin as (Hx & t & Ht & Hl & Hc). split; [right; exact Hx|].
           destruct (Hval x (or_intror Hx)) as (t0 & Ht0). pose proof (r2s_grow_back s s1 x t0 t G1 HS Ht0 Ht Hl) as <-.
           exists t0. repeat split; assumption.
        -- intros ([<-|Hx] & t & Ht & Hl & Hc); [left; reflexivity|]. right. apply Iff2. split; [exact Hx|]. exists t.
           split; [apply (r2s_grow_fwd s s1 x t G1 Ht (r2s_len_nonfree s x t HS Ht Hl))|]. split; assumption.
    + (* no plan: empty, or carries the targets *)
      destruct P as (-> & Hcase). rewrite (sa_bind_ok EP).
      specialize (IH s HS HK Hno Hhok Hnd' (fun x Hx => Hval x (or_intror Hx)) (fun Hv x t Hx => HV Hv x t (or_intror Hx))).
      destruct (mapM rest (fun tid0 => set_relations_plan tid0 rels) s) as [ps s2|er s2] eqn:EM.
      2:{ rewrite (sa_bind_err EM). exact IH. }
      rewrite (sa_bind_ok EM). unfold ret. rewrite r2s_opt_list_none. destruct IH as (G2 & PO2 & Iff2 & Tok2).
      split; [exact G2|]. split; [exact PO2|]. split; [|exact Tok2]. intros x. rewrite (Iff2 x). split.
      * intros (Hx & H). split; [right; exact Hx|exact H].
      * intros ([<-|Hx] & t & Ht & Hl & Hc); [|split; [exact Hx|exists t; repeat split; assumption]]. exfalso.
        rewrite Hot in Ht. injection Ht as <-. destruct Hcase as [Hz|(_ & Hc' & _)]; [exact (Hl Hz)|congruence].
    + (* rejected *)
      destruct P as (-> & Hnz & Hcause). rewrite (sa_bind_err EP). split; [apply r2s_grow_refl; assumption|].
      intros (Hv & (Vnd & Vr)). destruct Hcause as [Hd|(r & Hr & [Hc|[Hc|(_ & Hc1 & Hc2)]])].
      * rewrite (proj2 (rl_rels_distinct_nodup rels) Vnd) in Hd. discriminate.
      * apply (HV Hv tid ot (or_introl eq_refl) Hot Hnz r Hr Hc).
      * rewrite (proj1 (Vr r Hr)) in Hc. discriminate.
      * destruct (proj2 (Vr r Hr)) as [Hz|Hl]; [rewrite Hz in Hc1; apply Hc1; reflexivity|].
        destruct (live_alive s (snd r) (proj1 HS) Hl) as (Hal & _). congruence.
Qed.

(** ** The move loop *)

Definition r2s_srcb (ps : list r2s_plan) (tid : nat) : bool := existsb (fun p => Nat.eqb (r2s_src p) tid) ps.

(** [e] is stored in a table that is the source of a plan *)
Definition r2s_selb (s : W) (ps : list r2s_plan) (e : ent) : bool :=
  (live s e && match loc s e with Some (tid, _) => r2s_srcb ps tid | None => false end)%bool.

Lemma r2s_srcb_in : forall ps tid, r2s_srcb ps tid = true <-> In tid (map r2s_src ps).
Proof.
  intros ps tid. unfold r2s_srcb. rewrite existsb_exists, in_map_iff. split.
  - intros (p & Hp & E). apply Nat.eqb_eq in E. exists p. split; assumption.
  - intros (p & E & Hp). exists p. split; [exact Hp|apply Nat.eqb_eq; exact E].
Qed.

Lemma r2s_selb_at : forall s ps e tid r, live s e = true -> loc s e = Some (tid, r) -> r2s_selb s ps e = r2s_srcb ps tid.
Proof. intros s ps e tid r Hl L. unfold r2s_selb. rewrite Hl, L. reflexivity. Qed.
Lemma r2s_selb_dead : forall s ps e, live s e = false -> r2s_selb s ps e = false.
Proof. intros s ps e Hl. unfold r2s_selb. rewrite Hl. reflexivity. Qed.

Lemma r2s_plans_step : forall s s1 rels p rest ot,
  r2s_plans_ok s rels (p :: rest) -> nth_error (w_tables s) (r2s_src p) = Some ot ->
  r2s_moved s s1 (r2s_src p) ot (r2s_dst p) rels -> r2s_plans_ok s1 rels rest.
Proof.
  intros s s1 rels p rest ot (Hnd & Hall) Hot (_ & _ & _ & _ & Hoth & (nt & nt' & Hnt & Hnt' & Mn) & _).
  cbn [map] in Hnd. apply NoDup_cons_iff in Hnd. destruct Hnd as (Hnin & Hnd').
  destruct (Hall p (or_introl eq_refl)) as (ot0 & nt0 & P1 & _ & _ & P4 & _ & P6 & _ & _ & P9 & _).
  rewrite Hot in P1. injection P1 as <-. rewrite Hnt in P6. injection P6 as <-.
  split; [exact Hnd'|]. intros q Hq.
  destruct (Hall q (or_intror Hq)) as (qo & qn & Q1 & Q2 & Q3 & Q4 & Q5 & Q6 & Q7 & Q8 & Q9 & Q10).
  assert (N1 : r2s_src q <> r2s_src p) by (intros E; apply Hnin; rewrite <- E; apply in_map; exact Hq).
  assert (N2 : r2s_src q <> r2s_dst p) by (intros E; rewrite E, Hnt in Q1; injection Q1 as <-; congruence).
  assert (N3 : r2s_dst q <> r2s_src p) by (intros E; rewrite E, Hot in Q6; injection Q6 as <-; congruence).
  destruct (Nat.eq_dec (r2s_dst q) (r2s_dst p)) as [E|N4].
  - rewrite E, Hnt in Q6. injection Q6 as <-. exists qo, nt'.
    split; [rewrite (Hoth _ N1 N2); exact Q1|]. split; [exact Q2|]. split; [exact Q3|]. split; [exact Q4|]. split; [exact Q5|].
    split; [rewrite E; exact Hnt'|]. pose proof Mn as (M1 & _ & _ & _ & _ & M6).
    split; [rewrite M6; exact Q7|]. split; [rewrite M1; exact Q8|]. split; [rewrite (r2s_carries_meta nt nt' rels Mn); exact Q9|].
    intros c. rewrite (r2c_tbl_target_meta nt nt' c Mn). apply Q10.
  - exists qo, qn. split; [rewrite (Hoth _ N1 N2); exact Q1|]. split; [exact Q2|]. split; [exact Q3|]. split; [exact Q4|]. split; [exact Q5|].
    split; [rewrite (Hoth _ N3 N4); exact Q6|]. repeat split; assumption.
Qed.

Lemma r2s_move_loop : forall rels ps s,
  St2 s -> r2d_KeysLive s -> r2e_noobs s -> r2s_plans_ok s rels ps ->
  exists moved s', mapM ps set_relations_move s = Ok moved s' /\ r2s_keep s s' /\
    (forall e c, tgt s' e c = if r2s_selb s ps e then r2s_new rels (tgt s e c) c else tgt s e c) /\
    (exists es, w_log s' = w_log s ++ map b_entry es /\ NoDup es /\ forall e, In e es <-> r2s_selb s ps e = true).
Proof.
  intros rels ps. induction ps as [|p rest IH]; intros s HS HK Hno Hok.
  - exists [], s. split; [reflexivity|]. split; [apply r2s_keep_refl; assumption|]. split.
    + intros e c. unfold r2s_selb, r2s_srcb. cbn [existsb]. destruct (live s e); [destruct (loc s e) as [[tid r]|]|]; reflexivity.
    + exists []. cbn [map]. rewrite app_nil_r. split; [reflexivity|]. split; [constructor|]. intros e. split; [intros []|].
      unfold r2s_selb, r2s_srcb. cbn [existsb]. destruct (live s e); [destruct (loc s e) as [[tid r]|]|]; cbn; discriminate.
  - pose proof HS as (HW & _). pose proof Hok as (Hnd & Hall).
    destruct (Hall p (or_introl eq_refl)) as (ot & nt & P1 & P2 & P3 & P4 & P5 & P6 & P7 & P8 & P9 & P10).
    cbn [map] in Hnd. apply NoDup_cons_iff in Hnd. destruct Hnd as (Hnin & Hnd').
    assert (Ep : p = (r2s_src p, r2s_dst p, t_len ot, snd p)) by (rewrite P3; destruct p as [[[a b] c] d]; reflexivity).
    set (otid := r2s_src p) in *. set (ntid := r2s_dst p) in *.
    destruct (r2s_move_spec s otid ntid ot nt (snd p) rels HS HK Hno P5 P1 P6 P2 P7 P8 P10) as (s1 & E1 & K1 & M1).
    rewrite <- Ep in E1.
    pose proof (r2s_plans_step s s1 rels p rest ot Hok P1 M1) as Hok1.
    pose proof K1 as (HS1 & HK1 & Hno1 & _ & HL1 & _).
    destruct (IH s1 HS1 HK1 Hno1 Hok1) as (mv & s' & E2 & K2 & T2 & (es2 & Lg2 & ND2 & In2)).
    exists ((ntid, t_len nt, t_len ot, snd p) :: mv), s'. split.
    { cbn [mapM]. rewrite (sa_bind_ok E1), (sa_bind_ok E2). reflexivity. }
    split; [apply (r2s_keep_trans s s1 s' K1 K2)|].
    destruct M1 as (O1 & O2 & O3 & MLog & Hoth & (nt0 & nt' & Hnt0 & Hnt' & Mn) & _ & Mloc).
    rewrite P6 in Hnt0. injection Hnt0 as <-.
    assert (HsrcA : r2s_srcb (p :: rest) otid = true) by (unfold r2s_srcb; cbn [existsb]; fold otid; rewrite Nat.eqb_refl; reflexivity).
    assert (HsrcO : forall tid, tid <> otid -> r2s_srcb (p :: rest) tid = r2s_srcb rest tid).
    { intros tid Ht. unfold r2s_srcb. cbn [existsb]. fold otid. apply Nat.eqb_neq in Ht. rewrite Nat.eqb_sym in Ht. rewrite Ht. reflexivity. }
    (* the destination is not a source of the remaining plans *)
    assert (HdstN : r2s_srcb rest ntid = false).
    { destruct (r2s_srcb rest ntid) eqn:E; [|reflexivity]. exfalso. apply r2s_srcb_in in E. apply in_map_iff in E.
      destruct E as (q & Eq & Hq). destruct (Hall q (or_intror Hq)) as (qo & _ & Q1 & _ & _ & Q4 & _).
      rewrite Eq, P6 in Q1. injection Q1 as <-. congruence. }
    assert (Hmoved1 : forall e r, live s e = true -> loc s e = Some (otid, r) -> r2s_selb s1 rest e = false).
    { intros e r Hl L0. destruct (Mloc e r Hl L0) as (r' & L1). assert (Hl1 : live s1 e = true) by (rewrite HL1; exact Hl).
      rewrite (r2s_selb_at s1 rest e ntid r' Hl1 L1). exact HdstN. }
    split.
    { intros e c. rewrite (T2 e c). destruct (live s e) eqn:Hl.
      - destruct (sb2_live_elim _ _ Hl) as (tid & r & t & L0 & T0 & R0 & E0).
        rewrite (r2s_selb_at s _ e tid r Hl L0).
        destruct (Nat.eq_dec tid otid) as [->|HtA].
        + rewrite HsrcA, (Hmoved1 e r Hl L0). apply (O1 e r Hl L0 c).
        + assert (Hnot : forall r', loc s e <> Some (otid, r')) by (intros r' Hc; rewrite L0 in Hc; congruence).
          assert (L1 : loc s1 e = Some (tid, r)) by (rewrite (O3 e Hl Hnot); exact L0).
          assert (Hl1 : live s1 e = true) by (rewrite HL1; exact Hl).
          rewrite (r2s_selb_at s1 _ e tid r Hl1 L1), (HsrcO tid HtA), (O2 e (or_intror Hnot) c). reflexivity.
      - assert (Hl1 : live s1 e = false) by (rewrite HL1; exact Hl).
        rewrite (r2s_selb_dead s _ e Hl), (r2s_selb_dead s1 _ e Hl1). apply (O2 e (or_introl Hl) c). }
    exists (r2s_rows ot ++ es2). split.
    { rewrite Lg2, MLog, map_app, app_assoc. unfold r2s_rows. rewrite map_map. reflexivity. }
    split.
    { apply r2s_nodup_app; [apply (r2s_rows_nodup s otid ot HW P1)|exact ND2|].
      intros e He Hin2. apply In2 in Hin2. apply (r2s_rows_in s otid ot e HW P1) in He. destruct He as (Hl & r & L0).
      rewrite (Hmoved1 e r Hl L0) in Hin2. discriminate. }
    intros e. rewrite in_app_iff, (In2 e). destruct (live s e) eqn:Hl.
    2:{ assert (Hl1 : live s1 e = false) by (rewrite HL1; exact Hl).
        rewrite (r2s_selb_dead s _ e Hl), (r2s_selb_dead s1 _ e Hl1). split; [|intros Hc; discriminate Hc].
        intros [He|Hf]; [|discriminate Hf]. apply (r2s_rows_in s otid ot e HW P1) in He. destruct He as (Hc' & _). congruence. }
    destruct (sb2_live_elim _ _ Hl) as (tid & r & t & L0 & T0 & R0 & E0).
    rewrite (r2s_selb_at s _ e tid r Hl L0). destruct (Nat.eq_dec tid otid) as [->|HtA].
    + rewrite HsrcA. split; [intros _; reflexivity|]. intros _. left.
      apply (r2s_rows_in s otid ot e HW P1). split; [exact Hl|exists r; exact L0].
    + assert (Hnot : forall r', loc s e <> Some (otid, r')) by (intros r' Hc'; rewrite L0 in Hc'; congruence).
      assert (L1 : loc s1 e = Some (tid, r)) by (rewrite (O3 e Hl Hnot); exact L0).
      assert (Hl1 : live s1 e = true) by (rewrite HL1; exact Hl).
      rewrite (r2s_selb_at s1 _ e tid r Hl1 L1), (HsrcO tid HtA). split; [|intros H; right; exact H].
      intros [He|H]; [|exact H]. exfalso. apply (r2s_rows_in s otid ot e HW P1) in He. destruct He as (_ & r' & Hc'). apply (Hnot r' Hc').
Qed.
(* ================================================================================================ *)
(** * Part 3: the selection ([get_batch_tables]) never names a table twice

    In every [St2] state, for an arbitrary filter index and arbitrary batch relations: if the selection
    succeeds, the state is unchanged, the list is duplicate-free and consists of valid table ids; if
    it fails, the state is unchanged. (The relation-tier facts of Rel2Cache.v need the batch relations
    to name relation components of the filter's mask; the two facts needed here do not.) *)

Lemma r2s_tm_pure_sub : forall T rels b l acc r, k_tm_pure T rels b l acc = inr r ->
  exists r', r = rev acc ++ r' /\ (forall x, In x r' -> In x l /\ exists t, nth_error T x = Some t) /\ (NoDup l -> NoDup r').
Proof.
  intros T rels b l. induction l as [|tid rest IH]; intros acc r H.
  - cbn [k_tm_pure] in H. injection H as <-. exists []. rewrite app_nil_r. split; [reflexivity|]. split; [intros x []|intros _; constructor].
  - cbn [k_tm_pure] in H. destruct (nth_error T tid) as [t|] eqn:Et; [|discriminate].
    assert (Skip : forall acc', k_tm_pure T rels b rest acc' = inr r -> acc' = acc ->
              exists r', r = rev acc ++ r' /\ (forall x, In x r' -> In x (tid :: rest) /\ exists t0, nth_error T x = Some t0) /\
                         (NoDup (tid :: rest) -> NoDup r')).
    { intros acc' H' ->. destruct (IH acc r H') as (r' & E & Hsub & Hnd). exists r'. split; [exact E|]. split.
      - intros x Hx. destruct (Hsub x Hx) as (A1 & A2). split; [right; exact A1|exact A2].
      - intros Hn. apply NoDup_cons_iff in Hn. apply Hnd. apply Hn. }
    destruct (b && Nat.eqb (t_len t) 0)%bool; [apply (Skip acc H eq_refl)|].
    destruct (tbl_matches t rels) as [[|]|]; [|apply (Skip acc H eq_refl)|discriminate].
    destruct (IH (tid :: acc) r H) as (r' & E & Hsub & Hnd). exists (tid :: r'). split.
    { rewrite E. cbn [rev]. rewrite <- app_assoc. reflexivity. }
    split.
    + intros x [<-|Hx]; [split; [left; reflexivity|exists t; exact Et]|].
      destruct (Hsub x Hx) as (A1 & A2). split; [right; exact A1|exact A2].
    + intros Hn. apply NoDup_cons_iff in Hn. destruct Hn as (Hn1 & Hn2). constructor; [|apply Hnd; exact Hn2].
      intros Hin. apply Hn1. apply (Hsub tid Hin).
Qed.

Lemma r2s_skipn_cons : forall A (l : list A) i a rest, skipn i l = a :: rest -> nth_error l i = Some a /\ skipn (S i) l = rest.
Proof.
  intros A l. induction l as [|x l IH]; intros i a rest H.
  - destruct i; discriminate.
  - destruct i as [|i].
    + cbn [skipn] in H. injection H as -> ->. split; reflexivity.
    + cbn [skipn] in H. destruct (IH i a rest H) as (H1 & H2). split; [exact H1|exact H2].
Qed.

Lemma r2s_arch_get_tables : forall s aid a rels cand, St2 s -> nth_error (w_archs s) aid = Some a ->
  arch_get_tables a rels = Some cand ->
  NoDup cand /\ forall x, In x cand -> exists t, nth_error (w_tables s) x = Some t /\ t_arch t = aid.
Proof.
  intros s aid a rels cand (HW & (HR & _) & _) Ha H.
  assert (Tabs : NoDup (a_tables a) /\ forall x, In x (a_tables a) -> exists t, nth_error (w_tables s) x = Some t /\ t_arch t = aid).
  { split; [apply (ri_nodup _ _ HR aid a Ha)|]. intros x Hx. apply (wf_arch_tables _ HW aid a x Ha). left. exact Hx. }
  assert (Nil : NoDup (@nil nat) /\ forall x, In x (@nil nat) -> exists t, nth_error (w_tables s) x = Some t /\ t_arch t = aid).
  { split; [constructor|intros x []]. }
  unfold arch_get_tables in H. destruct rels as [|[c tg] rest]; [injection H as <-; exact Tabs|].
  destruct (negb (arch_has_rels a)); [injection H as <-; exact Tabs|].
  destruct (index_of c (a_comps a)) as [idx|]; [|injection H as <-; exact Nil].
  destruct (nth_error (a_reltabs a) idx) as [m|] eqn:Em; [|discriminate].
  destruct (afind (fst tg) m) as [tabs|] eqn:Ek; injection H as <-; [|exact Nil].
  destruct (ri_reltabs _ _ HR aid a idx m (fst tg) tabs Ha Em Ek) as (Hnd & _). split; [exact Hnd|].
  intros x Hx. apply (wf_arch_tables _ HW aid a x Ha). right. right. left. exists idx, m, (fst tg), tabs. repeat split; assumption.
Qed.

Lemma r2s_upure_facts : forall s f rels, St2 s -> forall l i acc r,
  skipn i (w_archs s) = l -> NoDup acc ->
  (forall x, In x acc -> exists t, nth_error (w_tables s) x = Some t /\ t_arch t < i) ->
  k_upure (w_tables s) f rels l acc = inr r ->
  NoDup r /\ forall x, In x r -> exists t, nth_error (w_tables s) x = Some t.
Proof.
  intros s f rels HS. pose proof HS as (HW & (HR & _) & _). induction l as [|a rest IH]; intros i acc r Hsk Hnd Hacc H.
  - cbn [k_upure] in H. injection H as <-. split; [exact Hnd|]. intros x Hx. destruct (Hacc x Hx) as (t & Ht & _). exists t. exact Ht.
  - destruct (r2s_skipn_cons _ _ _ _ _ Hsk) as (Ha & Hsk').
    assert (Next : forall ts, NoDup ts -> (forall x, In x ts -> exists t, nth_error (w_tables s) x = Some t /\ t_arch t = i) ->
              k_upure (w_tables s) f rels rest (acc ++ ts) = inr r ->
              NoDup r /\ forall x, In x r -> exists t, nth_error (w_tables s) x = Some t).
    { intros ts Hts Hin Hr. apply (IH (S i) (acc ++ ts) r Hsk'); [| |exact Hr].
      - apply r2s_nodup_app; [exact Hnd|exact Hts|]. intros x Hx Hx'. destruct (Hacc x Hx) as (t & Ht & Hlt).
        destruct (Hin x Hx') as (t' & Ht' & He). rewrite Ht in Ht'. injection Ht' as <-. lia.
      - intros x Hx. apply in_app_iff in Hx. destruct Hx as [Hx|Hx].
        + destruct (Hacc x Hx) as (t & Ht & Hlt). exists t. split; [exact Ht|lia].
        + destruct (Hin x Hx) as (t & Ht & He). exists t. split; [exact Ht|lia]. }
    cbn [k_upure] in H. destruct (negb (filter_matches f (a_mask a))).
    { apply (Next []); [constructor|intros x []|rewrite app_nil_r; exact H]. }
    destruct (negb (arch_has_rels a)).
    + destruct (a_tables a) as [|t0 tr] eqn:Et; [discriminate|]. apply (Next [t0]); [constructor; [intros []|constructor]| |exact H].
      intros x [<-|[]]. apply (wf_arch_tables _ HW i a t0 Ha). left. rewrite Et. left. reflexivity.
    + destruct (arch_get_tables a rels) as [cand|] eqn:Ec; [|discriminate].
      destruct (k_tm_pure (w_tables s) rels false cand []) as [er|ts] eqn:Etm; [discriminate|].
      destruct (r2s_arch_get_tables s i a rels cand HS Ha Ec) as (Cnd & Cin).
      destruct (r2s_tm_pure_sub _ _ _ _ _ _ Etm) as (r' & E & Hsub & Hndr). cbn [rev app] in E. subst r'.
      apply (Next ts); [apply Hndr; exact Cnd| |exact H]. intros x Hx. apply Cin. apply (Hsub x Hx).
Qed.

Theorem r2s_gbt_facts : forall s fi brels, St2 s ->
  match get_batch_tables fi brels s with
  | Ok tabs s' => s' = s /\ NoDup tabs /\ forall tid, In tid tabs -> exists t, nth_error (w_tables s) tid = Some t
  | Err _ s' => s' = s
  end.
Proof.
  intros s fi brels HS. pose proof HS as (HW & _ & HC). rewrite bo_gbt_pure.
  destruct (bo_gbt (w_filters s) (w_cheap s) (w_centries s) (w_tables s) (w_archs s) fi brels) as [er|tabs] eqn:E; cbn [k_inj]; [reflexivity|].
  split; [reflexivity|]. unfold bo_gbt in E. destruct (nth_error (w_filters s) fi) as [f|]; [|discriminate].
  destruct (f_cache f) as [cid|].
  - destruct (find _ (w_centries s)) as [addr|] eqn:Ef; [|discriminate]. apply find_some in Ef. destruct Ef as (Hin & _).
    destruct (nth_error (w_cheap s) addr) as [e|] eqn:Ee; [|discriminate].
    destruct (wf_cache _ HW addr Hin) as (e' & Ee' & Hlt). rewrite Ee in Ee'. injection Ee' as <-.
    destruct (nth_error (w_filters s) (ce_filter e)) as [f'|] eqn:Ef'; [|apply nth_error_None in Ef'; lia].
    destruct (ci_entry _ _ HC addr e f' Hin Ee Ef') as (Hnd & _).
    destruct (r2s_tm_pure_sub _ _ _ _ _ _ E) as (r' & Er & Hsub & Hndr). cbn [rev app] in Er. subst r'.
    split; [apply Hndr; exact Hnd|]. intros tid Ht. apply (Hsub tid Ht).
  - apply (r2s_upure_facts s f brels HS (w_archs s) 0 [] tabs eq_refl); [constructor|intros x []|exact E].
Qed.


Lemma r2s_obs_ext : forall s s', w_index s' = w_index s -> w_tables s' = w_tables s ->
  (forall e, live s' e = live s e) /\ (forall e c, val s' e c = val s e c) /\ (forall e c, tgt s' e c = tgt s e c) /\
  (forall e, loc s' e = loc s e).
Proof.
  intros s s' EI ET.
  assert (HL : forall e, loc s' e = loc s e) by (intros e; apply sa_loc_ext; exact EI).
  assert (Hlive : forall e, live s' e = live s e) by (intros e; unfold live; rewrite HL, ET; reflexivity).
  split; [exact Hlive|]. split; [|split; [|exact HL]].
  - intros e c. unfold val, value_of. rewrite Hlive, HL, ET. reflexivity.
  - intros e c. unfold tgt, target_of. rewrite Hlive, HL, ET. reflexivity.
Qed.



(** [e] is stored in one of the tables [tabs] *)
Definition r2s_in_tabs (s : W) (tabs : list nat) (e : ent) : Prop :=
  live s e = true /\ exists tid r, In tid tabs /\ loc s e = Some (tid, r).


Lemma r2s_carries_false : forall t rels, r2s_carries t rels = false <-> exists r, In r rels /\ tbl_target t (fst r) <> Some (snd r).
Proof.
  intros t rels. split.
  - intros H. induction rels as [|r rest IH]; [discriminate|]. unfold r2s_carries in H. cbn [forallb] in H. apply andb_false_iff in H.
    destruct H as [H|H].
    + exists r. split; [left; reflexivity|]. intros Hc. rewrite Hc, sa_ent_eqb_refl in H. discriminate.
    + destruct (IH H) as (r0 & Hr0 & Hn). exists r0. split; [right; exact Hr0|exact Hn].
  - intros (r & Hr & Hn). destruct (r2s_carries t rels) eqn:E; [|reflexivity]. exfalso. apply Hn. apply (proj1 (r2s_carries_iff t rels) E r Hr).
Qed.


(** ** The final registration *)

Lemma r2s_register_spec : forall s rels, St2 s -> r2d_KeysLive s -> r2e_noobs s ->
  r2s_keep s (state_of (register_targets rels s)) /\
  (forall e c, tgt (state_of (register_targets rels s)) e c = tgt s e c) /\
  w_log (state_of (register_targets rels s)) = w_log s /\
  (is_err (register_targets rels s) = true -> exists r, In r rels /\ length (w_istarget s) <= fst (snd r)).
Proof.
  intros s rels HS HK Hno. destruct (r2_register_targets_gen rels s) as (l' & S1 & L1 & _ & _ & F1).
  pose proof (r2_register_targets_spec r2_none r2_none r2_none rels s (proj1 (St2_St2G s) HS)) as SP.
  assert (HS' : St2 (state_of (register_targets rels s))).
  { destruct (register_targets rels s) as [[] s'|er s']; cbn [state_of].
    - destruct SP as (HG & _). apply St2_St2G. destruct HG as (W' & R' & T' & C'). split; [exact W'|]. split; [exact R'|]. split; [|exact C'].
      eapply r2_TargetFlagsG_mono; [|exact T']. intros k (Hk & _). exact Hk.
    - destruct SP as (HG & _). apply St2_St2G. exact HG. }
  rewrite S1 in *. set (s' := s <| w_istarget := l' |>) in *.
  destruct (r2s_obs_ext s s' eq_refl eq_refl) as (OL & OV & OT & _).
  split; [|split; [exact OT|split; [reflexivity|exact F1]]].
  unfold r2s_keep. split; [exact HS'|]. split; [apply (r2d_KeysLive_mono s s' HK eq_refl); intros x Hx; rewrite OL; exact Hx|].
  split; [apply (r2s_noobs_oagg s s' eq_refl Hno)|]. split; [reflexivity|]. split; [exact OL|]. split; [exact OV|]. split; [reflexivity|].
  unfold frame_user. cbn. repeat split.
Qed.


(** ** The body under the lock *)

Definition r2s_batch_body (fi : nat) (brels rels : list rel) : MW unit :=
  s0 <- get ;;
  let has_rem := has_obs s0 EvRemoveRelations in
  let has_add := has_obs s0 EvAddRelations in
  tables <- get_batch_tables fi brels ;;
  plans <- mapM tables (fun tid => set_relations_plan tid rels) ;;
  let plans := opt_list plans in
  whenM has_rem (set_relations_fire_removes plans) ;;;
  moved <- mapM plans set_relations_move ;;
  whenM has_add (set_relations_fire_adds moved) ;;;
  register_targets rels.

Lemma r2s_batch_unfold : forall fi brels rels,
  w_set_relations_batch fi brels rels =
  (check_locked ;;; guard (negb (is_nil rels)) ENoComps ;;; l <- lockM ;;
   with_deferred_unlock l (r2s_batch_body fi brels rels) ;;; unlockM l).
Proof. reflexivity. Qed.

(** what the body promises on success, relative to the selection [tabs] *)
Definition r2s_body_ok (s s' : W) (rels : list rel) (tabs : list nat) : Prop :=
  NoDup tabs /\
  (forall e, r2s_in_tabs s tabs e -> forall c, tgt s' e c = r2s_new rels (tgt s e c) c) /\
  (forall e, ~ r2s_in_tabs s tabs e -> forall c, tgt s' e c = tgt s e c) /\
  (exists es, w_log s' = w_log s ++ map b_entry es /\ NoDup es /\
     forall e, In e es <-> (r2s_in_tabs s tabs e /\ exists r, In r rels /\ tgt s e (fst r) <> Some (snd r))).

(** what a failure of the body guarantees: nothing moved, nothing logged *)
Definition r2s_unmoved (s s' : W) : Prop :=
  content_same s s' /\ (forall e c, tgt s' e c = tgt s e c) /\ w_log s' = w_log s.

Lemma r2s_body_spec : forall (V : Prop) s fi brels rels,
  St2 s -> r2d_KeysLive s -> r2e_noobs s -> (forall r, In r rels -> r2b_handle_ok s (snd r)) ->
  (V -> forall tabs tid t, get_batch_tables fi brels s = Ok tabs s -> In tid tabs -> nth_error (w_tables s) tid = Some t -> t_len t <> 0 ->
        forall r, In r rels -> tbl_colidx t (fst r) <> None) ->
  match r2s_batch_body fi brels rels s with
  | Ok _ s' => r2s_keep s s' /\ exists tabs, get_batch_tables fi brels s = Ok tabs s /\ r2s_body_ok s s' rels tabs
  | Err _ s' => r2s_keep s s' /\ r2s_unmoved s s' /\
                ~ (V /\ r2s_valid s rels /\ exists tabs, get_batch_tables fi brels s = Ok tabs s)
  end.
Proof.
  intros V s fi brels rels HS HK Hno Hhok HV. pose proof HS as (HW & _). unfold r2s_batch_body.
  rewrite (sa_bind_ok (m := get) (s := s) eq_refl). cbv zeta. rewrite (Hno EvRemoveRelations), (Hno EvAddRelations). cbn [whenM].
  assert (Unm : forall s', r2s_keep s s' -> (forall e c, tgt s' e c = tgt s e c) -> w_log s' = w_log s -> r2s_unmoved s s').
  { intros s' (_ & _ & _ & _ & HL & HVl & _) HT HLg. split; [intros e; split; [apply HL|intros c; apply HVl]|]. split; assumption. }
  pose proof (r2s_gbt_facts s fi brels HS) as G.
  destruct (get_batch_tables fi brels s) as [tabs s0|er s0] eqn:EG.
  2:{ subst s0. rewrite (sa_bind_err EG). pose proof (r2s_keep_refl s HS HK Hno) as K. split; [exact K|].
      split; [apply (Unm s K); reflexivity|]. intros (_ & _ & tabs & Hc). discriminate Hc. }
  destruct G as (-> & Hnd & Hval). rewrite (sa_bind_ok EG).
  pose proof (r2s_plan_loop V rels tabs s HS HK Hno Hhok Hnd Hval (fun Hv tid t => HV Hv tabs tid t eq_refl)) as PL.
  destruct (mapM tabs (fun tid => set_relations_plan tid rels) s) as [ps s1|er s1] eqn:EP.
  2:{ rewrite (sa_bind_err EP). destruct PL as ((K1 & _ & GL & GT & _) & Hnv). split; [exact K1|]. split; [apply (Unm s1 K1 GT GL)|].
      intros (Hv & Hvl & _). apply Hnv. split; assumption. }
  rewrite (sa_bind_ok EP). destruct PL as (G1 & PO & Iff & Tok).
  pose proof G1 as (K1 & _ & GL1 & GT1 & _). pose proof (r2s_grow_loc s s1 G1) as GLoc.
  pose proof K1 as (HS1 & HK1 & Hno1 & _ & HL1 & _).
  rewrite (sa_bind_ok (m := ret tt) (s := s1) eq_refl).
  destruct (r2s_move_loop rels (opt_list ps) s1 HS1 HK1 Hno1 PO) as (mv & s2 & EM & K2 & T2 & (es & Lg & NDes & Ines)).
  rewrite (sa_bind_ok EM). rewrite (sa_bind_ok (m := ret tt) (s := s2) eq_refl).
  pose proof (r2s_keep_trans s s1 s2 K1 K2) as K12.
  pose proof K12 as (HS2 & HK2 & Hno2 & _ & HL2 & _).
  destruct (r2s_register_spec s2 rels HS2 HK2 Hno2) as (K3 & T3 & Lg3 & F3).
  (* who is moved *)
  assert (Hsel : forall e, r2s_selb s1 (opt_list ps) e = true <->
            (r2s_in_tabs s tabs e /\ exists r, In r rels /\ tgt s e (fst r) <> Some (snd r))).
  { intros e. destruct (live s e) eqn:Hl.
    2:{ assert (Hl1 : live s1 e = false) by (rewrite HL1; exact Hl). rewrite (r2s_selb_dead s1 _ e Hl1).
        split; [intros Hc; discriminate Hc|]. intros ((Hc & _) & _). congruence. }
    destruct (sb2_live_elim _ _ Hl) as (tid & r & t & L0 & T0 & R0 & _).
    assert (Hl1 : live s1 e = true) by (rewrite HL1; exact Hl).
    assert (L1 : loc s1 e = Some (tid, r)) by (rewrite GLoc; exact L0).
    assert (Etgt : forall c, tgt s e c = tbl_target t c) by (intros c; rewrite (r2c_tgt_at s e tid r t L0 T0 c), Hl; reflexivity).
    rewrite (r2s_selb_at s1 _ e tid r Hl1 L1), r2s_srcb_in, (Iff tid). split.
    - intros (Hin & t' & Ht' & Hlen & Hc). rewrite T0 in Ht'. injection Ht' as <-.
      split; [split; [exact Hl|exists tid, r; split; [exact Hin|exact L0]]|].
      apply r2s_carries_false in Hc. destruct Hc as (r0 & Hr0 & Hn). exists r0. split; [exact Hr0|]. rewrite Etgt. exact Hn.
    - intros ((_ & tid' & r' & Hin & L0') & r0 & Hr0 & Hn). rewrite L0 in L0'. injection L0' as <- <-. split; [exact Hin|].
      exists t. split; [exact T0|]. split; [lia|]. apply r2s_carries_false. exists r0. split; [exact Hr0|]. rewrite <- Etgt. exact Hn. }
  destruct (register_targets rels s2) as [[] s3|er s3] eqn:ER; cbn [state_of is_err] in *.
  - split; [apply (r2s_keep_trans s s2 s3 K12 K3)|]. exists tabs. split; [reflexivity|]. split; [exact Hnd|]. split; [|split].
    + intros e Hin c. rewrite T3, (T2 e c), GT1. destruct (r2s_selb s1 (opt_list ps) e) eqn:Es; [reflexivity|].
      (* a selected table that is no source carries the targets already *)
      destruct Hin as (Hl & tid & r & Hin & L0). destruct (sb2_live_elim _ _ Hl) as (tid0 & r0 & t & L0' & T0 & R0 & _).
      rewrite L0 in L0'. injection L0' as <- <-.
      rewrite (r2c_tgt_at s e tid r t L0 T0 c), Hl. symmetry. apply r2s_new_carries.
      destruct (r2s_carries t rels) eqn:Ec; [reflexivity|]. exfalso.
      assert (Hc : r2s_selb s1 (opt_list ps) e = true).
      { assert (Hl1 : live s1 e = true) by (rewrite HL1; exact Hl). assert (L1 : loc s1 e = Some (tid, r)) by (rewrite GLoc; exact L0).
        rewrite (r2s_selb_at s1 _ e tid r Hl1 L1). apply r2s_srcb_in. apply Iff. split; [exact Hin|]. exists t. split; [exact T0|]. split; [lia|exact Ec]. }
      congruence.
    + intros e Hnin c. rewrite T3, (T2 e c), GT1. destruct (r2s_selb s1 (opt_list ps) e) eqn:Es; [|reflexivity].
      exfalso. apply Hnin. apply (Hsel e). exact Es.
    + exists es. split; [rewrite Lg3, Lg, GL1; reflexivity|]. split; [exact NDes|]. intros e. rewrite (Ines e). apply Hsel.
  - (* the registration failed: then there was no plan, and nothing moved *)
    split; [apply (r2s_keep_trans s s2 s3 K12 K3)|].
    destruct (F3 eq_refl) as (r & Hr & Hle).
    assert (Hnil : opt_list ps = []).
    { destruct (opt_list ps) as [|p0 pr] eqn:Eo; [reflexivity|]. exfalso.
      assert (Hne : p0 :: pr <> []) by discriminate. destruct (Tok Hne r Hr) as [Hz|Hl].
      - rewrite Hz in Hle. cbn in Hle. pose proof (r2_zero_index s2 (proj1 HS2)). lia.
      - rewrite <- HL2 in Hl. pose proof (r2_live_index s2 (snd r) (proj1 HS2) Hl). lia. }
    rewrite Hnil in EM. cbn [mapM] in EM. unfold ret in EM. injection EM as _ <-.
    split.
    { apply (Unm s3 (r2s_keep_trans s s1 s3 K1 K3)); [intros e c; rewrite T3; apply GT1|rewrite Lg3; exact GL1]. }
    intros (_ & (_ & Vr) & _). destruct (proj2 (Vr r Hr)) as [Hz|Hl].
    + rewrite Hz in Hle. cbn in Hle. pose proof (r2_zero_index s1 (proj1 HS1)). lia.
    + rewrite <- HL1 in Hl. pose proof (r2_live_index s1 (snd r) (proj1 HS1) Hl). lia.
Qed.
(** ** The operation with its lock *)

(** what holds after the call, in both outcomes *)
Definition r2s_post (s s' : W) : Prop :=
  St2 s' /\ r2d_KeysLive s' /\ r2e_noobs s' /\ is_locked s' = false /\
  (forall e, live s' e = live s e) /\ (forall e c, val s' e c = val s e c) /\
  w_pool s' = w_pool s /\ frame_user s s'.

Lemma r2s_post_refl : forall s, St2 s -> r2d_KeysLive s -> r2e_noobs s -> is_locked s = false -> r2s_post s s.
Proof. intros s H1 H2 H3 H4. unfold r2s_post. repeat (split; [first [assumption|reflexivity]|]). apply sa_frame_user_refl. Qed.

(** a state that differs from [s1] in the lock only, the lock being free *)
Lemma r2s_post_unlock : forall s s0 s1 l', storage_same s s0 -> w_log s0 = w_log s -> w_oagg s0 = w_oagg s -> frame_user s s0 ->
  r2s_keep s0 s1 -> lock_is_locked l' = false -> r2s_post s (s1 <| w_lock := l' |>).
Proof.
  intros s s0 s1 l' SS0 _ Eagg FU0 (HS1 & HK1 & Hno1 & _ & HL1 & HV1 & HP1 & FU1) Hl'.
  set (s2 := s1 <| w_lock := l' |>).
  assert (SS2 : storage_same s1 s2) by (unfold storage_same; repeat split).
  destruct (r2s_storage_same_obs s s0 SS0) as (A1 & A2 & _). destruct (r2s_storage_same_obs s1 s2 SS2) as (B1 & B2 & _).
  unfold r2s_post. split; [apply (r2c_storage_same_St2 s1 s2 SS2 HS1)|]. split; [apply (r2s_storage_same_KeysLive s1 s2 SS2 HK1)|].
  split; [apply (r2s_noobs_oagg s1 s2 eq_refl Hno1)|]. split; [exact Hl'|].
  split; [intros e; rewrite B1, HL1; apply A1|]. split; [intros e c; rewrite B2, HV1; apply A2|].
  split; [change (w_pool s2) with (w_pool s1); rewrite HP1; apply SS0|].
  apply (sa_frame_user_trans s s0 s2 FU0). apply (sa_frame_user_trans s0 s1 s2 FU1). unfold frame_user. cbn. repeat split.
Qed.


Lemma r2s_unmoved_refl : forall s, r2s_unmoved s s.
Proof. intros s. split; [intros e; split; reflexivity|]. split; reflexivity. Qed.

Lemma r2s_batch_gen : forall (V : Prop) s fi brels rels,
  St2 s -> r2d_KeysLive s -> r2e_noobs s -> is_locked s = false ->
  (forall r, In r rels -> r2b_handle_ok s (snd r)) ->
  (V -> forall tabs tid t, get_batch_tables fi brels s = Ok tabs s -> In tid tabs -> nth_error (w_tables s) tid = Some t -> t_len t <> 0 ->
        forall r, In r rels -> tbl_colidx t (fst r) <> None) ->
  match w_set_relations_batch fi brels rels s with
  | Ok _ s' => r2s_post s s' /\ rels <> [] /\ exists tabs, get_batch_tables fi brels s = Ok tabs s /\ r2s_body_ok s s' rels tabs
  | Err _ s' => r2s_post s s' /\ r2s_unmoved s s' /\
                ~ (V /\ rels <> [] /\ lock_lock (w_lock s) <> None /\ r2s_valid s rels /\ exists tabs, get_batch_tables fi brels s = Ok tabs s)
  end.
Proof.
  intros V s fi brels rels HS HK Hno Hunl Hhok HV. rewrite r2s_batch_unfold.
  rewrite (sa_bind_ok (sb1_check_locked_ok s Hunl)).
  destruct rels as [|r0 rr] eqn:Erels.
  { cbn [is_nil negb guard]. rewrite (sa_bind_err (m := fail ENoComps) (s := s) (e := ENoComps) (s' := s) eq_refl).
    split; [apply r2s_post_refl; assumption|]. split; [apply r2s_unmoved_refl|]. intros (_ & Hc & _). apply Hc. reflexivity. }
  cbn [is_nil negb guard]. rewrite (sa_bind_ok (m := ret tt) (s := s) eq_refl).
  assert (Hrne : rels <> []) by (rewrite Erels; discriminate). rewrite <- Erels in *. clear Erels r0 rr.
  destruct (lock_lock (w_lock s)) as [[lb l']|] eqn:LL.
  2:{ rewrite (sa_bind_err (v_lockM_err s LL)). split; [apply r2s_post_refl; assumption|]. split; [apply r2s_unmoved_refl|].
      intros (_ & _ & Hc & _). apply Hc. reflexivity. }
  pose proof (bo_lock_cycle s lb l' Hunl LL) as LU.
  set (l'' := {| lk_pool := ipool_recycle (lk_pool l') lb; lk_mask := 0%N |}) in *.
  assert (Hl'' : lock_is_locked l'' = false) by reflexivity.
  rewrite (sa_bind_ok (v_lockM_ok s lb l' LL)). set (s0 := s <| w_lock := l' |>).
  assert (SS0 : storage_same s s0) by (unfold storage_same; repeat split).
  assert (FU0 : frame_user s s0) by (unfold frame_user; repeat split).
  destruct (r2s_storage_same_obs s s0 SS0) as (A1 & A2 & A3 & A4).
  pose proof (r2c_storage_same_St2 s s0 SS0 HS) as HS0.
  pose proof (r2s_storage_same_KeysLive s s0 SS0 HK) as HK0.
  assert (Hno0 : r2e_noobs s0) by (apply (r2s_noobs_oagg s s0 eq_refl Hno)).
  assert (Hhok0 : forall r, In r rels -> r2b_handle_ok s0 (snd r)).
  { intros r Hr. destruct (Hhok r Hr) as [Hz|[Hl|(H1 & H2)]]; [left; exact Hz|right; left; rewrite A1; exact Hl|right; right; split; assumption]. }
  assert (EG : forall tabs, get_batch_tables fi brels s0 = Ok tabs s0 <-> get_batch_tables fi brels s = Ok tabs s).
  { intros tabs. split; intros H; [apply (bo_gbt_frame fi brels s0 s tabs)|apply (bo_gbt_frame fi brels s s0 tabs SS0 H)]; [|exact H].
    unfold storage_same; repeat split. }
  pose proof (r2s_body_spec V s0 fi brels rels HS0 HK0 Hno0 Hhok0) as BS.
  assert (HV0 : V -> forall tabs tid t, get_batch_tables fi brels s0 = Ok tabs s0 -> In tid tabs -> nth_error (w_tables s0) tid = Some t ->
                 t_len t <> 0 -> forall r, In r rels -> tbl_colidx t (fst r) <> None).
  { intros Hv tabs tid t Hg. apply (HV Hv tabs tid t). apply EG. exact Hg. }
  specialize (BS HV0).
  destruct (r2s_batch_body fi brels rels s0) as [[] s1|er s1] eqn:EB.
  - destruct BS as (K1 & tabs & Hg & (Hnd & T1 & T2 & (es & Lg & NDes & Ines))).
    rewrite (sa_bind_ok (bo_deferred_ok _ lb _ _ _ _ EB)).
    assert (Elock1 : w_lock s1 = l') by (destruct K1 as (_ & _ & _ & -> & _); reflexivity).
    assert (LU1 : lock_unlock (w_lock s1) lb = Some l'') by (rewrite Elock1; exact LU).
    rewrite (v_unlockM_ok s1 lb l'' LU1).
    split; [apply (r2s_post_unlock s s0 s1 l'' SS0 eq_refl eq_refl FU0 K1 Hl'')|]. split; [exact Hrne|].
    exists tabs. split; [apply EG; exact Hg|]. split; [exact Hnd|].
    assert (Ein : forall e, r2s_in_tabs s0 tabs e <-> r2s_in_tabs s tabs e).
    { intros e. unfold r2s_in_tabs. rewrite A1, A4. reflexivity. }
    split; [|split].
    + intros e Hin c. change (tgt (s1 <| w_lock := l'' |>) e c) with (tgt s1 e c). rewrite (T1 e (proj2 (Ein e) Hin) c), A3. reflexivity.
    + intros e Hnin c. change (tgt (s1 <| w_lock := l'' |>) e c) with (tgt s1 e c). rewrite (T2 e (fun H => Hnin (proj1 (Ein e) H)) c). apply A3.
    + exists es. split; [exact Lg|]. split; [exact NDes|]. intros e. rewrite (Ines e), (Ein e). split.
      * intros (H1 & r & Hr & Hn). split; [exact H1|]. exists r. split; [exact Hr|]. rewrite <- A3. exact Hn.
      * intros (H1 & r & Hr & Hn). split; [exact H1|]. exists r. split; [exact Hr|]. rewrite A3. exact Hn.
  - destruct BS as (K1 & (UC & UT & UL) & Hnv).
    rewrite (sa_bind_err (bo_deferred_err _ lb _ _ _ _ EB)).
    assert (Elock1 : w_lock s1 = l') by (destruct K1 as (_ & _ & _ & -> & _); reflexivity).
    assert (Erel : release_bit lb s1 = s1 <| w_lock := l'' |>) by (unfold release_bit; rewrite Elock1, LU; reflexivity).
    rewrite Erel. pose proof (r2s_post_unlock s s0 s1 l'' SS0 eq_refl eq_refl FU0 K1 Hl'') as HP.
    split; [exact HP|]. split.
    { destruct HP as (_ & _ & _ & _ & PL & PV & _). split; [intros e; split; [apply PL|intros c; apply PV]|]. split.
      - intros e c. change (tgt (s1 <| w_lock := l'' |>) e c) with (tgt s1 e c). rewrite UT. apply A3.
      - exact UL. }
    intros (Hv & _ & _ & (Vnd & Vr) & tabs & Hg). apply Hnv. split; [exact Hv|]. split.
    + split; [exact Vnd|]. intros r Hr. destruct (Vr r Hr) as (B1 & B2). split; [exact B1|].
      destruct B2 as [Hz|Hl]; [left; exact Hz|right; rewrite A1; exact Hl].
    + exists tabs. apply EG. exact Hg.
Qed.

(* ================================================================================================ *)
(** * Part 5: the main theorems *)

(** SetRelationsBatch keeps the relation-tier invariant and ends unlocked in BOTH outcomes, whatever
    fails (unknown filter, malformed batch relations, a component named twice, a selected table
    lacking a named component, a non-relation component, a dead target, no lock bit). Components and
    values of every entity are unchanged in both outcomes. Since all planning (including every
    rejection) happens before the first row moves, a FAILURE leaves every entity exactly as it was:
    same components, values AND targets, nothing logged ([r2s_unmoved]; only empty tables, lookups
    and target flags may have been created by the planning of earlier tables). The only hypothesis on
    the arguments: the targets are proper handles (zero, stored, or recognisably dead), as for the
    single-entity theorem [r2b_set_relations_spec_noobs]. *)
Theorem r2s_set_relations_batch_inv : forall s fi brels rels,
  St2 s -> r2d_KeysLive s -> r2e_noobs s -> is_locked s = false ->
  (forall r, In r rels -> r2b_handle_ok s (snd r)) ->
  match w_set_relations_batch fi brels rels s with
  | Ok _ s' => r2s_post s s'
  | Err _ s' => r2s_post s s' /\ content_same s s' /\ (forall e c, tgt s' e c = tgt s e c) /\ w_log s' = w_log s
  end.
Proof.
  intros s fi brels rels HS HK Hno Hunl Hhok.
  pose proof (r2s_batch_gen False s fi brels rels HS HK Hno Hunl Hhok (fun F => match F with end)) as G.
  destruct (w_set_relations_batch fi brels rels s) as [u s'|er s']; [apply G|]. destruct G as (G1 & G2 & _). split; [exact G1|exact G2].
Qed.

(** the same for the final state, whatever the outcome (the form used over histories) *)
Corollary r2s_set_relations_batch_post : forall s fi brels rels,
  St2 s -> r2d_KeysLive s -> r2e_noobs s -> is_locked s = false ->
  (forall r, In r rels -> r2b_handle_ok s (snd r)) ->
  r2s_post s (state_of (w_set_relations_batch fi brels rels s)).
Proof.
  intros s fi brels rels HS HK Hno Hunl Hhok. pose proof (r2s_set_relations_batch_inv s fi brels rels HS HK Hno Hunl Hhok) as P.
  destruct (w_set_relations_batch fi brels rels s) as [u s'|er s']; cbn [state_of]; [exact P|apply P].
Qed.

(** On success the call is the per-entity operation on exactly the entities of the selected tables:
    they stay stored with the same values, the named components get the assigned targets, every other
    target is kept; all other entities are unchanged; the log grows by one entry [101; id; gen] per
    MOVED entity, i.e. per entity of a selected table whose targets really change (tables that carry
    the assigned targets already are not touched, as in the single-entity operation). *)
Theorem r2s_set_relations_batch_spec : forall s fi brels rels u s',
  St2 s -> r2d_KeysLive s -> r2e_noobs s -> is_locked s = false ->
  (forall r, In r rels -> r2b_handle_ok s (snd r)) ->
  w_set_relations_batch fi brels rels s = Ok u s' ->
  r2s_post s s' /\ rels <> [] /\
  exists tabs, get_batch_tables fi brels s = Ok tabs s /\ NoDup tabs /\
    (forall e, r2s_in_tabs s tabs e -> live s' e = true /\ (forall c, val s' e c = val s e c) /\
                                       forall c, tgt s' e c = r2s_new rels (tgt s e c) c) /\
    (forall e, ~ r2s_in_tabs s tabs e -> live s' e = live s e /\ (forall c, val s' e c = val s e c) /\
                                         forall c, tgt s' e c = tgt s e c) /\
    (exists es, w_log s' = w_log s ++ map b_entry es /\ NoDup es /\
       forall e, In e es <-> (r2s_in_tabs s tabs e /\ exists r, In r rels /\ tgt s e (fst r) <> Some (snd r))).
Proof.
  intros s fi brels rels u s' HS HK Hno Hunl Hhok E.
  pose proof (r2s_batch_gen False s fi brels rels HS HK Hno Hunl Hhok (fun F => match F with end)) as G. rewrite E in G.
  destruct G as (HP & Hrne & tabs & Hg & Hnd & T1 & T2 & Hlog).
  split; [exact HP|]. split; [exact Hrne|]. exists tabs. split; [exact Hg|]. split; [exact Hnd|].
  pose proof HP as (_ & _ & _ & _ & HL & HVal & _).
  split.
  { intros e Hin. pose proof Hin as (Hl & _). split; [rewrite HL; exact Hl|]. split; [intros c; apply HVal|apply (T1 e Hin)]. }
  split; [|exact Hlog].
  intros e Hnin. split; [apply HL|]. split; [intros c; apply HVal|apply (T2 e Hnin)].
Qed.

(** Valid calls succeed: distinct relation components that every selected non-empty table has,
    targets zero or stored, a lock bit available, a selection that succeeds. *)
Theorem r2s_set_relations_batch_ok : forall s fi brels rels tabs,
  St2 s -> r2d_KeysLive s -> r2e_noobs s -> is_locked s = false -> lock_lock (w_lock s) <> None ->
  rels <> [] -> NoDup (map fst rels) ->
  (forall r, In r rels -> is_rel_comp s (fst r) = true /\ (snd r = zero_ent \/ live s (snd r) = true)) ->
  get_batch_tables fi brels s = Ok tabs s ->
  (forall tid t, In tid tabs -> nth_error (w_tables s) tid = Some t -> t_len t <> 0 ->
     forall r, In r rels -> tbl_colidx t (fst r) <> None) ->
  exists s', w_set_relations_batch fi brels rels s = Ok tt s'.
Proof.
  intros s fi brels rels tabs HS HK Hno Hunl Hlock Hrne Hnd Hrels Hg Hcols.
  assert (Hhok : forall r, In r rels -> r2b_handle_ok s (snd r)).
  { intros r Hr. destruct (proj2 (Hrels r Hr)) as [Hz|Hl]; [left; exact Hz|right; left; exact Hl]. }
  pose proof (r2s_batch_gen True s fi brels rels HS HK Hno Hunl Hhok) as G.
  assert (HV : True -> forall tabs0 tid t, get_batch_tables fi brels s = Ok tabs0 s -> In tid tabs0 -> nth_error (w_tables s) tid = Some t ->
                 t_len t <> 0 -> forall r, In r rels -> tbl_colidx t (fst r) <> None).
  { intros _ tabs0 tid t Hg0. rewrite Hg in Hg0. injection Hg0 as <-. apply Hcols. }
  specialize (G HV). destruct (w_set_relations_batch fi brels rels s) as [[] s'|er s']; [exists s'; reflexivity|].
  exfalso. destruct G as (_ & _ & Hn). apply Hn. split; [exact I|]. split; [exact Hrne|]. split; [exact Hlock|].
  split; [split; [exact Hnd|exact Hrels]|]. exists tabs. exact Hg.
Qed.

(* ================================================================================================ *)
(** * Part 6: the theorems are not vacuous; what a duplicate source in the plan list would do

    World (Rel2Check's configuration: components 0,1,2 plain, 3,4 relation components): entities
    [(2,0)], [(3,0)] without components; [(4,0)], [(5,0)] with components {0,3} and target [(2,0)]
    (table 1); [(6,0)] with components {0,3} and target [(3,0)] (table 2); filter 0 = With(3).
    The filter selects the tables [1; 2] IN THIS ORDER, so the call SetRelationsBatch(filter 0,
    3 -> (3,0)) is exactly the scenario of the subtlety: the rows of table 1 are appended to table 2,
    which is selected too; it gets NO plan because it carries the assigned target, so it is never the source of a
    move and keeps the rows it receives. *)
Definition r2s_ex_world : W := Properties.Common.exec Rel2Check.r2_cfg
  [[0]; [0]; [2; 2;0;3; 1; 3;0]; [2; 2;0;3; 1; 3;0]; [2; 2;0;3; 1; 3;1]; [15; 0; 1;3; 0; 0; 0]]%Z.

Definition r2s_ex_rels : list rel := [(3, (3, 0%N))].

Lemma r2s_noobs_nil : forall s, w_oagg s = [] -> r2e_noobs s.
Proof. intros s E ev. unfold has_obs, get_agg. rewrite E. reflexivity. Qed.

Lemma r2s_ex_St2 : St2 r2s_ex_world.
Proof. apply st2_b_sound. vm_compute. reflexivity. Qed.

Lemma r2s_ex_KeysLive : r2d_KeysLive r2s_ex_world.
Proof. apply (r2d_keys_live_b_sound _ (proj1 r2s_ex_St2)). vm_compute. reflexivity. Qed.

Lemma r2s_ex_noobs : r2e_noobs r2s_ex_world.
Proof. apply r2s_noobs_nil. vm_compute. reflexivity. Qed.

Lemma r2s_ex_hok : forall r, In r r2s_ex_rels -> r2b_handle_ok r2s_ex_world (snd r).
Proof. intros r [<-|[]]. right. left. vm_compute. reflexivity. Qed.

Lemma r2s_ex_facts :
  is_locked r2s_ex_world = false /\ lock_lock (w_lock r2s_ex_world) <> None /\
  get_batch_tables 0 [] r2s_ex_world = Ok [1; 2] r2s_ex_world /\
  live r2s_ex_world (4, 0%N) = true /\ loc r2s_ex_world (4, 0%N) = Some (1, 0) /\
  live r2s_ex_world (6, 0%N) = true /\ loc r2s_ex_world (6, 0%N) = Some (2, 0) /\
  live r2s_ex_world (2, 0%N) = true /\ loc r2s_ex_world (2, 0%N) = Some (0, 0) /\
  live r2s_ex_world (3, 0%N) = true /\ is_rel_comp r2s_ex_world 3 = true /\
  tgt r2s_ex_world (4, 0%N) 3 = Some (2, 0%N) /\ tgt r2s_ex_world (6, 0%N) 3 = Some (3, 0%N) /\
  tgt r2s_ex_world (2, 0%N) 3 = None /\ val r2s_ex_world (4, 0%N) 0 = Some 0%Z.
Proof. vm_compute. repeat split; discriminate. Qed.


(** [r2s_table_spec] / [r2s_table_obs] applied to table 1 of the example (plan, then move): the
    conclusions come from the theorem. *)
Example r2s_ex_table : exists s', r2s_table 1 r2s_ex_rels r2s_ex_world = Ok tt s' /\
  St2 s' /\ r2d_KeysLive s' /\ tgt s' (4, 0%N) 3 = Some (3, 0%N) /\ tgt s' (6, 0%N) 3 = Some (3, 0%N) /\
  val s' (4, 0%N) 0 = Some 0%Z /\ live s' (4, 0%N) = true.
Proof.
  destruct r2s_ex_facts as (Hunl & Hlk & Hg & L4 & Lc4 & L6 & Lc6 & L2 & Lc2 & L3 & Hrc & T4 & T6 & T2 & V4).
  assert (Hex : exists ot, nth_error (w_tables r2s_ex_world) 1 = Some ot).
  { vm_compute. eexists. reflexivity. }
  destruct Hex as (ot & Hot).
  assert (Hok : is_err (r2s_table 1 r2s_ex_rels r2s_ex_world) = false) by (vm_compute; reflexivity).
  pose proof (r2s_table_obs r2s_ex_world 1 ot r2s_ex_rels) as P.
  destruct (r2s_table 1 r2s_ex_rels r2s_ex_world) as [[] s'|er s'] eqn:E; [|discriminate Hok].
  destruct (P tt s' r2s_ex_St2 r2s_ex_KeysLive r2s_ex_noobs Hot r2s_ex_hok eq_refl)
    as ((HS' & HK' & _ & _ & HL & HV & _) & O1 & O2 & _).
  exists s'. split; [reflexivity|]. split; [exact HS'|]. split; [exact HK'|].
  split; [rewrite (O1 (4, 0%N) 0 L4 Lc4 3), T4; reflexivity|].
  split; [rewrite (O2 (6, 0%N)), T6; [reflexivity|right; intros r Hc; rewrite Lc6 in Hc; discriminate Hc]|].
  split; [rewrite HV; exact V4|rewrite HL; exact L4].
Qed.

(** [r2s_set_relations_batch_ok], [_inv] and [_spec] applied to the example: the valid call succeeds;
    the invariant holds and the world is unlocked afterwards; the entities of BOTH selected tables have
    the assigned target ((6,0) had it before), the unselected entity (2,0) is unchanged; the log has
    exactly the two moved entities. All conclusions come from the theorems. *)
Example r2s_ex_batch : exists s', w_set_relations_batch 0 [] r2s_ex_rels r2s_ex_world = Ok tt s' /\
  St2 s' /\ r2d_KeysLive s' /\ r2e_noobs s' /\ is_locked s' = false /\
  tgt s' (4, 0%N) 3 = Some (3, 0%N) /\ tgt s' (6, 0%N) 3 = Some (3, 0%N) /\ tgt s' (2, 0%N) 3 = None /\
  val s' (4, 0%N) 0 = Some 0%Z /\ live s' (4, 0%N) = true /\
  exists es, w_log s' = w_log r2s_ex_world ++ map b_entry es /\ In (4, 0%N) es /\ ~ In (6, 0%N) es /\ ~ In (2, 0%N) es.
Proof.
  destruct r2s_ex_facts as (Hunl & Hlk & Hg & L4 & Lc4 & L6 & Lc6 & L2 & Lc2 & L3 & Hrc & T4 & T6 & T2 & V4).
  destruct (r2s_set_relations_batch_ok r2s_ex_world 0 [] r2s_ex_rels [1; 2] r2s_ex_St2 r2s_ex_KeysLive r2s_ex_noobs Hunl Hlk) as (s' & E).
  - intros Hc. discriminate Hc.
  - unfold r2s_ex_rels. cbn [map fst]. constructor; [intros []|constructor].
  - intros r [<-|[]]. cbn [fst snd]. split; [exact Hrc|right; exact L3].
  - exact Hg.
  - intros tid t [<-|[<-|[]]] Ht _ r [<-|[]]; vm_compute in Ht; injection Ht as <-; vm_compute; intros Hc; discriminate Hc.
  - destruct (r2s_set_relations_batch_spec r2s_ex_world 0 [] r2s_ex_rels tt s' r2s_ex_St2 r2s_ex_KeysLive r2s_ex_noobs Hunl r2s_ex_hok E)
      as ((HS' & HK' & Hno' & Hunl' & _) & _ & tabs & Hg' & _ & Hsel & Hoth & (es & Lg & _ & Ines)).
    rewrite Hg in Hg'.
    assert (Et : [1; 2] = tabs).
    { apply (f_equal (fun r : res W (list nat) => match r with Ok a _ => a | Err _ _ => [] end)) in Hg'. exact Hg'. }
    subst tabs. clear Hg'.
    assert (I4 : r2s_in_tabs r2s_ex_world [1; 2] (4, 0%N)) by (split; [exact L4|exists 1, 0; split; [left; reflexivity|exact Lc4]]).
    assert (I6 : r2s_in_tabs r2s_ex_world [1; 2] (6, 0%N)) by (split; [exact L6|exists 2, 0; split; [right; left; reflexivity|exact Lc6]]).
    assert (I2 : ~ r2s_in_tabs r2s_ex_world [1; 2] (2, 0%N)).
    { intros (_ & tid & r & Hin & Hc). rewrite Lc2 in Hc. injection Hc as <- <-. destruct Hin as [Hc|[Hc|[]]]; discriminate Hc. }
    destruct (Hsel _ I4) as (Hl4 & Hv4 & Ht4). destruct (Hsel _ I6) as (_ & _ & Ht6). destruct (Hoth _ I2) as (_ & _ & Ht2).
    exists s'. split; [exact E|]. split; [exact HS'|]. split; [exact HK'|]. split; [exact Hno'|]. split; [exact Hunl'|].
    split; [rewrite Ht4, T4; reflexivity|]. split; [rewrite Ht6, T6; reflexivity|]. split; [rewrite Ht2; exact T2|].
    split; [rewrite Hv4; exact V4|]. split; [exact Hl4|].
    exists es. split; [exact Lg|]. split; [|split].
    + apply Ines. split; [exact I4|]. exists (3, (3, 0%N)). split; [left; reflexivity|]. cbn [fst snd]. rewrite T4. intros Hc. discriminate Hc.
    + intros Hc. apply Ines in Hc. destruct Hc as (_ & r & [<-|[]] & Hn). cbn [fst snd] in Hn. apply Hn. exact T6.
    + intros Hc. apply Ines in Hc. destruct Hc as (Hc & _). exact (I2 Hc).
Qed.

(** the same call through the script interpreter (opcode 32): no panic, every check holds afterwards *)
Example r2s_ex_script :
  Rel2Check.r2_trace Rel2Check.r2_cfg (init_world Rel2Check.r2_cfg)
    [[0]; [0]; [2; 2;0;3; 1; 3;0]; [2; 2;0;3; 1; 3;0]; [2; 2;0;3; 1; 3;1]; [15; 0; 1;3; 0; 0; 0]; [32; 0; 0; 1;3; 1; 3;1]]%Z =
  [(0, []); (0, []); (0, []); (0, []); (0, []); (0, []); (0, [])]%Z.
Proof. vm_compute. reflexivity. Qed.

(** ** A rejected table rejects the WHOLE batch before any row moves

    The same world with one more entity [(7,0)] with component 0 only (table 3), filter 0 = With(0):
    the selection is [1; 2; 3]. Table 1 is planned (destination table 2), table 2 needs no plan, table 3
    lacks component 3: the call panics (EMissingComp) during planning. Before the restructuring of the
    operation (events of relation batches: all removals before, all adds after the entire batch) table 1
    had already been re-targeted at this point; now NOTHING has moved: nobody's target changed, nothing
    was logged. *)
Definition r2s_ex_world2 : W := Properties.Common.exec Rel2Check.r2_cfg
  [[0]; [0]; [2; 2;0;3; 1; 3;0]; [2; 2;0;3; 1; 3;0]; [2; 2;0;3; 1; 3;1]; [1; 1;0]; [15; 0; 1;0; 0; 0; 0]]%Z.

Lemma r2s_ex2_St2 : St2 r2s_ex_world2.
Proof. apply st2_b_sound. vm_compute. reflexivity. Qed.

Example r2s_ex_partial_failure_run :
  get_batch_tables 0 [] r2s_ex_world2 = Ok [1; 2; 3] r2s_ex_world2 /\
  tgt r2s_ex_world2 (4, 0%N) 3 = Some (2, 0%N) /\
  match w_set_relations_batch 0 [] r2s_ex_rels r2s_ex_world2 with
  | Ok _ _ => False
  | Err er s' => er = EMissingComp /\ st2_b s' = true /\ r2d_keys_live_b s' = true /\ is_locked s' = false /\
                 tgt s' (4, 0%N) 3 = Some (2, 0%N) /\ w_log s' = []
  end.
Proof. vm_compute. repeat split. Qed.

(** ... as [r2s_set_relations_batch_inv] says (conclusions from the theorem) *)
Example r2s_ex_partial_failure : exists er s', w_set_relations_batch 0 [] r2s_ex_rels r2s_ex_world2 = Err er s' /\
  St2 s' /\ r2d_KeysLive s' /\ r2e_noobs s' /\ is_locked s' = false /\ content_same r2s_ex_world2 s' /\
  (forall e c, tgt s' e c = tgt r2s_ex_world2 e c) /\ w_log s' = w_log r2s_ex_world2 /\
  tgt s' (4, 0%N) 3 = Some (2, 0%N).
Proof.
  assert (HK : r2d_KeysLive r2s_ex_world2) by (apply (r2d_keys_live_b_sound _ (proj1 r2s_ex2_St2)); vm_compute; reflexivity).
  assert (Hno : r2e_noobs r2s_ex_world2) by (apply r2s_noobs_nil; vm_compute; reflexivity).
  assert (Hhok : forall r, In r r2s_ex_rels -> r2b_handle_ok r2s_ex_world2 (snd r)) by (intros r [<-|[]]; right; left; vm_compute; reflexivity).
  pose proof (r2s_set_relations_batch_inv r2s_ex_world2 0 [] r2s_ex_rels r2s_ex2_St2 HK Hno eq_refl Hhok) as P.
  pose proof r2s_ex_partial_failure_run as (_ & R1 & R).
  destruct (w_set_relations_batch 0 [] r2s_ex_rels r2s_ex_world2) as [u s'|er s']; [destruct R|]. clear R.
  destruct P as ((P1 & P2 & P3 & P4 & _) & PC & PT & PL). exists er, s'. split; [reflexivity|].
  split; [exact P1|]. split; [exact P2|]. split; [exact P3|]. split; [exact P4|]. split; [exact PC|]. split; [exact PT|]. split; [exact PL|].
  rewrite PT. exact R1.
Qed.

Example r2s_ex_partial_failure_script :
  Rel2Check.r2_trace Rel2Check.r2_cfg (init_world Rel2Check.r2_cfg)
    [[0]; [0]; [2; 2;0;3; 1; 3;0]; [2; 2;0;3; 1; 3;0]; [2; 2;0;3; 1; 3;1]; [1; 1;0]; [15; 0; 1;0; 0; 0; 0]; [32; 0; 0; 1;3; 1; 3;1]]%Z =
  [(0, []); (0, []); (0, []); (0, []); (0, []); (0, []); (0, []); (1, [])]%Z.
Proof. vm_compute. reflexivity. Qed.

(** ** What a table that is the source of two plans would do (model level only)

    The invariant of the move loop [r2s_plans_ok] requires pairwise distinct sources. This is essential:
    carrying out the plan of table 1 (destination 2, 2 rows) TWICE in the example world "moves" the two
    stale rows of the emptied table 1 a second time: table 2 ends with the rows (6,0) (4,0) (5,0) (4,0)
    (5,0) and [WF] is broken. The plan loop never produces such a list: the sources of the plans are a
    sub-list of the selection ([r2s_plan_loop]), and [get_batch_tables] returns a duplicate-free list
    ([r2s_gbt_facts]); so this is NOT a defect of the operation; it documents why the proof needs the
    duplicate-freeness of the selection and not only the "a destination is never a source" argument. *)
Example r2s_dup_refuted :
  set_relations_plan 1 r2s_ex_rels r2s_ex_world = Ok (Some (1, 2, 2, 8%N)) r2s_ex_world /\
  match mapM [(1, 2, 2, 8%N); (1, 2, 2, 8%N)] set_relations_move r2s_ex_world with
  | Ok _ s' => Some (wf_b s', map (fun t => firstn (t_len t) (t_ents t)) (w_tables s'))
  | Err _ _ => None
  end = Some (false, [[(2, 0%N); (3, 0%N)]; []; [(6, 0%N); (4, 0%N); (5, 0%N); (4, 0%N); (5, 0%N)]]).
Proof. vm_compute. split; reflexivity. Qed.

(** ** The hypothesis "targets are proper handles" is necessary (as for the single-entity operation)

    A forged handle -- id 0 with a non-zero generation -- passes createTable's liveness check although
    it is neither the zero entity nor stored: the call succeeds and leaves a table with an illegal
    target ([St2] broken). Such handles cannot be obtained from the API ([r2b_handle_ok], see
    Rel2SetRel.v); the hypothesis of the theorems above excludes them. *)
Lemma r2s_forged_run :
  match w_set_relations_batch 0 [] [(3, (0, 5%N))] r2s_ex_world with
  | Ok _ s' => tgt s' (4, 0%N) 3 = Some (0, 5%N) /\ live s' (0, 5%N) = false
  | Err _ _ => False
  end.
Proof. vm_compute. split; reflexivity. Qed.

Example r2s_forged_handle_refuted : exists s', w_set_relations_batch 0 [] [(3, (0, 5%N))] r2s_ex_world = Ok tt s' /\ ~ St2 s'.
Proof.
  pose proof r2s_forged_run as R.
  destruct (w_set_relations_batch 0 [] [(3, (0, 5%N))] r2s_ex_world) as [[] s'|er s']; [|destruct R].
  destruct R as (R1 & R2). exists s'. split; [reflexivity|]. intros HS.
  destruct (r2_St2_targets s' (4, 0%N) 3 (0, 5%N) HS R1) as [Hz|Hl]; [discriminate Hz|].
  rewrite R2 in Hl. discriminate Hl.
Qed.

Definition r2s_all :=
  (r2s_plan_spec, r2s_move_spec, r2s_table_spec, r2s_table_obs, r2s_plan_loop, r2s_move_loop, r2s_gbt_facts, r2s_batch_gen,
   r2s_set_relations_batch_inv, r2s_set_relations_batch_post, r2s_set_relations_batch_spec, r2s_set_relations_batch_ok,
   r2s_ex_table, r2s_ex_batch, r2s_ex_script, r2s_ex_partial_failure_run, r2s_ex_partial_failure,
   r2s_ex_partial_failure_script, r2s_dup_refuted, r2s_forged_handle_refuted).
Print Assumptions r2s_all.
