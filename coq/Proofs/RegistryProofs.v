(** * RegistryProofs: stable, sequential, injective type IDs; the limit; rollback on a locked world;
    resources as a map. Property C18. *)
From Ark Require Import Model.Base Model.Registry.
From Coq Require Import Lia.

Lemma index_of_lt x l i : index_of x l = Some i -> i < length l /\ nth_error l i = Some x.
Proof.
  revert i; induction l as [|h t IH]; cbn [index_of]; intros i H; [discriminate|].
  destruct (Nat.eqb_spec h x) as [->|Hne].
  - inversion H; subst; cbn; split; [lia | reflexivity].
  - destruct (index_of x t) as [j|] eqn:E; [|discriminate]. inversion H; subst.
    destruct (IH j eq_refl) as [Hl Hn]. cbn; split; [lia | exact Hn].
Qed.

Lemma index_of_none x l : index_of x l = None <-> ~ In x l.
Proof.
  induction l as [|h t IH]; cbn [index_of]; [split; [intros _ []|reflexivity]|].
  destruct (Nat.eqb_spec h x) as [->|Hne].
  - split; [discriminate | intros H; exfalso; apply H; left; reflexivity].
  - destruct (index_of x t) as [j|] eqn:E.
    + split; [discriminate|]. intros H. exfalso. apply H. right.
      destruct (index_of_lt _ _ _ E) as [_ Hn]. eapply nth_error_In; exact Hn.
    + split; [|reflexivity]. intros _ [H|H]; [congruence | apply IH in H; [exact H | reflexivity]].
Qed.

Lemma index_of_app_l x l l' i : index_of x l = Some i -> index_of x (l ++ l') = Some i.
Proof.
  revert i; induction l as [|h t IH]; cbn [index_of app]; intros i H; [discriminate|].
  destruct (Nat.eqb h x); [exact H|].
  destruct (index_of x t) as [j|]; [|discriminate]. rewrite (IH j eq_refl). exact H.
Qed.

Lemma index_of_app_new x l : ~ In x l -> index_of x (l ++ [x]) = Some (length l).
Proof.
  induction l as [|h t IH]; cbn [index_of app length]; intros H.
  - rewrite Nat.eqb_refl; reflexivity.
  - destruct (Nat.eqb_spec h x) as [->|Hne]; [exfalso; apply H; left; reflexivity|].
    rewrite IH; [reflexivity | intros Hi; apply H; right; exact Hi].
Qed.

(** A registration history: the types asked for, in order. *)
Definition reg_step (bits : nat) (r : registry) (tp : nat) : registry :=
  match reg_component_id bits r tp with Some (_, _, r') => r' | None => r end.
Definition reg_run (bits : nat) (tps : list nat) : registry := fold_left (reg_step bits) tps [].

Lemma reg_step_prefix bits r tp : exists ext, reg_step bits r tp = r ++ ext.
Proof.
  unfold reg_step, reg_component_id. destruct (index_of tp r); [exists []; rewrite app_nil_r; reflexivity|].
  destruct (Nat.leb bits (length r)); [exists []; rewrite app_nil_r; reflexivity | exists [tp]; reflexivity].
Qed.

Lemma reg_step_nodup bits r tp : NoDup r -> NoDup (reg_step bits r tp).
Proof.
  intros H. unfold reg_step, reg_component_id. destruct (index_of tp r) eqn:E; [exact H|].
  destruct (Nat.leb bits (length r)); [exact H|].
  assert (Hn : ~ In tp r) by (apply index_of_none; exact E).
  clear E. induction r as [|h t IH]; cbn; [constructor; [intros []|constructor]|].
  inversion H; subst. constructor.
  - intros Hi. apply in_app_or in Hi. destruct Hi as [Hi|[Hi|[]]]; [contradiction|].
    apply Hn; left; symmetry; exact Hi.
  - apply IH; [assumption | intros Hi; apply Hn; right; exact Hi].
Qed.

Lemma reg_step_bound bits r tp : length r <= bits -> length (reg_step bits r tp) <= bits.
Proof.
  intros H. unfold reg_step, reg_component_id. destruct (index_of tp r); [exact H|].
  destruct (Nat.leb_spec bits (length r)); [exact H | rewrite app_length; cbn; lia].
Qed.

Lemma reg_run_inv bits tps : NoDup (reg_run bits tps) /\ length (reg_run bits tps) <= bits.
Proof.
  unfold reg_run. assert (H : NoDup (@nil nat) /\ length (@nil nat) <= bits) by (split; [constructor | cbn; lia]).
  revert H. generalize (@nil nat) as r. induction tps as [|tp tps IH]; cbn [fold_left]; intros r [Hn Hl]; [split; assumption|].
  apply IH. split; [apply reg_step_nodup; exact Hn | apply reg_step_bound; exact Hl].
Qed.

(** IDs are stable: once a type has an ID, every later lookup (after any further registrations)
    returns the same ID. *)
Theorem ids_stable bits r tp id later :
  index_of tp r = Some id -> index_of tp (fold_left (reg_step bits) later r) = Some id.
Proof.
  revert r; induction later as [|x later IH]; cbn [fold_left]; intros r H; [exact H|].
  apply IH. destruct (reg_step_prefix bits r x) as [ext ->]. apply index_of_app_l; exact H.
Qed.

(** IDs are sequential: a new type gets the number of types registered so far. *)
Theorem ids_sequential bits r tp :
  ~ In tp r -> length r < bits ->
  reg_component_id bits r tp = Some (length r, true, r ++ [tp]) /\ index_of tp (r ++ [tp]) = Some (length r).
Proof.
  intros Hn Hl. unfold reg_component_id.
  destruct (index_of tp r) eqn:E; [apply index_of_none in Hn; congruence|].
  destruct (Nat.leb_spec bits (length r)); [lia|]. split; [reflexivity | apply index_of_app_new; exact Hn].
Qed.

(** Distinct types have distinct IDs (in every reachable registry). *)
Theorem ids_injective bits tps a b i :
  index_of a (reg_run bits tps) = Some i -> index_of b (reg_run bits tps) = Some i -> a = b.
Proof.
  intros Ha Hb. apply index_of_lt in Ha. apply index_of_lt in Hb. destruct Ha as [_ Ha], Hb as [_ Hb]. congruence.
Qed.

(** The documented maximum can be registered; one more panics and changes nothing. *)
Theorem limit_reached bits r tp :
  length r = bits -> ~ In tp r -> reg_component_id bits r tp = None /\ reg_step bits r tp = r.
Proof.
  intros Hl Hn. unfold reg_step, reg_component_id.
  destruct (index_of tp r) eqn:E; [apply index_of_none in Hn; congruence|].
  rewrite Hl, Nat.leb_refl. split; reflexivity.
Qed.

Theorem full_capacity_usable bits r tp :
  length r < bits -> ~ In tp r -> exists id r', reg_component_id bits r tp = Some (id, true, r') /\ id < bits.
Proof.
  intros Hl Hn. destruct (ids_sequential bits r tp Hn Hl) as [H _]. eexists; eexists; split; [exact H | exact Hl].
Qed.

(** Registering a new type on a locked world panics and consumes no ID; known types still resolve. *)
Theorem locked_rollback bits r tp :
  ~ In tp r -> world_component_id bits true r tp = (None, r).
Proof.
  intros Hn. unfold world_component_id, reg_component_id.
  destruct (index_of tp r) eqn:E; [apply index_of_none in Hn; congruence|].
  destruct (Nat.leb bits (length r)); [reflexivity|].
  unfold reg_unregister_last. rewrite removelast_last. reflexivity.
Qed.

Theorem locked_known_ok bits r tp id :
  index_of tp r = Some id -> world_component_id bits true r tp = (Some id, r).
Proof. intros H. unfold world_component_id, reg_component_id. rewrite H. reflexivity. Qed.

(** Resources behave as a finite map from resource ID to value. *)
Definition res_abs (rs : resources) (id : nat) : option Z := res_get rs id.

Lemma nth_error_upd_eq {A} (l : list A) i x : i < length l -> nth_error (upd i x l) i = Some x.
Proof. revert i; induction l as [|h t IH]; intros [|i] H; cbn in *; try lia; [reflexivity | apply IH; lia]. Qed.
Lemma nth_error_upd_ne {A} (l : list A) i j x : i <> j -> nth_error (upd i x l) j = nth_error l j.
Proof. revert i j; induction l as [|h t IH]; intros [|i] [|j] H; cbn; try reflexivity; try lia. apply IH; lia. Qed.
Lemma length_upd {A} (l : list A) i x : length (upd i x l) = length l.
Proof. revert i; induction l as [|h t IH]; intros [|i]; cbn; try reflexivity. rewrite IH; reflexivity. Qed.

Theorem res_add_spec rs id v :
  id < length rs ->
  match res_add rs id v with
  | Some rs' => res_abs rs id = None /\ res_abs rs' id = Some v /\ (forall j, j <> id -> res_abs rs' j = res_abs rs j)
  | None => res_abs rs id <> None
  end.
Proof.
  intros Hl. unfold res_add, res_has, res_abs, res_get.
  destruct (nth_error rs id) as [[x|]|] eqn:E.
  - intros H; discriminate.
  - split; [reflexivity|]. split; [rewrite nth_error_upd_eq; [reflexivity | exact Hl]|].
    intros j Hj. rewrite nth_error_upd_ne; [reflexivity | congruence].
  - apply nth_error_None in E; lia.
Qed.

Theorem res_remove_spec rs id :
  match res_remove rs id with
  | Some rs' => res_abs rs id <> None /\ res_abs rs' id = None /\ (forall j, j <> id -> res_abs rs' j = res_abs rs j)
  | None => res_abs rs id = None
  end.
Proof.
  unfold res_remove, res_has, res_abs, res_get.
  destruct (nth_error rs id) as [[x|]|] eqn:E; try reflexivity.
  split; [discriminate|]. split.
  - rewrite nth_error_upd_eq; [reflexivity|]. apply nth_error_Some; congruence.
  - intros j Hj. rewrite nth_error_upd_ne; [reflexivity | congruence].
Qed.

Theorem res_has_spec rs id : res_has rs id = true <-> res_abs rs id <> None.
Proof.
  unfold res_has, res_abs, res_get. destruct (nth_error rs id) as [[x|]|]; split; congruence.
Qed.

Theorem res_reset_spec rs id : res_abs (res_reset rs) id = None.
Proof.
  unfold res_abs, res_get, res_reset. rewrite nth_error_map. destruct (nth_error rs id); reflexivity.
Qed.
