(** * Rel2HistAllO: package U, towards STAGE 3 (PARTIAL): observers in the merged class.

    Stage 3 of the package asks for the five batch operations in worlds WITH observers, by extending the erasure
    simulation of ObsErase ([oe_J], [oe_cut]) to the whole-batch event passes. That extension is NOT done here.
    What is closed here is the part of stage 3 that needs no new simulation ([..._partial]):

      [rel_allO_op o := rel_o_op o || r2h_batch_op o]      (Rel2HistO's class: Rel2HistQ's class + OObsNew / OObsRegister /
                                                            OObsUnregister / OEmit, any callback kind; + the five batch operations)
      [InvAllO s n := Inv2O s n]                            ([Inv2Q] without "no observer" = [Inv2Q (oe_E s) n])

    with the side condition that a batch line runs on a LOCKED world (it is rejected) or in a state in which NO OBSERVER IS
    REGISTERED ([r2u_batch_quiet]; observers may have been created, registered, fired and unregistered before, and may be
    registered again afterwards). Then no event pass runs inside the batch operation and stage 1 applies to the state itself.
    Missing for the full stage 3: batch lines in states with registered observers (event passes between the table
    planning and the moves), and Reset (stage 2) in the same class. Helper prefix [r2u_]. *)
From Ark Require Import Model.Base Model.Mask Model.Pool Model.Util Model.World Model.Run.
From Ark Require Import Proofs.TableProofs Proofs.MaskProofs Proofs.Hoare Proofs.WF Proofs.StorageA Proofs.StorageBDefs
  Proofs.StorageB_sb1 Proofs.StorageB_sb2 Proofs.StorageB_sb3 Proofs.LockWorld Proofs.StorageC Proofs.RelProofs
  Proofs.CacheProofs Proofs.QueryProofs Proofs.ResetShrinkProofs
  Proofs.Rel2Defs Proofs.Rel2Struct Proofs.Rel2Remove Proofs.Rel2SetRel Proofs.Rel2Ops Proofs.Rel2Maint Proofs.Rel2Hist
  Proofs.Rel2Cache Proofs.Rel2BatchHist Proofs.Rel2HistQ Proofs.Rel2HistAll Proofs.ObsErase Proofs.Rel2HistO.
From Ark Require Properties.Common Proofs.Rel2Check Proofs.StorageD.
From RecordUpdate Require Import RecordSet.
Import RecordSetNotations.
From Coq Require Import Lia.
Close Scope Z_scope.

Definition InvAllO (s : W) (n : nat) : Prop := Inv2O s n.

Definition rel_allO_op (o : op) : bool := (rel_o_op o || r2h_batch_op o)%bool.

(** a batch line runs on a locked world or in a state without registered observers *)
Definition r2u_batch_quiet (s : W) (o : op) : Prop := r2h_batch_op o = true -> is_locked s = false -> r2e_noobs s.

Lemma r2u_opO_cases : forall o, rel_allO_op o = true ->
  (rel_o_op o = true /\ r2h_batch_op o = false /\ r2h_created o = 0 /\ r2h_op_ids o = []) \/
  (rel_o_op o = false /\ r2h_batch_op o = true /\ rel_op_ids o = []).
Proof.
  intros o H. unfold rel_allO_op in H. destruct (r2h_batch_op o) eqn:Hb.
  - right. destruct o; try discriminate Hb; repeat split; reflexivity.
  - left. rewrite Bool.orb_false_r in H. destruct o; try discriminate Hb; repeat split; try reflexivity; exact H.
Qed.

(** a batch step under [Inv2O]: rejected on a locked world; stage 1 on an unlocked world without registered observers *)
Theorem step_inv_allO_batch_partial : forall debug wd s n line o,
  InvAllO s n -> n + r2h_created o + 4 < Nat.pow 2 31 -> decode_op line = Some o -> r2h_batch_op o = true ->
  (forall c, In c (r2h_op_ids o) -> c < length (w_reg s)) -> r2u_batch_quiet s o ->
  let s' := fst (step debug wd s line) in
  InvAllO s' (n + S (r2h_created o)) /\ w_reg s' = w_reg s /\
  (exists es, w_issued s' = w_issued s ++ es /\ forall e, In e es -> live s' e = true /\ live s e = false) /\
  (is_locked s = false -> r2e_noobs s').
Proof.
  intros debug wd s n line o HI Hn Hd Hb Hreg Hq. cbv zeta. unfold InvAllO in *.
  destruct (is_locked s) eqn:Hl.
  - rewrite (r2u_batch_locked debug wd s line o Hd Hb Hl).
    split; [apply (r2o_Inv2O_mono _ n); [lia|apply r2o_Inv2O_log; exact HI]|].
    split; [reflexivity|]. split; [exists []; split; [cbn; rewrite app_nil_r; reflexivity|intros e []]|discriminate].
  - pose proof (r2o_Q_of_O s n HI (Hq Hb Hl)) as HQ.
    destruct (step_inv_all_batch debug wd s n line o HQ Hn Hd Hb Hreg) as (S1 & S2 & S3 & _).
    split; [apply r2o_O_of_Q; exact S1|]. split; [exact S2|]. split; [exact S3|]. intros _. apply S1.
Qed.

Theorem step_inv_allO_partial : forall debug wd s n line o,
  InvAllO s n -> n + r2h_created o + 4 < Nat.pow 2 31 -> decode_op line = Some o -> rel_allO_op o = true ->
  (forall c, In c (rel_all_ids o) -> c < length (w_reg s)) -> rel_q_flt_ok (w_reg s) o -> r2u_batch_quiet s o ->
  let s' := fst (step debug wd s line) in
  InvAllO s' (n + S (r2h_created o)) /\ w_reg s' = w_reg s /\
  (exists es, w_issued s' = w_issued s ++ es /\ forall e, In e es -> live s' e = true /\ live s e = false).
Proof.
  intros debug wd s n line o HI Hn Hd Hop Hreg Hflt Hq. cbv zeta.
  destruct (r2u_opO_cases o Hop) as [(Ho & _ & Hc & _)|(_ & Hb & _)].
  - rewrite Hc in *. rewrite Nat.add_0_r in Hn. rewrite Nat.add_1_r.
    destruct (step_inv2O debug wd s n line o HI Hn Hd Ho) as (S1 & S2 & S3).
    { intros c Hin. apply Hreg. unfold rel_all_ids. apply in_or_app. left. exact Hin. }
    { exact Hflt. }
    split; [exact S1|]. split; [exact S2|].
    destruct S3 as [E|(e & E & L1 & L0)].
    + exists []. split; [rewrite app_nil_r; exact E|intros e []].
    + exists [e]. split; [exact E|]. intros x [<-|[]]. split; assumption.
  - destruct (step_inv_allO_batch_partial debug wd s n line o HI Hn Hd Hb) as (S1 & S2 & S3 & _).
    { intros c Hin. apply Hreg. unfold rel_all_ids. apply in_or_app. right. exact Hin. }
    { exact Hq. }
    split; [exact S1|]. split; [exact S2|exact S3].
Qed.

(** ** Histories (the side condition on a batch line depends on the state it runs in) *)

Definition rel_allO_line (reg : list ckind) (s : W) (line : list Z) : Prop :=
  exists o, decode_op line = Some o /\ rel_allO_op o = true /\ (forall c, In c (rel_all_ids o) -> c < length reg) /\
            rel_q_flt_ok reg o /\ r2u_batch_quiet s o.

Fixpoint rel_allO_hist (debug : bool) (reg : list ckind) (s : W) (lines : list (list Z)) : Prop :=
  match lines with
  | [] => True
  | l :: rest => rel_allO_line reg s l /\ rel_allO_hist debug reg (fst (step debug false s l)) rest
  end.

Theorem r2u_run_inv_O_partial : forall debug reg lines s n,
  InvAllO s n -> w_reg s = reg -> rel_allO_hist debug reg s lines -> n + r2h_total lines + 4 < Nat.pow 2 31 ->
  let s' := fold_left (fun s0 l => fst (step debug false s0 l)) lines s in
  InvAllO s' (n + r2h_total lines) /\ w_reg s' = reg.
Proof.
  intros debug reg lines. induction lines as [|l lines IH]; intros s n HI Hr HH Hb; cbv zeta.
  - cbn. rewrite Nat.add_0_r. split; assumption.
  - cbn [rel_allO_hist] in HH. destruct HH as ((o & Hd & Hop & Hids & Hflt & Hq) & HH).
    assert (Et : r2h_total (l :: lines) = r2h_cost l + r2h_total lines) by reflexivity.
    assert (Hcost : r2h_cost l = S (r2h_created o)) by (unfold r2h_cost; rewrite Hd; reflexivity).
    rewrite Et, Hcost in *. cbn [fold_left].
    destruct (step_inv_allO_partial debug false s n l o HI) as (S1 & S2 & _); auto; try lia.
    { rewrite Hr. exact Hids. }
    { rewrite Hr. exact Hflt. }
    destruct (IH _ (n + S (r2h_created o)) S1) as (A & B); [congruence|exact HH|lia|].
    replace (n + (S (r2h_created o) + r2h_total lines)) with (n + S (r2h_created o) + r2h_total lines) by lia.
    split; assumption.
Qed.

Theorem reachable_inv_allO_partial : forall c lines,
  cfg_ok2 c -> rel_allO_hist (sc_debug c) (sc_kinds c) (init_world c) lines -> r2h_total lines + 4 < Nat.pow 2 31 ->
  InvAllO (Properties.Common.exec c lines) (r2h_total lines).
Proof.
  intros c lines Hc HH Hb.
  destruct (r2u_run_inv_O_partial (sc_debug c) (sc_kinds c) lines (init_world c) 0 (r2o_init c Hc) eq_refl HH Hb) as (A & _).
  exact A.
Qed.

(** the histories of Rel2HistO are covered (they contain no batch line) *)
Lemma rel_o_hist_allO : forall debug reg lines s, Forall (rel_o_line reg) lines -> rel_allO_hist debug reg s lines.
Proof.
  intros debug reg lines. induction lines as [|l lines IH]; intros s HF; [exact I|].
  inversion HF as [|? ? (o & Hd & Hop & Hids & Hflt) HF']; subst. split; [|apply IH; exact HF'].
  assert (Hall : rel_allO_op o = true) by (unfold rel_allO_op; rewrite Hop; reflexivity).
  destruct (r2u_opO_cases o Hall) as [(_ & Hb & _ & E)|(Hq & _)]; [|congruence].
  exists o. split; [exact Hd|]. split; [exact Hall|]. split; [|split; [exact Hflt|]].
  - intros c Hin. unfold rel_all_ids in Hin. rewrite E, app_nil_r in Hin. apply Hids. exact Hin.
  - intros Hb'. congruence.
Qed.

(** C04 over the class *)
Theorem targets_always_zero_or_alive_allO_partial : forall c lines e cmp x,
  cfg_ok2 c -> rel_allO_hist (sc_debug c) (sc_kinds c) (init_world c) lines -> r2h_total lines + 4 < Nat.pow 2 31 ->
  tgt (Properties.Common.exec c lines) e cmp = Some x ->
  x = zero_ent \/ live (Properties.Common.exec c lines) x = true.
Proof.
  intros c lines e cmp x Hc Hl Hb H. destruct (reachable_inv_allO_partial c lines Hc Hl Hb) as (HS & _).
  apply (r2_St2_targets _ e cmp x HS H).
Qed.

(** Reset succeeds in every unlocked reachable state (observers or not) *)
Theorem reachable_unlocked_reset_succeeds_allO_partial : forall c lines,
  cfg_ok2 c -> rel_allO_hist (sc_debug c) (sc_kinds c) (init_world c) lines -> r2h_total lines + 4 < Nat.pow 2 31 ->
  is_locked (Properties.Common.exec c lines) = false ->
  exists s', step_op (sc_debug c) OReset (Properties.Common.exec c lines) = Ok [] s' /\ St2 s' /\ r2d_KeysLive s' /\
    is_locked s' = false /\ (forall e, live s' e = false) /\ w_reg s' = w_reg (Properties.Common.exec c lines).
Proof. intros c lines Hc Hl Hb Hlk. exact (r2o_reset_step (sc_debug c) _ _ (reachable_inv_allO_partial c lines Hc Hl Hb) Hlk). Qed.

(* ================================================================================================ *)
(** * Non-vacuity *)

Definition r2u_noobs_b (s : W) : bool := forallb (fun kv : nat * agg => negb (g_has (snd kv))) (w_oagg s).

Lemma r2u_noobs_b_sound : forall s, r2u_noobs_b s = true -> r2e_noobs s.
Proof.
  intros s H ev. unfold has_obs, get_agg. unfold r2u_noobs_b in H. induction (w_oagg s) as [|[k v] t IH]; [reflexivity|].
  cbn [forallb snd] in H. apply andb_true_iff in H. destruct H as (H1 & H2). cbn [afind].
  destruct (Nat.eqb k ev); [apply negb_true_iff in H1; exact H1|apply IH; exact H2].
Qed.

Definition rel_allO_line_b (reg : list ckind) (s : W) (line : list Z) : bool :=
  match decode_op line with
  | Some o => (rel_allO_op o && forallb (fun c => Nat.ltb c (length reg)) (rel_all_ids o) && rel_q_flt_okb reg o &&
               (negb (r2h_batch_op o) || is_locked s || r2u_noobs_b s))%bool
  | None => false
  end.

Fixpoint rel_allO_hist_b (debug : bool) (reg : list ckind) (s : W) (lines : list (list Z)) : bool :=
  match lines with
  | [] => true
  | l :: rest => (rel_allO_line_b reg s l && rel_allO_hist_b debug reg (fst (step debug false s l)) rest)%bool
  end.

Lemma rel_allO_hist_b_sound : forall debug reg lines s, rel_allO_hist_b debug reg s lines = true -> rel_allO_hist debug reg s lines.
Proof.
  intros debug reg lines. induction lines as [|l lines IH]; intros s H; [exact I|].
  cbn [rel_allO_hist_b] in H. apply andb_true_iff in H. destruct H as (H1 & H2). split; [|apply IH; exact H2].
  unfold rel_allO_line_b in H1. destruct (decode_op l) as [o|] eqn:E; [|discriminate].
  apply andb_true_iff in H1. destruct H1 as (H123 & H4). apply andb_true_iff in H123. destruct H123 as (H12 & H3).
  apply andb_true_iff in H12. destruct H12 as (H1 & H2').
  exists o. split; [exact E|]. split; [exact H1|]. split; [|split; [apply rel_q_flt_okb_sound; exact H3|]].
  - intros c Hc. rewrite forallb_forall in H2'. apply Nat.ltb_lt. apply H2'. exact Hc.
  - intros Hb Hl. rewrite Hb, Hl in H4. cbn in H4. apply r2u_noobs_b_sound. exact H4.
Qed.

Local Open Scope Z_scope.

(** observer 0 = OnAddRelations for component 3, unregisters itself in its callback; observer 1 = OnCreateEntity, passive *)
Definition r2u_scriptO : list (list Z) :=
  [[0]; [0];
   [25; 254; 1;3; 0; 0; 0; 1];            (* observer 0 *)
   [25; 249; 0; 0; 0; 0; 0];              (* observer 1 *)
   [26; 0]; [26; 1];                      (* both registered *)
   [2; 2;0;3; 1; 3;0];                    (* handle 2 with relation 3 -> handle 0: both callbacks fire, observer 0 unregisters itself *)
   [15; 0; 1;0; 0; 0; 0];                 (* filter 0: component 0 *)
   [19; 0; 0];                            (* a query: LOCKED; observer 1 is still registered *)
   [30; 2; 2;0;3; 1; 3;0; 1; 0;7];        (* NewBatch with an observer registered, but on the locked world: rejected *)
   [21; 0];
   [27; 1];                               (* unregister observer 1: no observer is registered from here on *)
   [30; 2; 2;0;3; 1; 3;0; 1; 0;7];        (* NewBatch with callback: handles 3, 4 *)
   [32; 0; 0; 1;3; 1; 3;1];               (* SetRelationsBatch through filter 0 *)
   [31; 0; 0; 1;1; 0; 0; 0];              (* ExchangeBatch *)
   [26; 0];                               (* observer 0 registered again *)
   [10; 2; 1; 3;0];                       (* SetRelations on handle 2: the callback fires and unregisters the observer *)
   [12; 0; 0; 1];                         (* RemoveEntities: no observer is registered *)
   [38]].

Example r2u_scriptO_covered : rel_allO_hist_b false (sc_kinds Rel2Check.r2_cfg) (init_world Rel2Check.r2_cfg) r2u_scriptO = true.
Proof. vm_compute. reflexivity. Qed.

(** the script is in neither of the two classes that are merged *)
Example r2u_scriptO_new : forallb (rel_o_line_b (sc_kinds Rel2Check.r2_cfg)) r2u_scriptO = false /\
                          forallb (rel_all_line_b (sc_kinds Rel2Check.r2_cfg)) r2u_scriptO = false.
Proof. vm_compute. split; reflexivity. Qed.

Example r2u_scriptO_runs :
  Rel2Check.r2_flags Rel2Check.r2_cfg (init_world Rel2Check.r2_cfg) r2u_scriptO = [0;0; 0;0; 0;0; 0; 0; 0; 1; 0; 0; 0; 0; 0; 0; 0; 0; 0] /\
  r2o_logs false (init_world Rel2Check.r2_cfg) r2u_scriptO = [0;0; 0;0; 0;0; 2; 0; 0; 0; 0; 0; 2; 3; 3; 0; 1; 0; 0]%nat.
Proof. vm_compute. split; reflexivity. Qed.

Example r2u_scriptO_inv : InvAllO (Properties.Common.exec Rel2Check.r2_cfg r2u_scriptO) (r2h_total r2u_scriptO).
Proof.
  apply reachable_inv_allO_partial; [exact r2q_cfg_ok|apply rel_allO_hist_b_sound; exact r2u_scriptO_covered|].
  apply r2_N_small. vm_compute. reflexivity.
Qed.

Local Close Scope Z_scope.

Definition r2u_all_3 :=
  (step_inv_allO_batch_partial, step_inv_allO_partial, r2u_run_inv_O_partial, reachable_inv_allO_partial, rel_o_hist_allO,
   targets_always_zero_or_alive_allO_partial, reachable_unlocked_reset_succeeds_allO_partial, rel_allO_hist_b_sound,
   r2u_scriptO_inv, r2u_scriptO_new, r2u_scriptO_runs).
Print Assumptions r2u_all_3.
